import ScVerif.C01.Model
/-!
# C01 — the plain reference: a register and a map

The reference a reader can check in a minute.  A Collection is a *function* `String → Option Item`
(plus the clock counter and the rng), a Value a register.  Each call is defined in ONE step:
resolve the id → decide the error in the documented priority → otherwise
`new = after(old, merge(old, before(old, msg)))`, store it, emit one event.  There is no second read,
no re-validation, no `Aborted` (except id-generation exhaustion), no provisional `created` message,
no retry loop.  `List` is specified relationally: the ids are strictly increasing and the entries are
exactly the included ones.
-/
namespace ScVerif.C01
variable {M K R : Type}

/-- The new message of a write whose old message is `old` (absent: `none`), or the code of the
failed precondition: expected value first, then the expected check. `base` is what the masked merge
starts from (the old message, or a zero message when there is none). -/
def Spec.newValue (ops : MsgOps M K) (wr : WriteReq M K) (u : Upd K) (msg : M) (old : Option M) (base : M) :
    Except Code M :=
  if (match wr.expectedValue with | some ev => !(eqOpt ops old (some ev)) | none => false) then
    .error .failedPrecondition
  else
    match (match wr.expectedCheck with | some chk => chk old | none => none) with
    | some c => .error c
    | none =>
      let msg' := match wr.before with | some f => f old msg | none => msg
      let merged := ops.merge u base msg'
      .ok (match wr.after with | some f => f old merged | none => merged)

/-! ## Register -/

/-- `Value.Set` on the register. -/
def Spec.set (cfg : Cfg M K R) (s : VState M) (msg : M) (wr : WriteReq M K) : VOut M × VState M :=
  let u := fieldUpdater cfg wr
  match cfg.ops.validate u msg with
  | some c => ({ val := none, err := some c, events := [] }, s)
  | none =>
    match Spec.newValue cfg.ops wr u msg s.value (s.value.getD cfg.ops.zero) with
    | .error c => ({ val := none, err := some c, events := [] }, s)
    | .ok new =>
      -- stored at the write time, announced at the write time (two clock readings if none is given)
      match wr.writeTime with
      | some t =>
        ({ val := some new, err := none, events := [{ value := new, time := t }] },
         { s with value := some new, changeTime := t })
      | none =>
        ({ val := some new, err := none, events := [{ value := new, time := s.clock + cfg.tick }] },
         { value := some new, changeTime := s.clock, clock := s.clock + cfg.tick + cfg.tick })

def Spec.vstep (cfg : Cfg M K R) (s : VState M) : VOp M K → VRes M × VState M
  | .get ro => (.got (s.value.map (cfg.ops.filter ro.readMask)), s)
  | .set msg wr => let (o, s') := Spec.set cfg s msg wr; (.wrote o, s')

def Spec.vrun (cfg : Cfg M K R) : VState M → List (VOp M K) → List (VRes M) × VState M
  | s, [] => ([], s)
  | s, op :: ops =>
    let (r, s1) := Spec.vstep cfg s op
    let (rs, s2) := Spec.vrun cfg s1 ops
    (r :: rs, s2)

/-! ## Map -/

structure SState (M R : Type) where
  m : String → Option (Item M)
  clock : Int
  rng : R

/-- The contents of a model state as a function. -/
def abs (s : CState M R) : SState M R := { m := lookup s.items, clock := s.clock, rng := s.rng }

def SState.put (t : SState M R) (id : String) (it : Item M) : SState M R :=
  { t with m := fun k => if k = id then some it else t.m k }

def SState.del (t : SState M R) (id : String) : SState M R :=
  { t with m := fun k => if k = id then none else t.m k }

def failOut (c : Code) (idCalls : List String) (created : Nat) : COut M :=
  { val := none, err := some c, events := [], idCalls := idCalls, createdCalls := created }

/-- Store `new` under `id` and announce it. -/
def Spec.commit (cfg : Cfg M K R) (wr : WriteReq M K) (t : SState M R) (id : String) (old : Option M) (new : M)
    (idCalls : List String) (created : Nat) : COut M × SState M R :=
  let ev (time : Int) : CEvent M :=
    { id := id, time := time, kind := if old.isNone then .add else .update, old := old, new := some new }
  match wr.writeTime with
  | some w =>
    ({ val := some new, err := none, events := [ev w], idCalls := idCalls, createdCalls := created },
     t.put id { body := new, time := w })
  | none =>
    ({ val := some new, err := none, events := [ev (t.clock + cfg.tick)], idCalls := idCalls, createdCalls := created },
     { (t.put id { body := new, time := t.clock }) with clock := t.clock + cfg.tick + cfg.tick })

/-- `Collection.Update` on the map. -/
def Spec.update (cfg : Cfg M K R) (t : SState M R) (id : String) (msg : M) (wr : WriteReq M K) :
    COut M × SState M R :=
  -- an id is absent when the caller gave none, or when the id interceptor maps it to the empty key
  let absent := idAbsent cfg id
  let id := icptId cfg id
  let u := fieldUpdater cfg wr
  match cfg.ops.validate u msg with
  | some c => (failOut c [] 0, t)
  | none =>
    -- resolve the id (generation reads the rng; the id callback hears about a generated id)
    let resolved : Except Code (String × List String) × SState M R :=
      if absent && wr.genEmptyID then
        match genID cfg (fun k => (t.m k).isSome) t.rng with
        | (none, rng') => (.error .aborted, { t with rng := rng' })
        | (some id', rng') => (.ok (id', if wr.idCb then [id'] else []), { t with rng := rng' })
      else (.ok (id, []), t)
    match resolved with
    | (.error c, t1) => (failOut c [] 0, t1)
    | (.ok (id, idCalls), t1) =>
      match t1.m id with
      | some it =>
        if wr.expectAbsent then (failOut .alreadyExists idCalls 0, t1)
        else
          match Spec.newValue cfg.ops wr u msg (some it.body) it.body with
          | .error c => (failOut c idCalls 0, t1)
          | .ok new => Spec.commit cfg wr t1 id (some it.body) new idCalls 0
      | none =>
        if !wr.createIfAbsent then (failOut .notFound idCalls 0, t1)
        else
          let created := if wr.createdCb then 1 else 0
          -- checks and interceptors of a creating write see a zero message
          match Spec.newValue cfg.ops wr u msg (some cfg.ops.zero) cfg.ops.zero with
          | .error c => (failOut c idCalls created, t1)
          | .ok new => Spec.commit cfg wr t1 id none new idCalls created

/-- `Collection.Delete` on the map. -/
def Spec.delete (cfg : Cfg M K R) (t : SState M R) (id : String) (wr : WriteReq M K) : COut M × SState M R :=
  let id := icptId cfg id
  match t.m id with
  | none =>
    if wr.allowMissing then ({ val := none, err := none, events := [], idCalls := [], createdCalls := 0 }, t)
    else (failOut .notFound [] 0, t)
  | some it =>
    match (match wr.expectedCheck with | some chk => chk (some it.body) | none => none) with
    | some c => ({ (failOut c [] 0 : COut M) with val := some it.body }, t)
    | none =>
      if (match wr.expectedValue with | some ev => !(cfg.ops.eq it.body ev) | none => false) then
        ({ (failOut .failedPrecondition [] 0 : COut M) with val := some it.body }, t)
      else
        ({ val := some it.body, err := none,
           events := [{ id := id, time := t.clock, kind := .remove, old := some it.body, new := none }],
           idCalls := [], createdCalls := 0 },
         { (t.del id) with clock := t.clock + cfg.tick })

/-- What `List` must return: ids strictly increasing, entries exactly the included ones, each
projected by the read mask. -/
def ListSpec (cfg : Cfg M K R) (m : String → Option (Item M)) (ro : ReadReq M K) (out : List (String × M)) : Prop :=
  (out.map (·.1)).Pairwise (· < ·) ∧
  ∀ id v, (id, v) ∈ out ↔
    ∃ it, m id = some it ∧ excluded ro id it.body = false ∧ v = cfg.ops.filter ro.readMask it.body

/-- One call of the reference map: the result it returns and the contents it leaves. -/
inductive Spec.Step (cfg : Cfg M K R) : SState M R → COp M K → CRes M → SState M R → Prop
  | get (t id ro) :
      Spec.Step cfg t (.get id ro) (.got ((t.m (icptId cfg id)).map (fun it => cfg.ops.filter ro.readMask it.body))) t
  | list (t ro out) : ListSpec cfg t.m ro out → Spec.Step cfg t (.list ro) (.listed out) t
  | update (t id msg wr) :
      Spec.Step cfg t (.update id msg wr) (.wrote (Spec.update cfg t id msg wr).1) (Spec.update cfg t id msg wr).2
  | add (t id msg wr) :
      Spec.Step cfg t (.add id msg wr)
        (.wrote (Spec.update cfg t id msg { wr with expectAbsent := true, createIfAbsent := true }).1)
        (Spec.update cfg t id msg { wr with expectAbsent := true, createIfAbsent := true }).2
  | delete (t id wr) :
      Spec.Step cfg t (.delete id wr) (.wrote (Spec.delete cfg t id wr).1) (Spec.delete cfg t id wr).2

inductive Spec.Run (cfg : Cfg M K R) : SState M R → List (COp M K) → List (CRes M) → SState M R → Prop
  | nil (t) : Spec.Run cfg t [] [] t
  | cons {t op r t1 ops rs t2} : Spec.Step cfg t op r t1 → Spec.Run cfg t1 ops rs t2 →
      Spec.Run cfg t (op :: ops) (r :: rs) t2

end ScVerif.C01
