import ScVerif.C01.Outcome
/-! Which ids a call can store under, announce and report: the id interceptor's image of the id it was
given, or of a non-empty generated candidate. -/
namespace ScVerif.C01
variable {M K R : Type}

/-- `k` is the interceptor's image of the given id, or of a non-empty generated candidate -/
def IdOf (cfg : Cfg M K R) (id k : String) : Prop :=
  k = icptId cfg id ∨ ∃ cand, cand ≠ "" ∧ k = icptId cfg cand

theorem IdOf.image {cfg : Cfg M K R} {id k : String} (h : IdOf cfg id k) : ∃ x, k = icptId cfg x := by
  rcases h with h | ⟨c, _, h⟩
  · exact ⟨id, h⟩
  · exact ⟨c, h⟩

theorem genID_image (cfg : Cfg M K R) (used : String → Bool) (rng : R) (id1 : String) (rng' : R)
    (hg : genID cfg used rng = (some id1, rng')) : ∃ cand, cand ≠ "" ∧ id1 = icptId cfg cand := by
  unfold genID at hg
  rcases hloop : genLoop cfg.gen (fun cand => used (icptId cfg cand)) 10 0 rng with ⟨r, rg⟩
  rw [hloop] at hg
  cases r with
  | none => simp at hg
  | some c =>
    simp only [Option.map_some, Prod.mk.injEq, Option.some.injEq] at hg
    exact ⟨c, (genLoop_some _ _ _ _ _ _ _ hloop).1, hg.1.symm⟩

theorem Resolved.idOf {cfg : Cfg M K R} {t : SState M R} {id : String} {wr : WriteReq M K} {id1 calls t1}
    (h : Resolved cfg t id wr id1 calls t1) : IdOf cfg id id1 ∧ ∀ k ∈ calls, k = id1 := by
  rcases h with ⟨_, e, ec, _⟩ | ⟨_, rng', hg, ec, _⟩
  · subst ec; exact ⟨Or.inl e, by simp⟩
  · refine ⟨Or.inr (genID_image cfg _ _ _ _ hg), ?_⟩
    subst ec
    cases wr.idCb <;> simp

/-- `Update`/`Add`: every id in the events and in the id-callback invocations, and every key the call
adds to the contents, is the interceptor's image of the given id or of a generated candidate. -/
theorem update_ids (cfg : Cfg M K R) (h : EqRefl cfg.ops) (s : CState M R) (id : String) (msg : M)
    (wr : WriteReq M K) :
    (∀ e ∈ (Coll.update cfg s id msg wr).1.events, IdOf cfg id e.id) ∧
    (∀ k ∈ (Coll.update cfg s id msg wr).1.idCalls, IdOf cfg id k) ∧
    (∀ k, lookup (Coll.update cfg s id msg wr).2.items k ≠ none → lookup s.items k ≠ none ∨ IdOf cfg id k) := by
  have he := coll_update_eq cfg h s id msg wr
  have hm : ∀ k, lookup (Coll.update cfg s id msg wr).2.items k = (abs (Coll.update cfg s id msg wr).2).m k :=
    fun _ => rfl
  simp only [hm]
  rw [he.1, he.2]
  have ho := spec_update_outcome cfg (abs s) id msg wr
  generalize Spec.update cfg (abs s) id msg wr = r at ho
  have habs : ∀ k, (abs s).m k = lookup s.items k := fun _ => rfl
  have fail : ∀ (c : Code) (id1 : String) (calls : List String) (n : Nat) (t1 : SState M R),
      Resolved cfg (abs s) id wr id1 calls t1 →
      (∀ e ∈ (failOut c calls n : COut M).events, IdOf cfg id e.id) ∧
      (∀ k ∈ (failOut c calls n : COut M).idCalls, IdOf cfg id k) ∧
      (∀ k, t1.m k ≠ none → lookup s.items k ≠ none ∨ IdOf cfg id k) := by
    intro c id1 calls n t1 hr
    refine ⟨by simp [failOut], ?_, ?_⟩
    · intro k hk
      have := hr.idOf.2 k hk
      rw [this]; exact hr.idOf.1
    · intro k hk
      rw [hr.m_eq.1, habs] at hk
      exact Or.inl hk
  have commit : ∀ (id1 : String) (calls : List String) (n : Nat) (t1 : SState M R) (old : Option M) (new : M),
      Resolved cfg (abs s) id wr id1 calls t1 →
      (∀ e ∈ (Spec.commit cfg wr t1 id1 old new calls n).1.events, IdOf cfg id e.id) ∧
      (∀ k ∈ (Spec.commit cfg wr t1 id1 old new calls n).1.idCalls, IdOf cfg id k) ∧
      (∀ k, (Spec.commit cfg wr t1 id1 old new calls n).2.m k ≠ none → lookup s.items k ≠ none ∨ IdOf cfg id k) := by
    intro id1 calls n t1 old new hr
    have hid := hr.idOf
    have hcalls : ∀ k ∈ calls, IdOf cfg id k := fun k hk => by rw [hid.2 k hk]; exact hid.1
    have hkeys : ∀ k, (if k = id1 then some (⟨new, 0⟩ : Item M) else t1.m k) ≠ none →
        lookup s.items k ≠ none ∨ IdOf cfg id k := by
      intro k hk
      by_cases hkid : k = id1
      · rw [hkid]; exact Or.inr hid.1
      · simp only [hkid, ↓reduceIte] at hk
        rw [hr.m_eq.1, habs] at hk
        exact Or.inl hk
    unfold Spec.commit
    cases wr.writeTime with
    | some w =>
      refine ⟨by simp; exact hid.1, hcalls, ?_⟩
      intro k hk
      apply hkeys k
      simp only [SState.put] at hk
      by_cases hkid : k = id1 <;> simp_all
    | none =>
      refine ⟨by simp; exact hid.1, hcalls, ?_⟩
      intro k hk
      apply hkeys k
      simp only [SState.put] at hk
      by_cases hkid : k = id1 <;> simp_all
  cases ho with
  | invalid c _ =>
    refine ⟨by simp [failOut], by simp [failOut], ?_⟩
    intro k hk; rw [habs] at hk; exact Or.inl hk
  | exhausted rng' _ _ _ =>
    refine ⟨by simp [failOut], by simp [failOut], ?_⟩
    intro k hk; exact Or.inl hk
  | alreadyExists id1 calls t1 it _ hr _ _ => exact fail _ _ _ _ _ hr
  | precondition id1 calls t1 it c _ hr _ _ _ => exact fail _ _ _ _ _ hr
  | notFound id1 calls t1 _ hr _ _ => exact fail _ _ _ _ _ hr
  | createFailed id1 calls t1 c _ hr _ _ _ => exact fail _ _ _ _ _ hr
  | updated id1 calls t1 it new _ hr _ _ _ => exact commit _ _ _ _ _ _ hr
  | created id1 calls t1 new _ hr _ _ _ => exact commit _ _ _ _ _ _ hr

/-- `Delete` acts on the interceptor's image of the id it is given: what it returns is the message
stored there, the one event it emits (when it succeeds on a present item) is a REMOVE of that id with
that message, it reports nothing through the id callback, and afterwards exactly that key is gone. -/
theorem delete_ids (cfg : Cfg M K R) (h : EqRefl cfg.ops) (s : CState M R) (id : String) (wr : WriteReq M K) :
    (∀ e ∈ (Coll.delete cfg s id wr).1.events,
      e.id = icptId cfg id ∧ e.kind = .remove ∧ e.new = none ∧ e.old = (Coll.delete cfg s id wr).1.val) ∧
    (Coll.delete cfg s id wr).1.idCalls = [] ∧
    ((Coll.delete cfg s id wr).1.err = none →
      (Coll.delete cfg s id wr).1.val = (lookup s.items (icptId cfg id)).map (·.body) ∧
      ((Coll.delete cfg s id wr).1.events = [] ↔ lookup s.items (icptId cfg id) = none) ∧
      ∀ k, lookup (Coll.delete cfg s id wr).2.items k = if k = icptId cfg id then none else lookup s.items k) := by
  have he := coll_delete_eq cfg h s id wr
  have hm : ∀ k, lookup (Coll.delete cfg s id wr).2.items k = (abs (Coll.delete cfg s id wr).2).m k :=
    fun _ => rfl
  simp only [hm]
  rw [he.1, he.2]
  unfold Spec.delete
  have habs : ∀ k, (abs s).m k = lookup s.items k := fun _ => rfl
  simp only [habs]
  cases hl : lookup s.items (icptId cfg id) with
  | none =>
    cases wr.allowMissing with
    | false => simp [failOut]
    | true =>
      simp only [↓reduceIte, List.not_mem_nil, false_implies, implies_true, Option.map_none, true_and, habs]
      intro _ k
      by_cases hk : k = icptId cfg id
      · simp [hk, hl]
      · simp [hk]
  | some it =>
    simp only []
    cases wr.expectedCheck with
    | none =>
      cases wr.expectedValue with
      | none =>
        simp only [Bool.false_eq_true, ↓reduceIte, SState.del, habs]
        simp
      | some ev =>
        cases hq : cfg.ops.eq it.body ev <;> simp [failOut, SState.del, habs, hq]
    | some chk =>
      cases hc : chk (some it.body) with
      | some e => simp [failOut, hc]
      | none =>
        cases wr.expectedValue with
        | none =>
          simp only [hc, Bool.false_eq_true, ↓reduceIte, SState.del, habs]
          simp
        | some ev =>
          cases hq : cfg.ops.eq it.body ev <;> simp [failOut, SState.del, habs, hq, hc]

/-- the ids a result carries: event ids and id-callback invocations -/
def resIds : CRes M → List String
  | .wrote o => o.events.map (·.id) ++ o.idCalls
  | _ => []

theorem step_ids (cfg : Cfg M K R) (h : EqRefl cfg.ops) (s : CState M R) (op : COp M K) :
    (∀ k ∈ resIds (Coll.step cfg s op).1, ∃ x, k = icptId cfg x) ∧
    (∀ k, lookup (Coll.step cfg s op).2.items k ≠ none → lookup s.items k ≠ none ∨ ∃ x, k = icptId cfg x) := by
  have upd : ∀ id msg wr,
      (∀ k ∈ resIds (CRes.wrote (Coll.update cfg s id msg wr).1), ∃ x, k = icptId cfg x) ∧
      (∀ k, lookup (Coll.update cfg s id msg wr).2.items k ≠ none →
        lookup s.items k ≠ none ∨ ∃ x, k = icptId cfg x) := by
    intro id msg wr
    have hu := update_ids cfg h s id msg wr
    refine ⟨?_, fun k hk => (hu.2.2 k hk).imp (fun x => x) IdOf.image⟩
    intro k hk
    simp only [resIds, List.mem_append, List.mem_map] at hk
    rcases hk with ⟨e, he, rfl⟩ | hk
    · exact (hu.1 e he).image
    · exact (hu.2.1 k hk).image
  cases op with
  | get id ro => exact ⟨by simp [Coll.step, resIds], fun k hk => Or.inl hk⟩
  | list ro => exact ⟨by simp [Coll.step, resIds], fun k hk => Or.inl hk⟩
  | update id msg wr => exact upd id msg wr
  | add id msg wr => exact upd id msg _
  | delete id wr =>
    have hd := delete_ids cfg h s id wr
    simp only [Coll.step]
    refine ⟨?_, ?_⟩
    · intro k hk
      simp only [resIds, List.mem_append, List.mem_map, hd.2.1, List.not_mem_nil, or_false] at hk
      rcases hk with ⟨e, he, rfl⟩
      exact ⟨id, (hd.1 e he).1⟩
    · intro k hk
      rcases coll_delete_items cfg h s id wr with e | e
      · rw [e] at hk; exact Or.inl hk
      · rw [e, lookup_eraseItem] at hk
        split at hk
        · exact absurd rfl hk
        · exact Or.inl hk

end ScVerif.C01
