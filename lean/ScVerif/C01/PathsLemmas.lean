import ScVerif.C01.Paths
/-!
Lemmas about `withoutNestedPaths` / `isWritablePath` / `selects` on lists of segment lists.
-/
namespace ScVerif.C01.Paths

/-- well-formed path: at least one segment, no `.` inside a segment -/
def WF (ps : List Seg) : Prop := ps ≠ [] ∧ DotFree ps

/-- the decidable form of "some path of the list is a proper segment-prefix of `ps`" -/
def nestedIn (pss : List (List Seg)) (ps : List Seg) : Bool := pss.any (fun qs => decide (ProperPrefix qs ps))

theorem inside_eq_decide (qs ps : List Seg) (hq : WF qs) (hp : WF ps) :
    inside (join ps) (join qs) = decide (ProperPrefix qs ps) := by
  rw [Bool.eq_iff_iff, decide_eq_true_iff]
  exact inside_iff qs ps hq.2 hp.2 hq.1

theorem any_inside_eq (pss : List (List Seg)) (hwf : ∀ ps ∈ pss, WF ps) (ps : List Seg) (hp : WF ps) :
    (pss.map join).any (fun q => inside (join ps) q) = nestedIn pss ps := by
  unfold nestedIn
  rw [List.any_map, Bool.eq_iff_iff, List.any_eq_true, List.any_eq_true]
  constructor
  · rintro ⟨qs, hqs, h⟩
    exact ⟨qs, hqs, by rw [← inside_eq_decide qs ps (hwf qs hqs) hp]; exact h⟩
  · rintro ⟨qs, hqs, h⟩
    exact ⟨qs, hqs, by simp only [Function.comp]; rw [inside_eq_decide qs ps (hwf qs hqs) hp]; exact h⟩

theorem withoutNestedPaths_map (pss : List (List Seg)) (hwf : ∀ ps ∈ pss, WF ps) :
    withoutNestedPaths (pss.map join) = (pss.filter (fun ps => !nestedIn pss ps)).map join := by
  unfold withoutNestedPaths
  rw [List.filter_map]
  congr 1
  apply List.filter_congr
  intro ps hps
  simp only [Function.comp]
  rw [any_inside_eq pss hwf ps (hwf ps hps)]

/-- `leaf == p || HasPrefix(leaf, p+".")` is `HasPrefix(leaf+".", p+".")` -/
theorem eq_or_inside_iff (leaf p : Path) :
    (leaf == p || inside leaf p) = true ↔ (p ++ ['.']) <+: (leaf ++ ['.']) := by
  unfold inside
  rw [Bool.or_eq_true, List.isPrefixOf_iff_prefix, beq_iff_eq]
  constructor
  · rintro (rfl | h)
    · exact List.prefix_refl _
    · exact List.IsPrefix.trans h (List.prefix_append _ _)
  · intro h
    rw [List.prefix_concat_iff] at h
    rcases h with h | h
    · left
      exact (List.append_cancel_right h).symm
    · right; exact h

theorem join_concat_empty (l : List Seg) (hl : l ≠ []) : join (l ++ [[]]) = join l ++ ['.'] := by
  cases l with
  | nil => exact absurd rfl hl
  | cons s rest => simp [join, tailJoin]

theorem properPrefix_concat (ps l : List Seg) (x : Seg) : ProperPrefix ps (l ++ [x]) ↔ ps <+: l := by
  constructor
  · rintro ⟨r, hr, h⟩
    -- r ≠ []: split its last element off
    obtain ⟨r', y, rfl⟩ : ∃ r' y, r = r' ++ [y] := by
      cases hrl : r.reverse with
      | nil => simp at hrl; exact absurd hrl hr
      | cons y t => exact ⟨t.reverse, y, by rw [← List.reverse_reverse r, hrl]; simp⟩
    rw [← List.append_assoc] at h
    have := List.append_inj' h rfl
    exact ⟨r', this.1.symm⟩
  · rintro ⟨r, rfl⟩
    exact ⟨r ++ [x], by simp, by simp⟩

/-- one path against one leaf: the string test "the leaf's path is the path or lies inside it" is
"the path's segments are a prefix of the leaf's" -/
theorem eq_or_inside_join (ps l : List Seg) (hp : WF ps) (hl : WF l) :
    (join l == join ps || inside (join l) (join ps)) = true ↔ ps <+: l := by
  rw [eq_or_inside_iff, ← join_concat_empty l hl.1, ← List.isPrefixOf_iff_prefix]
  have hd : DotFree (l ++ [[]]) := by
    intro s hs
    rcases List.mem_append.mp hs with h | h
    · exact hl.2 s h
    · simp at h; subst h; simp
  have := inside_iff ps (l ++ [[]]) hp.2 hd hp.1
  unfold inside at this
  rw [this, properPrefix_concat]

/-- among the paths covering a leaf there is one that no other path of the list properly contains -/
theorem exists_minimal_cover (pss : List (List Seg)) (l : List Seg) (n : Nat) :
    ∀ ps, ps ∈ pss → ps <+: l → ps.length ≤ n →
      ∃ qs, qs ∈ pss ∧ qs <+: l ∧ nestedIn pss qs = false := by
  induction n with
  | zero =>
    intro ps hps hpl hlen
    refine ⟨ps, hps, hpl, ?_⟩
    have : ps = [] := List.eq_nil_of_length_eq_zero (Nat.le_zero.mp hlen)
    subst this
    unfold nestedIn
    rw [List.any_eq_false]
    intro qs _
    simp only [decide_eq_true_eq]
    rintro ⟨r, hr, h⟩
    have : r = [] := by
      have := congrArg List.length h
      simp at this
      exact List.eq_nil_of_length_eq_zero (by omega)
    exact hr this
  | succ n ih =>
    intro ps hps hpl hlen
    cases hn : nestedIn pss ps with
    | false => exact ⟨ps, hps, hpl, hn⟩
    | true =>
      unfold nestedIn at hn
      rw [List.any_eq_true] at hn
      obtain ⟨qs, hqs, hq⟩ := hn
      simp only [decide_eq_true_eq] at hq
      obtain ⟨r, hr, rfl⟩ := hq
      apply ih qs hqs (List.IsPrefix.trans (List.prefix_append qs r) hpl)
      have : r.length ≠ 0 := fun h => hr (List.eq_nil_of_length_eq_zero h)
      simp only [List.length_append] at hlen
      omega

end ScVerif.C01.Paths
