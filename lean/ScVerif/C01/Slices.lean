import ScVerif.C01.Opts
/-!
# C01 — option SLICES: Go's `append` and what `Collection.Add` does to its caller's options

A variadic call `c.Add(id, m, s...)` passes the slice `s` itself: a view (length, capacity) of a backing
array the caller may share between several calls.  `append(s, xs...)` writes `xs` INTO that array when
`len(s)+len(xs) ≤ cap(s)` and only otherwise allocates.  This file models exactly that (a heap of arrays,
views `opts[j:k]` of one option slice: offset, length, capacity counted from the offset), and
`Collection.Add` on it, as the code is written:

```go
opts = append([]WriteOption{WithExpectAbsent(), WithCreateIfAbsent()}, opts...)   // destination: a fresh literal
return c.Update(id, body, opts...)
```
-/
namespace ScVerif.C01
variable {α : Type}

/-- a view `arr[off : off+len]` with capacity `cap` (counted from `off`) of array number `arr` of the heap -/
structure Slice where
  arr : Nat
  len : Nat
  cap : Nat
  off : Nat := 0
  deriving DecidableEq, Repr

/-- the heap: array `i` is the list of its cells (its length is its capacity) -/
abbrev Heap (α : Type) := List (List α)

def Heap.cells (h : Heap α) (i : Nat) : List α := h.getD i []

/-- the elements a view denotes -/
def Heap.read (h : Heap α) (s : Slice) : List α := ((h.cells s.arr).drop s.off).take s.len

/-- overwrite `cells[i : i+len xs]` -/
def writeAt (cells : List α) (i : Nat) (xs : List α) : List α :=
  cells.take i ++ xs ++ cells.drop (i + xs.length)

/-- a slice literal `[]T{xs...}`: a fresh array, len = cap -/
def literal (h : Heap α) (xs : List α) : Heap α × Slice :=
  (h ++ [xs], { arr := h.length, len := xs.length, cap := xs.length })

/-- Go's `append(s, xs...)` -/
def goAppend (h : Heap α) (s : Slice) (xs : List α) : Heap α × Slice :=
  if s.len + xs.length ≤ s.cap then
    (h.set s.arr (writeAt (h.cells s.arr) (s.off + s.len) xs), { s with len := s.len + xs.length })
  else
    (h ++ [h.read s ++ xs], { arr := h.length, len := s.len + xs.length, cap := s.len + xs.length })

variable {M K R : Type}

/-- `Collection.Add(id, body, opts...)` with `opts` a view into the caller's heap: returns the call's
result and the heap afterwards. -/
def Coll.addS (cat : K → K → K) (cfg : Cfg M K R) (st : CState M R) (h : Heap (WOpt M K)) (id : String) (msg : M) (opts : Slice) :
    (COut M × CState M R) × Heap (WOpt M K) :=
  let (h1, lit) := literal h [WOpt.expectAbsent, WOpt.createIfAbsent]
  let (h2, all) := goAppend h1 lit (h1.read opts)
  (Coll.updateO cat cfg st id msg (h2.read all), h2)

/-! ### lemmas -/

theorem cells_append_left (h : Heap α) (x : List α) (i : Nat) (hi : i < h.length) :
    Heap.cells (h ++ [x]) i = Heap.cells h i := by
  simp [Heap.cells, List.getD, List.getElem?_append_left hi]

theorem cells_append_self (h : Heap α) (x : List α) : Heap.cells (h ++ [x]) h.length = x := by
  simp [Heap.cells, List.getD]

theorem cells_set_ne (h : Heap α) (x : List α) (i j : Nat) (hij : i ≠ j) :
    Heap.cells (h.set j x) i = Heap.cells h i := by
  simp [Heap.cells, List.getD, Ne.symm hij]

theorem cells_set_self (h : Heap α) (x : List α) (j : Nat) (hj : j < h.length) :
    Heap.cells (h.set j x) j = x := by
  simp [Heap.cells, List.getD, hj]

end ScVerif.C01
