import ScVerif.C01.ResLemmas
import ScVerif.C01.Flat
import ScVerif.C01.Props
/-!
# C01 — property theorems about how a resource comes about, and what a write leaves behind

The property is about "a Value" and "a Collection": whatever list of `resource.Option` it was constructed
from (`Res.lean` follows `computeConfig` / `NewValue` / `NewCollection`), it is the register / map of
`Props.lean` for the configuration the list resolves to.  All theorems are for EVERY option list,
message type and operations; callbacks are arbitrary functions.

Only property theorems and their non-vacuity examples live in this file.
-/
namespace ScVerif.C01
variable {M K R : Type}

/-- Resource options are LAST-WINS, each setting on its own: the writable fields, the id interceptor and
the initial value of a resource are those of the last `WithWritableFields` / `WithIDInterceptor` /
`WithInitialValue` of the list (nil included: it switches the setting off again), whatever stands before,
between and after — unless construction panics; and a setting no option mentions is off. -/
theorem C01_resource_options_last_wins (pre post : List (ResOpt M K)) (rc : ResCfg M K) :
    (∀ m, (∀ o ∈ post, o.setsWritable = false) →
      computeConfig (pre ++ .writable m :: post) = some rc → rc.writable = m) ∧
    (∀ f, (∀ o ∈ post, o.setsIcpt = false) →
      computeConfig (pre ++ .icpt f :: post) = some rc → rc.icpt = f) ∧
    (∀ v, (∀ o ∈ post, o.setsInitialValue = false) →
      computeConfig (pre ++ .initialValue v :: post) = some rc → rc.initialValue = v) ∧
    ((∀ o ∈ post, o.setsWritable = false) → computeConfig post = some rc → rc.writable = none) ∧
    ((∀ o ∈ post, o.setsIcpt = false) → computeConfig post = some rc → rc.icpt = none) ∧
    ((∀ o ∈ post, o.setsInitialValue = false) → computeConfig post = some rc → rc.initialValue = none) := by
  have key : ∀ {α : Type} (proj : ResCfg M K → α) (sets : ResOpt M K → Bool) (o : ResOpt M K) (x : α),
      (∀ c c' o, sets o = false → applyRes c o = some c' → proj c' = proj c) →
      (∀ c c', applyRes c o = some c' → proj c' = x) →
      (∀ o ∈ post, sets o = false) → computeConfig (pre ++ o :: post) = some rc → proj rc = x := by
    intro α proj sets o x hstep hset hpost h
    unfold computeConfig at h
    rw [applyAllRes_append] at h
    cases h1 : applyAllRes ({} : ResCfg M K) pre with
    | none => simp [h1] at h
    | some c1 =>
      simp only [h1, Option.bind_some, applyAllRes] at h
      cases h2 : applyRes c1 o with
      | none => simp [h2] at h
      | some c2 =>
        rw [h2] at h
        rw [applyAllRes_keeps proj sets hstep post hpost c2 rc h]
        exact hset c1 c2 h2
  refine ⟨fun m hp h => ?_, fun f hp h => ?_, fun v hp h => ?_, fun hp h => ?_, fun hp h => ?_, fun hp h => ?_⟩
  · exact key (·.writable) _ _ m applyRes_keeps_writable
      (fun c c' h => by simp only [applyRes, Option.some.injEq] at h; subst h; rfl) hp h
  · exact key (·.icpt) _ _ f applyRes_keeps_icpt
      (fun c c' h => by simp only [applyRes, Option.some.injEq] at h; subst h; rfl) hp h
  · exact key (·.initialValue) _ _ v applyRes_keeps_initialValue
      (fun c c' h => by simp only [applyRes, Option.some.injEq] at h; subst h; rfl) hp h
  · exact applyAllRes_keeps (·.writable) _ applyRes_keeps_writable post hp {} rc h
  · exact applyAllRes_keeps (·.icpt) _ applyRes_keeps_icpt post hp {} rc h
  · exact applyAllRes_keeps (·.initialValue) _ applyRes_keeps_initialValue post hp {} rc h

/-- Initial records: construction from an option list panics EXACTLY when two `WithInitialRecord` options
of the list carry the same id (whatever other options stand between them); otherwise the records of the
configuration are the ones given, each once, in the order given. -/
theorem C01_initial_records (opts : List (ResOpt M K)) :
    ((computeConfig opts).isSome = true ↔ (idsOf (recordsOf opts)).Pairwise (· ≠ ·)) ∧
    ∀ rc, computeConfig opts = some rc → rc.initialRecords = recordsOf opts := by
  refine ⟨?_, fun rc h => ?_⟩
  · unfold computeConfig
    rw [applyAllRes_isSome]
    simp [idsOf]
  · have := applyAllRes_records opts {} rc h
    simpa using this

/-- A fresh Collection is a map of its initial records keyed like every later call keys it (fix 215ba16):
each record is kept under the id interceptor's image of the id it was given with, stamped with the
construction time, and nothing else is there — so `Get id` (any read options) returns the projection of
the record given as `id`, whatever the interceptor; and construction panics exactly when the option list
does (an id given twice) or two records get the same key. -/
theorem C01_new_collection_contents (base : Cfg M K R) (opts : List (ResOpt M K)) (rng : R) :
    (∀ rc, computeConfig opts = some rc →
      ((Coll.newO base opts rng).isSome = true ↔
        ((idsOf (recordsOf opts)).map (icptId (toCfg base rc))).Pairwise (· ≠ ·))) ∧
    ∀ cfg s, Coll.newO base opts rng = some (cfg, s) →
      (∀ id v, (id, v) ∈ recordsOf opts → lookup s.items (icptId cfg id) = some { body := v, time := 0 }) ∧
      (∀ k, (∀ id ∈ idsOf (recordsOf opts), icptId cfg id ≠ k) → lookup s.items k = none) ∧
      (∀ id v ro, (id, v) ∈ recordsOf opts → Coll.get cfg s id ro = some (cfg.ops.filter ro.readMask v)) := by
  have hids : ∀ (cfg : Cfg M K R) (l : List (String × M)),
      idsOf (keyedRecords cfg l) = (idsOf l).map (icptId cfg) := by
    intro cfg l; simp [idsOf, keyedRecords, List.map_map, Function.comp_def]
  constructor
  · intro rc hc
    have hrec := (C01_initial_records opts).2 rc hc
    unfold Coll.newO
    simp only [hc, Option.bind_some, hrec]
    cases hd : hasDupKey (keyedRecords (toCfg base rc) (recordsOf opts)) with
    | true =>
      simp only [↓reduceIte, Option.isSome_none, Bool.false_eq_true, false_iff]
      intro hp
      have := (hasDupKey_false _).mpr (by rw [hids]; exact hp)
      rw [hd] at this; cases this
    | false =>
      simp only [Bool.false_eq_true, ↓reduceIte, Option.isSome_some, true_iff]
      have := (hasDupKey_false _).mp hd
      rwa [hids] at this
  · intro cfg s h
    obtain ⟨rc, _, _, hd, hs⟩ := newO_cases base opts rng cfg s h
    have hnd := (hasDupKey_false _).mp hd
    have hl := lookup_init_distinct cfg (keyedRecords cfg (recordsOf opts)) rng hnd
    rw [← hs] at hl
    have h1 : ∀ id v, (id, v) ∈ recordsOf opts → lookup s.items (icptId cfg id) = some { body := v, time := 0 } := by
      intro id v hm
      apply hl.1
      exact List.mem_map.mpr ⟨(id, v), hm, rfl⟩
    refine ⟨h1, fun k hk => ?_, fun id v ro hm => ?_⟩
    · apply hl.2
      rw [hids]
      intro hmem
      obtain ⟨id, hid, he⟩ := List.mem_map.mp hmem
      exact hk id hid he
    · unfold Coll.get; rw [h1 _ _ hm]; rfl

/-- A Collection constructed from ANY option list (that does not panic) is the reference map started
from the records given: every call sequence on it is a run of the reference. -/
theorem C01_collection_refines_res (base : Cfg M K R) (hb : EqRefl base.ops) (opts : List (ResOpt M K)) (rng : R)
    (cfg : Cfg M K R) (s : CState M R) (h : Coll.newO base opts rng = some (cfg, s)) (ops : List (COp M K)) :
    Spec.Run cfg (abs s) ops (Coll.run cfg s ops).1 (abs (Coll.run cfg s ops).2) := by
  obtain ⟨rc, _, hcfg, _, hs⟩ := newO_cases base opts rng cfg s h
  subst hs
  have hb' : EqRefl cfg.ops := by rw [hcfg]; exact hb
  exact run_refines cfg hb' ops _ (nodupKeys_init _ _ rng)

/-- What the fix repaired (the constructor as it was before 215ba16, `Coll.newOLegacy`): an initial record
"A" of a collection with the lower-casing interceptor was kept under "A": List showed it, Get of either
spelling missed it, and Add "A" created a second item instead of failing with AlreadyExists. -/
theorem C01_initial_records_legacy_unreachable :
    ((Coll.newOLegacy (R := List Nat) { ops := flatOps, gen := flatGen }
        [.icpt (some lowerStr), .initialRecord "A" Flat.zero] []).map
      (fun p => (Coll.list p.1 p.2 {}, Coll.get p.1 p.2 "A" {}, Coll.get p.1 p.2 "a" {},
        (Coll.add p.1 p.2 "A" { a := 1, s := "", c := none } {}).1.err,
        Coll.list p.1 (Coll.add p.1 p.2 "A" { a := 1, s := "", c := none } {}).2 {}))) =
    some ([Flat.zero], none, none, none, [Flat.zero, { a := 1, s := "", c := none }]) := by decide

/-- A fresh Value holds the LAST initial value given (none: nothing), and Get returns its projection. -/
theorem C01_new_value_contents (base : Cfg M K R) (pre post : List (ResOpt M K)) (v : Option M)
    (hpost : ∀ o ∈ post, o.setsInitialValue = false) (cfg : Cfg M K R) (s : VState M)
    (h : Value.newO base (pre ++ .initialValue v :: post) = some (cfg, s)) (ro : ReadReq M K) :
    s.value = v ∧ Value.get cfg s ro = v.map (cfg.ops.filter ro.readMask) := by
  unfold Value.newO at h
  cases hc : computeConfig (pre ++ .initialValue v :: post) with
  | none => simp [hc] at h
  | some rc =>
    simp only [hc, Option.map_some, Option.some.injEq, Prod.mk.injEq] at h
    obtain ⟨hcfg, hs⟩ := h
    have hv := (C01_resource_options_last_wins pre post rc).2.2.1 v hpost hc
    subst hs
    simp only [Value.init, Value.get, hv, true_and]

/-- A Value constructed from ANY option list is the register started from the last initial value given:
every call sequence on it returns the reference's results and ends in the reference's state. -/
theorem C01_value_refines_res (base : Cfg M K R) (hb : EqRefl base.ops) (opts : List (ResOpt M K))
    (cfg : Cfg M K R) (s : VState M) (h : Value.newO base opts = some (cfg, s)) (ops : List (VOp M K)) :
    Value.run cfg s ops = Spec.vrun cfg s ops := by
  unfold Value.newO at h
  cases hc : computeConfig opts with
  | none => simp [hc] at h
  | some rc =>
    simp only [hc, Option.map_some, Option.some.injEq, Prod.mk.injEq] at h
    obtain ⟨hcfg, hs⟩ := h
    subst hcfg
    exact C01_value_refines (toCfg base rc) hb ops s

/-- Read your writes on a Value, whatever the resource was constructed with (writable fields, and —
because no call of the model consults it — any equivalence): a successful Set returns the message
that the next Get returns (projected by that Get's read mask) and stamps it with the write time; a failing
Set leaves what Get returns unchanged. -/
theorem C01_value_read_your_writes (cfg : Cfg M K R) (h : EqRefl cfg.ops) (s : VState M) (msg : M)
    (wr : WriteReq M K) (ro : ReadReq M K) :
    (∀ new, (Value.set cfg s msg wr).1.val = some new →
      (Value.set cfg s msg wr).1.err = none ∧
      Value.get cfg (Value.set cfg s msg wr).2 ro = some (cfg.ops.filter ro.readMask new) ∧
      (Value.set cfg s msg wr).2.changeTime = (wr.writeTime.getD s.clock)) ∧
    ((Value.set cfg s msg wr).1.err ≠ none →
      Value.get cfg (Value.set cfg s msg wr).2 ro = Value.get cfg s ro) := by
  rw [value_set_eq cfg h]
  unfold Spec.set Value.get
  simp only []
  cases cfg.ops.validate (fieldUpdater cfg wr) msg with
  | some c => simp
  | none =>
    simp only []
    cases Spec.newValue cfg.ops wr (fieldUpdater cfg wr) msg s.value (s.value.getD cfg.ops.zero) with
    | error c => simp
    | ok new => cases wr.writeTime <;> simp

/-! ## Non-vacuity -/

/-- a list with every kind of option, repeated and switched off again: the last of each kind decides,
the two records are kept in order -/
example :
    (computeConfig (M := Msg) (K := Mask)
      [.writable (some [.a]), .initialRecord "b" Flat.zero, .other, .writable none, .icpt (some lowerStr),
       .initialValue (some Flat.zero), .writable (some [.s]), .initialRecord "a" { a := 1, s := "", c := none },
       .initialValue none]).map (fun rc => (rc.writable, rc.icpt.isSome, rc.initialValue, rc.initialRecords.map (·.1))) =
    some (some [.s], true, none, ["b", "a"]) := by decide

/-- the same id twice panics, whatever stands between -/
example :
    (computeConfig (M := Msg) (K := Mask)
      [.initialRecord "a" Flat.zero, .writable none, .initialRecord "b" Flat.zero, .initialRecord "a" Flat.zero]).isSome
      = false := by decide

/-- the same construction now: the record is reachable under either spelling and Add "A" is rejected;
two records whose ids the interceptor maps to one key panic -/
example :
    ((Coll.newO (R := List Nat) { ops := flatOps, gen := flatGen }
        [.icpt (some lowerStr), .initialRecord "A" Flat.zero] []).map
      (fun p => (Coll.get p.1 p.2 "A" {}, Coll.get p.1 p.2 "a" {}, Coll.list p.1 p.2 {},
        (Coll.add p.1 p.2 "A" { a := 1, s := "", c := none } {}).1.err))) =
    some (some Flat.zero, some Flat.zero, [Flat.zero], some .alreadyExists) ∧
    (Coll.newO (R := List Nat) { ops := flatOps, gen := flatGen }
        [.initialRecord "a" Flat.zero, .icpt (some lowerStr), .initialRecord "A" Flat.zero] []).isSome = false := by
  decide

end ScVerif.C01
