import ScVerif.C01.Model
/-!
# C01 — a write whose own callback calls the resource again (`pkg/resource/atomic.go`, `value.go`)

`GetAndUpdate` runs the change phase (expected value, expected check, before / after interceptor) with NO
lock held, so the caller's callbacks may call the same resource again on the calling goroutine: complete
calls, in a definite order, between the write's read and its save — still one caller at a time.  The
re-validation read under the write lock (`proto.Equal(oldValue, oldValueAgain)`, where a nil first read
is a value like any other: nil equals only nil) is what keeps such a write from overwriting what it has
not seen.

`Model.lean`'s `getAndUpdate` takes a pure `change`; here the change phase threads `σ` (everything the
callbacks can touch): `changeFnN` is `changeFn` with the callback at `site` running `rival` when — and
only when — the write invokes it; `getAndUpdateN` is `GetAndUpdate` with such a change phase;
`Value.setN` is `Value.Set` whose callback at `site` makes the calls `calls` on the same Value.
-/
namespace ScVerif.C01
variable {M K R : Type}

/-- the callbacks of the change phase -/
inductive Site
  | chk | bf | af
  deriving DecidableEq, Repr

/-- `WriteRequest.changeFn(writer, value)` with the callback at `site` doing `rival` (to everything the
callbacks can touch) before its own work, when the write invokes it. -/
def changeFnN {σ : Type} (ops : MsgOps M K) (wr : WriteReq M K) (u : Upd K) (value : M)
    (site : Site) (rival : σ → σ) (old dst : Option M) (s : σ) : Except Code M × σ :=
  match wr.expectedValue with
  | some ev =>
    if !(eqOpt ops old (some ev)) then (.error .failedPrecondition, s)
    else rest
  | none => rest
where
  rest : Except Code M × σ :=
    let cs : Option Code × σ := match wr.expectedCheck with
      | some chk => (chk old, if site = .chk then rival s else s)
      | none => (none, s)
    match cs.1 with
    | some c => (.error c, cs.2)
    | none =>
      let vs : M × σ := match wr.before with
        | some f => (f old value, if site = .bf then rival cs.2 else cs.2)
        | none => (value, cs.2)
      let dst := match dst with | some d => d | none => ops.zero
      let dst := ops.merge u dst vs.1
      let ds : M × σ := match wr.after with
        | some f => (f old dst, if site = .af then rival vs.2 else vs.2)
        | none => (dst, vs.2)
      (.ok ds.1, ds.2)

/-- does the write get as far as invoking the callback at `site`: the expected value is tested first, then
the check, then the interceptors (a callback that is not set is not invoked) -/
def siteReached (ops : MsgOps M K) (wr : WriteReq M K) (site : Site) (old : Option M) : Bool :=
  (match wr.expectedValue with | some ev => eqOpt ops old (some ev) | none => true) &&
  (match site with
   | .chk => wr.expectedCheck.isSome
   | .bf => (match wr.expectedCheck with | some chk => (chk old).isNone | none => true) && wr.before.isSome
   | .af => (match wr.expectedCheck with | some chk => (chk old).isNone | none => true) && wr.after.isSome)

/-- `resource.GetAndUpdate` whose change phase runs caller code on `σ`. -/
def getAndUpdateN {σ : Type} (ops : MsgOps M K)
    (get : σ → Except Code (Option M) × σ)
    (change : Option M → Option M → σ → Except Code M × σ)
    (save : σ → M → σ) (s : σ) : GauRes M × σ :=
  match get s with
  | (.error c, s1) => ({ old := none, new := none, err := some c }, s1)
  | (.ok old, s1) =>
    match change old old s1 with
    | (.error c, s1') => ({ old := old, new := none, err := some c }, s1')
    | (.ok new, s1') =>
      match get s1' with
      | (r2, s2) =>
        let again : Option M := match r2 with | .ok v => v | .error _ => none
        if !(eqOpt ops old again) then
          ({ old := old, new := some new, err := some .aborted }, s2)
        else
          ({ old := old, new := some new, err := none }, save s2 new)

/-- the Value together with (ghost) what the calls made from the callback returned -/
structure VNest (M : Type) where
  st : VState M
  results : List (VRes M)

/-- the callback makes the calls, in order -/
def nestedRunV (cfg : Cfg M K R) (calls : List (VOp M K)) (x : VNest M) : VNest M :=
  { st := (Value.run cfg x.st calls).2, results := x.results ++ (Value.run cfg x.st calls).1 }

/-- the bus events of a list of calls -/
def eventsOf : List (VRes M) → List (VEvent M)
  | [] => []
  | .got _ :: rs => eventsOf rs
  | .wrote o :: rs => o.events ++ eventsOf rs

/-- `Value.Set(value, opts...)` whose callback at `site` makes the calls `calls` on the same Value.
Returns the write's outcome (its `events`: every bus event during the call, the nested calls' first), the
Value afterwards and what the nested calls returned. -/
def Value.setN (cfg : Cfg M K R) (s : VState M) (msg : M) (wr : WriteReq M K) (site : Site)
    (calls : List (VOp M K)) : VOut M × VState M × List (VRes M) :=
  let u := fieldUpdater cfg wr
  match cfg.ops.validate u msg with
  | some c => ({ val := none, err := some c, events := [] }, s, [])
  | none =>
    let rx := getAndUpdateN cfg.ops
      (fun (x : VNest M) => (.ok x.st.value, x))
      (changeFnN cfg.ops wr u msg site (nestedRunV cfg calls))
      (fun x m =>
        { x with st := { (updateTimeV cfg wr x.st).2 with value := some m, changeTime := (updateTimeV cfg wr x.st).1 } })
      { st := s, results := [] }
    match rx.1.err, rx.1.new with
    | none, some new =>
      ({ val := some new, err := none,
         events := eventsOf rx.2.results ++ [{ value := new, time := (updateTimeV cfg wr rx.2.st).1 }] },
       (updateTimeV cfg wr rx.2.st).2, rx.2.results)
    | some c, _ => ({ val := none, err := some c, events := eventsOf rx.2.results }, rx.2.st, rx.2.results)
    | none, none => ({ val := none, err := some .internal, events := eventsOf rx.2.results }, rx.2.st, rx.2.results)

/-! ### what the definitions amount to -/

/-- The change phase computes what the plain one computes (from the value READ), and the callback's
calls happen exactly when the write gets as far as the callback. -/
theorem changeFnN_eq {σ : Type} (ops : MsgOps M K) (wr : WriteReq M K) (u : Upd K) (value : M)
    (site : Site) (rival : σ → σ) (old dst : Option M) (s : σ) :
    changeFnN ops wr u value site rival old dst s
      = (changeFn ops wr u value old dst, if siteReached ops wr site old then rival s else s) := by
  unfold changeFnN changeFn changeFnN.rest changeFn.changeRest siteReached
  cases dst <;> cases hev : wr.expectedValue <;> cases hchk : wr.expectedCheck <;> cases hb : wr.before <;>
    cases ha : wr.after <;> cases site <;> simp <;>
    (try split) <;> (try split) <;> simp_all

/-- a change phase that does not touch `σ`: the plain `GetAndUpdate` -/
theorem getAndUpdateN_pure {σ : Type} (ops : MsgOps M K) (get : σ → Except Code (Option M) × σ)
    (change : Option M → Option M → Except Code M) (save : σ → M → σ) (s : σ) :
    getAndUpdateN ops get (fun o d x => (change o d, x)) save s = getAndUpdate ops get change save s := by
  unfold getAndUpdateN getAndUpdate
  rcases hg : get s with ⟨r, s1⟩
  cases r with
  | error c => simp
  | ok old =>
    simp only
    cases hc : change old old with
    | error c => simp
    | ok new =>
      simp only
      rcases hg2 : get s1 with ⟨r2, s2⟩
      cases r2 <;> simp

/-- the Value and the nested results when the write comes to its re-validation read -/
def midV (cfg : Cfg M K R) (s : VState M) (wr : WriteReq M K) (site : Site) (calls : List (VOp M K)) : VNest M :=
  if siteReached cfg.ops wr site s.value then nestedRunV cfg calls { st := s, results := [] }
  else { st := s, results := [] }

/-- `Value.setN` in one step. -/
theorem Value.setN_eq (cfg : Cfg M K R) (s : VState M) (msg : M) (wr : WriteReq M K) (site : Site)
    (calls : List (VOp M K)) :
    Value.setN cfg s msg wr site calls =
      match cfg.ops.validate (fieldUpdater cfg wr) msg with
      | some c => ({ val := none, err := some c, events := [] }, s, [])
      | none =>
        let mid := midV cfg s wr site calls
        match changeFn cfg.ops wr (fieldUpdater cfg wr) msg s.value s.value with
        | .error c => ({ val := none, err := some c, events := eventsOf mid.results }, mid.st, mid.results)
        | .ok new =>
          if eqOpt cfg.ops s.value mid.st.value then
            ({ val := some new, err := none,
               events := eventsOf mid.results ++ [{ value := new, time := (updateTimeV cfg wr { (updateTimeV cfg wr mid.st).2 with value := some new, changeTime := (updateTimeV cfg wr mid.st).1 }).1 }] },
             (updateTimeV cfg wr { (updateTimeV cfg wr mid.st).2 with value := some new, changeTime := (updateTimeV cfg wr mid.st).1 }).2,
             mid.results)
          else ({ val := none, err := some .aborted, events := eventsOf mid.results }, mid.st, mid.results) := by
  unfold Value.setN
  cases hv : cfg.ops.validate (fieldUpdater cfg wr) msg with
  | some c => simp [hv]
  | none =>
    simp only [hv, getAndUpdateN, changeFnN_eq, midV]
    cases hc : changeFn cfg.ops wr (fieldUpdater cfg wr) msg s.value s.value with
    | error c => simp
    | ok new =>
      simp only
      by_cases he : eqOpt cfg.ops s.value
          (if siteReached cfg.ops wr site s.value then nestedRunV cfg calls { st := s, results := [] }
            else { st := s, results := [] }).st.value = true
      · simp [he]
      · simp [he]

/-- does the write invoke the callback at `site` at all: its message passes validation (which comes before
the read) and the change phase gets as far as that callback -/
def callbackRuns (cfg : Cfg M K R) (s : VState M) (msg : M) (wr : WriteReq M K) (site : Site) : Bool :=
  (cfg.ops.validate (fieldUpdater cfg wr) msg).isNone && siteReached cfg.ops wr site s.value

theorem Value.run_append (cfg : Cfg M K R) (s : VState M) (a b : List (VOp M K)) :
    Value.run cfg s (a ++ b) =
      ((Value.run cfg s a).1 ++ (Value.run cfg (Value.run cfg s a).2 b).1, (Value.run cfg (Value.run cfg s a).2 b).2) := by
  induction a generalizing s with
  | nil => simp [Value.run]
  | cons op ops ih => simp [Value.run, ih]

theorem eventsOf_append (a b : List (VRes M)) : eventsOf (a ++ b) = eventsOf a ++ eventsOf b := by
  induction a with
  | nil => simp [eventsOf]
  | cons r rs ih => cases r <;> simp [eventsOf, ih]

end ScVerif.C01
