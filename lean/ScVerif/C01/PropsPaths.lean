import ScVerif.C01.PathsFlat
/-!
# C01 — property theorems, part 4: which fields a mask names is decided by its SEGMENTS

"… with any combination of write options (update and reset masks, writable-field restrictions …) … each
call returns what a plain reference model returns": the reference reads a mask as a set of field paths.
The code hands every update / reset / writable / read mask to `masks.nestedMask`, which first drops the
paths that lie inside another path of the mask (`withoutNestedPaths`), and `Validate` tests an update path
against the writable paths (`isWritablePath`); both decide "inside" on the path STRINGS, by
`strings.HasPrefix(p, q+".")`.  `Paths.lean` models these functions on strings.  The theorems say that
the string test is exactly the test on segments (field names), for ALL lists of paths: a path is dropped /
accepted only because of a path whose field names are a proper prefix of its own — never because of a
sibling whose NAME merely starts with the same characters (`open_percent` / `open_percent_tween`,
`temperature_set_point` / `temperature_set_point_delta`) — and the pruned list names the same leaf fields
as the list the caller gave.  The last theorem instantiates this for the real path strings of the
modelled fields (`Flat.lean`), which is what the concrete model of the tie assumes field by field.
-/
namespace ScVerif.C01
open Paths

/-- The string test of `withoutNestedPaths` / `isWritablePath` is the segment test: for paths made of
dot-free field names, `strings.HasPrefix(p, q+".")` ⇔ `q`'s names are a proper prefix of `p`'s names. -/
theorem C01_nested_path_test_is_segment_test (qs ps : List Seg) (hq : WF qs) (hp : WF ps) :
    inside (join ps) (join qs) = true ↔ ∃ r, r ≠ [] ∧ ps = qs ++ r :=
  inside_iff qs ps hq.2 hp.2 hq.1

/-- `withoutNestedPaths`, for every list of well-formed paths: the result is the given list, in the given
order (duplicates kept), without exactly the paths of which some path of the list is a proper
segment-prefix (`ProperPrefix qs ps` is `∃ r, r ≠ [] ∧ ps = qs ++ r`). -/
theorem C01_without_nested_paths_spec (pss : List (List Seg)) (hwf : ∀ ps ∈ pss, WF ps) :
    withoutNestedPaths (pss.map join) =
      (pss.filter (fun ps => !pss.any (fun qs => decide (ProperPrefix qs ps)))).map join :=
  withoutNestedPaths_map pss hwf

/-- A top-level path (a single field name) is never dropped, whatever else the mask holds — in particular
not because of a sibling whose name is a textual prefix of its own.  (No well-formedness needed.) -/
theorem C01_top_level_paths_kept (paths : List Path) (p : Path) (hp : p ∈ paths) (hdot : '.' ∉ p) :
    p ∈ withoutNestedPaths paths := by
  unfold withoutNestedPaths
  rw [List.mem_filter]
  refine ⟨hp, ?_⟩
  rw [Bool.not_eq_true', List.any_eq_false]
  intro q _ h
  exact hdot (inside_has_dot p q h)

/-- `{f, f.c}` names the same fields as `{f}`: what `nestedMask` selects after the pre-pass is what the
caller's list names.  For every list of well-formed paths and every leaf path: the leaf is selected by
`fmutils.NestedMaskFromPaths(withoutNestedPaths(paths))` iff SOME path of the ORIGINAL list is a
segment-prefix of (or equal to) the leaf's path. -/
theorem C01_nested_mask_names_same_fields (pss : List (List Seg)) (hwf : ∀ ps ∈ pss, WF ps)
    (l : List Seg) (hl : WF l) :
    selects (pss.map join) (join l) = true ↔ ∃ ps ∈ pss, ps <+: l := by
  unfold selects
  rw [withoutNestedPaths_map pss hwf, List.any_map, List.any_eq_true]
  constructor
  · rintro ⟨ps, hps, h⟩
    rw [List.mem_filter] at hps
    exact ⟨ps, hps.1, (eq_or_inside_join ps l (hwf ps hps.1) hl).mp h⟩
  · rintro ⟨ps, hps, hpl⟩
    obtain ⟨qs, hqs, hql, hmin⟩ := exists_minimal_cover pss l ps.length ps hps hpl (Nat.le_refl _)
    refine ⟨qs, ?_, (eq_or_inside_join qs l (hwf qs hqs) hl).mpr hql⟩
    rw [List.mem_filter]
    exact ⟨hqs, by rw [hmin]; rfl⟩

/-- `isWritablePath`, for every list of writable paths: an update path is accepted iff a writable path is
a segment-prefix of (or equal to) it — a writable sibling with a shorter name of the same beginning does
not make it writable. -/
theorem C01_writable_path_is_segment_test (ws : List (List Seg)) (hwf : ∀ w ∈ ws, WF w)
    (ps : List Seg) (hp : WF ps) :
    isWritablePath (join ps) (ws.map join) = true ↔ ∃ w ∈ ws, w <+: ps := by
  unfold isWritablePath
  rw [List.any_map, List.any_eq_true]
  constructor
  · rintro ⟨w, hw, h⟩
    exact ⟨w, hw, (eq_or_inside_join w ps (hwf w hw) hp).mp h⟩
  · rintro ⟨w, hw, h⟩
    exact ⟨w, hw, (eq_or_inside_join w ps (hwf w hw) hp).mpr h⟩

/-! ## the modelled fields under their real names (`PathsFlat.lean`: `pathOf`, `parentOf`) -/

/-- The concrete model (`Flat.lean`) reads a mask letter by letter: a field is selected iff the mask holds
its letter or its parent's.  That is what the code computes from the REAL path strings, for every mask
over the modelled paths (any length, order, duplicates): `open_percent_tween` is selected iff it is named
itself — naming `open_percent` neither selects nor hides it. -/
theorem C01_flat_masks_select_by_letter (m : Mask) (l : Field) :
    selects (m.map (fun q => join (pathOf q))) (join (pathOf l)) =
      m.any (fun q => decide (q = l) || decide (parentOf l = some q)) := by
  have h := C01_nested_mask_names_same_fields (m.map pathOf)
    (by intro ps hps; obtain ⟨q, _, rfl⟩ := List.mem_map.mp hps; exact pathOf_wf q) (pathOf l) (pathOf_wf l)
  rw [List.map_map] at h
  rw [Bool.eq_iff_iff, List.any_eq_true]
  show selects (m.map (join ∘ pathOf)) (join (pathOf l)) = true ↔ _
  rw [h]
  constructor
  · rintro ⟨ps, hps, hpl⟩
    obtain ⟨q, hq, rfl⟩ := List.mem_map.mp hps
    refine ⟨q, hq, ?_⟩
    rcases (pathOf_prefix q l).mp hpl with h | h <;> simp [h]
  · rintro ⟨q, hq, h⟩
    refine ⟨pathOf q, List.mem_map.mpr ⟨q, hq, rfl⟩, (pathOf_prefix q l).mpr ?_⟩
    simpa using h

/-- `Validate`'s writable test in the concrete model (`Flat.isWritablePath`: the letter is writable or
its parent's is) is what the code computes from the real path strings, for every writable mask over the
modelled paths: with only `open_percent` writable, `open_percent_tween` is not. -/
theorem C01_flat_writable_by_letter (w : Mask) (q : Field) :
    isWritablePath (join (pathOf q)) (w.map (fun y => join (pathOf y))) = Flat.isWritablePath w q := by
  have h := C01_writable_path_is_segment_test (w.map pathOf)
    (by intro ps hps; obtain ⟨y, _, rfl⟩ := List.mem_map.mp hps; exact pathOf_wf y) (pathOf q) (pathOf_wf q)
  rw [List.map_map] at h
  rw [Bool.eq_iff_iff]
  show isWritablePath (join (pathOf q)) (w.map (join ∘ pathOf)) = true ↔ _
  rw [h]
  have hflat : Flat.isWritablePath w q = true ↔ ∃ y ∈ w, y = q ∨ parentOf q = some y := by
    unfold Flat.isWritablePath
    cases q <;> simp [parentOf] <;> grind
  rw [hflat]
  constructor
  · rintro ⟨ps, hps, hpl⟩
    obtain ⟨y, hy, rfl⟩ := List.mem_map.mp hps
    exact ⟨y, hy, (pathOf_prefix y q).mp hpl⟩
  · rintro ⟨y, hy, h⟩
    exact ⟨pathOf y, List.mem_map.mpr ⟨y, hy, rfl⟩, (pathOf_prefix y q).mpr h⟩

/-! ## what the test must not be -/

/-- Witness: deciding "inside" by a bare string prefix (the `.` left out) drops a top-level sibling —
`open_percent_tween` next to `open_percent` — which `C01_top_level_paths_kept` excludes for the code's test. -/
theorem C01_bare_prefix_test_fails :
    ∃ paths p, p ∈ paths ∧ '.' ∉ p ∧ p ∉ withoutNestedPathsBare paths ∧ p ∈ withoutNestedPaths paths :=
  ⟨["open_percent".toList, "open_percent_tween".toList], "open_percent_tween".toList, by decide, by decide,
    by decide, by decide⟩

/-! ## non-vacuity -/

example : withoutNestedPaths (["open_percent_tween", "open_percent", "open_percent_tween.progress",
      "open_percent_tween"].map String.toList) =
    ["open_percent_tween", "open_percent", "open_percent_tween"].map String.toList := by decide

example : WF (pathOf .tp) ∧ WF (pathOf .p) := ⟨pathOf_wf _, pathOf_wf _⟩

example : isWritablePath (join (pathOf .t)) [join (pathOf .p)] = false ∧
    isWritablePath (join (pathOf .tp)) [join (pathOf .p), join (pathOf .t)] = true := by decide

example : selects ([Field.p, .tp].map (fun q => join (pathOf q))) (join (pathOf .tp)) = true ∧
    selects ([Field.p].map (fun q => join (pathOf q))) (join (pathOf .tp)) = false := by decide

end ScVerif.C01
