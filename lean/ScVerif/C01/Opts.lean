import ScVerif.C01.Model
/-!
# C01 — option LISTS (`pkg/resource/opt.go`)

The calls of `pkg/resource` take variadic option lists; `ComputeWriteConfig` / `ComputeReadConfig` apply
the options IN ORDER to an initially empty request record.  `Model.lean` works on the resulting record;
this file models how the record comes about, following each `With…` function of `opt.go`:

* setters overwrite (`WithWriteTime`, `WithUpdateMask`, `WithResetMask`, `WithExpectedValue`,
  `WithExpectedCheck`, `WithAllowMissing(b)`, `InterceptBefore`, `InterceptAfter`, callbacks,
  `WithReadMask`, `WithInclude`): a later one replaces an earlier one, and a nil mask / nil message
  switches the setting off again (`noExpectedCheck`, `noBefore`, `noAfter`, `noCreatedCallback`,
  `noIDCallback` are the callback setters given nil);
* flags are only ever set (`WithExpectAbsent`, `WithCreateIfAbsent`, `WithGenIDIfAbsent`,
  `WithAllFieldsWritable`);
* `WithMoreUpdateMask(m)` adds the paths of `m`, as given, to the update mask in force AT THAT POINT of
  the list (no normalisation since repo 5cc1d68: `{f}` extended by `{f.unknown}` keeps both paths and is
  rejected as invalid) and does nothing when there is none (`nil` = everything is updated anyway);
  `cat` is "a mask holding the paths of the first followed by the paths of the second";
* `WithMoreWritableFields(m)` unites `m` into the request's additional writable fields
  (`fieldmaskpb.Union(nil, m)` for the first one).

The calls that take option lists (`Coll.updateO`, `Coll.addO`, …) are the calls of `Model.lean` on the
computed record; `Collection.Add` PREPENDS `WithExpectAbsent(), WithCreateIfAbsent()` to its caller's
options, as the code does.  Lists are values: a call cannot change the option list of its caller.
-/
namespace ScVerif.C01
variable {M K R : Type}

/-- `resource.WriteOption` values. -/
inductive WOpt (M K : Type)
  | writeTime (t : Int)
  | updateMask (m : Option K)
  | moreUpdateMask (m : K)
  | resetMask (m : Option K)
  | expectedValue (v : Option M)
  | expectAbsent
  | expectedCheck (f : Option M → Option Code)
  | allowMissing (b : Bool)
  | before (f : Option M → M → M)
  | after (f : Option M → M → M)
  | allFieldsWritable
  | moreWritable (m : K)
  | createIfAbsent
  | createdCallback
  | genIDIfAbsent
  | idCallback
  | empty
  /-- `WithExpectedCheck(nil)`, `InterceptBefore(nil)`, `InterceptAfter(nil)`, `WithCreatedCallback(nil)`,
  `WithIDCallback(nil)`: the setter given a nil function (every use site tests for nil) -/
  | noExpectedCheck
  | noBefore
  | noAfter
  | noCreatedCallback
  | noIDCallback

/-- `WithUpdatePaths(paths...)` = `WithUpdateMask(&fieldmaskpb.FieldMask{Paths: paths})` (no paths: a mask
without paths, i.e. "change nothing" — not nil) -/
def WOpt.updatePaths (m : K) : WOpt M K := .updateMask (some m)
/-- `WithMoreUpdatePaths(paths...)` = `WithMoreUpdateMask(&fieldmaskpb.FieldMask{Paths: paths})` -/
def WOpt.moreUpdatePaths (m : K) : WOpt M K := .moreUpdateMask m
/-- `WithResetPaths(paths...)` = `WithResetMask(&fieldmaskpb.FieldMask{Paths: paths})` -/
def WOpt.resetPaths (m : K) : WOpt M K := .resetMask (some m)
/-- `WithMoreWritablePaths(paths...)` = `WithMoreWritableFields(&fieldmaskpb.FieldMask{Paths: paths})` -/
def WOpt.moreWritablePaths (m : K) : WOpt M K := .moreWritable m

/-- `opt.apply(req)` for one write option. -/
def applyW (ops : MsgOps M K) (cat : K → K → K) (wr : WriteReq M K) : WOpt M K → WriteReq M K
  | .writeTime t => { wr with writeTime := some t }
  | .updateMask m => { wr with updateMask := m }
  | .moreUpdateMask m =>
    match wr.updateMask with
    | none => wr  -- a nil update mask means all fields are writable anyway
    | some u => { wr with updateMask := some (cat u m) }  -- the paths of both, as given
  | .resetMask m => { wr with resetMask := m }
  | .expectedValue v => { wr with expectedValue := v }
  | .expectAbsent => { wr with expectAbsent := true }
  | .expectedCheck f => { wr with expectedCheck := some f }
  | .allowMissing b => { wr with allowMissing := b }
  | .before f => { wr with before := some f }
  | .after f => { wr with after := some f }
  | .allFieldsWritable => { wr with nilWritable := true }
  | .moreWritable m =>
    { wr with moreWritable := some (match wr.moreWritable with
                                    | none => ops.union m none
                                    | some w => ops.union w (some m)) }
  | .createIfAbsent => { wr with createIfAbsent := true }
  | .createdCallback => { wr with createdCb := true }
  | .genIDIfAbsent => { wr with genEmptyID := true }
  | .idCallback => { wr with idCb := true }
  | .empty => wr
  | .noExpectedCheck => { wr with expectedCheck := none }
  | .noBefore => { wr with before := none }
  | .noAfter => { wr with after := none }
  | .noCreatedCallback => { wr with createdCb := false }
  | .noIDCallback => { wr with idCb := false }

/-- `ComputeWriteConfig(opts...)` -/
def computeWriteConfig (ops : MsgOps M K) (cat : K → K → K) (opts : List (WOpt M K)) : WriteReq M K :=
  opts.foldl (applyW ops cat) {}

/-- `resource.ReadOption` values; `other` stands for the options that do not concern Get/List
(`WithUpdatesOnly`, `WithBackpressure`, `EmptyReadOption`). -/
inductive ROpt (M K : Type)
  | readMask (m : Option K)
  | incl (f : Option (String → M → Bool))
  | other

/-- `WithReadPaths(m, paths...)` = `WithReadMask(mask)` for `mask, err := fieldmaskpb.New(m, paths...)`: the
paths as given when all are fields of `m` (otherwise it panics before any option exists) -/
def ROpt.readPaths (m : K) : ROpt M K := .readMask (some m)

def applyR (rr : ReadReq M K) : ROpt M K → ReadReq M K
  | .readMask m => { rr with readMask := m }
  | .incl f => { rr with incl := f }
  | .other => rr

/-- `ComputeReadConfig(opts...)` -/
def computeReadConfig (opts : List (ROpt M K)) : ReadReq M K := opts.foldl applyR {}

/-! ## The calls, on option lists -/

def Coll.updateO (cat : K → K → K) (cfg : Cfg M K R) (s : CState M R) (id : String) (msg : M) (opts : List (WOpt M K)) :
    COut M × CState M R :=
  Coll.update cfg s id msg (computeWriteConfig cfg.ops cat opts)

/-- `Collection.Add`: `opts = append([]WriteOption{WithExpectAbsent(), WithCreateIfAbsent()}, opts...)`,
then `Update`. -/
def Coll.addO (cat : K → K → K) (cfg : Cfg M K R) (s : CState M R) (id : String) (msg : M) (opts : List (WOpt M K)) :
    COut M × CState M R :=
  Coll.updateO cat cfg s id msg (.expectAbsent :: .createIfAbsent :: opts)

def Coll.deleteO (cat : K → K → K) (cfg : Cfg M K R) (s : CState M R) (id : String) (opts : List (WOpt M K)) :
    COut M × CState M R :=
  Coll.delete cfg s id (computeWriteConfig cfg.ops cat opts)

def Coll.getO (cfg : Cfg M K R) (s : CState M R) (id : String) (opts : List (ROpt M K)) : Option M :=
  Coll.get cfg s id (computeReadConfig opts)

def Coll.listIdsO (cfg : Cfg M K R) (s : CState M R) (opts : List (ROpt M K)) : List (String × M) :=
  Coll.listIds cfg s (computeReadConfig opts)

def Coll.listO (cfg : Cfg M K R) (s : CState M R) (opts : List (ROpt M K)) : List M :=
  Coll.list cfg s (computeReadConfig opts)

def Value.setO (cat : K → K → K) (cfg : Cfg M K R) (s : VState M) (msg : M) (opts : List (WOpt M K)) : VOut M × VState M :=
  Value.set cfg s msg (computeWriteConfig cfg.ops cat opts)

def Value.getO (cfg : Cfg M K R) (s : VState M) (opts : List (ROpt M K)) : Option M :=
  Value.get cfg s (computeReadConfig opts)

/-- A call with its option list, as the caller writes it. -/
inductive COpO (M K : Type)
  | get (id : String) (opts : List (ROpt M K))
  | list (opts : List (ROpt M K))
  | update (id : String) (msg : M) (opts : List (WOpt M K))
  | add (id : String) (msg : M) (opts : List (WOpt M K))
  | delete (id : String) (opts : List (WOpt M K))

def Coll.stepO (cat : K → K → K) (cfg : Cfg M K R) (s : CState M R) : COpO M K → CRes M × CState M R
  | .get id opts => (.got (Coll.getO cfg s id opts), s)
  | .list opts => (.listed (Coll.listIdsO cfg s opts), s)
  | .update id msg opts => let (o, s') := Coll.updateO cat cfg s id msg opts; (.wrote o, s')
  | .add id msg opts => let (o, s') := Coll.addO cat cfg s id msg opts; (.wrote o, s')
  | .delete id opts => let (o, s') := Coll.deleteO cat cfg s id opts; (.wrote o, s')

def Coll.runO (cat : K → K → K) (cfg : Cfg M K R) : CState M R → List (COpO M K) → List (CRes M) × CState M R
  | s, [] => ([], s)
  | s, op :: ops =>
    let (r, s1) := Coll.stepO cat cfg s op
    let (rs, s2) := Coll.runO cat cfg s1 ops
    (r :: rs, s2)

/-- A Value call with its option list. -/
inductive VOpO (M K : Type)
  | get (opts : List (ROpt M K))
  | set (msg : M) (opts : List (WOpt M K))

def Value.stepO (cat : K → K → K) (cfg : Cfg M K R) (s : VState M) : VOpO M K → VRes M × VState M
  | .get opts => (.got (Value.getO cfg s opts), s)
  | .set msg opts => let (o, s') := Value.setO cat cfg s msg opts; (.wrote o, s')

def Value.runO (cat : K → K → K) (cfg : Cfg M K R) : VState M → List (VOpO M K) → List (VRes M) × VState M
  | s, [] => ([], s)
  | s, op :: ops =>
    let (r, s1) := Value.stepO cat cfg s op
    let (rs, s2) := Value.runO cat cfg s1 ops
    (r :: rs, s2)

def compileVOp (ops : MsgOps M K) (cat : K → K → K) : VOpO M K → VOp M K
  | .get opts => .get (computeReadConfig opts)
  | .set msg opts => .set msg (computeWriteConfig ops cat opts)

/-- The call on the request RECORD that a call on an option list amounts to. -/
def compileOp (ops : MsgOps M K) (cat : K → K → K) : COpO M K → COp M K
  | .get id opts => .get id (computeReadConfig opts)
  | .list opts => .list (computeReadConfig opts)
  | .update id msg opts => .update id msg (computeWriteConfig ops cat opts)
  | .add id msg opts => .add id msg (computeWriteConfig ops cat opts)
  | .delete id opts => .delete id (computeWriteConfig ops cat opts)

end ScVerif.C01
