import ScVerif.C01.Flat
/-! Facts about the named id interceptors: idempotence and preservation of non-emptiness. -/
namespace ScVerif.C01

theorem lookup_mem {α β : Type} [BEq α] [LawfulBEq α] (l : List (α × β)) (a : α) (b : β)
    (h : l.lookup a = some b) : (a, b) ∈ l := by
  induction l with
  | nil => simp [List.lookup] at h
  | cons x xs ih =>
    obtain ⟨k, v⟩ := x
    simp only [List.lookup] at h
    split at h
    · rename_i heq
      simp only [Option.some.injEq] at h
      have : a = k := by simpa using heq
      subst this; subst h; simp
    · exact List.mem_cons_of_mem _ (ih h)

theorem lowerTable_images : ∀ p ∈ lowerTable, lowerTable.lookup p.2 = none := by decide

theorem lowerChar_idem (c : Char) : lowerChar (lowerChar c) = lowerChar c := by
  unfold lowerChar
  cases h : lowerTable.lookup c with
  | none => simp [h]
  | some d =>
    have := lowerTable_images (c, d) (lookup_mem _ _ _ h)
    simp [this]

theorem lowerStr_idem (s : String) : lowerStr (lowerStr s) = lowerStr s := by
  unfold lowerStr
  simp [String.toList_ofList, List.map_map, Function.comp_def, lowerChar_idem]

theorem lowerStr_ne (s : String) (h : s ≠ "") : lowerStr s ≠ "" := by
  unfold lowerStr
  intro h0
  rw [String.ofList_eq_empty_iff, List.map_eq_nil_iff, String.toList_eq_nil_iff] at h0
  exact h h0

theorem firstStr_idem (s : String) : firstStr (firstStr s) = firstStr s := by
  unfold firstStr
  simp [String.toList_ofList, List.take_take]

theorem firstStr_ne (s : String) (h : s ≠ "") : firstStr s ≠ "" := by
  unfold firstStr
  intro h0
  rw [String.ofList_eq_empty_iff] at h0
  have : s.toList ≠ [] := fun e => h (String.toList_eq_nil_iff.mp e)
  cases hl : s.toList with
  | nil => exact this hl
  | cons a as => rw [hl] at h0; simp at h0

end ScVerif.C01
