import ScVerif.C01.Nested
/-!
# C01 — `Collection.Update` / `Add` whose own callback calls the Collection again

As `Value.setN` (`Nested.lean`), for `Collection.Update`: the get / save closures of `Update` work on
`UpdCtx` (`Model.lean`); the callback at `site` makes the complete calls `calls` on the same Collection
between the first read and the re-validation read.  The re-validation read of the create path
(`created != nil`) re-checks existence, so an item created by a nested call is found (`createdMeanwhile`),
and one deleted by a nested call is created again when the write may create.
-/
namespace ScVerif.C01
variable {M K R : Type}

/-- what the closures of `Update` capture, plus (ghost) what the nested calls returned -/
structure UNest (M R : Type) where
  c : UpdCtx M R
  results : List (CRes M)

/-- the callback makes the calls, in order, on the Collection -/
def nestedRunC (cfg : Cfg M K R) (calls : List (COp M K)) (x : UNest M R) : UNest M R :=
  { c := { x.c with st := (Coll.run cfg x.c.st calls).2 }, results := x.results ++ (Coll.run cfg x.c.st calls).1 }

/-- the bus events of a list of calls -/
def eventsOfC : List (CRes M) → List (CEvent M)
  | [] => []
  | .wrote o :: rs => o.events ++ eventsOfC rs
  | _ :: rs => eventsOfC rs

/-- `Collection.Update(id, msg, opts...)` whose callback at `site` makes the calls `calls`. -/
def Coll.updateN (cfg : Cfg M K R) (s : CState M R) (id : String) (msg : M) (wr : WriteReq M K)
    (site : Site) (calls : List (COp M K)) : COut M × CState M R × List (CRes M) :=
  let id := icptId cfg id
  let u := fieldUpdater cfg wr
  match cfg.ops.validate u msg with
  | some c => ({ val := none, err := some c, events := [], idCalls := [], createdCalls := 0 }, s, [])
  | none =>
    let c0 : UpdCtx M R := { st := s, id := id, created := none, idCalls := [], createdCalls := 0 }
    let rx := getAndUpdateN cfg.ops
      (fun (x : UNest M R) => ((updGet cfg wr x.c).1, { x with c := (updGet cfg wr x.c).2 }))
      (changeFnN cfg.ops wr u msg site (nestedRunC cfg calls))
      (fun x m => { x with c := updSave cfg wr x.c m })
      { c := c0, results := [] }
    let c := rx.2.c
    match rx.1.err, rx.1.new with
    | none, some new =>
      let add := rx.1.old.isNone || (c.created.isSome && !c.createdMeanwhile)
      ({ val := some new, err := none,
         events := eventsOfC rx.2.results ++
           [{ id := c.id, time := (updateTimeC cfg wr c.st).1, kind := if add then .add else .update,
              old := if add then none else rx.1.old, new := some new }],
         idCalls := c.idCalls, createdCalls := c.createdCalls }, (updateTimeC cfg wr c.st).2, rx.2.results)
    | some e, _ =>
      ({ val := none, err := some e, events := eventsOfC rx.2.results, idCalls := c.idCalls,
         createdCalls := c.createdCalls }, c.st, rx.2.results)
    | none, none =>
      ({ val := none, err := some .internal, events := eventsOfC rx.2.results, idCalls := c.idCalls,
         createdCalls := c.createdCalls }, c.st, rx.2.results)

/-- `Collection.Add` with nested calls -/
def Coll.addN (cfg : Cfg M K R) (s : CState M R) (id : String) (msg : M) (wr : WriteReq M K)
    (site : Site) (calls : List (COp M K)) : COut M × CState M R × List (CRes M) :=
  Coll.updateN cfg s id msg { wr with expectAbsent := true, createIfAbsent := true } site calls

end ScVerif.C01
