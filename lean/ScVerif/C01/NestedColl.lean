import ScVerif.C01.Nested
import ScVerif.C01.Lemmas
/-!
# C01 — `Collection.Update` / `Add` whose own callback calls the Collection again

As `Value.setN` (`Nested.lean`), for `Collection.Update`: the get / save closures of `Update` work on
`UpdCtx` (`Model.lean`); the callback at `site` makes the complete calls `calls` on the same Collection
between the first read and the re-validation read.  The re-validation read of the create path
(`created != nil`) re-checks existence, so an item created by a nested call is found (`createdMeanwhile`),
and one deleted by a nested call is created again when the write may create.
-/
namespace ScVerif.C01
variable {M K R : Type}

/-- what the closures of `Update` capture, plus (ghost) what the nested calls returned -/
structure UNest (M R : Type) where
  c : UpdCtx M R
  results : List (CRes M)

/-- the callback makes the calls, in order, on the Collection -/
def nestedRunC (cfg : Cfg M K R) (calls : List (COp M K)) (x : UNest M R) : UNest M R :=
  { c := { x.c with st := (Coll.run cfg x.c.st calls).2 }, results := x.results ++ (Coll.run cfg x.c.st calls).1 }

/-- the bus events of a list of calls -/
def eventsOfC : List (CRes M) → List (CEvent M)
  | [] => []
  | .wrote o :: rs => o.events ++ eventsOfC rs
  | _ :: rs => eventsOfC rs

/-- `Collection.Update(id, msg, opts...)` whose callback at `site` makes the calls `calls`. -/
def Coll.updateN (cfg : Cfg M K R) (s : CState M R) (id : String) (msg : M) (wr : WriteReq M K)
    (site : Site) (calls : List (COp M K)) : COut M × CState M R × List (CRes M) :=
  let id := updKey cfg wr id
  let u := fieldUpdater cfg wr
  match cfg.ops.validate u msg with
  | some c => ({ val := none, err := some c, events := [], idCalls := [], createdCalls := 0 }, s, [])
  | none =>
    let c0 : UpdCtx M R := { st := s, id := id, created := none, idCalls := [], createdCalls := 0 }
    let rx := getAndUpdateN cfg.ops
      (fun (x : UNest M R) => ((updGet cfg wr x.c).1, { x with c := (updGet cfg wr x.c).2 }))
      (changeFnN cfg.ops wr u msg site (nestedRunC cfg calls))
      (fun x m => { x with c := updSave cfg wr x.c m })
      { c := c0, results := [] }
    let c := rx.2.c
    match rx.1.err, rx.1.new with
    | none, some new =>
      let add := rx.1.old.isNone || (c.created.isSome && !c.createdMeanwhile)
      ({ val := some new, err := none,
         events := eventsOfC rx.2.results ++
           [{ id := c.id, time := (updateTimeC cfg wr c.st).1, kind := if add then .add else .update,
              old := if add then none else rx.1.old, new := some new }],
         idCalls := c.idCalls, createdCalls := c.createdCalls }, (updateTimeC cfg wr c.st).2, rx.2.results)
    | some e, _ =>
      ({ val := none, err := some e, events := eventsOfC rx.2.results, idCalls := c.idCalls,
         createdCalls := c.createdCalls }, c.st, rx.2.results)
    | none, none =>
      ({ val := none, err := some .internal, events := eventsOfC rx.2.results, idCalls := c.idCalls,
         createdCalls := c.createdCalls }, c.st, rx.2.results)

/-- `Collection.Add` with nested calls -/
def Coll.addN (cfg : Cfg M K R) (s : CState M R) (id : String) (msg : M) (wr : WriteReq M K)
    (site : Site) (calls : List (COp M K)) : COut M × CState M R × List (CRes M) :=
  Coll.updateN cfg s id msg { wr with expectAbsent := true, createIfAbsent := true } site calls

/-! ### lemmas -/

/-- the get closure of `Update` touches neither the contents nor the clock (only the rng, when it generates an id) -/
theorem updGet_frame (cfg : Cfg M K R) (wr : WriteReq M K) (c : UpdCtx M R) :
    (updGet cfg wr c).2.st.items = c.st.items ∧ (updGet cfg wr c).2.st.clock = c.st.clock := by
  unfold updGet
  cases hcr : c.created with
  | some cr =>
    simp only
    cases lookup c.st.items c.id with
    | none => simp
    | some it => by_cases hx : wr.expectAbsent = true <;> simp [hx]
  | none =>
    simp only
    by_cases hg : (c.id = "" && wr.genEmptyID) = true
    · simp only [hg, ↓reduceIte]
      rcases hgen : genID cfg (usedIn c.st.items) c.st.rng with ⟨r, rng'⟩
      cases r with
      | none => simp
      | some id' =>
        simp only
        cases lookup c.st.items id' with
        | none => by_cases hc : wr.createIfAbsent = true <;> simp [hc]
        | some it => by_cases hx : wr.expectAbsent = true <;> simp [hx]
    · simp only [hg, Bool.false_eq_true, ↓reduceIte]
      cases lookup c.st.items c.id with
      | none => by_cases hc : wr.createIfAbsent = true <;> simp [hc]
      | some it => by_cases hx : wr.expectAbsent = true <;> simp [hx]

/-- `GetAndUpdate` on a state that carries ghost data next to what the closures touch -/
theorem getAndUpdateN_lift (ops : MsgOps M K) (get : UpdCtx M R → Except Code (Option M) × UpdCtx M R)
    (change : Option M → Option M → Except Code M) (save : UpdCtx M R → M → UpdCtx M R) (c0 : UpdCtx M R)
    (g : List (CRes M)) :
    getAndUpdateN ops (fun (x : UNest M R) => ((get x.c).1, { x with c := (get x.c).2 }))
        (fun o d x => (change o d, x)) (fun x m => { x with c := save x.c m }) { c := c0, results := g } =
      ((getAndUpdate ops get change save c0).1, { c := (getAndUpdate ops get change save c0).2, results := g }) := by
  unfold getAndUpdateN getAndUpdate
  dsimp only
  rcases hg : get c0 with ⟨r, c1⟩
  cases r with
  | error c => simp
  | ok old =>
    dsimp only
    cases hc : change old old with
    | error c => simp
    | ok new =>
      dsimp only
      rcases hg2 : get c1 with ⟨r2, c2⟩
      cases r2 <;> simp <;> split <;> simp

theorem nestedRunC_nil (cfg : Cfg M K R) (x : UNest M R) : nestedRunC cfg [] x = x := by
  simp [nestedRunC, Coll.run]

theorem updateTimeC_items (cfg : Cfg M K R) (wr : WriteReq M K) (st : CState M R) :
    (updateTimeC cfg wr st).2.items = st.items := by
  unfold updateTimeC nowC; cases wr.writeTime <;> rfl

end ScVerif.C01
