import ScVerif.C01.Nested
import ScVerif.C01.Lemmas
/-!
# C01 — `Collection.Update` / `Add` whose own callback calls the Collection again

As `Value.setN` (`Nested.lean`), for `Collection.Update`: the get / save closures of `Update` work on
`UpdCtx` (`Model.lean`); the callback at `site` makes the complete calls `calls` on the same Collection
between the first read and the re-validation read.  The re-validation read of the create path
(`created != nil`) re-checks existence, so an item created by a nested call is found (`createdMeanwhile`),
and one deleted by a nested call is created again when the write may create.
-/
namespace ScVerif.C01
variable {M K R : Type}

/-- what the closures of `Update` capture, plus (ghost) what the nested calls returned -/
structure UNest (M R : Type) where
  c : UpdCtx M R
  results : List (CRes M)

/-- the callback makes the calls, in order, on the Collection -/
def nestedRunC (cfg : Cfg M K R) (calls : List (COp M K)) (x : UNest M R) : UNest M R :=
  { c := { x.c with st := (Coll.run cfg x.c.st calls).2 }, results := x.results ++ (Coll.run cfg x.c.st calls).1 }

/-- the bus events of a list of calls -/
def eventsOfC : List (CRes M) → List (CEvent M)
  | [] => []
  | .wrote o :: rs => o.events ++ eventsOfC rs
  | _ :: rs => eventsOfC rs

/-- `Collection.Update(id, msg, opts...)` whose callback at `site` makes the calls `calls`. -/
def Coll.updateN (cfg : Cfg M K R) (s : CState M R) (id : String) (msg : M) (wr : WriteReq M K)
    (site : Site) (calls : List (COp M K)) : COut M × CState M R × List (CRes M) :=
  let id := updKey cfg wr id
  let u := fieldUpdater cfg wr
  match cfg.ops.validate u msg with
  | some c => ({ val := none, err := some c, events := [], idCalls := [], createdCalls := 0 }, s, [])
  | none =>
    let c0 : UpdCtx M R := { st := s, id := id, created := none, idCalls := [], createdCalls := 0 }
    let rx := getAndUpdateN cfg.ops
      (fun (x : UNest M R) => ((updGet cfg wr x.c).1, { x with c := (updGet cfg wr x.c).2 }))
      (changeFnN cfg.ops wr u msg site (nestedRunC cfg calls))
      (fun x m => { x with c := updSave cfg wr x.c m })
      { c := c0, results := [] }
    let c := rx.2.c
    match rx.1.err, rx.1.new with
    | none, some new =>
      let add := rx.1.old.isNone || (c.created.isSome && !c.createdMeanwhile)
      ({ val := some new, err := none,
         events := eventsOfC rx.2.results ++
           [{ id := c.id, time := (updateTimeC cfg wr c.st).1, kind := if add then .add else .update,
              old := if add then none else rx.1.old, new := some new }],
         idCalls := c.idCalls, createdCalls := c.createdCalls }, (updateTimeC cfg wr c.st).2, rx.2.results)
    | some e, _ =>
      ({ val := none, err := some e, events := eventsOfC rx.2.results, idCalls := c.idCalls,
         createdCalls := c.createdCalls }, c.st, rx.2.results)
    | none, none =>
      ({ val := none, err := some .internal, events := eventsOfC rx.2.results, idCalls := c.idCalls,
         createdCalls := c.createdCalls }, c.st, rx.2.results)

/-- `Collection.Add` with nested calls -/
def Coll.addN (cfg : Cfg M K R) (s : CState M R) (id : String) (msg : M) (wr : WriteReq M K)
    (site : Site) (calls : List (COp M K)) : COut M × CState M R × List (CRes M) :=
  Coll.updateN cfg s id msg { wr with expectAbsent := true, createIfAbsent := true } site calls

/-- the second half of `Delete`'s first attempt, under the write lock, on the Collection `s1` the check left:
the very item that was read (`oldVal2 == oldVal`: here same stored time and `proto.Equal` body) is deleted;
anything else (gone, replaced, written) sends Delete round its loop with what is stored now (four attempts
left) -/
def deleteSecond (cfg : Cfg M K R) (wr : WriteReq M K) (k : String) (it : Item M) (s1 : CState M R) :
    COut M × CState M R :=
  if sameItem cfg.ops (lookup s1.items k) (some it) then
    ({ val := some it.body, err := none,
       events := [{ id := k, time := s1.clock, kind := .remove, old := some it.body, new := none }],
       idCalls := [], createdCalls := 0 },
     { s1 with clock := s1.clock + cfg.tick, items := eraseItem s1.items k })
  else deleteLoop cfg wr k 4 (lookup s1.items k) s1

/-- `Collection.Delete(id, opts...)` whose expected check makes, on its first invocation, the calls `calls` on
the same Collection (Delete has no before / after interceptor: at another site, without a check, or when the
first read finds no item, nothing is called and this is `Coll.delete`).  The first attempt of the loop reads
the item under the read lock, runs the check with no lock held - here the nested calls happen - and the
expected-value test on the item it READ, then takes the write lock and looks the id up again: the very item
it read (`oldVal2 == oldVal`: here same stored time and `proto.Equal` body) is deleted; anything else (gone,
replaced, written) sends it round the loop with what is stored now (`deleteLoop`, four attempts left, whose
checks make no calls: the wrapped check nests on its first invocation only). -/
def Coll.deleteN (cfg : Cfg M K R) (s : CState M R) (id : String) (wr : WriteReq M K)
    (site : Site) (calls : List (COp M K)) : COut M × CState M R × List (CRes M) :=
  let k := icptId cfg id
  match site, wr.expectedCheck, lookup s.items k with
  | .chk, some chk, some it =>
    let s1 := (Coll.run cfg s calls).2
    let rs := (Coll.run cfg s calls).1
    match chk (some it.body) with
    | some e =>
      ({ val := some it.body, err := some e, events := eventsOfC rs, idCalls := [], createdCalls := 0 }, s1, rs)
    | none =>
      if (match wr.expectedValue with | some ev => !(cfg.ops.eq it.body ev) | none => false) then
        ({ val := some it.body, err := some .failedPrecondition, events := eventsOfC rs, idCalls := [],
           createdCalls := 0 }, s1, rs)
      else
        let o := deleteSecond cfg wr k it s1
        ({ o.1 with events := eventsOfC rs ++ o.1.events }, o.2, rs)
  | _, _, _ => ((Coll.delete cfg s id wr).1, (Coll.delete cfg s id wr).2, [])

/-! ### lemmas -/

/-- the get closure of `Update` touches neither the contents nor the clock (only the rng, when it generates an id) -/
theorem updGet_frame (cfg : Cfg M K R) (wr : WriteReq M K) (c : UpdCtx M R) :
    (updGet cfg wr c).2.st.items = c.st.items ∧ (updGet cfg wr c).2.st.clock = c.st.clock := by
  unfold updGet
  cases hcr : c.created with
  | some cr =>
    simp only
    cases lookup c.st.items c.id with
    | none => simp
    | some it => by_cases hx : wr.expectAbsent = true <;> simp [hx]
  | none =>
    simp only
    by_cases hg : (c.id = "" && wr.genEmptyID) = true
    · simp only [hg, ↓reduceIte]
      rcases hgen : genID cfg (usedIn c.st.items) c.st.rng with ⟨r, rng'⟩
      cases r with
      | none => simp
      | some id' =>
        simp only
        cases lookup c.st.items id' with
        | none => by_cases hc : wr.createIfAbsent = true <;> simp [hc]
        | some it => by_cases hx : wr.expectAbsent = true <;> simp [hx]
    · simp only [hg, Bool.false_eq_true, ↓reduceIte]
      cases lookup c.st.items c.id with
      | none => by_cases hc : wr.createIfAbsent = true <;> simp [hc]
      | some it => by_cases hx : wr.expectAbsent = true <;> simp [hx]

/-- `GetAndUpdate` on a state that carries ghost data next to what the closures touch -/
theorem getAndUpdateN_lift (ops : MsgOps M K) (get : UpdCtx M R → Except Code (Option M) × UpdCtx M R)
    (change : Option M → Option M → Except Code M) (save : UpdCtx M R → M → UpdCtx M R) (c0 : UpdCtx M R)
    (g : List (CRes M)) :
    getAndUpdateN ops (fun (x : UNest M R) => ((get x.c).1, { x with c := (get x.c).2 }))
        (fun o d x => (change o d, x)) (fun x m => { x with c := save x.c m }) { c := c0, results := g } =
      ((getAndUpdate ops get change save c0).1, { c := (getAndUpdate ops get change save c0).2, results := g }) := by
  unfold getAndUpdateN getAndUpdate
  dsimp only
  rcases hg : get c0 with ⟨r, c1⟩
  cases r with
  | error c => simp
  | ok old =>
    dsimp only
    cases hc : change old old with
    | error c => simp
    | ok new =>
      dsimp only
      rcases hg2 : get c1 with ⟨r2, c2⟩
      cases r2 <;> simp <;> split <;> simp

theorem nestedRunC_nil (cfg : Cfg M K R) (x : UNest M R) : nestedRunC cfg [] x = x := by
  simp [nestedRunC, Coll.run]

theorem updateTimeC_items (cfg : Cfg M K R) (wr : WriteReq M K) (st : CState M R) :
    (updateTimeC cfg wr st).2.items = st.items := by
  unfold updateTimeC nowC; cases wr.writeTime <;> rfl

/-- a failing attempt loop of `Delete` started from what is stored leaves the Collection alone and emits nothing -/
theorem deleteLoop_fail_frame (cfg : Cfg M K R) (h : EqRefl cfg.ops) (wr : WriteReq M K) (k : String) (fuel : Nat)
    (s : CState M R) (hf : (deleteLoop cfg wr k (fuel + 1) (lookup s.items k) s).1.err ≠ none) :
    (deleteLoop cfg wr k (fuel + 1) (lookup s.items k) s).2 = s ∧
    (deleteLoop cfg wr k (fuel + 1) (lookup s.items k) s).1.events = [] := by
  rw [deleteLoop_first cfg h] at hf ⊢
  revert hf
  cases lookup s.items k with
  | none => intro _; simp only []; split <;> exact ⟨rfl, rfl⟩
  | some it =>
    simp only []
    cases wr.expectedCheck with
    | none =>
      cases wr.expectedValue with
      | none => intro hf; simp at hf
      | some ev => cases hq : cfg.ops.eq it.body ev <;> simp [hq]
    | some chk =>
      cases hc : chk (some it.body) with
      | some e => simp [hc]
      | none =>
        cases wr.expectedValue with
        | none => intro hf; simp [hc] at hf
        | some ev => cases hq : cfg.ops.eq it.body ev <;> simp [hc, hq]

/-- a succeeding one finds nothing (allow-missing) or removes and returns what is stored -/
theorem deleteLoop_ok (cfg : Cfg M K R) (h : EqRefl cfg.ops) (wr : WriteReq M K) (k : String) (fuel : Nat)
    (s : CState M R) (hok : (deleteLoop cfg wr k (fuel + 1) (lookup s.items k) s).1.err = none) :
    (lookup s.items k = none ∧ (deleteLoop cfg wr k (fuel + 1) (lookup s.items k) s).1.val = none ∧
      (deleteLoop cfg wr k (fuel + 1) (lookup s.items k) s).2 = s ∧
      (deleteLoop cfg wr k (fuel + 1) (lookup s.items k) s).1.events = []) ∨
    (∃ it, lookup s.items k = some it ∧
      (deleteLoop cfg wr k (fuel + 1) (lookup s.items k) s).1.val = some it.body ∧
      (deleteLoop cfg wr k (fuel + 1) (lookup s.items k) s).2 =
        { s with clock := s.clock + cfg.tick, items := eraseItem s.items k } ∧
      (deleteLoop cfg wr k (fuel + 1) (lookup s.items k) s).1.events =
        [{ id := k, time := s.clock, kind := .remove, old := some it.body, new := none }]) := by
  rw [deleteLoop_first cfg h] at hok ⊢
  revert hok
  cases hl : lookup s.items k with
  | none => intro hok; left; simp only [] at hok ⊢; split <;> simp_all
  | some it =>
    simp only []
    intro hok
    right
    refine ⟨it, rfl, ?_⟩
    revert hok
    cases wr.expectedCheck with
    | none =>
      cases wr.expectedValue with
      | none => intro _; simp
      | some ev => cases hq : cfg.ops.eq it.body ev <;> simp [hq]
    | some chk =>
      cases hc : chk (some it.body) with
      | some e => simp [hc]
      | none =>
        cases wr.expectedValue with
        | none => intro _; simp [hc]
        | some ev => cases hq : cfg.ops.eq it.body ev <;> simp [hc, hq]

theorem deleteSecond_fail_frame (cfg : Cfg M K R) (h : EqRefl cfg.ops) (wr : WriteReq M K) (k : String)
    (it : Item M) (s1 : CState M R) (hf : (deleteSecond cfg wr k it s1).1.err ≠ none) :
    (deleteSecond cfg wr k it s1).2 = s1 ∧ (deleteSecond cfg wr k it s1).1.events = [] := by
  unfold deleteSecond at hf ⊢
  cases hsame : sameItem cfg.ops (lookup s1.items k) (some it) with
  | true => simp [hsame] at hf
  | false =>
    simp only [hsame, Bool.false_eq_true, ↓reduceIte] at hf ⊢
    exact deleteLoop_fail_frame cfg h wr k 3 s1 hf

theorem deleteSecond_ok (cfg : Cfg M K R) (h : EqRefl cfg.ops) (wr : WriteReq M K) (k : String)
    (it : Item M) (s1 : CState M R) (hok : (deleteSecond cfg wr k it s1).1.err = none) :
    (lookup s1.items k = none ∧ (deleteSecond cfg wr k it s1).1.val = none ∧
      (deleteSecond cfg wr k it s1).2 = s1 ∧ (deleteSecond cfg wr k it s1).1.events = []) ∨
    (∃ cur b, lookup s1.items k = some cur ∧ cfg.ops.eq cur.body b = true ∧
      (deleteSecond cfg wr k it s1).1.val = some b ∧
      (deleteSecond cfg wr k it s1).2 = { s1 with clock := s1.clock + cfg.tick, items := eraseItem s1.items k } ∧
      (deleteSecond cfg wr k it s1).1.events =
        [{ id := k, time := s1.clock, kind := .remove, old := some b, new := none }]) := by
  unfold deleteSecond at hok ⊢
  cases hsame : sameItem cfg.ops (lookup s1.items k) (some it) with
  | true =>
    right
    simp only [↓reduceIte]
    cases hcur : lookup s1.items k with
    | none => rw [hcur] at hsame; simp [sameItem] at hsame
    | some cur =>
      rw [hcur] at hsame
      simp only [sameItem, Bool.and_eq_true] at hsame
      refine ⟨cur, it.body, ?_, hsame.2, ?_, ?_, ?_⟩ <;> first | rfl | trivial
  | false =>
    simp only [hsame, Bool.false_eq_true, ↓reduceIte] at hok ⊢
    rcases deleteLoop_ok cfg h wr k 3 s1 hok with h1 | ⟨cur, h1, h2, h3, h4⟩
    · exact Or.inl h1
    · exact Or.inr ⟨cur, cur.body, h1, h _, h2, h3, h4⟩

end ScVerif.C01
