import ScVerif.C01.PathsLemmas
import ScVerif.C01.Flat
/-!
The real path strings of the path letters of `Flat.lean`, and the finite table of which of them lies
inside which.
-/
namespace ScVerif.C01
open Paths

/-- the real path of each path letter of `Flat.lean`, as segments -/
def pathOf : Field → List Seg
  | .a => ["default_int32".toList]
  | .s => ["default_string".toList]
  | .c => ["optional_int32".toList]
  | .f => ["default_foreign_message".toList]
  | .r => ["repeated_int32".toList]
  | .x => ["no_such_field".toList]
  | .fc => ["default_foreign_message".toList, "c".toList]
  | .fd => ["default_foreign_message".toList, "d".toList]
  | .fx => ["default_foreign_message".toList, "no_such_field".toList]
  | .p => ["open_percent".toList]
  | .t => ["open_percent_tween".toList]
  | .tp => ["open_percent_tween".toList, "progress".toList]

/-- the field a nested path lies in -/
def parentOf : Field → Option Field
  | .fc => some .f | .fd => some .f | .fx => some .f | .tp => some .t | _ => none

theorem pathOf_wf (q : Field) : WF (pathOf q) := by
  cases q <;> exact ⟨by simp [pathOf], by intro s hs; simp [pathOf] at hs; rcases hs with rfl | rfl <;> decide⟩

/-- the finite table behind the concrete model: among the modelled paths, one is a segment-prefix of
another exactly for a field and the nested paths inside it -/
theorem pathOf_prefix (q l : Field) : pathOf q <+: pathOf l ↔ (q = l ∨ parentOf l = some q) := by
  rw [← List.isPrefixOf_iff_prefix]
  cases q <;> cases l <;> decide

end ScVerif.C01
