import ScVerif.C01.OptsLemmas
import ScVerif.C01.IdLemmas
import ScVerif.C01.Props
/-!
# C01 — property theorems, part 2: option LISTS and intercepted ids

"… for every sequence of Get, List, Set, Add, Update and Delete calls with ANY COMBINATION of write
options … each call returns what a plain reference model returns and leaves the same contents."

`Props.lean` proves this for request records.  The calls take option LISTS (`opt.go`: options are
applied in order; `Opts.lean`); here the statement is carried to lists: what a call does is a function
of the list it is given (lists are values — a call cannot alter the list its caller will pass to a later
call, which is what the tie's shared-slice runs check of the code), `Add`'s two implied options may sit
anywhere, flags are never unset, setters are last-wins (a nil read mask after a mask reads everything),
`WithMoreUpdateMask` extends the mask in force where it stands; every run on option lists is a run of
the reference map.  Second group: every id a call stores under, announces or reports is the id
interceptor's image of the id it was given or of a generated candidate, and Delete acts on exactly that id.

All theorems: every message type / message operations, configuration, option list, callbacks, state.
-/
namespace ScVerif.C01
variable {M K R : Type}

/-- `Collection.Add(id, m, opts...)` is `Update` on the record computed from `opts` with the two flags
set — wherever the two options sit: prepended (what the code does) or appended. -/
theorem C01_add_options (cat : K → K → K) (cfg : Cfg M K R) (s : CState M R) (id : String) (msg : M) (opts : List (WOpt M K)) :
    Coll.addO cat cfg s id msg opts = Coll.add cfg s id msg (computeWriteConfig cfg.ops cat opts) ∧
    Coll.addO cat cfg s id msg opts = Coll.updateO cat cfg s id msg (opts ++ [.expectAbsent, .createIfAbsent]) := by
  unfold Coll.addO Coll.updateO Coll.add
  rw [computeWriteConfig_add_front, computeWriteConfig_add_back]
  exact ⟨rfl, rfl⟩

/-- Flags are only ever set: whatever options follow, expect-absent, create-if-absent, generate-id and
all-fields-writable stay in force once given. -/
theorem C01_option_flags_sticky (ops : MsgOps M K) (cat : K → K → K) (pre post : List (WOpt M K)) :
    ((computeWriteConfig ops cat pre).expectAbsent = true → (computeWriteConfig ops cat (pre ++ post)).expectAbsent = true) ∧
    ((computeWriteConfig ops cat pre).createIfAbsent = true → (computeWriteConfig ops cat (pre ++ post)).createIfAbsent = true) ∧
    ((computeWriteConfig ops cat pre).genEmptyID = true → (computeWriteConfig ops cat (pre ++ post)).genEmptyID = true) ∧
    ((computeWriteConfig ops cat pre).nilWritable = true → (computeWriteConfig ops cat (pre ++ post)).nilWritable = true) := by
  unfold computeWriteConfig
  rw [List.foldl_append]
  exact foldl_flags_mono ops cat post _

/-- The update mask of a list: the LAST `WithUpdateMask(m)` decides (whatever came before it), and
every `WithMoreUpdateMask(k)` after it adds the paths of `k`, as given (`cat`), — unless `m` is nil, which stays nil ("everything").
With no `WithUpdateMask` at all the mask is nil, whatever `WithMoreUpdateMask` options there are. -/
theorem C01_update_mask_options (ops : MsgOps M K) (cat : K → K → K) (pre post : List (WOpt M K)) (m : Option K)
    (hpost : ∀ o ∈ post, o.setsUpdateMask = false) :
    (computeWriteConfig ops cat (pre ++ .updateMask m :: post)).updateMask = moreMasks cat post m ∧
    (computeWriteConfig ops cat post).updateMask = none ∧
    moreMasks cat post none = none := by
  have hnone : moreMasks cat post none = none := by
    unfold moreMasks
    generalize post = l
    induction l with
    | nil => rfl
    | cons o l ih => simp only [List.foldl_cons]; cases o <;> exact ih
  refine ⟨?_, ?_, hnone⟩
  · unfold computeWriteConfig
    rw [List.foldl_append, List.foldl_cons, foldl_updateMask ops cat post hpost]
    rfl
  · unfold computeWriteConfig
    rw [foldl_updateMask ops cat post hpost]
    exact hnone

/-- The function-valued settings (expected check, before / after interceptor, created callback, id
callback): the LAST option of the kind decides, a nil function included — `WithCreatedCallback(nil)` after
a callback switches it off again, a callback after a nil switches it on —, whatever came before; with no
option of the kind the setting is off. -/
theorem C01_function_options_last_wins (ops : MsgOps M K) (cat : K → K → K) (k : FnSetting)
    (pre post : List (WOpt M K)) (hpost : ∀ o ∈ post, o.setsFn ≠ some k) :
    (∀ o, o.setsFn = some k →
      sameFn k (computeWriteConfig ops cat (pre ++ o :: post)) (applyW ops cat {} o)) ∧
    sameFn k (computeWriteConfig ops cat post) {} := by
  constructor
  · intro o ho
    unfold computeWriteConfig
    rw [List.foldl_append, List.foldl_cons]
    exact sameFn_trans k (foldl_keeps_fn ops cat k post hpost _) (applyW_sets_fn ops cat k _ _ o ho)
  · exact foldl_keeps_fn ops cat k post hpost _

/-- Read options are last-wins, independently for the mask and the include predicate. -/
theorem C01_read_options_last_wins (pre post : List (ROpt M K)) :
    (∀ m, (∀ o ∈ post, o.setsReadMask = false) →
      (computeReadConfig (pre ++ .readMask m :: post)).readMask = m) ∧
    (∀ f, (∀ o ∈ post, o.setsInclude = false) →
      (computeReadConfig (pre ++ .incl f :: post)).incl = f) := by
  constructor
  · intro m hp
    unfold computeReadConfig
    rw [List.foldl_append, List.foldl_cons, foldl_readMask_keep post hp]
    rfl
  · intro f hp
    unfold computeReadConfig
    rw [List.foldl_append, List.foldl_cons, foldl_incl_keep post hp]
    rfl

/-- `WithReadMask(nil)` after any options switches masking off: Get (Collection and Value) returns the
nil-mask projection of the stored message, whatever masks were given before. -/
theorem C01_nil_read_mask_reads_all (cfg : Cfg M K R) (s : CState M R) (v : VState M) (id : String)
    (pre : List (ROpt M K)) :
    Coll.getO cfg s id (pre ++ [.readMask none]) = (lookup s.items (icptId cfg id)).map (fun it => cfg.ops.filter none it.body) ∧
    Value.getO cfg v (pre ++ [.readMask none]) = v.value.map (cfg.ops.filter none) := by
  have h := (C01_read_options_last_wins (M := M) (K := K) pre []).1 none (by simp)
  unfold Coll.getO Value.getO Coll.get Value.get
  rw [h]
  exact ⟨rfl, rfl⟩

/-- List with any option list, on every reachable state (any initial records, any sequence of calls
with option lists): ids strictly increasing; an entry is listed iff the LAST include predicate (if any)
accepts the id and the STORED message (not its masked projection), and what is listed is the projection
of the stored message by the LAST read mask. -/
theorem C01_list_options (cat : K → K → K) (cfg : Cfg M K R) (h : EqRefl cfg.ops) (records : List (String × M)) (rng : R)
    (ops : List (COpO M K))
    (pre post : List (ROpt M K)) (m : Option K) (f : Option (String → M → Bool))
    (hm : ∀ o ∈ post, o.setsReadMask = false) (hf : ∀ o ∈ post, o.setsInclude = false) :
    let s := (Coll.runO cat cfg (Coll.init cfg records rng) ops).2
    ((Coll.listIdsO cfg s (pre ++ .readMask m :: .incl f :: post)).map (·.1)).Pairwise (· < ·) ∧
    ∀ id v, (id, v) ∈ Coll.listIdsO cfg s (pre ++ .readMask m :: .incl f :: post) ↔
      ∃ it, lookup s.items id = some it ∧ (∀ p, f = some p → p id it.body = true) ∧ v = cfg.ops.filter m it.body := by
  intro s
  have hn : NodupKeys s.items := by
    have : ∀ (ops : List (COp M K)) (s0 : CState M R), NodupKeys s0.items →
        NodupKeys (Coll.run cfg s0 ops).2.items := by
      intro ops
      induction ops with
      | nil => intro s0 h0; exact h0
      | cons op ops ih => intro s0 h0; simp only [Coll.run]; exact ih _ (step_nodup cfg h s0 op h0)
    show NodupKeys (Coll.runO cat cfg (Coll.init cfg records rng) ops).2.items
    rw [runO_eq]
    exact this _ _ (nodupKeys_init cfg records rng)
  have h1 : (computeReadConfig (pre ++ .readMask m :: .incl f :: post)).readMask = m :=
    (C01_read_options_last_wins pre (.incl f :: post)).1 m (by
      intro o ho
      rcases List.mem_cons.mp ho with rfl | ho
      · rfl
      · exact hm o ho)
  have h2 : (computeReadConfig (pre ++ .readMask m :: .incl f :: post)).incl = f := by
    have := (C01_read_options_last_wins (pre ++ [.readMask m]) post).2 f hf
    simpa using this
  have hs := coll_list_spec cfg s (computeReadConfig (pre ++ .readMask m :: .incl f :: post)) hn
  unfold Coll.listIdsO
  refine ⟨hs.1, ?_⟩
  intro id v
  rw [hs.2 id v]
  unfold excluded
  rw [h1, h2]
  constructor
  · rintro ⟨it, hl, hx, hv⟩
    refine ⟨it, hl, ?_, hv⟩
    intro p hp
    subst hp
    simpa using hx
  · rintro ⟨it, hl, hx, hv⟩
    refine ⟨it, hl, ?_, hv⟩
    cases f with
    | none => rfl
    | some p => simp [hx p rfl]

/-- Collection ⊑ map, on option lists: from any initial records every sequence of calls, each with
its own option list, is a run of the reference map on the computed records. -/
theorem C01_collection_refines_opts (cat : K → K → K) (cfg : Cfg M K R) (h : EqRefl cfg.ops) (records : List (String × M)) (rng : R)
    (ops : List (COpO M K)) :
    Spec.Run cfg (abs (Coll.init cfg records rng)) (ops.map (compileOp cfg.ops cat))
      (Coll.runO cat cfg (Coll.init cfg records rng) ops).1
      (abs (Coll.runO cat cfg (Coll.init cfg records rng) ops).2) := by
  rw [runO_eq]
  exact run_refines cfg h _ _ (nodupKeys_init cfg records rng)

/-- Value ⊑ register, on option lists. -/
theorem C01_value_refines_opts (cat : K → K → K) (cfg : Cfg M K R) (h : EqRefl cfg.ops) (ops : List (VOpO M K)) (s : VState M) :
    Value.runO cat cfg s ops = Spec.vrun cfg s (ops.map (compileVOp cfg.ops cat)) := by
  rw [vrunO_eq, value_set_run cfg h]
where
  value_set_run (cfg : Cfg M K R) (h : EqRefl cfg.ops) : ∀ (ops : List (VOp M K)) (s : VState M),
      Value.run cfg s ops = Spec.vrun cfg s ops := by
    intro ops
    induction ops with
    | nil => intro s; rfl
    | cons op ops ih =>
      intro s
      cases op with
      | get ro => simp only [Value.run, Spec.vrun, Value.step, Spec.vstep, Value.get, ih]
      | set msg wr => simp only [Value.run, Spec.vrun, Value.step, Spec.vstep, value_set_eq cfg h, ih]

/-- Which fields a write may touch, as a function of its option list: `WithAllFieldsWritable` anywhere in
the list lifts the resource's restriction whatever else is given; otherwise the writable fields are the
resource's united with the masks of ALL `WithMoreWritableFields` options (none of them is lost, wherever
they stand); a resource without a restriction has none.  No other option has a say. -/
theorem C01_writable_options (cat : K → K → K) (cfg : Cfg M K R) (opts : List (WOpt M K)) :
    (fieldUpdater cfg (computeWriteConfig cfg.ops cat opts)).writable =
      if opts.any WOpt.isAllWritable then none
      else cfg.writable.map (fun w => cfg.ops.union w (moreWritableOf cfg.ops opts none)) := by
  have hf := foldl_writable cfg.ops cat opts ({} : WriteReq M K)
  unfold fieldUpdater computeWriteConfig
  simp only [hf.1, hf.2, Bool.false_or]
  cases opts.any WOpt.isAllWritable with
  | true => rfl
  | false => cases cfg.writable <;> rfl

/-- Delete goes through the id interceptor: it acts on `icpt id`. What it returns is the message stored
there; a successful delete of a present item emits exactly one event, a REMOVE of `icpt id` carrying
that message (none if the item is absent and allow-missing is set); nothing is reported through the id
callback; afterwards exactly the key `icpt id` is gone and every other key is as before. -/
theorem C01_delete_intercepted (cfg : Cfg M K R) (h : EqRefl cfg.ops) (s : CState M R) (id : String)
    (wr : WriteReq M K) (hok : (Coll.delete cfg s id wr).1.err = none) :
    (Coll.delete cfg s id wr).1.val = (lookup s.items (icptId cfg id)).map (·.body) ∧
    (Coll.delete cfg s id wr).1.idCalls = [] ∧
    (∀ it, lookup s.items (icptId cfg id) = some it →
      ∃ t, (Coll.delete cfg s id wr).1.events =
        [{ id := icptId cfg id, time := t, kind := .remove, old := some it.body, new := none }]) ∧
    (lookup s.items (icptId cfg id) = none → (Coll.delete cfg s id wr).1.events = []) ∧
    ∀ k, lookup (Coll.delete cfg s id wr).2.items k = if k = icptId cfg id then none else lookup s.items k := by
  have hd := delete_ids cfg h s id wr
  obtain ⟨hval, hev, hkeys⟩ := hd.2.2 hok
  refine ⟨hval, hd.2.1, ?_, hev.mpr, hkeys⟩
  intro it hl
  have he := coll_delete_eq cfg h s id wr
  rw [he.1] at hok ⊢
  unfold Spec.delete at hok ⊢
  have habs : (abs s).m (icptId cfg id) = some it := hl
  simp only [habs] at hok ⊢
  cases hchk : wr.expectedCheck with
  | none =>
    simp only [hchk] at hok ⊢
    cases hev : wr.expectedValue with
    | none => simp
    | some ev => cases hq : cfg.ops.eq it.body ev <;> simp [hev, hq, failOut] at hok ⊢
  | some chk =>
    simp only [hchk] at hok ⊢
    cases hc : chk (some it.body) with
    | some e => simp [hc, failOut] at hok
    | none =>
      simp only [hc] at hok ⊢
      cases hev : wr.expectedValue with
      | none => simp
      | some ev => cases hq : cfg.ops.eq it.body ev <;> simp [hev, hq, failOut] at hok ⊢

/-- Every id in an output is an intercepted id: over any call sequence from any state, every id carried
by a bus event or handed to the id callback is in the image of the id interceptor, and every key of the
final contents is a key of the initial contents or in that image. -/
theorem C01_ids_intercepted (cfg : Cfg M K R) (h : EqRefl cfg.ops) (ops : List (COp M K)) :
    ∀ s : CState M R,
      (∀ r ∈ (Coll.run cfg s ops).1, ∀ k ∈ resIds r, ∃ x, k = icptId cfg x) ∧
      (∀ k, lookup (Coll.run cfg s ops).2.items k ≠ none → lookup s.items k ≠ none ∨ ∃ x, k = icptId cfg x) := by
  induction ops with
  | nil => intro s; exact ⟨by simp [Coll.run], fun k hk => Or.inl hk⟩
  | cons op ops ih =>
    intro s
    have hs := step_ids cfg h s op
    have hr := ih (Coll.step cfg s op).2
    simp only [Coll.run]
    refine ⟨?_, ?_⟩
    · intro r hmem
      rcases List.mem_cons.mp hmem with rfl | hmem
      · exact hs.1
      · exact hr.1 r hmem
    · intro k hk
      rcases hr.2 k hk with h1 | h1
      · exact hs.2 k h1
      · exact Or.inr h1

/-- Update/Add: the id of the one event of a successful call, the id reported through the id callback and
the key the new message is stored under are ONE id: the interceptor's image of the id given, or — when
that is empty and ids are generated — of a non-empty generated candidate. -/
theorem C01_update_intercepted (cfg : Cfg M K R) (h : EqRefl cfg.ops) (s : CState M R) (id : String) (msg : M)
    (wr : WriteReq M K) (hok : (Coll.update cfg s id msg wr).1.err = none) :
    ∃ id' new t kind old,
      (id' = icptId cfg id ∨ ∃ cand, cand ≠ "" ∧ id' = icptId cfg cand) ∧
      (Coll.update cfg s id msg wr).1.val = some new ∧
      (Coll.update cfg s id msg wr).1.events = [{ id := id', time := t, kind := kind, old := old, new := some new }] ∧
      (∀ k ∈ (Coll.update cfg s id msg wr).1.idCalls, k = id') ∧
      (lookup (Coll.update cfg s id msg wr).2.items id').map (·.body) = some new ∧
      ∀ k, k ≠ id' → lookup (Coll.update cfg s id msg wr).2.items k = lookup s.items k := by
  have he := coll_update_eq cfg h s id msg wr
  have hm : ∀ k, lookup (Coll.update cfg s id msg wr).2.items k = (abs (Coll.update cfg s id msg wr).2).m k :=
    fun _ => rfl
  simp only [hm]
  rw [he.1] at hok ⊢
  rw [he.2]
  have ho := spec_update_outcome cfg (abs s) id msg wr
  generalize Spec.update cfg (abs s) id msg wr = r at hok ho
  have commit : ∀ (id1 : String) (calls : List String) (n : Nat) (t1 : SState M R) (old : Option M) (new : M),
      Resolved cfg (abs s) id wr id1 calls t1 →
      ∃ id' new' t kind old',
        (id' = icptId cfg id ∨ ∃ cand, cand ≠ "" ∧ id' = icptId cfg cand) ∧
        (Spec.commit cfg wr t1 id1 old new calls n).1.val = some new' ∧
        (Spec.commit cfg wr t1 id1 old new calls n).1.events = [{ id := id', time := t, kind := kind, old := old', new := some new' }] ∧
        (∀ k ∈ (Spec.commit cfg wr t1 id1 old new calls n).1.idCalls, k = id') ∧
        ((Spec.commit cfg wr t1 id1 old new calls n).2.m id').map (·.body) = some new' ∧
        ∀ k, k ≠ id' → (Spec.commit cfg wr t1 id1 old new calls n).2.m k = lookup s.items k := by
    intro id1 calls n t1 old new hr
    have hid := hr.idOf
    have hm1 : ∀ k, t1.m k = lookup s.items k := fun k => by rw [hr.m_eq.1]; rfl
    unfold Spec.commit
    cases wr.writeTime with
    | some w =>
      refine ⟨id1, new, w, _, old, hid.1, rfl, rfl, hid.2, by simp [SState.put], ?_⟩
      intro k hk; simp [SState.put, hk, hm1]
    | none =>
      refine ⟨id1, new, _, _, old, hid.1, rfl, rfl, hid.2, by simp [SState.put], ?_⟩
      intro k hk; simp [SState.put, hk, hm1]
  cases ho with
  | invalid c _ => cases hok
  | exhausted rng' _ _ _ => cases hok
  | alreadyExists id1 calls t1 it _ hr _ _ => cases hok
  | precondition id1 calls t1 it c _ hr _ _ _ => cases hok
  | notFound id1 calls t1 _ hr _ _ => cases hok
  | createFailed id1 calls t1 c _ hr _ _ _ => cases hok
  | updated id1 calls t1 it new _ hr _ _ _ => exact commit _ _ _ _ _ _ hr
  | created id1 calls t1 new _ hr _ _ _ => exact commit _ _ _ _ _ _ hr

/-- Read your writes, through the interceptor, for ANY interceptor (no idempotence needed when the id is
given): after a successful Update/Add under a given (not generated) id, `Get` of the same id — under any
read options — returns the read-mask projection of exactly the message the call returned; after a
successful Delete, `Get` of the same id finds nothing. -/
theorem C01_read_your_writes (cfg : Cfg M K R) (h : EqRefl cfg.ops) (s : CState M R) (id : String) (msg : M)
    (wr : WriteReq M K) (ro : ReadReq M K) :
    ((Coll.update cfg s id msg wr).1.err = none → (idAbsent cfg id && wr.genEmptyID) = false →
      ∃ new, (Coll.update cfg s id msg wr).1.val = some new ∧
        Coll.get cfg (Coll.update cfg s id msg wr).2 id ro = some (cfg.ops.filter ro.readMask new)) ∧
    ((Coll.delete cfg s id wr).1.err = none → Coll.get cfg (Coll.delete cfg s id wr).2 id ro = none) := by
  constructor
  · intro hok hgen
    obtain ⟨id', new, t, kind, old, hid, hval, hev, _, hst, _⟩ := C01_update_intercepted cfg h s id msg wr hok
    refine ⟨new, hval, ?_⟩
    -- the id was not generated: the event carries the interceptor's image of the given id
    have hid' : id' = icptId cfg id := by
      have he := coll_update_eq cfg h s id msg wr
      rw [he.1] at hok hev
      have ho := spec_update_outcome cfg (abs s) id msg wr
      generalize Spec.update cfg (abs s) id msg wr = r at hok hev ho
      have res : ∀ id1 calls t1, Resolved cfg (abs s) id wr id1 calls t1 → id1 = icptId cfg id := by
        intro id1 calls t1 hr
        rcases hr with ⟨_, e, _, _⟩ | ⟨hg, _⟩
        · exact e
        · rw [hgen] at hg; cases hg
      have fromCommit : ∀ (id1 : String) (calls : List String) (n : Nat) (t1 : SState M R) (o : Option M) (nw : M),
          (Spec.commit cfg wr t1 id1 o nw calls n).1.events =
            [{ id := id', time := t, kind := kind, old := old, new := some new }] → id' = id1 := by
        intro id1 calls n t1 o nw hc
        unfold Spec.commit at hc
        cases hw : wr.writeTime <;> simp [hw] at hc <;> exact hc.1.symm
      cases ho with
      | invalid c _ => cases hok
      | exhausted rng' _ _ _ => cases hok
      | alreadyExists id1 calls t1 it _ hr _ _ => cases hok
      | precondition id1 calls t1 it c _ hr _ _ _ => cases hok
      | notFound id1 calls t1 _ hr _ _ => cases hok
      | createFailed id1 calls t1 c _ hr _ _ _ => cases hok
      | updated id1 calls t1 it nw _ hr _ _ _ => rw [fromCommit _ _ _ _ _ _ hev]; exact res _ _ _ hr
      | created id1 calls t1 nw _ hr _ _ _ => rw [fromCommit _ _ _ _ _ _ hev]; exact res _ _ _ hr
    unfold Coll.get
    rw [← hid']
    cases hl : lookup (Coll.update cfg s id msg wr).2.items id' with
    | none => rw [hl] at hst; simp at hst
    | some it =>
      rw [hl] at hst
      simp only [Option.map_some, Option.some.injEq] at hst
      simp [hst]
  · intro hok
    have hk := (C01_delete_intercepted cfg h s id wr hok).2.2.2.2 (icptId cfg id)
    unfold Coll.get
    rw [hk]
    simp

/-- A generated id is usable for a later UPDATE (with `C01_genid_interceptor`: Get and Delete): under an
idempotent, non-emptiness-preserving id interceptor, after a successful generating call any later
`Update id' msg2 wr2` that does not expect absence and passes mask validation is an update OF THE ITEM JUST
CREATED: its preconditions and interceptors see the created message, it never answers NotFound, never
generates another id, and on success announces an UPDATE of `id'` whose old value is the created message. -/
theorem C01_genid_usable_update (cfg : Cfg M K R) (h : EqRefl cfg.ops) (s : CState M R) (id : String) (msg : M)
    (wr : WriteReq M K)
    (hidem : ∀ x, icptId cfg (icptId cfg x) = icptId cfg x)
    (hne : ∀ x, x ≠ "" → icptId cfg x ≠ "")
    (hgen : idAbsent cfg id = true ∧ wr.genEmptyID = true)
    (hok : (Coll.update cfg s id msg wr).1.err = none)
    (msg2 : M) (wr2 : WriteReq M K) (hxa : wr2.expectAbsent = false)
    (hv : cfg.ops.validate (fieldUpdater cfg wr2) msg2 = none) :
    ∃ id' new,
      (Coll.update cfg s id msg wr).1.val = some new ∧
      (Coll.update cfg s id msg wr).1.idCalls = (if wr.idCb then [id'] else []) ∧
      (Coll.update cfg (Coll.update cfg s id msg wr).2 id' msg2 wr2).1.idCalls = [] ∧
      match Spec.newValue cfg.ops wr2 (fieldUpdater cfg wr2) msg2 (some new) new with
      | .error c => (Coll.update cfg (Coll.update cfg s id msg wr).2 id' msg2 wr2).1.err = some c
      | .ok new2 =>
        (Coll.update cfg (Coll.update cfg s id msg wr).2 id' msg2 wr2).1.val = some new2 ∧
        ∃ t, (Coll.update cfg (Coll.update cfg s id msg wr).2 id' msg2 wr2).1.events =
          [{ id := id', time := t, kind := .update, old := some new, new := some new2 }] := by
  obtain ⟨id', new, h1, _, _, h4, h5, _, cand, hc1, hc2⟩ := C01_genid cfg h s id msg wr hgen hok
  have hfix : icptId cfg id' = id' := by rw [hc2]; exact hidem cand
  have hne' : id' ≠ "" := by rw [hc2]; exact hne cand hc1
  refine ⟨id', new, h1, h4, ?_⟩
  generalize (Coll.update cfg s id msg wr).2 = s1 at h5 ⊢
  have he := coll_update_eq cfg h s1 id' msg2 wr2
  rw [he.1]
  have hg : (idAbsent cfg id' && wr2.genEmptyID) = false := by simp [idAbsent, hfix, hne']
  cases hl : lookup s1.items id' with
  | none => rw [hl] at h5; simp at h5
  | some it =>
    rw [hl] at h5
    simp only [Option.map_some, Option.some.injEq] at h5
    have habs : (abs s1).m id' = some it := hl
    have ho := spec_update_outcome cfg (abs s1) id' msg2 wr2
    generalize Spec.update cfg (abs s1) id' msg2 wr2 = r at ho
    have res : ∀ id1 calls t1, Resolved cfg (abs s1) id' wr2 id1 calls t1 → id1 = id' ∧ calls = [] := by
      intro id1 calls t1 hr
      rcases hr with ⟨_, e, ec, _⟩ | ⟨hg', _⟩
      · exact ⟨by rw [e, hfix], ec⟩
      · rw [hg] at hg'; cases hg'
    cases ho with
    | invalid c hv' => rw [hv] at hv'; cases hv'
    | exhausted rng' _ hg' _ => rw [hg] at hg'; cases hg'
    | alreadyExists id1 calls t1 it' _ hr _ hxa' => rw [hxa] at hxa'; cases hxa'
    | precondition id1 calls t1 it' c _ hr hl' _ hn =>
      obtain ⟨e1, e2⟩ := res _ _ _ hr
      subst e1 e2
      rw [habs] at hl'; cases hl'
      rw [h5] at hn
      rw [hn]
      exact ⟨rfl, rfl⟩
    | updated id1 calls t1 it' new2 _ hr hl' _ hn =>
      obtain ⟨e1, e2⟩ := res _ _ _ hr
      subst e1 e2
      rw [habs] at hl'; cases hl'
      rw [h5] at hn ⊢
      rw [hn]
      unfold Spec.commit
      cases wr2.writeTime <;> simp
    | notFound id1 calls t1 _ hr hl' _ =>
      obtain ⟨e1, _⟩ := res _ _ _ hr
      subst e1; rw [habs] at hl'; cases hl'
    | createFailed id1 calls t1 c _ hr hl' _ _ =>
      obtain ⟨e1, _⟩ := res _ _ _ hr
      subst e1; rw [habs] at hl'; cases hl'
    | created id1 calls t1 new2 _ hr hl' _ _ =>
      obtain ⟨e1, _⟩ := res _ _ _ hr
      subst e1; rw [habs] at hl'; cases hl'

/-- `EmptyWriteOption` / `EmptyReadOption` (and, for Get/List, the Pull-only read options) mean nothing:
dropping every one of them from an option list, wherever they stand, leaves the computed request — hence
the call — unchanged. -/
theorem C01_empty_options (ops : MsgOps M K) (cat : K → K → K) (wopts : List (WOpt M K)) (ropts : List (ROpt M K)) :
    computeWriteConfig ops cat (wopts.filter (fun o => !o.isEmpty)) = computeWriteConfig ops cat wopts ∧
    computeReadConfig (ropts.filter (fun o => !o.isOther)) = computeReadConfig ropts := by
  constructor
  · unfold computeWriteConfig
    generalize ({} : WriteReq M K) = wr
    induction wopts generalizing wr with
    | nil => rfl
    | cons o os ih =>
      cases he : o.isEmpty with
      | true =>
        have : o = .empty := by cases o <;> simp [WOpt.isEmpty] at he ⊢
        subst this
        simp only [List.filter_cons, he, Bool.not_true, Bool.false_eq_true, ↓reduceIte, List.foldl_cons, applyW]
        exact ih wr
      | false =>
        simp only [List.filter_cons, he, Bool.not_false, ↓reduceIte, List.foldl_cons]
        exact ih _
  · unfold computeReadConfig
    generalize ({} : ReadReq M K) = rr
    induction ropts generalizing rr with
    | nil => rfl
    | cons o os ih =>
      cases he : o.isOther with
      | true =>
        have : o = .other := by cases o <;> simp [ROpt.isOther] at he ⊢
        subst this
        simp only [List.filter_cons, he, Bool.not_true, Bool.false_eq_true, ↓reduceIte, List.foldl_cons, applyR]
        exact ih rr
      | false =>
        simp only [List.filter_cons, he, Bool.not_false, ↓reduceIte, List.foldl_cons]
        exact ih _

/-! ## Non-vacuity -/

/-- order matters, as in the code: a nil mask after a mask reads everything, a mask after a nil mask
masks; `WithMoreUpdateMask` before the mask it would extend is lost, after it it extends -/
example :
    (computeReadConfig ([.readMask (some [Field.a]), .readMask none] : List (ROpt Msg Mask))).readMask = none ∧
    (computeReadConfig ([.readMask none, .readMask (some [Field.a])] : List (ROpt Msg Mask))).readMask = some [Field.a] ∧
    (computeWriteConfig flatOps (· ++ ·) ([.moreUpdateMask [.s], .updateMask (some [.a])] : List (WOpt Msg Mask))).updateMask = some [.a] ∧
    (computeWriteConfig flatOps (· ++ ·) ([.updateMask (some [.a]), .moreUpdateMask [.s]] : List (WOpt Msg Mask))).updateMask = some [.a, .s] ∧
    (computeWriteConfig flatOps (· ++ ·) ([.moreUpdateMask [.s]] : List (WOpt Msg Mask))).updateMask = none ∧
    (computeWriteConfig flatOps (· ++ ·) ([.allowMissing true, .allowMissing false] : List (WOpt Msg Mask))).allowMissing = false := by
  decide

def oCfg0 : Cfg Msg Mask (List Nat) := { ops := flatOps, gen := flatGen }

/-- callbacks can be switched off again and on again; a check replaced by nil no longer fails the call -/
example :
    (computeWriteConfig flatOps (· ++ ·) ([.createdCallback, .noCreatedCallback] : List (WOpt Msg Mask))).createdCb = false ∧
    (computeWriteConfig flatOps (· ++ ·) ([.noIDCallback, .idCallback, .writeTime 3] : List (WOpt Msg Mask))).idCb = true ∧
    (computeWriteConfig flatOps (· ++ ·) ([.expectedCheck (fun _ => some .aborted), .noExpectedCheck] : List (WOpt Msg Mask))).expectedCheck.isNone = true ∧
    (Coll.addO (· ++ ·) oCfg0 (Coll.init oCfg0 [] []) "a" { a := 1, s := "", c := none }
      [.expectedCheck (fun _ => some .aborted), .createdCallback, .noExpectedCheck]).1.err = none ∧
    (Coll.addO (· ++ ·) oCfg0 (Coll.init oCfg0 [] []) "a" { a := 1, s := "", c := none }
      [.expectedCheck (fun _ => some .aborted), .createdCallback, .noExpectedCheck]).1.createdCalls = 1 := by
  decide

def oCfg : Cfg Msg Mask (List Nat) := { ops := flatOps, gen := flatGen, icpt := some lowerStr }

/-- a run on option lists under the lower-casing interceptor: create with a prefix of an option list,
update with the whole list, masked get then unmasked get, delete through another spelling of the id -/
def oScript : List (COpO Msg Mask) :=
  [ .add "A" { a := 1, s := "x", c := none } [.updateMask (some [.a])],
    .update "a" { a := 2, s := "y", c := none } [.updateMask (some [.a]), .moreUpdateMask [.s]],
    .get "A" [.readMask (some [.a]), .readMask none],
    .delete "A" [.allowMissing true, .allowMissing false],
    .delete "a" [.allowMissing true, .allowMissing false] ]

def oShow : CRes Msg → Option (Option Msg) × Option Code × List String
  | .got v => (some v, none, [])
  | .wrote o => (some o.val, o.err, o.events.map (·.id))
  | .listed _ => (none, none, [])

example : (Coll.runO (· ++ ·) oCfg (Coll.init oCfg [] []) oScript).1.map oShow =
    [ (some (some { a := 1, s := "", c := none }), none, ["a"]),
      (some (some { a := 2, s := "y", c := none }), none, ["a"]),
      (some (some { a := 2, s := "y", c := none }), none, []),
      (some (some { a := 2, s := "y", c := none }), none, ["a"]),
      (some none, some .notFound, []) ] := by decide

end ScVerif.C01
