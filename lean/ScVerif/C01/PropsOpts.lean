import ScVerif.C01.OptsLemmas
import ScVerif.C01.IdLemmas
import ScVerif.C01.Flat
/-!
# C01 — property theorems, part 2: option LISTS and intercepted ids

"… for every sequence of Get, List, Set, Add, Update and Delete calls with ANY COMBINATION of write
options … each call returns what a plain reference model returns and leaves the same contents."

`Props.lean` proves this for request records.  The calls take option LISTS (`opt.go`: options are
applied in order; `Opts.lean`); here the statement is carried to lists: what a call does is a function
of the list it is given (lists are values — a call cannot alter the list its caller will pass to a later
call, which is what the tie's shared-slice runs check of the code), `Add`'s two implied options may sit
anywhere, flags are never unset, setters are last-wins (a nil read mask after a mask reads everything),
`WithMoreUpdateMask` extends the mask in force where it stands; every run on option lists is a run of
the reference map.  Second group: every id a call stores under, announces or reports is the id
interceptor's image of the id it was given or of a generated candidate, and Delete acts on exactly that id.

All theorems: every message type / message operations, configuration, option list, callbacks, state.
-/
namespace ScVerif.C01
variable {M K R : Type}

/-- `Collection.Add(id, m, opts...)` is `Update` on the record computed from `opts` with the two flags
set — wherever the two options sit: prepended (what the code does) or appended. -/
theorem C01_add_options (cfg : Cfg M K R) (s : CState M R) (id : String) (msg : M) (opts : List (WOpt M K)) :
    Coll.addO cfg s id msg opts = Coll.add cfg s id msg (computeWriteConfig cfg.ops opts) ∧
    Coll.addO cfg s id msg opts = Coll.updateO cfg s id msg (opts ++ [.expectAbsent, .createIfAbsent]) := by
  unfold Coll.addO Coll.updateO Coll.add
  rw [computeWriteConfig_add_front, computeWriteConfig_add_back]
  exact ⟨rfl, rfl⟩

/-- Flags are only ever set: whatever options follow, expect-absent, create-if-absent, generate-id and
all-fields-writable stay in force once given. -/
theorem C01_option_flags_sticky (ops : MsgOps M K) (pre post : List (WOpt M K)) :
    ((computeWriteConfig ops pre).expectAbsent = true → (computeWriteConfig ops (pre ++ post)).expectAbsent = true) ∧
    ((computeWriteConfig ops pre).createIfAbsent = true → (computeWriteConfig ops (pre ++ post)).createIfAbsent = true) ∧
    ((computeWriteConfig ops pre).genEmptyID = true → (computeWriteConfig ops (pre ++ post)).genEmptyID = true) ∧
    ((computeWriteConfig ops pre).nilWritable = true → (computeWriteConfig ops (pre ++ post)).nilWritable = true) := by
  unfold computeWriteConfig
  rw [List.foldl_append]
  exact foldl_flags_mono ops post _

/-- The update mask of a list: the LAST `WithUpdateMask(m)` decides (whatever came before it), and
every `WithMoreUpdateMask(k)` after it unites `k` in — unless `m` is nil, which stays nil ("everything").
With no `WithUpdateMask` at all the mask is nil, whatever `WithMoreUpdateMask` options there are. -/
theorem C01_update_mask_options (ops : MsgOps M K) (pre post : List (WOpt M K)) (m : Option K)
    (hpost : ∀ o ∈ post, o.setsUpdateMask = false) :
    (computeWriteConfig ops (pre ++ .updateMask m :: post)).updateMask = moreMasks ops post m ∧
    (computeWriteConfig ops post).updateMask = none ∧
    moreMasks ops post none = none := by
  have hnone : moreMasks ops post none = none := by
    unfold moreMasks
    generalize post = l
    induction l with
    | nil => rfl
    | cons o l ih => simp only [List.foldl_cons]; cases o <;> exact ih
  refine ⟨?_, ?_, hnone⟩
  · unfold computeWriteConfig
    rw [List.foldl_append, List.foldl_cons, foldl_updateMask ops post hpost]
    rfl
  · unfold computeWriteConfig
    rw [foldl_updateMask ops post hpost]
    exact hnone

/-- Read options are last-wins, independently for the mask and the include predicate. -/
theorem C01_read_options_last_wins (pre post : List (ROpt M K)) :
    (∀ m, (∀ o ∈ post, o.setsReadMask = false) →
      (computeReadConfig (pre ++ .readMask m :: post)).readMask = m) ∧
    (∀ f, (∀ o ∈ post, o.setsInclude = false) →
      (computeReadConfig (pre ++ .incl f :: post)).incl = f) := by
  constructor
  · intro m hp
    unfold computeReadConfig
    rw [List.foldl_append, List.foldl_cons, foldl_readMask_keep post hp]
    rfl
  · intro f hp
    unfold computeReadConfig
    rw [List.foldl_append, List.foldl_cons, foldl_incl_keep post hp]
    rfl

/-- `WithReadMask(nil)` after any options switches masking off: Get (Collection and Value) returns the
nil-mask projection of the stored message, whatever masks were given before. -/
theorem C01_nil_read_mask_reads_all (cfg : Cfg M K R) (s : CState M R) (v : VState M) (id : String)
    (pre : List (ROpt M K)) :
    Coll.getO cfg s id (pre ++ [.readMask none]) = (lookup s.items (icptId cfg id)).map (fun it => cfg.ops.filter none it.body) ∧
    Value.getO cfg v (pre ++ [.readMask none]) = v.value.map (cfg.ops.filter none) := by
  have h := (C01_read_options_last_wins (M := M) (K := K) pre []).1 none (by simp)
  unfold Coll.getO Value.getO Coll.get Value.get
  rw [h]
  exact ⟨rfl, rfl⟩

/-- List with any option list, on any state with distinct keys: ids strictly increasing; an entry is
listed iff the LAST include predicate (if any) accepts the id and the STORED message (not its masked
projection), and what is listed is the projection of the stored message by the LAST read mask. -/
theorem C01_list_options (cfg : Cfg M K R) (s : CState M R) (hn : NodupKeys s.items)
    (pre post : List (ROpt M K)) (m : Option K) (f : Option (String → M → Bool))
    (hm : ∀ o ∈ post, o.setsReadMask = false) (hf : ∀ o ∈ post, o.setsInclude = false) :
    ((Coll.listIdsO cfg s (pre ++ .readMask m :: .incl f :: post)).map (·.1)).Pairwise (· < ·) ∧
    ∀ id v, (id, v) ∈ Coll.listIdsO cfg s (pre ++ .readMask m :: .incl f :: post) ↔
      ∃ it, lookup s.items id = some it ∧ (∀ p, f = some p → p id it.body = true) ∧ v = cfg.ops.filter m it.body := by
  have h1 : (computeReadConfig (pre ++ .readMask m :: .incl f :: post)).readMask = m :=
    (C01_read_options_last_wins pre (.incl f :: post)).1 m (by
      intro o ho
      rcases List.mem_cons.mp ho with rfl | ho
      · rfl
      · exact hm o ho)
  have h2 : (computeReadConfig (pre ++ .readMask m :: .incl f :: post)).incl = f := by
    have := (C01_read_options_last_wins (pre ++ [.readMask m]) post).2 f hf
    simpa using this
  have hs := coll_list_spec cfg s (computeReadConfig (pre ++ .readMask m :: .incl f :: post)) hn
  unfold Coll.listIdsO
  refine ⟨hs.1, ?_⟩
  intro id v
  rw [hs.2 id v]
  unfold excluded
  rw [h1, h2]
  constructor
  · rintro ⟨it, hl, hx, hv⟩
    refine ⟨it, hl, ?_, hv⟩
    intro p hp
    subst hp
    simpa using hx
  · rintro ⟨it, hl, hx, hv⟩
    refine ⟨it, hl, ?_, hv⟩
    cases f with
    | none => rfl
    | some p => simp [hx p rfl]

/-- Collection ⊑ map, on option lists: from any initial records every sequence of calls, each with
its own option list, is a run of the reference map on the computed records. -/
theorem C01_collection_refines_opts (cfg : Cfg M K R) (h : EqRefl cfg.ops) (records : List (String × M)) (rng : R)
    (ops : List (COpO M K)) :
    Spec.Run cfg (abs (Coll.init cfg records rng)) (ops.map (compileOp cfg.ops))
      (Coll.runO cfg (Coll.init cfg records rng) ops).1
      (abs (Coll.runO cfg (Coll.init cfg records rng) ops).2) := by
  rw [runO_eq]
  exact run_refines cfg h _ _ (nodupKeys_init cfg records rng)

/-- Delete goes through the id interceptor: it acts on `icpt id`. What it returns is the message stored
there; a successful delete of a present item emits exactly one event, a REMOVE of `icpt id` carrying
that message (none if the item is absent and allow-missing is set); nothing is reported through the id
callback; afterwards exactly the key `icpt id` is gone and every other key is as before. -/
theorem C01_delete_intercepted (cfg : Cfg M K R) (h : EqRefl cfg.ops) (s : CState M R) (id : String)
    (wr : WriteReq M K) (hok : (Coll.delete cfg s id wr).1.err = none) :
    (Coll.delete cfg s id wr).1.val = (lookup s.items (icptId cfg id)).map (·.body) ∧
    (Coll.delete cfg s id wr).1.idCalls = [] ∧
    (∀ it, lookup s.items (icptId cfg id) = some it →
      ∃ t, (Coll.delete cfg s id wr).1.events =
        [{ id := icptId cfg id, time := t, kind := .remove, old := some it.body, new := none }]) ∧
    (lookup s.items (icptId cfg id) = none → (Coll.delete cfg s id wr).1.events = []) ∧
    ∀ k, lookup (Coll.delete cfg s id wr).2.items k = if k = icptId cfg id then none else lookup s.items k := by
  have hd := delete_ids cfg h s id wr
  obtain ⟨hval, hev, hkeys⟩ := hd.2.2 hok
  refine ⟨hval, hd.2.1, ?_, hev.mpr, hkeys⟩
  intro it hl
  have he := coll_delete_eq cfg h s id wr
  rw [he.1] at hok ⊢
  unfold Spec.delete at hok ⊢
  have habs : (abs s).m (icptId cfg id) = some it := hl
  simp only [habs] at hok ⊢
  cases hchk : wr.expectedCheck with
  | none =>
    simp only [hchk] at hok ⊢
    cases hev : wr.expectedValue with
    | none => simp
    | some ev => cases hq : cfg.ops.eq it.body ev <;> simp [hev, hq, failOut] at hok ⊢
  | some chk =>
    simp only [hchk] at hok ⊢
    cases hc : chk (some it.body) with
    | some e => simp [hc, failOut] at hok
    | none =>
      simp only [hc] at hok ⊢
      cases hev : wr.expectedValue with
      | none => simp
      | some ev => cases hq : cfg.ops.eq it.body ev <;> simp [hev, hq, failOut] at hok ⊢

/-- Every id in an output is an intercepted id: over any call sequence from any state, every id carried
by a bus event or handed to the id callback is in the image of the id interceptor, and every key of the
final contents is a key of the initial contents or in that image. -/
theorem C01_ids_intercepted (cfg : Cfg M K R) (h : EqRefl cfg.ops) (ops : List (COp M K)) :
    ∀ s : CState M R,
      (∀ r ∈ (Coll.run cfg s ops).1, ∀ k ∈ resIds r, ∃ x, k = icptId cfg x) ∧
      (∀ k, lookup (Coll.run cfg s ops).2.items k ≠ none → lookup s.items k ≠ none ∨ ∃ x, k = icptId cfg x) := by
  induction ops with
  | nil => intro s; exact ⟨by simp [Coll.run], fun k hk => Or.inl hk⟩
  | cons op ops ih =>
    intro s
    have hs := step_ids cfg h s op
    have hr := ih (Coll.step cfg s op).2
    simp only [Coll.run]
    refine ⟨?_, ?_⟩
    · intro r hmem
      rcases List.mem_cons.mp hmem with rfl | hmem
      · exact hs.1
      · exact hr.1 r hmem
    · intro k hk
      rcases hr.2 k hk with h1 | h1
      · exact hs.2 k h1
      · exact Or.inr h1

/-- Update/Add: the id of the one event of a successful call, the id reported through the id callback and
the key the new message is stored under are ONE id: the interceptor's image of the id given, or — when
that is empty and ids are generated — of a non-empty generated candidate. -/
theorem C01_update_intercepted (cfg : Cfg M K R) (h : EqRefl cfg.ops) (s : CState M R) (id : String) (msg : M)
    (wr : WriteReq M K) (hok : (Coll.update cfg s id msg wr).1.err = none) :
    ∃ id' new t kind old,
      (id' = icptId cfg id ∨ ∃ cand, cand ≠ "" ∧ id' = icptId cfg cand) ∧
      (Coll.update cfg s id msg wr).1.val = some new ∧
      (Coll.update cfg s id msg wr).1.events = [{ id := id', time := t, kind := kind, old := old, new := some new }] ∧
      (∀ k ∈ (Coll.update cfg s id msg wr).1.idCalls, k = id') ∧
      (lookup (Coll.update cfg s id msg wr).2.items id').map (·.body) = some new ∧
      ∀ k, k ≠ id' → lookup (Coll.update cfg s id msg wr).2.items k = lookup s.items k := by
  have he := coll_update_eq cfg h s id msg wr
  have hm : ∀ k, lookup (Coll.update cfg s id msg wr).2.items k = (abs (Coll.update cfg s id msg wr).2).m k :=
    fun _ => rfl
  simp only [hm]
  rw [he.1] at hok ⊢
  rw [he.2]
  have ho := spec_update_outcome cfg (abs s) id msg wr
  generalize Spec.update cfg (abs s) id msg wr = r at hok ho
  have commit : ∀ (id1 : String) (calls : List String) (n : Nat) (t1 : SState M R) (old : Option M) (new : M),
      Resolved cfg (abs s) id wr id1 calls t1 →
      ∃ id' new' t kind old',
        (id' = icptId cfg id ∨ ∃ cand, cand ≠ "" ∧ id' = icptId cfg cand) ∧
        (Spec.commit cfg wr t1 id1 old new calls n).1.val = some new' ∧
        (Spec.commit cfg wr t1 id1 old new calls n).1.events = [{ id := id', time := t, kind := kind, old := old', new := some new' }] ∧
        (∀ k ∈ (Spec.commit cfg wr t1 id1 old new calls n).1.idCalls, k = id') ∧
        ((Spec.commit cfg wr t1 id1 old new calls n).2.m id').map (·.body) = some new' ∧
        ∀ k, k ≠ id' → (Spec.commit cfg wr t1 id1 old new calls n).2.m k = lookup s.items k := by
    intro id1 calls n t1 old new hr
    have hid := hr.idOf
    have hm1 : ∀ k, t1.m k = lookup s.items k := fun k => by rw [hr.m_eq.1]; rfl
    unfold Spec.commit
    cases wr.writeTime with
    | some w =>
      refine ⟨id1, new, w, _, old, hid.1, rfl, rfl, hid.2, by simp [SState.put], ?_⟩
      intro k hk; simp [SState.put, hk, hm1]
    | none =>
      refine ⟨id1, new, _, _, old, hid.1, rfl, rfl, hid.2, by simp [SState.put], ?_⟩
      intro k hk; simp [SState.put, hk, hm1]
  cases ho with
  | invalid c _ => cases hok
  | exhausted rng' _ _ _ => cases hok
  | alreadyExists id1 calls t1 it _ hr _ _ => cases hok
  | precondition id1 calls t1 it c _ hr _ _ _ => cases hok
  | notFound id1 calls t1 _ hr _ _ => cases hok
  | createFailed id1 calls t1 c _ hr _ _ _ => cases hok
  | updated id1 calls t1 it new _ hr _ _ _ => exact commit _ _ _ _ _ _ hr
  | created id1 calls t1 new _ hr _ _ _ => exact commit _ _ _ _ _ _ hr

/-! ## Non-vacuity -/

/-- order matters, as in the code: a nil mask after a mask reads everything, a mask after a nil mask
masks; `WithMoreUpdateMask` before the mask it would extend is lost, after it it extends -/
example :
    (computeReadConfig ([.readMask (some [Field.a]), .readMask none] : List (ROpt Msg Mask))).readMask = none ∧
    (computeReadConfig ([.readMask none, .readMask (some [Field.a])] : List (ROpt Msg Mask))).readMask = some [Field.a] ∧
    (computeWriteConfig flatOps ([.moreUpdateMask [.s], .updateMask (some [.a])] : List (WOpt Msg Mask))).updateMask = some [.a] ∧
    (computeWriteConfig flatOps ([.updateMask (some [.a]), .moreUpdateMask [.s]] : List (WOpt Msg Mask))).updateMask = some [.a, .s] ∧
    (computeWriteConfig flatOps ([.moreUpdateMask [.s]] : List (WOpt Msg Mask))).updateMask = none ∧
    (computeWriteConfig flatOps ([.allowMissing true, .allowMissing false] : List (WOpt Msg Mask))).allowMissing = false := by
  decide

def oCfg : Cfg Msg Mask (List Nat) := { ops := flatOps, gen := flatGen, icpt := some lowerStr }

/-- a run on option lists under the lower-casing interceptor: create with a prefix of an option list,
update with the whole list, masked get then unmasked get, delete through another spelling of the id -/
def oScript : List (COpO Msg Mask) :=
  [ .add "A" { a := 1, s := "x", c := none } [.updateMask (some [.a])],
    .update "a" { a := 2, s := "y", c := none } [.updateMask (some [.a]), .moreUpdateMask [.s]],
    .get "A" [.readMask (some [.a]), .readMask none],
    .delete "A" [.allowMissing true, .allowMissing false],
    .delete "a" [.allowMissing true, .allowMissing false] ]

def oShow : CRes Msg → Option (Option Msg) × Option Code × List String
  | .got v => (some v, none, [])
  | .wrote o => (some o.val, o.err, o.events.map (·.id))
  | .listed _ => (none, none, [])

example : (Coll.runO oCfg (Coll.init oCfg [] []) oScript).1.map oShow =
    [ (some (some { a := 1, s := "", c := none }), none, ["a"]),
      (some (some { a := 2, s := "y", c := none }), none, ["a"]),
      (some (some { a := 2, s := "y", c := none }), none, []),
      (some (some { a := 2, s := "y", c := none }), none, ["a"]),
      (some none, some .notFound, []) ] := by decide

end ScVerif.C01
