import ScVerif.C01.Slices
/-!
# C01 — property theorems, part 3: a call leaves its caller's options alone

"… for every sequence of … calls with any combination of write options …": a caller may keep its options
in ONE slice and pass views of it to several calls.  Then the sequence only means what the caller wrote if
no call writes into that slice.  `Slices.lean` models Go's `append` on a heap of arrays and
`Collection.Add` as coded (it appends its caller's options TO A FRESH LITERAL).  The code is checked for
the same statement on every call of every shared-slice run of the tie (monitor clause
`caller-options-overwritten`), and the runs themselves show what a violation does to later calls.
-/
namespace ScVerif.C01
variable {M K R : Type}

/-- `Collection.Add` never writes to its caller's heap: every array that existed before the call has
exactly the cells it had (in particular the caller's option array, before, within AND beyond the view passed),
whatever the view's offset, length and spare capacity; and the call does what `Add` does on the view's contents. -/
theorem C01_add_leaves_caller_options (cat : K → K → K) (cfg : Cfg M K R) (st : CState M R) (h : Heap (WOpt M K)) (id : String)
    (msg : M) (opts : Slice) (hv : opts.arr < h.length) :
    (∀ i, i < h.length → Heap.cells (Coll.addS cat cfg st h id msg opts).2 i = Heap.cells h i) ∧
    (Coll.addS cat cfg st h id msg opts).1 = Coll.addO cat cfg st id msg (h.read opts) := by
  have hread : Heap.read (h ++ [[WOpt.expectAbsent, WOpt.createIfAbsent]]) opts = h.read opts := by
    unfold Heap.read
    rw [cells_append_left h _ _ hv]
  unfold Coll.addS literal goAppend
  simp only [hread, List.length_cons, List.length_nil]
  by_cases hx : h.read opts = []
  · -- no options: `append(literal)` returns the literal itself
    simp only [hx, List.length_nil, Nat.le_refl, ↓reduceIte, Nat.add_zero]
    refine ⟨?_, ?_⟩
    · intro i hi
      rw [cells_set_ne _ _ _ _ (Nat.ne_of_lt hi), cells_append_left _ _ _ hi]
    · unfold Coll.addO Heap.read
      rw [cells_set_self _ _ _ (by simp), cells_append_self]
      simp [writeAt]
  · -- the literal is full: `append` allocates
    have hlen : ¬ (0 + 1 + 1 + (h.read opts).length ≤ 0 + 1 + 1) := by
      cases hr : h.read opts with
      | nil => exact absurd hr hx
      | cons a l => simp
    simp only [hlen, ↓reduceIte]
    refine ⟨?_, ?_⟩
    · intro i hi
      rw [cells_append_left _ _ _ (by simp; omega), cells_append_left _ _ _ hi]
    · unfold Coll.addO
      congr 1
      have : (h ++ [[WOpt.expectAbsent, WOpt.createIfAbsent]]).length = h.length + 1 := by simp
      unfold Heap.read
      simp only []
      rw [cells_append_self]
      rw [cells_append_self]
      exact List.take_of_length_le (by simp; omega)

/-- The hazard is real in this model of `append`: appending to a view that has spare capacity overwrites
the cells behind it (what `append(opts, WithExpectAbsent(), WithCreateIfAbsent())` would do to the
caller's slice). -/
theorem C01_append_to_callers_view_overwrites :
    ∃ (h : Heap Nat) (s : Slice) (xs : List Nat), s.arr < h.length ∧ s.len ≤ s.cap ∧
      Heap.cells (goAppend h s xs).1 s.arr ≠ Heap.cells h s.arr :=
  ⟨[[1, 2, 3, 4]], { arr := 0, off := 1, len := 1, cap := 3 }, [7, 8], by decide⟩

/-- non-vacuity: a caller's array of three options, `Add` given the view `[:1]` (capacity 3), and the view
`[1:2]` (capacity 2): the array is unchanged and the call ran with expect-absent, create-if-absent and the
one option of the view -/
example :
    let h : Heap (WOpt Nat Nat) := [[.writeTime 5, .allowMissing true, .genIDIfAbsent]]
    let (h1, lit) := literal h [WOpt.expectAbsent, WOpt.createIfAbsent]
    let (h2, all) := goAppend h1 lit (h1.read { arr := 0, len := 1, cap := 3 })
    let (h3, all') := goAppend h1 lit (h1.read { arr := 0, off := 1, len := 1, cap := 2 })
    (h2.read all).length = 3 ∧ (Heap.cells h2 0).length = 3 ∧ h2.length = 3 ∧
    (match h3.read all' with | [_, _, .allowMissing true] => True | _ => False) ∧ Heap.cells h3 0 = Heap.cells h 0 := by
  refine ⟨by decide, by decide, by decide, ?_, ?_⟩
  · simp [Heap.read, Heap.cells]
  · simp [Heap.read, Heap.cells]

end ScVerif.C01
