import ScVerif.C01.Spec
/-! Lemmas for C01: the model's three-phase `GetAndUpdate` collapses, for one caller, to the
one-step reference. -/
namespace ScVerif.C01
variable {M K R : Type}

/-- `proto.Equal` is reflexive (it is: NaN equals NaN, +0 equals -0 in `proto.Equal`). -/
def EqRefl (ops : MsgOps M K) : Prop := ∀ m, ops.eq m m = true

theorem eqOpt_refl {ops : MsgOps M K} (h : EqRefl ops) (o : Option M) : eqOpt ops o o = true := by
  cases o <;> simp [eqOpt, h _]

/-- `changeFn` is the reference's `newValue` (the clone `dst` of the old message as merge base). -/
theorem changeFn_eq (ops : MsgOps M K) (wr : WriteReq M K) (u : Upd K) (msg : M) (old : Option M) :
    changeFn ops wr u msg old old = Spec.newValue ops wr u msg old (old.getD ops.zero) := by
  have hrest : changeFn.changeRest ops wr u msg old old =
      (match (match wr.expectedCheck with | some chk => chk old | none => none) with
       | some c => Except.error c
       | none => Except.ok (match wr.after with
           | some f => f old (ops.merge u (old.getD ops.zero) (match wr.before with | some f => f old msg | none => msg))
           | none => ops.merge u (old.getD ops.zero) (match wr.before with | some f => f old msg | none => msg))) := by
    unfold changeFn.changeRest
    cases old <;> rfl
  unfold changeFn Spec.newValue
  rw [hrest]
  cases wr.expectedValue with
  | none => rfl
  | some ev => cases eqOpt ops old (some ev) <;> rfl

theorem value_set_eq (cfg : Cfg M K R) (h : EqRefl cfg.ops) (s : VState M) (msg : M) (wr : WriteReq M K) :
    Value.set cfg s msg wr = Spec.set cfg s msg wr := by
  unfold Value.set Spec.set
  simp only []
  cases hv : cfg.ops.validate (fieldUpdater cfg wr) msg with
  | some c => simp
  | none =>
    simp only [getAndUpdate, changeFn_eq]
    cases hn : Spec.newValue cfg.ops wr (fieldUpdater cfg wr) msg s.value (s.value.getD cfg.ops.zero) with
    | error c => simp
    | ok new =>
      simp only [eqOpt_refl h, Bool.not_true, Bool.false_eq_true, ↓reduceIte, updateTimeV]
      cases hw : wr.writeTime <;> simp

/-! ## the association list is a map -/

theorem lookup_setItem (items : List (String × Item M)) (id : String) (it : Item M) (k : String) :
    lookup (setItem items id it) k = if k = id then some it else lookup items k := by
  induction items with
  | nil => simp only [setItem, lookup]; split <;> simp_all [eq_comm]
  | cons x xs ih =>
    obtain ⟨k', v⟩ := x
    simp only [setItem]
    by_cases h : k' = id
    · subst h
      simp only [↓reduceIte, lookup]
      by_cases h2 : k' = k <;> simp [h2, eq_comm]
      intro h3; exact absurd h3.symm h2
    · simp only [h, ↓reduceIte, lookup, ih]
      by_cases h2 : k' = k
      · subst h2; simp [h]
      · simp [h2]

theorem lookup_eraseItem (items : List (String × Item M)) (id : String) (k : String) :
    lookup (eraseItem items id) k = if k = id then none else lookup items k := by
  induction items with
  | nil => simp [eraseItem, lookup]
  | cons x xs ih =>
    obtain ⟨k', v⟩ := x
    unfold eraseItem at ih ⊢
    by_cases h : k' = id
    · subst h
      simp only [List.filter, ne_eq, not_true_eq_false, decide_false, ih, lookup]
      by_cases h2 : k' = k
      · subst h2; simp
      · simp [h2]
    · simp only [List.filter, ne_eq, h, not_false_eq_true, decide_true, lookup, ih]
      by_cases h2 : k' = k
      · subst h2; simp [h]
      · simp [h2]

theorem abs_setItem (s : CState M R) (id : String) (it : Item M) :
    abs { s with items := setItem s.items id it } = (abs s).put id it := by
  simp only [abs, SState.put]
  congr 1
  funext k
  exact lookup_setItem _ _ _ _

theorem abs_eraseItem (s : CState M R) (id : String) :
    abs { s with items := eraseItem s.items id } = (abs s).del id := by
  simp only [abs, SState.del]
  congr 1
  funext k
  exact lookup_eraseItem _ _ _

/-! ## Collection.Update collapses to the reference -/

theorem gau_ok {σ : Type} (ops : MsgOps M K) (h : EqRefl ops)
    (get : σ → Except Code (Option M) × σ) (change : Option M → Option M → Except Code M)
    (save : σ → M → σ) (s s1 : σ) (old : Option M)
    (h1 : get s = (.ok old, s1)) (h2 : get s1 = (.ok old, s1)) :
    getAndUpdate ops get change save s =
      match change old old with
      | .error c => ({ old := old, new := none, err := some c }, s1)
      | .ok new => ({ old := old, new := some new, err := none }, save s1 new) := by
  unfold getAndUpdate
  rw [h1]
  simp only []
  cases change old old with
  | error c => rfl
  | ok new => simp [h2, eqOpt_refl h]

theorem gau_err {σ : Type} (ops : MsgOps M K)
    (get : σ → Except Code (Option M) × σ) (change : Option M → Option M → Except Code M)
    (save : σ → M → σ) (s s1 : σ) (c : Code) (h1 : get s = (.error c, s1)) :
    getAndUpdate ops get change save s = ({ old := none, new := none, err := some c }, s1) := by
  unfold getAndUpdate
  rw [h1]

/-- the `GenerateUniqueId` loop only returns a non-empty candidate that the probe rejects as used -/
theorem genLoop_some (gen : R → Nat → String × R) (ex : String → Bool) :
    ∀ fuel i r c r', genLoop gen ex fuel i r = (some c, r') → c ≠ "" ∧ ex c = false := by
  intro fuel
  induction fuel with
  | zero => intro i r c r' h; simp [genLoop] at h
  | succ n ih =>
    intro i r c r' h
    simp only [genLoop] at h
    split at h
    · rename_i hc
      simp only [Prod.mk.injEq, Option.some.injEq] at h
      obtain ⟨h1, _⟩ := h
      subst h1
      simpa using hc
    · exact ih _ _ _ _ h

theorem genID_some (cfg : Cfg M K R) (used : String → Bool) (rng : R) (id' : String) (rng' : R)
    (h : genID cfg used rng = (some id', rng')) : used id' = false := by
  unfold genID at h
  rcases hl : genLoop cfg.gen (fun cand => used (icptId cfg cand)) 10 0 rng with ⟨r, rg⟩
  rw [hl] at h
  cases r with
  | none => simp at h
  | some c =>
    simp only [Option.map_some, Prod.mk.injEq, Option.some.injEq] at h
    have := (genLoop_some _ _ _ _ _ _ _ hl).2
    rw [← h.1]; exact this

/-- the model's test on the starting id is the code's `(idAbsent || id == "") && genEmptyID` -/
theorem updKey_gen (cfg : Cfg M K R) (wr : WriteReq M K) (id : String) :
    (updKey cfg wr id = "" && wr.genEmptyID) = (idAbsent cfg id && wr.genEmptyID) := by
  unfold updKey idAbsent
  by_cases hid : id = "" <;> cases wr.genEmptyID <;> simp [hid]

/-- when no id is generated the write works on the intercepted id -/
theorem updKey_nogen (cfg : Cfg M K R) (wr : WriteReq M K) (id : String)
    (hg : (idAbsent cfg id && wr.genEmptyID) = false) :
    updKey cfg wr id = icptId cfg id ∧ (icptId cfg id = "" && wr.genEmptyID) = false := by
  unfold updKey
  unfold idAbsent at hg
  by_cases hid : id = "" <;> cases hgen : wr.genEmptyID <;> simp_all

/-- `Coll.update` once the two reads are known. -/
theorem coll_update_ok (cfg : Cfg M K R) (h : EqRefl cfg.ops) (s : CState M R) (id : String) (msg : M)
    (wr : WriteReq M K) (old : Option M) (c1 : UpdCtx M R)
    (hv : cfg.ops.validate (fieldUpdater cfg wr) msg = none)
    (h1 : updGet cfg wr { st := s, id := updKey cfg wr id, created := none, idCalls := [], createdCalls := 0 }
            = (.ok old, c1))
    (h2 : updGet cfg wr c1 = (.ok old, c1)) :
    Coll.update cfg s id msg wr =
      match Spec.newValue cfg.ops wr (fieldUpdater cfg wr) msg old (old.getD cfg.ops.zero) with
      | .error e => ({ val := none, err := some e, events := [], idCalls := c1.idCalls,
                       createdCalls := c1.createdCalls }, c1.st)
      | .ok new =>
        let st2 := (updSave cfg wr c1 new).st
        ({ val := some new, err := none,
           events := [{ id := c1.id, time := (updateTimeC cfg wr st2).1,
                        kind := if (old.isNone || (c1.created.isSome && !c1.createdMeanwhile)) then .add else .update,
                        old := if (old.isNone || (c1.created.isSome && !c1.createdMeanwhile)) then none else old,
                        new := some new }],
           idCalls := c1.idCalls, createdCalls := c1.createdCalls }, (updateTimeC cfg wr st2).2) := by
  unfold Coll.update Coll.updateAt
  simp only [hv, gau_ok cfg.ops h _ _ _ _ _ _ h1 h2, changeFn_eq]
  cases Spec.newValue cfg.ops wr (fieldUpdater cfg wr) msg old (old.getD cfg.ops.zero) with
  | error e => rfl
  | ok new => simp [updSave]

theorem coll_update_err (cfg : Cfg M K R) (s : CState M R) (id : String) (msg : M)
    (wr : WriteReq M K) (e : Code) (c1 : UpdCtx M R)
    (hv : cfg.ops.validate (fieldUpdater cfg wr) msg = none)
    (h1 : updGet cfg wr { st := s, id := updKey cfg wr id, created := none, idCalls := [], createdCalls := 0 }
            = (.error e, c1)) :
    Coll.update cfg s id msg wr =
      ({ val := none, err := some e, events := [], idCalls := c1.idCalls, createdCalls := c1.createdCalls }, c1.st) := by
  unfold Coll.update Coll.updateAt
  simp only [hv, gau_err cfg.ops _ _ _ _ _ _ h1]

theorem lookup_setItem_fun (items : List (String × Item M)) (id : String) (it : Item M) :
    lookup (setItem items id it) = fun k => if k = id then some it else lookup items k :=
  funext (lookup_setItem items id it)

theorem lookup_eraseItem_fun (items : List (String × Item M)) (id : String) :
    lookup (eraseItem items id) = fun k => if k = id then none else lookup items k :=
  funext (lookup_eraseItem items id)

/-- after the reads: the model's commit + announce is the reference's `commit` -/
theorem commit_eq (cfg : Cfg M K R) (wr : WriteReq M K) (st : CState M R) (id : String) (old : Option M)
    (created : Option M) (new : M) (idCalls : List String) (cc : Nat)
 :
    let c1 : UpdCtx M R := { st := st, id := id, created := created, idCalls := idCalls, createdCalls := cc }
    let st2 := (updSave cfg wr c1 new).st
    let old' : Option M := if (old.isNone || created.isSome) then none else old
    (({ val := some new, err := none,
        events := [{ id := id, time := (updateTimeC cfg wr st2).1,
                     kind := if (old.isNone || created.isSome) then .add else .update,
                     old := old', new := some new }],
        idCalls := idCalls, createdCalls := cc } : COut M) = (Spec.commit cfg wr (abs st) id old' new idCalls cc).1) ∧
    abs (updateTimeC cfg wr st2).2 = (Spec.commit cfg wr (abs st) id old' new idCalls cc).2 := by
  intro c1 st2 old'
  have hk : (if (old.isNone || created.isSome) then Kind.add else Kind.update) =
      (if old'.isNone then Kind.add else Kind.update) := by
    simp only [old']
    cases old <;> cases created <;> simp
  simp only [st2, c1, updSave, updateTimeC, nowC, Spec.commit, hk]
  cases wr.writeTime with
  | some w => simp [abs, SState.put, lookup_setItem_fun]
  | none => simp [abs, SState.put, lookup_setItem_fun]

theorem coll_update_eq (cfg : Cfg M K R) (h : EqRefl cfg.ops) (s : CState M R) (id : String) (msg : M)
    (wr : WriteReq M K) :
    (Coll.update cfg s id msg wr).1 = (Spec.update cfg (abs s) id msg wr).1 ∧
    abs (Coll.update cfg s id msg wr).2 = (Spec.update cfg (abs s) id msg wr).2 := by
  cases hv : cfg.ops.validate (fieldUpdater cfg wr) msg with
  | some c => simp [Coll.update, Coll.updateAt, Spec.update, hv, failOut]
  | none =>
    have hused : (fun k => ((abs s).m k).isSome) = usedIn s.items := rfl
    have habsrng : (abs s).rng = s.rng := rfl
    have habsm : (abs s).m = lookup s.items := rfl
    by_cases hg : (idAbsent cfg id && wr.genEmptyID) = true
    · have hk : (updKey cfg wr id = "" && wr.genEmptyID) = true := by rw [updKey_gen]; exact hg
      rcases hgen : genID cfg (usedIn s.items) s.rng with ⟨r, rng'⟩
      have hgen' : genID cfg (fun k => (lookup s.items k).isSome) s.rng = (r, rng') := hgen
      cases r with
      | none =>
        rw [coll_update_err cfg s id msg wr .aborted
          { st := { s with rng := rng' }, id := updKey cfg wr id, created := none, idCalls := [], createdCalls := 0 } hv
          (by simp [updGet, hk, hgen])]
        simp [Spec.update, hv, hg, hgen', failOut, abs]
      | some id' =>
        have hl : lookup s.items id' = none := by
          have := genID_some cfg _ _ _ _ hgen
          simpa [usedIn] using this
        cases hcia : wr.createIfAbsent with
        | false =>
          rw [coll_update_err cfg s id msg wr .notFound
            { st := { s with rng := rng' }, id := id', created := none,
              idCalls := if wr.idCb then [id'] else [], createdCalls := 0 } hv
            (by simp [updGet, hk, hgen, hl, hcia])]
          simp [Spec.update, hv, hg, hgen', failOut, abs, hl, hcia]
        | true =>
          have key := commit_eq cfg wr { s with rng := rng' } id' (some cfg.ops.zero) (some cfg.ops.zero)
          rw [coll_update_ok cfg h s id msg wr (some cfg.ops.zero)
            { st := { s with rng := rng' }, id := id', created := some cfg.ops.zero,
              idCalls := if wr.idCb then [id'] else [],
              createdCalls := if wr.createdCb then 1 else 0 } hv
            (by simp [updGet, hk, hgen, hl, hcia])
            (by simp [updGet, hl])]
          simp only [Spec.update, hv, hg, abs, hgen', ↓reduceIte, hl, hcia, Bool.not_true, Bool.false_eq_true,
            Option.getD_some]
          cases Spec.newValue cfg.ops wr (fieldUpdater cfg wr) msg (some cfg.ops.zero) cfg.ops.zero with
          | error e => simp [failOut]
          | ok new =>
            have := key new (if wr.idCb then [id'] else []) (if wr.createdCb then 1 else 0)
            simpa [abs] using this
    · have hg' : (idAbsent cfg id && wr.genEmptyID) = false := by simpa using hg
      obtain ⟨hkey, hk'⟩ := updKey_nogen cfg wr id hg'
      cases hl : lookup s.items (icptId cfg id) with
      | some it =>
        cases hxa : wr.expectAbsent with
        | true =>
          rw [coll_update_err cfg s id msg wr .alreadyExists
            { st := s, id := icptId cfg id, created := none, idCalls := [], createdCalls := 0 } hv
            (by simp [updGet, hkey, hk', hl, hxa])]
          simp [Spec.update, hv, hg', failOut, abs, hl, hxa]
        | false =>
          have key := commit_eq cfg wr s (icptId cfg id) (some it.body) none
          have hget : updGet cfg wr { st := s, id := icptId cfg id, created := none, idCalls := [], createdCalls := 0 }
              = (.ok (some it.body),
                 { st := s, id := icptId cfg id, created := none, idCalls := [], createdCalls := 0 }) := by
            simp [updGet, hk', hl, hxa]
          rw [coll_update_ok cfg h s id msg wr (some it.body) _ hv (by rw [hkey]; exact hget) hget]
          simp only [Spec.update, hv, hg', abs, hl, hxa, Bool.false_eq_true, ↓reduceIte, Option.getD_some]
          cases Spec.newValue cfg.ops wr (fieldUpdater cfg wr) msg (some it.body) it.body with
          | error e => simp [failOut]
          | ok new =>
            have := key new [] 0
            simpa [abs] using this
      | none =>
        cases hcia : wr.createIfAbsent with
        | false =>
          rw [coll_update_err cfg s id msg wr .notFound
            { st := s, id := icptId cfg id, created := none, idCalls := [], createdCalls := 0 } hv
            (by simp [updGet, hkey, hk', hl, hcia])]
          simp [Spec.update, hv, hg', failOut, abs, hl, hcia]
        | true =>
          have key := commit_eq cfg wr s (icptId cfg id) (some cfg.ops.zero) (some cfg.ops.zero)
          rw [coll_update_ok cfg h s id msg wr (some cfg.ops.zero)
            { st := s, id := icptId cfg id, created := some cfg.ops.zero, idCalls := [],
              createdCalls := if wr.createdCb then 1 else 0 } hv
            (by simp [updGet, hkey, hk', hl, hcia])
            (by simp [updGet, hl])]
          simp only [Spec.update, hv, hg', abs, hl, hcia, Bool.not_true, Bool.false_eq_true, ↓reduceIte,
            Option.getD_some]
          cases Spec.newValue cfg.ops wr (fieldUpdater cfg wr) msg (some cfg.ops.zero) cfg.ops.zero with
          | error e => simp [failOut]
          | ok new =>
            have := key new [] (if wr.createdCb then 1 else 0)
            simpa [abs] using this

theorem sameItem_refl {ops : MsgOps M K} (h : EqRefl ops) (o : Option (Item M)) : sameItem ops o o = true := by
  cases o <;> simp [sameItem, h _]

/-- one caller: the first attempt of `Delete` decides -/
theorem deleteLoop_first (cfg : Cfg M K R) (h : EqRefl cfg.ops) (wr : WriteReq M K) (id : String) (fuel : Nat)
    (s : CState M R) :
    deleteLoop cfg wr id (fuel + 1) (lookup s.items id) s =
      match lookup s.items id with
      | none =>
        if !wr.allowMissing then
          ({ val := none, err := some .notFound, events := [], idCalls := [], createdCalls := 0 }, s)
        else ({ val := none, err := none, events := [], idCalls := [], createdCalls := 0 }, s)
      | some it =>
        match (match wr.expectedCheck with | some chk => chk (some it.body) | none => none) with
        | some e => ({ val := some it.body, err := some e, events := [], idCalls := [], createdCalls := 0 }, s)
        | none =>
          if (match wr.expectedValue with | some ev => !(cfg.ops.eq it.body ev) | none => false) then
            ({ val := some it.body, err := some .failedPrecondition, events := [], idCalls := [],
               createdCalls := 0 }, s)
          else
            ({ val := some it.body, err := none,
               events := [{ id := id, time := s.clock, kind := .remove, old := some it.body, new := none }],
               idCalls := [], createdCalls := 0 },
             { s with clock := s.clock + cfg.tick, items := eraseItem s.items id }) := by
  unfold deleteLoop
  cases hl : lookup s.items id with
  | none => rfl
  | some it =>
    have hsame : sameItem cfg.ops (some it) (some it) = true := sameItem_refl h _
    simp only [hsame, nowC]
    cases wr.expectedCheck with
    | none => cases wr.expectedValue <;> simp
    | some chk => cases hc : chk (some it.body) <;> cases wr.expectedValue <;> simp [hc]

theorem coll_delete_eq (cfg : Cfg M K R) (h : EqRefl cfg.ops) (s : CState M R) (id : String)
    (wr : WriteReq M K) :
    (Coll.delete cfg s id wr).1 = (Spec.delete cfg (abs s) id wr).1 ∧
    abs (Coll.delete cfg s id wr).2 = (Spec.delete cfg (abs s) id wr).2 := by
  unfold Coll.delete Spec.delete
  rw [deleteLoop_first cfg h]
  simp only [abs]
  cases hl : lookup s.items (icptId cfg id) with
  | none => cases wr.allowMissing <;> simp [failOut]
  | some it =>
    simp only []
    cases wr.expectedCheck with
    | none =>
      cases wr.expectedValue with
      | none => simp [SState.del, lookup_eraseItem_fun]
      | some ev => cases hq : cfg.ops.eq it.body ev <;> simp [failOut, SState.del, lookup_eraseItem_fun, hq]
    | some chk =>
      cases hc : chk (some it.body) with
      | some e => simp [failOut, hc]
      | none =>
        cases wr.expectedValue with
        | none => simp [SState.del, lookup_eraseItem_fun, hc]
        | some ev => cases hq : cfg.ops.eq it.body ev <;> simp [failOut, SState.del, lookup_eraseItem_fun, hc, hq]
end ScVerif.C01
