import ScVerif.C01.Model
/-!
# C01 — resource option LISTS (`pkg/resource/opt.go` `computeConfig`, `NewValue`, `NewCollection`)

`NewValue(opts...)` / `NewCollection(opts...)` take a variadic list of `resource.Option`; `computeConfig`
applies the options IN ORDER to a config record, and the constructors read the record.  `Model.lean`
starts from the record (`Cfg` + the initial value / records); this file models how it comes about,
following each resource-level `With…` function of `opt.go`:

* `WithWritableFields(mask)`, `WithIDInterceptor(f)`, `WithInitialValue(v)` overwrite: a later one
  replaces an earlier one, a nil mask / nil function / nil message switches the setting off again;
  `WithWritablePaths(m, paths...)` is `WithWritableFields` on the mask holding those paths (it panics
  before any option exists when a path is not a field of `m`: not a value of this type);
* `WithInitialRecord(id, v)` adds a record and PANICS when a record with that id was already given
  (`none` below), whatever other options stand between the two;
* `WithClock`, `WithRNG` (the model's clock and rng are parameters of every theorem), `WithEquivalence` /
  `WithMessageEquivalence` / `WithNoDuplicates` (consulted by Pull only — never by Get/List/Set/Add/Update/
  Delete: no definition of `Model.lean` has such a parameter) and `EmptyOption` are `other`.

A Value ignores initial records and the id interceptor, a Collection ignores the initial value.
`NewCollection` keeps an initial record under the id interceptor's image of its id (repo 215ba16; before,
under the id as given: unreachable for Get/Update/Delete when the interceptor rewrites that id).
-/
namespace ScVerif.C01
variable {M K R : Type}

/-- `resource.Option` values. -/
inductive ResOpt (M K : Type)
  | writable (m : Option K)
  | icpt (f : Option (String → String))
  | initialValue (v : Option M)
  | initialRecord (id : String) (v : M)
  | other

/-- `resource.config`, the part the sequential calls read. -/
structure ResCfg (M K : Type) where
  writable : Option K := none
  icpt : Option (String → String) := none
  initialValue : Option M := none
  /-- `initialRecords`: a Go map — the ids are distinct (kept in the order given) -/
  initialRecords : List (String × M) := []

/-- `opt.apply(c)`; `none` = the option panics -/
def applyRes (c : ResCfg M K) : ResOpt M K → Option (ResCfg M K)
  | .writable m => some { c with writable := m }
  | .icpt f => some { c with icpt := f }
  | .initialValue v => some { c with initialValue := v }
  | .initialRecord id v =>
    if c.initialRecords.any (fun kv => kv.1 == id) then none
    else some { c with initialRecords := c.initialRecords ++ [(id, v)] }
  | .other => some c

/-- the loop of `computeConfig` -/
def applyAllRes : ResCfg M K → List (ResOpt M K) → Option (ResCfg M K)
  | c, [] => some c
  | c, o :: os =>
    match applyRes c o with
    | none => none
    | some c' => applyAllRes c' os

/-- `computeConfig(opts...)` -/
def computeConfig (opts : List (ResOpt M K)) : Option (ResCfg M K) := applyAllRes {} opts

/-- the model's configuration: `base` supplies what the options do not decide here (message operations,
clock step, id generator) -/
def toCfg (base : Cfg M K R) (rc : ResCfg M K) : Cfg M K R :=
  { base with writable := rc.writable, icpt := rc.icpt }

/-- `NewValue(opts...)`: the configuration and the initial state (`none`: a panic) -/
def Value.newO (base : Cfg M K R) (opts : List (ResOpt M K)) : Option (Cfg M K R × VState M) :=
  (computeConfig opts).map fun rc => (toCfg base rc, Value.init (toCfg base rc) rc.initialValue)

/-- does a record list hold two records with one id -/
def hasDupKey : List (String × M) → Bool
  | [] => false
  | kv :: rest => rest.any (fun x => x.1 == kv.1) || hasDupKey rest

/-- the initial records under the keys `NewCollection` keeps them under: the id interceptor's image of the
id given (repo 215ba16), as every entry point resolves the ids it is handed -/
def keyedRecords (cfg : Cfg M K R) (records : List (String × M)) : List (String × M) :=
  records.map (fun kv => (icptId cfg kv.1, kv.2))

/-- `NewCollection(opts...)`: the records go into `byId` under their intercepted ids; two records the
interceptor maps to one id panic (`none`), like a repeated `WithInitialRecord` id.  (`initialRecords` is a
Go map: with distinct keys the iteration order does not matter.) -/
def Coll.newO (base : Cfg M K R) (opts : List (ResOpt M K)) (rng : R) : Option (Cfg M K R × CState M R) :=
  (computeConfig opts).bind fun rc =>
    let cfg := toCfg base rc
    if hasDupKey (keyedRecords cfg rc.initialRecords) then none
    else some (cfg, Coll.init cfg (keyedRecords cfg rc.initialRecords) rng)

/-- `NewCollection` before repo 215ba16: the records were kept under the ids as given, whatever the id
interceptor (kept for the witness `C01_initial_records_legacy_unreachable`) -/
def Coll.newOLegacy (base : Cfg M K R) (opts : List (ResOpt M K)) (rng : R) : Option (Cfg M K R × CState M R) :=
  (computeConfig opts).map fun rc => (toCfg base rc, Coll.init (toCfg base rc) rc.initialRecords rng)

/-- the initial records of an option list, in the order given -/
def recordsOf : List (ResOpt M K) → List (String × M)
  | [] => []
  | .initialRecord id v :: os => (id, v) :: recordsOf os
  | _ :: os => recordsOf os

def ResOpt.setsWritable : ResOpt M K → Bool
  | .writable _ => true
  | _ => false

def ResOpt.setsIcpt : ResOpt M K → Bool
  | .icpt _ => true
  | _ => false

def ResOpt.setsInitialValue : ResOpt M K → Bool
  | .initialValue _ => true
  | _ => false

end ScVerif.C01
