import ScVerif.C01.Opts
import ScVerif.C01.Outcome
/-! Lemmas about option lists (`Opts.lean`): the Add flags commute with every option, which options
touch which setting, runs on option lists are runs on the computed records. -/
namespace ScVerif.C01
variable {M K R : Type}

/-- the two flags `Collection.Add` forces -/
def withAddFlags (wr : WriteReq M K) : WriteReq M K := { wr with expectAbsent := true, createIfAbsent := true }

theorem applyW_addFlags (ops : MsgOps M K) (cat : K → K → K) (wr : WriteReq M K) (o : WOpt M K) :
    applyW ops cat (withAddFlags wr) o = withAddFlags (applyW ops cat wr o) := by
  cases o <;> try rfl
  case moreUpdateMask m =>
    cases h : wr.updateMask with
    | none => simp [applyW, withAddFlags, h]
    | some u => simp [applyW, withAddFlags, h]

theorem foldl_addFlags (ops : MsgOps M K) (cat : K → K → K) (opts : List (WOpt M K)) :
    ∀ wr : WriteReq M K, opts.foldl (applyW ops cat) (withAddFlags wr) = withAddFlags (opts.foldl (applyW ops cat) wr) := by
  induction opts with
  | nil => intro wr; rfl
  | cons o opts ih => intro wr; simp only [List.foldl_cons, applyW_addFlags, ih]

theorem computeWriteConfig_add_front (ops : MsgOps M K) (cat : K → K → K) (opts : List (WOpt M K)) :
    computeWriteConfig ops cat (.expectAbsent :: .createIfAbsent :: opts) = withAddFlags (computeWriteConfig ops cat opts) := by
  unfold computeWriteConfig
  simp only [List.foldl_cons]
  exact foldl_addFlags ops cat opts {}

theorem computeWriteConfig_add_back (ops : MsgOps M K) (cat : K → K → K) (opts : List (WOpt M K)) :
    computeWriteConfig ops cat (opts ++ [.expectAbsent, .createIfAbsent]) = withAddFlags (computeWriteConfig ops cat opts) := by
  unfold computeWriteConfig
  simp only [List.foldl_append, List.foldl_cons, List.foldl_nil]
  rfl

/-- flags are never unset -/
theorem applyW_flags_mono (ops : MsgOps M K) (cat : K → K → K) (wr : WriteReq M K) (o : WOpt M K) :
    (wr.expectAbsent = true → (applyW ops cat wr o).expectAbsent = true) ∧
    (wr.createIfAbsent = true → (applyW ops cat wr o).createIfAbsent = true) ∧
    (wr.genEmptyID = true → (applyW ops cat wr o).genEmptyID = true) ∧
    (wr.nilWritable = true → (applyW ops cat wr o).nilWritable = true) := by
  cases o <;> (try exact ⟨id, id, id, id⟩) <;> (try exact ⟨fun _ => rfl, id, id, id⟩) <;>
    (try exact ⟨id, fun _ => rfl, id, id⟩) <;> (try exact ⟨id, id, fun _ => rfl, id⟩) <;>
    (try exact ⟨id, id, id, fun _ => rfl⟩)
  case moreUpdateMask m =>
    cases h : wr.updateMask with
    | none => simp only [applyW, h]; exact ⟨id, id, id, id⟩
    | some u => simp only [applyW, h]; exact ⟨id, id, id, id⟩

theorem foldl_flags_mono (ops : MsgOps M K) (cat : K → K → K) (opts : List (WOpt M K)) :
    ∀ wr : WriteReq M K,
    (wr.expectAbsent = true → (opts.foldl (applyW ops cat) wr).expectAbsent = true) ∧
    (wr.createIfAbsent = true → (opts.foldl (applyW ops cat) wr).createIfAbsent = true) ∧
    (wr.genEmptyID = true → (opts.foldl (applyW ops cat) wr).genEmptyID = true) ∧
    (wr.nilWritable = true → (opts.foldl (applyW ops cat) wr).nilWritable = true) := by
  induction opts with
  | nil => intro wr; exact ⟨id, id, id, id⟩
  | cons o opts ih =>
    intro wr
    have h1 := applyW_flags_mono ops cat wr o
    have h2 := ih (applyW ops cat wr o)
    simp only [List.foldl_cons]
    exact ⟨fun h => h2.1 (h1.1 h), fun h => h2.2.1 (h1.2.1 h), fun h => h2.2.2.1 (h1.2.2.1 h),
      fun h => h2.2.2.2 (h1.2.2.2 h)⟩

/-- is the option one of the two that write the update mask -/
def WOpt.touchesUpdateMask : WOpt M K → Bool
  | .updateMask _ => true
  | .moreUpdateMask _ => true
  | _ => false

def WOpt.setsUpdateMask : WOpt M K → Bool
  | .updateMask _ => true
  | _ => false

/-- what the options after the last `WithUpdateMask` do to the mask it set: each `WithMoreUpdateMask`
unites its paths in, unless the mask is nil -/
def moreMasks (cat : K → K → K) (post : List (WOpt M K)) (m : Option K) : Option K :=
  post.foldl (fun u o => match o with
    | .moreUpdateMask k => u.map (fun x => cat x k)
    | _ => u) m

theorem foldl_updateMask (ops : MsgOps M K) (cat : K → K → K) (post : List (WOpt M K))
    (hpost : ∀ o ∈ post, o.setsUpdateMask = false) :
    ∀ wr : WriteReq M K, (post.foldl (applyW ops cat) wr).updateMask = moreMasks cat post wr.updateMask := by
  induction post with
  | nil => intro wr; rfl
  | cons o post ih =>
    intro wr
    have ho : o.setsUpdateMask = false := hpost o (List.mem_cons_self ..)
    have ih' := ih (fun o' h' => hpost o' (List.mem_cons_of_mem _ h')) (applyW ops cat wr o)
    simp only [List.foldl_cons, moreMasks] at ih' ⊢
    rw [ih']
    congr 1
    cases o <;> try rfl
    case updateMask m => simp [WOpt.setsUpdateMask] at ho
    case moreUpdateMask k =>
      cases h : wr.updateMask with
      | none => simp [applyW, h]
      | some u => simp [applyW, h]

def ROpt.setsReadMask : ROpt M K → Bool
  | .readMask _ => true
  | _ => false

def ROpt.setsInclude : ROpt M K → Bool
  | .incl _ => true
  | _ => false

theorem foldl_readMask_keep (post : List (ROpt M K)) (hpost : ∀ o ∈ post, o.setsReadMask = false) :
    ∀ rr : ReadReq M K, (post.foldl applyR rr).readMask = rr.readMask := by
  induction post with
  | nil => intro rr; rfl
  | cons o post ih =>
    intro rr
    have ho : o.setsReadMask = false := hpost o (List.mem_cons_self ..)
    simp only [List.foldl_cons]
    rw [ih (fun o' h' => hpost o' (List.mem_cons_of_mem _ h'))]
    cases o <;> first | rfl | simp [ROpt.setsReadMask] at ho

theorem foldl_incl_keep (post : List (ROpt M K)) (hpost : ∀ o ∈ post, o.setsInclude = false) :
    ∀ rr : ReadReq M K, (post.foldl applyR rr).incl = rr.incl := by
  induction post with
  | nil => intro rr; rfl
  | cons o post ih =>
    intro rr
    have ho : o.setsInclude = false := hpost o (List.mem_cons_self ..)
    simp only [List.foldl_cons]
    rw [ih (fun o' h' => hpost o' (List.mem_cons_of_mem _ h'))]
    cases o <;> first | rfl | simp [ROpt.setsInclude] at ho

/-- a step on option lists is the step on the computed records -/
theorem stepO_eq (cat : K → K → K) (cfg : Cfg M K R) (s : CState M R) (op : COpO M K) :
    Coll.stepO cat cfg s op = Coll.step cfg s (compileOp cfg.ops cat op) := by
  cases op with
  | get id opts => rfl
  | list opts => rfl
  | update id msg opts => rfl
  | add id msg opts =>
    simp only [Coll.stepO, Coll.step, compileOp, Coll.addO, Coll.updateO, Coll.add, computeWriteConfig_add_front]
    rfl
  | delete id opts => rfl

theorem runO_eq (cat : K → K → K) (cfg : Cfg M K R) (ops : List (COpO M K)) :
    ∀ s : CState M R, Coll.runO cat cfg s ops = Coll.run cfg s (ops.map (compileOp cfg.ops cat)) := by
  induction ops with
  | nil => intro s; rfl
  | cons op ops ih => intro s; simp only [Coll.runO, Coll.run, List.map_cons, stepO_eq, ih]

theorem vrunO_eq (cat : K → K → K) (cfg : Cfg M K R) (ops : List (VOpO M K)) :
    ∀ s : VState M, Value.runO cat cfg s ops = Value.run cfg s (ops.map (compileVOp cfg.ops cat)) := by
  induction ops with
  | nil => intro s; rfl
  | cons op ops ih =>
    intro s
    cases op <;> simp only [Value.runO, Value.run, List.map_cons, ih] <;> rfl

/-- is the option `WithAllFieldsWritable` -/
def WOpt.isAllWritable : WOpt M K → Bool
  | .allFieldsWritable => true
  | _ => false

/-- the additional writable fields of a list: the masks of its `WithMoreWritableFields` options,
united left to right (the first through `fieldmaskpb.Union(nil, m)`) -/
def moreWritableOf (ops : MsgOps M K) (opts : List (WOpt M K)) (acc : Option K) : Option K :=
  opts.foldl (fun a o => match o with
    | .moreWritable m => some (match a with | none => ops.union m none | some w => ops.union w (some m))
    | _ => a) acc

theorem foldl_writable (ops : MsgOps M K) (cat : K → K → K) (opts : List (WOpt M K)) :
    ∀ wr : WriteReq M K,
      (opts.foldl (applyW ops cat) wr).moreWritable = moreWritableOf ops opts wr.moreWritable ∧
      (opts.foldl (applyW ops cat) wr).nilWritable = (wr.nilWritable || opts.any WOpt.isAllWritable) := by
  induction opts with
  | nil => intro wr; simp [moreWritableOf]
  | cons o opts ih =>
    intro wr
    have := ih (applyW ops cat wr o)
    simp only [List.foldl_cons, moreWritableOf, List.any_cons] at this ⊢
    rw [this.1, this.2]
    cases o <;> (try exact ⟨rfl, by simp [applyW, WOpt.isAllWritable]⟩)
    case moreUpdateMask m =>
      cases h : wr.updateMask <;> simp [applyW, h, WOpt.isAllWritable]

/-! ## the callback / check / interceptor setters (nil included) -/

/-- the five settings a write option can hold a function (or nil) for -/
inductive FnSetting | check | before | after | created | idcb
  deriving DecidableEq

/-- which setting an option sets, if any (`WithExpectedCheck(f)` and `WithExpectedCheck(nil)` both set
the check, …) -/
def WOpt.setsFn : WOpt M K → Option FnSetting
  | .expectedCheck _ => some .check | .noExpectedCheck => some .check
  | .before _ => some .before | .noBefore => some .before
  | .after _ => some .after | .noAfter => some .after
  | .createdCallback => some .created | .noCreatedCallback => some .created
  | .idCallback => some .idcb | .noIDCallback => some .idcb
  | _ => none

/-- two request records agree on a setting -/
def sameFn (k : FnSetting) (a b : WriteReq M K) : Prop :=
  match k with
  | .check => a.expectedCheck = b.expectedCheck
  | .before => a.before = b.before
  | .after => a.after = b.after
  | .created => a.createdCb = b.createdCb
  | .idcb => a.idCb = b.idCb

theorem sameFn_refl (k : FnSetting) (a : WriteReq M K) : sameFn k a a := by cases k <;> rfl

theorem sameFn_trans (k : FnSetting) {a b c : WriteReq M K} (h1 : sameFn k a b) (h2 : sameFn k b c) : sameFn k a c := by
  cases k <;> exact Eq.trans h1 h2

/-- an option that does not set `k` leaves `k` as it was -/
theorem applyW_keeps_fn (ops : MsgOps M K) (cat : K → K → K) (k : FnSetting) (wr : WriteReq M K) (o : WOpt M K)
    (h : o.setsFn ≠ some k) : sameFn k (applyW ops cat wr o) wr := by
  cases k <;> cases o <;> first
    | exact absurd rfl h
    | (simp only [applyW, sameFn] <;> first | rfl | (split <;> rfl))

/-- an option that sets `k` decides `k` whatever the record held -/
theorem applyW_sets_fn (ops : MsgOps M K) (cat : K → K → K) (k : FnSetting) (wr wr' : WriteReq M K) (o : WOpt M K)
    (h : o.setsFn = some k) : sameFn k (applyW ops cat wr o) (applyW ops cat wr' o) := by
  cases k <;> cases o <;> simp only [WOpt.setsFn, Option.some.injEq, reduceCtorEq] at h <;>
    (simp only [applyW, sameFn] <;> rfl)

theorem foldl_keeps_fn (ops : MsgOps M K) (cat : K → K → K) (k : FnSetting) (post : List (WOpt M K))
    (hpost : ∀ o ∈ post, o.setsFn ≠ some k) :
    ∀ wr : WriteReq M K, sameFn k (post.foldl (applyW ops cat) wr) wr := by
  induction post with
  | nil => intro wr; exact sameFn_refl k wr
  | cons o post ih =>
    intro wr
    simp only [List.foldl_cons]
    exact sameFn_trans k (ih (fun o' ho' => hpost o' (by simp [ho'])) _) (applyW_keeps_fn ops cat k wr o (hpost o (by simp)))

/-- `EmptyWriteOption{}` -/
def WOpt.isEmpty : WOpt M K → Bool
  | .empty => true
  | _ => false

/-- the read options that do not concern Get/List: `EmptyReadOption{}`, `WithUpdatesOnly`, `WithBackpressure` -/
def ROpt.isOther : ROpt M K → Bool
  | .other => true
  | _ => false

end ScVerif.C01
