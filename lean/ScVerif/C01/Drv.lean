import ScVerif.Base.Line
import ScVerif.C01.Flat
/-!
Driver handler for C01 (stateful): one resource (Value or Collection over the `Flat` message) per
driver process or per `newc` / `newv` line.

Requests (tokens `key=value` or bare flags, any order after the op):

```
newc [W=<mask>] [icpt=<name>] [tick=<n>] [rng=<b,b,…>] [init=<id~msg;id~msg>]      -> ok
newv [W=<mask>] [tick=<n>] [init=<msg>]                                             -> ok
upd|add id=<id> msg=<msg> <write opts>     -> val=… err=… ev=[…] ids=[…] created=n | st=[…] clk=n
del id=<id> <write opts>                   -> likewise
get id=<id> [rm=<mask>]                    -> <msg>|nil
list [rm=<mask>] [inc=<name>]              -> [msg;msg;…]
vset msg=<msg> <write opts>                -> val=… err=… ev=[…] | st=<msg|nil>@t clk=n
vget [rm=<mask>]                           -> <msg>|nil
write opts: wt=<n> um=<mask> rs=<mask> ev=<msg> xa chk=<name> am bf=<name> af=<name> nw mw=<mask>
            cia ccb gid icb
mask: 0 (no paths) or letters a,s,c,f,r,x separated by commas;   msg: <a>/<s>/<c|->[/<f: -|c:d>/<r: -|n.n.n>]
```
-/
namespace ScVerif.C01
open ScVerif.Line

abbrev KV := List (String × String)

/-- `k=v` ↦ (k, v); a bare flag ↦ (flag, "") -/
def parseKV (toks : List String) : Option KV :=
  toks.mapM (fun t => match t.splitOn "=" with
    | [k] => some (k, "")
    | [k, v] => some (k, v)
    | _ => none)

def kvGet (kv : KV) (k : String) : Option String := (kv.find? (·.1 = k)).map (·.2)
def kvHas (kv : KV) (k : String) : Bool := (kvGet kv k).isSome

def parseField? : String → Option Field
  | "a" => some .a | "s" => some .s | "c" => some .c | "f" => some .f | "r" => some .r
  | "x" => some .x | _ => none

def parseMask? (s : String) : Option Mask :=
  if s = "0" then some [] else (s.splitOn ",").mapM parseField?

/-- nested message `-` (absent) or `c:d` -/
def parseForeign? (s : String) : Option (Option (Int × Int)) :=
  if s = "-" then some none
  else match s.splitOn ":" with
    | [c, d] => do
      let cv ← parseInt? c
      let dv ← parseInt? d
      pure (some (cv, dv))
    | _ => none

/-- repeated field `-` (empty) or `n.n.n` -/
def parseRep? (s : String) : Option (List Int) :=
  if s = "-" then some [] else (s.splitOn ".").mapM parseInt?

/-- `a/s/c` or `a/s/c/f/r` -/
def parseMsg? (s : String) : Option Msg :=
  match s.splitOn "/" with
  | [a, str, c] => do
    let av ← parseInt? a
    let cv ← if c = "-" then some none else (parseInt? c).map some
    pure { a := av, s := str, c := cv }
  | [a, str, c, f, r] => do
    let av ← parseInt? a
    let cv ← if c = "-" then some none else (parseInt? c).map some
    let fv ← parseForeign? f
    let rv ← parseRep? r
    pure { a := av, s := str, c := cv, f := fv, r := rv }
  | _ => none

/-- optional key whose value must parse when present -/
def optKey {α : Type} (kv : KV) (k : String) (p : String → Option α) : Option (Option α) :=
  match kvGet kv k with
  | none => some none
  | some v => (p v).map some

def knownWriteKeys : List String :=
  ["id", "msg", "wt", "um", "rs", "ev", "xa", "chk", "am", "bf", "af", "nw", "mw", "cia", "ccb", "gid", "icb"]

def parseWriteReq? (kv : KV) : Option (WriteReq Msg Mask) := do
  if !(kv.all (fun p => knownWriteKeys.contains p.1)) then none
  let wt ← optKey kv "wt" parseInt?
  let um ← optKey kv "um" parseMask?
  let rs ← optKey kv "rs" parseMask?
  let ev ← optKey kv "ev" parseMsg?
  let chk ← optKey kv "chk" namedCheck
  let bf ← optKey kv "bf" namedBefore
  let af ← optKey kv "af" namedAfter
  let mw ← optKey kv "mw" parseMask?
  pure { writeTime := wt, updateMask := um, resetMask := rs, expectedValue := ev,
         expectAbsent := kvHas kv "xa", expectedCheck := chk, allowMissing := kvHas kv "am",
         before := bf, after := af, nilWritable := kvHas kv "nw", moreWritable := mw,
         createIfAbsent := kvHas kv "cia", createdCb := kvHas kv "ccb",
         genEmptyID := kvHas kv "gid", idCb := kvHas kv "icb" }

def parseReadReq? (kv : KV) : Option (ReadReq Msg Mask) := do
  let rm ← optKey kv "rm" parseMask?
  let inc ← optKey kv "inc" namedInclude
  pure { readMask := rm, incl := inc }

def parseRng? (s : String) : Option (List Nat) :=
  if s = "" then some [] else (s.splitOn ",").mapM parseNat?

def parseInit? (s : String) : Option (List (String × Msg)) :=
  if s = "" then some []
  else (s.splitOn ";").mapM (fun rec => match rec.splitOn "~" with
    | [id, m] => (parseMsg? m).map (fun v => (id, v))
    | _ => none)

abbrev FCfg := Cfg Msg Mask (List Nat)

def parseCfg? (kv : KV) : Option FCfg := do
  let w ← optKey kv "W" parseMask?
  let ic ← optKey kv "icpt" namedIcpt
  let tick ← optKey kv "tick" parseNat?
  pure { ops := flatOps, writable := w, icpt := ic, tick := ((tick.getD 1 : Nat) : Int), gen := flatGen }

/-! ### printing -/

def showOptInt : Option Int → String
  | none => "-"
  | some n => toString n

def showMsg (m : Msg) : String :=
  let base := s!"{m.a}/{m.s}/{showOptInt m.c}"
  if m.f.isNone && m.r.isEmpty then base
  else
    let f := match m.f with | none => "-" | some (c, d) => s!"{c}:{d}"
    let r := if m.r.isEmpty then "-" else ".".intercalate (m.r.map toString)
    s!"{base}/{f}/{r}"

def showOptMsg : Option Msg → String
  | none => "nil"
  | some m => showMsg m

def showErr : Option Code → String
  | none => "-"
  | some c => c.name

def Kind.name : Kind → String
  | .add => "ADD" | .update => "UPDATE" | .remove => "REMOVE"

def showFlags (seed last : Bool) : String :=
  (if seed then "S" else "") ++ (if last then "L" else "")

def showCEvent (e : CEvent Msg) : String :=
  s!"{e.id}|{e.time}|{e.kind.name}|{showOptMsg e.old}|{showOptMsg e.new}|{showFlags e.seed e.lastSeed}"

def showList (xs : List String) : String := "[" ++ ";".intercalate xs ++ "]"

def showCState (s : CState Msg (List Nat)) : String :=
  let items := (sortById s.items).map (fun kv => s!"{kv.1}~{showMsg kv.2.body}@{kv.2.time}")
  s!"st={showList items} clk={s.clock}"

def showCOut (o : COut Msg) : String :=
  s!"val={showOptMsg o.val} err={showErr o.err} ev={showList (o.events.map showCEvent)} " ++
  s!"ids={showList o.idCalls} created={o.createdCalls}"

def showVEvent (e : VEvent Msg) : String := s!"{showMsg e.value}|{e.time}"

def showVState (s : VState Msg) : String :=
  match s.value with
  | none => s!"st=nil@? clk={s.clock}"   -- no seed is sent for an absent value: its change time is not observable
  | some m => s!"st={showMsg m}@{s.changeTime} clk={s.clock}"

def showVOut (o : VOut Msg) : String :=
  s!"val={showOptMsg o.val} err={showErr o.err} ev={showList (o.events.map showVEvent)}"

/-! ### the handler -/

inductive DrvState
  | none
  | coll (cfg : FCfg) (s : CState Msg (List Nat))
  | val (cfg : FCfg) (s : VState Msg)

def handleOpt (st : DrvState) (toks : List String) : Option (DrvState × String) :=
  match toks with
  | [] => none
  | op :: rest => do
    let kv ← parseKV rest
    match op, st with
    | "newc", _ =>
      let cfg ← parseCfg? kv
      let rng ← parseRng? ((kvGet kv "rng").getD "")
      let init ← parseInit? ((kvGet kv "init").getD "")
      pure (.coll cfg (Coll.init cfg init rng), "ok")
    | "newv", _ =>
      let cfg ← parseCfg? kv
      let init ← optKey kv "init" parseMsg?
      pure (.val cfg (Value.init cfg init), "ok")
    | "upd", .coll cfg s =>
      let id ← kvGet kv "id"
      let msg ← (kvGet kv "msg").bind parseMsg?
      let wr ← parseWriteReq? kv
      let (o, s') := Coll.update cfg s id msg wr
      pure (.coll cfg s', showCOut o ++ " | " ++ showCState s')
    | "add", .coll cfg s =>
      let id ← kvGet kv "id"
      let msg ← (kvGet kv "msg").bind parseMsg?
      let wr ← parseWriteReq? kv
      let (o, s') := Coll.add cfg s id msg wr
      pure (.coll cfg s', showCOut o ++ " | " ++ showCState s')
    | "del", .coll cfg s =>
      let id ← kvGet kv "id"
      let wr ← parseWriteReq? kv
      let (o, s') := Coll.delete cfg s id wr
      pure (.coll cfg s', showCOut o ++ " | " ++ showCState s')
    | "get", .coll cfg s =>
      let id ← kvGet kv "id"
      let ro ← parseReadReq? kv
      pure (st, showOptMsg (Coll.get cfg s id ro))
    | "list", .coll cfg s =>
      let ro ← parseReadReq? kv
      pure (st, showList ((Coll.list cfg s ro).map showMsg))
    | "vset", .val cfg s =>
      let msg ← (kvGet kv "msg").bind parseMsg?
      let wr ← parseWriteReq? kv
      let (o, s') := Value.set cfg s msg wr
      pure (.val cfg s', showVOut o ++ " | " ++ showVState s')
    | "vget", .val cfg s =>
      let ro ← parseReadReq? kv
      pure (st, showOptMsg (Value.get cfg s ro))
    | _, _ => none

def handleS (st : DrvState) (toks : List String) : DrvState × String :=
  match handleOpt st toks with
  | some r => r
  | none => (st, "!bad-op")

end ScVerif.C01
