import ScVerif.Base.Line
import ScVerif.C01.Flat
import ScVerif.C01.Opts
import ScVerif.C01.Res
import ScVerif.C01.Paths
/-!
Driver handler for C01 (stateful): one resource (Value or Collection over the `Flat` message) per
driver process or per `newc` / `newv` line.

Requests (tokens `key=value` or bare flags, any order after the op):

```
newc [W=<mask>] [icpt=<name>] [tick=<n>] [rng=<b,b,…>] [init=<id~msg;id~msg>]      -> ok
newv [W=<mask>] [tick=<n>] [init=<msg>]                                             -> ok
newc|newv … res=<opt>|<opt>|…   the resource as constructed from an ORDERED option list (then no W/icpt/init):
            W:<mask|nil> Wp:<mask> icpt:<name|nil> init:<msg|nil> rec:<id>~<msg> eqv:<name> nop clk rng
                                                                                    -> ok | panic
upd|add id=<id> msg=<msg> <write opts>     -> val=… err=… ev=[…] ids=[…] created=n | st=[…] clk=n
del id=<id> <write opts>                   -> likewise
get id=<id> [rm=<mask>]                    -> <msg>|nil
list [rm=<mask>] [inc=<name>]              -> [msg;msg;…]
vset msg=<msg> <write opts>                -> val=… err=… ev=[…] | st=<msg|nil>@t clk=n
vget [rm=<mask>]                           -> <msg>|nil
wnp paths=<p,p,…>                          -> the paths `withoutNestedPaths` keeps, in order (`-` for none)
sel paths=<p,p,…> leaf=<p>                 -> true|false: does nestedMask(paths) select the leaf field
iwp path=<p> w=<p,p,…>                     -> true|false: `isWritablePath`   (p: a real path string)
write opts: wt=<n> um=<mask|nil> mum=<mask> rs=<mask|nil> ev=<msg|nil> xa chk=<name|nil> am am0 bf=<name|nil>
            af=<name|nil> nw mw=<mask> cia ccb ccb0 gid icb icb0 ump=<mask> mump=<mask> rsp=<mask> mwp=<mask> nop
            — applied IN THE ORDER GIVEN, repeats allowed (ump/mump/rsp/mwp: the With…Paths spellings)
read opts:  rm=<mask|nil> inc=<name|nil> uo uo0 bp bp0 rmp=<mask> nop   — likewise
mask: 0 (no paths) or paths a,s,c,f,r,x,fc,fd,fx,p,t,tp separated by commas;
msg: <a>/<s>/<c|->[/<f: -|c:d>/<r: -|n.n.n>[/<p>/<t: -|n>]]
```
-/
namespace ScVerif.C01
open ScVerif.Line

abbrev KV := List (String × String)

/-- `k=v` ↦ (k, v); a bare flag ↦ (flag, "") -/
def parseKV (toks : List String) : Option KV :=
  toks.mapM (fun t => match t.splitOn "=" with
    | [k] => some (k, "")
    | [k, v] => some (k, v)
    | _ => none)

def kvGet (kv : KV) (k : String) : Option String := (kv.find? (·.1 = k)).map (·.2)
def kvHas (kv : KV) (k : String) : Bool := (kvGet kv k).isSome

def parseField? : String → Option Field
  | "a" => some .a | "s" => some .s | "c" => some .c | "f" => some .f | "r" => some .r
  | "x" => some .x | "fc" => some .fc | "fd" => some .fd | "fx" => some .fx
  | "p" => some .p | "t" => some .t | "tp" => some .tp | _ => none

def parseMask? (s : String) : Option Mask :=
  if s = "0" then some [] else (s.splitOn ",").mapM parseField?

/-- nested message `-` (absent) or `c:d` -/
def parseForeign? (s : String) : Option (Option (Int × Int)) :=
  if s = "-" then some none
  else match s.splitOn ":" with
    | [c, d] => do
      let cv ← parseInt? c
      let dv ← parseInt? d
      pure (some (cv, dv))
    | _ => none

/-- repeated field `-` (empty) or `n.n.n` -/
def parseRep? (s : String) : Option (List Int) :=
  if s = "-" then some [] else (s.splitOn ".").mapM parseInt?

/-- `a/s/c`, `a/s/c/f/r` or `a/s/c/f/r/p/t` (t: `-` or the tween's progress) -/
def parseMsg? (s : String) : Option Msg :=
  match s.splitOn "/" with
  | [a, str, c] => do
    let av ← parseInt? a
    let cv ← if c = "-" then some none else (parseInt? c).map some
    pure { a := av, s := str, c := cv }
  | [a, str, c, f, r] => do
    let av ← parseInt? a
    let cv ← if c = "-" then some none else (parseInt? c).map some
    let fv ← parseForeign? f
    let rv ← parseRep? r
    pure { a := av, s := str, c := cv, f := fv, r := rv }
  | [a, str, c, f, r, p, t] => do
    let av ← parseInt? a
    let cv ← if c = "-" then some none else (parseInt? c).map some
    let fv ← parseForeign? f
    let rv ← parseRep? r
    let pv ← parseInt? p
    let tv ← if t = "-" then some none else (parseInt? t).map some
    pure { a := av, s := str, c := cv, f := fv, r := rv, p := pv, t := tv }
  | _ => none

/-- optional key whose value must parse when present -/
def optKey {α : Type} (kv : KV) (k : String) (p : String → Option α) : Option (Option α) :=
  match kvGet kv k with
  | none => some none
  | some v => (p v).map some

def parseMaskOrNil? (s : String) : Option (Option Mask) :=
  if s = "nil" then some none else (parseMask? s).map some

/-- one write-option token (`id=`/`msg=` are the call's arguments, not options) -/
def parseWOpt? : String × String → Option (List (WOpt Msg Mask))
  | ("id", _) => some []
  | ("msg", _) => some []
  | ("wt", v) => (parseInt? v).map fun t => [.writeTime t]
  | ("um", v) => (parseMaskOrNil? v).map fun m => [.updateMask m]
  | ("mum", v) => (parseMask? v).map fun m => [.moreUpdateMask m]
  | ("rs", v) => (parseMaskOrNil? v).map fun m => [.resetMask m]
  | ("ev", v) => if v = "nil" then some [.expectedValue none] else (parseMsg? v).map fun m => [.expectedValue (some m)]
  | ("xa", _) => some [.expectAbsent]
  | ("chk", v) => if v = "nil" then some [.noExpectedCheck] else (namedCheck v).map fun f => [.expectedCheck f]
  | ("am", _) => some [.allowMissing true]
  | ("am0", _) => some [.allowMissing false]
  | ("bf", v) => if v = "nil" then some [.noBefore] else (namedBefore v).map fun f => [.before f]
  | ("af", v) => if v = "nil" then some [.noAfter] else (namedAfter v).map fun f => [.after f]
  | ("nw", _) => some [.allFieldsWritable]
  | ("mw", v) => (parseMask? v).map fun m => [.moreWritable m]
  | ("cia", _) => some [.createIfAbsent]
  | ("ccb", _) => some [.createdCallback]
  | ("ccb0", _) => some [.noCreatedCallback]
  | ("icb0", _) => some [.noIDCallback]
  | ("gid", _) => some [.genIDIfAbsent]
  | ("icb", _) => some [.idCallback]
  -- the same options spelled with paths, and `EmptyWriteOption{}`
  | ("ump", v) => (parseMask? v).map fun m => [.updatePaths m]
  | ("mump", v) => (parseMask? v).map fun m => [.moreUpdatePaths m]
  | ("rsp", v) => (parseMask? v).map fun m => [.resetPaths m]
  | ("mwp", v) => (parseMask? v).map fun m => [.moreWritablePaths m]
  | ("nop", _) => some [.empty]
  | _ => none

/-- the option tokens of a write, IN THE ORDER GIVEN (repeats allowed) -/
def parseWriteOpts? (kv : KV) : Option (List (WOpt Msg Mask)) := (kv.mapM parseWOpt?).map List.flatten

def parseWriteReq? (kv : KV) : Option (WriteReq Msg Mask) :=
  (parseWriteOpts? kv).map (computeWriteConfig flatOps (· ++ ·))

def parseROpt? : String × String → Option (List (ROpt Msg Mask))
  | ("id", _) => some []
  | ("rm", v) => (parseMaskOrNil? v).map fun m => [.readMask m]
  | ("inc", v) => if v = "nil" then some [.incl none] else (namedInclude v).map fun f => [.incl (some f)]
  | ("uo", _) => some [.other]
  | ("uo0", _) => some [.other]
  | ("bp", _) => some [.other]
  | ("bp0", _) => some [.other]
  | ("rmp", v) => (parseMask? v).map fun m => [.readPaths m]
  | ("nop", _) => some [.other]
  | _ => none

def parseReadOpts? (kv : KV) : Option (List (ROpt Msg Mask)) := (kv.mapM parseROpt?).map List.flatten

def parseReadReq? (kv : KV) : Option (ReadReq Msg Mask) := (parseReadOpts? kv).map computeReadConfig

def parseRng? (s : String) : Option (List Nat) :=
  if s = "" then some [] else (s.splitOn ",").mapM parseNat?

def parseInit? (s : String) : Option (List (String × Msg)) :=
  if s = "" then some []
  else (s.splitOn ";").mapM (fun rec => match rec.splitOn "~" with
    | [id, m] => (parseMsg? m).map (fun v => (id, v))
    | _ => none)

abbrev FCfg := Cfg Msg Mask (List Nat)

def parseCfg? (kv : KV) : Option FCfg := do
  let w ← optKey kv "W" parseMask?
  let ic ← optKey kv "icpt" namedIcpt
  let tick ← optKey kv "tick" parseNat?
  pure { ops := flatOps, writable := w, icpt := ic, tick := ((tick.getD 1 : Nat) : Int), gen := flatGen }

/-- one resource option `k:v` of a `res=` list (`WithWritablePaths` is `WithWritableFields` on the mask of
the paths; clock, rng, equivalence and `EmptyOption` do not concern the calls modelled here) -/
def parseResOpt? (t : String) : Option (ResOpt Msg Mask) :=
  match t.splitOn ":" with
  | [] => none
  | k :: rest =>
    let v := ":".intercalate rest
    match k with
    | "W" => (parseMaskOrNil? v).map .writable
    | "Wp" => (parseMask? v).map fun m => .writable (some m)
    | "icpt" => if v = "nil" then some (.icpt none) else (namedIcpt v).map fun f => .icpt (some f)
    | "init" => if v = "nil" then some (.initialValue none) else (parseMsg? v).map fun m => .initialValue (some m)
    | "rec" => match v.splitOn "~" with
      | [id, m] => (parseMsg? m).map fun mv => .initialRecord id mv
      | _ => none
    | "eqv" => some .other
    | "nop" => some .other
    | "clk" => some .other
    | "rng" => some .other
    | _ => none

/-- `res=<opt>|<opt>|…`: the resource options IN THE ORDER GIVEN (repeats allowed) -/
def parseResOpts? (s : String) : Option (List (ResOpt Msg Mask)) :=
  if s = "" then some [] else (s.splitOn "|").mapM parseResOpt?

/-! ### printing -/

def showOptInt : Option Int → String
  | none => "-"
  | some n => toString n

def showMsg (m : Msg) : String :=
  let base := s!"{m.a}/{m.s}/{showOptInt m.c}"
  let f := match m.f with | none => "-" | some (c, d) => s!"{c}:{d}"
  let r := if m.r.isEmpty then "-" else ".".intercalate (m.r.map toString)
  if m.p ≠ 0 || m.t.isSome then s!"{base}/{f}/{r}/{m.p}/{showOptInt m.t}"
  else if m.f.isNone && m.r.isEmpty then base
  else s!"{base}/{f}/{r}"

def showOptMsg : Option Msg → String
  | none => "nil"
  | some m => showMsg m

def showErr : Option Code → String
  | none => "-"
  | some c => c.name

def Kind.name : Kind → String
  | .add => "ADD" | .update => "UPDATE" | .remove => "REMOVE"

def showFlags (seed last : Bool) : String :=
  (if seed then "S" else "") ++ (if last then "L" else "")

def showCEvent (e : CEvent Msg) : String :=
  s!"{e.id}|{e.time}|{e.kind.name}|{showOptMsg e.old}|{showOptMsg e.new}|{showFlags e.seed e.lastSeed}"

def showList (xs : List String) : String := "[" ++ ";".intercalate xs ++ "]"

def showCState (s : CState Msg (List Nat)) : String :=
  let items := (sortById s.items).map (fun kv => s!"{kv.1}~{showMsg kv.2.body}@{kv.2.time}")
  s!"st={showList items} clk={s.clock}"

def showCOut (o : COut Msg) : String :=
  s!"val={showOptMsg o.val} err={showErr o.err} ev={showList (o.events.map showCEvent)} " ++
  s!"ids={showList o.idCalls} created={o.createdCalls}"

def showVEvent (e : VEvent Msg) : String := s!"{showMsg e.value}|{e.time}"

def showVState (s : VState Msg) : String :=
  match s.value with
  | none => s!"st=nil@? clk={s.clock}"   -- no seed is sent for an absent value: its change time is not observable
  | some m => s!"st={showMsg m}@{s.changeTime} clk={s.clock}"

def showVOut (o : VOut Msg) : String :=
  s!"val={showOptMsg o.val} err={showErr o.err} ev={showList (o.events.map showVEvent)}"

/-! ### the handler -/

inductive DrvState
  | none
  | coll (cfg : FCfg) (s : CState Msg (List Nat))
  | val (cfg : FCfg) (s : VState Msg)

/-- a comma-separated list of real path strings (empty text: no paths) -/
def parsePaths (s : String) : List Paths.Path :=
  if s = "" then [] else (s.splitOn ",").map String.toList

def handleOpt (st : DrvState) (toks : List String) : Option (DrvState × String) :=
  match toks with
  | [] => none
  | op :: rest => do
    let kv ← parseKV rest
    match op, st with
    | "wnp", _ =>
      let ps ← (kvGet kv "paths").map parsePaths
      let kept := Paths.withoutNestedPaths ps
      pure (st, if kept.isEmpty then "-" else ",".intercalate (kept.map String.ofList))
    | "sel", _ =>
      let ps ← (kvGet kv "paths").map parsePaths
      let leaf ← kvGet kv "leaf"
      pure (st, toString (Paths.selects ps leaf.toList))
    | "iwp", _ =>
      let w ← (kvGet kv "w").map parsePaths
      let path ← kvGet kv "path"
      pure (st, toString (Paths.isWritablePath path.toList w))
    | "newc", _ =>
      let cfg ← parseCfg? kv
      let rng ← parseRng? ((kvGet kv "rng").getD "")
      match kvGet kv "res" with
      | some r =>
        -- constructed from an ordered resource option list (which then decides W / icpt / the records)
        let opts ← parseResOpts? r
        match Coll.newO cfg opts rng with
        | some (cfg', s) => pure (.coll cfg' s, "ok")
        | none => pure (.none, "panic")
      | none =>
        -- W / icpt / init given as a record: the constructor on the option list they stand for
        let init ← parseInit? ((kvGet kv "init").getD "")
        let opts : List (ResOpt Msg Mask) :=
          [.writable cfg.writable, .icpt cfg.icpt] ++ init.map (fun kv => .initialRecord kv.1 kv.2)
        match Coll.newO cfg opts rng with
        | some (cfg', s) => pure (.coll cfg' s, "ok")
        | none => pure (.none, "panic")
    | "newv", _ =>
      let cfg ← parseCfg? kv
      match kvGet kv "res" with
      | some r =>
        let opts ← parseResOpts? r
        match Value.newO cfg opts with
        | some (cfg', s) => pure (.val cfg' s, "ok")
        | none => pure (.none, "panic")
      | none =>
        let init ← optKey kv "init" parseMsg?
        pure (.val cfg (Value.init cfg init), "ok")
    | "upd", .coll cfg s =>
      let id ← kvGet kv "id"
      let msg ← (kvGet kv "msg").bind parseMsg?
      let opts ← parseWriteOpts? kv
      let (o, s') := Coll.updateO (· ++ ·) cfg s id msg opts
      pure (.coll cfg s', showCOut o ++ " | " ++ showCState s')
    | "add", .coll cfg s =>
      let id ← kvGet kv "id"
      let msg ← (kvGet kv "msg").bind parseMsg?
      let opts ← parseWriteOpts? kv
      let (o, s') := Coll.addO (· ++ ·) cfg s id msg opts
      pure (.coll cfg s', showCOut o ++ " | " ++ showCState s')
    | "del", .coll cfg s =>
      let id ← kvGet kv "id"
      let opts ← parseWriteOpts? kv
      let (o, s') := Coll.deleteO (· ++ ·) cfg s id opts
      pure (.coll cfg s', showCOut o ++ " | " ++ showCState s')
    | "get", .coll cfg s =>
      let id ← kvGet kv "id"
      let opts ← parseReadOpts? kv
      pure (st, showOptMsg (Coll.getO cfg s id opts))
    | "list", .coll cfg s =>
      let opts ← parseReadOpts? kv
      pure (st, showList ((Coll.listO cfg s opts).map showMsg))
    | "vset", .val cfg s =>
      let msg ← (kvGet kv "msg").bind parseMsg?
      let opts ← parseWriteOpts? kv
      let (o, s') := Value.setO (· ++ ·) cfg s msg opts
      pure (.val cfg s', showVOut o ++ " | " ++ showVState s')
    | "vget", .val cfg s =>
      let opts ← parseReadOpts? kv
      pure (st, showOptMsg (Value.getO cfg s opts))
    | _, _ => none

def handleS (st : DrvState) (toks : List String) : DrvState × String :=
  match handleOpt st toks with
  | some r => r
  | none => (st, "!bad-op")

end ScVerif.C01
