import ScVerif.Base.Line
/-! Driver handler for C01 (stub: replaced by the property's owner). -/
namespace ScVerif.C01

def handle (_toks : List String) : String := "!bad-op"

end ScVerif.C01
