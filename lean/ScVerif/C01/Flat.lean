import ScVerif.C01.Model
/-!
# C01 — the concrete message used by the driver

`Msg` is the disjoint union of the modelled fields of two real message types (a script of the harness
uses the fields of ONE of them; an all-default message stands for the zero message of either).
`internal/testproto.TestAllTypes` restricted to five top-level fields of all the shapes
`proto.Merge` treats differently:

* `a` = `default_int32`  (scalar, implicit presence: populated iff ≠ 0)
* `s` = `default_string` (scalar, implicit presence: populated iff ≠ "")
* `c` = `optional_int32` (scalar, explicit presence)
* `f` = `default_foreign_message` (a nested message `ForeignMessage{c, d int32}`; present or absent)
* `r` = `repeated_int32` (a repeated field; populated iff non-empty)

and `traits.OpenClosePosition` (sc-api) restricted to two fields whose NAMES are related: one is a textual
prefix of the other, at the same level (every place where `pkg/masks` decides "this path lies inside that
one" from the path strings has to tell them apart):

* `p` = `open_percent` (scalar, implicit presence; the harness keeps the float32 integral and small)
* `t` = `open_percent_tween` (a nested message `types.Tween`, of which `progress` is modelled)

Under an update mask that names them, `proto.Merge` REPLACES a scalar, MERGES a nested message
field by field (sub-fields populated in the source overwrite, the others are kept) and APPENDS to a
repeated field; with no update mask the destination (or its writable fields) is cleared first, so
everything is replaced; a field named by the mask and not populated in the source is cleared.

Masks are lists of paths: the five top-level paths, `x` (a path that is not a field of the message)
and the NESTED paths `fc` = `default_foreign_message.c`, `fd` = `default_foreign_message.d`, `fx` =
`default_foreign_message.no_such_field` (so masks can name a parent, its children, both, or an unknown
child), and for the second type `p`, `t`, `tp` = `open_percent_tween.progress`, with duplicates and order kept as given.  `flatOps` follows
`pkg/masks` (`FieldUpdater.Validate/Merge`, `pruneEmpty`, `isWritablePath`, `nestedMask`,
`ResponseFilter.FilterClone`), `fieldmaskpb.{IsValid,Union}` and `fmutils` phase by phase, specialised to
such masks.  (Masks in general depth are C05's subject.)

Integers are unbounded here; the harness keeps |values| far below 2^31 so `int32` never wraps.
-/
namespace ScVerif.C01

inductive Field | a | s | c | f | r | x | fc | fd | fx | p | t | tp
  deriving DecidableEq, Repr

abbrev Mask := List Field

structure Msg where
  a : Int
  s : String
  c : Option Int
  f : Option (Int × Int) := none
  r : List Int := []
  p : Int := 0
  t : Option Int := none
  deriving DecidableEq, Repr

namespace Flat

def zero : Msg := { a := 0, s := "", c := none }

/-- `protoreflect.Message.Has` (`fc`/`fd`: of the nested message, false when it is absent) -/
def has (m : Msg) : Field → Bool
  | .a => m.a ≠ 0
  | .s => m.s ≠ ""
  | .c => m.c.isSome
  | .f => m.f.isSome
  | .r => !m.r.isEmpty
  | .x => false
  | .fc => match m.f with | some (c, _) => c ≠ 0 | none => false
  | .fd => match m.f with | some (_, d) => d ≠ 0 | none => false
  | .fx => false
  | .p => m.p ≠ 0
  | .t => m.t.isSome
  | .tp => match m.t with | some g => g ≠ 0 | none => false

/-- `protoreflect.Message.Clear` (`fc`/`fd`: on the nested message when it is present) -/
def clear (m : Msg) : Field → Msg
  | .a => { m with a := 0 }
  | .s => { m with s := "" }
  | .c => { m with c := none }
  | .f => { m with f := none }
  | .r => { m with r := [] }
  | .x => m
  | .fc => { m with f := m.f.map (fun p => (0, p.2)) }
  | .fd => { m with f := m.f.map (fun p => (p.1, 0)) }
  | .fx => m
  | .p => { m with p := 0 }
  | .t => { m with t := none }
  | .tp => { m with t := m.t.map (fun _ => 0) }

/-- `proto.Merge` of a `ForeignMessage`: populated (non-zero) sub-fields of the source overwrite -/
def mergeForeign (d s : Int × Int) : Int × Int :=
  (if s.1 ≠ 0 then s.1 else d.1, if s.2 ≠ 0 then s.2 else d.2)

/-- `proto.Merge` for one populated top-level field `f` of `src`: a scalar is overwritten, a nested
message is merged into (created if absent), a repeated field is appended to -/
def copy (dst src : Msg) : Field → Msg
  | .a => { dst with a := src.a }
  | .s => { dst with s := src.s }
  | .c => { dst with c := src.c }
  | .f => { dst with f := src.f.map (mergeForeign (dst.f.getD (0, 0))) }
  | .r => { dst with r := dst.r ++ src.r }
  | .p => { dst with p := src.p }
  | .t => { dst with t := src.t.map (fun g => if g ≠ 0 then g else dst.t.getD 0) }
  | _ => dst

/-- the top-level fields -/
def fields : List Field := [.a, .s, .c, .f, .r, .p, .t]

/-- the top-level fields other than the nested messages -/
def plainFields : List Field := [.a, .s, .c, .r, .p]

/-- `FieldMask.IsValid(msg)` -/
def isValid (m : Mask) : Bool := m.all (fun q => q ≠ .x && q ≠ .fx)

/-- `normalizePaths`: sorted, duplicate free, and a path that lies inside another path of the list is
dropped (`f.c` next to `f`, `t.progress` next to `t` — but not `t` next to `p`, whose name merely starts
with `p`'s). -/
def normalize (m : Mask) : Mask :=
  [Field.f, .fc, .fd, .fx, .a, .s, .x, .p, .t, .tp, .c, .r].filter
    (fun q => m.contains q && !((q = .fc || q = .fd || q = .fx) && m.contains .f) && !(q = .tp && m.contains .t))

/-- `fieldmaskpb.Union` -/
def union (w : Mask) (more : Option Mask) : Mask := normalize (w ++ more.getD [])

/-- How a mask selects the nested message field, as `masks.nestedMask` builds it (a path inside
another path of the list adds nothing: `f` next to `f.c` selects the whole of `f`): not at all, as a
whole, or some of its sub-fields. -/
inductive FSel | no | whole | part (c d : Bool)
  deriving DecidableEq, Repr

def fsel (mask : Mask) : FSel :=
  if mask.contains .f then .whole
  else if mask.contains .fc || mask.contains .fd || mask.contains .fx then
    .part (mask.contains .fc) (mask.contains .fd)
  else .no

/-- the same for the second nested message (`open_percent_tween`; one modelled sub-field) -/
inductive TSel | no | whole | part
  deriving DecidableEq, Repr

def tsel (mask : Mask) : TSel :=
  if mask.contains .t then .whole else if mask.contains .tp then .part else .no

/-- `fmutils.NestedMask.Filter` / `masks.filterMessage`: an empty mask keeps everything; a partly
selected nested message keeps the selected sub-fields (and stays present). -/
def nmFilter (mask : Mask) (m : Msg) : Msg :=
  if mask.isEmpty then m
  else
    let m := plainFields.foldl (fun acc fld => if mask.contains fld then acc else clear acc fld) m
    let m := match fsel mask with
      | .no => clear m .f
      | .whole => m
      | .part c d => (if d then id else (clear · .fd)) ((if c then id else (clear · .fc)) m)
    match tsel mask with
    | .no => clear m .t
    | _ => m

/-- `fmutils.NestedMask.Prune` -/
def nmPrune (mask : Mask) (m : Msg) : Msg :=
  let m := plainFields.foldl (fun acc fld => if mask.contains fld then clear acc fld else acc) m
  let m := match fsel mask with
    | .no => m
    | .whole => clear m .f
    | .part c d => (if d then (clear · .fd) else id) ((if c then (clear · .fc) else id) m)
  match tsel mask with
  | .no => m
  | .whole => clear m .t
  | .part => clear m .tp

/-- `proto.Merge(dst, src)`: populated fields of `src` overwrite / merge / append. -/
def protoMerge (dst src : Msg) : Msg :=
  fields.foldl (fun acc fld => if has src fld then copy acc src fld else acc) dst

/-- `masks.pruneEmpty(dst, src, mask)`: a populated field of `dst` the mask mentions and `src` does not
populate is cleared; for a partly mentioned nested message only the mentioned sub-fields are (those
`src` does not populate, all of them when `src` lacks the message). -/
def pruneEmpty (dst src : Msg) (mask : Mask) : Msg :=
  let dst := plainFields.foldl
    (fun acc fld => if has acc fld && mask.contains fld && !(has src fld) then clear acc fld else acc) dst
  let sub (sel : Bool) (fld : Field) (acc : Msg) : Msg :=
    if sel && has acc fld && !(has src fld) then clear acc fld else acc
  let dst := match fsel mask with
    | .no => dst
    | .whole => if has dst .f && !(has src .f) then clear dst .f else dst
    | .part c d => sub d .fd (sub c .fc dst)
  match tsel mask with
  | .no => dst
  | .whole => if has dst .t && !(has src .t) then clear dst .t else dst
  | .part => sub true .tp dst

/-- `masks.isWritablePath`: the path is one of the writable paths or lies inside one of them -/
def isWritablePath (w : Mask) (q : Field) : Bool :=
  w.contains q || ((q = .fc || q = .fd || q = .fx) && w.contains .f) || (q = .tp && w.contains .t)

/-- `FieldUpdater.Validate` -/
def validate (u : Upd Mask) (_msg : Msg) : Option Code :=
  let updErr : Option Code :=
    match u.update with
    | none => none
    | some m =>
      if !(isValid m) then some .invalidArgument
      else match u.writable with
        | none => none
        | some w =>
          -- `isWritablePath` for every update path (repo 4d3ae38; duplicates of a writable path pass)
          if !(m.all (isWritablePath w)) then some .invalidArgument else none
  match updErr with
  | some e => some e
  | none =>
    match u.reset with
    | none => none
    | some r => if !(isValid r) then some .internal else none

/-- `FieldUpdater.Merge(dst, src)` -/
def merge (u : Upd Mask) (dst src : Msg) : Msg :=
  if (match u.writable with | some w => w.isEmpty | none => false) then
    -- nothing is writable: only the reset mask applies, unless the update mask is empty (repo 70b9b73)
    if (match u.update with | some m => m.isEmpty | none => false) then dst
    else match u.reset with
      | some r => nmPrune r dst
      | none => dst
  else
    -- only allow writing writable fields by resetting non-writable fields in src
    let src := match u.writable with | some w => nmFilter w src | none => src
    let go (dst : Msg) (nested : Mask) : Msg :=
      let src := nmFilter nested src
      let dst := protoMerge dst src
      let dst := pruneEmpty dst src nested
      match u.reset with
      | some r => nmPrune r dst
      | none => dst
    match u.update with
    | none =>
      match u.writable with
      | none => go zero []          -- proto.Reset(dst)
      | some w => go (nmPrune w dst) []
    | some m => if m.isEmpty then dst else go dst m

/-- `ResponseFilter.FilterClone` -/
def filter (mask : Option Mask) (m : Msg) : Msg :=
  match mask with
  | none => m
  | some k => if k.isEmpty then zero else nmFilter k m

end Flat

def flatOps : MsgOps Msg Mask where
  zero := Flat.zero
  eq := fun a b => decide (a = b)
  union := Flat.union
  validate := Flat.validate
  merge := Flat.merge
  filter := Flat.filter

/-! ## The scripted rng: a finite list of bytes; reads past the end leave zero bytes. -/

def b64alphabet : List Char :=
  "ABCDEFGHIJKLMNOPQRSTUVWXYZabcdefghijklmnopqrstuvwxyz0123456789-_".toList

def b64char (n : Nat) : Char := b64alphabet.getD (n % 64) 'A'

/-- `base64.RawURLEncoding.EncodeToString` -/
def b64url : List Nat → List Char
  | b0 :: b1 :: b2 :: rest =>
    b64char (b0 / 4) :: b64char ((b0 % 4) * 16 + b1 / 16) :: b64char ((b1 % 16) * 4 + b2 / 64) ::
      b64char (b2 % 64) :: b64url rest
  | [b0, b1] => [b64char (b0 / 4), b64char ((b0 % 4) * 16 + b1 / 16), b64char ((b1 % 16) * 4)]
  | [b0] => [b64char (b0 / 4), b64char ((b0 % 4) * 16)]
  | [] => []

/-- candidate `i`: `r := make([]byte, 6+i); rng.Read(r); base64url(r)` -/
def flatGen (rng : List Nat) (i : Nat) : String × List Nat :=
  let n := 6 + i
  let got := rng.take n
  let bytes := got ++ List.replicate (n - got.length) 0
  (String.ofList (b64url bytes), rng.drop n)

/-! ## The closed family of named callbacks shared with the harness -/

def optA (o : Option Msg) : Int := match o with | some m => m.a | none => 0

def namedBefore : String → Option (Option Msg → Msg → Msg)
  | "addA" => some (fun old v => { v with a := v.a + optA old })
  | "bumpA" => some (fun _ v => { v with a := v.a + 1 })
  | "copyC" => some (fun old v => match old with | some o => { v with c := o.c } | none => v)
  | _ => none

def namedAfter : String → Option (Option Msg → Msg → Msg)
  | "stampC" => some (fun old d => { d with c := some (optA old + d.a) })
  | "markS" => some (fun old d => if optA old ≠ d.a then { d with s := "chg" } else d)
  | "clearC" => some (fun _ d => { d with c := none })
  | _ => none

def codeOfName : String → Option Code
  | "Canceled" => some .canceled | "Unknown" => some .unknown
  | "InvalidArgument" => some .invalidArgument | "DeadlineExceeded" => some .deadlineExceeded
  | "NotFound" => some .notFound | "AlreadyExists" => some .alreadyExists
  | "PermissionDenied" => some .permissionDenied | "ResourceExhausted" => some .resourceExhausted
  | "FailedPrecondition" => some .failedPrecondition | "Aborted" => some .aborted
  | "OutOfRange" => some .outOfRange | "Unimplemented" => some .unimplemented
  | "Internal" => some .internal | "Unavailable" => some .unavailable
  | "DataLoss" => some .dataLoss | "Unauthenticated" => some .unauthenticated
  | _ => none

def Code.name : Code → String
  | .canceled => "Canceled" | .unknown => "Unknown" | .invalidArgument => "InvalidArgument"
  | .deadlineExceeded => "DeadlineExceeded" | .notFound => "NotFound" | .alreadyExists => "AlreadyExists"
  | .permissionDenied => "PermissionDenied" | .resourceExhausted => "ResourceExhausted"
  | .failedPrecondition => "FailedPrecondition" | .aborted => "Aborted" | .outOfRange => "OutOfRange"
  | .unimplemented => "Unimplemented" | .internal => "Internal" | .unavailable => "Unavailable"
  | .dataLoss => "DataLoss" | .unauthenticated => "Unauthenticated"

/-- `aEq:<n>` (FailedPrecondition unless old.a = n), `fail:<Code>` (always that code; a plain Go
error is `Unknown`), `nonNil` (NotFound when there is no old message), `sEmpty`
(FailedPrecondition unless old.s = ""). -/
def namedCheck (name : String) : Option (Option Msg → Option Code) :=
  match name.splitOn ":" with
  | ["aEq", n] => n.toInt?.map (fun k old => if optA old = k then none else some .failedPrecondition)
  | ["fail", c] => (codeOfName c).map (fun code _ => some code)
  | ["nonNil"] => some (fun old => if old.isSome then none else some .notFound)
  | ["sEmpty"] => some (fun old => if (match old with | some m => m.s | none => "") = "" then none
                                   else some .failedPrecondition)
  | _ => none

/-- ASCII upper-case letters and their lower-case forms -/
def lowerTable : List (Char × Char) :=
  "ABCDEFGHIJKLMNOPQRSTUVWXYZ".toList.zip "abcdefghijklmnopqrstuvwxyz".toList

/-- lower-case an ASCII letter, leave everything else alone -/
def lowerChar (ch : Char) : Char := (lowerTable.lookup ch).getD ch

def lowerStr (s : String) : String := String.ofList (s.toList.map lowerChar)

/-- `dash`: prepend "-" (not idempotent, never empty: id generation can never trigger) -/
def dashStr (s : String) : String := "-" ++ s
/-- `first`: keep the first character (idempotent, many ids collide) -/
def firstStr (s : String) : String := String.ofList (s.toList.take 1)
/-- `dup`: double the id (maps "" to "", NOT idempotent) -/
def dupStr (s : String) : String := s ++ s

def namedIcpt : String → Option (String → String)
  | "lower" => some lowerStr
  | "dash" => some dashStr
  | "first" => some firstStr
  | "dup" => some dupStr
  | _ => none

def namedInclude : String → Option (String → Msg → Bool)
  | "aPos" => some (fun _ m => decide (m.a > 0))
  | "idLtB" => some (fun id _ => decide (id < "b"))
  | "sEmpty" => some (fun _ m => m.s == "")
  | _ => none

end ScVerif.C01
