/-!
# C01 — the path strings of a field mask (`pkg/masks/paths.go`, `isWritablePath` of `update.go`)

Every update mask, reset mask, writable-fields mask and read mask of `Value`/`Collection` goes through
`masks.nestedMask`, whose pre-pass `withoutNestedPaths` decides FROM THE PATH STRINGS which paths lie
inside another path of the list; `FieldUpdater.Validate` decides the same way (`isWritablePath`) whether
an update path lies inside a writable path.  Both tests are `strings.HasPrefix(p, q+".")`.

A path string is a `List Char` here (the driver converts).  `join` builds the string of a list of
segments (field names); the lemmas of this file relate the string test to the segment lists.
-/
namespace ScVerif.C01.Paths

abbrev Path := List Char
abbrev Seg := List Char

/-- `strings.HasPrefix(p, q+".")`: the test of `withoutNestedPaths` and `isWritablePath` -/
def inside (p q : Path) : Bool := (q ++ ['.']).isPrefixOf p

/-- `withoutNestedPaths(paths)`: for each `p` in order, `nested := ∃ q ∈ paths, HasPrefix(p, q+".")`;
`p` is appended to the result unless nested. -/
def withoutNestedPaths (paths : List Path) : List Path :=
  paths.filter (fun p => !paths.any (fun q => inside p q))

/-- `isWritablePath(path, writable)` -/
def isWritablePath (path : Path) (writable : List Path) : Bool :=
  writable.any (fun w => path == w || inside path w)

/-- what `fmutils.NestedMaskFromPaths(withoutNestedPaths(paths))` selects, leaf by leaf: a leaf field is
selected (kept by `Filter`, cleared by `Prune`) iff one of the remaining paths is the leaf's own path or a
path the leaf lies inside.  (fmutils builds a tree of the paths; with no path inside another one left, the
leaves of that tree are the paths.) -/
def selects (paths : List Path) (leaf : Path) : Bool :=
  (withoutNestedPaths paths).any (fun p => leaf == p || inside leaf p)

/-- the variant that compares lengths and tests a bare prefix (no `.`): what the test must NOT be -/
def insideBare (p q : Path) : Bool := decide (q.length < p.length) && q.isPrefixOf p

def withoutNestedPathsBare (paths : List Path) : List Path :=
  paths.filter (fun p => !paths.any (fun q => insideBare p q))

/-! ## segments -/

/-- `.s1.s2…` -/
def tailJoin (segs : List Seg) : Path := segs.flatMap (fun s => '.' :: s)

/-- the path string of a list of segments: `s0.s1.s2…` (the empty list gives the empty string) -/
def join : List Seg → Path
  | [] => []
  | s :: rest => s ++ tailJoin rest

/-- no segment contains a `.` -/
def DotFree (segs : List Seg) : Prop := ∀ s ∈ segs, '.' ∉ s

/-- `qs` is a proper prefix of `ps`, as lists of segments -/
def ProperPrefix (qs ps : List Seg) : Prop := ∃ r, r ≠ [] ∧ ps = qs ++ r

instance (qs ps : List Seg) : Decidable (ProperPrefix qs ps) :=
  decidable_of_iff (qs.isPrefixOf ps = true ∧ qs.length < ps.length) (by
    rw [List.isPrefixOf_iff_prefix]
    constructor
    · rintro ⟨⟨r, rfl⟩, hl⟩
      refine ⟨r, ?_, rfl⟩
      rintro rfl
      simp at hl
    · rintro ⟨r, hr, rfl⟩
      refine ⟨⟨r, rfl⟩, ?_⟩
      cases r with
      | nil => exact absurd rfl hr
      | cons a l => simp)

theorem tailJoin_nil : tailJoin [] = [] := rfl
theorem tailJoin_cons (s : Seg) (rest : List Seg) : tailJoin (s :: rest) = '.' :: (s ++ tailJoin rest) := by
  simp [tailJoin]

/-- a `tailJoin` is empty or starts with a `.` -/
theorem tailJoin_shape (segs : List Seg) : tailJoin segs = [] ∨ ∃ y, tailJoin segs = '.' :: y := by
  cases segs with
  | nil => exact Or.inl rfl
  | cons s rest => exact Or.inr ⟨_, tailJoin_cons s rest⟩

/-- dot-free `u`, `t` in front of a continuation that starts with `.` / is empty or starts with `.`:
the string prefix test splits at the segment boundary -/
theorem seg_prefix (u t : Seg) (x' y : Path) (hu : '.' ∉ u) (ht : '.' ∉ t)
    (hy : y = [] ∨ ∃ y', y = '.' :: y') :
    (u ++ '.' :: x') <+: (t ++ y) ↔ u = t ∧ ('.' :: x') <+: y := by
  induction u generalizing t with
  | nil =>
    cases t with
    | nil => simp
    | cons c t' =>
      have hc : c ≠ '.' := fun h => ht (by simp [h])
      simp only [List.nil_append, List.cons_append, List.cons_prefix_cons]
      constructor
      · rintro ⟨h, _⟩; exact absurd h.symm hc
      · rintro ⟨h, _⟩; exact absurd h (by simp)
  | cons a u' ih =>
    have ha : a ≠ '.' := fun h => hu (by simp [h])
    have hu' : '.' ∉ u' := fun h => hu (by simp [h])
    cases t with
    | nil =>
      simp only [List.cons_append, List.nil_append]
      constructor
      · intro h
        rcases hy with rfl | ⟨y', rfl⟩
        · simp at h
        · rw [List.cons_prefix_cons] at h
          exact absurd h.1 ha
      · rintro ⟨h, _⟩; exact absurd h (by simp)
    | cons c t' =>
      have ht' : '.' ∉ t' := fun h => ht (by simp [h])
      simp only [List.cons_append, List.cons_prefix_cons, List.cons.injEq]
      rw [ih t' hu' ht']
      constructor
      · rintro ⟨h1, h2, h3⟩; exact ⟨⟨h1, h2⟩, h3⟩
      · rintro ⟨⟨h1, h2⟩, h3⟩; exact ⟨h1, h2, h3⟩

/-- the continuation part: `.q1.q2….` is a string prefix of `.p1.p2…` iff `qs` is a proper prefix of `ps` -/
theorem tail_prefix (qs ps : List Seg) (hq : DotFree qs) (hp : DotFree ps) :
    (tailJoin qs ++ ['.']) <+: tailJoin ps ↔ ProperPrefix qs ps := by
  induction qs generalizing ps with
  | nil =>
    cases ps with
    | nil => simp [tailJoin_nil, ProperPrefix]
    | cons t ps' =>
      simp only [tailJoin_nil, List.nil_append, tailJoin_cons, List.cons_prefix_cons, List.nil_prefix,
        and_self, true_iff]
      exact ⟨t :: ps', by simp, rfl⟩
  | cons u qs' ih =>
    have hu : '.' ∉ u := hq u (by simp)
    have hq' : DotFree qs' := fun s hs => hq s (by simp [hs])
    cases ps with
    | nil =>
      simp only [tailJoin_cons, tailJoin_nil, List.cons_append, List.prefix_nil]
      constructor
      · intro h; exact absurd h (by simp)
      · rintro ⟨r, _, h⟩; simp at h
    | cons t ps' =>
      have ht : '.' ∉ t := hp t (by simp)
      have hp' : DotFree ps' := fun s hs => hp s (by simp [hs])
      simp only [tailJoin_cons, List.cons_append, List.cons_prefix_cons, true_and, List.append_assoc]
      -- the continuation of `u` starts with a `.`
      obtain ⟨x', hx⟩ : ∃ x', tailJoin qs' ++ ['.'] = '.' :: x' := by
        rcases tailJoin_shape qs' with h | ⟨y, h⟩
        · exact ⟨[], by simp [h]⟩
        · exact ⟨y ++ ['.'], by simp [h]⟩
      rw [hx, seg_prefix u t x' (tailJoin ps') hu ht (tailJoin_shape ps'), ← hx, ih ps' hq' hp']
      constructor
      · rintro ⟨rfl, r, hr, rfl⟩; exact ⟨r, hr, rfl⟩
      · rintro ⟨r, hr, h⟩
        simp only [List.cons_append, List.cons.injEq] at h
        exact ⟨h.1.symm, r, hr, h.2⟩

/-- **the string test is the segment test**: for paths made of dot-free segments, `HasPrefix(p, q+".")`
holds exactly when `q`'s segments are a proper prefix of `p`'s. -/
theorem inside_iff (qs ps : List Seg) (hq : DotFree qs) (hp : DotFree ps) (hne : qs ≠ []) :
    inside (join ps) (join qs) = true ↔ ProperPrefix qs ps := by
  unfold inside
  rw [List.isPrefixOf_iff_prefix]
  cases qs with
  | nil => exact absurd rfl hne
  | cons u qs' =>
    have hu : '.' ∉ u := hq u (by simp)
    have hq' : DotFree qs' := fun s hs => hq s (by simp [hs])
    cases ps with
    | nil =>
      simp only [join, List.prefix_nil]
      constructor
      · intro h; simp at h
      · rintro ⟨r, _, h⟩; simp at h
    | cons t ps' =>
      have ht : '.' ∉ t := hp t (by simp)
      have hp' : DotFree ps' := fun s hs => hp s (by simp [hs])
      simp only [join, List.append_assoc]
      obtain ⟨x', hx⟩ : ∃ x', tailJoin qs' ++ ['.'] = '.' :: x' := by
        rcases tailJoin_shape qs' with h | ⟨y, h⟩
        · exact ⟨[], by simp [h]⟩
        · exact ⟨y ++ ['.'], by simp [h]⟩
      rw [hx, seg_prefix u t x' (tailJoin ps') hu ht (tailJoin_shape ps'), ← hx, tail_prefix qs' ps' hq' hp']
      constructor
      · rintro ⟨rfl, r, hr, rfl⟩; exact ⟨r, hr, rfl⟩
      · rintro ⟨r, hr, h⟩
        simp only [List.cons_append, List.cons.injEq] at h
        exact ⟨h.1.symm, r, hr, h.2⟩

/-- a path that lies inside another one contains a `.` -/
theorem inside_has_dot (p q : Path) (h : inside p q = true) : '.' ∈ p := by
  unfold inside at h
  rw [List.isPrefixOf_iff_prefix] at h
  obtain ⟨r, rfl⟩ := h
  simp

end ScVerif.C01.Paths
