import ScVerif.C01.Nested
import ScVerif.C01.NestedColl
import ScVerif.C01.Lemmas
import ScVerif.C01.Flat
/-!
# C01 — property theorems: a write whose own callback calls the same Value again

`Value.setN cfg s msg wr site calls` (`Nested.lean`) is `Value.Set(msg, opts...)` whose expected check /
before / after interceptor (`site`) makes the complete calls `calls` on the same Value, on the calling
goroutine, while the write is between its read and its save (one caller at a time, in a definite order).
All theorems are for EVERY message type and operations, configuration, state (a Value that was never
written included: `s.value = none`), written message, write request, callbacks (arbitrary functions),
callback site and list of nested calls with their own arbitrary options.

Only property theorems and their non-vacuity examples live in this file.
-/
namespace ScVerif.C01
variable {M K R : Type}

/-- A callback that makes no call is an ordinary callback: the write is `Value.Set` of `Model.lean`. -/
theorem C01_nested_none_is_plain (cfg : Cfg M K R) (s : VState M) (msg : M) (wr : WriteReq M K) (site : Site) :
    Value.setN cfg s msg wr site [] = ((Value.set cfg s msg wr).1, (Value.set cfg s msg wr).2, []) := by
  rw [Value.setN_eq]
  unfold Value.set
  cases hv : cfg.ops.validate (fieldUpdater cfg wr) msg with
  | some c => simp [hv]
  | none =>
    have hmid : midV cfg s wr site ([] : List (VOp M K)) = { st := s, results := [] } := by
      unfold midV nestedRunV; split <;> simp [Value.run]
    simp only [hv, hmid, getAndUpdate]
    cases hc : changeFn cfg.ops wr (fieldUpdater cfg wr) msg s.value s.value with
    | error c => simp [eventsOf]
    | ok new =>
      by_cases he : eqOpt cfg.ops s.value s.value = true <;> simp [he, eventsOf]

/-- "A call that fails changes nothing and emits nothing", with nested calls: a failing write returns no
message, and leaves EXACTLY what the calls made from its callback left — the Value they left, the events
they emitted, nothing of its own; and if it did not get as far as the callback, nothing at all. -/
theorem C01_nested_failed_call_frame (cfg : Cfg M K R) (s : VState M) (msg : M) (wr : WriteReq M K)
    (site : Site) (calls : List (VOp M K)) :
    (Value.setN cfg s msg wr site calls).1.err ≠ none →
      (Value.setN cfg s msg wr site calls).1.val = none ∧
      (Value.setN cfg s msg wr site calls).2 =
        (if callbackRuns cfg s msg wr site then ((Value.run cfg s calls).2, (Value.run cfg s calls).1) else (s, [])) ∧
      (Value.setN cfg s msg wr site calls).1.events = eventsOf (Value.setN cfg s msg wr site calls).2.2 := by
  rw [Value.setN_eq]
  unfold callbackRuns
  cases hv : cfg.ops.validate (fieldUpdater cfg wr) msg with
  | some c => simp [eventsOf]
  | none =>
    have hmid : midV cfg s wr site calls =
        if siteReached cfg.ops wr site s.value then { st := (Value.run cfg s calls).2, results := (Value.run cfg s calls).1 }
        else { st := s, results := [] } := by
      unfold midV nestedRunV; simp
    cases hc : changeFn cfg.ops wr (fieldUpdater cfg wr) msg s.value s.value with
    | error c =>
      intro _
      simp only [hmid]
      by_cases hr : siteReached cfg.ops wr site s.value = true <;> simp [hr]
    | ok new =>
      simp only [hmid]
      by_cases hr : siteReached cfg.ops wr site s.value = true <;>
        by_cases he : eqOpt cfg.ops s.value (Value.run cfg s calls).2.value = true <;>
        by_cases he' : eqOpt cfg.ops s.value s.value = true <;> simp [hr, he, he']

/-- No lost update: a write that SUCCEEDS returns and stores the message it computed from the value it
read, and that value is (by `proto.Equal`, absent = absent only) what was stored when it saved — after
whatever its callback's calls did; its events are theirs followed by exactly one of its own. -/
theorem C01_nested_no_lost_update (cfg : Cfg M K R) (s : VState M) (msg : M) (wr : WriteReq M K)
    (site : Site) (calls : List (VOp M K)) :
    (Value.setN cfg s msg wr site calls).1.err = none →
      ∃ new, changeFn cfg.ops wr (fieldUpdater cfg wr) msg s.value s.value = .ok new ∧
        (Value.setN cfg s msg wr site calls).1.val = some new ∧
        (Value.setN cfg s msg wr site calls).2.1.value = some new ∧
        eqOpt cfg.ops s.value
          (if callbackRuns cfg s msg wr site then (Value.run cfg s calls).2.value else s.value) = true ∧
        ∃ t, (Value.setN cfg s msg wr site calls).1.events =
          eventsOf (Value.setN cfg s msg wr site calls).2.2 ++ [{ value := new, time := t }] := by
  rw [Value.setN_eq]
  unfold callbackRuns
  cases hv : cfg.ops.validate (fieldUpdater cfg wr) msg with
  | some c => simp
  | none =>
    have hmid : midV cfg s wr site calls =
        if siteReached cfg.ops wr site s.value then { st := (Value.run cfg s calls).2, results := (Value.run cfg s calls).1 }
        else { st := s, results := [] } := by
      unfold midV nestedRunV; simp
    cases hc : changeFn cfg.ops wr (fieldUpdater cfg wr) msg s.value s.value with
    | error c => simp
    | ok new =>
      simp only [hmid]
      by_cases hr : siteReached cfg.ops wr site s.value = true <;>
        by_cases he : eqOpt cfg.ops s.value (Value.run cfg s calls).2.value = true <;>
        by_cases he' : eqOpt cfg.ops s.value s.value = true <;>
        simp [hr, he, he', updateTimeV] <;> (cases wr.writeTime <;> simp)

/-- The re-validation: if the callback runs, the write would otherwise go through, and the Value its calls
leave is not (by `proto.Equal`) the value the write read, the write fails with Aborted, returns nothing
and leaves the Value and the events of the nested calls, nothing else. -/
theorem C01_nested_changed_value_aborts (cfg : Cfg M K R) (s : VState M) (msg : M) (wr : WriteReq M K)
    (site : Site) (calls : List (VOp M K)) (new : M)
    (hrun : callbackRuns cfg s msg wr site = true)
    (hok : changeFn cfg.ops wr (fieldUpdater cfg wr) msg s.value s.value = .ok new)
    (hchg : eqOpt cfg.ops s.value (Value.run cfg s calls).2.value = false) :
    Value.setN cfg s msg wr site calls =
      ({ val := none, err := some .aborted, events := eventsOf (Value.run cfg s calls).1 },
       (Value.run cfg s calls).2, (Value.run cfg s calls).1) := by
  rw [Value.setN_eq]
  unfold callbackRuns at hrun
  cases hv : cfg.ops.validate (fieldUpdater cfg wr) msg with
  | some c => simp [hv] at hrun
  | none =>
    simp only [hv, Option.isNone_none, Bool.true_and] at hrun
    simp [midV, nestedRunV, hrun, hok, hchg]

/-- The first write of a Value that was never written (no `WithInitialValue`): "no value" is a value like
any other for the re-validation — if a call made from the write's callback stores something, the write is
Aborted and that something stays (the clause seeded change C01-18 broke). -/
theorem C01_nested_first_write_aborts (cfg : Cfg M K R) (s : VState M) (msg : M) (wr : WriteReq M K)
    (site : Site) (calls : List (VOp M K)) (new : M)
    (hnil : s.value = none)
    (hrun : callbackRuns cfg s msg wr site = true)
    (hok : changeFn cfg.ops wr (fieldUpdater cfg wr) msg s.value s.value = .ok new)
    (hset : (Value.run cfg s calls).2.value ≠ none) :
    (Value.setN cfg s msg wr site calls).1.err = some .aborted ∧
    (Value.setN cfg s msg wr site calls).2.1 = (Value.run cfg s calls).2 := by
  have hchg : eqOpt cfg.ops s.value (Value.run cfg s calls).2.value = false := by
    rw [hnil]
    cases h : (Value.run cfg s calls).2.value with
    | none => exact absurd h hset
    | some v => rfl
  rw [C01_nested_changed_value_aborts cfg s msg wr site calls new hrun hok hchg]
  exact ⟨rfl, rfl⟩

/-- A nested write that goes through is the sequential run "the callback's calls, then the write": when
`proto.Equal` decides equality of messages (it does for the data modelled), a successful write with nested
calls leaves the Value, returns the message and emits the events of the plain call sequence
`calls ++ [Set msg]` on the register — nested calls are ordinary calls in a definite order. -/
theorem C01_nested_success_is_sequential (cfg : Cfg M K R) (hrefl : EqRefl cfg.ops)
    (hx : ∀ a b, cfg.ops.eq a b = true → a = b)
    (s : VState M) (msg : M) (wr : WriteReq M K) (site : Site) (calls : List (VOp M K))
    (hrun : callbackRuns cfg s msg wr site = true)
    (hsucc : (Value.setN cfg s msg wr site calls).1.err = none) :
    (Value.run cfg s (calls ++ [.set msg wr])).2 = (Value.setN cfg s msg wr site calls).2.1 ∧
    eventsOf (Value.run cfg s (calls ++ [.set msg wr])).1 = (Value.setN cfg s msg wr site calls).1.events ∧
    ∃ o, (Value.run cfg s (calls ++ [.set msg wr])).1 = (Value.setN cfg s msg wr site calls).2.2 ++ [.wrote o] ∧
      o.val = (Value.setN cfg s msg wr site calls).1.val ∧ o.err = none := by
  have hxo : ∀ a b : Option M, eqOpt cfg.ops a b = true → a = b := by
    intro a b h
    cases a <;> cases b <;> simp_all [eqOpt]
    exact hx _ _ h
  rw [Value.run_append]
  revert hsucc
  rw [Value.setN_eq]
  unfold callbackRuns at hrun
  cases hv : cfg.ops.validate (fieldUpdater cfg wr) msg with
  | some c => simp [hv] at hrun
  | none =>
    simp only [hv, Option.isNone_none, Bool.true_and] at hrun
    simp only [midV, nestedRunV, hrun, ↓reduceIte, List.nil_append]
    cases hc : changeFn cfg.ops wr (fieldUpdater cfg wr) msg s.value s.value with
    | error c => simp
    | ok new =>
      by_cases he : eqOpt cfg.ops s.value (Value.run cfg s calls).2.value = true
      · have hval := hxo _ _ he
        intro _
        have hset : Value.set cfg (Value.run cfg s calls).2 msg wr =
            ({ val := some new, err := none,
               events := [{ value := new, time := (updateTimeV cfg wr { (updateTimeV cfg wr (Value.run cfg s calls).2).2 with value := some new, changeTime := (updateTimeV cfg wr (Value.run cfg s calls).2).1 }).1 }] },
             (updateTimeV cfg wr { (updateTimeV cfg wr (Value.run cfg s calls).2).2 with value := some new, changeTime := (updateTimeV cfg wr (Value.run cfg s calls).2).1 }).2) := by
          unfold Value.set
          simp only [hv, getAndUpdate, ← hval, hc, eqOpt_refl hrefl]
          simp
        simp [Value.run, Value.step, hset, he, eventsOf_append, eventsOf]
      · simp [he]

/-! ### non-vacuity: the hypotheses are satisfiable and the cases occur -/

/-- a never-written Value; the write's before interceptor stores `a = 5` through a nested Set: the write is
Aborted, the nested write's value stays, one event (the nested one) -/
example :
    let cfg : Cfg Msg Mask (List Nat) := { ops := flatOps, gen := flatGen }
    let wr : WriteReq Msg Mask := { before := some (fun _ m => { m with a := m.a + 1 }) }
    let r := Value.setN cfg (Value.init cfg none) { a := 2, s := "", c := none } wr .bf
      [.set { a := 5, s := "", c := none } {}]
    (callbackRuns cfg (Value.init cfg none) { a := 2, s := "", c := none } wr .bf, r.1.err, r.1.val,
      r.2.1.value.map (·.a), r.1.events.map (·.value.a)) = (true, some .aborted, none, some 5, [5]) := by
  decide

/-- the same write when the nested call is a read, or stores what is stored already: it goes through -/
example :
    let cfg : Cfg Msg Mask (List Nat) := { ops := flatOps, gen := flatGen }
    let wr : WriteReq Msg Mask := { before := some (fun _ m => { m with a := m.a + 1 }) }
    let s0 := Value.init cfg (some { a := 5, s := "", c := none })
    ((Value.setN cfg s0 { a := 2, s := "", c := none } wr .bf [.get {}]).1.err,
     (Value.setN cfg s0 { a := 2, s := "", c := none } wr .bf [.set { a := 5, s := "", c := none } {}]).1.err,
     (Value.setN cfg s0 { a := 2, s := "", c := none } wr .bf [.set { a := 5, s := "", c := none } {}]).2.1.value.map (·.a))
      = (none, none, some 3) := by
  decide

/-- `proto.Equal` of the modelled messages is reflexive and decides equality (hypotheses of
`C01_nested_success_is_sequential`) -/
example : EqRefl flatOps ∧ ∀ a b : Msg, flatOps.eq a b = true → a = b := by
  refine ⟨fun m => by simp [flatOps], fun a b h => by simpa [flatOps] using h⟩

/-! ## the same for `Collection.Update` / `Add` (`NestedColl.lean`) -/

/-- A callback that makes no call is an ordinary callback: the write is `Collection.Update` of `Model.lean`. -/
theorem C01_nested_update_none_is_plain (cfg : Cfg M K R) (s : CState M R) (id : String) (msg : M)
    (wr : WriteReq M K) (site : Site) :
    Coll.updateN cfg s id msg wr site [] = ((Coll.update cfg s id msg wr).1, (Coll.update cfg s id msg wr).2, []) := by
  unfold Coll.updateN Coll.update Coll.updateAt
  dsimp only
  cases hv : cfg.ops.validate (fieldUpdater cfg wr) msg with
  | some c => simp
  | none =>
    dsimp only
    have hch : changeFnN cfg.ops wr (fieldUpdater cfg wr) msg site (nestedRunC cfg ([] : List (COp M K))) =
        fun o d (x : UNest M R) => (changeFn cfg.ops wr (fieldUpdater cfg wr) msg o d, x) := by
      funext o d x
      rw [changeFnN_eq, nestedRunC_nil]; simp
    rw [hch, getAndUpdateN_lift]
    dsimp only
    rcases hgau : getAndUpdate cfg.ops (updGet cfg wr) (changeFn cfg.ops wr (fieldUpdater cfg wr) msg) (updSave cfg wr)
      { st := s, id := updKey cfg wr id, created := none, idCalls := [], createdCalls := 0 } with ⟨r, c⟩
    dsimp only
    cases r.err <;> cases r.new <;> simp [eventsOfC]

/-- "A call that fails changes nothing and emits nothing", with nested calls, for `Collection.Update`: a
failing write returns no message and emits no event of its own, and the contents and the clock are EXACTLY
what the calls made from its callback left, started from the contents and clock the write found (`s1`
differs from `s` at most in the rng, which the write's own id generation may have advanced) — or, if the
write did not get as far as the callback, the contents and clock it found. -/
theorem C01_nested_update_failed_call_frame (cfg : Cfg M K R) (s : CState M R) (id : String) (msg : M)
    (wr : WriteReq M K) (site : Site) (calls : List (COp M K)) :
    (Coll.updateN cfg s id msg wr site calls).1.err ≠ none →
      (Coll.updateN cfg s id msg wr site calls).1.val = none ∧
      (Coll.updateN cfg s id msg wr site calls).1.events = eventsOfC (Coll.updateN cfg s id msg wr site calls).2.2 ∧
      ∃ s1 s2 : CState M R, s1.items = s.items ∧ s1.clock = s.clock ∧
        (((Coll.updateN cfg s id msg wr site calls).2.2 = [] ∧ s2 = s1) ∨
         ((Coll.updateN cfg s id msg wr site calls).2.2 = (Coll.run cfg s1 calls).1 ∧ s2 = (Coll.run cfg s1 calls).2)) ∧
        (Coll.updateN cfg s id msg wr site calls).2.1.items = s2.items ∧
        (Coll.updateN cfg s id msg wr site calls).2.1.clock = s2.clock := by
  unfold Coll.updateN
  dsimp only
  cases hv : cfg.ops.validate (fieldUpdater cfg wr) msg with
  | some c => intro _; exact ⟨rfl, rfl, s, s, rfl, rfl, Or.inl ⟨rfl, rfl⟩, rfl, rfl⟩
  | none =>
    dsimp only
    simp only [getAndUpdateN, changeFnN_eq]
    have hf0 := updGet_frame cfg wr { st := s, id := updKey cfg wr id, created := none, idCalls := [], createdCalls := 0 }
    rcases hg : updGet cfg wr { st := s, id := updKey cfg wr id, created := none, idCalls := [], createdCalls := 0 } with ⟨r1, c1⟩
    rw [hg] at hf0
    cases r1 with
    | error e => intro _; exact ⟨rfl, rfl, c1.st, c1.st, hf0.1, hf0.2, Or.inl ⟨rfl, rfl⟩, rfl, rfl⟩
    | ok old =>
      dsimp only
      have hcases : (∃ e, changeFn cfg.ops wr (fieldUpdater cfg wr) msg old old = .error e) ∨
          (∃ new, changeFn cfg.ops wr (fieldUpdater cfg wr) msg old old = .ok new) := by
        cases changeFn cfg.ops wr (fieldUpdater cfg wr) msg old old <;> simp
      rcases hcases with ⟨e, hc⟩ | ⟨new, hc⟩
      · simp only [hc]
        intro _
        by_cases hr : siteReached cfg.ops wr site old = true
        · simp only [hr, ↓reduceIte]
          exact ⟨trivial, trivial, c1.st, _, hf0.1, hf0.2, Or.inr ⟨by simp [nestedRunC], rfl⟩, rfl, rfl⟩
        · simp only [hr, Bool.false_eq_true, ↓reduceIte]
          exact ⟨trivial, trivial, c1.st, c1.st, hf0.1, hf0.2, Or.inl ⟨trivial, rfl⟩, rfl, rfl⟩
      · simp only [hc]
        by_cases hr : siteReached cfg.ops wr site old = true
        · simp only [hr, ↓reduceIte]
          have hf2 := updGet_frame cfg wr (nestedRunC cfg calls { c := c1, results := [] }).c
          rcases hg2 : updGet cfg wr (nestedRunC cfg calls { c := c1, results := [] }).c with ⟨r2, c2⟩
          rw [hg2] at hf2
          cases r2 with
          | error e2 =>
            dsimp only
            cases hb : eqOpt cfg.ops old none
            · simp only [Bool.not_false, ↓reduceIte]
              intro _
              exact ⟨trivial, trivial, c1.st, (Coll.run cfg c1.st calls).2, hf0.1, hf0.2, Or.inr ⟨by simp [nestedRunC], rfl⟩,
                by simpa [nestedRunC] using hf2.1, by simpa [nestedRunC] using hf2.2⟩
            · simp only [Bool.not_true, Bool.false_eq_true, ↓reduceIte]
              intro h; exact absurd rfl h
          | ok again =>
            dsimp only
            cases hb : eqOpt cfg.ops old again
            · simp only [Bool.not_false, ↓reduceIte]
              intro _
              exact ⟨trivial, trivial, c1.st, (Coll.run cfg c1.st calls).2, hf0.1, hf0.2, Or.inr ⟨by simp [nestedRunC], rfl⟩,
                by simpa [nestedRunC] using hf2.1, by simpa [nestedRunC] using hf2.2⟩
            · simp only [Bool.not_true, Bool.false_eq_true, ↓reduceIte]
              intro h; exact absurd rfl h
        · simp only [hr, Bool.false_eq_true, ↓reduceIte]
          have hf2 := updGet_frame cfg wr c1
          rcases hg2 : updGet cfg wr c1 with ⟨r2, c2⟩
          rw [hg2] at hf2
          cases r2 with
          | error e2 =>
            dsimp only
            cases hb : eqOpt cfg.ops old none
            · simp only [Bool.not_false, ↓reduceIte]
              intro _
              exact ⟨trivial, trivial, c1.st, c1.st, hf0.1, hf0.2, Or.inl ⟨trivial, rfl⟩, hf2.1, hf2.2⟩
            · simp only [Bool.not_true, Bool.false_eq_true, ↓reduceIte]
              intro h; exact absurd rfl h
          | ok again =>
            dsimp only
            cases hb : eqOpt cfg.ops old again
            · simp only [Bool.not_false, ↓reduceIte]
              intro _
              exact ⟨trivial, trivial, c1.st, c1.st, hf0.1, hf0.2, Or.inl ⟨trivial, rfl⟩, hf2.1, hf2.2⟩
            · simp only [Bool.not_true, Bool.false_eq_true, ↓reduceIte]
              intro h; exact absurd rfl h

/-- No lost update, for `Collection.Update`: a write that SUCCEEDS returns the message it computed from
the item it read (`old`: the stored message, or the provisional empty message of an item being created),
the re-validation read of the contents its callback's calls left gave (by `proto.Equal`) that same
message, and the returned message is what is stored under the write's id afterwards. -/
theorem C01_nested_update_no_lost_update (cfg : Cfg M K R) (s : CState M R) (id : String) (msg : M)
    (wr : WriteReq M K) (site : Site) (calls : List (COp M K)) :
    (Coll.updateN cfg s id msg wr site calls).1.err = none →
      ∃ old new c1 r2 c2,
        updGet cfg wr { st := s, id := updKey cfg wr id, created := none, idCalls := [], createdCalls := 0 } = (.ok old, c1) ∧
        changeFn cfg.ops wr (fieldUpdater cfg wr) msg old old = .ok new ∧
        (Coll.updateN cfg s id msg wr site calls).1.val = some new ∧
        updGet cfg wr (if siteReached cfg.ops wr site old then { c1 with st := (Coll.run cfg c1.st calls).2 } else c1) = (r2, c2) ∧
        eqOpt cfg.ops old (match r2 with | .ok v => v | .error _ => none) = true ∧
        ∃ t, lookup (Coll.updateN cfg s id msg wr site calls).2.1.items c2.id = some { body := new, time := t } := by
  unfold Coll.updateN
  dsimp only
  cases hv : cfg.ops.validate (fieldUpdater cfg wr) msg with
  | some c => intro h; simp at h
  | none =>
    dsimp only
    simp only [getAndUpdateN, changeFnN_eq]
    rcases hg : updGet cfg wr { st := s, id := updKey cfg wr id, created := none, idCalls := [], createdCalls := 0 } with ⟨r1, c1⟩
    cases r1 with
    | error e => intro h; simp at h
    | ok old =>
      dsimp only
      have hcases : (∃ e, changeFn cfg.ops wr (fieldUpdater cfg wr) msg old old = .error e) ∨
          (∃ new, changeFn cfg.ops wr (fieldUpdater cfg wr) msg old old = .ok new) := by
        cases changeFn cfg.ops wr (fieldUpdater cfg wr) msg old old <;> simp
      rcases hcases with ⟨e, hc⟩ | ⟨new, hc⟩
      · simp only [hc]; intro h; simp at h
      · simp only [hc]
        have hmid : (if siteReached cfg.ops wr site old = true then nestedRunC cfg calls { c := c1, results := [] }
            else { c := c1, results := [] }).c =
            (if siteReached cfg.ops wr site old = true then { c1 with st := (Coll.run cfg c1.st calls).2 } else c1) := by
          by_cases hr : siteReached cfg.ops wr site old = true <;> simp [hr, nestedRunC]
        rw [hmid]
        rcases hg2 : updGet cfg wr (if siteReached cfg.ops wr site old = true then { c1 with st := (Coll.run cfg c1.st calls).2 } else c1) with ⟨r2, c2⟩
        cases r2 with
        | error e2 =>
          dsimp only
          cases hb : eqOpt cfg.ops old none
          · simp only [Bool.not_false, ↓reduceIte]; intro h; simp at h
          · simp only [Bool.not_true, Bool.false_eq_true, ↓reduceIte]
            intro _
            refine ⟨old, new, c1, .error e2, c2, rfl, hc, rfl, hg2, hb, ?_⟩
            simp [updSave, updateTimeC_items, lookup_setItem]
        | ok again =>
          dsimp only
          cases hb : eqOpt cfg.ops old again
          · simp only [Bool.not_false, ↓reduceIte]; intro h; simp at h
          · simp only [Bool.not_true, Bool.false_eq_true, ↓reduceIte]
            intro _
            refine ⟨old, new, c1, .ok again, c2, rfl, hc, rfl, hg2, hb, ?_⟩
            simp [updSave, updateTimeC_items, lookup_setItem]

/-- an item that does not exist; the write (create-if-absent) has a before interceptor that adds the item
through a nested call: the write is Aborted, the nested item stays, the only event is the nested ADD -/
example :
    let cfg : Cfg Msg Mask (List Nat) := { ops := flatOps, gen := flatGen }
    let wr : WriteReq Msg Mask := { createIfAbsent := true, before := some (fun _ m => { m with a := m.a + 1 }) }
    let r := Coll.updateN cfg (Coll.init cfg [] []) "a" { a := 2, s := "", c := none } wr .bf
      [.add "a" { a := 5, s := "", c := none } {}]
    (r.1.err, r.1.val, r.2.1.items.map (fun kv => (kv.1, kv.2.body.a)), r.1.events.map (fun e => (e.id, e.kind))) =
    (some .aborted, none, [("a", 5)], [("a", .add)]) := by
  decide

/-- had the callback added ANOTHER item and read this one, the write goes through (as the last call of the
sequence) -/
example :
    let cfg : Cfg Msg Mask (List Nat) := { ops := flatOps, gen := flatGen }
    let wr : WriteReq Msg Mask := { createIfAbsent := true, before := some (fun _ m => { m with a := m.a + 1 }) }
    let r := Coll.updateN cfg (Coll.init cfg [] []) "a" { a := 2, s := "", c := none } wr .bf
      [.add "b" { a := 5, s := "", c := none } {}, .get "a" {}]
    (r.1.err, r.2.1.items.map (fun kv => (kv.1, kv.2.body.a)), r.1.events.map (fun e => (e.id, e.kind))) =
    (none, [("b", 5), ("a", 3)], [("b", .add), ("a", .add)]) := by
  decide

/-! ## `Collection.Delete` whose expected check calls the Collection again (`Coll.deleteN`) -/

/-- A check that makes no call is an ordinary check: the Delete of `Model.lean`. -/
theorem C01_nested_delete_none_is_plain (cfg : Cfg M K R) (h : EqRefl cfg.ops) (s : CState M R) (id : String)
    (wr : WriteReq M K) (site : Site) :
    Coll.deleteN cfg s id wr site [] = ((Coll.delete cfg s id wr).1, (Coll.delete cfg s id wr).2, []) := by
  unfold Coll.deleteN
  dsimp only
  cases site <;> try rfl
  cases hc : wr.expectedCheck with
  | none => rfl
  | some chk =>
    cases hl : lookup s.items (icptId cfg id) with
    | none => rfl
    | some it =>
      simp only [Coll.run, eventsOfC, List.nil_append, deleteSecond]
      unfold Coll.delete
      rw [deleteLoop_first cfg h wr (icptId cfg id) 4 s]
      simp only [hl, hc, sameItem_refl h]
      cases hcv : chk (some it.body) with
      | some e => simp
      | none =>
        cases hev : wr.expectedValue with
        | none => simp
        | some ev => cases hq : cfg.ops.eq it.body ev <;> simp [hq]

/-- "A call that fails changes nothing and emits nothing", for a Delete whose check makes calls: a failing
Delete emits no event of its own, and the Collection (contents, clock, rng) is EXACTLY what the calls made
from its check left - also when those calls changed the item and Delete went round its loop and judged the
new item - or, when the check was never invoked (no check, another site, no item), what it was. -/
theorem C01_nested_delete_failed_call_frame (cfg : Cfg M K R) (h : EqRefl cfg.ops) (s : CState M R) (id : String)
    (wr : WriteReq M K) (site : Site) (calls : List (COp M K)) :
    (Coll.deleteN cfg s id wr site calls).1.err ≠ none →
      (Coll.deleteN cfg s id wr site calls).1.events = eventsOfC (Coll.deleteN cfg s id wr site calls).2.2 ∧
      (((Coll.deleteN cfg s id wr site calls).2.2 = [] ∧ (Coll.deleteN cfg s id wr site calls).2.1 = s) ∨
       ((Coll.deleteN cfg s id wr site calls).2.2 = (Coll.run cfg s calls).1 ∧
        (Coll.deleteN cfg s id wr site calls).2.1 = (Coll.run cfg s calls).2)) := by
  have plain : (Coll.delete cfg s id wr).1.err ≠ none →
      (Coll.delete cfg s id wr).1.events = eventsOfC ([] : List (CRes M)) ∧
      ((([] : List (CRes M)) = [] ∧ (Coll.delete cfg s id wr).2 = s) ∨
       (([] : List (CRes M)) = (Coll.run cfg s calls).1 ∧ (Coll.delete cfg s id wr).2 = (Coll.run cfg s calls).2)) := by
    intro hf
    have := deleteLoop_fail_frame cfg h wr (icptId cfg id) 4 s hf
    exact ⟨this.2, Or.inl ⟨rfl, this.1⟩⟩
  unfold Coll.deleteN
  dsimp only
  cases site <;> try exact plain
  cases hc : wr.expectedCheck with
  | none => exact plain
  | some chk =>
    cases hl : lookup s.items (icptId cfg id) with
    | none => exact plain
    | some it =>
      dsimp only
      cases hcv : chk (some it.body) with
      | some e => intro _; exact ⟨rfl, Or.inr ⟨rfl, rfl⟩⟩
      | none =>
        dsimp only
        have rest : (deleteSecond cfg wr (icptId cfg id) it (Coll.run cfg s calls).2).1.err ≠ none →
            (eventsOfC (Coll.run cfg s calls).1 ++
                (deleteSecond cfg wr (icptId cfg id) it (Coll.run cfg s calls).2).1.events =
              eventsOfC (Coll.run cfg s calls).1) ∧
            (deleteSecond cfg wr (icptId cfg id) it (Coll.run cfg s calls).2).2 = (Coll.run cfg s calls).2 := by
          intro hf
          have := deleteSecond_fail_frame cfg h wr (icptId cfg id) it (Coll.run cfg s calls).2 hf
          exact ⟨by simp [this.2], this.1⟩
        cases hev : wr.expectedValue with
        | none =>
          dsimp only
          rw [if_neg Bool.false_ne_true]
          dsimp only
          intro hf
          exact ⟨(rest hf).1, Or.inr ⟨rfl, (rest hf).2⟩⟩
        | some ev =>
          dsimp only
          by_cases hq : cfg.ops.eq it.body ev = true
          · rw [if_neg (by simp [hq])]
            dsimp only
            intro hf
            exact ⟨(rest hf).1, Or.inr ⟨rfl, (rest hf).2⟩⟩
          · rw [if_pos (by simpa using hq)]
            intro _; exact ⟨rfl, Or.inr ⟨rfl, rfl⟩⟩

/-- A Delete whose check was invoked and that succeeds removes and returns what is stored under the id WHEN
IT DELETES - after the calls its check made - never the stale item it showed to the check: either those calls
removed the item (the Delete tolerates a missing item: nothing returned, nothing more removed, no event of its
own), or the returned message is `proto.Equal` to the stored one (it is the stored one whenever the calls
touched the item), the contents are those the calls left minus the id, and its REMOVE event follows theirs. -/
theorem C01_nested_delete_removes_current (cfg : Cfg M K R) (h : EqRefl cfg.ops) (s : CState M R) (id : String)
    (wr : WriteReq M K) (calls : List (COp M K)) (chk : Option M → Option Code) (it : Item M)
    (hc : wr.expectedCheck = some chk) (hl : lookup s.items (icptId cfg id) = some it)
    (hok : (Coll.deleteN cfg s id wr .chk calls).1.err = none) :
    (Coll.deleteN cfg s id wr .chk calls).2.2 = (Coll.run cfg s calls).1 ∧
    ((lookup (Coll.run cfg s calls).2.items (icptId cfg id) = none ∧
        (Coll.deleteN cfg s id wr .chk calls).1.val = none ∧
        (Coll.deleteN cfg s id wr .chk calls).2.1 = (Coll.run cfg s calls).2 ∧
        (Coll.deleteN cfg s id wr .chk calls).1.events = eventsOfC (Coll.run cfg s calls).1) ∨
     (∃ cur b, lookup (Coll.run cfg s calls).2.items (icptId cfg id) = some cur ∧
        cfg.ops.eq cur.body b = true ∧
        (Coll.deleteN cfg s id wr .chk calls).1.val = some b ∧
        (Coll.deleteN cfg s id wr .chk calls).2.1 =
          { (Coll.run cfg s calls).2 with clock := (Coll.run cfg s calls).2.clock + cfg.tick,
                                          items := eraseItem (Coll.run cfg s calls).2.items (icptId cfg id) } ∧
        (Coll.deleteN cfg s id wr .chk calls).1.events = eventsOfC (Coll.run cfg s calls).1 ++
          [{ id := icptId cfg id, time := (Coll.run cfg s calls).2.clock, kind := .remove, old := some b,
             new := none }])) := by
  revert hok
  unfold Coll.deleteN
  simp only [hc, hl]
  have rest : (deleteSecond cfg wr (icptId cfg id) it (Coll.run cfg s calls).2).1.err = none → _ :=
    deleteSecond_ok cfg h wr (icptId cfg id) it (Coll.run cfg s calls).2
  have fin : (deleteSecond cfg wr (icptId cfg id) it (Coll.run cfg s calls).2).1.err = none →
      (lookup (Coll.run cfg s calls).2.items (icptId cfg id) = none ∧
        (deleteSecond cfg wr (icptId cfg id) it (Coll.run cfg s calls).2).1.val = none ∧
        (deleteSecond cfg wr (icptId cfg id) it (Coll.run cfg s calls).2).2 = (Coll.run cfg s calls).2 ∧
        eventsOfC (Coll.run cfg s calls).1 ++ (deleteSecond cfg wr (icptId cfg id) it (Coll.run cfg s calls).2).1.events
          = eventsOfC (Coll.run cfg s calls).1) ∨
      (∃ cur b, lookup (Coll.run cfg s calls).2.items (icptId cfg id) = some cur ∧
        cfg.ops.eq cur.body b = true ∧
        (deleteSecond cfg wr (icptId cfg id) it (Coll.run cfg s calls).2).1.val = some b ∧
        (deleteSecond cfg wr (icptId cfg id) it (Coll.run cfg s calls).2).2 =
          { (Coll.run cfg s calls).2 with clock := (Coll.run cfg s calls).2.clock + cfg.tick,
                                          items := eraseItem (Coll.run cfg s calls).2.items (icptId cfg id) } ∧
        eventsOfC (Coll.run cfg s calls).1 ++ (deleteSecond cfg wr (icptId cfg id) it (Coll.run cfg s calls).2).1.events
          = eventsOfC (Coll.run cfg s calls).1 ++
            [{ id := icptId cfg id, time := (Coll.run cfg s calls).2.clock, kind := .remove, old := some b,
               new := none }]) := by
    intro hok
    rcases rest hok with ⟨h1, h2, h3, h4⟩ | ⟨cur, b, h1, h2, h3, h4, h5⟩
    · exact Or.inl ⟨h1, h2, h3, by simp [h4]⟩
    · exact Or.inr ⟨cur, b, h1, h2, h3, h4, by rw [h5]⟩
  cases hcv : chk (some it.body) with
  | some e => intro hok; simp at hok
  | none =>
    dsimp only
    cases hev : wr.expectedValue with
    | none =>
      dsimp only
      rw [if_neg Bool.false_ne_true]
      dsimp only
      intro hok
      exact ⟨rfl, fin hok⟩
    | some ev =>
      dsimp only
      by_cases hq : cfg.ops.eq it.body ev = true
      · rw [if_neg (by simp [hq])]
        dsimp only
        intro hok
        exact ⟨rfl, fin hok⟩
      · rw [if_pos (by simpa using hq)]
        intro hok; simp at hok

/-- item a = 1 is stored; the Delete's check (passes on a = 1 only) first updates the item to a = 5: the item
read is no longer the item stored, Delete goes round its loop, its check judges the NEW item and refuses:
the item written by the nested call stays, the only event is the nested UPDATE -/
example :
    let cfg : Cfg Msg Mask (List Nat) := { ops := flatOps, gen := flatGen }
    let chk : Option Msg → Option Code := fun o => if (o.map (·.a)) = some 1 then none else some .failedPrecondition
    let r := Coll.deleteN cfg (Coll.init cfg [("a", { a := 1, s := "", c := none })] []) "a"
      { expectedCheck := some chk } .chk [.update "a" { a := 5, s := "", c := none } {}]
    (r.1.err, r.1.val.map (·.a), r.2.1.items.map (fun kv => (kv.1, kv.2.body.a)), r.1.events.map (fun e => (e.id, e.kind))) =
    (some .failedPrecondition, some 5, [("a", 5)], [("a", .update)]) := by
  decide

/-- with a check that passes on anything the same Delete removes and returns the item the nested call wrote
(a = 5), not the item it showed to the check (a = 1); and when the nested call deletes the item, the Delete
answers NotFound and the only event is the nested REMOVE -/
example :
    let cfg : Cfg Msg Mask (List Nat) := { ops := flatOps, gen := flatGen }
    let s0 := Coll.init cfg [("a", { a := 1, s := "", c := none })] []
    let r := Coll.deleteN cfg s0 "a" { expectedCheck := some (fun _ => none) } .chk
      [.update "a" { a := 5, s := "", c := none } {}]
    let q := Coll.deleteN cfg s0 "a" { expectedCheck := some (fun _ => none) } .chk [.delete "a" {}]
    (r.1.err, r.1.val.map (·.a), r.2.1.items.length, r.1.events.map (fun e => (e.kind, e.old.map (·.a)))) =
      (none, some 5, 0, [(.update, some 1), (.remove, some 5)]) ∧
    (q.1.err, q.1.val, q.1.events.map (fun e => e.kind)) = (some .notFound, none, [.remove]) := by
  decide

end ScVerif.C01
