import ScVerif.C01.Nested
import ScVerif.C01.Lemmas
import ScVerif.C01.Flat
/-!
# C01 — property theorems: a write whose own callback calls the same Value again

`Value.setN cfg s msg wr site calls` (`Nested.lean`) is `Value.Set(msg, opts...)` whose expected check /
before / after interceptor (`site`) makes the complete calls `calls` on the same Value, on the calling
goroutine, while the write is between its read and its save (one caller at a time, in a definite order).
All theorems are for EVERY message type and operations, configuration, state (a Value that was never
written included: `s.value = none`), written message, write request, callbacks (arbitrary functions),
callback site and list of nested calls with their own arbitrary options.

Only property theorems and their non-vacuity examples live in this file.
-/
namespace ScVerif.C01
variable {M K R : Type}

/-- A callback that makes no call is an ordinary callback: the write is `Value.Set` of `Model.lean`. -/
theorem C01_nested_none_is_plain (cfg : Cfg M K R) (s : VState M) (msg : M) (wr : WriteReq M K) (site : Site) :
    Value.setN cfg s msg wr site [] = ((Value.set cfg s msg wr).1, (Value.set cfg s msg wr).2, []) := by
  rw [Value.setN_eq]
  unfold Value.set
  cases hv : cfg.ops.validate (fieldUpdater cfg wr) msg with
  | some c => simp [hv]
  | none =>
    have hmid : midV cfg s wr site ([] : List (VOp M K)) = { st := s, results := [] } := by
      unfold midV nestedRunV; split <;> simp [Value.run]
    simp only [hv, hmid, getAndUpdate]
    cases hc : changeFn cfg.ops wr (fieldUpdater cfg wr) msg s.value s.value with
    | error c => simp [eventsOf]
    | ok new =>
      by_cases he : eqOpt cfg.ops s.value s.value = true <;> simp [he, eventsOf]

/-- "A call that fails changes nothing and emits nothing", with nested calls: a failing write returns no
message, and leaves EXACTLY what the calls made from its callback left — the Value they left, the events
they emitted, nothing of its own; and if it did not get as far as the callback, nothing at all. -/
theorem C01_nested_failed_call_frame (cfg : Cfg M K R) (s : VState M) (msg : M) (wr : WriteReq M K)
    (site : Site) (calls : List (VOp M K)) :
    (Value.setN cfg s msg wr site calls).1.err ≠ none →
      (Value.setN cfg s msg wr site calls).1.val = none ∧
      (Value.setN cfg s msg wr site calls).2 =
        (if callbackRuns cfg s msg wr site then ((Value.run cfg s calls).2, (Value.run cfg s calls).1) else (s, [])) ∧
      (Value.setN cfg s msg wr site calls).1.events = eventsOf (Value.setN cfg s msg wr site calls).2.2 := by
  rw [Value.setN_eq]
  unfold callbackRuns
  cases hv : cfg.ops.validate (fieldUpdater cfg wr) msg with
  | some c => simp [eventsOf]
  | none =>
    have hmid : midV cfg s wr site calls =
        if siteReached cfg.ops wr site s.value then { st := (Value.run cfg s calls).2, results := (Value.run cfg s calls).1 }
        else { st := s, results := [] } := by
      unfold midV nestedRunV; simp
    cases hc : changeFn cfg.ops wr (fieldUpdater cfg wr) msg s.value s.value with
    | error c =>
      intro _
      simp only [hmid]
      by_cases hr : siteReached cfg.ops wr site s.value = true <;> simp [hr]
    | ok new =>
      simp only [hmid]
      by_cases hr : siteReached cfg.ops wr site s.value = true <;>
        by_cases he : eqOpt cfg.ops s.value (Value.run cfg s calls).2.value = true <;>
        by_cases he' : eqOpt cfg.ops s.value s.value = true <;> simp [hr, he, he']

/-- No lost update: a write that SUCCEEDS returns and stores the message it computed from the value it
read, and that value is (by `proto.Equal`, absent = absent only) what was stored when it saved — after
whatever its callback's calls did; its events are theirs followed by exactly one of its own. -/
theorem C01_nested_no_lost_update (cfg : Cfg M K R) (s : VState M) (msg : M) (wr : WriteReq M K)
    (site : Site) (calls : List (VOp M K)) :
    (Value.setN cfg s msg wr site calls).1.err = none →
      ∃ new, changeFn cfg.ops wr (fieldUpdater cfg wr) msg s.value s.value = .ok new ∧
        (Value.setN cfg s msg wr site calls).1.val = some new ∧
        (Value.setN cfg s msg wr site calls).2.1.value = some new ∧
        eqOpt cfg.ops s.value
          (if callbackRuns cfg s msg wr site then (Value.run cfg s calls).2.value else s.value) = true ∧
        ∃ t, (Value.setN cfg s msg wr site calls).1.events =
          eventsOf (Value.setN cfg s msg wr site calls).2.2 ++ [{ value := new, time := t }] := by
  rw [Value.setN_eq]
  unfold callbackRuns
  cases hv : cfg.ops.validate (fieldUpdater cfg wr) msg with
  | some c => simp
  | none =>
    have hmid : midV cfg s wr site calls =
        if siteReached cfg.ops wr site s.value then { st := (Value.run cfg s calls).2, results := (Value.run cfg s calls).1 }
        else { st := s, results := [] } := by
      unfold midV nestedRunV; simp
    cases hc : changeFn cfg.ops wr (fieldUpdater cfg wr) msg s.value s.value with
    | error c => simp
    | ok new =>
      simp only [hmid]
      by_cases hr : siteReached cfg.ops wr site s.value = true <;>
        by_cases he : eqOpt cfg.ops s.value (Value.run cfg s calls).2.value = true <;>
        by_cases he' : eqOpt cfg.ops s.value s.value = true <;>
        simp [hr, he, he', updateTimeV] <;> (cases wr.writeTime <;> simp)

/-- The re-validation: if the callback runs, the write would otherwise go through, and the Value its calls
leave is not (by `proto.Equal`) the value the write read, the write fails with Aborted, returns nothing
and leaves the Value and the events of the nested calls, nothing else. -/
theorem C01_nested_changed_value_aborts (cfg : Cfg M K R) (s : VState M) (msg : M) (wr : WriteReq M K)
    (site : Site) (calls : List (VOp M K)) (new : M)
    (hrun : callbackRuns cfg s msg wr site = true)
    (hok : changeFn cfg.ops wr (fieldUpdater cfg wr) msg s.value s.value = .ok new)
    (hchg : eqOpt cfg.ops s.value (Value.run cfg s calls).2.value = false) :
    Value.setN cfg s msg wr site calls =
      ({ val := none, err := some .aborted, events := eventsOf (Value.run cfg s calls).1 },
       (Value.run cfg s calls).2, (Value.run cfg s calls).1) := by
  rw [Value.setN_eq]
  unfold callbackRuns at hrun
  cases hv : cfg.ops.validate (fieldUpdater cfg wr) msg with
  | some c => simp [hv] at hrun
  | none =>
    simp only [hv, Option.isNone_none, Bool.true_and] at hrun
    simp [midV, nestedRunV, hrun, hok, hchg]

/-- The first write of a Value that was never written (no `WithInitialValue`): "no value" is a value like
any other for the re-validation — if a call made from the write's callback stores something, the write is
Aborted and that something stays (the clause seeded change C01-18 broke). -/
theorem C01_nested_first_write_aborts (cfg : Cfg M K R) (s : VState M) (msg : M) (wr : WriteReq M K)
    (site : Site) (calls : List (VOp M K)) (new : M)
    (hnil : s.value = none)
    (hrun : callbackRuns cfg s msg wr site = true)
    (hok : changeFn cfg.ops wr (fieldUpdater cfg wr) msg s.value s.value = .ok new)
    (hset : (Value.run cfg s calls).2.value ≠ none) :
    (Value.setN cfg s msg wr site calls).1.err = some .aborted ∧
    (Value.setN cfg s msg wr site calls).2.1 = (Value.run cfg s calls).2 := by
  have hchg : eqOpt cfg.ops s.value (Value.run cfg s calls).2.value = false := by
    rw [hnil]
    cases h : (Value.run cfg s calls).2.value with
    | none => exact absurd h hset
    | some v => rfl
  rw [C01_nested_changed_value_aborts cfg s msg wr site calls new hrun hok hchg]
  exact ⟨rfl, rfl⟩

/-- A nested write that goes through is the sequential run "the callback's calls, then the write": when
`proto.Equal` decides equality of messages (it does for the data modelled), a successful write with nested
calls leaves the Value, returns the message and emits the events of the plain call sequence
`calls ++ [Set msg]` on the register — nested calls are ordinary calls in a definite order. -/
theorem C01_nested_success_is_sequential (cfg : Cfg M K R) (hrefl : EqRefl cfg.ops)
    (hx : ∀ a b, cfg.ops.eq a b = true → a = b)
    (s : VState M) (msg : M) (wr : WriteReq M K) (site : Site) (calls : List (VOp M K))
    (hrun : callbackRuns cfg s msg wr site = true)
    (hsucc : (Value.setN cfg s msg wr site calls).1.err = none) :
    (Value.run cfg s (calls ++ [.set msg wr])).2 = (Value.setN cfg s msg wr site calls).2.1 ∧
    eventsOf (Value.run cfg s (calls ++ [.set msg wr])).1 = (Value.setN cfg s msg wr site calls).1.events ∧
    ∃ o, (Value.run cfg s (calls ++ [.set msg wr])).1 = (Value.setN cfg s msg wr site calls).2.2 ++ [.wrote o] ∧
      o.val = (Value.setN cfg s msg wr site calls).1.val ∧ o.err = none := by
  have hxo : ∀ a b : Option M, eqOpt cfg.ops a b = true → a = b := by
    intro a b h
    cases a <;> cases b <;> simp_all [eqOpt]
    exact hx _ _ h
  rw [Value.run_append]
  revert hsucc
  rw [Value.setN_eq]
  unfold callbackRuns at hrun
  cases hv : cfg.ops.validate (fieldUpdater cfg wr) msg with
  | some c => simp [hv] at hrun
  | none =>
    simp only [hv, Option.isNone_none, Bool.true_and] at hrun
    simp only [midV, nestedRunV, hrun, ↓reduceIte, List.nil_append]
    cases hc : changeFn cfg.ops wr (fieldUpdater cfg wr) msg s.value s.value with
    | error c => simp
    | ok new =>
      by_cases he : eqOpt cfg.ops s.value (Value.run cfg s calls).2.value = true
      · have hval := hxo _ _ he
        intro _
        have hset : Value.set cfg (Value.run cfg s calls).2 msg wr =
            ({ val := some new, err := none,
               events := [{ value := new, time := (updateTimeV cfg wr { (updateTimeV cfg wr (Value.run cfg s calls).2).2 with value := some new, changeTime := (updateTimeV cfg wr (Value.run cfg s calls).2).1 }).1 }] },
             (updateTimeV cfg wr { (updateTimeV cfg wr (Value.run cfg s calls).2).2 with value := some new, changeTime := (updateTimeV cfg wr (Value.run cfg s calls).2).1 }).2) := by
          unfold Value.set
          simp only [hv, getAndUpdate, ← hval, hc, eqOpt_refl hrefl]
          simp
        simp [Value.run, Value.step, hset, he, eventsOf_append, eventsOf]
      · simp [he]

/-! ### non-vacuity: the hypotheses are satisfiable and the cases occur -/

/-- a never-written Value; the write's before interceptor stores `a = 5` through a nested Set: the write is
Aborted, the nested write's value stays, one event (the nested one) -/
example :
    let cfg : Cfg Msg Mask (List Nat) := { ops := flatOps, gen := flatGen }
    let wr : WriteReq Msg Mask := { before := some (fun _ m => { m with a := m.a + 1 }) }
    let r := Value.setN cfg (Value.init cfg none) { a := 2, s := "", c := none } wr .bf
      [.set { a := 5, s := "", c := none } {}]
    (callbackRuns cfg (Value.init cfg none) { a := 2, s := "", c := none } wr .bf, r.1.err, r.1.val,
      r.2.1.value.map (·.a), r.1.events.map (·.value.a)) = (true, some .aborted, none, some 5, [5]) := by
  decide

/-- the same write when the nested call is a read, or stores what is stored already: it goes through -/
example :
    let cfg : Cfg Msg Mask (List Nat) := { ops := flatOps, gen := flatGen }
    let wr : WriteReq Msg Mask := { before := some (fun _ m => { m with a := m.a + 1 }) }
    let s0 := Value.init cfg (some { a := 5, s := "", c := none })
    ((Value.setN cfg s0 { a := 2, s := "", c := none } wr .bf [.get {}]).1.err,
     (Value.setN cfg s0 { a := 2, s := "", c := none } wr .bf [.set { a := 5, s := "", c := none } {}]).1.err,
     (Value.setN cfg s0 { a := 2, s := "", c := none } wr .bf [.set { a := 5, s := "", c := none } {}]).2.1.value.map (·.a))
      = (none, none, some 3) := by
  decide

/-- `proto.Equal` of the modelled messages is reflexive and decides equality (hypotheses of
`C01_nested_success_is_sequential`) -/
example : EqRefl flatOps ∧ ∀ a b : Msg, flatOps.eq a b = true → a = b := by
  refine ⟨fun m => by simp [flatOps], fun a b h => by simpa [flatOps] using h⟩

end ScVerif.C01
