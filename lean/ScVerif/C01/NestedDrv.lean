import ScVerif.C01.Drv
import ScVerif.C01.Nested
import ScVerif.C01.NestedColl
/-!
Driver handler for C01 with nested calls: `handleS` of `Drv.lean` plus

```
nest site=<chk|bf|af> k=<n>      -> ok        the next n lines are the calls the callback at `site` of the
<call>              (n times)    -> queued    write after them makes on the same Value / Collection
vset msg=<msg> <write opts>      -> val=… err=… ev=[…] in=[<val>,<err>|<msg>;…] | st=… clk=n
upd|add id=<id> msg=<msg> <opts> -> val=… err=… ev=[…] ids=[…] created=n in=[…] | st=[…] clk=n
del id=<id> <write opts>         -> the same (the calls are made by the expected check, on its first invocation)
```
-/
namespace ScVerif.C01
open ScVerif.Line

structure NSt where
  base : DrvState := .none
  pend : Option (Site × Nat × List (List String)) := none

def parseSite? : String → Option Site
  | "chk" => some .chk | "bf" => some .bf | "af" => some .af | _ => none

def parseVOp? : List String → Option (VOp Msg Mask)
  | "vset" :: rest => do
    let kv ← parseKV rest
    let msg ← (kvGet kv "msg").bind parseMsg?
    let wr ← parseWriteReq? kv
    pure (.set msg wr)
  | "vget" :: rest => do
    let kv ← parseKV rest
    let ro ← parseReadReq? kv
    pure (.get ro)
  | _ => none

def parseCOp? : List String → Option (COp Msg Mask)
  | "upd" :: rest => do
    let kv ← parseKV rest
    let id ← kvGet kv "id"
    let msg ← (kvGet kv "msg").bind parseMsg?
    let wr ← parseWriteReq? kv
    pure (.update id msg wr)
  | "add" :: rest => do
    let kv ← parseKV rest
    let id ← kvGet kv "id"
    let msg ← (kvGet kv "msg").bind parseMsg?
    let wr ← parseWriteReq? kv
    pure (.add id msg wr)
  | "del" :: rest => do
    let kv ← parseKV rest
    let id ← kvGet kv "id"
    let wr ← parseWriteReq? kv
    pure (.delete id wr)
  | "get" :: rest => do
    let kv ← parseKV rest
    let id ← kvGet kv "id"
    let ro ← parseReadReq? kv
    pure (.get id ro)
  | "list" :: rest => do
    let kv ← parseKV rest
    let ro ← parseReadReq? kv
    pure (.list ro)
  | _ => none

def showCRes : CRes Msg → String
  | .got v => showOptMsg v
  | .listed vs => "[" ++ "+".intercalate (vs.map (fun kv => showMsg kv.2)) ++ "]"
  | .wrote o => s!"{showOptMsg o.val},{showErr o.err}"

def handleNestC (cfg : FCfg) (s : CState Msg (List Nat)) (site : Site) (queued : List (List String))
    (isAdd : Bool) (rest : List String) : Option (DrvState × String) := do
  let calls ← queued.mapM parseCOp?
  let kv ← parseKV rest
  let id ← kvGet kv "id"
  let msg ← (kvGet kv "msg").bind parseMsg?
  let wr ← parseWriteReq? kv
  let (o, s', rs) := if isAdd then Coll.addN cfg s id msg wr site calls else Coll.updateN cfg s id msg wr site calls
  pure (.coll cfg s', showCOut o ++ " in=" ++ showList (rs.map showCRes) ++ " | " ++ showCState s')

def handleNestD (cfg : FCfg) (s : CState Msg (List Nat)) (site : Site) (queued : List (List String))
    (rest : List String) : Option (DrvState × String) := do
  let calls ← queued.mapM parseCOp?
  let kv ← parseKV rest
  let id ← kvGet kv "id"
  let wr ← parseWriteReq? kv
  let (o, s', rs) := Coll.deleteN cfg s id wr site calls
  pure (.coll cfg s', showCOut o ++ " in=" ++ showList (rs.map showCRes) ++ " | " ++ showCState s')

def showVRes : VRes Msg → String
  | .got v => showOptMsg v
  | .wrote o => s!"{showOptMsg o.val},{showErr o.err}"

def handleNest (cfg : FCfg) (s : VState Msg) (site : Site) (queued : List (List String)) (rest : List String) :
    Option (DrvState × String) := do
  let calls ← queued.mapM parseVOp?
  let kv ← parseKV rest
  let msg ← (kvGet kv "msg").bind parseMsg?
  let wr ← parseWriteReq? kv
  let (o, s', rs) := Value.setN cfg s msg wr site calls
  pure (.val cfg s', showVOut o ++ " in=" ++ showList (rs.map showVRes) ++ " | " ++ showVState s')

def handleN (st : NSt) (toks : List String) : NSt × String :=
  match st.pend, toks with
  | none, "nest" :: rest =>
    match (do
      let kv ← parseKV rest
      let site ← (kvGet kv "site").bind parseSite?
      let k ← (kvGet kv "k").bind parseNat?
      pure (site, k)) with
    | some (site, k) => ({ st with pend := some (site, k, []) }, "ok")
    | none => (st, "!bad-op")
  | none, toks =>
    let (b, a) := handleS st.base toks
    ({ st with base := b }, a)
  | some (site, k + 1, acc), toks => ({ st with pend := some (site, k, acc ++ [toks]) }, "queued")
  | some (site, 0, acc), "vset" :: rest =>
    match st.base with
    | .val cfg s =>
      match handleNest cfg s site acc rest with
      | some (b, a) => ({ base := b, pend := none }, a)
      | none => ({ st with pend := none }, "!bad-op")
    | _ => ({ st with pend := none }, "!bad-op")
  | some (site, 0, acc), op :: rest =>
    match st.base with
    | .coll cfg s =>
      if op = "upd" || op = "add" then
        match handleNestC cfg s site acc (op = "add") rest with
        | some (b, a) => ({ base := b, pend := none }, a)
        | none => ({ st with pend := none }, "!bad-op")
      else if op = "del" then
        match handleNestD cfg s site acc rest with
        | some (b, a) => ({ base := b, pend := none }, a)
        | none => ({ st with pend := none }, "!bad-op")
      else ({ st with pend := none }, "!bad-op")
    | _ => ({ st with pend := none }, "!bad-op")
  | some _, _ => ({ st with pend := none }, "!bad-op")

end ScVerif.C01
