import ScVerif.C01.Drv
import ScVerif.C01.Nested
/-!
Driver handler for C01 with nested calls: `handleS` of `Drv.lean` plus

```
nest site=<chk|bf|af> k=<n>      -> ok        the next n lines are the calls the callback at `site` of the
<vset … | vget …>   (n times)    -> queued    write after them makes on the same Value
vset msg=<msg> <write opts>      -> val=… err=… ev=[…] in=[<val>,<err>|<msg>;…] | st=… clk=n
```
-/
namespace ScVerif.C01
open ScVerif.Line

structure NSt where
  base : DrvState := .none
  pend : Option (Site × Nat × List (List String)) := none

def parseSite? : String → Option Site
  | "chk" => some .chk | "bf" => some .bf | "af" => some .af | _ => none

def parseVOp? : List String → Option (VOp Msg Mask)
  | "vset" :: rest => do
    let kv ← parseKV rest
    let msg ← (kvGet kv "msg").bind parseMsg?
    let wr ← parseWriteReq? kv
    pure (.set msg wr)
  | "vget" :: rest => do
    let kv ← parseKV rest
    let ro ← parseReadReq? kv
    pure (.get ro)
  | _ => none

def showVRes : VRes Msg → String
  | .got v => showOptMsg v
  | .wrote o => s!"{showOptMsg o.val},{showErr o.err}"

def handleNest (cfg : FCfg) (s : VState Msg) (site : Site) (queued : List (List String)) (rest : List String) :
    Option (DrvState × String) := do
  let calls ← queued.mapM parseVOp?
  let kv ← parseKV rest
  let msg ← (kvGet kv "msg").bind parseMsg?
  let wr ← parseWriteReq? kv
  let (o, s', rs) := Value.setN cfg s msg wr site calls
  pure (.val cfg s', showVOut o ++ " in=" ++ showList (rs.map showVRes) ++ " | " ++ showVState s')

def handleN (st : NSt) (toks : List String) : NSt × String :=
  match st.pend, toks with
  | none, "nest" :: rest =>
    match (do
      let kv ← parseKV rest
      let site ← (kvGet kv "site").bind parseSite?
      let k ← (kvGet kv "k").bind parseNat?
      pure (site, k)) with
    | some (site, k) => ({ st with pend := some (site, k, []) }, "ok")
    | none => (st, "!bad-op")
  | none, toks =>
    let (b, a) := handleS st.base toks
    ({ st with base := b }, a)
  | some (site, k + 1, acc), toks => ({ st with pend := some (site, k, acc ++ [toks]) }, "queued")
  | some (site, 0, acc), "vset" :: rest =>
    match st.base with
    | .val cfg s =>
      match handleNest cfg s site acc rest with
      | some (b, a) => ({ base := b, pend := none }, a)
      | none => ({ st with pend := none }, "!bad-op")
    | _ => ({ st with pend := none }, "!bad-op")
  | some _, _ => ({ st with pend := none }, "!bad-op")

end ScVerif.C01
