import ScVerif.C19.Conc
/-!
The model clock under concurrency.

`Conc.lean` treats the clock reading of an operation as a parameter of the operation.  Here the clock is
part of the configuration: it advances by scheduler events (`Ev.tick`), and an operation that stamps a start
time (`ChangeActiveMode`, `UpdateActiveMode`, `ChangeToNormalMode`, `ClearActiveMode`) uses whatever the
clock shows when the thread reads it.  In `electricpb.Model` that reading (`m.clock.Now()` in the
`InterceptAfter` callback of `changeActiveMode`) happens after `m.mu.Lock()` and before the write of the
active mode; the model lets the thread read the clock when it reads the state and re-read it any number of
times before its write (`Ev.clk`), with ticks and steps of other threads anywhere in between.

Every performed operation is logged with the clock's value when its thread took the lock and when it wrote.
The invariant says: the shared state is the sequential run of the log; every stamped instant lies between
the lock and the write of its operation; and operations do not overlap in time (each one's lock comes after
the previous one's write) — so stamps never run backwards against the order in which modes became active.

`estep` is the variant in which the clock may also be read before the lock is taken (and is not refreshed
inside): the stamping clause fails for it (`Props`), which is what the lock placement is for.
-/
namespace ScVerif.C19

/-- the instant an operation stamps with, if it reads the clock for a start time -/
def Op.now? : Op → Option Nat
  | .changeActive _ n => some n
  | .clear n => some n
  | .sChangeActive _ n => some n
  | .sClear n => some n
  | _ => none

/-- the operation with its clock reading replaced: a program has no time in it, the time is whatever the
model clock shows when the operation reads it -/
def Op.withNow (n : Nat) : Op → Op
  | .changeActive id _ => .changeActive id n
  | .clear _ => .clear n
  | .sChangeActive id _ => .sChangeActive id n
  | .sClear _ => .sClear n
  | .create m c => .create m c
  | .add m => .add m
  | .update m k w => .update m k w
  | .delete i a e => .delete i a e
  | .setActive m => .setActive m
  | .findMode i => .findMode i
  | .sCreate m c => .sCreate m c
  | .sUpdate m k => .sUpdate m k
  | .sDelete i a => .sDelete i a
  | .sCreateNil => .sCreateNil

theorem Op.now?_withNow {op : Op} {n k : Nat} (h : (op.withNow n).now? = some k) : k = n := by
  cases op <;> simp [Op.withNow, Op.now?] at h <;> exact h.symm

inductive Ev where
  /-- the model clock advances by `d` -/
  | tick (d : Nat)
  /-- thread `t` takes its next step: lock / read the state and the clock / write / unlock -/
  | thr (t : Nat)
  /-- thread `t` reads the clock (again) -/
  | clk (t : Nat)
  deriving DecidableEq, Repr

/-- a performed operation, with the clock's value when its thread took the lock and when it wrote -/
structure Entry where
  op : Op
  lockAt : Nat
  writeAt : Nat

structure TThr where
  todo : List Op
  phase : Phase
  seen : St
  seenNow : Nat
  lockAt : Nat

structure TConf where
  st : St
  holder : Option Nat
  clock : Nat
  thr : Nat → TThr
  log : List Entry

def setT (c : TConf) (t : Nat) (x : TThr) : Nat → TThr := fun i => if i = t then x else c.thr i

theorem setT_same (c : TConf) (t : Nat) (x : TThr) : setT c t x t = x := by simp [setT]

theorem setT_other (c : TConf) (t u : Nat) (x : TThr) (h : u ≠ t) : setT c t x u = c.thr u := by simp [setT, h]

/-- a scheduled step of thread `t`; `inside` says whether the thread refreshes its clock reading when it
reads the state inside the lock (the code does; `estep` does not) -/
def thrStep (inside : Bool) (c : TConf) (t : Nat) : TConf :=
  match (c.thr t).todo with
  | [] => c
  | op :: rest =>
    match (c.thr t).phase with
    | .idle =>
      if c.holder = none then
        { c with holder := some t, thr := setT c t { c.thr t with phase := .locked, lockAt := c.clock } }
      else c
    | .locked =>
      { c with thr := setT c t { c.thr t with phase := .read, seen := c.st,
                                              seenNow := if inside then c.clock else (c.thr t).seenNow } }
    | .read =>
      { c with st := (step (c.thr t).seen (op.withNow (c.thr t).seenNow)).1,
               log := c.log ++ [⟨op.withNow (c.thr t).seenNow, (c.thr t).lockAt, c.clock⟩],
               thr := setT c t { c.thr t with phase := .written } }
    | .written =>
      { c with holder := none, thr := setT c t { c.thr t with todo := rest, phase := .idle } }

/-- One event of the code: the clock is read inside the lock only. -/
def tstep (c : TConf) : Ev → TConf
  | .tick d => { c with clock := c.clock + d }
  | .clk t => if (c.thr t).phase = .read then { c with thr := setT c t { c.thr t with seenNow := c.clock } } else c
  | .thr t => thrStep true c t

def trun (c : TConf) : List Ev → TConf
  | [] => c
  | e :: es => trun (tstep c e) es

/-- The variant that reads the clock BEFORE queuing for the lock (`now := m.clock.Now(); m.mu.Lock()`): `clk`
is enabled while the thread is idle, and the reading is not refreshed inside. -/
def estep (c : TConf) : Ev → TConf
  | .tick d => { c with clock := c.clock + d }
  | .clk t => if (c.thr t).phase = .idle then { c with thr := setT c t { c.thr t with seenNow := c.clock } } else c
  | .thr t => thrStep false c t

def erun (c : TConf) : List Ev → TConf
  | [] => c
  | e :: es => erun (estep c e) es

def tinit (s0 : St) (progs : Nat → List Op) : TConf :=
  ⟨s0, none, 0, fun i => ⟨progs i, .idle, s0, 0, 0⟩, []⟩

/-- `P`: any property of operations that holds of every operation of every program and does not depend on the
clock reading (`P op → P (op.withNow n)`), e.g. "comes from `progs`" or "its caller-supplied options are tame". -/
structure TInv (P : Op → Prop) (s0 : St) (c : TConf) : Prop where
  excl : ∀ t, (c.thr t).phase ≠ .idle → c.holder = some t
  fresh : ∀ t, (c.thr t).phase = .read → (c.thr t).seen = c.st
  win : ∀ t, (c.thr t).phase = .read → (c.thr t).lockAt ≤ (c.thr t).seenNow ∧ (c.thr t).seenNow ≤ c.clock
  lk : ∀ t, (c.thr t).phase = .locked ∨ (c.thr t).phase = .read →
    (c.thr t).lockAt ≤ c.clock ∧ ∀ e ∈ c.log, e.writeAt ≤ (c.thr t).lockAt
  past : ∀ e ∈ c.log, e.lockAt ≤ e.writeAt ∧ e.writeAt ≤ c.clock
  stamps : ∀ e ∈ c.log, ∀ n, e.op.now? = some n → e.lockAt ≤ n ∧ n ≤ e.writeAt
  ord : c.log.Pairwise (fun a b => a.writeAt ≤ b.lockAt)
  serial : c.st = run s0 (c.log.map (·.op))
  todoP : ∀ t, ∀ op ∈ (c.thr t).todo, P op
  logP : ∀ e ∈ c.log, P e.op

theorem tinv_init (P : Op → Prop) (s0 : St) (progs : Nat → List Op) (hP : ∀ t, ∀ op ∈ progs t, P op) :
    TInv P s0 (tinit s0 progs) :=
  ⟨fun t h => absurd rfl h, fun t h => by simp [tinit] at h, fun t h => by simp [tinit] at h,
   fun t h => by simp [tinit] at h, fun e he => by simp [tinit] at he, fun e he => by simp [tinit] at he,
   by simp [tinit], rfl, hP, fun e he => by simp [tinit] at he⟩

theorem thrStep_inv {P : Op → Prop} (hW : ∀ op n, P op → P (op.withNow n)) {s0 : St} {c : TConf}
    (hi : TInv P s0 c) (t : Nat) : TInv P s0 (thrStep true c t) := by
  -- the todo lists only shrink
  have keepTodo : ∀ (x : TThr), x.todo = (c.thr t).todo → ∀ u, ∀ op ∈ (setT c t x u).todo, P op := by
    intro x hx u
    by_cases hut : u = t
    · subst hut; simp only [setT_same, hx]; exact hi.todoP u
    · simp only [setT_other c t u _ hut]; exact hi.todoP u
  unfold thrStep
  cases htodo : (c.thr t).todo with
  | nil => exact hi
  | cons op rest =>
    simp only
    cases hph : (c.thr t).phase with
    | idle =>
      simp only
      by_cases hh : c.holder = none
      · simp only [hh, if_true]
        have nobody : ∀ u, u ≠ t → (c.thr u).phase = .idle := by
          intro u _
          cases hu : (c.thr u).phase with
          | idle => rfl
          | locked => have := hi.excl u (by rw [hu]; simp); rw [hh] at this; cases this
          | read => have := hi.excl u (by rw [hu]; simp); rw [hh] at this; cases this
          | written => have := hi.excl u (by rw [hu]; simp); rw [hh] at this; cases this
        refine ⟨?_, ?_, ?_, ?_, hi.past, hi.stamps, hi.ord, hi.serial, keepTodo _ rfl, hi.logP⟩
        · intro u hu
          by_cases hut : u = t
          · subst hut; rfl
          · simp only [setT_other c t u _ hut] at hu
            exact absurd (nobody u hut) hu
        · intro u hu
          by_cases hut : u = t
          · subst hut; simp [setT_same] at hu
          · simp only [setT_other c t u _ hut] at hu
            rw [nobody u hut] at hu; cases hu
        · intro u hu
          by_cases hut : u = t
          · subst hut; simp [setT_same] at hu
          · simp only [setT_other c t u _ hut] at hu
            rw [nobody u hut] at hu; cases hu
        · intro u hu
          by_cases hut : u = t
          · subst hut
            simp only [setT_same]
            exact ⟨Nat.le_refl _, fun e he => (hi.past e he).2⟩
          · simp only [setT_other c t u _ hut] at hu
            rw [nobody u hut] at hu
            rcases hu with hu | hu <;> cases hu
      · simp only [hh, if_false]; exact hi
    | locked =>
      simp only
      have hlk := hi.lk t (Or.inl hph)
      refine ⟨?_, ?_, ?_, ?_, hi.past, hi.stamps, hi.ord, hi.serial, keepTodo _ rfl, hi.logP⟩
      · intro u hu
        by_cases hut : u = t
        · subst hut; exact hi.excl u (by rw [hph]; simp)
        · simp only [setT_other c t u _ hut] at hu
          exact hi.excl u hu
      · intro u hu
        by_cases hut : u = t
        · subst hut; simp [setT_same]
        · simp only [setT_other c t u _ hut] at hu ⊢
          exact hi.fresh u hu
      · intro u hu
        by_cases hut : u = t
        · subst hut; simp only [setT_same, if_true]; exact ⟨hlk.1, Nat.le_refl _⟩
        · simp only [setT_other c t u _ hut] at hu ⊢
          exact hi.win u hu
      · intro u hu
        by_cases hut : u = t
        · subst hut; simp only [setT_same]; exact hlk
        · simp only [setT_other c t u _ hut] at hu ⊢
          exact hi.lk u hu
    | read =>
      simp only
      have hseen := hi.fresh t hph
      have hhold := hi.excl t (by rw [hph]; simp)
      have hwin := hi.win t hph
      have hlk := hi.lk t (Or.inr hph)
      have others : ∀ u, u ≠ t → (c.thr u).phase = .idle := by
        intro u hut
        cases hu : (c.thr u).phase with
        | idle => rfl
        | locked => have := hi.excl u (by rw [hu]; simp); rw [hhold] at this; exact absurd (Option.some.inj this).symm hut
        | read => have := hi.excl u (by rw [hu]; simp); rw [hhold] at this; exact absurd (Option.some.inj this).symm hut
        | written => have := hi.excl u (by rw [hu]; simp); rw [hhold] at this; exact absurd (Option.some.inj this).symm hut
      refine ⟨?_, ?_, ?_, ?_, ?_, ?_, ?_, ?_, keepTodo _ rfl, ?_⟩
      rotate_left 8
      · intro e he
        rcases List.mem_append.mp he with he | he
        · exact hi.logP e he
        · simp only [List.mem_singleton] at he
          subst he
          exact hW op _ (hi.todoP t op (by rw [htodo]; simp))
      · intro u hu
        by_cases hut : u = t
        · subst hut; exact hhold
        · simp only [setT_other c t u _ hut] at hu
          exact hi.excl u hu
      · intro u hu
        by_cases hut : u = t
        · subst hut; simp [setT_same] at hu
        · simp only [setT_other c t u _ hut] at hu
          rw [others u hut] at hu; cases hu
      · intro u hu
        by_cases hut : u = t
        · subst hut; simp [setT_same] at hu
        · simp only [setT_other c t u _ hut] at hu
          rw [others u hut] at hu; cases hu
      · intro u hu
        by_cases hut : u = t
        · subst hut; simp [setT_same] at hu
        · simp only [setT_other c t u _ hut] at hu
          rw [others u hut] at hu
          rcases hu with hu | hu <;> cases hu
      · intro e he
        rcases List.mem_append.mp he with he | he
        · exact hi.past e he
        · simp only [List.mem_singleton] at he
          subst he
          exact ⟨hlk.1, Nat.le_refl _⟩
      · intro e he n hn
        rcases List.mem_append.mp he with he | he
        · exact hi.stamps e he n hn
        · simp only [List.mem_singleton] at he
          subst he
          have := Op.now?_withNow hn
          subst this
          exact hwin
      · rw [List.pairwise_append]
        refine ⟨hi.ord, by simp, ?_⟩
        intro a ha b hb
        simp only [List.mem_singleton] at hb
        subst hb
        exact hlk.2 a ha
      · show (step (c.thr t).seen (op.withNow (c.thr t).seenNow)).1 = run s0 ((c.log ++ [(⟨op.withNow (c.thr t).seenNow, (c.thr t).lockAt, c.clock⟩ : Entry)]).map Entry.op)
        rw [List.map_append, run_append, ← hi.serial, hseen]; rfl
    | written =>
      simp only
      have hhold := hi.excl t (by rw [hph]; simp)
      have shrink : ∀ u, ∀ o ∈ (setT c t { c.thr t with todo := rest, phase := .idle } u).todo, P o := by
        intro u
        by_cases hut : u = t
        · subst hut
          simp only [setT_same]
          intro o ho
          exact hi.todoP u o (by rw [htodo]; simp [ho])
        · simp only [setT_other c t u _ hut]; exact hi.todoP u
      refine ⟨?_, ?_, ?_, ?_, hi.past, hi.stamps, hi.ord, hi.serial, shrink, hi.logP⟩
      · intro u hu
        by_cases hut : u = t
        · subst hut; simp [setT_same] at hu
        · simp only [setT_other c t u _ hut] at hu
          have := hi.excl u hu
          rw [hhold] at this
          exact absurd (Option.some.inj this).symm hut
      · intro u hu
        by_cases hut : u = t
        · subst hut; simp [setT_same] at hu
        · simp only [setT_other c t u _ hut] at hu ⊢
          exact hi.fresh u hu
      · intro u hu
        by_cases hut : u = t
        · subst hut; simp [setT_same] at hu
        · simp only [setT_other c t u _ hut] at hu ⊢
          exact hi.win u hu
      · intro u hu
        by_cases hut : u = t
        · subst hut; simp [setT_same] at hu
        · simp only [setT_other c t u _ hut] at hu ⊢
          exact hi.lk u hu

theorem tstep_inv {P : Op → Prop} (hW : ∀ op n, P op → P (op.withNow n)) {s0 : St} {c : TConf}
    (hi : TInv P s0 c) (e : Ev) : TInv P s0 (tstep c e) := by
  cases e with
  | tick d =>
    simp only [tstep]
    refine ⟨hi.excl, hi.fresh, ?_, ?_, ?_, hi.stamps, hi.ord, hi.serial, hi.todoP, hi.logP⟩
    · intro t ht; have := hi.win t ht; exact ⟨this.1, Nat.le_trans this.2 (Nat.le_add_right _ _)⟩
    · intro t ht; have := hi.lk t ht; exact ⟨Nat.le_trans this.1 (Nat.le_add_right _ _), this.2⟩
    · intro e he; have := hi.past e he; exact ⟨this.1, Nat.le_trans this.2 (Nat.le_add_right _ _)⟩
  | thr t => exact thrStep_inv hW hi t
  | clk t =>
    simp only [tstep]
    by_cases hph : (c.thr t).phase = .read
    · simp only [hph, if_true]
      have hlk := hi.lk t (Or.inr hph)
      refine ⟨?_, ?_, ?_, ?_, hi.past, hi.stamps, hi.ord, hi.serial, ?_, hi.logP⟩
      rotate_left 4
      · intro u
        by_cases hut : u = t
        · subst hut; simp only [setT_same]; exact hi.todoP u
        · simp only [setT_other c t u _ hut]; exact hi.todoP u
      · intro u hu
        by_cases hut : u = t
        · subst hut; exact hi.excl u (by rw [hph]; simp)
        · simp only [setT_other c t u _ hut] at hu
          exact hi.excl u hu
      · intro u hu
        by_cases hut : u = t
        · subst hut; simp only [setT_same]; exact hi.fresh u hph
        · simp only [setT_other c t u _ hut] at hu ⊢
          exact hi.fresh u hu
      · intro u hu
        by_cases hut : u = t
        · subst hut; simp only [setT_same]; exact ⟨hlk.1, Nat.le_refl _⟩
        · simp only [setT_other c t u _ hut] at hu ⊢
          exact hi.win u hu
      · intro u hu
        by_cases hut : u = t
        · subst hut; simp only [setT_same]; exact hlk
        · simp only [setT_other c t u _ hut] at hu ⊢
          exact hi.lk u hu
    · simp only [hph, if_false]; exact hi

theorem trun_inv {P : Op → Prop} (hW : ∀ op n, P op → P (op.withNow n)) {s0 : St} {c : TConf}
    (hi : TInv P s0 c) (evs : List Ev) : TInv P s0 (trun c evs) := by
  induction evs generalizing c with
  | nil => exact hi
  | cons e es ih => exact ih (tstep_inv hW hi e)

/-- tameness of the caller-supplied options does not depend on the clock reading -/
theorem Op.tame_withNow (op : Op) (n : Nat) (h : op.Tame) : (op.withNow n).Tame := by
  cases op <;> first | exact h | trivial

end ScVerif.C19
