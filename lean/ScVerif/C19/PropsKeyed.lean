import ScVerif.C19.PropsOpts
import ScVerif.C19.KeyedRefine
/-!
# C19 — round 6: keys and records apart

`Keyed.lean` models the mode collection as the code has it — a map from KEY to record — and follows for every
operation of `model.go` which of the two notions it uses (lookups, updates and deletes go by key; the
delete-the-active-mode guard, the stamp condition, the second-normal-mode guard and `ChangeToNormalMode` go by
the `id` field the RECORD carries).  The theorems below say

* that on states where every record carries its key the keyed model IS the model of `Electric.lean`, for every
  operation and every option (`C19_keyed_refines`), that tame operations stay in those states, hence that all the
  invariants hold of the keyed model after any tame run from any configuration of initial records — the general
  `WithModeOption(resource.WithInitialRecord(key, mode))` included — that the constructor accepts and whose records
  carry their keys (`C19_keyed_inv`);
* that the collection's own invariant, distinct keys, needs no hypothesis at all (`C19_keyed_keys`); that the stream
  events — the change of the one key an operation wrote — are those of `Events.lean` (`C19_keyed_events`); that a mode
  made active by id cannot be deleted by that id (`C19_keyed_I2`); and what a subscriber that joins the streams later
  sees (`C19_pull_late`);
* what follows once a record does not carry its key, derived in the model (not only observed on the code): after the
  untame writes of `C19_options_fails`, or from a configuration with a foreign key, `ChangeActiveMode(key)` followed
  by `DeleteMode(key)` succeeds and deletes the active mode — I2 and I3 are lost (`C19_keyed_untame_fails`,
  `C19_keyed_config_fails`).
-/
namespace ScVerif.C19

/-- **C19_keyed_refines.** In a state where every record is stored under the id it carries, every operation — with
ANY options, tame or not — does in the keyed model exactly what `step` does on the listing: same result, same
modes, same active mode, same PullActiveMode events; and a tame operation leaves every record under the id it carries.  States of
`Electric.lean` are such states. -/
theorem C19_keyed_refines (k : KSt) (hk : KeyOk k) (op : Op) :
    (kstep k op).1.abs = (step k.abs op).1 ∧ (kstep k op).2 = (step k.abs op).2 ∧
    (op.Tame → KeyOk (kstep k op).1) ∧
    kactiveEvents k op = activeEvents k.abs op ∧
    (∀ s : St, KeyOk (KSt.ofSt s) ∧ (KSt.ofSt s).abs = s) := by
  have h := kstep_abs hk op
  refine ⟨by rw [← h]; rfl, by rw [← h]; rfl, kstep_keyOk hk op, kactiveEvents_abs hk op, ?_⟩
  intro s
  refine ⟨?_, ?_⟩
  · intro e he
    obtain ⟨m, _, rfl⟩ := List.mem_map.mp he
    rfl
  · simp [KSt.ofSt, KSt.abs, List.map_map, Function.comp_def]

/-- **C19_keyed_inv.** The invariants of the keyed model.  From ANY configuration of initial records
`resource.WithInitialRecord(key, mode)` (what `WithInitialMode` produces, or given directly through
`WithModeOption`) that the constructor accepts (distinct keys) and in which every record carries its key and at
most one is normal, after ANY sequence of tame operations: the state shown is the run of `Electric.lean`'s model;
at most one listed mode is normal; once changed, the active mode's id is a key of the collection (so the guard of
`deleteMode`, which compares ids, protects the record the active mode was copied from); every listed record is what
a lookup of the id it carries finds; keys are distinct. -/
theorem C19_keyed_inv (recs : List Rec) (active : Mode) (k0 : KSt) (hc : KSt.config? recs active = some k0)
    (hrec : ∀ e ∈ recs, e.1 = e.2.id)
    (h1 : ∀ x ∈ recs, ∀ y ∈ recs, x.2.normal = true → y.2.normal = true → x = y)
    (ops : List Op) (ht : ∀ op ∈ ops, op.Tame) :
    let k := krun k0 ops
    k.abs = run (St.config (recs.map (·.2)) active) ops ∧
    ((k.recs.map (·.2)).filter (·.normal)).length ≤ 1 ∧
    (k.changed = true → (kfind k k.active.id).isSome = true) ∧
    (∀ e ∈ k.recs, e.1 = e.2.id ∧ kfind k e.2.id = some e.2) ∧
    (k.recs.map (·.1)).Nodup := by
  unfold KSt.config? at hc
  by_cases hnd : (recs.map (·.1)).Nodup
  · simp only [hnd, decide_true, if_true, Option.some.injEq] at hc
    subst hc
    obtain ⟨habs0, hk0⟩ := kconfig_abs recs active hrec
    obtain ⟨habs, hk⟩ := krun_abs hk0 ops ht
    have hkeys := krun_keys (k := KSt.config recs active) (keys_kconfig recs hnd) ops
    -- the configuration is InitOk
    have hids : recs.map (·.1) = (recs.map (·.2)).map (·.id) := by
      rw [List.map_map]
      exact List.map_congr_left (fun e he => hrec e he)
    have hinit : InitOk (recs.map (·.2)) := by
      refine ⟨by rw [← hids]; exact hnd, ?_⟩
      intro x hx y hy hxn hyn
      obtain ⟨ex, hex, rfl⟩ := List.mem_map.mp hx
      obtain ⟨ey, hey, rfl⟩ := List.mem_map.mp hy
      rw [h1 ex hex ey hey hxn hyn]
    have hinv : Inv active (run (St.config (recs.map (·.2)) active) ops) :=
      run_inv (inv_config _ active hinit) ops ht
    rw [habs0] at habs
    rw [← habs] at hinv
    refine ⟨habs, normal_count_le_one hinv, ?_, ?_, hkeys⟩
    · intro hch
      obtain ⟨x, hx, hxa⟩ := hinv.i3 hch
      rw [kfind_abs hk]
      have : find (krun (KSt.config recs active) ops).abs x.id = some x := find_of_mem hinv hx
      show (find (krun (KSt.config recs active) ops).abs (krun (KSt.config recs active) ops).abs.active.id).isSome = true
      rw [← hxa, this]; rfl
    · intro e he
      refine ⟨hk e he, ?_⟩
      rw [kfind_abs hk]
      exact find_of_mem hinv (List.mem_map.mpr ⟨e, he, rfl⟩)
  · simp [hnd] at hc

/-- **C19_keyed_events.** What the streams carry, keys and records apart: the collection publishes the change of the
ONE key an operation wrote (`kmodeEvents`: ADD for a new key, UPDATE unless the record is unchanged, REMOVE).  On a
state where every record carries its key that is exactly `modeEvents` of `Events.lean`, for every operation and
every option; over a tame run the whole event sequence is `runEvents`, so `C19_pull_modes` (after EVERY event a
subscriber's folded view has at most one normal mode and unique ids, and at the end it is the listing) holds of
the keyed model from any configuration of `C19_keyed_inv`. -/
theorem C19_keyed_events (k : KSt) (hk : KeyOk k) :
    (∀ op, kmodeEvents k op = modeEvents k.abs op ∧ (kmodeEvents k op).length ≤ 1) ∧
    (∀ ops, (∀ op ∈ ops, op.Tame) → krunEvents k ops = runEvents k.abs ops) := by
  refine ⟨fun op => ⟨kmodeEvents_abs hk op, ?_⟩, fun ops ht => krunEvents_abs hk ops ht⟩
  unfold kmodeEvents
  split
  · simp
  · rename_i key _
    cases kfind k key <;> cases kfind (kstep k op).1 key <;> simp [diff1] <;> split <;> simp

/-- **C19_keyed_I2.** "The active mode is never deleted", keys and records apart: in a state where every record carries
its key, a mode that `ChangeActiveMode(id)` / `UpdateActiveMode` has just made active (the lookup goes by KEY) carries
the id it was selected by, is still stored under that key, and `DeleteMode(id)` — whose guard compares IDS — is
refused with FailedPrecondition whatever its options, at both API levels.  (`C19_keyed_untame_fails` is exactly the
failure of this when a record does not carry its key.) -/
theorem C19_keyed_I2 (k : KSt) (hk : KeyOk k) (id : String) (now : Nat) (am : Bool) (d : DOpts)
    (hok : (kstep k (.changeActive id now)).2.isOk = true) :
    let k' := (kstep k (.changeActive id now)).1
    k'.active.id = id ∧ (kfind k' id).isSome = true ∧
    kstep k' (.delete id am d) = (k', .err .failedPrecondition) ∧
    (id ≠ "" → kstep k' (.sDelete id am) = (k', .err .failedPrecondition) ∧
      kstep k (.sChangeActive id now) = kstep k (.changeActive id now)) := by
  simp only [kstep, kchangeActive] at hok ⊢
  cases hf : kfind k id with
  | none => simp [hf, Res.isOk] at hok
  | some m =>
    have hmid : m.id = id := by
      rw [kfind_abs hk] at hf
      exact (find_some hf).2
    have hact : (if k.active.id ≠ m.id then { m with start := some now } else m).id = id := by
      split <;> exact hmid
    simp only [hf]
    refine ⟨hact, ?_, ?_, ?_⟩
    · show (kfind k id).isSome = true
      rw [hf]; rfl
    · simp only [kdeleteMode, hact, if_true]
    · intro hne
      simp only [hne, if_false, kdeleteMode, hact, if_true, and_self]

/-- **C19_pull_late.** A subscriber that joins PullModes / PullActiveMode LATER (after any tame prefix `pre` of the
run, not updates-only): it is first sent the stored modes in listing order and the current active mode, then the
events of the rest of the run.  While the seed arrives every prefix of it — and afterwards the view after EVERY
event — has at most one normal mode and unique ids; after all events the view is the model's mode list; and the
active mode it is seeded with names a stored mode once the active mode was changed. -/
theorem C19_pull_late (modes : List Mode) (active : Mode) (hcfg : InitOk modes) (pre post : List Op)
    (ht : ∀ op ∈ pre ++ post, op.Tame) :
    let s := run (St.config modes active) pre
    (∀ k, ((s.modes.take k).filter (·.normal)).length ≤ 1 ∧ ((s.modes.take k).map (·.id)).Nodup) ∧
    (∀ k, let view := ((runEvents s post).take k).foldl applyEvent s.modes
      (view.filter (·.normal)).length ≤ 1 ∧ (view.map (·.id)).Nodup) ∧
    (runEvents s post).foldl applyEvent s.modes = (run (St.config modes active) (pre ++ post)).modes ∧
    (s.changed = true → ∃ x ∈ s.modes, x.id = s.active.id) := by
  have htpre : ∀ op ∈ pre, op.Tame := fun op h => ht op (by simp [h])
  have htpost : ∀ op ∈ post, op.Tame := fun op h => ht op (by simp [h])
  have hi : Inv active (run (St.config modes active) pre) := run_inv (inv_config modes active hcfg) pre htpre
  refine ⟨?_, ?_, ?_, hi.i3⟩
  · intro k
    have hsub : ((run (St.config modes active) pre).modes.take k).Sublist (run (St.config modes active) pre).modes :=
      List.take_sublist _ _
    refine ⟨?_, List.Nodup.sublist (List.Sublist.map _ hsub) hi.nodup⟩
    exact Nat.le_trans (List.Sublist.length_le (List.Sublist.filter _ hsub)) (normal_count_le_one hi)
  · intro k
    obtain ⟨s', hi', hv⟩ := view_prefix _ hi post htpost k
    simp only [hv]
    exact ⟨normal_count_le_one hi', hi'.nodup⟩
  · rw [run_append]
    exact view_full _ hi post htpost

/-- **C19_keyed_keys.** The collection is a map: from any state with distinct keys, after ANY operations with ANY
options (no tameness, no hypothesis on the records), the keys are distinct. -/
theorem C19_keyed_keys (k : KSt) (h : (k.recs.map (·.1)).Nodup) (ops : List Op) :
    ((krun k ops).recs.map (·.1)).Nodup :=
  krun_keys h ops

/-- the reachable state `sAB` (modes `a` (normal, active) and `b`) as a keyed state -/
def ksAB : KSt := KSt.ofSt sAB

/-- **C19_keyed_untame_fails.** What the untame writes of `C19_options_fails` lead to, derived in the model: after an
`UpdateMode` of `b` with a reset mask naming `id` (the record under key `b` then carries the id ""), or with an
`InterceptAfter` that renames the record (id "zz"), `ChangeActiveMode("b")` succeeds — the lookup goes by key — and
makes a mode active whose id is not "b": the active mode's id names no stored mode as a key (`GetMode(active.id)` is
NotFound; I3 by key), and the listed record is not found under the id it carries.  Since 00bc77e `DeleteMode("b")` is
refused all the same (the guard also looks at the record stored under the key; `C19_icpt_I2_step` with the identity),
so I2 no longer falls with I3; before 00bc77e (`kdeleteModeUnfixed`) the delete passed the guard, succeeded, and the
collection no longer had the record the active mode was copied from. -/
theorem C19_keyed_untame_fails :
    (let k1 := (kstep ksAB (.update mB none { reset := some ⟨[.id], false⟩ })).1
     let r2 := kstep k1 (.changeActive "b" 5)
     let r3 := kstep r2.1 (.delete "b" false {})
     let r3u := kdeleteModeUnfixed r2.1 "b" false {}
     r2.2.isOk = true ∧ r2.1.active.id = "" ∧ kfind r2.1 r2.1.active.id = none ∧
     r3 = (r2.1, .err .failedPrecondition) ∧
     r3u.2 = .ok none ∧ kfind r3u.1 "b" = none ∧ r3u.1.recs.map (·.2.id) = ["a"]) ∧
    (let k1 := (kstep ksAB (.update mB (some ⟨[.title], false⟩) { after := some fun _ n => { n with id := "zz" } })).1
     let r2 := kstep k1 (.changeActive "b" 5)
     let r3 := kstep r2.1 (.delete "b" false {})
     let r3u := kdeleteModeUnfixed r2.1 "b" false {}
     r2.2.isOk = true ∧ r2.1.active.id = "zz" ∧ kfind r2.1 r2.1.active.id = none ∧
     r3 = (r2.1, .err .failedPrecondition) ∧
     r3u.2 = .ok none ∧ kfind r3u.1 "b" = none ∧ r3u.1.recs.map (·.2.id) = ["a"]) := by decide

/-- **C19_keyed_config_fails.** `C19_keyed_inv`'s hypothesis on the configuration is needed: the constructor accepts
an initial record under a key it does not carry (`WithModeOption(resource.WithInitialRecord("k", mode a))`); then
`ChangeActiveMode("k")` makes a mode with id `a` active, an id that names no stored mode as a key.  Since 00bc77e
`DeleteMode("k")` is refused (the record stored under `k` carries the active mode's id); before, it deleted the
active mode. -/
theorem C19_keyed_config_fails :
    (KSt.config? [("k", mA), ("b", mB)] Mode.blank).isSome = true ∧
    (let r2 := kstep (KSt.config [("k", mA), ("b", mB)] Mode.blank) (.changeActive "k" 5)
     let r3 := kstep r2.1 (.delete "k" false {})
     let r3u := kdeleteModeUnfixed r2.1 "k" false {}
     r2.2.isOk = true ∧ r2.1.active.id = "a" ∧ kfind r2.1 r2.1.active.id = none ∧
     r3 = (r2.1, .err .failedPrecondition) ∧
     r3u.2 = .ok none ∧ r3u.1.recs.map (·.2.id) = ["b"]) := by decide

/-! ## Non-vacuity -/

/-- a configuration through `WithInitialRecord` with every record under its id is accepted, listed in key order … -/
example : (KSt.config? [("b", mB), ("a", mA)] Mode.blank).isSome = true ∧
    (KSt.config [("b", mB), ("a", mA)] Mode.blank).recs = [("a", mA), ("b", mB)] := by decide
/-- … and satisfies the hypotheses of `C19_keyed_inv` (records under their ids, at most one normal) -/
example : (∀ e ∈ [("b", mB), ("a", mA)], e.1 = e.2.id) ∧
    (∀ x ∈ [("b", mB), ("a", mA)], ∀ y ∈ [("b", mB), ("a", mA)], x.2.normal = true → y.2.normal = true → x = y) := by
  decide
/-- … a key configured twice is not -/
example : KSt.config? [("a", mA), ("a", mB)] Mode.blank = none := by decide
/-- the keyed model and `step` on a tame run: same listing, active mode and results -/
example : (krun (KSt.config [("b", mB), ("a", mA)] Mode.blank) [.changeActive "b" 7, .delete "a" false {}]).abs
    = run (St.config [mB, mA] Mode.blank) [.changeActive "b" 7, .delete "a" false {}] := by decide
/-- `C19_keyed_I2` is not vacuous: on `ksAB` the switch to `b` succeeds, after which `b` cannot be deleted -/
example : (kstep ksAB (.changeActive "b" 5)).2.isOk = true ∧
    (kstep (kstep ksAB (.changeActive "b" 5)).1 (.delete "b" true {})).2 = .err .failedPrecondition := by decide
/-- after the untame write the keyed model still answers by key: the record without id is found under `b`, and the
guard of `deleteMode` still refuses the id the active mode carries -/
example : kfind (kstep ksAB (.update mB none { reset := some ⟨[.id], false⟩ })).1 "b" = some { mB with id := "" } ∧
    (kstep (kstep (kstep ksAB (.update mB none { reset := some ⟨[.id], false⟩ })).1 (.changeActive "b" 5)).1
      (.delete "" true {})).2 = .err .failedPrecondition := by decide

end ScVerif.C19
