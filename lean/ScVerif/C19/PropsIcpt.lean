import ScVerif.C19.PropsKeyed
import ScVerif.C19.Icpt
import ScVerif.C19.IcptInv
/-!
# C19 — round 7: the mode collection behind an id interceptor

`electricpb.WithModeOption(resource.WithIDInterceptor(c))` (e.g. a lower-casing `c`) makes the collection look every
id it is given up under `c(id)`; `model.go` compares ids as spelled.  `Icpt.lean` follows the code with `c` applied
where `collection.go` applies it (`ikstep c`).

* `C19_icpt_identity`: with the identity it is the keyed model (state, result, both streams), so nothing proved so
  far is lost;
* `C19_icpt_invisible`: for ANY `c`, an operation that spells its ids canonically (`c id = id`), in a state whose
  records carry canonical ids, does exactly what it does without the interceptor — any options;
* `C19_icpt_inv`: hence all invariants after any canonical tame run from any accepted configuration of canonical
  records, for ANY `c`;
* `C19_icpt_I1`: whatever the spellings, at most one mode is normal and every record stays under the canonical form
  of its id (idempotent `c`, tame operations);
* `C19_icpt_I2`: since 00bc77e + c078347 (`deleteMode` also looks at what the collection finds under the id and under
  the active mode's id) I2 and I3 hold behind every idempotent interceptor, whatever the spellings: once changed the
  active mode's id leads to a stored mode, and a delete under ANY spelling of that key is refused, nothing changed;
* `C19_icpt_I2_step`: one step, any `c` at all, any state at all (no hypothesis on records or options): the mode a
  successful `ChangeActiveMode(id)` made active cannot be deleted under any spelling `id'` with `c id' = c id`;
  and where records carry their keys and ids are canonical the new guards decide as the old one did;
* `C19_icpt_fails`: the defect as it was (`ikdeleteModeUnfixed`): a caller that uses two spellings of one id
  (`AddMode B`, `ChangeActiveMode B`, `DeleteMode b`) deleted the active mode; the code now refuses;
* `C19_icpt_respell_fails`: the second guard alone (00bc77e, `ikdeleteModeHalf`) is not enough — an `UpdateMode{Id:b}`
  in between respells the stored id; the third guard (c078347) is what `C19_icpt_I2` needs.
-/
namespace ScVerif.C19

/-- **C19_icpt_identity.** With the identity as interceptor (no `WithIDInterceptor`), the interceptor model is the
keyed model: same state and result for every operation and every option, same PullModes and PullActiveMode events. -/
theorem C19_icpt_identity (k : KSt) (op : Op) :
    ikstep (fun x => x) k op = kstep k op ∧
    ikmodeEvents (fun x => x) k op = kmodeEvents k op ∧
    ikactiveEvents (fun x => x) k op = kactiveEvents k op := by
  refine ⟨ikstep_id k op, ?_, ?_⟩
  · have hw : ikwrittenKey (fun x => x) k op = kwrittenKey k op := by
      cases op <;> simp only [ikwrittenKey, kwrittenKey, ikchooseId, kchooseId, ikgenId_id, or_self]
      case add m => by_cases h : m.id = "" <;> simp [h]
    unfold ikmodeEvents kmodeEvents
    rw [hw, ikstep_id]
    rfl
  · unfold ikactiveEvents kactiveEvents
    rw [ikstep_id]

/-- **C19_icpt_invisible.** For ANY id interceptor `c`: an operation — any kind, any options, tame or not — all of
whose ids are spelled canonically (`c id = id`; for CreateMode also the ids the RNG proposes), in a state whose
records and active mode carry canonical ids, has the result and the effect it has without the interceptor and
publishes the same PullModes / PullActiveMode events; the active mode's id is canonical afterwards, and if the
operation is tame the records still carry canonical ids. -/
theorem C19_icpt_invisible (c : String → String) (k : KSt) (op : Op) (ho : OpCanon c op) (hk : RecsCanon c k)
    (ha : ActCanon c k) :
    ikstep c k op = kstep k op ∧
    ikmodeEvents c k op = kmodeEvents k op ∧ ikactiveEvents c k op = kactiveEvents k op ∧
    ActCanon c (ikstep c k op).1 ∧
    (op.Tame → RecsCanon c (ikstep c k op).1) := by
  refine ⟨ikstep_canon c k op ho hk ha, (ikevents_canon c k op ho hk ha).1, (ikevents_canon c k op ho hk ha).2, ?_,
    fun ht => ?_⟩
  · rw [ikstep_canon c k op ho hk ha]
    exact kstep_actCanon hk ha op ho
  · rw [ikstep_canon c k op ho hk ha]
    exact kstep_canon hk op ho ht

/-- **C19_icpt_inv.** The invariants behind ANY id interceptor `c`, for callers that spell ids canonically.  From
any configuration of initial records the constructor accepts (keys distinct after `c`) in which every record carries
its key, the keys and the initial active mode's id (unless empty: the placeholder) are canonical and at most one record is normal, after ANY sequence of tame operations with
canonical ids: the run is the run of the keyed model without interceptor — hence of `Electric.lean`'s model —, at
most one listed mode is normal, once changed the active mode's id is a key of the collection, every listed record is
found under the id it carries, keys are distinct. -/
theorem C19_icpt_inv (c : String → String) (recs : List Rec) (active : Mode) (k0 : KSt)
    (hc : KSt.iconfig? c recs active = some k0)
    (hrec : ∀ e ∈ recs, e.1 = e.2.id) (hcan : ∀ e ∈ recs, c e.1 = e.1) (hact : active.id = "" ∨ c active.id = active.id)
    (h1 : ∀ x ∈ recs, ∀ y ∈ recs, x.2.normal = true → y.2.normal = true → x = y)
    (ops : List Op) (ht : ∀ op ∈ ops, OpCanon c op ∧ op.Tame) :
    let k := ikrun c k0 ops
    k = krun k0 ops ∧
    k.abs = run (St.config (recs.map (·.2)) active) ops ∧
    ((k.recs.map (·.2)).filter (·.normal)).length ≤ 1 ∧
    (k.changed = true → (kfind k k.active.id).isSome = true) ∧
    (∀ e ∈ k.recs, e.1 = e.2.id ∧ kfind k e.2.id = some e.2) ∧
    (k.recs.map (·.1)).Nodup := by
  have hmap : recs.map (fun e => (c e.1, e.2)) = recs := by
    have : recs.map (fun e => (c e.1, e.2)) = recs.map (fun e => e) :=
      List.map_congr_left (fun e he => by rw [hcan e he])
    rw [this, List.map_id']
  unfold KSt.iconfig? at hc
  rw [hmap] at hc
  have hk0 : RecsCanon c k0 := by
    unfold KSt.config? at hc
    split at hc
    · cases hc
      intro e he
      have he' : e ∈ recs := (mem_kconfig recs e).mp he
      rw [← hrec e he']
      exact hcan e he'
    · cases hc
  have ha0 : ActCanon c k0 := by
    unfold KSt.config? at hc
    split at hc
    · cases hc
      exact hact
    · cases hc
  obtain ⟨hrun, _⟩ := ikrun_canon c ops k0 hk0 ha0 ht
  have := C19_keyed_inv recs active k0 hc hrec h1 ops (fun op hop => (ht op hop).2)
  simp only [hrun]
  exact ⟨trivial, this⟩

/-- **C19_icpt_I1.** What survives ANY spelling.  For every idempotent id interceptor `c` (`c (c x) = c x`, e.g.
lower-casing), from any state in which every record is kept under the canonical form of the id it carries, keys are
distinct and at most one record is normal — a new model is such a state —, after ANY sequence of tame operations,
the ids spelled in any way whatever (no canonical-spelling hypothesis): still at most one mode is normal (I1), every
record is still kept under the canonical form of its id, and keys are distinct.  So behind an interceptor only I2 / I3
are at stake (`C19_icpt_fails`), never I1. -/
theorem C19_icpt_I1 (c : String → String) (hc : ∀ x, c (c x) = c x) (k0 : KSt)
    (hkc : ∀ e ∈ k0.recs, e.1 = c e.2.id) (hnd : (k0.recs.map (·.1)).Nodup)
    (h1 : ∀ e1 ∈ k0.recs, ∀ e2 ∈ k0.recs, e1.2.normal = true → e2.2.normal = true → e1 = e2)
    (ops : List Op) (ht : ∀ op ∈ ops, op.Tame) :
    let k := ikrun c k0 ops
    ((k.recs.map (·.2)).filter (·.normal)).length ≤ 1 ∧
    (∀ e1 ∈ k.recs, ∀ e2 ∈ k.recs, e1.2.normal = true → e2.2.normal = true → e1 = e2) ∧
    (∀ e ∈ k.recs, e.1 = c e.2.id) ∧ (k.recs.map (·.1)).Nodup := by
  have hj := ikrun_J hc ops k0 ⟨hkc, hnd, h1⟩ ht
  exact ⟨J_count hj, hj.n1, hj.kc, hj.nd⟩

/-- a small interceptor with two spellings of one id: `B` is kept under `b` -/
def foldB : String → String := fun s => if s = "B" then "b" else s

/-- **C19_icpt_fails.** The defect as it was before 00bc77e (`ikdeleteModeUnfixed`: the only guard compared
spellings), derived in the model: behind an interceptor that keeps `B` under `b`, on a new model `AddMode{Id:"B"}`
(stored under `b`, the record says `B`), `ChangeActiveMode("B")` (found under `b`; the active mode's id is `B`),
`DeleteMode("b")`: the guard compared the spellings `b` and `B`, the collection deleted the key `b` — the call
succeeded, no mode was left, the active mode had been deleted (I2) and named no stored mode (I3).  The code as it is
(`ikstep`) refuses that delete, as it refuses the one spelled `B`.  Second run, through the servers: a client that
says `b` throughout (`UpdateActiveMode b`, `DeleteMode b`) deleted the active mode all the same, because the record
was added as `B` and the active mode carries that spelling; refused now. -/
theorem C19_icpt_fails :
    (let mB' : Mode := Mode.mk4 "B" "tb" false none
     let r1 := ikstep foldB (KSt.ofSt St.init) (.add mB')
     let r2 := ikstep foldB r1.1 (.changeActive "B" 5)
     let r3 := ikdeleteModeUnfixed foldB r2.1 "b" false {}
     r1.2 = .ok none ∧ r1.1.recs = [("b", mB')] ∧ r2.2.isOk = true ∧ r2.1.active.id = "B" ∧
     r3.2 = .ok none ∧ r3.1.recs = [] ∧ r3.1.changed = true ∧ kfind r3.1 (foldB r3.1.active.id) = none ∧
     ikstep foldB r2.1 (.delete "b" false {}) = (r2.1, .err .failedPrecondition) ∧
     ikstep foldB r2.1 (.delete "B" false {}) = (r2.1, .err .failedPrecondition)) ∧
    (let mB' : Mode := Mode.mk4 "B" "tb" false none
     let r1 := ikstep foldB (KSt.ofSt St.init) (.add mB')
     let r2 := ikstep foldB r1.1 (.sChangeActive "b" 5)
     let r3 := ikdeleteModeUnfixed foldB r2.1 "b" false {}
     r2.2.isOk = true ∧ r2.1.active.id = "B" ∧ r3.2 = .ok none ∧ r3.1.recs = [] ∧
     kfind r3.1 (foldB r3.1.active.id) = none ∧
     ikstep foldB r2.1 (.sDelete "b" false) = (r2.1, .err .failedPrecondition)) := by decide

/-- **C19_icpt_respell_fails.** The second guard alone (00bc77e: refuse when the mode stored under the id carries the
active mode's id; `ikdeleteModeHalf`) does not give I2: `AddMode B`, `ChangeActiveMode B`, then `UpdateMode{Id:"b"}`
— which writes the id it is given (2b5cf2c) — leaves the record under `b` with the id `b` while the active mode
still says `B`; `DeleteMode("b")` then passes both comparisons and deletes the active mode.  The third guard
(c078347: the active mode's id finds the same stored mode) refuses it: the code as it is (`ikstep`). -/
theorem C19_icpt_respell_fails :
    let mB' : Mode := Mode.mk4 "B" "tb" false none
    let k2 := ikrun foldB (KSt.ofSt St.init) [.add mB', .changeActive "B" 5]
    let r3 := ikstep foldB k2 (.update (Mode.mk4 "b" "x" false none) (some ⟨[.title], false⟩) {})
    let r4 := ikdeleteModeHalf foldB r3.1 "b" false {}
    r3.2.isOk = true ∧ r3.1.recs.map (fun e => (e.1, e.2.id)) = [("b", "b")] ∧ r3.1.active.id = "B" ∧
    r4.2 = .ok none ∧ r4.1.recs = [] ∧ kfind r4.1 (foldB r4.1.active.id) = none ∧
    ikstep foldB r3.1 (.delete "b" false {}) = (r3.1, .err .failedPrecondition) := by decide

/-- **C19_icpt_I2_step.** One step, no hypothesis on the state (`deleteMode` as of 00bc77e): for EVERY interceptor
`c`, every state — records under any keys, any options written before — and every two spellings `id`, `id'` of one
key (`c id' = c id`): once `ChangeActiveMode(id)` has succeeded, `DeleteMode(id')` is refused with FailedPrecondition
and nothing changes, whatever its options, at both API levels; and where records carry their keys and ids (the
call's, the active mode's) are canonical, the guards added by 00bc77e / c078347 decide exactly as the one guard did
before (so nothing proved about the code's behaviour there is lost). -/
theorem C19_icpt_I2_step (c : String → String) (k : KSt) (id id' : String) (now : Nat) (am : Bool) (d : DOpts) :
    ((ikstep c k (.changeActive id now)).2.isOk = true → c id' = c id →
      let k' := (ikstep c k (.changeActive id now)).1
      ikstep c k' (.delete id' am d) = (k', .err .failedPrecondition) ∧
      (id' ≠ "" → ikstep c k' (.sDelete id' am) = (k', .err .failedPrecondition))) ∧
    (KeyOk k → c id = id → ActCanon c k → ikdeleteMode c k id am d = ikdeleteModeUnfixed c k id am d) := by
  constructor
  · intro hok hc
    have key : ∀ (k' : KSt) (m : Mode) (dd : DOpts), kfind k' (c id') = some m → m.id = k'.active.id →
        ikdeleteMode c k' id' am dd = (k', .err .failedPrecondition) := by
      intro k' m dd hf hid
      unfold ikdeleteMode
      split
      · rfl
      · have hna : iknamesActive c k' id' = true := by
          unfold iknamesActive
          rw [hf]
          simp [hid]
        rw [if_pos hna]
    simp only [ikstep] at hok ⊢
    unfold ikchangeActive at hok ⊢
    cases hf : kfind k (c id) with
    | none => simp [hf, Res.isOk] at hok
    | some m =>
      dsimp only
      have hid : m.id = (if k.active.id ≠ m.id then { m with start := some now } else m).id := by split <;> rfl
      refine ⟨key _ m d (by rw [hc]; exact hf) hid, fun hne => ?_⟩
      simp only [hne, if_false]
      rw [key _ m {} (by rw [hc]; exact hf) hid]
  · intro hk hc ha
    unfold ikdeleteMode ikdeleteModeUnfixed
    by_cases h0 : id = k.active.id
    · rw [if_pos h0, if_pos h0]
    · rw [if_neg h0, if_neg h0]
      cases hn : iknamesActive c k id with
      | false => simp
      | true =>
        rw [iknamesActive_canon c k id hc ha] at hn
        exact absurd (knamesActive_keyOk hk hn) h0

/-- **C19_icpt_I2.** I2 and I3 behind an id interceptor, ANY spelling (the code after 00bc77e + c078347).  For every
idempotent id interceptor `c` (`c (c x) = c x`, e.g. lower-casing), from any state in which every record is kept
under the canonical form of the id it carries, keys are distinct, at most one record is normal and — if the active
mode was already changed — the active mode's id leads to a key of the collection (a new model is such a state),
after ANY sequence of tame operations, the ids spelled in any way whatever: once changed, the active mode's id —
unless it is empty (only `SetActiveMode` of a message without id makes it so; the empty id is the placeholder's,
6e97ca4) — finds a stored mode, whose id is a spelling of the active mode's id (I3 up to spelling); and every `DeleteMode` /
DeleteMode RPC under ANY spelling `id'` of that key (`c id' = c active.id`) — the active mode's own id included — is
refused with FailedPrecondition, whatever its options, and changes nothing (I2). -/
theorem C19_icpt_I2 (c : String → String) (hc : ∀ x, c (c x) = c x) (k0 : KSt)
    (hkc : ∀ e ∈ k0.recs, e.1 = c e.2.id) (hnd : (k0.recs.map (·.1)).Nodup)
    (h1 : ∀ e1 ∈ k0.recs, ∀ e2 ∈ k0.recs, e1.2.normal = true → e2.2.normal = true → e1 = e2)
    (ha0 : k0.changed = true → k0.active.id ≠ "" → c k0.active.id ∈ k0.recs.map (·.1))
    (ops : List Op) (ht : ∀ op ∈ ops, op.Tame) :
    let k := ikrun c k0 ops
    k.changed = true → k.active.id ≠ "" →
      (∃ st, kfind k (c k.active.id) = some st ∧ c st.id = c k.active.id) ∧
      ∀ id' am d, c id' = c k.active.id →
        ikstep c k (.delete id' am d) = (k, .err .failedPrecondition) ∧
        (id' ≠ "" → ikstep c k (.sDelete id' am) = (k, .err .failedPrecondition)) := by
  obtain ⟨hj, ha⟩ := ikrun_JA hc ops k0 ⟨hkc, hnd, h1⟩ ha0 ht
  intro k hch hne0
  have hin := ha hch hne0
  refine ⟨?_, fun id' am d heq => ?_⟩
  · have hs : (kfind k (c k.active.id)).isSome = true := (kfindL_isSome_iff _ _).mpr hin
    cases hf : kfind k (c k.active.id) with
    | none => simp [hf] at hs
    | some st => exact ⟨st, rfl, (hj.kc _ (kfindL_some hf)).symm⟩
  · have hr : ∀ dd, ikdeleteMode c k id' am dd = (k, .err .failedPrecondition) :=
      fun dd => ikdeleteMode_refuses hin hne0 heq am dd
    refine ⟨by simp only [ikstep]; exact hr d, fun hne => ?_⟩
    simp only [ikstep, hne, if_false, hr {}]

/-- **C19_icpt_placeholder.** No over-refusal while the placeholder is active (6e97ca4 completes c078347): for ANY
interceptor `c` — also one that maps the empty id to a key of its own, a prefix `ns/`, a default id —, in ANY state
whose active mode has the empty id (a new model), a `DeleteMode(id)` with a non-empty id of a mode that carries a
non-empty id passes the guards of `deleteMode`: it is what `modes.Delete` makes of it, never ErrDeleteActiveMode. -/
theorem C19_icpt_placeholder (c : String → String) (k : KSt) (id : String) (am : Bool) (d : DOpts)
    (ha : k.active.id = "") (hid : id ≠ "") (hst : ∀ st, kfind k (c id) = some st → st.id ≠ "") :
    ikdeleteMode c k id am d = ikdeleteBody c k id am d := by
  unfold ikdeleteMode
  have h1 : ¬ id = k.active.id := by rw [ha]; exact hid
  rw [if_neg h1]
  have h2 : iknamesActive c k id = false := by
    unfold iknamesActive
    cases hf : kfind k (c id) with
    | none => rfl
    | some st => simp [ha, hst st hf]
  rw [h2]
  simp

/-- an interceptor that maps the empty id to a key of its own -/
def dfltId : String → String := fun s => if s = "" then "dflt" else s

/-! ## Non-vacuity -/

/-- canonical spellings exist for `foldB` and `C19_icpt_invisible` applies to them: behind the same interceptor the
run `AddMode b`, `ChangeActiveMode b`, `DeleteMode b` is refused at the delete -/
example : OpCanon foldB (.add (Mode.mk4 "b" "tb" false none)) ∧ OpCanon foldB (.delete "b" false {}) ∧
    RecsCanon foldB (KSt.ofSt St.init) ∧
    (ikstep foldB (ikrun foldB (KSt.ofSt St.init) [.add (Mode.mk4 "b" "tb" false none), .changeActive "b" 5])
      (.delete "b" false {})).2 = .err .failedPrecondition := by
  refine ⟨by show foldB "b" = "b"; decide, by show foldB "b" = "b"; decide, ?_, by decide⟩
  intro e he
  cases he
/-- `C19_icpt_inv` applies to an accepted configuration: keys `a`, `b` are canonical for `foldB` -/
example : (KSt.iconfig? foldB [("b", mB), ("a", mA)] Mode.blank).isSome = true ∧
    (∀ e ∈ [("b", mB), ("a", mA)], foldB e.1 = e.1) := by decide
/-- two initial records whose keys the interceptor maps to one key are refused by the constructor (215ba16) -/
example : KSt.iconfig? foldB [("b", mB), ("B", mA)] Mode.blank = none := by decide

/-- `C19_icpt_I1` applies to `foldB` on a new model, with both spellings in one run: two adds of "the same" mode, the
second refused, one record, under `b` -/
example : (∀ x, foldB (foldB x) = foldB x) ∧
    (ikrun foldB (KSt.ofSt St.init) [.add (Mode.mk4 "B" "tb" true none), .add (Mode.mk4 "b" "tb" true none)]).recs
      = [("b", Mode.mk4 "B" "tb" true none)] := by
  refine ⟨?_, by decide⟩
  intro x
  unfold foldB
  by_cases h : x = "B"
  · simp [h]
  · simp [h]

/-- `C19_icpt_placeholder` is not vacuous: behind `dfltId` on a new model, `AddMode dflt` then `DeleteMode dflt`
succeeds (the third guard as of c078347 looked `findMode("")` up, found this mode and refused) -/
example : (ikstep dfltId (ikstep dfltId (KSt.ofSt St.init) (.add (Mode.mk4 "dflt" "t" false none))).1
    (.delete "dflt" false {})).2 = .ok none := by decide

end ScVerif.C19
