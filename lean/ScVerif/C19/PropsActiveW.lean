import ScVerif.C19.PropsIcpt
import ScVerif.C19.ActiveW
/-!
# C19 — round 8: writable fields on the active mode resource

`NewModel(WithActiveModeOption(resource.WithWritablePaths(&traits.ElectricMode{}, paths…)))`: writes to the active mode
touch the writable fields only (`ActiveW.lean`, `wstep aw`).

* `C19_activew_none`: without the option it is the keyed model (state, result, PullActiveMode events);
* `C19_activew_stamp`: for ANY set of writable fields — `start_time` among them or not —, a successful switch that
  changes the active mode's id stamps its start time with the clock's reading, and the call returns the active mode;
* `C19_activew_inv`: if `id` is writable, all invariants after any tame run, and the active mode cannot be deleted;
* `C19_activew_id_needed`: if `id` is not writable a successful `ChangeActiveMode(b)` leaves `a` active (the caller's
  configuration, not a defect of the model: stated so that the hypothesis of `C19_activew_inv` is seen to matter).
-/
namespace ScVerif.C19

/-- **C19_activew_none.** Without a writable-field option on the active mode resource, `wstep` is the keyed model:
same state and result for every operation and option, same PullActiveMode events. -/
theorem C19_activew_none (k : KSt) (op : Op) :
    wstep none k op = kstep k op ∧ wactiveEvents none k op = kactiveEvents k op := by
  refine ⟨wstep_none k op, ?_⟩
  unfold wactiveEvents kactiveEvents
  rw [wstep_none]

/-- **C19_activew_stamp.** "Switching to a different mode stamps its start time with the clock's current time", for
ANY writable fields of the active mode resource (`aw` arbitrary: `start_time` writable or not, `id` writable or
not), any state, any clock reading: if `ChangeActiveMode(id)` succeeds it returns the new active mode, and if the
active mode's id changed, its start time is the reading `now` — the stamp is applied to the RESULT of the write, after
the writable-field filter.  The UpdateActiveMode RPC is the same step for a non-empty id; `ChangeToNormalMode` / the
ClearActiveMode RPC are `ChangeActiveMode(normal.id)` when a normal mode exists. -/
theorem C19_activew_stamp (aw : Option (List Field)) (k : KSt) (id : String) (now : Nat) :
    (let r := wstep aw k (.changeActive id now)
     r.2.isOk = true → r.2 = .ok (some r.1.active) ∧ r.1.changed = true ∧ r.1.recs = k.recs ∧
       (r.1.active.id ≠ k.active.id → r.1.active.start = some now) ∧
       (IdWritable aw → (kfind k id).map (·.id) = some r.1.active.id)) ∧
    (id ≠ "" → wstep aw k (.sChangeActive id now) = wstep aw k (.changeActive id now)) ∧
    (∀ n, normalMode k.abs = some n →
      wstep aw k (.clear now) = wstep aw k (.changeActive n.id now) ∧
      wstep aw k (.sClear now) = wstep aw k (.changeActive n.id now)) := by
  refine ⟨?_, fun hne => by simp only [wstep, hne, if_false], fun n hn => ?_⟩
  · simp only [wstep]
    unfold wchangeActive
    cases hf : kfind k id with
    | none => intro h; simp [Res.isOk] at h
    | some m =>
      intro _
      dsimp only
      by_cases hc : k.active.id ≠ (writeActive aw k.active m).id
      · rw [if_pos hc]
        refine ⟨rfl, rfl, rfl, fun _ => rfl, fun hw => ?_⟩
        show some m.id = some (writeActive aw k.active m).id
        rw [writeActive_id hw]
      · rw [if_neg hc]
        refine ⟨rfl, rfl, rfl, fun hne => absurd (Decidable.not_not.mp hc).symm hne, fun hw => ?_⟩
        show some m.id = some (writeActive aw k.active m).id
        rw [writeActive_id hw]
  · simp only [wstep, wchangeToNormal, hn, and_self]

/-- **C19_activew_inv.** The invariants with writable fields on the active mode resource.  If `id` is writable (or
there is no such option): from any state in which every record is kept under the id it carries, keys are distinct,
at most one record is normal and — if already changed — the active mode's id is a key (a new model, any configuration
of `C19_keyed_inv`), after ANY sequence of tame operations: at most one mode is normal, every record is under its id,
keys are distinct, once changed the active mode's id finds a stored mode carrying that id (I3), and `DeleteMode` /
the DeleteMode RPC of the active mode's id is refused with FailedPrecondition, whatever its options, nothing
changed (I2). -/
theorem C19_activew_inv (aw : Option (List Field)) (hw : IdWritable aw) (k0 : KSt)
    (hkc : ∀ e ∈ k0.recs, e.1 = e.2.id) (hnd : (k0.recs.map (·.1)).Nodup)
    (h1 : ∀ e1 ∈ k0.recs, ∀ e2 ∈ k0.recs, e1.2.normal = true → e2.2.normal = true → e1 = e2)
    (ha0 : k0.changed = true → k0.active.id ≠ "" → k0.active.id ∈ k0.recs.map (·.1))
    (ops : List Op) (ht : ∀ op ∈ ops, op.Tame) :
    let k := wrun aw k0 ops
    ((k.recs.map (·.2)).filter (·.normal)).length ≤ 1 ∧
    (∀ e ∈ k.recs, e.1 = e.2.id) ∧ (k.recs.map (·.1)).Nodup ∧
    (k.changed = true → k.active.id ≠ "" →
      (∃ st, kfind k k.active.id = some st ∧ st.id = k.active.id) ∧
      ∀ am d, wstep aw k (.delete k.active.id am d) = (k, .err .failedPrecondition) ∧
        (k.active.id ≠ "" → wstep aw k (.sDelete k.active.id am) = (k, .err .failedPrecondition))) := by
  obtain ⟨hj, ha⟩ := wrun_JA hw ops k0 ⟨hkc, hnd, h1⟩ ha0 ht
  intro k
  refine ⟨J_count hj, hj.kc, hj.nd, fun hch hne0 => ?_⟩
  have hin := ha hch hne0
  refine ⟨?_, fun am d => ?_⟩
  · have hs : (kfind k k.active.id).isSome = true := (kfindL_isSome_iff _ _).mpr hin
    cases hf : kfind k k.active.id with
    | none => simp [hf] at hs
    | some st => exact ⟨st, rfl, (hj.kc _ (kfindL_some hf)).symm⟩
  · constructor
    · simp only [wstep, kstep, kdeleteMode, if_true]
    · intro hne
      simp only [wstep, kstep, hne, if_false, kdeleteMode, if_true]

/-- **C19_activew_id_needed.** The hypothesis `IdWritable` of `C19_activew_inv` matters, and the stamp clause is
conditional for a reason: with only `title` writable, on the state `a` (normal, active), `b`, `ChangeActiveMode("b")`
succeeds, the active mode takes `b`'s title but keeps the id `a` — no switch of id, no stamp.  (The caller configured
the resource so; the model follows the code.) -/
theorem C19_activew_id_needed :
    let r := wstep (some [.title]) ksAB (.changeActive "b" 5)
    r.2.isOk = true ∧ r.1.active.id = "a" ∧ r.1.active.title = mB.title ∧ r.1.active.start = ksAB.active.start := by
  decide

/-! ## Non-vacuity -/

/-- `C19_activew_stamp` is not vacuous: with everything but `start_time` writable (the configuration of 5105353) the
switch from `a` to `b` succeeds, changes the id and stamps 5 -/
example : let r := wstep (some [.id, .title, .description, .voltage, .segments, .normal]) ksAB (.changeActive "b" 5)
    r.2.isOk = true ∧ r.1.active.id = "b" ∧ r.1.active.start = some 5 ∧
    Field.id ∈ [Field.id, .title, .description, .voltage, .segments, .normal] := by decide
/-- `C19_activew_inv` applies to the new model and to `ksAB` -/
example : (∀ e ∈ ksAB.recs, e.1 = e.2.id) ∧ (ksAB.recs.map (·.1)).Nodup ∧
    (ksAB.changed = true → ksAB.active.id ≠ "" → ksAB.active.id ∈ ksAB.recs.map (·.1)) ∧
    ksAB.active.id ≠ "" := by decide

end ScVerif.C19
