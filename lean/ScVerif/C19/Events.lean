import ScVerif.C19.Lemmas
/-!
What a `PullModes` / `PullActiveMode` subscriber sees.

`modes` is a `resource.Collection` with `WithNoDuplicates`: every successful `Add` publishes an ADD event,
every successful `Delete` of a stored mode a REMOVE event, every successful `Update` an UPDATE event
unless old and new value are equal (the subscription drops it).  `activeMode` is a `resource.Value`: every
successful `Set` publishes the new value.
-/
namespace ScVerif.C19

variable {p : Mode}

inductive ModeEvent where
  | add (new : Mode)
  | update (old new : Mode)
  | remove (old : Mode)
  deriving DecidableEq, Repr

def emitCreateOrAdd (s : St) (m : Mode) (cands : List String) : List ModeEvent :=
  match (createOrAdd s m cands).2 with
  | .ok (some m') => [.add m']
  | _ => []

def emitUpdate (s : St) (m : Mode) (mask : Option Mask) (w : WOpts) : List ModeEvent :=
  match (updateMode s m mask w).2, find s m.id with
  | .ok (some new), some old => if old = new then [] else [.update old new]
  | .ok (some new), none => [.add new]                       -- an upsert that created the record
  | _, _ => []

def emitDelete (s : St) (id : String) (am : Bool) (ex : DOpts) : List ModeEvent :=
  match (deleteMode s id am ex).2, find s id with
  | .ok _, some old => [.remove old]
  | _, _ => []

/-- The PullModes events of one operation. -/
def modeEvents (s : St) : Op → List ModeEvent
  | .create m cands => if m.id ≠ "" then [] else emitCreateOrAdd s m cands
  | .add m => if m.id = "" then [] else emitCreateOrAdd s m []
  | .update m mask w => if m.id = "" then [] else emitUpdate s m mask w
  | .delete id am ex => emitDelete s id am ex
  | .sCreate m cands => if m.id ≠ "" then [] else emitCreateOrAdd s m cands
  | .sUpdate m mask => if m.id = "" then [] else emitUpdate s m mask {}
  | .sDelete id am => if id = "" then [] else emitDelete s id am {}
  | _ => []

/-- the operations that call `activeMode.Set` -/
def setsActive : Op → Bool
  | .setActive _ | .changeActive _ _ | .clear _ | .sChangeActive _ _ | .sClear _ => true
  | _ => false

def Res.isOk : Res → Bool
  | .ok _ => true
  | _ => false

/-- The PullActiveMode events of one operation, for a subscriber that joined (updates only) when the model
was created: the new active mode when a Set succeeded, unless it equals the value published before
(`WithNoDuplicates`). -/
def activeEvents (s : St) (op : Op) : List Mode :=
  if setsActive op ∧ (step s op).2.isOk ∧ (s.changed = false ∨ (step s op).1.active ≠ s.active)
  then [(step s op).1.active] else []

/-- A subscriber folds the events into its own view of the modes. -/
def applyEvent (view : List Mode) : ModeEvent → List Mode
  | .add m => insertMode m view
  | .update _ new => replaceMode new view
  | .remove old => eraseMode old.id view

def runEvents (s : St) : List Op → List ModeEvent
  | [] => []
  | op :: ops => modeEvents s op ++ runEvents (step s op).1 ops

theorem replaceMode_self {l : List Mode} (hnd : (l.map (·.id)).Nodup) {x : Mode} (hx : x ∈ l) :
    replaceMode x l = l := by
  unfold replaceMode
  conv => rhs; rw [← List.map_id l]
  apply List.map_congr_left
  intro y hy
  simp only [id]
  split
  · rename_i h; exact (uniq_of_nodup l hnd y hy x hx h).symm
  · rfl

theorem emitCreateOrAdd_view (s : St) (m : Mode) (cands : List String) :
    (emitCreateOrAdd s m cands).foldl applyEvent s.modes = (createOrAdd s m cands).1.modes ∧
    (emitCreateOrAdd s m cands).length ≤ 1 := by
  unfold emitCreateOrAdd createOrAdd
  by_cases hg : m.normal = true ∧ (normalMode s).isSome = true
  · simp [hg]
  · simp only [hg, if_false]
    cases hc : chooseId s m cands with
    | none => simp
    | some id =>
      by_cases hf : (find s id).isSome = true
      · simp [hf]
      · simp [hf, applyEvent]

theorem emitUpdate_view (s : St) (hi : Inv p s) (m : Mode) (mask : Option Mask) (w : WOpts) (ht : w.Tame) :
    (emitUpdate s m mask w).foldl applyEvent s.modes = (updateMode s m mask w).1.modes ∧
    (emitUpdate s m mask w).length ≤ 1 := by
  unfold emitUpdate updateMode
  by_cases hg : m.normal = true ∧ writesNormal mask = true ∧ otherNormal s m.id = true
  · simp only [hg, and_self, if_true]
    cases find s m.id <;> simp
  · simp only [hg, if_false]
    by_cases hinv : maskInvalid mask = true
    · simp only [hinv, if_true]
      cases find s m.id <;> simp
    · simp only [hinv, Bool.false_eq_true, if_false]
      by_cases hrs : maskInvalid w.reset = true
      · simp only [hrs, if_true]
        cases find s m.id <;> simp
      · simp only [hrs, Bool.false_eq_true, if_false]
        cases hold : find s m.id with
        | none =>
          simp only
          by_cases hc : w.createIfAbsent = true
          · by_cases he : expectedFails w.expected Mode.blank = true
            · simp [hc, he]
            · cases hck : checkFails w Mode.blank with
              | some c => simp [hc, he]
              | none =>
                have hid := (written_tame Mode.blank m mask w ht).1
                simp [hc, he, applyEvent, insertAt_of_id hid]
          · simp [hc]
        | some old =>
          obtain ⟨hmem, _⟩ := find_some hold
          simp only
          by_cases ha : w.expectAbsent = true
          · simp [ha]
          · by_cases he : expectedFails w.expected old = true
            · simp [ha, he]
            · cases hck : checkFails w old with
              | some c => simp [ha, he]
              | none =>
                have hid := (written_tame old m mask w ht).1
                simp only [ha, he, Bool.false_eq_true, if_false, storeAt_of_id hid]
                by_cases heq : old = written old m mask w
                · simp only [← heq, if_true, List.foldl_nil, List.length_nil, Nat.zero_le, and_true]
                  exact (replaceMode_self hi.nodup hmem).symm
                · simp [heq, applyEvent]

theorem emitDelete_view (s : St) (id : String) (am : Bool) (ex : DOpts) :
    (emitDelete s id am ex).foldl applyEvent s.modes = (deleteMode s id am ex).1.modes ∧
    (emitDelete s id am ex).length ≤ 1 := by
  unfold emitDelete deleteMode
  by_cases ha : id = s.active.id
  · simp only [ha, if_true]
    cases find s s.active.id <;> simp
  · simp only [ha, if_false]
    cases hf : find s id with
    | none => cases am <;> simp
    | some old =>
      obtain ⟨_, hid⟩ := find_some hf
      cases hck : dcheckFails ex old with
      | some c => simp [hck]
      | none =>
        by_cases he : expectedFails ex.expected old = true
        · simp [hck, he]
        · simp [hck, he, applyEvent, hid]

/-- One operation: folding its events into a view that equals the modes gives the modes afterwards, and
there is at most one event. -/
theorem modeEvents_view (s : St) (hi : Inv p s) (op : Op) (ht : op.Tame) :
    (modeEvents s op).foldl applyEvent s.modes = (step s op).1.modes ∧ (modeEvents s op).length ≤ 1 := by
  cases op with
  | create m cands =>
    simp only [modeEvents, step]
    by_cases h : m.id ≠ ""
    · simp [h]
    · simp only [h, if_false]; exact emitCreateOrAdd_view s m cands
  | add m =>
    simp only [modeEvents, step]
    by_cases h : m.id = ""
    · simp [h]
    · simp only [h, if_false]
      have := emitCreateOrAdd_view s m []
      refine ⟨?_, this.2⟩
      rw [this.1]
      cases hr : createOrAdd s m [] with
      | mk s' r => cases r <;> rfl
  | update m mask w =>
    simp only [modeEvents, step]
    by_cases h : m.id = ""
    · simp [h]
    · simp only [h, if_false]; exact emitUpdate_view s hi m mask w ht
  | delete id am ex => exact emitDelete_view s id am ex
  | setActive m =>
    simp only [modeEvents, step, setActive, List.foldl_nil, List.length_nil, Nat.zero_le, and_true]
    cases find s m.id <;> rfl
  | changeActive id now =>
    simp only [modeEvents, step, changeActive, List.foldl_nil, List.length_nil, Nat.zero_le, and_true]
    cases find s id <;> rfl
  | clear now =>
    simp only [modeEvents, step, changeToNormal, List.foldl_nil, List.length_nil, Nat.zero_le, and_true]
    cases normalMode s with
    | none => rfl
    | some n => simp only [changeActive]; cases find s n.id <;> rfl
  | findMode id => simp [modeEvents, step]
  | sCreate m cands =>
    simp only [modeEvents, step]
    by_cases h : m.id ≠ ""
    · simp [h]
    · simp only [h, if_false]; exact emitCreateOrAdd_view s m cands
  | sUpdate m mask =>
    simp only [modeEvents, step]
    by_cases h : m.id = ""
    · simp [h]
    · simp only [h, if_false]; exact emitUpdate_view s hi m mask {} tame_default
  | sDelete id am =>
    simp only [modeEvents, step]
    by_cases h : id = ""
    · simp [h]
    · simp only [h, if_false]
      have := emitDelete_view s id am {}
      refine ⟨?_, this.2⟩
      rw [this.1]
      cases hr : deleteMode s id am {} with
      | mk s' r => cases r <;> rfl
  | sChangeActive id now =>
    simp only [modeEvents, step]
    by_cases h : id = ""
    · simp [h]
    · simp only [h, if_false, changeActive, List.foldl_nil, List.length_nil, Nat.zero_le, and_true]
      cases find s id <;> rfl
  | sClear now =>
    simp only [modeEvents, step, changeToNormal, List.foldl_nil, List.length_nil, Nat.zero_le, and_true]
    cases normalMode s with
    | none => rfl
    | some n => simp only [changeActive]; cases find s n.id <;> rfl
  | sCreateNil => simp [modeEvents, step]

/-- After ANY number `k` of events of a run, the subscriber's view is the mode list of a state that
satisfies the invariant. -/
theorem view_prefix (s : St) (hi : Inv p s) (ops : List Op) (ht : ∀ op ∈ ops, op.Tame) (k : Nat) :
    ∃ s', Inv p s' ∧ ((runEvents s ops).take k).foldl applyEvent s.modes = s'.modes := by
  induction ops generalizing s k with
  | nil => exact ⟨s, hi, by simp [runEvents]⟩
  | cons op ops ih =>
    have ht1 := ht op (by simp)
    have ht2 : ∀ o ∈ ops, o.Tame := fun o ho => ht o (by simp [ho])
    obtain ⟨hv, hl⟩ := modeEvents_view s hi op ht1
    have hi' := step_inv hi op ht1
    simp only [runEvents]
    match hme : modeEvents s op, hl, hv with
    | [], _, hv =>
      simp only [List.nil_append, List.foldl_nil] at hv ⊢
      obtain ⟨s', h1, h2⟩ := ih (step s op).1 hi' ht2 k
      exact ⟨s', h1, by rw [hv, h2]⟩
    | [e], _, hv =>
      cases k with
      | zero => exact ⟨s, hi, by simp⟩
      | succ k =>
        simp only [List.cons_append, List.nil_append, List.take_succ_cons, List.foldl_cons, List.foldl_nil] at hv ⊢
        obtain ⟨s', h1, h2⟩ := ih (step s op).1 hi' ht2 k
        exact ⟨s', h1, by rw [hv, h2]⟩
    | _ :: _ :: _, hl, _ => simp at hl

theorem view_full (s : St) (hi : Inv p s) (ops : List Op) (ht : ∀ op ∈ ops, op.Tame) :
    (runEvents s ops).foldl applyEvent s.modes = (run s ops).modes := by
  induction ops generalizing s with
  | nil => rfl
  | cons op ops ih =>
    simp only [runEvents, List.foldl_append, run]
    rw [(modeEvents_view s hi op (ht op (by simp))).1]
    exact ih _ (step_inv hi op (ht op (by simp))) (fun o ho => ht o (by simp [ho]))

theorem changeActive_changed {s : St} {id : String} {now : Nat} (h : (changeActive s id now).2.isOk = true) :
    (changeActive s id now).1.changed = true := by
  unfold changeActive at h ⊢
  cases hf : find s id <;> simp [hf, Res.isOk] at h ⊢

theorem setsActive_changed (s : St) (op : Op) (h1 : setsActive op = true) (h2 : (step s op).2.isOk = true) :
    (step s op).1.changed = true := by
  cases op with
  | setActive m =>
    simp only [step, setActive] at h2 ⊢
    cases hf : find s m.id <;> simp [hf, Res.isOk] at h2 ⊢
  | changeActive id now => exact changeActive_changed h2
  | clear now =>
    simp only [step, changeToNormal] at h2 ⊢
    cases hn : normalMode s with
    | none => simp [hn, Res.isOk] at h2
    | some n => simp only [hn] at h2 ⊢; exact changeActive_changed h2
  | sChangeActive id now =>
    simp only [step] at h2 ⊢
    by_cases h : id = ""
    · simp [h, Res.isOk] at h2
    · simp only [h, if_false] at h2 ⊢; exact changeActive_changed h2
  | sClear now =>
    simp only [step, changeToNormal] at h2 ⊢
    cases hn : normalMode s with
    | none => simp [hn, Res.isOk] at h2
    | some n => simp only [hn] at h2 ⊢; exact changeActive_changed h2
  | create _ _ => simp [setsActive] at h1
  | add _ => simp [setsActive] at h1
  | update _ _ _ => simp [setsActive] at h1
  | delete _ _ _ => simp [setsActive] at h1
  | findMode _ => simp [setsActive] at h1
  | sCreate _ _ => simp [setsActive] at h1
  | sUpdate _ _ => simp [setsActive] at h1
  | sCreateNil => simp [setsActive] at h1
  | sDelete _ _ => simp [setsActive] at h1

end ScVerif.C19
