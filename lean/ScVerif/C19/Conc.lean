import ScVerif.C19.Lemmas
/-!
Concurrent use of the electric model.

Every mutator of `electricpb.Model` (`SetActiveMode, ChangeActiveMode, ChangeToNormalMode, CreateMode,
AddMode, DeleteMode, UpdateMode`) starts with `m.mu.Lock(); defer m.mu.Unlock()` and does all its reads
(`findMode`, `normalMode`, `activeMode.Get`) and writes (`modes.Add/Update/Delete`, `activeMode.Set`)
inside.  The interleaving model below makes the body non-atomic on purpose: a thread first reads the
shared state (a snapshot), later writes the result computed from that snapshot; other threads may be
scheduled in between.  The lock is what makes this equal to an atomic `step`.
-/
namespace ScVerif.C19

inductive Phase where
  | idle      -- before mu.Lock()
  | locked    -- holds mu, has not read yet
  | read      -- has read the shared state into `seen`
  | written   -- has written, before the deferred mu.Unlock()
  deriving DecidableEq, Repr

structure Thr where
  todo : List Op
  phase : Phase
  seen : St

structure Conf where
  st : St
  holder : Option Nat
  thr : Nat → Thr

def setThr (c : Conf) (t : Nat) (x : Thr) : Nat → Thr := fun i => if i = t then x else c.thr i

/-- One scheduling step of thread `t` (a step that is not enabled leaves the configuration unchanged:
`Lock` blocks while another thread holds `mu`). -/
def cstep (c : Conf) (t : Nat) : Conf :=
  match (c.thr t).todo with
  | [] => c
  | op :: rest =>
    match (c.thr t).phase with
    | .idle =>
      if c.holder = none then { c with holder := some t, thr := setThr c t { c.thr t with phase := .locked } }
      else c
    | .locked => { c with thr := setThr c t { c.thr t with phase := .read, seen := c.st } }
    | .read => { c with st := (step (c.thr t).seen op).1, thr := setThr c t { c.thr t with phase := .written } }
    | .written => { c with holder := none, thr := setThr c t { todo := rest, phase := .idle, seen := (c.thr t).seen } }

def crun (c : Conf) : List Nat → Conf
  | [] => c
  | t :: ts => crun (cstep c t) ts

/-- Any number of threads, thread `i` runs the operations `progs i` (possibly none), on a model whose
(configured) initial state is `s0`. -/
def cinit (s0 : St) (progs : Nat → List Op) : Conf := ⟨s0, none, fun i => ⟨progs i, .idle, s0⟩⟩

/-- `P` is any property of operations that holds of every operation of every program (e.g. "comes from
`progs`", or "its caller-supplied options are tame"): the serial order consists of such operations only. -/
structure CInv (P : Op → Prop) (s0 : St) (c : Conf) : Prop where
  excl : ∀ t, (c.thr t).phase ≠ .idle → c.holder = some t
  fresh : ∀ t, (c.thr t).phase = .read → (c.thr t).seen = c.st
  todoP : ∀ t, ∀ op ∈ (c.thr t).todo, P op
  serial : ∃ ops, c.st = run s0 ops ∧ ∀ op ∈ ops, P op

theorem cinv_init (P : Op → Prop) (s0 : St) (progs : Nat → List Op) (hP : ∀ t, ∀ op ∈ progs t, P op) :
    CInv P s0 (cinit s0 progs) :=
  ⟨fun t h => absurd rfl h, fun t h => by simp [cinit] at h, hP, ⟨[], rfl, fun _ h => by cases h⟩⟩

theorem setThr_same (c : Conf) (t : Nat) (x : Thr) : setThr c t x t = x := by simp [setThr]

theorem setThr_other (c : Conf) (t u : Nat) (x : Thr) (h : u ≠ t) : setThr c t x u = c.thr u := by simp [setThr, h]

theorem cstep_inv {P : Op → Prop} {s0 : St} {c : Conf} (hi : CInv P s0 c) (t : Nat) : CInv P s0 (cstep c t) := by
  unfold cstep
  cases htodo : (c.thr t).todo with
  | nil => exact hi
  | cons op rest =>
    simp only
    cases hph : (c.thr t).phase with
    | idle =>
      simp only
      by_cases hh : c.holder = none
      · simp only [hh, if_true]
        refine ⟨?_, ?_, ?_, hi.serial⟩
        rotate_left 2
        · intro u
          by_cases hut : u = t
          · subst hut; simp only [setThr_same]; exact hi.todoP u
          · simp only [setThr_other c t u _ hut]; exact hi.todoP u
        · intro u hu
          by_cases hut : u = t
          · subst hut; rfl
          · simp only [setThr_other c t u _ hut] at hu
            have := hi.excl u hu
            rw [hh] at this; cases this
        · intro u hu
          by_cases hut : u = t
          · subst hut; simp [setThr_same] at hu
          · simp only [setThr_other c t u _ hut] at hu ⊢
            exact hi.fresh u hu
      · simp only [hh, if_false]; exact hi
    | locked =>
      simp only
      refine ⟨?_, ?_, ?_, hi.serial⟩
      rotate_left 2
      · intro u
        by_cases hut : u = t
        · subst hut; simp only [setThr_same]; exact hi.todoP u
        · simp only [setThr_other c t u _ hut]; exact hi.todoP u
      · intro u hu
        by_cases hut : u = t
        · subst hut; exact hi.excl u (by rw [hph]; simp)
        · simp only [setThr_other c t u _ hut] at hu
          exact hi.excl u hu
      · intro u hu
        by_cases hut : u = t
        · subst hut; simp [setThr_same]
        · simp only [setThr_other c t u _ hut] at hu ⊢
          exact hi.fresh u hu
    | read =>
      simp only
      have hseen := hi.fresh t hph
      have hhold := hi.excl t (by rw [hph]; simp)
      refine ⟨?_, ?_, ?_, ?_⟩
      rotate_left 2
      · intro u
        by_cases hut : u = t
        · subst hut; simp only [setThr_same]; exact hi.todoP u
        · simp only [setThr_other c t u _ hut]; exact hi.todoP u
      · obtain ⟨ops, hops, hPs⟩ := hi.serial
        refine ⟨ops ++ [op], ?_, ?_⟩
        · show (step (c.thr t).seen op).1 = run s0 (ops ++ [op])
          rw [run_append, ← hops, hseen]; rfl
        · intro o ho
          rcases List.mem_append.mp ho with ho | ho
          · exact hPs o ho
          · simp only [List.mem_singleton] at ho
            subst ho
            exact hi.todoP t o (by rw [htodo]; simp)
      · intro u hu
        by_cases hut : u = t
        · subst hut; exact hhold
        · simp only [setThr_other c t u _ hut] at hu
          exact hi.excl u hu
      · intro u hu
        by_cases hut : u = t
        · subst hut; simp [setThr_same] at hu
        · simp only [setThr_other c t u _ hut] at hu
          -- another thread in phase `read` would hold the lock too
          have := hi.excl u (by rw [hu]; simp)
          rw [hhold] at this
          exact absurd (Option.some.inj this).symm hut
    | written =>
      simp only
      have hhold := hi.excl t (by rw [hph]; simp)
      refine ⟨?_, ?_, ?_, hi.serial⟩
      rotate_left 2
      · intro u
        by_cases hut : u = t
        · subst hut
          simp only [setThr_same]
          intro o ho
          exact hi.todoP u o (by rw [htodo]; simp [ho])
        · simp only [setThr_other c t u _ hut]; exact hi.todoP u
      · intro u hu
        by_cases hut : u = t
        · subst hut; simp [setThr_same] at hu
        · simp only [setThr_other c t u _ hut] at hu
          have := hi.excl u hu
          rw [hhold] at this
          exact absurd (Option.some.inj this).symm hut
      · intro u hu
        by_cases hut : u = t
        · subst hut; simp [setThr_same] at hu
        · simp only [setThr_other c t u _ hut] at hu ⊢
          exact hi.fresh u hu

theorem crun_inv {P : Op → Prop} {s0 : St} {c : Conf} (hi : CInv P s0 c) (sched : List Nat) : CInv P s0 (crun c sched) := by
  induction sched generalizing c with
  | nil => exact hi
  | cons t ts ih => exact ih (cstep_inv hi t)

end ScVerif.C19
