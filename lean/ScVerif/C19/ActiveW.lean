import ScVerif.C19.IcptInv
/-!
C19 — WRITABLE FIELDS on the active mode resource.

`electricpb.WithActiveModeOption(resource.WithWritablePaths(&traits.ElectricMode{}, paths…))` makes every write to
the active mode (`SetActiveMode`, `changeActiveMode`) touch the writable fields only: `FieldUpdater.Merge` filters the
source down to them, prunes them in the destination and merges; the other fields of the destination STAY.  The
start-time stamp of `changeActiveMode` is not a caller's write: it runs in `InterceptAfter`, after the filter, on the
result.  `wstep aw` is `kstep` with the five operations that write the active mode going through `writeActive aw`
(`aw = none`: no such option, every field writable).
-/
namespace ScVerif.C19

/-- `Merge(dst, src)` without update mask when the writable fields are `w` -/
def selectW (w : List Field) (dst src : Mode) : Mode :=
  { id := if Field.id ∈ w then src.id else dst.id
    title := if Field.title ∈ w then src.title else dst.title
    normal := if Field.normal ∈ w then src.normal else dst.normal
    start := if Field.start ∈ w then src.start else dst.start
    description := if Field.description ∈ w then src.description else dst.description
    voltage := if Field.voltage ∈ w then src.voltage else dst.voltage
    segments := if Field.segments ∈ w then src.segments else dst.segments }

def writeActive (aw : Option (List Field)) (dst src : Mode) : Mode :=
  match aw with
  | none => src
  | some w => selectW w dst src

/-- the `id` field can be written (no writable-field option, or one that lists `id`) -/
def IdWritable : Option (List Field) → Prop
  | none => True
  | some w => Field.id ∈ w

theorem writeActive_id {aw : Option (List Field)} (h : IdWritable aw) (dst src : Mode) :
    (writeActive aw dst src).id = src.id := by
  cases aw with
  | none => rfl
  | some w =>
    have h' : Field.id ∈ w := h
    simp [writeActive, selectW, h']

def wchangeActive (aw : Option (List Field)) (k : KSt) (id : String) (now : Nat) : KSt × Res :=
  match kfind k id with
  | none => (k, .err .notFound)
  | some m =>
    let merged := writeActive aw k.active m
    -- InterceptAfter(old, new): old is the active mode before the write, new the merged result
    let m' := if k.active.id ≠ merged.id then { merged with start := some now } else merged
    ({ k with active := m', changed := true }, .ok (some m'))

def wsetActive (aw : Option (List Field)) (k : KSt) (m : Mode) : KSt × Res :=
  match kfind k m.id with
  | none => (k, .err .notFound)
  | some _ => ({ k with active := writeActive aw k.active m, changed := true }, .ok none)

def wchangeToNormal (aw : Option (List Field)) (k : KSt) (now : Nat) : KSt × Res :=
  match normalMode k.abs with
  | none => (k, .err .notFound)
  | some n => wchangeActive aw k n.id now

def wstep (aw : Option (List Field)) (k : KSt) : Op → KSt × Res
  | .setActive m => wsetActive aw k m
  | .changeActive id now => wchangeActive aw k id now
  | .clear now => wchangeToNormal aw k now
  | .sChangeActive id now => if id = "" then (k, .err .invalidArgument) else wchangeActive aw k id now
  | .sClear now => wchangeToNormal aw k now
  | op => kstep k op

def wrun (aw : Option (List Field)) (k : KSt) : List Op → KSt
  | [] => k
  | op :: ops => wrun aw (wstep aw k op).1 ops

def wactiveEvents (aw : Option (List Field)) (k : KSt) (op : Op) : List Mode :=
  if setsActive op ∧ (wstep aw k op).2.isOk ∧ (k.changed = false ∨ (wstep aw k op).1.active ≠ k.active)
  then [(wstep aw k op).1.active] else []

theorem wchangeActive_none (k : KSt) (id : String) (now : Nat) : wchangeActive none k id now = kchangeActive k id now := by
  unfold wchangeActive kchangeActive writeActive
  rfl

theorem wstep_none (k : KSt) (op : Op) : wstep none k op = kstep k op := by
  cases op <;> simp only [wstep, kstep, wchangeToNormal, kchangeToNormal, wchangeActive_none, wsetActive, ksetActive,
    writeActive] <;> rfl

/-- the operations that do not write the active mode are those of `ikstep` with the identity -/
theorem wstep_eq_ikstep (aw : Option (List Field)) (k : KSt) (op : Op) (h : setsActive op = false) :
    wstep aw k op = ikstep (fun x => x) k op := by
  rw [ikstep_id]
  cases op <;> first | rfl | (simp [setsActive] at h)

theorem wchangeActive_JA {aw : Option (List Field)} (hw : IdWritable aw) {k : KSt} (hj : J (fun x => x) k.recs)
    (h : A (fun x => x) k) (id : String) (now : Nat) :
    J (fun x => x) (wchangeActive aw k id now).1.recs ∧ A (fun x => x) (wchangeActive aw k id now).1 := by
  unfold wchangeActive
  cases hf : kfind k id with
  | none => exact ⟨hj, h⟩
  | some m =>
    refine ⟨hj, fun _ _ => ?_⟩
    have hmem : (id, m) ∈ k.recs := kfindL_some hf
    have hkey : id = m.id := hj.kc _ hmem
    have hid : (if k.active.id ≠ (writeActive aw k.active m).id then
        { writeActive aw k.active m with start := some now } else writeActive aw k.active m).id = m.id := by
      split <;> exact writeActive_id hw _ _
    show (if k.active.id ≠ (writeActive aw k.active m).id then
        { writeActive aw k.active m with start := some now } else writeActive aw k.active m).id ∈ k.recs.map (·.1)
    rw [hid, ← hkey]
    exact List.mem_map.mpr ⟨_, hmem, rfl⟩

theorem wstep_JA {aw : Option (List Field)} (hw : IdWritable aw) {k : KSt} (hj : J (fun x => x) k.recs)
    (h : A (fun x => x) k) (op : Op) (ht : op.Tame) :
    J (fun x => x) (wstep aw k op).1.recs ∧ A (fun x => x) (wstep aw k op).1 := by
  have hc : ∀ x : String, (fun x => x) ((fun x => x) x) = (fun x : String => x) x := fun _ => rfl
  cases hs : setsActive op with
  | false =>
    rw [wstep_eq_ikstep aw k op hs]
    exact ⟨ikstep_J hc hj op ht, ikstep_A hj h op⟩
  | true =>
    cases op with
    | setActive m =>
      simp only [wstep, wsetActive]
      cases hf : kfind k m.id with
      | none => exact ⟨hj, h⟩
      | some st =>
        refine ⟨hj, fun _ _ => ?_⟩
        show (writeActive aw k.active m).id ∈ k.recs.map (·.1)
        rw [writeActive_id hw]
        exact (kfindL_isSome_iff _ _).mp (by show (kfind k m.id).isSome = true; rw [hf]; rfl)
    | changeActive id now => exact wchangeActive_JA hw hj h id now
    | sChangeActive id now =>
      simp only [wstep]
      split
      · exact ⟨hj, h⟩
      · exact wchangeActive_JA hw hj h id now
    | clear now =>
      simp only [wstep, wchangeToNormal]
      split
      · exact ⟨hj, h⟩
      · exact wchangeActive_JA hw hj h _ now
    | sClear now =>
      simp only [wstep, wchangeToNormal]
      split
      · exact ⟨hj, h⟩
      · exact wchangeActive_JA hw hj h _ now
    | _ => simp [setsActive] at hs

theorem wrun_JA {aw : Option (List Field)} (hw : IdWritable aw) : ∀ (ops : List Op) (k : KSt), J (fun x => x) k.recs →
    A (fun x => x) k → (∀ op ∈ ops, op.Tame) → J (fun x => x) (wrun aw k ops).recs ∧ A (fun x => x) (wrun aw k ops) := by
  intro ops
  induction ops with
  | nil => intro k hj ha _; exact ⟨hj, ha⟩
  | cons op ops ih =>
    intro k hj ha ht
    obtain ⟨hj', ha'⟩ := wstep_JA hw hj ha op (ht op (by simp))
    exact ih _ hj' ha' (fun o ho => ht o (by simp [ho]))

end ScVerif.C19
