import ScVerif.C19.Keyed
/-!
The keyed model against `Electric.lean`: on a state where every record carries its key, every operation of
`kstep` is the operation of `step` on the listing (`*_abs`, no hypothesis on the options), tame operations keep
that property (`*_keyOk`), and the keys stay distinct whatever the options (`*_keys`).
-/
namespace ScVerif.C19

/-- what the model shows of a keyed result -/
def lift (r : KSt × Res) : St × Res := (r.1.abs, r.2)

theorem kgenId_abs {k : KSt} (h : KeyOk k) (cands : List String) : kgenId k cands = genId k.abs cands := by
  unfold kgenId genId
  congr 1
  funext c
  rw [kfind_abs h]

theorem kchooseId_abs {k : KSt} (h : KeyOk k) (m : Mode) (cands : List String) :
    kchooseId k m cands = chooseId k.abs m cands := by
  unfold kchooseId chooseId
  rw [kgenId_abs h]

theorem kcreateOrAdd_abs {k : KSt} (h : KeyOk k) (m : Mode) (cands : List String) :
    lift (kcreateOrAdd k m cands) = createOrAdd k.abs m cands := by
  unfold kcreateOrAdd createOrAdd
  rw [kchooseId_abs h]
  by_cases hg : m.normal = true ∧ (normalMode k.abs).isSome = true
  · simp only [hg, and_self, if_true, lift]
  · simp only [hg, if_false]
    cases hc : chooseId k.abs m cands with
    | none => rfl
    | some id =>
      simp only [kfind_abs h]
      have hr : RecsOk k.recs := h
      by_cases hf : (find k.abs id).isSome = true
      · rw [if_pos hf, if_pos hf]; rfl
      · rw [if_neg hf, if_neg hf]
        simp only [lift, KSt.abs, kinsert_abs hr]
        rw [insertAt_of_id (m := { m with id := id }) rfl]

theorem kchangeActive_abs {k : KSt} (h : KeyOk k) (id : String) (now : Nat) :
    lift (kchangeActive k id now) = changeActive k.abs id now := by
  unfold kchangeActive changeActive
  rw [kfind_abs h]
  cases find k.abs id <;> rfl

theorem ksetActive_abs {k : KSt} (h : KeyOk k) (m : Mode) : lift (ksetActive k m) = setActive k.abs m := by
  unfold ksetActive setActive
  rw [kfind_abs h]
  cases find k.abs m.id <;> rfl

theorem kchangeToNormal_abs {k : KSt} (h : KeyOk k) (now : Nat) :
    lift (kchangeToNormal k now) = changeToNormal k.abs now := by
  unfold kchangeToNormal changeToNormal
  cases normalMode k.abs with
  | none => rfl
  | some n => exact kchangeActive_abs h n.id now

/-- where every record carries its key, the guards on the stored record say what the first guard says -/
theorem knamesActive_keyOk {k : KSt} (h : KeyOk k) {id : String} (hn : knamesActive k id = true) :
    id = k.active.id := by
  unfold knamesActive at hn
  cases hf : kfind k id with
  | none => simp [hf] at hn
  | some st =>
    have hst : id = st.id := h (id, st) (kfindL_some hf)
    simp only [hf, Bool.or_eq_true, decide_eq_true_eq] at hn
    rcases hn with hn | hn
    · rw [hst, hn]
    · cases hc : kfind k k.active.id with
      | none => simp [hc] at hn
      | some cur =>
        have hcur : k.active.id = cur.id := h (k.active.id, cur) (kfindL_some hc)
        simp only [hc, Bool.and_eq_true, decide_eq_true_eq] at hn
        rw [hst, hcur, hn.2]

/-- … so there `deleteMode` decides as it did before 00bc77e / c078347 -/
theorem kdeleteMode_unfixed {k : KSt} (h : KeyOk k) (id : String) (am : Bool) (d : DOpts) :
    kdeleteMode k id am d = kdeleteModeUnfixed k id am d := by
  unfold kdeleteMode kdeleteModeUnfixed
  by_cases ha : id = k.active.id
  · rw [if_pos ha, if_pos ha]
  · rw [if_neg ha, if_neg ha]
    cases hn : knamesActive k id with
    | false => simp
    | true => exact absurd (knamesActive_keyOk h hn) ha

theorem kdeleteMode_abs {k : KSt} (h : KeyOk k) (id : String) (am : Bool) (d : DOpts) :
    lift (kdeleteMode k id am d) = deleteMode k.abs id am d := by
  rw [kdeleteMode_unfixed h]
  unfold kdeleteModeUnfixed kdeleteBody deleteMode
  rw [kfind_abs h]
  by_cases ha : id = k.active.id
  · have : id = k.abs.active.id := ha
    rw [if_pos ha, if_pos this]; rfl
  · have : ¬ id = k.abs.active.id := ha
    rw [if_neg ha, if_neg this]
    cases find k.abs id with
    | none => cases am <;> rfl
    | some old =>
      simp only
      cases dcheckFails d old with
      | some c => rfl
      | none =>
        simp only
        have hr : RecsOk k.recs := h
        by_cases he : expectedFails d.expected old = true
        · rw [if_pos he, if_pos he]; rfl
        · rw [if_neg he, if_neg he]
          simp only [lift, KSt.abs, kerase_abs hr]

theorem kupdateMode_abs {k : KSt} (h : KeyOk k) (m : Mode) (mask : Option Mask) (w : WOpts) :
    lift (kupdateMode k m mask w) = updateMode k.abs m mask w := by
  unfold kupdateMode updateMode
  rw [kfind_abs h]
  by_cases hg : m.normal = true ∧ writesNormal mask = true ∧ otherNormal k.abs m.id = true
  · simp only [hg, and_self, if_true, lift]
  · simp only [hg, if_false]
    by_cases hv : maskInvalid mask = true
    · simp only [hv, if_true, lift]
    · simp only [hv, Bool.false_eq_true, if_false]
      by_cases hrs : maskInvalid w.reset = true
      · simp only [hrs, if_true, lift]
      · simp only [hrs, Bool.false_eq_true, if_false]
        cases find k.abs m.id with
        | some old =>
          simp only
          by_cases ha : w.expectAbsent = true
          · simp only [ha, if_true, lift]
          · simp only [ha, Bool.false_eq_true, if_false]
            by_cases he : expectedFails w.expected old = true
            · simp only [he, if_true, lift]
            · simp only [he, Bool.false_eq_true, if_false]
              cases checkFails w old with
              | some c => rfl
              | none =>
                have hr : RecsOk k.recs := h
                simp only [lift, KSt.abs, kstore_abs hr]
        | none =>
          simp only
          by_cases hc : w.createIfAbsent = true
          · simp only [hc, Bool.not_true, Bool.false_eq_true, if_false]
            by_cases he : expectedFails w.expected Mode.blank = true
            · simp only [he, if_true, lift]
            · simp only [he, Bool.false_eq_true, if_false]
              cases checkFails w Mode.blank with
              | some c => rfl
              | none =>
                have hr : RecsOk k.recs := h
                simp only [lift, KSt.abs, kinsert_abs hr]
          · have hc' : w.createIfAbsent = false := by simpa using hc
            simp only [hc', Bool.not_false, if_true, lift]

/-- **one step, any options**: on a state where every record carries its key, the keyed operation shows exactly
what the operation of `Electric.lean` does on the listing -/
theorem kstep_abs {k : KSt} (h : KeyOk k) (op : Op) : lift (kstep k op) = step k.abs op := by
  cases op with
  | create m cands => simp only [kstep, step]; split; rfl; exact kcreateOrAdd_abs h m cands
  | add m =>
    simp only [kstep, step]
    split
    · rfl
    · have := kcreateOrAdd_abs h m []
      cases hr : kcreateOrAdd k m [] with
      | mk k' r =>
        rw [hr] at this
        simp only [lift] at this
        rw [← this]
        cases r <;> rfl
  | update m mask w => simp only [kstep, step]; split; rfl; exact kupdateMode_abs h m mask w
  | delete id am d => exact kdeleteMode_abs h id am d
  | setActive m => exact ksetActive_abs h m
  | changeActive id now => exact kchangeActive_abs h id now
  | clear now => exact kchangeToNormal_abs h now
  | findMode id =>
    simp only [kstep, step, lift, kfind_abs h]
    cases find k.abs id <;> rfl
  | sCreate m cands => simp only [kstep, step]; split; rfl; exact kcreateOrAdd_abs h m cands
  | sUpdate m mask => simp only [kstep, step]; split; rfl; exact kupdateMode_abs h m mask {}
  | sDelete id am =>
    simp only [kstep, step]
    split
    · rfl
    · have := kdeleteMode_abs h id am {}
      cases hr : kdeleteMode k id am {} with
      | mk k' r =>
        rw [hr] at this
        simp only [lift] at this
        rw [← this]
        cases r <;> rfl
  | sChangeActive id now => simp only [kstep, step]; split; rfl; exact kchangeActive_abs h id now
  | sClear now => exact kchangeToNormal_abs h now
  | sCreateNil => rfl

/-- the PullActiveMode events of the keyed model are those of `Events.lean` -/
theorem kactiveEvents_abs {k : KSt} (h : KeyOk k) (op : Op) : kactiveEvents k op = activeEvents k.abs op := by
  have := kstep_abs h op
  unfold kactiveEvents activeEvents
  rw [← this]
  rfl

/-! ### the PullModes events of the keyed model are those of `Events.lean` -/

theorem kdiff_createOrAdd {k : KSt} (hk : KeyOk k) (m : Mode) (cands : List String) :
    (match kchooseId k m cands with
      | none => []
      | some key => diff1 (kfind k key) (kfind (kcreateOrAdd k m cands).1 key)) = emitCreateOrAdd k.abs m cands := by
  have hres : (createOrAdd k.abs m cands).2 = (kcreateOrAdd k m cands).2 := by rw [← kcreateOrAdd_abs hk]; rfl
  unfold emitCreateOrAdd
  rw [hres]
  unfold kcreateOrAdd
  by_cases hg : m.normal = true ∧ (normalMode k.abs).isSome = true
  · simp only [hg, and_self, if_true]
    cases kchooseId k m cands <;> simp [diff1_self]
  · simp only [hg, if_false]
    cases hc : kchooseId k m cands with
    | none => rfl
    | some id =>
      simp only
      by_cases hf : (kfind k id).isSome = true
      · simp only [hf, if_true, diff1_self]
      · simp only [hf]
        have hnone : kfind k id = none := by
          cases h : kfind k id with
          | none => rfl
          | some _ => simp [h] at hf
        have hafter : kfind { k with recs := kinsert id { m with id := id } k.recs } id = some { m with id := id } :=
          kfindL_kinsert id _ k.recs (kfindL_none hnone)
        simp only [Bool.false_eq_true, if_false]
        rw [hnone, hafter]
        rfl

theorem kdiff_update {k : KSt} (hk : KeyOk k) (m : Mode) (mask : Option Mask) (w : WOpts) :
    diff1 (kfind k m.id) (kfind (kupdateMode k m mask w).1 m.id) = emitUpdate k.abs m mask w := by
  have hres : (updateMode k.abs m mask w).2 = (kupdateMode k m mask w).2 := by rw [← kupdateMode_abs hk]; rfl
  unfold emitUpdate
  rw [hres, ← kfind_abs hk]
  unfold kupdateMode
  by_cases hg : m.normal = true ∧ writesNormal mask = true ∧ otherNormal k.abs m.id = true
  · simp only [hg, and_self, if_true, diff1_self]
  · simp only [hg, if_false]
    by_cases hv : maskInvalid mask = true
    · simp only [hv, if_true, diff1_self]
    · simp only [hv, Bool.false_eq_true, if_false]
      by_cases hrs : maskInvalid w.reset = true
      · simp only [hrs, if_true, diff1_self]
      · simp only [hrs, Bool.false_eq_true, if_false]
        cases hold : kfind k m.id with
        | some old =>
          simp only
          by_cases ha : w.expectAbsent = true
          · simp only [ha, if_true, hold, diff1_self]
          · simp only [ha, Bool.false_eq_true, if_false]
            by_cases he : expectedFails w.expected old = true
            · simp only [he, if_true, hold, diff1_self]
            · simp only [he, Bool.false_eq_true, if_false]
              cases checkFails w old with
              | some c => simp only [hold, diff1_self]
              | none =>
                have hafter : kfind { k with recs := kstore m.id (written old m mask w) k.recs } m.id
                    = some (written old m mask w) := kfindL_kstore m.id _ k.recs old hold
                simp only [hafter, diff1]
        | none =>
          simp only
          by_cases hc : w.createIfAbsent = true
          · simp only [hc, Bool.not_true, Bool.false_eq_true, if_false]
            by_cases he : expectedFails w.expected Mode.blank = true
            · simp only [he, if_true, hold, diff1_self]
            · simp only [he, Bool.false_eq_true, if_false]
              cases checkFails w Mode.blank with
              | some c => simp only [hold, diff1_self]
              | none =>
                have hafter : kfind { k with recs := kinsert m.id (written Mode.blank m mask w) k.recs } m.id
                    = some (written Mode.blank m mask w) := kfindL_kinsert m.id _ k.recs (kfindL_none hold)
                simp only [hafter, diff1]
          · have hc' : w.createIfAbsent = false := by simpa using hc
            simp only [hc', Bool.not_false, if_true, hold, diff1_self]

theorem kdiff_delete {k : KSt} (hk : KeyOk k) (id : String) (am : Bool) (d : DOpts) :
    diff1 (kfind k id) (kfind (kdeleteMode k id am d).1 id) = emitDelete k.abs id am d := by
  have hres : (deleteMode k.abs id am d).2 = (kdeleteMode k id am d).2 := by rw [← kdeleteMode_abs hk]; rfl
  unfold emitDelete
  rw [hres, ← kfind_abs hk, kdeleteMode_unfixed hk]
  unfold kdeleteModeUnfixed kdeleteBody
  by_cases ha : id = k.active.id
  · rw [if_pos ha]
    simp only [diff1_self]
  · rw [if_neg ha]
    cases hold : kfind k id with
    | none => cases am <;> simp [hold, diff1]
    | some old =>
      simp only
      cases dcheckFails d old with
      | some c => simp only [hold, diff1_self]
      | none =>
        simp only
        by_cases he : expectedFails d.expected old = true
        · simp only [he, if_true, hold, diff1_self]
        · have hafter : kfind { k with recs := kerase id k.recs } id = none := kfindL_kerase id k.recs
          simp only [he, Bool.false_eq_true, if_false, hafter, diff1]

theorem kstep_add_fst (k : KSt) (m : Mode) (h : ¬ m.id = "") : (kstep k (.add m)).1 = (kcreateOrAdd k m []).1 := by
  simp only [kstep, h, if_false]
  cases hr : kcreateOrAdd k m [] with
  | mk k' r => cases r <;> rfl

theorem kstep_sDelete_fst (k : KSt) (id : String) (am : Bool) (h : ¬ id = "") :
    (kstep k (.sDelete id am)).1 = (kdeleteMode k id am {}).1 := by
  simp only [kstep, h, if_false]
  cases hr : kdeleteMode k id am {} with
  | mk k' r => cases r <;> rfl

/-- **the PullModes events**: on a state where every record carries its key, what the keyed model publishes — the
change of the one key the operation wrote — is what `modeEvents` of `Events.lean` says, for every operation and
every option -/
theorem kmodeEvents_abs {k : KSt} (hk : KeyOk k) (op : Op) : kmodeEvents k op = modeEvents k.abs op := by
  cases op with
  | create m cands =>
    simp only [kmodeEvents, kwrittenKey, modeEvents]
    by_cases h : m.id ≠ ""
    · simp [h]
    · simp only [h, if_false, kstep]
      exact kdiff_createOrAdd hk m cands
  | sCreate m cands =>
    simp only [kmodeEvents, kwrittenKey, modeEvents]
    by_cases h : m.id ≠ ""
    · simp [h]
    · simp only [h, if_false, kstep]
      exact kdiff_createOrAdd hk m cands
  | add m =>
    simp only [kmodeEvents, kwrittenKey, modeEvents]
    by_cases h : m.id = ""
    · simp [h]
    · simp only [h, if_false, kstep_add_fst k m h]
      have := kdiff_createOrAdd hk m []
      simp only [kchooseId, h, if_false] at this
      exact this
  | update m mask w =>
    simp only [kmodeEvents, kwrittenKey, modeEvents]
    by_cases h : m.id = ""
    · simp [h]
    · simp only [h, if_false, kstep]
      exact kdiff_update hk m mask w
  | sUpdate m mask =>
    simp only [kmodeEvents, kwrittenKey, modeEvents]
    by_cases h : m.id = ""
    · simp [h]
    · simp only [h, if_false, kstep]
      exact kdiff_update hk m mask {}
  | delete id am d =>
    simp only [kmodeEvents, kwrittenKey, modeEvents, kstep]
    exact kdiff_delete hk id am d
  | sDelete id am =>
    simp only [kmodeEvents, kwrittenKey, modeEvents]
    by_cases h : id = ""
    · simp [h]
    · simp only [h, if_false, kstep_sDelete_fst k id am h]
      exact kdiff_delete hk id am {}
  | setActive _ => rfl
  | changeActive _ _ => rfl
  | clear _ => rfl
  | findMode _ => rfl
  | sChangeActive _ _ => rfl
  | sClear _ => rfl
  | sCreateNil => rfl

/-! ### tame operations keep every record under its key -/

theorem kcreateOrAdd_keyOk {k : KSt} (h : KeyOk k) (m : Mode) (cands : List String) :
    KeyOk (kcreateOrAdd k m cands).1 := by
  unfold kcreateOrAdd
  split
  · exact h
  · split
    · exact h
    · split
      · exact h
      · exact recsOk_kinsert h rfl

theorem kchangeActive_keyOk {k : KSt} (h : KeyOk k) (id : String) (now : Nat) : KeyOk (kchangeActive k id now).1 := by
  unfold kchangeActive
  split <;> exact h

theorem kupdateMode_keyOk {k : KSt} (h : KeyOk k) (m : Mode) (mask : Option Mask) (w : WOpts) (ht : w.Tame) :
    KeyOk (kupdateMode k m mask w).1 := by
  unfold kupdateMode
  split
  · exact h
  · split
    · exact h
    · split
      · exact h
      · split
        · split
          · exact h
          · split
            · exact h
            · split
              · exact h
              · exact recsOk_kstore h (written_tame _ m mask w ht).1.symm
        · split
          · exact h
          · split
            · exact h
            · split
              · exact h
              · exact recsOk_kinsert h (written_tame _ m mask w ht).1.symm

theorem kdeleteMode_keyOk {k : KSt} (h : KeyOk k) (id : String) (am : Bool) (d : DOpts) :
    KeyOk (kdeleteMode k id am d).1 := by
  unfold kdeleteMode kdeleteBody
  split
  · exact h
  · split
    · exact h
    · split
      · split <;> exact h
      · split
        · exact h
        · split
          · exact h
          · exact recsOk_kerase h id

theorem kstep_keyOk {k : KSt} (h : KeyOk k) (op : Op) (ht : op.Tame) : KeyOk (kstep k op).1 := by
  cases op with
  | create m cands => simp only [kstep]; split; exact h; exact kcreateOrAdd_keyOk h m cands
  | add m =>
    simp only [kstep]
    split
    · exact h
    · have := kcreateOrAdd_keyOk h m []
      split
      · rename_i hr; rw [hr] at this; exact this
      · exact this
  | update m mask w => simp only [kstep]; split; exact h; exact kupdateMode_keyOk h m mask w ht
  | delete id am d => exact kdeleteMode_keyOk h id am d
  | setActive m => simp only [kstep, ksetActive]; split <;> exact h
  | changeActive id now => exact kchangeActive_keyOk h id now
  | clear now => simp only [kstep, kchangeToNormal]; split; exact h; exact kchangeActive_keyOk h _ now
  | findMode id => exact h
  | sCreate m cands => simp only [kstep]; split; exact h; exact kcreateOrAdd_keyOk h m cands
  | sUpdate m mask => simp only [kstep]; split; exact h; exact kupdateMode_keyOk h m mask {} tame_default
  | sDelete id am =>
    simp only [kstep]
    split
    · exact h
    · have := kdeleteMode_keyOk h id am {}
      split
      · rename_i hr; rw [hr] at this; exact this
      · exact this
  | sChangeActive id now => simp only [kstep]; split; exact h; exact kchangeActive_keyOk h id now
  | sClear now => simp only [kstep, kchangeToNormal]; split; exact h; exact kchangeActive_keyOk h _ now
  | sCreateNil => exact h

/-! ### the keys stay distinct, whatever the options -/

def KeysNodup (k : KSt) : Prop := (k.recs.map (·.1)).Nodup

theorem kcreateOrAdd_keys {k : KSt} (h : KeysNodup k) (m : Mode) (cands : List String) :
    KeysNodup (kcreateOrAdd k m cands).1 := by
  unfold kcreateOrAdd
  split
  · exact h
  · split
    · exact h
    · rename_i id _
      by_cases hf : (kfind k id).isSome = true
      · simp only [hf, if_true]; exact h
      · simp only [hf]
        have hnone : kfind k id = none := by
          cases hk : kfind k id with
          | none => rfl
          | some _ => simp [hk] at hf
        exact keys_kinsert _ _ _ (kfindL_none hnone) h

theorem kupdateMode_keys {k : KSt} (h : KeysNodup k) (m : Mode) (mask : Option Mask) (w : WOpts) :
    KeysNodup (kupdateMode k m mask w).1 := by
  unfold kupdateMode
  split
  · exact h
  · split
    · exact h
    · split
      · exact h
      · split
        · split
          · exact h
          · split
            · exact h
            · split
              · exact h
              · show ((kstore _ _ _).map (·.1)).Nodup
                rw [keys_kstore]; exact h
        · rename_i hnone
          split
          · exact h
          · split
            · exact h
            · split
              · exact h
              · exact keys_kinsert _ _ _ (kfindL_none hnone) h

theorem kdeleteMode_keys {k : KSt} (h : KeysNodup k) (id : String) (am : Bool) (d : DOpts) :
    KeysNodup (kdeleteMode k id am d).1 := by
  unfold kdeleteMode kdeleteBody
  split
  · exact h
  · split
    · exact h
    · split
      · split <;> exact h
      · split
        · exact h
        · split
          · exact h
          · exact keys_kerase id _ h

theorem kchangeActive_keys {k : KSt} (h : KeysNodup k) (id : String) (now : Nat) : KeysNodup (kchangeActive k id now).1 := by
  unfold kchangeActive
  split <;> exact h

theorem kstep_keys {k : KSt} (h : KeysNodup k) (op : Op) : KeysNodup (kstep k op).1 := by
  cases op with
  | create m cands => simp only [kstep]; split; exact h; exact kcreateOrAdd_keys h m cands
  | add m =>
    simp only [kstep]
    split
    · exact h
    · have := kcreateOrAdd_keys h m []
      split
      · rename_i hr; rw [hr] at this; exact this
      · exact this
  | update m mask w => simp only [kstep]; split; exact h; exact kupdateMode_keys h m mask w
  | delete id am d => exact kdeleteMode_keys h id am d
  | setActive m => simp only [kstep, ksetActive]; split <;> exact h
  | changeActive id now => exact kchangeActive_keys h id now
  | clear now => simp only [kstep, kchangeToNormal]; split; exact h; exact kchangeActive_keys h _ now
  | findMode id => exact h
  | sCreate m cands => simp only [kstep]; split; exact h; exact kcreateOrAdd_keys h m cands
  | sUpdate m mask => simp only [kstep]; split; exact h; exact kupdateMode_keys h m mask {}
  | sDelete id am =>
    simp only [kstep]
    split
    · exact h
    · have := kdeleteMode_keys h id am {}
      split
      · rename_i hr; rw [hr] at this; exact this
      · exact this
  | sChangeActive id now => simp only [kstep]; split; exact h; exact kchangeActive_keys h id now
  | sClear now => simp only [kstep, kchangeToNormal]; split; exact h; exact kchangeActive_keys h _ now
  | sCreateNil => exact h

/-! ### runs and configurations -/

theorem krun_abs {k : KSt} (h : KeyOk k) (ops : List Op) (ht : ∀ op ∈ ops, op.Tame) :
    (krun k ops).abs = run k.abs ops ∧ KeyOk (krun k ops) := by
  induction ops generalizing k with
  | nil => exact ⟨rfl, h⟩
  | cons op ops ih =>
    have h1 := kstep_abs h op
    have h2 := kstep_keyOk h op (ht op (by simp))
    have := ih h2 (fun o ho => ht o (by simp [ho]))
    simp only [krun, run]
    have h3 : (kstep k op).1.abs = (step k.abs op).1 := by rw [← h1]; rfl
    rw [← h3]
    exact this

theorem krunEvents_abs {k : KSt} (h : KeyOk k) (ops : List Op) (ht : ∀ op ∈ ops, op.Tame) :
    krunEvents k ops = runEvents k.abs ops := by
  induction ops generalizing k with
  | nil => rfl
  | cons op ops ih =>
    have h1 := kstep_abs h op
    have h2 := kstep_keyOk h op (ht op (by simp))
    have h3 : (kstep k op).1.abs = (step k.abs op).1 := by rw [← h1]; rfl
    simp only [krunEvents, runEvents, kmodeEvents_abs h op, ih h2 (fun o ho => ht o (by simp [ho])), h3]

theorem krun_keys {k : KSt} (h : KeysNodup k) (ops : List Op) : KeysNodup (krun k ops) := by
  induction ops generalizing k with
  | nil => exact h
  | cons op ops ih => exact ih (kstep_keys h op)

theorem mem_kconfig : ∀ (l : List Rec) (x : Rec), x ∈ l.foldr (fun e acc => kinsert e.1 e.2 acc) [] ↔ x ∈ l := by
  intro l
  induction l with
  | nil => intro x; simp
  | cons a as ih => intro x; simp only [List.foldr_cons, mem_kinsert, ih, List.mem_cons]

/-- a configuration whose records carry their keys is the configuration of `Electric.lean` -/
theorem kconfig_abs (recs : List Rec) (active : Mode) (h : RecsOk recs) :
    (KSt.config recs active).abs = St.config (recs.map (·.2)) active ∧ KeyOk (KSt.config recs active) := by
  have hk : KeyOk (KSt.config recs active) := fun e he => h e ((mem_kconfig recs e).mp he)
  refine ⟨?_, hk⟩
  unfold KSt.config KSt.abs St.config
  simp only [St.mk.injEq, and_true]
  induction recs with
  | nil => rfl
  | cons a as ih =>
    have has : RecsOk as := fun x hx => h x (by simp [hx])
    have hok : RecsOk (as.foldr (fun e acc => kinsert e.1 e.2 acc) []) := fun e he => has e ((mem_kconfig as e).mp he)
    simp only [List.foldr_cons, List.map_cons]
    rw [kinsert_abs hok, ih has (fun e he => has e ((mem_kconfig as e).mp he)), h a (by simp)]
    exact insertAt_of_id rfl _

theorem keys_kconfig : ∀ (l : List Rec), (l.map (·.1)).Nodup →
    ((l.foldr (fun e acc => kinsert e.1 e.2 acc) []).map (·.1)).Nodup := by
  intro l
  induction l with
  | nil => intro _; simp
  | cons a as ih =>
    intro h
    simp only [List.map_cons, List.nodup_cons] at h
    simp only [List.foldr_cons]
    apply keys_kinsert _ _ _ _ (ih h.2)
    intro x hx e
    exact h.1 (List.mem_map.mpr ⟨x, (mem_kconfig as x).mp hx, e⟩)

end ScVerif.C19
