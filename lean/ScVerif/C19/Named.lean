import ScVerif.C19.Lemmas
/-!
The small closed family of named caller-supplied callbacks the driver and the Go harness share
(`harness/cmd/c19/options.go` has the same functions on `*traits.ElectricMode`).  The theorems quantify over
ARBITRARY functions (`WOpts.Tame` is the hypothesis); this family only feeds the differential tie.
-/
namespace ScVerif.C19

/-- `resource.InterceptBefore` / `resource.InterceptAfter` callbacks by name: `f old new` is what the callback
leaves in `new`. -/
def namedIcpt? : String → Option (Mode → Mode → Mode)
  | "tp" => some fun old n => { n with title := old.title ++ "+" }      -- delta-style: depends on the old value
  | "ds" => some fun old n => { n with description := old.title }
  | "n0" => some fun _ n => { n with normal := false }
  | "nk" => some fun old n => { n with normal := old.normal }            -- keep the stored flag
  | "n1" => some fun _ n => { n with normal := true }                    -- NOT tame
  | "i0" => some fun _ n => { n with id := "" }                          -- NOT tame
  | "iz" => some fun _ n => { n with id := "zz" }                        -- NOT tame
  | _ => none

/-- `resource.WithExpectedCheck` callbacks by name: the error for the current value, if any. -/
def namedCheck? : String → Option (Mode → Option Code)
  | "cn" => some fun cur => if cur.normal then none else some .failedPrecondition
  | "ct" => some fun cur => if cur.title = "" then some .notFound else none
  | "ca" => some fun cur => if cur.normal then none else some .aborted
  | "ok" => some fun _ => none
  | "pk" => some fun _ => none                 -- the parking check of the forced-overlap rounds: never refuses
  | _ => none

/-- the four tame members are tame, as before- and as after-interceptors, with any reset mask that leaves `id` alone -/
theorem named_tame (name : String) (hn : name = "tp" ∨ name = "ds" ∨ name = "n0" ∨ name = "nk")
    (f : Mode → Mode → Mode) (hf : namedIcpt? name = some f) (w : WOpts)
    (hr : ∀ k, w.reset = some k → Field.id ∉ k.paths)
    (hb : w.before = none ∨ w.before = some f) (ha : w.after = none ∨ w.after = some f) : w.Tame := by
  have hfok : ∀ old n : Mode, (f old n).id = n.id ∧ ((f old n).normal = true → n.normal = true ∨ old.normal = true) := by
    rcases hn with rfl | rfl | rfl | rfl <;> simp only [namedIcpt?, Option.some.injEq] at hf <;> subst hf <;> intro old n
    · exact ⟨rfl, fun h => Or.inl h⟩
    · exact ⟨rfl, fun h => Or.inl h⟩
    · exact ⟨rfl, fun h => by cases h⟩
    · exact ⟨rfl, fun h => Or.inr h⟩
  refine ⟨hr, ?_, ?_⟩
  · intro g hg
    rcases hb with h | h <;> rw [h] at hg
    · cases hg
    · cases hg; exact hfok
  · intro g hg
    rcases ha with h | h <;> rw [h] at hg
    · cases hg
    · cases hg; exact hfok

/-- what a successful `updateMode` stored -/
theorem updateMode_ok {s : St} {m : Mode} {mask : Option Mask} {w : WOpts} {new : Mode}
    (h : (updateMode s m mask w).2 = .ok (some new)) :
    (∃ old, find s m.id = some old ∧ new = written old m mask w ∧
      (updateMode s m mask w).1.modes = storeAt m.id new s.modes) ∨
    (find s m.id = none ∧ new = written Mode.blank m mask w ∧
      (updateMode s m mask w).1.modes = insertAt m.id new s.modes) := by
  by_cases hg : (m.normal = true ∧ writesNormal mask = true ∧ otherNormal s m.id = true)
  · simp [updateMode, hg] at h
  · by_cases hv : maskInvalid mask = true
    · simp [updateMode, hg, hv] at h
    · by_cases hrs : maskInvalid w.reset = true
      · simp [updateMode, hg, hv, hrs] at h
      · cases hf : find s m.id with
        | none =>
          right
          by_cases hc : w.createIfAbsent = true
          · by_cases he : expectedFails w.expected Mode.blank = true
            · simp [updateMode, hg, hv, hrs, hf, hc, he] at h
            · cases hck : checkFails w Mode.blank with
              | some c => simp [updateMode, hg, hv, hrs, hf, hc, he, hck] at h
              | none =>
                have hn : written Mode.blank m mask w = new := by
                  simpa [updateMode, hg, hv, hrs, hf, hc, he, hck] using h
                refine ⟨rfl, hn.symm, ?_⟩
                simp [updateMode, hg, hv, hrs, hf, hc, he, hck, hn]
          · simp [updateMode, hg, hv, hrs, hf, hc] at h
        | some old =>
          left
          by_cases ha : w.expectAbsent = true
          · simp [updateMode, hg, hv, hrs, hf, ha] at h
          · by_cases he : expectedFails w.expected old = true
            · simp [updateMode, hg, hv, hrs, hf, ha, he] at h
            · cases hck : checkFails w old with
              | some c => simp [updateMode, hg, hv, hrs, hf, ha, he, hck] at h
              | none =>
                have hn : written old m mask w = new := by
                  simpa [updateMode, hg, hv, hrs, hf, ha, he, hck] using h
                refine ⟨old, rfl, hn.symm, ?_⟩
                simp [updateMode, hg, hv, hrs, hf, ha, he, hck, hn]

end ScVerif.C19
