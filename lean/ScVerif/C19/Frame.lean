import ScVerif.C19.Events
/-!
Frame lemmas: an operation that does not report success leaves the whole model state alone, and publishes
nothing.  `St` is ALL the state the operations consult — in particular the normal mode is not remembered
anywhere, `normalMode` recomputes it from the mode list — so "state unchanged" covers every derived value.
-/
namespace ScVerif.C19

theorem createOrAdd_frame (s : St) (m : Mode) (cands : List String) :
    (createOrAdd s m cands).1 = s ∨ (createOrAdd s m cands).2.isOk = true := by
  unfold createOrAdd
  repeat' split
  all_goals simp [Res.isOk]

theorem updateMode_frame (s : St) (m : Mode) (mask : Option Mask) (w : WOpts) :
    (updateMode s m mask w).1 = s ∨ (updateMode s m mask w).2.isOk = true := by
  unfold updateMode
  repeat' split
  all_goals simp [Res.isOk]

theorem deleteMode_frame (s : St) (id : String) (am : Bool) (ex : DOpts) :
    (deleteMode s id am ex).1 = s ∨ (deleteMode s id am ex).2.isOk = true := by
  unfold deleteMode
  repeat' split
  all_goals simp [Res.isOk]

theorem changeActive_frame (s : St) (id : String) (now : Nat) :
    (changeActive s id now).1 = s ∨ (changeActive s id now).2.isOk = true := by
  unfold changeActive
  repeat' split
  all_goals simp [Res.isOk]

theorem changeToNormal_frame (s : St) (now : Nat) :
    (changeToNormal s now).1 = s ∨ (changeToNormal s now).2.isOk = true := by
  unfold changeToNormal
  split
  · simp
  · exact changeActive_frame s _ now

theorem setActive_frame (s : St) (m : Mode) : (setActive s m).1 = s ∨ (setActive s m).2.isOk = true := by
  unfold setActive
  repeat' split
  all_goals simp [Res.isOk]

/-- every operation either reports success or leaves the state exactly as it was -/
theorem step_frame (s : St) (op : Op) : (step s op).1 = s ∨ (step s op).2.isOk = true := by
  cases op with
  | create m cands => simp only [step]; split; simp; exact createOrAdd_frame s m cands
  | add m =>
    simp only [step]
    split
    · simp
    · rcases createOrAdd_frame s m [] with h | h
      · left
        split
        · rename_i h2; rw [h2] at h; exact h
        · exact h
      · right
        cases hr : createOrAdd s m [] with
        | mk s' r => rw [hr] at h; cases r <;> simp_all [Res.isOk]
  | update m mask w => simp only [step]; split; simp; exact updateMode_frame s m mask w
  | delete id am ex => exact deleteMode_frame s id am ex
  | setActive m => exact setActive_frame s m
  | changeActive id now => exact changeActive_frame s id now
  | clear now => exact changeToNormal_frame s now
  | findMode id => left; rfl
  | sCreate m cands => simp only [step]; split; simp; exact createOrAdd_frame s m cands
  | sUpdate m mask => simp only [step]; split; simp; exact updateMode_frame s m mask {}
  | sDelete id am =>
    simp only [step]
    split
    · simp
    · rcases deleteMode_frame s id am {} with h | h
      · left
        split
        · rename_i h2; rw [h2] at h; exact h
        · exact h
      · right
        cases hr : deleteMode s id am {} with
        | mk s' r => rw [hr] at h; cases r <;> simp_all [Res.isOk]
  | sChangeActive id now => simp only [step]; split; simp; exact changeActive_frame s id now
  | sClear now => exact changeToNormal_frame s now
  | sCreateNil => left; rfl

theorem emitCreateOrAdd_frame (s : St) (m : Mode) (cands : List String)
    (h : (createOrAdd s m cands).2.isOk = false) : emitCreateOrAdd s m cands = [] := by
  unfold emitCreateOrAdd
  cases hr : (createOrAdd s m cands).2 with
  | ok r => rw [hr] at h; simp [Res.isOk] at h
  | err c => rfl
  | panic => rfl

theorem emitUpdate_frame (s : St) (m : Mode) (mask : Option Mask) (w : WOpts)
    (h : (updateMode s m mask w).2.isOk = false) : emitUpdate s m mask w = [] := by
  unfold emitUpdate
  cases hr : (updateMode s m mask w).2 with
  | ok r => rw [hr] at h; simp [Res.isOk] at h
  | err c => rfl
  | panic => rfl

theorem emitDelete_frame (s : St) (id : String) (am : Bool) (ex : DOpts)
    (h : (deleteMode s id am ex).2.isOk = false) : emitDelete s id am ex = [] := by
  unfold emitDelete
  cases hr : (deleteMode s id am ex).2 with
  | ok r => rw [hr] at h; simp [Res.isOk] at h
  | err c => rfl
  | panic => rfl

/-- an operation that does not report success publishes no PullModes event -/
theorem modeEvents_frame (s : St) (op : Op) (h : (step s op).2.isOk = false) : modeEvents s op = [] := by
  cases op with
  | create m cands =>
    simp only [modeEvents, step] at h ⊢
    split
    · rfl
    · rename_i h2; simp only [h2, if_false] at h; exact emitCreateOrAdd_frame s m cands h
  | add m =>
    simp only [modeEvents, step] at h ⊢
    split
    · rfl
    · rename_i h2
      simp only [h2, if_false] at h
      apply emitCreateOrAdd_frame
      cases hr : createOrAdd s m [] with
      | mk s' r => rw [hr] at h; cases r <;> simp_all [Res.isOk]
  | update m mask w =>
    simp only [modeEvents, step] at h ⊢
    split
    · rfl
    · rename_i h2; simp only [h2, if_false] at h; exact emitUpdate_frame s m mask w h
  | delete id am ex => exact emitDelete_frame s id am ex h
  | sCreate m cands =>
    simp only [modeEvents, step] at h ⊢
    split
    · rfl
    · rename_i h2; simp only [h2, if_false] at h; exact emitCreateOrAdd_frame s m cands h
  | sUpdate m mask =>
    simp only [modeEvents, step] at h ⊢
    split
    · rfl
    · rename_i h2; simp only [h2, if_false] at h; exact emitUpdate_frame s m mask {} h
  | sDelete id am =>
    simp only [modeEvents, step] at h ⊢
    split
    · rfl
    · rename_i h2
      simp only [h2, if_false] at h
      apply emitDelete_frame
      cases hr : deleteMode s id am {} with
      | mk s' r => rw [hr] at h; cases r <;> simp_all [Res.isOk]
  | setActive _ => rfl
  | changeActive _ _ => rfl
  | clear _ => rfl
  | findMode _ => rfl
  | sChangeActive _ _ => rfl
  | sClear _ => rfl
  | sCreateNil => rfl

end ScVerif.C19
