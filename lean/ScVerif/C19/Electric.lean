/-
C19 — executable model of `pkg/trait/electricpb` `Model` (model.go) and of the mode-related RPCs of
`ModelServer` (model_server.go: UpdateActiveMode, ClearActiveMode; memory_settings.go: CreateMode,
UpdateMode, DeleteMode), after the `fix:` commits 6953a94, 7f1dc6a, 2b5cf2c and eb62186 (UpdateMode refuses the
empty id), including the Model-level write options of `UpdateMode` / `DeleteMode` (`WOpts`: `WithCreateIfAbsent`,
`WithExpectAbsent`, `WithExpectedValue`, and — round 5 — the caller's own code `InterceptBefore` /
`InterceptAfter` / `WithExpectedCheck` as arbitrary functions plus `WithResetMask`, in the order
`WriteRequest.changeFn` uses them, the record being stored under the KEY the call read before any callback ran)
and the checks the construction makes on `WithInitialMode` (`St.config?`).

The model is sequential: every mutator of `Model` holds `Model.mu` for its whole body, so a concurrent
mix is an interleaving of whole operations (`Conc.lean`).  `resource.Collection` / `resource.Value` are
modelled by the behaviour their calls have sequentially: `Collection.Add` (id generation from the
candidate ids the RNG yields, AlreadyExists), `Collection.Update` (mask validation, NotFound, field-wise
merge under the update mask), `Collection.Delete` (NotFound / allow-missing), `Value.Set` (replace, with
the InterceptAfter hook of changeActiveMode).

Abstractions (see props/C19.json): an `ElectricMode` has the fields `id, title, description, voltage (whole
volts), start_time (whole seconds), segments (each reduced to a whole-number magnitude), normal`; update
masks range over those seven paths plus an unknown path; the clock
value read by an operation is a parameter of the operation; id generation consumes the list of
candidate ids the injected RNG would produce.
-/
namespace ScVerif.C19

inductive Code where
  | invalidArgument
  | notFound
  | alreadyExists
  | failedPrecondition
  | aborted
  | internal
  deriving DecidableEq, Repr

def Code.name : Code → String
  | .invalidArgument => "InvalidArgument"
  | .notFound => "NotFound"
  | .alreadyExists => "AlreadyExists"
  | .failedPrecondition => "FailedPrecondition"
  | .aborted => "Aborted"
  | .internal => "Internal"

structure Mode where
  id : String
  title : String
  normal : Bool
  start : Option Nat
  description : String := ""
  /-- volts, whole numbers (0 = absent) -/
  voltage : Nat := 0
  /-- the repeated `segments` field, each segment reduced to its magnitude (whole numbers) -/
  segments : List Nat := []
  deriving DecidableEq, Repr

/-- a mode with only the four core fields set -/
def Mode.mk4 (id title : String) (normal : Bool) (start : Option Nat) : Mode :=
  { id := id, title := title, normal := normal, start := start }

/-- `&traits.ElectricMode{}` -/
def Mode.blank : Mode := Mode.mk4 "" "" false none

inductive Field where
  | id | title | normal | start | description | voltage | segments
  deriving DecidableEq, Repr

/-- An update mask: the known paths it lists, and whether it also mentions an unknown path. -/
structure Mask where
  paths : List Field
  invalid : Bool
  deriving DecidableEq, Repr

/-- Result of an operation. -/
inductive Res where
  | ok (m : Option Mode)
  | err (c : Code)
  | panic
  deriving DecidableEq, Repr

structure St where
  /-- `modes` collection as its sorted listing -/
  modes : List Mode
  /-- `activeMode` value -/
  active : Mode
  /-- ghost: an operation that sets the active mode has succeeded -/
  changed : Bool
  deriving DecidableEq, Repr

/-- `NewModel()`: no modes, the active mode is a blank dummy. -/
def St.init : St := ⟨[], Mode.blank, false⟩

/-! ### resource.Collection behaviour -/

/-- `modes.Get(id)` -/
def find (s : St) (id : String) : Option Mode := s.modes.find? (fun x => x.id = id)

/-- insertion keeping the listing sorted by id -/
def insertMode (m : Mode) : List Mode → List Mode
  | [] => [m]
  | x :: xs => if m.id < x.id then m :: x :: xs else x :: insertMode m xs

/-- `NewModel(WithInitialMode(modes…), WithInitialActiveMode(active))`: the given modes as initial records
(listed sorted by id), the given placeholder as active mode, nothing changed yet.  `St.init = St.config [] Mode.blank`. -/
def St.config (modes : List Mode) (active : Mode) : St := ⟨modes.foldr insertMode [], active, false⟩

/-- what the options check: `WithInitialMode` panics on a mode without id, `resource.WithInitialRecord` (applied
by `NewModel`) panics when an id is configured twice.  Nothing else is checked. -/
def configOk (modes : List Mode) : Bool :=
  modes.all (fun m => m.id != "") && decide ((modes.map (·.id)).Nodup)

/-- `NewModel(WithInitialMode(modes…), WithInitialActiveMode(active))`, `none` = the construction panics -/
def St.config? (modes : List Mode) (active : Mode) : Option St :=
  if configOk modes then some (St.config modes active) else none

def replaceMode (m : Mode) (l : List Mode) : List Mode := l.map (fun x => if x.id = m.id then m else x)

def eraseMode (id : String) (l : List Mode) : List Mode := l.filter (fun x => x.id ≠ id)

/-- `normalMode()`: the first mode of the listing with `Normal` set. -/
def normalMode (s : St) : Option Mode := s.modes.find? (fun x => x.normal)

/-- `GenerateUniqueId`: the first non-empty candidate that is not taken (10 candidates are tried). -/
def genId (s : St) (cands : List String) : Option String :=
  (cands.take 10).find? (fun c => c ≠ "" ∧ (find s c).isNone)

/-- `FieldUpdater.Merge(dst, src)` on the modelled fields. -/
def mergeMode (dst src : Mode) : Option Mask → Mode
  | none => src
  | some mask =>
    { id := if Field.id ∈ mask.paths then src.id else dst.id
      title := if Field.title ∈ mask.paths then src.title else dst.title
      normal := if Field.normal ∈ mask.paths then src.normal else dst.normal
      start := if Field.start ∈ mask.paths then src.start else dst.start
      description := if Field.description ∈ mask.paths then src.description else dst.description
      voltage := if Field.voltage ∈ mask.paths then src.voltage else dst.voltage
      -- proto.Merge APPENDS a repeated field; pruneEmpty clears it when the source has none
      segments := if Field.segments ∈ mask.paths then
          (if src.segments = [] then [] else dst.segments ++ src.segments)
        else dst.segments }

/-- does an update under this mask write the `normal` field? (`writesField`) -/
def writesNormal : Option Mask → Bool
  | none => true
  | some mask => Field.normal ∈ mask.paths

/-- The Model-level write options `UpdateMode` / `DeleteMode` hand through to the collection, beyond the
update mask and allow-missing (the servers never pass them).  The interceptors and the check are the caller's
own code: arbitrary functions (the theorems quantify over them; the driver and the harness share a small
named family, `Drv.lean`). -/
structure WOpts where
  /-- `resource.WithCreateIfAbsent()`: the update is an upsert -/
  createIfAbsent : Bool := false
  /-- `resource.WithExpectAbsent()` -/
  expectAbsent : Bool := false
  /-- `resource.WithExpectedValue(m)` -/
  expected : Option Mode := none
  /-- `resource.WithResetMask(mask)`: fields cleared from the merged value (after InterceptBefore and the merge,
  before InterceptAfter) -/
  reset : Option Mask := none
  /-- `resource.WithExpectedCheck(fn)`: `fn current` = the error it returns, if any -/
  check : Option (Mode → Option Code) := none
  /-- `resource.InterceptBefore(f)`: `f old msg` is what the callback leaves in the caller's message -/
  before : Option (Mode → Mode → Mode) := none
  /-- `resource.InterceptAfter(g)`: `g old merged` is what the callback leaves in the value about to be saved -/
  after : Option (Mode → Mode → Mode) := none

/-- The write options `DeleteMode` hands through to `Collection.Delete` besides allow-missing (the servers never
pass them): `Collection.Delete` looks at them only for an item that exists, the caller's check first, then the
expected value. -/
structure DOpts where
  /-- `resource.WithExpectedValue(m)` -/
  expected : Option Mode := none
  /-- `resource.WithExpectedCheck(fn)`: `fn current` = the error it returns, if any -/
  check : Option (Mode → Option Code) := none

/-- `resource.WithMoreUpdatePaths("id")` (added by `updateMode` after the caller's options): a nil mask
stays nil (it writes every field anyway), any other mask also names `id`. -/
def maskWithId : Option Mask → Option Mask
  | none => none
  | some k => some { k with paths := Field.id :: k.paths }

/-- the `WithExpectedValue` precondition of a write: fails when a value is expected and the current one
(for an upsert of an absent id: the blank message) differs -/
def expectedFails (expected : Option Mode) (current : Mode) : Bool :=
  match expected with
  | none => false
  | some e => e != current

/-- `FieldUpdater.reset`: the fields the reset mask names are cleared from the merged value -/
def resetMode (m : Mode) : Option Mask → Mode
  | none => m
  | some k =>
    { id := if Field.id ∈ k.paths then "" else m.id
      title := if Field.title ∈ k.paths then "" else m.title
      normal := if Field.normal ∈ k.paths then false else m.normal
      start := if Field.start ∈ k.paths then none else m.start
      description := if Field.description ∈ k.paths then "" else m.description
      voltage := if Field.voltage ∈ k.paths then 0 else m.voltage
      segments := if Field.segments ∈ k.paths then [] else m.segments }

/-- an optional interceptor applied to (old, new) -/
def applyIcpt (f : Option (Mode → Mode → Mode)) (old new : Mode) : Mode :=
  match f with
  | none => new
  | some g => g old new

/-- `WriteRequest.changeFn` after its preconditions: InterceptBefore on the caller's message, `FieldUpdater.Merge`
under the update mask (which `updateMode` has extended by `id`), the reset mask, InterceptAfter. -/
def written (old m : Mode) (mask : Option Mask) (w : WOpts) : Mode :=
  applyIcpt w.after old (resetMode (mergeMode old (applyIcpt w.before old m) (maskWithId mask)) w.reset)

/-- `WithExpectedCheck`: the error the caller's check returns for the current value -/
def checkFails (w : WOpts) (current : Mode) : Option Code :=
  match w.check with
  | none => none
  | some f => f current

/-- the collection stores a record under the KEY of the call (`mode.Id` as `updateMode` read it before any
interceptor ran), whatever id the record carries: replace the record stored under `key` -/
def storeAt (key : String) (m : Mode) (l : List Mode) : List Mode := l.map (fun x => if x.id = key then m else x)

/-- … and insert a new record at the position of `key` in the listing -/
def insertAt (key : String) (m : Mode) : List Mode → List Mode
  | [] => [m]
  | x :: xs => if key < x.id then m :: x :: xs else x :: insertAt key m xs

/-! ### Model operations (model.go) -/

/-- the id `Collection.Add` stores the mode under: the given one, or a generated one when it is empty -/
def chooseId (s : St) (m : Mode) (cands : List String) : Option String :=
  if m.id = "" then genId s cands else some m.id

/-- `createOrAddMode` -/
def createOrAdd (s : St) (m : Mode) (cands : List String) : St × Res :=
  if m.normal ∧ (normalMode s).isSome then (s, .err .alreadyExists)        -- ErrNormalModeExists
  else
    -- modes.Add(mode.Id, mode, WithGenIDIfAbsent, WithIDCallback)
    match chooseId s m cands with
    | none => (s, .err .aborted)                                             -- id generation exhausted
    | some id =>
      if (find s id).isSome then (s, .err .alreadyExists)                    -- ExpectAbsentPreconditionFailed
      else
        let m' := { m with id := id }
        ({ s with modes := insertMode m' s.modes }, .ok (some m'))

/-- `changeActiveMode`: look the mode up, `activeMode.Set(mode, InterceptAfter(stamp when the id differs))`. -/
def changeActive (s : St) (id : String) (now : Nat) : St × Res :=
  match find s id with
  | none => (s, .err .notFound)
  | some m =>
    let m' := if s.active.id ≠ m.id then { m with start := some now } else m
    ({ s with active := m', changed := true }, .ok (some m'))

inductive Op where
  -- Model API
  | create (m : Mode) (cands : List String)
  | add (m : Mode)
  | update (m : Mode) (mask : Option Mask) (w : WOpts)
  | delete (id : String) (allowMissing : Bool) (d : DOpts)
  | setActive (m : Mode)
  | changeActive (id : String) (now : Nat)
  | clear (now : Nat)                                  -- ChangeToNormalMode
  | findMode (id : String)                             -- FindMode (read only)
  -- ElectricApi / MemorySettingsApi servers
  | sCreate (m : Mode) (cands : List String)
  | sUpdate (m : Mode) (mask : Option Mask)
  | sDelete (id : String) (allowMissing : Bool)
  | sChangeActive (id : String) (now : Nat)            -- UpdateActiveMode
  | sClear (now : Nat)                                 -- ClearActiveMode
  | sCreateNil                                         -- the CreateMode RPC with a request that carries no mode

/-- does the update mask mention an unknown field? -/
def maskInvalid : Option Mask → Bool
  | some k => k.invalid
  | none => false

/-- is a mode other than `id` the normal mode? -/
def otherNormal (s : St) (id : String) : Bool :=
  match normalMode s with
  | some n => n.id != id
  | none => false

def updateMode (s : St) (m : Mode) (mask : Option Mask) (w : WOpts) : St × Res :=
  -- the guard added by the fix 7f1dc6a: becoming normal requires that no other mode is normal
  -- (evaluated on the caller's message as it is BEFORE any interceptor runs)
  if m.normal ∧ writesNormal mask ∧ otherNormal s m.id then
    (s, .err .alreadyExists)
  else if maskInvalid mask then (s, .err .invalidArgument)                  -- FieldUpdater.Validate
  else if maskInvalid w.reset then (s, .err .internal)                      -- … "resetMask mentions unknown fields"
  else
    -- modes.Update(mode.Id, mode, opts..., WithMoreUpdatePaths("id"))
    match find s m.id with
    | some old =>
      if w.expectAbsent then (s, .err .alreadyExists)                       -- ExpectAbsentPreconditionFailed
      else if expectedFails w.expected old then (s, .err .failedPrecondition) -- ExpectedValuePreconditionFailed
      else match checkFails w old with
        | some c => (s, .err c)                                             -- WithExpectedCheck
        | none =>
          let new := written old m mask w
          ({ s with modes := storeAt m.id new s.modes }, .ok (some new))
    | none =>
      if !w.createIfAbsent then (s, .err .notFound)
      else if expectedFails w.expected Mode.blank then (s, .err .failedPrecondition)
      else match checkFails w Mode.blank with
        | some c => (s, .err c)
        | none =>
          -- upsert: the record is created from the blank message
          let new := written Mode.blank m mask w
          ({ s with modes := insertAt m.id new s.modes }, .ok (some new))

/-- `WithExpectedCheck` on a delete: the error the caller's check returns for the stored value -/
def dcheckFails (d : DOpts) (current : Mode) : Option Code :=
  match d.check with
  | none => none
  | some f => f current

def deleteMode (s : St) (id : String) (allowMissing : Bool) (d : DOpts) : St × Res :=
  if id = s.active.id then (s, .err .failedPrecondition)                     -- ErrDeleteActiveMode
  else match find s id with
    -- modes.Delete(id, opts...): a missing item is settled before any precondition is looked at
    | none => if allowMissing then (s, .ok none) else (s, .err .notFound)
    | some old =>
      match dcheckFails d old with
      | some c => (s, .err c)                                                -- WithExpectedCheck (first)
      | none =>
        if expectedFails d.expected old then (s, .err .failedPrecondition)   -- ExpectedValuePreconditionFailed
        else ({ s with modes := eraseMode id s.modes }, .ok none)

def setActive (s : St) (m : Mode) : St × Res :=
  match find s m.id with
  | none => (s, .err .notFound)
  | some _ => ({ s with active := m, changed := true }, .ok none)

def changeToNormal (s : St) (now : Nat) : St × Res :=
  match normalMode s with
  | none => (s, .err .notFound)
  | some n => changeActive s n.id now

/-- One operation. -/
def step (s : St) : Op → St × Res
  | .create m cands => if m.id ≠ "" then (s, .panic) else createOrAdd s m cands      -- panic("ID field is set")
  | .add m =>
    if m.id = "" then (s, .panic)                                                     -- panic("ID field is not set")
    else match createOrAdd s m [] with
      | (s', .ok _) => (s', .ok none)
      | r => r
  | .update m mask w => if m.id = "" then (s, .err .notFound) else updateMode s m mask w     -- eb62186: "" names no mode
  | .delete id am ex => deleteMode s id am ex
  | .setActive m => setActive s m
  | .changeActive id now => changeActive s id now
  | .clear now => changeToNormal s now
  | .findMode id => (s, match find s id with | some m => .ok (some m) | none => .err .notFound)
  | .sCreate m cands => if m.id ≠ "" then (s, .err .invalidArgument) else createOrAdd s m cands
  | .sUpdate m mask => if m.id = "" then (s, .err .invalidArgument) else updateMode s m mask {}
  | .sDelete id am =>
    if id = "" then (s, .err .invalidArgument)
    else match deleteMode s id am {} with
      | (s', .ok _) => (s', .ok none)
      | r => r
  | .sChangeActive id now => if id = "" then (s, .err .invalidArgument) else changeActive s id now
  | .sClear now => changeToNormal s now
  | .sCreateNil => (s, .err .invalidArgument)                                         -- ca6ca35: "mode is required"

def run (s : St) : List Op → St
  | [] => s
  | op :: ops => run (step s op).1 ops

/-! ### The code before the two fixes (kept to state what the repaired defects were) -/

/-- the CreateMode RPC without a mode before ca6ca35: `request.GetMode().GetId()` is nil safe, the id check passed,
and `Model.CreateMode(nil)` dereferenced nil -/
def sCreateNilUnfixed (s : St) : St × Res := (s, .panic)

def updateModeUnfixed (s : St) (m : Mode) (mask : Option Mask) : St × Res :=
  if maskInvalid mask then (s, .err .invalidArgument)
  else match find s m.id with
    | none => (s, .err .notFound)
    | some old =>
      let new := mergeMode old m mask                  -- (a non-nil mask with no paths changes nothing)
      ({ s with modes := replaceMode new s.modes }, .ok (some new))

/-- `Collection.Update` as `updateMode` called it before the upsert fix: the caller's mask as it is. An
upsert (`WithCreateIfAbsent`) under a mask without `id` stored a record whose `Id` field was empty,
i.e. not the key it was stored under. -/
def upsertRecordUnfixed (m : Mode) (mask : Option Mask) : Mode := mergeMode Mode.blank m mask

def deleteModeUnfixed (s : St) (id : String) (_allowMissing : Bool) : St × Res :=
  if id = s.active.id then (s, .err .failedPrecondition)
  else match find s id with
    | none => (s, .err .notFound)                      -- a nil delete result was mapped to ErrModeNotFound
    | some _ => ({ s with modes := eraseMode id s.modes }, .ok none)

end ScVerif.C19
