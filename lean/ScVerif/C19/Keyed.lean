import ScVerif.C19.Frame
/-!
C19 — the mode collection as the code has it: records stored under KEYS.

`resource.Collection` is a map from a key to a record, listed in key order; `Electric.lean` identifies a record's
key with the `id` field the record carries.  That is what the code intends (`WithInitialMode` stores a mode under
`m.Id`, `createOrAddMode` writes the generated id into the record, `updateMode` appends
`WithMoreUpdatePaths("id")`), but it is not enforced by `pkg/resource`: a caller's reset mask or interceptor on
`Model.UpdateMode`, or an initial record configured with `WithModeOption(resource.WithInitialRecord(key, mode))`,
can leave a record under a key it does not carry.  The operations of `model.go` then mix the two notions:

* `findMode(id)`, `modes.Update(mode.Id, …)`, `modes.Delete(id, …)` go by KEY;
* `deleteMode`'s guard `id == active.Id`, the stamp condition `oldMode.Id != newMode.Id`, the second-normal-mode
  guard `normal.Id != mode.Id` and `ChangeToNormalMode`'s `changeActiveMode(normal.Id)` go by the RECORD's id.

`kstep` follows the code with keys and records apart.  `Keyed` proves that on states where every record carries
its key (`KeyOk`) it is exactly `step` (so every theorem about `step` is a theorem about the keyed model), that
tame operations keep `KeyOk`, and that the collection's own invariant (distinct keys) holds whatever the
options; `PropsKeyed.lean` derives what an untame write or a foreign-key configuration leads to.
-/
namespace ScVerif.C19

abbrev Rec := String × Mode

structure KSt where
  /-- the `modes` collection: (key, record), listed sorted by key -/
  recs : List Rec
  active : Mode
  changed : Bool
  deriving DecidableEq, Repr

/-- what `Modes()`, `ActiveMode()` show: the records in key order -/
def KSt.abs (k : KSt) : St := ⟨k.recs.map (·.2), k.active, k.changed⟩

/-- a state of `Electric.lean` read as a keyed state: every record under the id it carries -/
def KSt.ofSt (s : St) : KSt := ⟨s.modes.map (fun m => (m.id, m)), s.active, s.changed⟩

/-- `modes.Get(key)` -/
def kfindL (l : List Rec) (key : String) : Option Mode := (l.find? (fun e => e.1 = key)).map (·.2)
def kfind (k : KSt) (key : String) : Option Mode := kfindL k.recs key

def kinsert (key : String) (m : Mode) : List Rec → List Rec
  | [] => [(key, m)]
  | e :: es => if key < e.1 then (key, m) :: e :: es else e :: kinsert key m es

def kstore (key : String) (m : Mode) (l : List Rec) : List Rec := l.map (fun e => if e.1 = key then (key, m) else e)

def kerase (key : String) (l : List Rec) : List Rec := l.filter (fun e => e.1 ≠ key)

/-- `GenerateUniqueId`: a candidate is taken when a record is stored under it as KEY -/
def kgenId (k : KSt) (cands : List String) : Option String :=
  (cands.take 10).find? (fun c => c ≠ "" ∧ (kfind k c).isNone)

def kchooseId (k : KSt) (m : Mode) (cands : List String) : Option String :=
  if m.id = "" then kgenId k cands else some m.id

/-- `createOrAddMode`; `normalMode()` reads the listing (records only) -/
def kcreateOrAdd (k : KSt) (m : Mode) (cands : List String) : KSt × Res :=
  if m.normal ∧ (normalMode k.abs).isSome then (k, .err .alreadyExists)
  else
    match kchooseId k m cands with
    | none => (k, .err .aborted)
    | some id =>
      if (kfind k id).isSome then (k, .err .alreadyExists)
      else
        let m' := { m with id := id }
        ({ k with recs := kinsert id m' k.recs }, .ok (some m'))

/-- `changeActiveMode(id)`: lookup by key; the stamp condition compares the RECORDS' ids -/
def kchangeActive (k : KSt) (id : String) (now : Nat) : KSt × Res :=
  match kfind k id with
  | none => (k, .err .notFound)
  | some m =>
    let m' := if k.active.id ≠ m.id then { m with start := some now } else m
    ({ k with active := m', changed := true }, .ok (some m'))

/-- `updateMode`: the guard compares the normal RECORD's id with `mode.Id`; the write goes to the KEY `mode.Id` -/
def kupdateMode (k : KSt) (m : Mode) (mask : Option Mask) (w : WOpts) : KSt × Res :=
  if m.normal ∧ writesNormal mask ∧ otherNormal k.abs m.id then (k, .err .alreadyExists)
  else if maskInvalid mask then (k, .err .invalidArgument)
  else if maskInvalid w.reset then (k, .err .internal)
  else
    match kfind k m.id with
    | some old =>
      if w.expectAbsent then (k, .err .alreadyExists)
      else if expectedFails w.expected old then (k, .err .failedPrecondition)
      else match checkFails w old with
        | some c => (k, .err c)
        | none =>
          let new := written old m mask w
          ({ k with recs := kstore m.id new k.recs }, .ok (some new))
    | none =>
      if !w.createIfAbsent then (k, .err .notFound)
      else if expectedFails w.expected Mode.blank then (k, .err .failedPrecondition)
      else match checkFails w Mode.blank with
        | some c => (k, .err c)
        | none =>
          let new := written Mode.blank m mask w
          ({ k with recs := kinsert m.id new k.recs }, .ok (some new))

/-- `modes.Delete(id, opts...)` as `deleteMode` reaches it once its guards have passed -/
def kdeleteBody (k : KSt) (id : String) (allowMissing : Bool) (d : DOpts) : KSt × Res :=
  match kfind k id with
  | none => if allowMissing then (k, .ok none) else (k, .err .notFound)
  | some old =>
    match dcheckFails d old with
    | some c => (k, .err c)
    | none =>
      if expectedFails d.expected old then (k, .err .failedPrecondition)
      else ({ k with recs := kerase id k.recs }, .ok none)

/-- the second and third guard of `deleteMode` (00bc77e, c078347): the mode stored under the id carries the active
mode's id, or the active mode's id - if not empty (6e97ca4: the placeholder of a new model names no mode) - finds a
stored mode that carries the same id as the one the id finds -/
def knamesActive (k : KSt) (id : String) : Bool :=
  match kfind k id with
  | none => false
  | some st =>
    decide (st.id = k.active.id) ||
      (decide (k.active.id ≠ "") &&
        match kfind k k.active.id with
        | none => false
        | some cur => decide (cur.id = st.id))

/-- `deleteMode`: the guards compare the argument, then the record stored under it, with the ACTIVE RECORD's id;
`modes.Delete` goes by key -/
def kdeleteMode (k : KSt) (id : String) (allowMissing : Bool) (d : DOpts) : KSt × Res :=
  if id = k.active.id then (k, .err .failedPrecondition)
  else if knamesActive k id then (k, .err .failedPrecondition)
  else kdeleteBody k id allowMissing d

/-- `deleteMode` before 00bc77e: only the spelled id was compared with the active mode's id -/
def kdeleteModeUnfixed (k : KSt) (id : String) (allowMissing : Bool) (d : DOpts) : KSt × Res :=
  if id = k.active.id then (k, .err .failedPrecondition)
  else kdeleteBody k id allowMissing d

def ksetActive (k : KSt) (m : Mode) : KSt × Res :=
  match kfind k m.id with
  | none => (k, .err .notFound)
  | some _ => ({ k with active := m, changed := true }, .ok none)

/-- `ChangeToNormalMode`: `changeActiveMode(normal.Id)` — the normal RECORD's id is used as a key -/
def kchangeToNormal (k : KSt) (now : Nat) : KSt × Res :=
  match normalMode k.abs with
  | none => (k, .err .notFound)
  | some n => kchangeActive k n.id now

def kstep (k : KSt) : Op → KSt × Res
  | .create m cands => if m.id ≠ "" then (k, .panic) else kcreateOrAdd k m cands
  | .add m =>
    if m.id = "" then (k, .panic)
    else match kcreateOrAdd k m [] with
      | (k', .ok _) => (k', .ok none)
      | r => r
  | .update m mask w => if m.id = "" then (k, .err .notFound) else kupdateMode k m mask w
  | .delete id am d => kdeleteMode k id am d
  | .setActive m => ksetActive k m
  | .changeActive id now => kchangeActive k id now
  | .clear now => kchangeToNormal k now
  | .findMode id => (k, match kfind k id with | some m => .ok (some m) | none => .err .notFound)
  | .sCreate m cands => if m.id ≠ "" then (k, .err .invalidArgument) else kcreateOrAdd k m cands
  | .sUpdate m mask => if m.id = "" then (k, .err .invalidArgument) else kupdateMode k m mask {}
  | .sDelete id am =>
    if id = "" then (k, .err .invalidArgument)
    else match kdeleteMode k id am {} with
      | (k', .ok _) => (k', .ok none)
      | r => r
  | .sChangeActive id now => if id = "" then (k, .err .invalidArgument) else kchangeActive k id now
  | .sClear now => kchangeToNormal k now
  | .sCreateNil => (k, .err .invalidArgument)

def krun (k : KSt) : List Op → KSt
  | [] => k
  | op :: ops => krun (kstep k op).1 ops

/-- `NewModel(WithModeOption(resource.WithInitialRecord(key, mode))…, WithInitialActiveMode(active))` -/
def KSt.config (recs : List Rec) (active : Mode) : KSt :=
  ⟨recs.foldr (fun e acc => kinsert e.1 e.2 acc) [], active, false⟩

/-- `resource.WithInitialRecord` panics when a key is configured twice; nothing else is checked (the check of
`WithInitialMode` for an empty id is not made for records configured this way) -/
def KSt.config? (recs : List Rec) (active : Mode) : Option KSt :=
  if decide ((recs.map (·.1)).Nodup) then some (KSt.config recs active) else none

/-! ### events of the keyed model (driver only: what a subscriber is sent, derived from the stored records) -/

/-- what a PullModes subscriber is told about one key, from what was stored under it before and after: a new key is
an ADD, a changed record an UPDATE (an equal one is dropped: `WithNoDuplicates`), a key that is gone a REMOVE -/
def diff1 : Option Mode → Option Mode → List ModeEvent
  | none, some n => [.add n]
  | some o, some n => if o = n then [] else [.update o n]
  | some o, none => [.remove o]
  | none, none => []

/-- the key an operation's write to the collection goes to (`modes.Add / Update / Delete` are called with it) -/
def kwrittenKey (k : KSt) : Op → Option String
  | .create m cands => if m.id ≠ "" then none else kchooseId k m cands
  | .sCreate m cands => if m.id ≠ "" then none else kchooseId k m cands
  | .add m => if m.id = "" then none else some m.id
  | .update m _ _ => if m.id = "" then none else some m.id
  | .sUpdate m _ => if m.id = "" then none else some m.id
  | .delete id _ _ => some id
  | .sDelete id _ => if id = "" then none else some id
  | _ => none

/-- The PullModes events of one operation of the keyed model: the collection publishes the change of the one key it
wrote.  On states where every record carries its key these are the events of `Events.lean` (`kmodeEvents_abs`). -/
def kmodeEvents (k : KSt) (op : Op) : List ModeEvent :=
  match kwrittenKey k op with
  | none => []
  | some key => diff1 (kfind k key) (kfind (kstep k op).1 key)

/-- all PullModes events of a run of the keyed model -/
def krunEvents (k : KSt) : List Op → List ModeEvent
  | [] => []
  | op :: ops => kmodeEvents k op ++ krunEvents (kstep k op).1 ops

def kactiveEvents (k : KSt) (op : Op) : List Mode :=
  if setsActive op ∧ (kstep k op).2.isOk ∧ (k.changed = false ∨ (kstep k op).1.active ≠ k.active)
  then [(kstep k op).1.active] else []

/-- every record carries the key it is stored under -/
def KeyOk (k : KSt) : Prop := ∀ e ∈ k.recs, e.1 = e.2.id

instance (k : KSt) : Decidable (KeyOk k) := by unfold KeyOk; exact inferInstance

/-! ### the keyed lists against the lists of `Electric.lean` -/

def RecsOk (l : List Rec) : Prop := ∀ e ∈ l, e.1 = e.2.id

theorem kfindL_abs {l : List Rec} (h : RecsOk l) (key : String) :
    kfindL l key = (l.map (·.2)).find? (fun x => x.id = key) := by
  induction l with
  | nil => rfl
  | cons e es ih =>
    have he : e.1 = e.2.id := h e (by simp)
    have hes : RecsOk es := fun x hx => h x (by simp [hx])
    have ih' := ih hes
    unfold kfindL at ih' ⊢
    simp only [List.find?_cons, List.map_cons]
    by_cases hk : e.1 = key
    · have : e.2.id = key := by rw [← he]; exact hk
      simp [hk, this]
    · have : ¬ e.2.id = key := by rw [← he]; exact hk
      simp only [hk, this, decide_false]
      exact ih'

theorem kfind_abs {k : KSt} (h : KeyOk k) (key : String) : kfind k key = find k.abs key :=
  kfindL_abs h key

theorem kinsert_abs {l : List Rec} (h : RecsOk l) (key : String) (m : Mode) :
    (kinsert key m l).map (·.2) = insertAt key m (l.map (·.2)) := by
  induction l with
  | nil => rfl
  | cons e es ih =>
    have he : e.1 = e.2.id := h e (by simp)
    have hes : RecsOk es := fun x hx => h x (by simp [hx])
    simp only [kinsert, List.map_cons, insertAt, ← he]
    split
    · rfl
    · simp only [List.map_cons, ih hes]

theorem kstore_abs {l : List Rec} (h : RecsOk l) (key : String) (m : Mode) :
    (kstore key m l).map (·.2) = storeAt key m (l.map (·.2)) := by
  unfold kstore storeAt
  rw [List.map_map, List.map_map]
  apply List.map_congr_left
  intro e he
  have := h e he
  simp only [Function.comp, ← this]
  split <;> rfl

theorem kerase_abs {l : List Rec} (h : RecsOk l) (key : String) :
    (kerase key l).map (·.2) = eraseMode key (l.map (·.2)) := by
  induction l with
  | nil => rfl
  | cons e es ih =>
    have he : e.1 = e.2.id := h e (by simp)
    have hes : RecsOk es := fun x hx => h x (by simp [hx])
    have ih' := ih hes
    unfold kerase eraseMode at ih' ⊢
    simp only [List.filter_cons, List.map_cons, ← he]
    split
    · simp only [List.map_cons, ih']
    · exact ih'

theorem diff1_self (x : Option Mode) : diff1 x x = [] := by
  cases x <;> simp [diff1]

theorem kfindL_kinsert (key : String) (m : Mode) : ∀ (l : List Rec), (∀ e ∈ l, e.1 ≠ key) →
    kfindL (kinsert key m l) key = some m := by
  intro l
  induction l with
  | nil => intro _; simp [kinsert, kfindL]
  | cons a as ih =>
    intro h
    unfold kinsert
    split
    · simp [kfindL]
    · have ha : ¬ a.1 = key := h a (by simp)
      have := ih (fun e he => h e (by simp [he]))
      unfold kfindL at this ⊢
      simp only [List.find?_cons, ha, decide_false]
      exact this

theorem kfindL_kstore (key : String) (m : Mode) : ∀ (l : List Rec) (old : Mode), kfindL l key = some old →
    kfindL (kstore key m l) key = some m := by
  intro l
  induction l with
  | nil => intro old h; simp [kfindL] at h
  | cons a as ih =>
    intro old h
    unfold kstore kfindL at *
    simp only [List.map_cons, List.find?_cons] at h ⊢
    by_cases ha : a.1 = key
    · simp [ha]
    · simp only [ha, if_false, decide_false] at h ⊢
      exact ih old h

theorem kfindL_kerase (key : String) (l : List Rec) : kfindL (kerase key l) key = none := by
  unfold kfindL kerase
  have : (l.filter (fun e => decide (e.1 ≠ key))).find? (fun e => decide (e.1 = key)) = none := by
    apply List.find?_eq_none.mpr
    intro e he
    have := (List.mem_filter.mp he).2
    simpa using this
  rw [this]; rfl

theorem mem_kinsert (key : String) (m : Mode) : ∀ (l : List Rec) (x : Rec), x ∈ kinsert key m l ↔ x = (key, m) ∨ x ∈ l := by
  intro l
  induction l with
  | nil => intro x; simp [kinsert]
  | cons a as ih =>
    intro x
    unfold kinsert
    split
    · simp
    · simp only [List.mem_cons, ih]
      constructor
      · rintro (h | h | h)
        · exact Or.inr (Or.inl h)
        · exact Or.inl h
        · exact Or.inr (Or.inr h)
      · rintro (h | h | h)
        · exact Or.inr (Or.inl h)
        · exact Or.inl h
        · exact Or.inr (Or.inr h)

theorem recsOk_kinsert {l : List Rec} (h : RecsOk l) {key : String} {m : Mode} (hm : key = m.id) :
    RecsOk (kinsert key m l) := by
  intro e he
  rcases (mem_kinsert key m l e).mp he with rfl | he
  · exact hm
  · exact h e he

theorem recsOk_kstore {l : List Rec} (h : RecsOk l) {key : String} {m : Mode} (hm : key = m.id) :
    RecsOk (kstore key m l) := by
  intro e he
  obtain ⟨e0, he0, rfl⟩ := List.mem_map.mp he
  split
  · exact hm
  · exact h e0 he0

theorem recsOk_kerase {l : List Rec} (h : RecsOk l) (key : String) : RecsOk (kerase key l) := by
  intro e he
  exact h e (List.mem_filter.mp he).1

/-! ### the collection's own invariant: keys are distinct, whatever the options -/

theorem kfindL_none {l : List Rec} {key : String} (h : kfindL l key = none) : ∀ e ∈ l, e.1 ≠ key := by
  unfold kfindL at h
  intro e he
  have : l.find? (fun e => e.1 = key) = none := by
    cases hf : l.find? (fun e => decide (e.1 = key)) with
    | none => rfl
    | some x => simp [hf] at h
  simpa using List.find?_eq_none.mp this e he

theorem keys_kinsert (key : String) (m : Mode) : ∀ (l : List Rec), (∀ e ∈ l, e.1 ≠ key) → (l.map (·.1)).Nodup →
    ((kinsert key m l).map (·.1)).Nodup := by
  intro l
  induction l with
  | nil => intro _ _; simp [kinsert]
  | cons a as ih =>
    intro hne hnd
    unfold kinsert
    simp only [List.map_cons, List.nodup_cons] at hnd
    split
    · simp only [List.map_cons, List.nodup_cons, List.mem_cons]
      refine ⟨?_, hnd.1, hnd.2⟩
      rintro (h | h)
      · exact hne a (by simp) h.symm
      · obtain ⟨x, hx, h⟩ := List.mem_map.mp h
        exact hne x (by simp [hx]) h
    · simp only [List.map_cons, List.nodup_cons, List.mem_map]
      refine ⟨?_, ih (fun x hx => hne x (by simp [hx])) hnd.2⟩
      rintro ⟨x, hx, h⟩
      rcases (mem_kinsert key m as x).mp hx with rfl | hx'
      · exact hne a (by simp) h.symm
      · exact hnd.1 (List.mem_map.mpr ⟨x, hx', h⟩)

theorem keys_kstore (key : String) (m : Mode) (l : List Rec) : (kstore key m l).map (·.1) = l.map (·.1) := by
  unfold kstore
  rw [List.map_map]
  apply List.map_congr_left
  intro e _
  simp only [Function.comp]
  split
  · rename_i h; exact h.symm
  · rfl

theorem keys_kerase (key : String) (l : List Rec) (h : (l.map (·.1)).Nodup) : ((kerase key l).map (·.1)).Nodup :=
  List.Nodup.sublist (List.Sublist.map _ List.filter_sublist) h

theorem kfindL_some {l : List Rec} {key : String} {m : Mode} (h : kfindL l key = some m) : (key, m) ∈ l := by
  unfold kfindL at h
  cases hf : l.find? (fun e => decide (e.1 = key)) with
  | none => simp [hf] at h
  | some e =>
    simp only [hf, Option.map_some, Option.some.injEq] at h
    have hk : e.1 = key := by simpa using List.find?_some hf
    have hm := List.mem_of_find?_eq_some hf
    rw [← hk, ← h]
    exact hm

end ScVerif.C19
