import ScVerif.C19.Electric
/-! Lemmas for C19: the inductive invariant of the electric model and its preservation by every operation. -/
namespace ScVerif.C19

variable {p : Mode}

/-- The inductive invariant; `p` is the placeholder active mode the model was configured with
(`Mode.blank` by default, or the argument of `WithInitialActiveMode`). -/
structure Inv (p : Mode) (s : St) : Prop where
  /-- mode ids are unique (the collection is a map) -/
  nodup : (s.modes.map (·.id)).Nodup
  /-- I1 (pairwise form): any two normal modes are the same mode -/
  i1 : ∀ x ∈ s.modes, ∀ y ∈ s.modes, x.normal = true → y.normal = true → x = y
  /-- I2/I3: once changed, the active id refers to a stored mode -/
  i3 : s.changed = true → ∃ x ∈ s.modes, x.id = s.active.id
  /-- before the first change the active mode is the configured placeholder -/
  blank : s.changed = false → s.active = p

theorem inv_init : Inv Mode.blank St.init :=
  ⟨by simp [St.init], by simp [St.init], by simp [St.init], by simp [St.init]⟩

/-! ### list helpers -/

theorem mem_insertMode (m : Mode) : ∀ (l : List Mode) (x : Mode), x ∈ insertMode m l ↔ x = m ∨ x ∈ l := by
  intro l
  induction l with
  | nil => intro x; simp [insertMode]
  | cons a as ih =>
    intro x
    unfold insertMode
    split
    · simp
    · simp only [List.mem_cons, ih]
      constructor
      · rintro (h | h | h)
        · exact Or.inr (Or.inl h)
        · exact Or.inl h
        · exact Or.inr (Or.inr h)
      · rintro (h | h | h)
        · exact Or.inr (Or.inl h)
        · exact Or.inl h
        · exact Or.inr (Or.inr h)

theorem nodup_insertMode (m : Mode) : ∀ (l : List Mode), (∀ x ∈ l, x.id ≠ m.id) → (l.map (·.id)).Nodup →
    ((insertMode m l).map (·.id)).Nodup := by
  intro l
  induction l with
  | nil => intro _ _; simp [insertMode]
  | cons a as ih =>
    intro hne hnd
    unfold insertMode
    simp only [List.map_cons, List.nodup_cons] at hnd
    split
    · simp only [List.map_cons, List.nodup_cons, List.mem_cons]
      refine ⟨?_, hnd.1, hnd.2⟩
      rintro (h | h)
      · exact hne a (by simp) h.symm
      · obtain ⟨x, hx, h⟩ := List.mem_map.mp h
        exact hne x (by simp [hx]) h
    · simp only [List.map_cons, List.nodup_cons, List.mem_map]
      refine ⟨?_, ih (fun x hx => hne x (by simp [hx])) hnd.2⟩
      rintro ⟨x, hx, h⟩
      rcases (mem_insertMode m as x).mp hx with rfl | hx'
      · exact hne a (by simp) h.symm
      · exact hnd.1 (List.mem_map.mpr ⟨x, hx', h⟩)

theorem map_id_replaceMode (m : Mode) (l : List Mode) : (replaceMode m l).map (·.id) = l.map (·.id) := by
  unfold replaceMode
  rw [List.map_map]
  apply List.map_congr_left
  intro x _
  simp only [Function.comp]
  split
  · rename_i h; exact h.symm
  · rfl

theorem find_some {s : St} {id : String} {m : Mode} (h : find s id = some m) : m ∈ s.modes ∧ m.id = id := by
  unfold find at h
  exact ⟨List.mem_of_find?_eq_some h, by simpa using List.find?_some h⟩

theorem find_none {s : St} {id : String} (h : find s id = none) : ∀ x ∈ s.modes, x.id ≠ id := by
  unfold find at h
  intro x hx
  simpa using List.find?_eq_none.mp h x hx

theorem normalMode_some {s : St} {n : Mode} (h : normalMode s = some n) : n ∈ s.modes ∧ n.normal = true := by
  unfold normalMode at h
  exact ⟨List.mem_of_find?_eq_some h, by simpa using List.find?_some h⟩

theorem normalMode_none {s : St} (h : normalMode s = none) : ∀ x ∈ s.modes, x.normal = false := by
  unfold normalMode at h
  intro x hx
  simpa using List.find?_eq_none.mp h x hx

/-! ### preservation, operation by operation -/

theorem createOrAdd_inv {s : St} (hi : Inv p s) (m : Mode) (cands : List String) : Inv p (createOrAdd s m cands).1 := by
  unfold createOrAdd
  by_cases hguard : m.normal = true ∧ (normalMode s).isSome = true
  · simp only [hguard, and_self, if_true]; exact hi
  · simp only [hguard, if_false]
    cases hc : chooseId s m cands with
    | none => exact hi
    | some id =>
      simp only
      by_cases hfind : (find s id).isSome = true
      · simp only [hfind, if_true]; exact hi
      · simp only [hfind]
        have hnone : find s id = none := by
          cases h : find s id with
          | none => rfl
          | some _ => simp [h] at hfind
        have hne := find_none hnone
        refine ⟨?_, ?_, ?_, ?_⟩
        · exact nodup_insertMode _ _ (fun x hx => hne x hx) hi.nodup
        · intro x hx y hy hxn hyn
          have hx := (mem_insertMode _ _ _).mp hx
          have hy := (mem_insertMode _ _ _).mp hy
          have nonorm : m.normal = true → ∀ z ∈ s.modes, z.normal = false := by
            intro hm
            have : (normalMode s).isSome = false := by
              cases h : (normalMode s).isSome with
              | false => rfl
              | true => exact absurd ⟨hm, h⟩ hguard
            apply normalMode_none
            cases h : normalMode s with
            | none => rfl
            | some _ => simp [h] at this
          rcases hx with rfl | hx <;> rcases hy with rfl | hy
          · rfl
          · have := nonorm hxn y hy; rw [hyn] at this; cases this
          · have := nonorm hyn x hx; rw [hxn] at this; cases this
          · exact hi.i1 x hx y hy hxn hyn
        · intro hc
          obtain ⟨x, hx, hxa⟩ := hi.i3 hc
          exact ⟨x, (mem_insertMode _ _ _).mpr (Or.inr hx), hxa⟩
        · exact hi.blank

theorem changeActive_inv {s : St} (hi : Inv p s) (id : String) (now : Nat) : Inv p (changeActive s id now).1 := by
  unfold changeActive
  split
  · exact hi
  · rename_i m hm
    obtain ⟨hmem, _⟩ := find_some hm
    refine ⟨hi.nodup, hi.i1, fun _ => ⟨m, hmem, ?_⟩, fun h => by simp at h⟩
    simp only
    split <;> rfl

theorem changeToNormal_inv {s : St} (hi : Inv p s) (now : Nat) : Inv p (changeToNormal s now).1 := by
  unfold changeToNormal
  split
  · exact hi
  · exact changeActive_inv hi _ _

theorem setActive_inv {s : St} (hi : Inv p s) (m : Mode) : Inv p (setActive s m).1 := by
  unfold setActive
  split
  · exact hi
  · rename_i x hx
    obtain ⟨hmem, hid⟩ := find_some hx
    exact ⟨hi.nodup, hi.i1, fun _ => ⟨x, hmem, hid⟩, fun h => by simp at h⟩

theorem deleteMode_inv {s : St} (hi : Inv p s) (id : String) (am : Bool) (ex : DOpts) :
    Inv p (deleteMode s id am ex).1 := by
  unfold deleteMode
  split
  · exact hi
  · rename_i hact
    split
    · split <;> exact hi
    · split
      · exact hi
      · split
        · exact hi
        · refine ⟨?_, ?_, ?_, hi.blank⟩
          · exact List.Nodup.sublist (List.Sublist.map _ (List.filter_sublist)) hi.nodup
          · intro x hx y hy
            simp only [eraseMode, List.mem_filter] at hx hy
            exact hi.i1 x hx.1 y hy.1
          · intro hc
            obtain ⟨x, hx, hxa⟩ := hi.i3 hc
            refine ⟨x, ?_, hxa⟩
            simp only [eraseMode, List.mem_filter, decide_eq_true_eq]
            exact ⟨hx, fun h => hact (by rw [← h, hxa])⟩

theorem mergeMode_normal (old m : Mode) (mask : Option Mask) :
    (mergeMode old m mask).normal = if writesNormal mask then m.normal else old.normal := by
  cases mask with
  | none => simp [mergeMode, writesNormal]
  | some k => simp [mergeMode, writesNormal]

theorem writesNormal_maskWithId (mask : Option Mask) : writesNormal (maskWithId mask) = writesNormal mask := by
  cases mask with
  | none => rfl
  | some k => simp [writesNormal, maskWithId]

/-- with `WithMoreUpdatePaths("id")` the written record always carries the id of the request -/
theorem mergeMode_withId_id (old m : Mode) (mask : Option Mask) : (mergeMode old m (maskWithId mask)).id = m.id := by
  cases mask with
  | none => rfl
  | some k => simp [mergeMode, maskWithId]

/-- what passing the second-normal-mode guard means: when the update writes `normal = true`, every stored
normal mode has the id of the request -/
theorem guard_passed {s : St} (hi : Inv p s) {m : Mode} {mask : Option Mask}
    (hguard : ¬(m.normal = true ∧ writesNormal mask = true ∧ otherNormal s m.id = true))
    (hw : writesNormal mask = true) (hm : m.normal = true) :
    ∀ y ∈ s.modes, y.normal = true → y.id = m.id := by
  intro y hy hyn
  have hno : otherNormal s m.id = false := by
    cases h : otherNormal s m.id with
    | false => rfl
    | true => exact absurd ⟨hm, hw, h⟩ hguard
  unfold otherNormal at hno
  cases hn : normalMode s with
  | none => have := normalMode_none hn y hy; rw [hyn] at this; cases this
  | some n =>
    simp only [hn, bne_eq_false_iff_eq] at hno
    obtain ⟨hnm, hnn⟩ := normalMode_some hn
    have := hi.i1 n hnm y hy hnn hyn
    rw [← this]; exact hno

/-! ### caller-supplied code in the write options -/

/-- What the invariants need from the caller's own code and reset mask in the options of an `UpdateMode`: the
record that is written keeps the id of the request and is not turned normal behind the guard's back.  For an
interceptor `f old new`: it leaves the id alone, and the result is normal only if `new` was or the stored
record was.  The reset mask does not name `id`.  Options without interceptors and reset mask are tame
(`tame_plain`); so is everything the servers do. -/
def WOpts.Tame (w : WOpts) : Prop :=
  (∀ k, w.reset = some k → Field.id ∉ k.paths) ∧
  (∀ f, w.before = some f → ∀ old m : Mode,
    (f old m).id = m.id ∧ ((f old m).normal = true → m.normal = true ∨ old.normal = true)) ∧
  (∀ g, w.after = some g → ∀ old n : Mode,
    (g old n).id = n.id ∧ ((g old n).normal = true → n.normal = true ∨ old.normal = true))

def Op.Tame : Op → Prop
  | .update _ _ w => w.Tame
  | _ => True

theorem tame_plain (w : WOpts) (hr : w.reset = none) (hb : w.before = none) (ha : w.after = none) : w.Tame :=
  ⟨fun k h => (by rw [hr] at h; cases h), fun f h => (by rw [hb] at h; cases h), fun g h => (by rw [ha] at h; cases h)⟩

theorem resetMode_id (m : Mode) (r : Option Mask) (h : ∀ k, r = some k → Field.id ∉ k.paths) :
    (resetMode m r).id = m.id := by
  cases r with
  | none => rfl
  | some k => simp [resetMode, h k rfl]

theorem resetMode_normal (m : Mode) (r : Option Mask) : (resetMode m r).normal = true → m.normal = true := by
  cases r with
  | none => exact id
  | some k =>
    simp only [resetMode]
    split
    · intro h; cases h
    · exact id

/-- under tame options the written record carries the id of the request, and it is normal only if the stored
record was or the request says so (in a field the update writes) -/
theorem written_tame (old m : Mode) (mask : Option Mask) (w : WOpts) (ht : w.Tame) :
    (written old m mask w).id = m.id ∧
    ((written old m mask w).normal = true → old.normal = true ∨ (m.normal = true ∧ writesNormal mask = true)) := by
  obtain ⟨hr, hb, ha⟩ := ht
  -- InterceptBefore
  have h1 : (applyIcpt w.before old m).id = m.id ∧
      ((applyIcpt w.before old m).normal = true → m.normal = true ∨ old.normal = true) := by
    cases hbf : w.before with
    | none => exact ⟨rfl, fun h => Or.inl h⟩
    | some f => exact hb f hbf old m
  -- merge under the mask extended by `id`
  have h2 : (mergeMode old (applyIcpt w.before old m) (maskWithId mask)).id = m.id := by
    rw [mergeMode_withId_id]; exact h1.1
  have h2n : (mergeMode old (applyIcpt w.before old m) (maskWithId mask)).normal = true →
      old.normal = true ∨ (m.normal = true ∧ writesNormal mask = true) := by
    rw [mergeMode_normal, writesNormal_maskWithId]
    by_cases hw : writesNormal mask = true
    · simp only [hw, if_true]
      intro h
      rcases h1.2 h with h | h
      · exact Or.inr ⟨h, trivial⟩
      · exact Or.inl h
    · simp only [hw]; intro h; exact Or.inl (by simpa using h)
  -- reset mask
  have h3 : (resetMode (mergeMode old (applyIcpt w.before old m) (maskWithId mask)) w.reset).id = m.id := by
    rw [resetMode_id _ _ hr]; exact h2
  have h3n := fun h => h2n (resetMode_normal (mergeMode old (applyIcpt w.before old m) (maskWithId mask)) w.reset h)
  -- InterceptAfter
  unfold written
  cases haf : w.after with
  | none => exact ⟨h3, h3n⟩
  | some g =>
    simp only [applyIcpt]
    obtain ⟨hgid, hgn⟩ := ha g haf old (resetMode (mergeMode old (applyIcpt w.before old m) (maskWithId mask)) w.reset)
    refine ⟨hgid.trans h3, fun h => ?_⟩
    rcases hgn h with h | h
    · exact h3n h
    · exact Or.inl h

theorem storeAt_of_id {key : String} {m : Mode} (h : m.id = key) (l : List Mode) : storeAt key m l = replaceMode m l := by
  subst h; rfl

theorem insertAt_of_id {key : String} {m : Mode} (h : m.id = key) (l : List Mode) : insertAt key m l = insertMode m l := by
  subst h
  induction l with
  | nil => rfl
  | cons x xs ih => simp only [insertAt, insertMode, ih]

theorem updateMode_inv {s : St} (hi : Inv p s) (m : Mode) (mask : Option Mask) (w : WOpts) (ht : w.Tame) :
    Inv p (updateMode s m mask w).1 := by
  unfold updateMode
  by_cases hguard : m.normal = true ∧ writesNormal mask = true ∧ otherNormal s m.id = true
  · simp only [hguard, and_self, if_true]; exact hi
  · simp only [hguard, if_false]
    by_cases hinv : maskInvalid mask = true
    · simp only [hinv, if_true]; exact hi
    · simp only [hinv, Bool.false_eq_true, if_false]
      by_cases hrs : maskInvalid w.reset = true
      · simp only [hrs, if_true]; exact hi
      · simp only [hrs, Bool.false_eq_true, if_false]
        cases hold : find s m.id with
        | none =>
          simp only
          split
          · exact hi
          · split
            · exact hi
            · split
              · exact hi
              · -- upsert of an absent id: a new record
                obtain ⟨hid, hnorm⟩ := written_tame Mode.blank m mask w ht
                simp only [insertAt_of_id hid]
                have hne := find_none hold
                refine ⟨?_, ?_, ?_, hi.blank⟩
                · exact nodup_insertMode _ _ (fun x hx => by rw [hid]; exact hne x hx) hi.nodup
                · have nonorm : (written Mode.blank m mask w).normal = true → ∀ z ∈ s.modes, z.normal = false := by
                    intro hnew z hz
                    rcases hnorm hnew with h | ⟨hm, hw⟩
                    · simp [Mode.blank, Mode.mk4] at h
                    · cases hzn : z.normal with
                      | false => rfl
                      | true => exact absurd (guard_passed hi hguard hw hm z hz hzn) (hne z hz)
                  intro x hx y hy hxn hyn
                  have hx := (mem_insertMode _ _ _).mp hx
                  have hy := (mem_insertMode _ _ _).mp hy
                  rcases hx with rfl | hx <;> rcases hy with rfl | hy
                  · rfl
                  · have := nonorm hxn y hy; rw [hyn] at this; cases this
                  · have := nonorm hyn x hx; rw [hxn] at this; cases this
                  · exact hi.i1 x hx y hy hxn hyn
                · intro hc
                  obtain ⟨x, hx, hxa⟩ := hi.i3 hc
                  exact ⟨x, (mem_insertMode _ _ _).mpr (Or.inr hx), hxa⟩
        | some old =>
          obtain ⟨holdmem, holdid⟩ := find_some hold
          simp only
          split
          · exact hi
          · split
            · exact hi
            · split
              · exact hi
              · obtain ⟨hid, hnorm⟩ := written_tame old m mask w ht
                simp only [storeAt_of_id hid]
                refine ⟨?_, ?_, ?_, hi.blank⟩
                · simp only [map_id_replaceMode]; exact hi.nodup
                · -- I1
                  have key : ∀ y ∈ s.modes, y.normal = true → (written old m mask w).normal = true → y.id = m.id := by
                    intro y hy hyn hnew
                    rcases hnorm hnew with h | ⟨hm, hw⟩
                    · have : old = y := hi.i1 old holdmem y hy h hyn
                      rw [← this]; exact holdid
                    · exact guard_passed hi hguard hw hm y hy hyn
                  intro x hx y hy hxn hyn
                  obtain ⟨x0, hx0, rfl⟩ := List.mem_map.mp hx
                  obtain ⟨y0, hy0, rfl⟩ := List.mem_map.mp hy
                  by_cases hx1 : x0.id = (written old m mask w).id <;>
                    by_cases hy1 : y0.id = (written old m mask w).id
                  · simp only [hx1, hy1, if_true]
                  · simp only [hx1, hy1, if_true, if_false] at hxn hyn ⊢
                    exact absurd ((key y0 hy0 hyn hxn).trans hid.symm) hy1
                  · simp only [hx1, hy1, if_true, if_false] at hxn hyn ⊢
                    exact absurd ((key x0 hx0 hxn hyn).trans hid.symm) hx1
                  · simp only [hx1, hy1, if_false] at hxn hyn ⊢
                    exact hi.i1 x0 hx0 y0 hy0 hxn hyn
                · intro hc
                  obtain ⟨x, hx, hxa⟩ := hi.i3 hc
                  refine ⟨_, List.mem_map.mpr ⟨x, hx, rfl⟩, ?_⟩
                  show (if x.id = (written old m mask w).id then written old m mask w else x).id = s.active.id
                  split
                  · rename_i h; rw [← h]; exact hxa
                  · exact hxa

theorem tame_default : ({} : WOpts).Tame := tame_plain _ rfl rfl rfl

theorem step_inv {s : St} (hi : Inv p s) (op : Op) (ht : op.Tame) : Inv p (step s op).1 := by
  cases op with
  | create m cands => simp only [step]; split; exact hi; exact createOrAdd_inv hi m cands
  | add m =>
    simp only [step]
    split
    · exact hi
    · have := createOrAdd_inv hi m []
      split
      · rename_i h; rw [h] at this; exact this
      · exact this
  | update m mask w => simp only [step]; split; exact hi; exact updateMode_inv hi m mask w ht
  | delete id am ex => exact deleteMode_inv hi id am ex
  | setActive m => exact setActive_inv hi m
  | changeActive id now => exact changeActive_inv hi id now
  | clear now => exact changeToNormal_inv hi now
  | findMode id => exact hi
  | sCreate m cands => simp only [step]; split; exact hi; exact createOrAdd_inv hi m cands
  | sUpdate m mask => simp only [step]; split; exact hi; exact updateMode_inv hi m mask {} tame_default
  | sDelete id am =>
    simp only [step]
    split
    · exact hi
    · have := deleteMode_inv hi id am {}
      split
      · rename_i h; rw [h] at this; exact this
      · exact this
  | sChangeActive id now => simp only [step]; split; exact hi; exact changeActive_inv hi id now
  | sClear now => exact changeToNormal_inv hi now
  | sCreateNil => exact hi

/-- What the configuration must satisfy (the code does not check it): the initial modes have distinct
ids and at most one of them is normal. -/
def InitOk (modes : List Mode) : Prop :=
  (modes.map (·.id)).Nodup ∧ ∀ x ∈ modes, ∀ y ∈ modes, x.normal = true → y.normal = true → x = y

theorem mem_configModes : ∀ (l : List Mode) (x : Mode), x ∈ l.foldr insertMode [] ↔ x ∈ l := by
  intro l
  induction l with
  | nil => intro x; simp
  | cons a as ih => intro x; simp only [List.foldr_cons, mem_insertMode, ih, List.mem_cons]

theorem nodup_configModes : ∀ (l : List Mode), (l.map (·.id)).Nodup → ((l.foldr insertMode []).map (·.id)).Nodup := by
  intro l
  induction l with
  | nil => intro _; simp
  | cons a as ih =>
    intro h
    simp only [List.map_cons, List.nodup_cons] at h
    simp only [List.foldr_cons]
    apply nodup_insertMode _ _ _ (ih h.2)
    intro x hx e
    exact h.1 (List.mem_map.mpr ⟨x, (mem_configModes as x).mp hx, e⟩)

/-- A configured initial state satisfies the invariant exactly when the configuration is `InitOk`. -/
theorem inv_config (modes : List Mode) (active : Mode) (h : InitOk modes) : Inv active (St.config modes active) := by
  refine ⟨nodup_configModes modes h.1, ?_, by simp [St.config], by simp [St.config]⟩
  intro x hx y hy
  exact h.2 x ((mem_configModes modes x).mp hx) y ((mem_configModes modes y).mp hy)

theorem run_inv {s : St} (hi : Inv p s) (ops : List Op) (ht : ∀ op ∈ ops, op.Tame) : Inv p (run s ops) := by
  induction ops generalizing s with
  | nil => exact hi
  | cons op ops ih =>
    exact ih (step_inv hi op (ht op (by simp))) (fun o ho => ht o (by simp [ho]))

theorem run_append (s : St) (a b : List Op) : run s (a ++ b) = run (run s a) b := by
  induction a generalizing s with
  | nil => rfl
  | cons x xs ih => simp only [List.cons_append, run, ih]

/-- count form of I1 -/
theorem normal_count_le_one {s : St} (hi : Inv p s) : (s.modes.filter (·.normal)).length ≤ 1 := by
  have hnd : s.modes.Nodup := List.Pairwise.of_map (·.id) (fun a b h e => h (e ▸ rfl)) hi.nodup
  have hf : (s.modes.filter (·.normal)).Nodup := List.Nodup.sublist List.filter_sublist hnd
  have hmem : ∀ z ∈ s.modes.filter (·.normal), z ∈ s.modes ∧ z.normal = true := by
    intro z hz; simpa [List.mem_filter] using hz
  cases h : s.modes.filter (·.normal) with
  | nil => simp
  | cons a t =>
    cases t with
    | nil => simp
    | cons b rest =>
      exfalso
      rw [h] at hf hmem
      have ha := hmem a (by simp)
      have hb := hmem b (by simp)
      have hab := hi.i1 a ha.1 b hb.1 ha.2 hb.2
      simp only [List.nodup_cons, List.mem_cons] at hf
      exact hf.1 (Or.inl hab)

theorem uniq_of_nodup : ∀ (l : List Mode), (l.map (·.id)).Nodup → ∀ x ∈ l, ∀ y ∈ l, x.id = y.id → x = y := by
  intro l
  induction l with
  | nil => intro _ x hx; cases hx
  | cons a as ih =>
    intro hnd x hx y hy hxy
    simp only [List.map_cons, List.nodup_cons] at hnd
    simp only [List.mem_cons] at hx hy
    rcases hx with rfl | hx <;> rcases hy with rfl | hy
    · rfl
    · exact absurd (List.mem_map.mpr ⟨y, hy, hxy.symm⟩) hnd.1
    · exact absurd (List.mem_map.mpr ⟨x, hx, hxy⟩) hnd.1
    · exact ih hnd.2 x hx y hy hxy

/-- with unique ids, looking a stored mode up by its id finds that mode -/
theorem find_of_mem {s : St} (hi : Inv p s) {m : Mode} (hm : m ∈ s.modes) : find s m.id = some m := by
  cases hf : find s m.id with
  | none => exact absurd rfl (find_none hf m hm)
  | some z =>
    obtain ⟨hz, hzid⟩ := find_some hf
    rw [uniq_of_nodup s.modes hi.nodup z hz m hm hzid]

/-- with I1, `normalMode` returns the normal mode -/
theorem normalMode_of_mem {s : St} (hi : Inv p s) {n : Mode} (hn : n ∈ s.modes) (hnn : n.normal = true) :
    normalMode s = some n := by
  cases hnm : normalMode s with
  | none => have := normalMode_none hnm n hn; rw [hnn] at this; cases this
  | some n' =>
    obtain ⟨hmem, hnorm⟩ := normalMode_some hnm
    rw [hi.i1 n' hmem n hn hnorm hnn]

end ScVerif.C19
