import ScVerif.C19.Props
import ScVerif.C19.Timed
import ScVerif.C19.Frame
/-!
# C19 — round 4: the start-time clause under a moving clock, rejected operations, upserts

* `Timed.lean` makes the model clock part of the concurrent configuration (it advances by scheduler events; an
  operation stamps with what the clock shows when its thread reads it inside the model lock).  The theorems
  below are about ALL programs and ALL schedules of lock / read / clock-read / write / unlock steps and clock
  ticks.
* `Frame.lean`: an operation that does not report success changes nothing at all.
* Model-level write options (`WithCreateIfAbsent`, `WithExpectAbsent`, `WithExpectedValue`, on `UpdateMode` /
  `DeleteMode`) are part of `Op`, so `C19_inv`, `C19_mutex_serialises`, `C19_pull_modes` … of `Props.lean`
  quantify over them too; `C19_upsert` says what an upsert does.
-/
namespace ScVerif.C19

/-- **C19_stamp_schedules.** Any number of threads, any programs, ANY schedule of thread steps, clock reads
and clock ticks, from any state satisfying the invariant: the shared state is the sequential run of the
logged operations (in the order of their writes) and satisfies the invariants; every logged operation was
performed within the clock interval `[lockAt, writeAt]` during which its thread held the model lock, the
instant it stamps with (if any) was read in that interval, and the intervals of different operations do
not overlap (each lock comes after the previous write). -/
theorem C19_stamp_schedules (p : Mode) (s0 : St) (h0 : Inv p s0) (progs : Nat → List Op) (evs : List Ev)
    (ht : ∀ t, ∀ op ∈ progs t, op.Tame) :
    let c := trun (tinit s0 progs) evs
    c.st = run s0 (c.log.map Entry.op) ∧ Inv p c.st ∧
    (∀ e ∈ c.log, e.lockAt ≤ e.writeAt ∧ e.writeAt ≤ c.clock ∧
      ∀ n, e.op.now? = some n → e.lockAt ≤ n ∧ n ≤ e.writeAt) ∧
    c.log.Pairwise (fun a b => a.writeAt ≤ b.lockAt) := by
  have hi := trun_inv Op.tame_withNow (tinv_init Op.Tame s0 progs ht) evs
  refine ⟨hi.serial, ?_, ?_, hi.ord⟩
  · rw [hi.serial]
    exact run_inv h0 _ (fun op ho => by
      obtain ⟨e, he, rfl⟩ := List.mem_map.mp ho
      exact hi.logP e he)
  · intro e he
    exact ⟨(hi.past e he).1, (hi.past e he).2, hi.stamps e he⟩

/-- **C19_stamp_monotone.** Start times never run backwards against the order in which the switches were
performed: of two logged operations that stamp, the later one stamps with a later (or equal) instant. -/
theorem C19_stamp_monotone (s0 : St) (progs : Nat → List Op) (evs : List Ev) :
    (trun (tinit s0 progs) evs).log.Pairwise
      (fun a b => ∀ na nb, a.op.now? = some na → b.op.now? = some nb → na ≤ nb) := by
  have hi := trun_inv (P := fun _ => True) (fun _ _ h => h) (tinv_init _ s0 progs (fun _ _ _ => True.intro)) evs
  refine List.Pairwise.imp_of_mem ?_ hi.ord
  intro a b ha hb hab na nb hna hnb
  exact Nat.le_trans (hi.stamps a ha na hna).2 (Nat.le_trans hab (hi.stamps b hb nb hnb).1)

/-- **C19_stamp_switch.** The clause itself, under concurrency: when the operation performed last is a
ChangeActiveMode / UpdateActiveMode to a stored mode whose id differs from the active id, the active mode is
that mode and its start time `n` is a reading of the model clock taken while the switching thread held the
model lock — not before any earlier operation had completed (`a.writeAt ≤ n` for every earlier one, so no
instant at which an earlier state was current lies after `n`), and not after the switch (`n ≤ writeAt`). -/
theorem C19_stamp_switch (s0 : St) (progs : Nat → List Op) (evs : List Ev)
    (l : List Entry) (e : Entry) (id : String) (n : Nat) (m : Mode)
    (hlog : (trun (tinit s0 progs) evs).log = l ++ [e])
    (hop : e.op = .changeActive id n ∨ (e.op = .sChangeActive id n ∧ id ≠ ""))
    (hm : find (run s0 (l.map Entry.op)) id = some m)
    (hne : (run s0 (l.map Entry.op)).active.id ≠ id) :
    let c := trun (tinit s0 progs) evs
    c.st.active.id = id ∧ c.st.active.start = some n ∧
    e.lockAt ≤ n ∧ n ≤ e.writeAt ∧ e.writeAt ≤ c.clock ∧ ∀ a ∈ l, a.writeAt ≤ n := by
  have hi := trun_inv (P := fun _ => True) (fun _ _ h => h) (tinv_init _ s0 progs (fun _ _ _ => True.intro)) evs
  have he : e ∈ (trun (tinit s0 progs) evs).log := by rw [hlog]; simp
  have hnow : e.op.now? = some n := by
    rcases hop with h | ⟨h, _⟩ <;> rw [h] <;> rfl
  have hst := hi.stamps e he n hnow
  have hserial : (trun (tinit s0 progs) evs).st = (step (run s0 (l.map Entry.op)) (.changeActive id n)).1 := by
    rw [hi.serial, hlog, List.map_append, run_append]
    rcases hop with h | ⟨h, hid⟩
    · simp only [List.map_cons, List.map_nil, run, h]
    · simp only [List.map_cons, List.map_nil, run, h]
      rw [(C19_stamp _ id n).2.2.1 hid]
  have hs := ((C19_stamp (run s0 (l.map Entry.op)) id n).1 m hm).2 hne
  have hord := hi.ord
  rw [hlog, List.pairwise_append] at hord
  refine ⟨by rw [hserial]; exact hs.2, by rw [hserial]; exact hs.1, hst.1, hst.2, (hi.past e he).2, ?_⟩
  intro a ha
  exact Nat.le_trans (hord.2.2 a ha e (by simp)) hst.1

/-- **C19_stamp_clear.** The same for ClearActiveMode / ChangeToNormalMode: when the operation performed last
is a clear, `nm` is the (unique) normal mode and another mode was active, then `nm` is active and its start time
is a clock reading taken inside the lock, after every earlier operation had completed and not after the switch. -/
theorem C19_stamp_clear (p : Mode) (s0 : St) (h0 : Inv p s0) (progs : Nat → List Op) (evs : List Ev)
    (ht : ∀ t, ∀ op ∈ progs t, op.Tame)
    (l : List Entry) (e : Entry) (n : Nat) (nm : Mode)
    (hlog : (trun (tinit s0 progs) evs).log = l ++ [e])
    (hop : e.op = .clear n ∨ e.op = .sClear n)
    (hm : nm ∈ (run s0 (l.map Entry.op)).modes) (hnn : nm.normal = true)
    (hne : (run s0 (l.map Entry.op)).active.id ≠ nm.id) :
    let c := trun (tinit s0 progs) evs
    c.st.active.id = nm.id ∧ c.st.active.start = some n ∧
    e.lockAt ≤ n ∧ n ≤ e.writeAt ∧ e.writeAt ≤ c.clock ∧ ∀ a ∈ l, a.writeAt ≤ n := by
  have hi := trun_inv Op.tame_withNow (tinv_init Op.Tame s0 progs ht) evs
  have he : e ∈ (trun (tinit s0 progs) evs).log := by rw [hlog]; simp
  have hnow : e.op.now? = some n := by
    rcases hop with h | h <;> rw [h] <;> rfl
  have hst := hi.stamps e he n hnow
  have hinv : Inv p (run s0 (l.map Entry.op)) := run_inv h0 _ (fun op ho => by
    obtain ⟨a, ha, rfl⟩ := List.mem_map.mp ho
    exact hi.logP a (by rw [hlog]; simp [ha]))
  have hcl := C19_clear p _ hinv n
  have hserial : (trun (tinit s0 progs) evs).st = (step (run s0 (l.map Entry.op)) (.clear n)).1 := by
    rw [hi.serial, hlog, List.map_append, run_append]
    rcases hop with h | h
    · simp only [List.map_cons, List.map_nil, run, h]
    · simp only [List.map_cons, List.map_nil, run, h]
      rw [hcl.1]
  have hstep := hcl.2.2 nm hm hnn
  have hord := hi.ord
  rw [hlog, List.pairwise_append] at hord
  refine ⟨?_, ?_, hst.1, hst.2, (hi.past e he).2, ?_⟩
  · rw [hserial, hstep]; simp [stamped, hne]
  · rw [hserial, hstep]; simp [stamped, hne]
  · intro a ha
    exact Nat.le_trans (hord.2.2 a ha e (by simp)) hst.1

/-- **C19_rejected_unchanged.** An operation that does not report success (an error status or a contract
panic) leaves ALL of the model's state exactly as it was — modes, active mode, and with them everything
derived from them (the normal mode is recomputed from the mode list, nothing is remembered on the side) — and
publishes no PullModes / PullActiveMode event.  Every state, every operation, every write option. -/
theorem C19_rejected_unchanged (s : St) (op : Op) (h : (step s op).2.isOk = false) :
    (step s op).1 = s ∧ normalMode (step s op).1 = normalMode s ∧
    modeEvents s op = [] ∧ activeEvents s op = [] := by
  have h1 : (step s op).1 = s := by
    rcases step_frame s op with h' | h'
    · exact h'
    · rw [h] at h'; cases h'
  refine ⟨h1, by rw [h1], modeEvents_frame s op h, ?_⟩
  simp [activeEvents, h]

/-- **C19_upsert.** `UpdateMode` with `resource.WithCreateIfAbsent()` on an id that is not stored, in a state
satisfying the invariant: it is refused (AlreadyExists, nothing changes) when it would write `normal = true`
while some mode is normal; when it succeeds it stores exactly one new record, under the id of the request
whatever the update mask says (fix 2b5cf2c), publishes it as ADD, and a new normal mode is the only one. -/
theorem C19_upsert (p : Mode) (s : St) (hi : Inv p s) (m : Mode) (mask : Option Mask) (w : WOpts) (ht : w.Tame)
    (hne : m.id ≠ "") (habs : find s m.id = none) :
    ((m.normal = true ∧ writesNormal mask = true ∧ ∃ x ∈ s.modes, x.normal = true) →
      step s (.update m mask w) = (s, .err .alreadyExists)) ∧
    (w.createIfAbsent = false → (step s (.update m mask w)).2.isOk = false) ∧
    (∀ new, (step s (.update m mask w)).2 = .ok (some new) →
      new.id = m.id ∧ (step s (.update m mask w)).1.modes = insertMode new s.modes ∧
      modeEvents s (.update m mask w) = [.add new] ∧
      (new.normal = true → ∀ x ∈ s.modes, x.normal = false)) := by
  refine ⟨?_, ?_, ?_⟩
  · rintro ⟨hn, hw, x, hx, hxn⟩
    have hnm := normalMode_of_mem hi hx hxn
    have hother : otherNormal s m.id = true := by
      unfold otherNormal
      rw [hnm]
      simp only [bne_iff_ne, ne_eq]
      exact find_none habs x hx
    simp [step, updateMode, hn, hw, hother, hne]
  · intro hc
    simp only [step, updateMode, habs, hc, hne, if_false]
    repeat' split
    all_goals simp_all [Res.isOk]
  · intro new hnew
    have hinv := step_inv hi (.update m mask w) ht
    have hid := (written_tame Mode.blank m mask w ht).1
    simp only [step, hne, if_false] at hnew hinv ⊢
    by_cases hg : (m.normal = true ∧ writesNormal mask = true ∧ otherNormal s m.id = true)
    · simp [updateMode, hg] at hnew
    · by_cases hv : maskInvalid mask = true
      · simp [updateMode, hg, hv] at hnew
      · by_cases hrs : maskInvalid w.reset = true
        · simp [updateMode, hg, hv, hrs] at hnew
        · by_cases hc : w.createIfAbsent = true
          · by_cases he : expectedFails w.expected Mode.blank = true
            · simp [updateMode, hg, hv, hrs, habs, hc, he] at hnew
            · cases hck : checkFails w Mode.blank with
              | some c => simp [updateMode, hg, hv, hrs, habs, hc, he, hck] at hnew
              | none =>
                have hstep : updateMode s m mask w =
                    ({ s with modes := insertMode (written Mode.blank m mask w) s.modes },
                      .ok (some (written Mode.blank m mask w))) := by
                  simp [updateMode, hg, hv, hrs, habs, hc, he, hck, insertAt_of_id hid]
                rw [hstep] at hnew hinv
                have hnew' : written Mode.blank m mask w = new := by simpa using hnew
                refine ⟨by rw [← hnew']; exact hid, by rw [hstep, hnew'],
                  by simp [modeEvents, emitUpdate, hstep, habs, hnew', hne], ?_⟩
                intro hnn x hx
                cases hxn : x.normal with
                | false => rfl
                | true =>
                  rw [hnew'] at hinv
                  have hxin : x ∈ insertMode new s.modes := (mem_insertMode _ _ _).mpr (Or.inr hx)
                  have hnin : new ∈ insertMode new s.modes := (mem_insertMode _ _ _).mpr (Or.inl rfl)
                  have := hinv.i1 x hxin new hnin hxn hnn
                  have hid' : x.id = m.id := by rw [this, ← hnew']; exact hid
                  exact absurd hid' (find_none habs x hx)
          · simp [updateMode, hg, hv, hrs, habs, hc] at hnew

/-- **C19_delete_options.** What the write options of `Model.DeleteMode` (`WithExpectedValue`, `WithExpectedCheck`
with ANY check function) do, in every state: for an id that is not stored the preconditions are not consulted —
the answer is the one without options (NotFound, or success with allow-missing: the delete clause of the property
holds whatever else the caller passes); for a stored mode that is not active the caller's check is asked first
and its error is the result, then a differing expected value is FailedPrecondition, and only when both pass is
the mode removed (one REMOVE event carrying the stored record); a refused delete changes nothing and publishes
nothing. -/
theorem C19_delete_options (s : St) (id : String) (am : Bool) (d : DOpts) (hact : id ≠ s.active.id) :
    (find s id = none → step s (.delete id am d) = step s (.delete id am {}) ∧
      step s (.delete id am d) = (s, if am then .ok none else .err .notFound)) ∧
    (∀ old, find s id = some old →
      (∀ c, dcheckFails d old = some c →
        step s (.delete id am d) = (s, .err c) ∧ modeEvents s (.delete id am d) = []) ∧
      (dcheckFails d old = none → expectedFails d.expected old = true →
        step s (.delete id am d) = (s, .err .failedPrecondition) ∧ modeEvents s (.delete id am d) = []) ∧
      (dcheckFails d old = none → expectedFails d.expected old = false →
        step s (.delete id am d) = ({ s with modes := eraseMode id s.modes }, .ok none) ∧
        modeEvents s (.delete id am d) = [.remove old])) := by
  refine ⟨?_, ?_⟩
  · intro h
    cases am <;> simp [step, deleteMode, hact, h]
  · intro old h
    refine ⟨?_, ?_, ?_⟩
    · intro c hc
      simp [step, modeEvents, emitDelete, deleteMode, hact, h, hc]
    · intro hc he
      simp [step, modeEvents, emitDelete, deleteMode, hact, h, hc, he]
    · intro hc he
      simp [step, modeEvents, emitDelete, deleteMode, hact, h, hc, he]

/-- **C19_update_empty_id.** `UpdateMode` of the empty id names no mode: NotFound, nothing changes, whatever the
options (fix eb62186: with `WithCreateIfAbsent` it used to create a mode under the id ""); the UpdateMode RPC
answers InvalidArgument. -/
theorem C19_update_empty_id (s : St) (m : Mode) (mask : Option Mask) (w : WOpts) (h : m.id = "") :
    step s (.update m mask w) = (s, .err .notFound) ∧ step s (.sUpdate m mask) = (s, .err .invalidArgument) ∧
    modeEvents s (.update m mask w) = [] := by
  simp [step, modeEvents, h]

/-- **C19_inv_checked.** Initial-record options: the construction `NewModel(WithInitialMode(modes…),
WithInitialActiveMode(active))` panics unless every initial mode has an id and the ids are distinct
(`St.config?`); when it returns a model, the only thing left to ask of the configuration is that at most one
initial mode is normal — then the invariants hold after ANY operation sequence (`C19_inv` with the
distinct-ids half of `InitOk` discharged by the code's own check). -/
theorem C19_inv_checked (modes : List Mode) (active : Mode) (s0 : St) (h : St.config? modes active = some s0)
    (h1 : ∀ x ∈ modes, ∀ y ∈ modes, x.normal = true → y.normal = true → x = y) (ops : List Op)
    (ht : ∀ op ∈ ops, op.Tame) :
    s0 = St.config modes active ∧ (∀ x ∈ modes, x.id ≠ "") ∧ (modes.map (·.id)).Nodup ∧
    Inv active (run s0 ops) ∧ ((run s0 ops).modes.filter (·.normal)).length ≤ 1 := by
  unfold St.config? at h
  by_cases hok : configOk modes = true
  · simp only [hok, if_true, Option.some.injEq] at h
    subst h
    simp only [configOk, Bool.and_eq_true, List.all_eq_true, bne_iff_ne, ne_eq, decide_eq_true_eq] at hok
    have hinv := run_inv (inv_config modes active ⟨hok.2, h1⟩) ops ht
    exact ⟨rfl, hok.1, hok.2, hinv, normal_count_le_one hinv⟩
  · simp [hok] at h

/-- duplicate ids and a mode without id make the construction panic; a checked configuration does not -/
example : St.config? [mA, mB, mA] Mode.blank = none ∧ St.config? [mA, { mB with id := "" }] Mode.blank = none ∧
    (St.config? [mB, mA] Mode.blank).isSome = true := by decide

/-! ## Non-vacuity, and why the clock must be read inside the lock -/

def mC : Mode := Mode.mk4 "c" "tc" false none

/-- a check used in the examples: refuses everything with NotFound -/
def namedCheckD : String → Option (Mode → Option Code)
  | "ct0" => some fun _ => some .notFound
  | _ => none

/-- two stored modes, `a` active -/
def sAB : St := run St.init [.add mA, .add mB, .changeActive "a" 1]

/-- thread 0 adds a mode, thread 1 switches to `b`; the clock ticks while thread 1 waits for the lock -/
def progsAB : Nat → List Op := fun i => if i = 0 then [.add mC] else if i = 1 then [.changeActive "b" 0] else []

/-- a schedule of the code: thread 0 takes the lock, the clock moves from 0 to 10 while thread 1 is refused
the lock, thread 0 finishes, thread 1 switches: the start time is 10 (`C19_stamp_switch` applies: the log ends
with the switch, `b` is stored and `a` was active). -/
example : (trun (tinit sAB progsAB) [.thr 0, .thr 1, .tick 10, .thr 0, .thr 0, .thr 0, .thr 1, .thr 1, .thr 1]).st.active
    = Mode.mk4 "b" "tb" false (some 10) := by decide
example : ((trun (tinit sAB progsAB) [.thr 0, .thr 1, .tick 10, .thr 0, .thr 0, .thr 0, .thr 1, .thr 1, .thr 1]).log.map
    (fun e => (e.lockAt, e.writeAt))) = [(0, 10), (10, 10)] := by decide

/-- **C19_stamp_early_read_fails.** If the clock is read BEFORE queuing for the model lock (`estep`: the
reading is taken while the thread is idle and not refreshed inside), the clause fails: same programs, the
switch is performed when the clock shows 10 (`a` was still the active mode then) but is stamped 0, an instant
before the switching thread held the lock and before the earlier operation had completed. -/
theorem C19_stamp_early_read_fails :
    let c := erun (tinit sAB progsAB) [.thr 0, .clk 1, .thr 1, .tick 10, .thr 0, .thr 0, .thr 0, .thr 1, .thr 1, .thr 1]
    c.st.active = Mode.mk4 "b" "tb" false (some 0) ∧ c.clock = 10 ∧
    c.log.map (fun e => (e.op.now?, e.lockAt, e.writeAt)) = [(none, 0, 10), (some 0, 10, 10)] := by decide

/-- an upsert through UpdateMode: accepted when no mode is normal, refused next to a normal mode -/
example : (step St.init (.update { mC with normal := true } (some ⟨[.title, .normal], false⟩) { createIfAbsent := true })).1.modes
    = [{ mC with normal := true }] := by decide
example : (step sAB (.update { mC with normal := true } none { createIfAbsent := true })).2 = .err .alreadyExists := by decide
/-- the record an upsert under a mask without `id` used to store had no id (before 2b5cf2c) -/
example : (upsertRecordUnfixed mC (some ⟨[.title], false⟩)).id = "" := by decide
example : (step St.init (.update mC (some ⟨[.title], false⟩) { createIfAbsent := true })).1.modes.map (·.id) = ["c"] := by decide
/-- the CreateMode RPC with a request that carries no mode: InvalidArgument, nothing changes (`C19_rejected_unchanged`
covers it like every other operation); before ca6ca35 the handler dereferenced the nil mode -/
example : step sAB .sCreateNil = (sAB, .err .invalidArgument) ∧ modeEvents sAB .sCreateNil = [] ∧
    (sCreateNilUnfixed sAB).2 = .panic := by decide
/-- value preconditions: a mismatch is FailedPrecondition and changes nothing -/
example : step sAB (.update { mB with title := "x" } none { expected := some mA }) = (sAB, .err .failedPrecondition) := by decide
example : step sAB (.delete "b" false { expected := some mA }) = (sAB, .err .failedPrecondition) := by decide
example : (step sAB (.delete "b" false { expected := some mB })).1.modes = [mA] := by decide
/-- a check that refuses comes before the expected value; on an absent id neither is consulted -/
example : step sAB (.delete "b" false { expected := some mA, check := namedCheckD "ct0" }) = (sAB, .err .notFound) ∧
    step sAB (.delete "c" true { expected := some mA, check := namedCheckD "ct0" }) = (sAB, .ok none) ∧
    step sAB (.delete "c" false { expected := some mA, check := namedCheckD "ct0" }) = (sAB, .err .notFound) := by decide

end ScVerif.C19
