import ScVerif.C19.PropsMore
import ScVerif.C19.Named
/-!
# C19 — round 5: caller-supplied code and reset masks in the write options of `Model.UpdateMode`

`Model.UpdateMode(mode, opts...)` hands its options through to `resource.Collection.Update`.  Besides the data
options modelled in round 4 these can carry the caller's own code (`InterceptBefore`, `InterceptAfter`,
`WithExpectedCheck`) and a reset mask (`WithResetMask`).  `Electric.lean` models the order in which
`WriteRequest.changeFn` uses them (expected value, check, InterceptBefore on the caller's message, merge under
the mask extended by `id`, reset mask, InterceptAfter; the second-normal-mode guard of `updateMode` is evaluated
on the message BEFORE any callback runs, and the record is stored under the key read before any callback runs).

With arbitrary callbacks the invariants do not hold (`C19_options_fails`: the guard is bypassed, or the record no
longer carries the id it is stored under — the defect class of 2b5cf2c, which `updateMode` cannot close from
outside `resource`: it cannot read or wrap the caller's interceptors and reset mask).  They hold for every
sequence whose `UpdateMode` options are `Tame` — a condition on the callbacks as functions, quantified over ALL
functions — which is the hypothesis `ht` of `C19_inv`, `C19_mutex_serialises`, `C19_stamp_schedules`, … .
-/
namespace ScVerif.C19

/-- **C19_options_plain.** Every operation except a `Model.UpdateMode` with a reset mask or an interceptor is
tame, whatever its other options (upsert, expect-absent, expected value, `WithExpectedCheck` with ANY check
function); in particular everything the ElectricApi / MemorySettingsApi servers do. -/
theorem C19_options_plain (op : Op)
    (h : ∀ m mask w, op = .update m mask w → w.reset = none ∧ w.before = none ∧ w.after = none) : op.Tame := by
  cases op with
  | update m mask w => obtain ⟨h1, h2, h3⟩ := h m mask w rfl; exact tame_plain w h1 h2 h3
  | _ => exact True.intro

/-- **C19_options_partial.** A `Model.UpdateMode` whose options are tame — ANY reset mask that leaves `id`
alone, ANY before/after callbacks that leave the id alone and return a normal record only when the record they
were given was normal or the stored one was, ANY check function — from any state satisfying the invariant:
the invariant is preserved; a record it writes carries the id of the request, is stored, and is what a lookup
of that id finds afterwards; and a check that reports an error leaves everything unchanged. -/
theorem C19_options_partial (p : Mode) (s : St) (hi : Inv p s) (m : Mode) (mask : Option Mask) (w : WOpts)
    (ht : w.Tame) (hne : m.id ≠ "") :
    Inv p (step s (.update m mask w)).1 ∧
    (∀ new, (step s (.update m mask w)).2 = .ok (some new) →
      new.id = m.id ∧ find (step s (.update m mask w)).1 m.id = some new) ∧
    ((step s (.update m mask w)).2.isOk = false → (step s (.update m mask w)).1 = s) := by
  have hinv := step_inv hi (.update m mask w) ht
  refine ⟨hinv, ?_, ?_⟩
  · intro new hnew
    simp only [step, hne, if_false] at hnew hinv ⊢
    have hmem : new.id = m.id ∧ new ∈ (updateMode s m mask w).1.modes := by
      rcases updateMode_ok hnew with ⟨old, hf, hn, hmodes⟩ | ⟨hf, hn, hmodes⟩
      · have hid : new.id = m.id := by rw [hn]; exact (written_tame old m mask w ht).1
        refine ⟨hid, ?_⟩
        rw [hmodes]
        obtain ⟨hom, hoid⟩ := find_some hf
        exact List.mem_map.mpr ⟨old, hom, by simp [hoid]⟩
      · have hid : new.id = m.id := by rw [hn]; exact (written_tame Mode.blank m mask w ht).1
        refine ⟨hid, ?_⟩
        rw [hmodes, insertAt_of_id hid]
        exact (mem_insertMode _ _ _).mpr (Or.inl rfl)
    refine ⟨hmem.1, ?_⟩
    rw [← hmem.1]
    exact find_of_mem hinv hmem.2
  · intro h
    rcases step_frame s (.update m mask w) with h' | h'
    · exact h'
    · rw [h] at h'; cases h'

/-- **C19_options_fails.** Machine-checked witnesses that the tameness hypothesis is needed, on the reachable
state `sAB` (modes `a` (normal, active) and `b`): an `InterceptAfter` that sets `normal`, and an
`InterceptBefore` that does (the guard looked at the message before the callback ran), each leave TWO normal
modes although the update reports success; a reset mask naming `id`, and a callback renaming the record, make
`UpdateMode` succeed and leave a record stored at `b`'s place that no longer carries the id `b` — a lookup by the
ids the listing shows finds nothing (`ChangeActiveMode("b")` on the real collection, which is keyed apart from the
record, then yields an active mode whose id is not `b`, and `DeleteMode("b")` deletes it: I2 and I3 are lost). -/
theorem C19_options_fails :
    ((step sAB (.update mB none { after := some fun _ n => { n with normal := true } })).1.modes.filter (·.normal)).length = 2 ∧
    ((step sAB (.update mB none { before := some fun _ n => { n with normal := true } })).1.modes.filter (·.normal)).length = 2 ∧
    (let r := step sAB (.update mB none { reset := some ⟨[.id], false⟩ })
     r.2.isOk = true ∧ find r.1 "b" = none ∧ r.1.modes.map (·.id) = ["a", ""]) ∧
    (let r := step sAB (.update mB (some ⟨[.title], false⟩) { after := some fun _ n => { n with id := "zz" } })
     r.2.isOk = true ∧ find r.1 "b" = none ∧ r.1.modes.map (·.id) = ["a", "zz"]) := by decide

/-! ## Non-vacuity -/

/-- tame options exist beyond the plain ones: a reset mask over other fields with a delta-style callback … -/
example : WOpts.Tame { reset := some ⟨[.title, .normal], false⟩, before := namedIcpt? "tp", after := namedIcpt? "nk" } := by
  refine ⟨?_, ?_, ?_⟩
  · intro k hk; cases hk; decide
  · intro f hf old n
    simp only [namedIcpt?, Option.some.injEq] at hf
    subst hf
    exact ⟨rfl, fun h => Or.inl h⟩
  · intro g hg old n
    simp only [namedIcpt?, Option.some.injEq] at hg
    subst hg
    exact ⟨rfl, fun h => Or.inr h⟩
/-- … under which an update of the normal mode keeps it the one normal mode (the callback restores the flag the
reset mask cleared) and appends to the title it had -/
example : (step sAB (.update { mA with title := "x" } none
      { reset := some ⟨[.normal], false⟩, before := namedIcpt? "tp", after := namedIcpt? "nk" })).1.modes
    = [{ mA with title := "ta+" }, mB] := by decide
/-- a check that refuses: nothing changes -/
example : step sAB (.update mB none { check := namedCheck? "cn" }) = (sAB, .err .failedPrecondition) := by decide
/-- an unknown path in the reset mask is Internal, after the update mask's InvalidArgument and the guard -/
example : (step sAB (.update mB none { reset := some ⟨[], true⟩ })).2 = .err .internal ∧
    (step sAB (.update mB (some ⟨[], true⟩) { reset := some ⟨[], true⟩ })).2 = .err .invalidArgument := by decide

end ScVerif.C19
