import ScVerif.C19.Icpt
/-!
C19 — what survives ANY spelling behind an id interceptor.

`C19_icpt_fails` shows that I2 / I3 are lost when callers use two spellings of one id.  I1 (at most one normal mode)
and the collection's shape are not: for an idempotent interceptor `c` the invariant `J` below — every record is kept
under the canonical form of the id it carries, keys are distinct, at most one record is normal — is preserved by
every tame operation of `ikstep c`, whatever the spellings.
-/
namespace ScVerif.C19

structure J (c : String → String) (l : List Rec) : Prop where
  kc : ∀ e ∈ l, e.1 = c e.2.id
  nd : (l.map (·.1)).Nodup
  n1 : ∀ e1 ∈ l, ∀ e2 ∈ l, e1.2.normal = true → e2.2.normal = true → e1 = e2

theorem key_inj : ∀ {l : List Rec}, (l.map (·.1)).Nodup → ∀ x ∈ l, ∀ y ∈ l, x.1 = y.1 → x = y := by
  intro l
  induction l with
  | nil => intro _ x hx; cases hx
  | cons a as ih =>
    intro h x hx y hy hxy
    simp only [List.map_cons, List.nodup_cons] at h
    rcases List.mem_cons.mp hx with rfl | hx' <;> rcases List.mem_cons.mp hy with rfl | hy'
    · rfl
    · exact absurd (List.mem_map.mpr ⟨y, hy', hxy.symm⟩) h.1
    · exact absurd (List.mem_map.mpr ⟨x, hx', hxy⟩) h.1
    · exact ih h.2 x hx' y hy' hxy

theorem mem_kstore {key : String} {m : Mode} {l : List Rec} {e : Rec} (h : e ∈ kstore key m l) :
    e = (key, m) ∨ (e ∈ l ∧ e.1 ≠ key) := by
  unfold kstore at h
  obtain ⟨e0, he0, rfl⟩ := List.mem_map.mp h
  by_cases hk : e0.1 = key
  · left; simp [hk]
  · right; simp [hk, he0]

theorem mem_kerase {key : String} {l : List Rec} {e : Rec} (h : e ∈ kerase key l) : e ∈ l :=
  (List.mem_filter.mp h).1

theorem J_kinsert {c : String → String} {l : List Rec} (h : J c l) {key : String} {m : Mode}
    (hfresh : ∀ e ∈ l, e.1 ≠ key) (hkey : key = c m.id) (hn : m.normal = true → ∀ e ∈ l, e.2.normal = false) :
    J c (kinsert key m l) := by
  refine ⟨?_, keys_kinsert key m l hfresh h.nd, ?_⟩
  · intro e he
    rcases (mem_kinsert key m l e).mp he with rfl | he
    · exact hkey
    · exact h.kc e he
  · intro e1 h1 e2 h2 hn1 hn2
    rcases (mem_kinsert key m l e1).mp h1 with rfl | h1 <;> rcases (mem_kinsert key m l e2).mp h2 with rfl | h2
    · rfl
    · have := hn hn1 e2 h2; rw [this] at hn2; cases hn2
    · have := hn hn2 e1 h1; rw [this] at hn1; cases hn1
    · exact h.n1 e1 h1 e2 h2 hn1 hn2

theorem J_kstore {c : String → String} {l : List Rec} (h : J c l) {key : String} {m : Mode}
    (hkey : key = c m.id) (hn : m.normal = true → ∀ e ∈ l, e.2.normal = true → e.1 = key) :
    J c (kstore key m l) := by
  refine ⟨?_, by rw [keys_kstore]; exact h.nd, ?_⟩
  · intro e he
    rcases mem_kstore he with rfl | ⟨he, _⟩
    · exact hkey
    · exact h.kc e he
  · intro e1 h1 e2 h2 hn1 hn2
    rcases mem_kstore h1 with rfl | ⟨h1, hk1⟩ <;> rcases mem_kstore h2 with rfl | ⟨h2, hk2⟩
    · rfl
    · exact absurd (hn hn1 e2 h2 hn2) hk2
    · exact absurd (hn hn2 e1 h1 hn1) hk1
    · exact h.n1 e1 h1 e2 h2 hn1 hn2

theorem J_kerase {c : String → String} {l : List Rec} (h : J c l) (key : String) : J c (kerase key l) :=
  ⟨fun e he => h.kc e (mem_kerase he), keys_kerase key l h.nd,
   fun e1 h1 e2 h2 => h.n1 e1 (mem_kerase h1) e2 (mem_kerase h2)⟩

/-- no normal mode listed: no record is normal -/
theorem knormal_none {k : KSt} (h : normalMode k.abs = none) : ∀ e ∈ k.recs, e.2.normal = false := by
  intro e he
  unfold normalMode KSt.abs at h
  have := List.find?_eq_none.mp h e.2 (List.mem_map.mpr ⟨e, he, rfl⟩)
  simpa using this

theorem knormal_some {k : KSt} {n : Mode} (h : normalMode k.abs = some n) :
    (∃ e ∈ k.recs, e.2 = n) ∧ n.normal = true := by
  refine ⟨normalMode_mem k n h, ?_⟩
  unfold normalMode at h
  simpa using List.find?_some h

/-- the second-normal-mode guard of `updateMode` let the write through: every normal record carries the id `id` -/
theorem guard_normals {c : String → String} {k : KSt} (hj : J c k.recs) {id : String}
    (hg : otherNormal k.abs id = false) : ∀ e ∈ k.recs, e.2.normal = true → e.2.id = id := by
  intro e he hn
  unfold otherNormal at hg
  cases hnm : normalMode k.abs with
  | none => have := knormal_none hnm e he; rw [this] at hn; cases hn
  | some n =>
    rw [hnm] at hg
    obtain ⟨⟨e', he', rfl⟩, hnn⟩ := knormal_some hnm
    have : e = e' := hj.n1 e he e' he' hn hnn
    subst this
    simpa using hg

theorem ikgenId_idem {c : String → String} (hc : ∀ x, c (c x) = c x) {k : KSt} {cands : List String} {key : String}
    (h : ikgenId c k cands = some key) : c key = key := by
  unfold ikgenId at h
  obtain ⟨x, _, rfl⟩ := Option.map_eq_some_iff.mp h
  exact hc x

theorem ikcreateOrAdd_J {c : String → String} (hc : ∀ x, c (c x) = c x) {k : KSt} (hj : J c k.recs) (m : Mode)
    (cands : List String) : J c (ikcreateOrAdd c k m cands).1.recs := by
  unfold ikcreateOrAdd
  split
  · exact hj
  · rename_i hguard
    split
    · exact hj
    · rename_i key hkey
      split
      · exact hj
      · rename_i hfree
        have hfresh : ∀ e ∈ k.recs, e.1 ≠ key := by
          apply kfindL_none
          cases hf : kfind k key with
          | none => exact hf
          | some x => simp [hf] at hfree
        have hnn : ∀ (m' : Mode), m'.normal = m.normal → m'.normal = true → ∀ e ∈ k.recs, e.2.normal = false := by
          intro m' hm' hn
          have hmn : m.normal = true := by rw [← hm']; exact hn
          have : normalMode k.abs = none := by
            cases hnm : normalMode k.abs with
            | none => rfl
            | some n => exact absurd ⟨hmn, by simp [hnm]⟩ hguard
          exact knormal_none this
        unfold ikchooseId at hkey
        by_cases h0 : m.id = "" ∨ c m.id = ""
        · rw [if_pos h0] at hkey ⊢
          exact J_kinsert hj hfresh (ikgenId_idem hc hkey).symm (hnn _ rfl)
        · rw [if_neg h0] at hkey ⊢
          exact J_kinsert hj hfresh (Option.some.inj hkey).symm (hnn _ rfl)

theorem ikupdateMode_J {c : String → String} {k : KSt} (hj : J c k.recs) (m : Mode) (mask : Option Mask) (w : WOpts)
    (ht : w.Tame) : J c (ikupdateMode c k m mask w).1.recs := by
  unfold ikupdateMode
  split
  · exact hj
  · rename_i hguard
    -- a write of `normal = true` got past the guard: every normal record carries the id of the request
    have hnorm : m.normal = true → writesNormal mask = true → ∀ e ∈ k.recs, e.2.normal = true → e.1 = c m.id := by
      intro h1 h2 e he hn
      have hg : otherNormal k.abs m.id = false := by
        cases ho : otherNormal k.abs m.id with
        | false => rfl
        | true => exact absurd ⟨h1, h2, ho⟩ hguard
      rw [hj.kc e he, guard_normals hj hg e he hn]
    split
    · exact hj
    · split
      · exact hj
      · split
        · rename_i old hold
          split
          · exact hj
          · split
            · exact hj
            · split
              · exact hj
              · obtain ⟨hid, hn⟩ := written_tame old m mask w ht
                refine J_kstore hj (by rw [hid]) ?_
                intro hnew e he hen
                rcases hn hnew with hold' | ⟨h1, h2⟩
                · have := hj.n1 e he (c m.id, old) (kfindL_some hold) hen hold'
                  rw [this]
                · exact hnorm h1 h2 e he hen
        · rename_i hnone
          split
          · exact hj
          · split
            · exact hj
            · split
              · exact hj
              · obtain ⟨hid, hn⟩ := written_tame Mode.blank m mask w ht
                have hfresh : ∀ e ∈ k.recs, e.1 ≠ c m.id := kfindL_none hnone
                refine J_kinsert hj hfresh (by rw [hid]) ?_
                intro hnew e he
                rcases hn hnew with hb | ⟨h1, h2⟩
                · cases hb
                · cases hen : e.2.normal with
                  | false => rfl
                  | true => exact absurd (hnorm h1 h2 e he hen) (hfresh e he)

theorem ikdeleteMode_J {c : String → String} {k : KSt} (hj : J c k.recs) (id : String) (am : Bool) (d : DOpts) :
    J c (ikdeleteMode c k id am d).1.recs := by
  unfold ikdeleteMode ikdeleteBody
  split
  · exact hj
  · split
    · exact hj
    · split
      · split <;> exact hj
      · split
        · exact hj
        · split
          · exact hj
          · exact J_kerase hj _

theorem ikchangeActive_J {c : String → String} {k : KSt} (hj : J c k.recs) (id : String) (now : Nat) :
    J c (ikchangeActive c k id now).1.recs := by
  unfold ikchangeActive
  split <;> exact hj

theorem ikstep_J {c : String → String} (hc : ∀ x, c (c x) = c x) {k : KSt} (hj : J c k.recs) (op : Op) (ht : op.Tame) :
    J c (ikstep c k op).1.recs := by
  cases op with
  | create m cands => simp only [ikstep]; split; exact hj; exact ikcreateOrAdd_J hc hj m cands
  | sCreate m cands => simp only [ikstep]; split; exact hj; exact ikcreateOrAdd_J hc hj m cands
  | add m =>
    simp only [ikstep]
    split
    · exact hj
    · have := ikcreateOrAdd_J hc hj m []
      split
      · rename_i hr; rw [hr] at this; exact this
      · exact this
  | update m mask w => simp only [ikstep]; split; exact hj; exact ikupdateMode_J hj m mask w ht
  | sUpdate m mask => simp only [ikstep]; split; exact hj; exact ikupdateMode_J hj m mask {} tame_default
  | delete id am d => exact ikdeleteMode_J hj id am d
  | sDelete id am =>
    simp only [ikstep]
    split
    · exact hj
    · have := ikdeleteMode_J (c := c) hj id am {}
      split
      · rename_i hr; rw [hr] at this; exact this
      · exact this
  | setActive m => simp only [ikstep, iksetActive]; split <;> exact hj
  | changeActive id now => exact ikchangeActive_J hj id now
  | sChangeActive id now => simp only [ikstep]; split; exact hj; exact ikchangeActive_J hj id now
  | clear now => simp only [ikstep, ikchangeToNormal]; split; exact hj; exact ikchangeActive_J hj _ now
  | sClear now => simp only [ikstep, ikchangeToNormal]; split; exact hj; exact ikchangeActive_J hj _ now
  | findMode id => exact hj
  | sCreateNil => exact hj

theorem ikrun_J {c : String → String} (hc : ∀ x, c (c x) = c x) : ∀ (ops : List Op) (k : KSt), J c k.recs →
    (∀ op ∈ ops, op.Tame) → J c (ikrun c k ops).recs := by
  intro ops
  induction ops with
  | nil => intro k hj _; exact hj
  | cons op ops ih =>
    intro k hj ht
    exact ih _ (ikstep_J hc hj op (ht op (by simp))) (fun o ho => ht o (by simp [ho]))

theorem J_count {c : String → String} : ∀ {l : List Rec}, J c l → ((l.map (·.2)).filter (·.normal)).length ≤ 1 := by
  intro l
  induction l with
  | nil => intro _; simp
  | cons a as ih =>
    intro h
    have hnd := h.nd
    simp only [List.map_cons, List.nodup_cons] at hnd
    have has : J c as := ⟨fun e he => h.kc e (by simp [he]), hnd.2,
      fun e1 h1 e2 h2 => h.n1 e1 (by simp [h1]) e2 (by simp [h2])⟩
    cases ha : a.2.normal with
    | false => simp only [List.map_cons, List.filter_cons, ha]; exact ih has
    | true =>
      have hnone : (as.map (·.2)).filter (·.normal) = [] := by
        apply List.filter_eq_nil_iff.mpr
        intro x hx
        obtain ⟨e, he, rfl⟩ := List.mem_map.mp hx
        intro hen
        have : e = a := h.n1 e (by simp [he]) a (by simp) hen ha
        subst this
        exact hnd.1 (List.mem_map.mpr ⟨e, he, rfl⟩)
      simp [ha, hnone]

/-! ### I2 / I3 behind the interceptor, any spelling (after 00bc77e + c078347)

`A`: once changed, the canonical form of the active mode's id is a key of the collection (the active mode names a
stored mode, up to spelling).  Every operation of `ikstep c` keeps it — whatever its options — in a state that
satisfies `J`; the one operation that could break it, a delete under a key equal to `c active.id`, is refused by the
guards that look at what the collection finds. -/

def A (c : String → String) (k : KSt) : Prop :=
  k.changed = true → k.active.id ≠ "" → c k.active.id ∈ k.recs.map (·.1)

theorem kfindL_isSome_iff (l : List Rec) (key : String) : (kfindL l key).isSome = true ↔ key ∈ l.map (·.1) := by
  unfold kfindL
  rw [Option.isSome_map, List.find?_isSome]
  constructor
  · rintro ⟨e, he, hk⟩
    exact List.mem_map.mpr ⟨e, he, by simpa using hk⟩
  · intro h
    obtain ⟨e, he, hk⟩ := List.mem_map.mp h
    exact ⟨e, he, by simpa using hk⟩

/-- the guards of `deleteMode`: a delete under ANY spelling of the key the active mode's id leads to is refused -/
theorem ikdeleteMode_refuses {c : String → String} {k : KSt} (hin : c k.active.id ∈ k.recs.map (·.1))
    (hne : k.active.id ≠ "") {id : String} (heq : c id = c k.active.id) (am : Bool) (d : DOpts) :
    ikdeleteMode c k id am d = (k, .err .failedPrecondition) := by
  unfold ikdeleteMode
  by_cases ha : id = k.active.id
  · rw [if_pos ha]
  · rw [if_neg ha]
    have hs : (kfind k (c k.active.id)).isSome = true := (kfindL_isSome_iff _ _).mpr hin
    have hna : iknamesActive c k id = true := by
      unfold iknamesActive
      rw [heq]
      cases hf : kfind k (c k.active.id) with
      | none => simp [hf] at hs
      | some cur => simp [hne]
    rw [if_pos hna]

theorem ikcreateOrAdd_A {c : String → String} {k : KSt} (h : A c k) (m : Mode) (cands : List String) :
    A c (ikcreateOrAdd c k m cands).1 := by
  unfold ikcreateOrAdd
  split
  · exact h
  · split
    · exact h
    · split
      · exact h
      · intro hch hne
        obtain ⟨e, he, hk⟩ := List.mem_map.mp (h hch hne)
        exact List.mem_map.mpr ⟨e, (mem_kinsert _ _ _ e).mpr (Or.inr he), hk⟩

theorem A_kstore {c : String → String} {k : KSt} (h : A c k) (key : String) (m : Mode) :
    A c { k with recs := kstore key m k.recs } := by
  intro hch hne
  show _ ∈ (kstore key m k.recs).map (·.1)
  rw [keys_kstore]
  exact h hch hne

theorem A_kinsert {c : String → String} {k : KSt} (h : A c k) (key : String) (m : Mode) :
    A c { k with recs := kinsert key m k.recs } := by
  intro hch hne
  obtain ⟨e, he, hk⟩ := List.mem_map.mp (h hch hne)
  exact List.mem_map.mpr ⟨e, (mem_kinsert _ _ _ e).mpr (Or.inr he), hk⟩

theorem ikupdateMode_A {c : String → String} {k : KSt} (h : A c k) (m : Mode) (mask : Option Mask) (w : WOpts) :
    A c (ikupdateMode c k m mask w).1 := by
  unfold ikupdateMode
  split
  · exact h
  · split
    · exact h
    · split
      · exact h
      · split
        · split
          · exact h
          · split
            · exact h
            · split
              · exact h
              · exact A_kstore h _ _
        · split
          · exact h
          · split
            · exact h
            · split
              · exact h
              · exact A_kinsert h _ _

theorem ikdeleteMode_A {c : String → String} {k : KSt} (h : A c k) (id : String) (am : Bool) (d : DOpts) :
    A c (ikdeleteMode c k id am d).1 := by
  by_cases heq : k.changed = true ∧ k.active.id ≠ "" ∧ c id = c k.active.id
  · rw [ikdeleteMode_refuses (h heq.1 heq.2.1) heq.2.1 heq.2.2]
    exact h
  · unfold ikdeleteMode ikdeleteBody
    split
    · exact h
    · split
      · exact h
      · split
        · split <;> exact h
        · split
          · exact h
          · split
            · exact h
            · intro hch hne0
              have hch' : k.changed = true := hch
              have hne0' : k.active.id ≠ "" := hne0
              have hne : c k.active.id ≠ c id := fun e => heq ⟨hch', hne0', e.symm⟩
              obtain ⟨e, he, hk⟩ := List.mem_map.mp (h hch' hne0')
              refine List.mem_map.mpr ⟨e, ?_, hk⟩
              unfold kerase
              exact List.mem_filter.mpr ⟨he, by simp [hk, hne]⟩

theorem ikchangeActive_A {c : String → String} {k : KSt} (hj : J c k.recs) (h : A c k) (id : String) (now : Nat) :
    A c (ikchangeActive c k id now).1 := by
  unfold ikchangeActive
  cases hf : kfind k (c id) with
  | none => exact h
  | some m =>
    intro _ _
    have hmem : (c id, m) ∈ k.recs := kfindL_some hf
    have hkey : c id = c m.id := hj.kc _ hmem
    have hid : (if k.active.id ≠ m.id then { m with start := some now } else m).id = m.id := by split <;> rfl
    show c (if k.active.id ≠ m.id then { m with start := some now } else m).id ∈ k.recs.map (·.1)
    rw [hid, ← hkey]
    exact List.mem_map.mpr ⟨_, hmem, rfl⟩

theorem ikstep_A {c : String → String} {k : KSt} (hj : J c k.recs) (h : A c k) (op : Op) : A c (ikstep c k op).1 := by
  cases op with
  | create m cands => simp only [ikstep]; split; exact h; exact ikcreateOrAdd_A h m cands
  | sCreate m cands => simp only [ikstep]; split; exact h; exact ikcreateOrAdd_A h m cands
  | add m =>
    simp only [ikstep]
    split
    · exact h
    · have := ikcreateOrAdd_A h m []
      split
      · rename_i hr; rw [hr] at this; exact this
      · exact this
  | update m mask w => simp only [ikstep]; split; exact h; exact ikupdateMode_A h m mask w
  | sUpdate m mask => simp only [ikstep]; split; exact h; exact ikupdateMode_A h m mask {}
  | delete id am d => exact ikdeleteMode_A h id am d
  | sDelete id am =>
    simp only [ikstep]
    split
    · exact h
    · have := ikdeleteMode_A (c := c) h id am {}
      split
      · rename_i hr; rw [hr] at this; exact this
      · exact this
  | setActive m =>
    simp only [ikstep, iksetActive]
    cases hf : kfind k (c m.id) with
    | none => exact h
    | some st =>
      intro _ _
      exact (kfindL_isSome_iff _ _).mp (by show (kfind k (c m.id)).isSome = true; rw [hf]; rfl)
  | changeActive id now => exact ikchangeActive_A hj h id now
  | sChangeActive id now => simp only [ikstep]; split; exact h; exact ikchangeActive_A hj h id now
  | clear now => simp only [ikstep, ikchangeToNormal]; split; exact h; exact ikchangeActive_A hj h _ now
  | sClear now => simp only [ikstep, ikchangeToNormal]; split; exact h; exact ikchangeActive_A hj h _ now
  | findMode id => exact h
  | sCreateNil => exact h

theorem ikrun_JA {c : String → String} (hc : ∀ x, c (c x) = c x) : ∀ (ops : List Op) (k : KSt), J c k.recs → A c k →
    (∀ op ∈ ops, op.Tame) → J c (ikrun c k ops).recs ∧ A c (ikrun c k ops) := by
  intro ops
  induction ops with
  | nil => intro k hj ha _; exact ⟨hj, ha⟩
  | cons op ops ih =>
    intro k hj ha ht
    exact ih _ (ikstep_J hc hj op (ht op (by simp))) (ikstep_A hj ha op) (fun o ho => ht o (by simp [ho]))

end ScVerif.C19
