import ScVerif.C19.KeyedRefine
/-!
C19 — the mode collection behind an ID INTERCEPTOR.

`electricpb.WithModeOption(resource.WithIDInterceptor(c))` (e.g. `strings.ToLower`) makes `resource.Collection` send
every id it is GIVEN through `c` before it reads or writes its map: `Get`, `Update` (hence `Add`), `Delete` look up
`c(id)`, a generated candidate is probed and stored under `c(candidate)`, an initial record is kept under `c(key)`
(215ba16).  The RECORD is stored as the caller wrote it: `AddMode{Id:"B"}` keeps a record with id `B` under the key
`b`.  `model.go` knows nothing of `c`: its guards compare the ids as SPELLED (`id == active.Id`,
`oldMode.Id != newMode.Id`, `normal.Id != mode.Id`).

`ikstep c` follows the code with the interceptor applied exactly where `collection.go` applies it.  With the identity
it is `kstep` (`ikstep_id`); for any `c` it is `kstep` on every operation whose ids are spelled canonically
(`c id = id`) from a state whose records carry canonical ids (`ikstep_canon`), and canonical tame operations keep
such states (`RecsCanon`): there every theorem about `kstep` / `step` holds.  Outside (a caller using two spellings of
one id) `PropsIcpt.lean` derives the loss of I2 / I3.
-/
namespace ScVerif.C19

/-- `GenerateUniqueId` with the probe `exists(c(candidate))`, then `genID` returns `c(candidate)` -/
def ikgenId (c : String → String) (k : KSt) (cands : List String) : Option String :=
  ((cands.take 10).find? (fun x => x ≠ "" ∧ (kfind k (c x)).isNone)).map c

/-- `Collection.Update`: `id = c(id)`, then an id is generated when none was GIVEN (929e9c0: decided on the id as
given, before `c`) or when `c` maps the given id to the empty key -/
def ikchooseId (c : String → String) (k : KSt) (m : Mode) (cands : List String) : Option String :=
  if m.id = "" ∨ c m.id = "" then ikgenId c k cands else some (c m.id)

/-- `createOrAddMode`: the id callback writes a GENERATED id into the record; a given id stays as spelled -/
def ikcreateOrAdd (c : String → String) (k : KSt) (m : Mode) (cands : List String) : KSt × Res :=
  if m.normal ∧ (normalMode k.abs).isSome then (k, .err .alreadyExists)
  else
    match ikchooseId c k m cands with
    | none => (k, .err .aborted)
    | some key =>
      if (kfind k key).isSome then (k, .err .alreadyExists)
      else
        let m' := if m.id = "" ∨ c m.id = "" then { m with id := key } else m
        ({ k with recs := kinsert key m' k.recs }, .ok (some m'))

def ikchangeActive (c : String → String) (k : KSt) (id : String) (now : Nat) : KSt × Res :=
  match kfind k (c id) with
  | none => (k, .err .notFound)
  | some m =>
    let m' := if k.active.id ≠ m.id then { m with start := some now } else m
    ({ k with active := m', changed := true }, .ok (some m'))

def ikupdateMode (c : String → String) (k : KSt) (m : Mode) (mask : Option Mask) (w : WOpts) : KSt × Res :=
  if m.normal ∧ writesNormal mask ∧ otherNormal k.abs m.id then (k, .err .alreadyExists)
  else if maskInvalid mask then (k, .err .invalidArgument)
  else if maskInvalid w.reset then (k, .err .internal)
  else
    match kfind k (c m.id) with
    | some old =>
      if w.expectAbsent then (k, .err .alreadyExists)
      else if expectedFails w.expected old then (k, .err .failedPrecondition)
      else match checkFails w old with
        | some e => (k, .err e)
        | none =>
          let new := written old m mask w
          ({ k with recs := kstore (c m.id) new k.recs }, .ok (some new))
    | none =>
      if !w.createIfAbsent then (k, .err .notFound)
      else if expectedFails w.expected Mode.blank then (k, .err .failedPrecondition)
      else match checkFails w Mode.blank with
        | some e => (k, .err e)
        | none =>
          let new := written Mode.blank m mask w
          ({ k with recs := kinsert (c m.id) new k.recs }, .ok (some new))

/-- `modes.Delete(id, opts...)`: the collection goes to the canonical key -/
def ikdeleteBody (c : String → String) (k : KSt) (id : String) (allowMissing : Bool) (d : DOpts) : KSt × Res :=
  match kfind k (c id) with
  | none => if allowMissing then (k, .ok none) else (k, .err .notFound)
  | some old =>
    match dcheckFails d old with
    | some e => (k, .err e)
    | none =>
      if expectedFails d.expected old then (k, .err .failedPrecondition)
      else ({ k with recs := kerase (c id) k.recs }, .ok none)

/-- the second and third guard of `deleteMode` (00bc77e, c078347); `findMode` goes through the interceptor: the mode
stored under `c id` carries the active mode's id, or the active mode's id, unless empty (6e97ca4), finds (under
`c active.id`) a stored mode
carrying the same id as the one `id` finds -/
def iknamesActive (c : String → String) (k : KSt) (id : String) : Bool :=
  match kfind k (c id) with
  | none => false
  | some st =>
    decide (st.id = k.active.id) ||
      (decide (k.active.id ≠ "") &&
        match kfind k (c k.active.id) with
        | none => false
        | some cur => decide (cur.id = st.id))

/-- `deleteMode`: the first guard compares SPELLINGS, the others look at what the collection finds -/
def ikdeleteMode (c : String → String) (k : KSt) (id : String) (allowMissing : Bool) (d : DOpts) : KSt × Res :=
  if id = k.active.id then (k, .err .failedPrecondition)
  else if iknamesActive c k id then (k, .err .failedPrecondition)
  else ikdeleteBody c k id allowMissing d

/-- `deleteMode` before 00bc77e: the only guard compared spellings (the shape `C19_icpt_fails` is about) -/
def ikdeleteModeUnfixed (c : String → String) (k : KSt) (id : String) (allowMissing : Bool) (d : DOpts) : KSt × Res :=
  if id = k.active.id then (k, .err .failedPrecondition)
  else ikdeleteBody c k id allowMissing d

/-- `deleteMode` as of 00bc77e alone (second guard, not the third): what `C19_icpt_respell_fails` is about -/
def ikdeleteModeHalf (c : String → String) (k : KSt) (id : String) (allowMissing : Bool) (d : DOpts) : KSt × Res :=
  if id = k.active.id then (k, .err .failedPrecondition)
  else if (kfind k (c id)).map (·.id) = some k.active.id then (k, .err .failedPrecondition)
  else ikdeleteBody c k id allowMissing d

def iksetActive (c : String → String) (k : KSt) (m : Mode) : KSt × Res :=
  match kfind k (c m.id) with
  | none => (k, .err .notFound)
  | some _ => ({ k with active := m, changed := true }, .ok none)

def ikchangeToNormal (c : String → String) (k : KSt) (now : Nat) : KSt × Res :=
  match normalMode k.abs with
  | none => (k, .err .notFound)
  | some n => ikchangeActive c k n.id now

def ikstep (c : String → String) (k : KSt) : Op → KSt × Res
  | .create m cands => if m.id ≠ "" then (k, .panic) else ikcreateOrAdd c k m cands
  | .add m =>
    if m.id = "" then (k, .panic)
    else match ikcreateOrAdd c k m [] with
      | (k', .ok _) => (k', .ok none)
      | r => r
  | .update m mask w => if m.id = "" then (k, .err .notFound) else ikupdateMode c k m mask w
  | .delete id am d => ikdeleteMode c k id am d
  | .setActive m => iksetActive c k m
  | .changeActive id now => ikchangeActive c k id now
  | .clear now => ikchangeToNormal c k now
  | .findMode id => (k, match kfind k (c id) with | some m => .ok (some m) | none => .err .notFound)
  | .sCreate m cands => if m.id ≠ "" then (k, .err .invalidArgument) else ikcreateOrAdd c k m cands
  | .sUpdate m mask => if m.id = "" then (k, .err .invalidArgument) else ikupdateMode c k m mask {}
  | .sDelete id am =>
    if id = "" then (k, .err .invalidArgument)
    else match ikdeleteMode c k id am {} with
      | (k', .ok _) => (k', .ok none)
      | r => r
  | .sChangeActive id now => if id = "" then (k, .err .invalidArgument) else ikchangeActive c k id now
  | .sClear now => ikchangeToNormal c k now
  | .sCreateNil => (k, .err .invalidArgument)

def ikrun (c : String → String) (k : KSt) : List Op → KSt
  | [] => k
  | op :: ops => ikrun c (ikstep c k op).1 ops

/-- `NewCollection`: an initial record is kept under `c(key)`; two keys with one image panic (215ba16) -/
def KSt.iconfig? (c : String → String) (recs : List Rec) (active : Mode) : Option KSt :=
  KSt.config? (recs.map (fun e => (c e.1, e.2))) active

/-- the key the collection writes (and names in the event it publishes) -/
def ikwrittenKey (c : String → String) (k : KSt) : Op → Option String
  | .create m cands => if m.id ≠ "" then none else ikchooseId c k m cands
  | .sCreate m cands => if m.id ≠ "" then none else ikchooseId c k m cands
  | .add m => if m.id = "" then none else ikchooseId c k m []
  | .update m _ _ => if m.id = "" then none else some (c m.id)
  | .sUpdate m _ => if m.id = "" then none else some (c m.id)
  | .delete id _ _ => some (c id)
  | .sDelete id _ => if id = "" then none else some (c id)
  | _ => none

def ikmodeEvents (c : String → String) (k : KSt) (op : Op) : List ModeEvent :=
  match ikwrittenKey c k op with
  | none => []
  | some key => diff1 (kfind k key) (kfind (ikstep c k op).1 key)

def ikactiveEvents (c : String → String) (k : KSt) (op : Op) : List Mode :=
  if setsActive op ∧ (ikstep c k op).2.isOk ∧ (k.changed = false ∨ (ikstep c k op).1.active ≠ k.active)
  then [(ikstep c k op).1.active] else []

/-! ### with the identity the interceptor model is the keyed model -/

theorem ikgenId_id (k : KSt) (cands : List String) : ikgenId (fun x => x) k cands = kgenId k cands := by
  unfold ikgenId kgenId
  cases (cands.take 10).find? (fun x => decide (x ≠ "" ∧ (kfind k x).isNone)) <;> rfl

theorem ikcreateOrAdd_id (k : KSt) (m : Mode) (cands : List String) :
    ikcreateOrAdd (fun x => x) k m cands = kcreateOrAdd k m cands := by
  unfold ikcreateOrAdd kcreateOrAdd ikchooseId kchooseId
  simp only [ikgenId_id]
  by_cases hm : m.id = ""
  · simp only [hm, or_self, if_true]
    rfl
  · simp only [hm, or_self, if_false]

theorem ikstep_id (k : KSt) (op : Op) : ikstep (fun x => x) k op = kstep k op := by
  cases op <;> simp only [ikstep, kstep, ikcreateOrAdd_id] <;> rfl

/-! ### canonical spellings: the interceptor is invisible -/

/-- every id the operation names is spelled canonically (`c id = id`); ids the RNG proposes too -/
def OpCanon (c : String → String) : Op → Prop
  | .create m cands => c m.id = m.id ∧ ∀ x ∈ cands, c x = x
  | .sCreate m cands => c m.id = m.id ∧ ∀ x ∈ cands, c x = x
  | .add m => c m.id = m.id
  | .update m _ _ => c m.id = m.id
  | .sUpdate m _ => c m.id = m.id
  | .delete id _ _ => c id = id
  | .sDelete id _ => c id = id
  | .setActive m => c m.id = m.id
  | .changeActive id _ => c id = id
  | .sChangeActive id _ => c id = id
  | .findMode id => c id = id
  | .clear _ => True
  | .sClear _ => True
  | .sCreateNil => True

/-- every stored record carries a canonical id -/
def RecsCanon (c : String → String) (k : KSt) : Prop := ∀ e ∈ k.recs, c e.2.id = e.2.id

theorem find_canon (c : String → String) (k : KSt) : ∀ (l : List String), (∀ x ∈ l, c x = x) →
    (l.find? (fun x => decide (x ≠ "" ∧ (kfind k (c x)).isNone))).map c
      = l.find? (fun x => decide (x ≠ "" ∧ (kfind k x).isNone)) := by
  intro l
  induction l with
  | nil => intro _; rfl
  | cons a as ih =>
    intro h
    have ha : c a = a := h a (by simp)
    simp only [List.find?_cons, ha]
    split
    · simp [ha]
    · exact ih (fun x hx => h x (by simp [hx]))

theorem ikgenId_canon (c : String → String) (k : KSt) (cands : List String) (h : ∀ x ∈ cands, c x = x) :
    ikgenId c k cands = kgenId k cands := by
  unfold ikgenId kgenId
  exact find_canon c k _ (fun x hx => h x (List.mem_of_mem_take hx))

theorem ikcreateOrAdd_canon (c : String → String) (k : KSt) (m : Mode) (cands : List String)
    (hm : c m.id = m.id) (h : ∀ x ∈ cands, c x = x) : ikcreateOrAdd c k m cands = kcreateOrAdd k m cands := by
  unfold ikcreateOrAdd kcreateOrAdd ikchooseId kchooseId
  simp only [ikgenId_canon c k cands h, hm]
  by_cases hm0 : m.id = ""
  · simp only [hm0, or_self, if_true]
    rfl
  · simp only [hm0, or_self, if_false]

theorem normalMode_mem (k : KSt) (n : Mode) (h : normalMode k.abs = some n) : ∃ e ∈ k.recs, e.2 = n := by
  unfold normalMode KSt.abs at h
  have := List.mem_of_find?_eq_some h
  obtain ⟨e, he, rfl⟩ := List.mem_map.mp this
  exact ⟨e, he, rfl⟩

/-- the active mode carries a canonical id (it is a copy of a stored record, or was set by a canonical caller) -/
def ActCanon (c : String → String) (k : KSt) : Prop := k.active.id = "" ∨ c k.active.id = k.active.id

theorem iknamesActive_canon (c : String → String) (k : KSt) (id : String) (ho : c id = id) (ha : ActCanon c k) :
    iknamesActive c k id = knamesActive k id := by
  unfold iknamesActive knamesActive
  rw [ho]
  rcases ha with ha | ha
  · simp [ha]
    rfl
  · rw [ha]
    rfl

theorem ikdeleteMode_canon (c : String → String) (k : KSt) (id : String) (am : Bool) (d : DOpts) (ho : c id = id)
    (ha : ActCanon c k) : ikdeleteMode c k id am d = kdeleteMode k id am d := by
  unfold ikdeleteMode kdeleteMode ikdeleteBody kdeleteBody
  rw [iknamesActive_canon c k id ho ha, ho]
  rfl

/-- **the interceptor is invisible to canonical callers**: one step -/
theorem ikstep_canon (c : String → String) (k : KSt) (op : Op) (ho : OpCanon c op) (hk : RecsCanon c k)
    (ha : ActCanon c k) : ikstep c k op = kstep k op := by
  have hn : ∀ n, normalMode k.abs = some n → c n.id = n.id := by
    intro n h
    obtain ⟨e, he, rfl⟩ := normalMode_mem k n h
    exact hk e he
  cases op with
  | create m cands => simp only [ikstep, kstep, ikcreateOrAdd_canon c k m cands ho.1 ho.2] <;> try rfl
  | sCreate m cands => simp only [ikstep, kstep, ikcreateOrAdd_canon c k m cands ho.1 ho.2] <;> try rfl
  | add m =>
    have ho' : c m.id = m.id := ho
    simp only [ikstep, kstep, ikcreateOrAdd_canon c k m [] ho' (fun x hx => by cases hx)]
    try rfl
  | update m mask w =>
    have ho' : c m.id = m.id := ho
    simp only [ikstep, kstep, ikupdateMode, kupdateMode, ho']
    try rfl
  | sUpdate m mask =>
    have ho' : c m.id = m.id := ho
    simp only [ikstep, kstep, ikupdateMode, kupdateMode, ho']
    try rfl
  | delete id am d =>
    have ho' : c id = id := ho
    simp only [ikstep, kstep, ikdeleteMode_canon c k id am d ho' ha]
  | sDelete id am =>
    have ho' : c id = id := ho
    simp only [ikstep, kstep, ikdeleteMode_canon c k id am {} ho' ha]
    try rfl
  | setActive m =>
    have ho' : c m.id = m.id := ho
    simp only [ikstep, kstep, iksetActive, ksetActive, ho']
    try rfl
  | changeActive id now =>
    have ho' : c id = id := ho
    simp only [ikstep, kstep, ikchangeActive, kchangeActive, ho']
    try rfl
  | sChangeActive id now =>
    have ho' : c id = id := ho
    simp only [ikstep, kstep, ikchangeActive, kchangeActive, ho']
    try rfl
  | findMode id =>
    have ho' : c id = id := ho
    simp only [ikstep, kstep, ho']
    try rfl
  | clear now =>
    simp only [ikstep, kstep, ikchangeToNormal, kchangeToNormal]
    cases hnm : normalMode k.abs with
    | none => rfl
    | some n => simp only [ikchangeActive, kchangeActive, hn n hnm] <;> try rfl
  | sClear now =>
    simp only [ikstep, kstep, ikchangeToNormal, kchangeToNormal]
    cases hnm : normalMode k.abs with
    | none => rfl
    | some n => simp only [ikchangeActive, kchangeActive, hn n hnm] <;> try rfl
  | sCreateNil => rfl

theorem ikchooseId_canon (c : String → String) (k : KSt) (m : Mode) (cands : List String)
    (hm : c m.id = m.id) (h : ∀ x ∈ cands, c x = x) : ikchooseId c k m cands = kchooseId k m cands := by
  unfold ikchooseId kchooseId
  rw [ikgenId_canon c k cands h, hm]
  simp only [or_self]

/-- the key written — hence the PullModes event the collection publishes — is the same for a canonical caller -/
theorem ikwrittenKey_canon (c : String → String) (k : KSt) (op : Op) (ho : OpCanon c op) :
    ikwrittenKey c k op = kwrittenKey k op := by
  cases op with
  | create m cands => simp only [ikwrittenKey, kwrittenKey, ikchooseId_canon c k m cands ho.1 ho.2]
  | sCreate m cands => simp only [ikwrittenKey, kwrittenKey, ikchooseId_canon c k m cands ho.1 ho.2]
  | add m =>
    have ho' : c m.id = m.id := ho
    simp only [ikwrittenKey, kwrittenKey, ikchooseId, ho']
    by_cases h : m.id = "" <;> simp [h]
  | update m mask w => have ho' : c m.id = m.id := ho; simp only [ikwrittenKey, kwrittenKey, ho']
  | sUpdate m mask => have ho' : c m.id = m.id := ho; simp only [ikwrittenKey, kwrittenKey, ho']
  | delete id am d => have ho' : c id = id := ho; simp only [ikwrittenKey, kwrittenKey, ho']
  | sDelete id am => have ho' : c id = id := ho; simp only [ikwrittenKey, kwrittenKey, ho']
  | setActive m => rfl
  | changeActive id now => rfl
  | sChangeActive id now => rfl
  | findMode id => rfl
  | clear now => rfl
  | sClear now => rfl
  | sCreateNil => rfl

theorem ikevents_canon (c : String → String) (k : KSt) (op : Op) (ho : OpCanon c op) (hk : RecsCanon c k)
    (ha : ActCanon c k) :
    ikmodeEvents c k op = kmodeEvents k op ∧ ikactiveEvents c k op = kactiveEvents k op := by
  unfold ikmodeEvents kmodeEvents ikactiveEvents kactiveEvents
  rw [ikwrittenKey_canon c k op ho, ikstep_canon c k op ho hk ha]
  exact ⟨rfl, rfl⟩

/-! ### canonical tame operations keep the records canonical; whole runs -/

def LCanon (c : String → String) (l : List Rec) : Prop := ∀ e ∈ l, c e.2.id = e.2.id

theorem lcanon_kinsert {c : String → String} {l : List Rec} (h : LCanon c l) (key : String) {m : Mode}
    (hm : c m.id = m.id) : LCanon c (kinsert key m l) := by
  intro e he
  rcases (mem_kinsert key m l e).mp he with rfl | he
  · exact hm
  · exact h e he

theorem lcanon_kstore {c : String → String} {l : List Rec} (h : LCanon c l) (key : String) {m : Mode}
    (hm : c m.id = m.id) : LCanon c (kstore key m l) := by
  intro e he
  obtain ⟨e0, he0, rfl⟩ := List.mem_map.mp he
  split
  · exact hm
  · exact h e0 he0

theorem lcanon_kerase {c : String → String} {l : List Rec} (h : LCanon c l) (key : String) : LCanon c (kerase key l) := by
  intro e he
  exact h e (List.mem_filter.mp he).1

theorem kgenId_mem {k : KSt} {cands : List String} {id : String} (h : kgenId k cands = some id) : id ∈ cands := by
  unfold kgenId at h
  exact List.mem_of_mem_take (List.mem_of_find?_eq_some h)

theorem kcreateOrAdd_canon {c : String → String} {k : KSt} (hk : RecsCanon c k) (m : Mode) (cands : List String)
    (hm : c m.id = m.id) (hc : ∀ x ∈ cands, c x = x) : RecsCanon c (kcreateOrAdd k m cands).1 := by
  unfold kcreateOrAdd
  split
  · exact hk
  · split
    · exact hk
    · rename_i id hid
      split
      · exact hk
      · refine lcanon_kinsert hk id ?_
        show c id = id
        unfold kchooseId at hid
        split at hid
        · exact hc id (kgenId_mem hid)
        · cases hid; exact hm

theorem kupdateMode_canon {c : String → String} {k : KSt} (hk : RecsCanon c k) (m : Mode) (mask : Option Mask)
    (w : WOpts) (ht : w.Tame) (hm : c m.id = m.id) : RecsCanon c (kupdateMode k m mask w).1 := by
  have hw : ∀ old, c (written old m mask w).id = (written old m mask w).id := by
    intro old; rw [(written_tame old m mask w ht).1]; exact hm
  unfold kupdateMode
  split
  · exact hk
  · split
    · exact hk
    · split
      · exact hk
      · split
        · split
          · exact hk
          · split
            · exact hk
            · split
              · exact hk
              · exact lcanon_kstore hk _ (hw _)
        · split
          · exact hk
          · split
            · exact hk
            · split
              · exact hk
              · exact lcanon_kinsert hk _ (hw _)

theorem kdeleteMode_canon {c : String → String} {k : KSt} (hk : RecsCanon c k) (id : String) (am : Bool) (d : DOpts) :
    RecsCanon c (kdeleteMode k id am d).1 := by
  unfold kdeleteMode kdeleteBody
  split
  · exact hk
  · split
    · exact hk
    · split
      · split <;> exact hk
      · split
        · exact hk
        · split
          · exact hk
          · exact lcanon_kerase hk id

theorem kchangeActive_canon {c : String → String} {k : KSt} (hk : RecsCanon c k) (id : String) (now : Nat) :
    RecsCanon c (kchangeActive k id now).1 := by
  unfold kchangeActive
  split <;> exact hk

theorem kstep_canon {c : String → String} {k : KSt} (hk : RecsCanon c k) (op : Op) (ho : OpCanon c op) (ht : op.Tame) :
    RecsCanon c (kstep k op).1 := by
  cases op with
  | create m cands => simp only [kstep]; split; exact hk; exact kcreateOrAdd_canon hk m cands ho.1 ho.2
  | sCreate m cands => simp only [kstep]; split; exact hk; exact kcreateOrAdd_canon hk m cands ho.1 ho.2
  | add m =>
    simp only [kstep]
    split
    · exact hk
    · have := kcreateOrAdd_canon hk m [] ho (fun x hx => by cases hx)
      split
      · rename_i hr; rw [hr] at this; exact this
      · exact this
  | update m mask w => simp only [kstep]; split; exact hk; exact kupdateMode_canon hk m mask w ht ho
  | sUpdate m mask => simp only [kstep]; split; exact hk; exact kupdateMode_canon hk m mask {} tame_default ho
  | delete id am d => exact kdeleteMode_canon hk id am d
  | sDelete id am =>
    simp only [kstep]
    split
    · exact hk
    · have := kdeleteMode_canon (c := c) hk id am {}
      split
      · rename_i hr; rw [hr] at this; exact this
      · exact this
  | setActive m => simp only [kstep, ksetActive]; split <;> exact hk
  | changeActive id now => exact kchangeActive_canon hk id now
  | sChangeActive id now => simp only [kstep]; split; exact hk; exact kchangeActive_canon hk id now
  | clear now => simp only [kstep, kchangeToNormal]; split; exact hk; exact kchangeActive_canon hk _ now
  | sClear now => simp only [kstep, kchangeToNormal]; split; exact hk; exact kchangeActive_canon hk _ now
  | findMode id => exact hk
  | sCreateNil => exact hk

theorem kcreateOrAdd_active (k : KSt) (m : Mode) (cands : List String) : (kcreateOrAdd k m cands).1.active = k.active := by
  unfold kcreateOrAdd
  split
  · rfl
  · split
    · rfl
    · split <;> rfl

theorem kupdateMode_active (k : KSt) (m : Mode) (mask : Option Mask) (w : WOpts) :
    (kupdateMode k m mask w).1.active = k.active := by
  unfold kupdateMode
  repeat' split
  all_goals rfl

theorem kdeleteMode_active (k : KSt) (id : String) (am : Bool) (d : DOpts) : (kdeleteMode k id am d).1.active = k.active := by
  unfold kdeleteMode kdeleteBody
  repeat' split
  all_goals rfl

theorem kchangeActive_actCanon {c : String → String} {k : KSt} (hk : RecsCanon c k) (ha : ActCanon c k) (id : String)
    (now : Nat) : ActCanon c (kchangeActive k id now).1 := by
  unfold kchangeActive
  cases hf : kfind k id with
  | none => exact ha
  | some m =>
    have hm : c m.id = m.id := hk (id, m) (kfindL_some hf)
    simp only [ActCanon]
    split <;> exact Or.inr hm

/-- canonical operations keep the active mode's id canonical (no tameness needed: the active mode is a copy of a
stored record, or the message of a canonical `SetActiveMode`) -/
theorem kstep_actCanon {c : String → String} {k : KSt} (hk : RecsCanon c k) (ha : ActCanon c k) (op : Op)
    (ho : OpCanon c op) : ActCanon c (kstep k op).1 := by
  have hn : ∀ n, normalMode k.abs = some n → True := fun _ _ => trivial
  cases op with
  | create m cands => simp only [kstep]; split; exact ha; unfold ActCanon; rw [kcreateOrAdd_active]; exact ha
  | sCreate m cands => simp only [kstep]; split; exact ha; unfold ActCanon; rw [kcreateOrAdd_active]; exact ha
  | add m =>
    simp only [kstep]
    split
    · exact ha
    · have := kcreateOrAdd_active k m []
      split
      · rename_i hr; rw [hr] at this; unfold ActCanon; rw [this]; exact ha
      · unfold ActCanon; rw [this]; exact ha
  | update m mask w => simp only [kstep]; split; exact ha; unfold ActCanon; rw [kupdateMode_active]; exact ha
  | sUpdate m mask => simp only [kstep]; split; exact ha; unfold ActCanon; rw [kupdateMode_active]; exact ha
  | delete id am d => simp only [kstep]; unfold ActCanon; rw [kdeleteMode_active]; exact ha
  | sDelete id am =>
    simp only [kstep]
    split
    · exact ha
    · have := kdeleteMode_active k id am {}
      split
      · rename_i hr; rw [hr] at this; unfold ActCanon; rw [this]; exact ha
      · unfold ActCanon; rw [this]; exact ha
  | setActive m =>
    have ho' : c m.id = m.id := ho
    simp only [kstep, ksetActive]
    split
    · exact ha
    · exact Or.inr ho'
  | changeActive id now => exact kchangeActive_actCanon hk ha id now
  | sChangeActive id now => simp only [kstep]; split; exact ha; exact kchangeActive_actCanon hk ha id now
  | clear now => simp only [kstep, kchangeToNormal]; split; exact ha; exact kchangeActive_actCanon hk ha _ now
  | sClear now => simp only [kstep, kchangeToNormal]; split; exact ha; exact kchangeActive_actCanon hk ha _ now
  | findMode id => exact ha
  | sCreateNil => exact ha

/-- whole runs: a canonical tame run behind the interceptor is the run of the keyed model, and ends canonical -/
theorem ikrun_canon (c : String → String) : ∀ (ops : List Op) (k : KSt), RecsCanon c k → ActCanon c k →
    (∀ op ∈ ops, OpCanon c op ∧ op.Tame) →
    ikrun c k ops = krun k ops ∧ RecsCanon c (krun k ops) ∧ ActCanon c (krun k ops) := by
  intro ops
  induction ops with
  | nil => intro k hk ha _; exact ⟨rfl, hk, ha⟩
  | cons op ops ih =>
    intro k hk ha h
    have ho := h op (by simp)
    have hstep := ikstep_canon c k op ho.1 hk ha
    simp only [ikrun, krun, hstep]
    exact ih _ (kstep_canon hk op ho.1 ho.2) (kstep_actCanon hk ha op ho.1) (fun o hm => h o (by simp [hm]))

end ScVerif.C19
