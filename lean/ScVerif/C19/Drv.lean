import ScVerif.Base.Line
import ScVerif.C19.Electric
import ScVerif.C19.Events
import ScVerif.C19.Named
import ScVerif.C19.Keyed
import ScVerif.C19.Icpt
import ScVerif.C19.ActiveW
/-! Driver handler for C19 (stateful: one electric model per driver process, `reset` starts afresh).  The state is
the KEYED model (`Keyed.lean`: records stored under keys); on states where every record carries its key it is the
model of `Electric.lean` (`C19_keyed_refines`), and its events are those of `Events.lean` (`C19_keyed_events`).

```
reset | config <active mode> <mode;mode;…|->      (initial state: NewModel with WithInitialMode / WithInitialActiveMode)
kconfig <active mode> <k<keyhex>=mode;…|->        (WithModeOption(resource.WithInitialRecord(key, mode))…)
iconfig lower <active mode> <k<keyhex>=mode;…|->  (the same plus WithModeOption(resource.WithIDInterceptor(strings.ToLower)):
                                                   the following operations run `ikstep` of Icpt.lean)
find <id>
create <mode> <cands>      add <mode>        update <mode> <mask> [w<createIfAbsent 0|1><expectAbsent 0|1> <expected mode|->
                                                                     [<reset mask> <check name|-> <before name|-> <after name|->]]
delete <id> <0|1> [<expected mode|-> [<check name|->]]
setactive <mode>           change <id> <now> clear <now>
s.create <mode> <cands>    s.update <mode> <mask>   s.delete <id> <0|1>   s.change <id> <now>   s.clear <now>
  mode  = m:<idhex>:<titlehex>:<0|1>:<start|->[:<deschex>:<volts>:<seg,seg|->]        id = i<hex>
  cands = c<hex>,<hex>,…                               mask = nil | p:<id|title|normal|start_time|bogus>,…
answer: <OK[=mode]|err:<Code>|panic> modes=[mode;…] active=<mode> normal=<mode|-> changed=<0|1> events=[A<mode>|U<old>><new>|R<old>;…] active-events=[mode;…]
```
-/
namespace ScVerif.C19
open ScVerif.Line

def hexVal? (c : Char) : Option Nat :=
  if '0' ≤ c ∧ c ≤ '9' then some (c.toNat - '0'.toNat)
  else if 'a' ≤ c ∧ c ≤ 'f' then some (c.toNat - 'a'.toNat + 10)
  else none

def hexBytes? : List Char → Option (List UInt8)
  | [] => some []
  | [_] => none
  | a :: b :: rest => do
    let x ← hexVal? a
    let y ← hexVal? b
    let r ← hexBytes? rest
    pure (UInt8.ofNat (x * 16 + y) :: r)

def unhex? (s : String) : Option String := do
  let bs ← hexBytes? s.toList
  String.fromUTF8? (ByteArray.mk bs.toArray)

def hexDigit (n : Nat) : Char := if n < 10 then Char.ofNat (n + 48) else Char.ofNat (n + 87)

def hex (s : String) : String :=
  String.ofList (s.toUTF8.toList.flatMap fun b => [hexDigit (b.toNat / 16), hexDigit (b.toNat % 16)])

def parseMode? (s : String) : Option Mode :=
  match s.splitOn ":" with
  | ["m", i, t, n, st] => do
    let id ← unhex? i
    let title ← unhex? t
    let normal ← parseBool? n
    let start ← if st = "-" then some none else (parseNat? st).map some
    pure (Mode.mk4 id title normal start)
  | ["m", i, t, n, st, d, v, sg] => do
    let id ← unhex? i
    let title ← unhex? t
    let normal ← parseBool? n
    let start ← if st = "-" then some none else (parseNat? st).map some
    let desc ← unhex? d
    let volt ← parseNat? v
    let segs ← if sg = "-" then some [] else (sg.splitOn ",").mapM parseNat?
    pure { id := id, title := title, normal := normal, start := start, description := desc, voltage := volt, segments := segs }
  | _ => none

def showMode (m : Mode) : String :=
  let segs := if m.segments.isEmpty then "-" else ",".intercalate (m.segments.map toString)
  s!"m:{hex m.id}:{hex m.title}:{if m.normal then "1" else "0"}:{match m.start with | none => "-" | some t => toString t}:{hex m.description}:{m.voltage}:{segs}"

def showEvent : ModeEvent → String
  | .add n => "A" ++ showMode n
  | .update o n => "U" ++ showMode o ++ ">" ++ showMode n
  | .remove o => "R" ++ showMode o

def parseId? (s : String) : Option String :=
  if s.startsWith "i" then unhex? (s.drop 1).toString else none

def parseCands? (s : String) : Option (List String) :=
  if s = "c" then some []
  else if s.startsWith "c" then ((s.drop 1).toString.splitOn ",").mapM unhex? else none

def parseField? (s : String) : Option (Option Field) :=
  if s = "id" then some (some .id)
  else if s = "title" then some (some .title)
  else if s = "normal" then some (some .normal)
  else if s = "start_time" then some (some .start)
  else if s = "description" then some (some .description)
  else if s = "voltage" then some (some .voltage)
  else if s = "segments" then some (some .segments)
  else if s = "bogus" then some none
  else none

def parseMask? (s : String) : Option (Option Mask) :=
  if s = "nil" then some none
  else if s = "p:" then some (some ⟨[], false⟩)
  else if s.startsWith "p:" then do
    let fs ← ((s.drop 2).toString.splitOn ",").mapM parseField?
    pure (some ⟨fs.filterMap id, fs.any Option.isNone⟩)
  else none

/-- `WithExpectedValue`: `-` (not given) or a mode -/
def parseExpected? (s : String) : Option (Option Mode) :=
  if s = "-" then some none else (parseMode? s).map some

/-- Model-level write options: `w<createIfAbsent><expectAbsent>` and the expected value -/
def parseWOpts? (w e : String) : Option WOpts :=
  match w.toList with
  | ['w', c, a] => do
    let c ← parseBool? (String.singleton c)
    let a ← parseBool? (String.singleton a)
    let e ← parseExpected? e
    pure { createIfAbsent := c, expectAbsent := a, expected := e }
  | _ => none

/-- an optional named callback: `-` = not given -/
def parseNamed? {α : Type} (table : String → Option α) (s : String) : Option (Option α) :=
  if s = "-" then some none else (table s).map some

def parseOp? : List String → Option Op
  | ["create", m, c] => do pure (.create (← parseMode? m) (← parseCands? c))
  | ["add", m] => do pure (.add (← parseMode? m))
  | ["update", m, k] => do pure (.update (← parseMode? m) (← parseMask? k) {})
  | ["update", m, k, w, e] => do pure (.update (← parseMode? m) (← parseMask? k) (← parseWOpts? w e))
  | ["update", m, k, w, e, r, c, b, a] => do
    let w ← parseWOpts? w e
    pure (.update (← parseMode? m) (← parseMask? k)
      { w with reset := (← parseMask? r), check := (← parseNamed? namedCheck? c),
               before := (← parseNamed? namedIcpt? b), after := (← parseNamed? namedIcpt? a) })
  | ["delete", i, a] => do pure (.delete (← parseId? i) (← parseBool? a) {})
  | ["delete", i, a, e] => do pure (.delete (← parseId? i) (← parseBool? a) { expected := (← parseExpected? e) })
  | ["delete", i, a, e, c] => do
    pure (.delete (← parseId? i) (← parseBool? a) { expected := (← parseExpected? e), check := (← parseNamed? namedCheck? c) })
  | ["setactive", m] => do pure (.setActive (← parseMode? m))
  | ["change", i, t] => do pure (.changeActive (← parseId? i) (← parseNat? t))
  | ["clear", t] => do pure (.clear (← parseNat? t))
  | ["find", i] => do pure (.findMode (← parseId? i))
  | ["s.create", "nil", c] => do let _ ← parseCands? c; pure .sCreateNil
  | ["s.create", m, c] => do pure (.sCreate (← parseMode? m) (← parseCands? c))
  | ["s.update", m, k] => do pure (.sUpdate (← parseMode? m) (← parseMask? k))
  | ["s.delete", i, a] => do pure (.sDelete (← parseId? i) (← parseBool? a))
  | ["s.change", i, t] => do pure (.sChangeActive (← parseId? i) (← parseNat? t))
  | ["s.clear", t] => do pure (.sClear (← parseNat? t))
  | _ => none

def showRes : Res → String
  | .ok none => "OK"
  | .ok (some m) => "OK=" ++ showMode m
  | .err c => "err:" ++ c.name
  | .panic => "panic"

def showSt (s : St) : String :=
  s!"modes=[{";".intercalate (s.modes.map showMode)}] active={showMode s.active} normal={match normalMode s with | none => "-" | some m => showMode m} changed={if s.changed then "1" else "0"}"

/-- `k<keyhex>=<mode>` -/
def parseRec? (s : String) : Option Rec :=
  match s.splitOn "=" with
  | [k, m] => do
    if !k.startsWith "k" then none
    let key ← unhex? (k.drop 1).toString
    let m ← parseMode? m
    pure (key, m)
  | _ => none

def KSt.init : KSt := KSt.ofSt St.init

def handleS (k : KSt) (toks : List String) : KSt × String :=
  match toks with
  | ["reset"] => (KSt.init, "ok")
  | ["config", a, ms] =>
    -- NewModel(WithInitialMode(ms…), WithInitialActiveMode(a))
    match parseMode? a, (if ms = "-" then some [] else (ms.splitOn ";").mapM parseMode?) with
    | some a, some ms =>
      match St.config? ms a with
      | some s0 => (KSt.ofSt s0, "ok " ++ showSt s0)
      | none => (KSt.init, "panic")
    | _, _ => (k, "!bad-op")
  | ["kconfig", a, rs] =>
    -- NewModel(WithModeOption(resource.WithInitialRecord(key, mode))…, WithInitialActiveMode(a))
    match parseMode? a, (if rs = "-" then some [] else (rs.splitOn ";").mapM parseRec?) with
    | some a, some rs =>
      match KSt.config? rs a with
      | some k0 => (k0, "ok " ++ showSt k0.abs)
      | none => (KSt.init, "panic")
    | _, _ => (k, "!bad-op")
  | _ =>
    match parseOp? toks with
    | some op =>
      let (k', r) := kstep k op
      -- the events of the keyed model; on states where every record carries its key they are `modeEvents` /
      -- `activeEvents` of Events.lean (`C19_keyed_events`)
      let evs := s!" events=[{";".intercalate ((kmodeEvents k op).map showEvent)}] active-events=[{";".intercalate ((kactiveEvents k op).map showMode)}]"
      (k', showRes r ++ " " ++ showSt k'.abs ++ evs)
    | none => (k, "!bad-op")

/-- the driver's state: the keyed model, whether the mode collection was configured with a lower-casing id
interceptor (`iconfig lower`), and the writable fields of the active mode resource (`awconfig`); without either the
operations run `kstep` (= `ikstep` with the identity, `C19_icpt_identity`; = `wstep none`, `C19_activew_none`) -/
structure DSt where
  lower : Bool
  k : KSt
  aw : Option (List Field) := none
  /-- `iconfig ns`: the interceptor is the idempotent prefix `ns/` instead of lower-casing -/
  ns : Bool := false

def DSt.init : DSt := ⟨false, KSt.init, none, false⟩

/-- `strings.ToLower` on the ids the harness uses (ASCII) -/
def lowerId (s : String) : String := s.toLower

/-- an idempotent namespace prefix: it maps the empty id to the key `ns/` -/
def nsId (s : String) : String := if s.startsWith "ns/" then s else "ns/" ++ s

def handleD (d : DSt) (toks : List String) : DSt × String :=
  match toks with
  | ["iconfig", name, a, rs] =>
    match parseMode? a, (if rs = "-" then some [] else (rs.splitOn ";").mapM parseRec?) with
    | some a, some rs =>
      if name != "lower" && name != "ns" then (d, "!bad-op") else
      match KSt.iconfig? (if name = "ns" then nsId else lowerId) rs a with
      | some k0 => (⟨true, k0, none, name = "ns"⟩, "ok " ++ showSt k0.abs)
      | none => (DSt.init, "panic")
    | _, _ => (d, "!bad-op")
  | ["awconfig", w, a, ms] =>
    -- NewModel(WithActiveModeOption(resource.WithWritablePaths(&ElectricMode{}, w…)), WithInitialMode(ms…),
    --          WithInitialActiveMode(a))
    match parseMask? w, parseMode? a, (if ms = "-" then some [] else (ms.splitOn ";").mapM parseMode?) with
    | some (some mask), some a, some ms =>
      match St.config? ms a with
      | some s0 => (⟨false, KSt.ofSt s0, some mask.paths, false⟩, "ok " ++ showSt s0)
      | none => (DSt.init, "panic")
    | _, _, _ => (d, "!bad-op")
  | _ =>
    let fresh := match toks with
      | ["reset"] => true
      | "config" :: _ => true
      | "kconfig" :: _ => true
      | _ => false
    if fresh || (!d.lower && d.aw.isNone) then
      let (k', s) := handleS d.k toks
      if s = "!bad-op" then (d, s) else (⟨d.lower && !fresh, k', if fresh then none else d.aw, d.ns && !fresh⟩, s)
    else if d.lower then
      match parseOp? toks with
      | some op =>
        let c := if d.ns then nsId else lowerId
        let (k', r) := ikstep c d.k op
        let evs := s!" events=[{";".intercalate ((ikmodeEvents c d.k op).map showEvent)}] active-events=[{";".intercalate ((ikactiveEvents c d.k op).map showMode)}]"
        (⟨true, k', none, d.ns⟩, showRes r ++ " " ++ showSt k'.abs ++ evs)
      | none => (d, "!bad-op")
    else
      match parseOp? toks with
      | some op =>
        let (k', r) := wstep d.aw d.k op
        let evs := s!" events=[{";".intercalate ((kmodeEvents d.k op).map showEvent)}] active-events=[{";".intercalate ((wactiveEvents d.aw d.k op).map showMode)}]"
        (⟨false, k', d.aw, false⟩, showRes r ++ " " ++ showSt k'.abs ++ evs)
      | none => (d, "!bad-op")

end ScVerif.C19
