import ScVerif.Base.Line
/-! Driver handler for C19 (stub: replaced by the property's owner). -/
namespace ScVerif.C19

def handle (_toks : List String) : String := "!bad-op"

end ScVerif.C19
