import ScVerif.C19.Conc
import ScVerif.C19.Events
/-!
# C19 — The electric model keeps its documented mode invariants

Property (fixed text): after any sequence or concurrent mix of create, add, update, delete, set-active,
change-active and clear-active operations, at most one mode is marked normal, the active mode is never
deleted, and once changed the active mode always refers to a mode that exists; clearing the active mode
selects the normal mode, and switching to a different mode stamps its start time with the model clock's
current time.  Deleting an absent mode reports NotFound unless allow-missing is set, in which case it
succeeds.

The theorems are about `step` / `run` of `Electric.lean` (the model of `electricpb.Model` and of the
ElectricApi / MemorySettingsApi servers after the fixes 6953a94, 7f1dc6a and 2b5cf2c, tied to /repo by the
harness on every run) and about the interleaving semantics of `Conc.lean`.  `Op` contains the Model API
operations (with their write options: upsert, expect-absent, expected value, reset mask, and the caller's own
check / before / after callbacks as ARBITRARY functions) and the server RPCs, so "ALL op sequences" mixes both
levels freely.  The hypothesis `op.Tame` (Lemmas.lean) is about the caller-supplied code and reset mask of a
`Model.UpdateMode`: it is `True` for every other operation and for every UpdateMode without interceptors and
reset mask (`C19_options_plain`); `PropsOpts.lean` shows it is needed (`C19_options_fails`).  `PropsMore.lean` has the theorems about the clock under concurrency,
rejected operations, upserts and checked configurations.
-/
namespace ScVerif.C19

/-- **C19_inv.** After ANY operation sequence from a model configured with ANY initial modes
(`WithInitialMode`) and ANY placeholder active mode (`WithInitialActiveMode`) — `NewModel()` is
`modes = []`, `active = Mode.blank` — provided the configuration is `InitOk` (distinct ids, at most one normal
mode: the code does not check its options):
I1 at most one mode is normal (count form and "any two normal modes are equal");
I3 once the active mode was changed it refers to a stored mode; before that it is the placeholder;
mode ids stay unique.  (I2 is `C19_I2_*` below: a delete of the active id is refused, so with I3 the
active mode is never deleted.) -/
theorem C19_inv (modes : List Mode) (active : Mode) (hcfg : InitOk modes) (ops : List Op)
    (ht : ∀ op ∈ ops, op.Tame) :
    let s := run (St.config modes active) ops
    (s.modes.filter (·.normal)).length ≤ 1 ∧
    (∀ x ∈ s.modes, ∀ y ∈ s.modes, x.normal = true → y.normal = true → x = y) ∧
    (s.changed = true → ∃ x ∈ s.modes, x.id = s.active.id) ∧
    (s.changed = false → s.active = active) ∧
    (s.modes.map (·.id)).Nodup := by
  have hi := run_inv (inv_config modes active hcfg) ops ht
  exact ⟨normal_count_le_one hi, hi.i1, hi.i3, hi.blank, hi.nodup⟩

/-- `NewModel()` without options is the configuration `[]`, `Mode.blank`, which is `InitOk`. -/
theorem C19_inv_default (ops : List Op) (ht : ∀ op ∈ ops, op.Tame) : Inv Mode.blank (run St.init ops) :=
  run_inv inv_init ops ht

/-- **C19_inv, step form**: the invariant is inductive — every operation preserves it from ANY state that
satisfies it (not only from the initial one). -/
theorem C19_inv_step (p : Mode) (s : St) (hi : Inv p s) (op : Op) (ht : op.Tame) : Inv p (step s op).1 :=
  step_inv hi op ht

/-- **I2 (Model API).** Deleting the active id is refused with FailedPrecondition and changes nothing,
with or without allow-missing, in every state. -/
theorem C19_I2_delete_active_refused (s : St) (am : Bool) (ex : DOpts) :
    step s (.delete s.active.id am ex) = (s, .err .failedPrecondition) := by
  simp [step, deleteMode]

/-- **I2 (server).** The DeleteMode RPC never removes the active mode: it answers FailedPrecondition, or
InvalidArgument for the empty id, and the state is unchanged. -/
theorem C19_I2_server_delete_active_refused (s : St) (am : Bool) :
    step s (.sDelete s.active.id am) =
      (s, .err (if s.active.id = "" then .invalidArgument else .failedPrecondition)) := by
  by_cases h : s.active.id = "" <;> simp [step, deleteMode, h]

/-- **I2, trace form.** In any reachable state (any state satisfying the invariant), a delete step that succeeds did not name the active mode, and after
any operation of any run the active mode (once changed) is still stored. -/
theorem C19_I2_never_deleted (p : Mode) (s : St) (hi : Inv p s) (id : String) (am : Bool) (ex : DOpts) :
    (∀ r, (step s (.delete id am ex)).2 = .ok r → id ≠ s.active.id) ∧
    (∀ r, (step s (.sDelete id am)).2 = .ok r → id ≠ s.active.id) ∧
    ((step s (.delete id am ex)).1.changed = true →
      ∃ x ∈ (step s (.delete id am ex)).1.modes, x.id = (step s (.delete id am ex)).1.active.id) := by
  refine ⟨?_, ?_, ?_⟩
  · intro r h e
    subst e
    rw [C19_I2_delete_active_refused] at h
    cases h
  · intro r h e
    subst e
    rw [C19_I2_server_delete_active_refused] at h
    cases h
  · exact (step_inv hi (.delete id am ex) True.intro).i3

/-- What `changeActiveMode` stores: the looked-up mode, stamped with the clock's current time when its
id differs from the active id. -/
def stamped (s : St) (m : Mode) (now : Nat) : Mode :=
  if s.active.id ≠ m.id then { m with start := some now } else m

/-- **C19_clear.** ClearActiveMode (= ChangeToNormalMode): without a normal mode it answers NotFound and
changes nothing; with a normal mode `n` (unique by I1) it makes exactly `n` the active mode (stamped when
the id differs), returns it, and leaves the modes alone.  For every state satisfying the invariant,
i.e. every reachable state (`C19_inv_step`). -/
theorem C19_clear (p : Mode) (s : St) (hi : Inv p s) (now : Nat) :
    (step s (.sClear now) = step s (.clear now)) ∧
    ((∀ x ∈ s.modes, x.normal = false) → step s (.clear now) = (s, .err .notFound)) ∧
    (∀ n ∈ s.modes, n.normal = true →
      step s (.clear now) =
        ({ s with active := stamped s n now, changed := true }, .ok (some (stamped s n now)))) := by
  refine ⟨rfl, ?_, ?_⟩
  · intro h
    have : normalMode s = none := by
      unfold normalMode
      exact List.find?_eq_none.mpr (fun x hx => by simp [h x hx])
    simp [step, changeToNormal, this]
  · intro n hn hnn
    simp only [step, changeToNormal, normalMode_of_mem hi hn hnn, changeActive, find_of_mem hi hn, stamped]

/-- **C19_stamp.** ChangeActiveMode / UpdateActiveMode to a stored mode `m`: the active mode becomes `m`
with `start_time := now` when `m.id` differs from the active id; with the same id the stored mode is
taken as it is (no stamp).  An unknown id is NotFound and changes nothing.  In every state. -/
theorem C19_stamp (s : St) (id : String) (now : Nat) :
    (∀ m, find s id = some m →
      step s (.changeActive id now) =
        ({ s with active := stamped s m now, changed := true }, .ok (some (stamped s m now))) ∧
      (s.active.id ≠ id → (step s (.changeActive id now)).1.active.start = some now ∧
        (step s (.changeActive id now)).1.active.id = id)) ∧
    (find s id = none → step s (.changeActive id now) = (s, .err .notFound)) ∧
    (id ≠ "" → step s (.sChangeActive id now) = step s (.changeActive id now)) ∧
    (step s (.sChangeActive "" now) = (s, .err .invalidArgument)) := by
  refine ⟨?_, ?_, ?_, ?_⟩
  · intro m hm
    obtain ⟨_, hid⟩ := find_some hm
    refine ⟨by simp only [step, changeActive, hm, stamped], ?_⟩
    intro hne
    simp [step, changeActive, hm, hid, hne]
  · intro h; simp [step, changeActive, h]
  · intro h; simp [step, h]
  · simp [step]

/-- **C19_delete.** Deleting an absent mode reports NotFound, unless allow-missing is set, in which case it
succeeds; nothing changes either way.  Model API and DeleteMode RPC; every state satisfying the invariant.
The id must not be the id of the configured placeholder active mode `p` (for `NewModel()`: not "", which
the RPC rejects anyway): while that placeholder is still active, the code answers FailedPrecondition for it
(`C19_I2_delete_active_refused`) although no such mode is stored. -/
theorem C19_delete (p : Mode) (s : St) (hi : Inv p s) (id : String) (hp : id ≠ p.id) (hid : id ≠ "")
    (habs : find s id = none) (am : Bool) (ex : DOpts) :
    step s (.delete id am ex) = (s, if am then .ok none else .err .notFound) ∧
    step s (.sDelete id am) = (s, if am then .ok none else .err .notFound) := by
  have hact : id ≠ s.active.id := by
    intro e
    cases hc : s.changed with
    | true =>
      obtain ⟨x, hx, hxa⟩ := hi.i3 hc
      exact find_none habs x hx (by rw [hxa, e])
    | false =>
      have := hi.blank hc
      rw [this] at e
      exact hp e
  cases am <;> simp [step, deleteMode, hact, habs, hid]

/-- **C19_placeholder.** The placeholder never counts as a mode: while nothing was changed, SetActiveMode
and ChangeActiveMode with an id that is not stored — in particular the placeholder's own id — answer
NotFound and change nothing; a successful one makes a STORED mode active. -/
theorem C19_placeholder (s : St) (m : Mode) (now : Nat) :
    (find s m.id = none → step s (.setActive m) = (s, .err .notFound) ∧
      step s (.changeActive m.id now) = (s, .err .notFound)) ∧
    (∀ r, (step s (.setActive m)).2 = .ok r → ∃ x ∈ s.modes, x.id = (step s (.setActive m)).1.active.id) := by
  refine ⟨?_, ?_⟩
  · intro h; simp [step, setActive, changeActive, h]
  · intro r hr
    cases hf : find s m.id with
    | none => simp [step, setActive, hf] at hr
    | some x =>
      obtain ⟨hx, hid⟩ := find_some hf
      exact ⟨x, hx, by simp [step, setActive, hf, hid]⟩

/-- **C19_mutex_serialises.** Any number of threads, each running any list of operations, under ANY
schedule of their lock / read / write / unlock steps: at most one thread is inside a mutator, the shared
state is the result of running SOME sequential operation sequence, and therefore satisfies the
invariants at every point of the execution (not only at quiescence).  From any initial state `s0`
satisfying the invariant (any `InitOk` configuration). -/
theorem C19_mutex_serialises (p : Mode) (s0 : St) (h0 : Inv p s0) (progs : Nat → List Op) (sched : List Nat) :
    let c := crun (cinit s0 progs) sched
    (∀ t u, (c.thr t).phase ≠ .idle → (c.thr u).phase ≠ .idle → t = u) ∧
    (∃ ops, c.st = run s0 ops ∧ ∀ op ∈ ops, ∃ t, op ∈ progs t) ∧
    ((∀ t, ∀ op ∈ progs t, op.Tame) →
      Inv p c.st ∧ (c.st.modes.filter (·.normal)).length ≤ 1) := by
  have hc := crun_inv (cinv_init (fun op => ∃ t, op ∈ progs t) s0 progs (fun t op h => ⟨t, h⟩)) sched
  obtain ⟨ops, hops, hfrom⟩ := hc.serial
  refine ⟨?_, ⟨ops, hops, hfrom⟩, ?_⟩
  · intro t u ht hu
    have h1 := hc.excl t ht
    have h2 := hc.excl u hu
    rw [h1] at h2
    exact Option.some.inj h2
  · intro htame
    have hinv : Inv p (crun (cinit s0 progs) sched).st := by
      rw [hops]
      exact run_inv h0 ops (fun op ho => by obtain ⟨t, ht⟩ := hfrom op ho; exact htame t op ht)
    exact ⟨hinv, normal_count_le_one hinv⟩

/-- **C19_pull_modes.** The invariants as a PullModes subscriber sees them: fold the ADD / UPDATE / REMOVE
events of ANY run (from any `InitOk` configuration, seeded with the initial modes) into a view; after EVERY
event — not only at the end — the view has at most one normal mode and unique ids, every operation
publishes at most one event, and after all events the view is the model's mode list. -/
theorem C19_pull_modes (modes : List Mode) (active : Mode) (hcfg : InitOk modes) (ops : List Op)
    (ht : ∀ op ∈ ops, op.Tame) :
    let s0 := St.config modes active
    (∀ k, let view := ((runEvents s0 ops).take k).foldl applyEvent s0.modes
      (view.filter (·.normal)).length ≤ 1 ∧ (view.map (·.id)).Nodup) ∧
    (runEvents s0 ops).foldl applyEvent s0.modes = (run s0 ops).modes ∧
    (∀ s, Inv active s → ∀ op, op.Tame → (modeEvents s op).length ≤ 1) := by
  have h0 := inv_config modes active hcfg
  refine ⟨?_, view_full _ h0 ops ht, fun s hs op hop => (modeEvents_view s hs op hop).2⟩
  intro k
  obtain ⟨s', hi', hv⟩ := view_prefix _ h0 ops ht k
  simp only [hv]
  exact ⟨normal_count_le_one hi', hi'.nodup⟩

/-- **C19_pull_active.** A PullActiveMode subscriber: an operation publishes at most one value, only when it
succeeded in setting the active mode (and the value is new), and that value is the model's active mode afterwards (so, once an
event was seen, the subscriber's latest value names a stored mode — I3). -/
theorem C19_pull_active (p : Mode) (s : St) (hi : Inv p s) (op : Op) (ht : op.Tame) :
    (activeEvents s op).length ≤ 1 ∧
    (∀ m ∈ activeEvents s op, m = (step s op).1.active ∧ (step s op).1.changed = true ∧
      ∃ x ∈ (step s op).1.modes, x.id = m.id) := by
  have hi' := step_inv hi op ht
  unfold activeEvents
  by_cases h : setsActive op = true ∧ (step s op).2.isOk = true ∧
      (s.changed = false ∨ (step s op).1.active ≠ s.active)
  · simp only [h, if_true, List.length_singleton, Nat.le_refl, List.mem_singleton, true_and]
    intro m hm
    have hc := setsActive_changed s op h.1 h.2.1
    exact ⟨hm, hc, by rw [hm]; exact hi'.i3 hc⟩
  · simp [h]

/-! ## Non-vacuity and the repaired defects -/

def mA : Mode := (Mode.mk4 "a" "ta" true (none))
def mB : Mode := (Mode.mk4 "b" "tb" false (none))

/-- A reachable state with a normal mode, a second mode and a changed active mode satisfies `Inv`
(hypothesis of C19_clear / C19_delete), and the theorems' premises are inhabited there. -/
example : Inv Mode.blank (run St.init [.add mA, .add mB, .changeActive "b" 7]) :=
  run_inv inv_init _ (by
    intro op h
    simp only [List.mem_cons, List.mem_nil_iff, or_false] at h
    rcases h with rfl | rfl | rfl <;> exact True.intro)
/-- a configured model: two initial modes (one normal) and a placeholder whose id is not a mode -/
example : InitOk [mB, mA] ∧ (St.config [mB, mA] (Mode.mk4 "boot" "" false (none))).modes = [mA, mB] := by
  refine ⟨⟨by decide, ?_⟩, by decide⟩
  intro x hx y hy hxn hyn
  simp only [List.mem_cons, List.mem_nil_iff, or_false] at hx hy
  rcases hx with rfl | rfl <;> rcases hy with rfl | rfl <;> first | rfl | (simp [mA, mB, Mode.mk4] at hxn hyn)
/-- … on which setting the placeholder's own id active is refused, and deleting it is FailedPrecondition -/
example : (step (St.config [mB, mA] (Mode.mk4 "boot" "" false (none))) (.setActive (Mode.mk4 "boot" "x" false (none)))).2 = .err .notFound ∧
    (step (St.config [mB, mA] (Mode.mk4 "boot" "" false (none))) (.delete "boot" true {})).2 = .err .failedPrecondition ∧
    (step St.init (.setActive (Mode.mk4 "" "x" false (none)))).2 = .err .notFound := by decide
/-- `InitOk` is needed: the code accepts a configuration with two normal modes -/
example : ((St.config [mA, { mB with normal := true }] Mode.blank).modes.filter (·.normal)).length = 2 := by decide
example : (run St.init [.add mA, .add mB, .changeActive "b" 7]).active = (Mode.mk4 "b" "tb" false (some 7)) := by decide
example : find (run St.init [.add mA, .add mB]) "c" = none ∧ mA ∈ (run St.init [.add mA, .add mB]).modes := by decide
/-- the fixed code refuses the second normal mode … -/
example : (step (run St.init [.add mA, .add mB]) (.update { mB with normal := true } none {})).2 = .err .alreadyExists := by
  decide
/-- … which the code before 7f1dc6a accepted (two normal modes: I1 broken) … -/
example : ((updateModeUnfixed (run St.init [.add mA, .add mB]) { mB with normal := true } none).1.modes.filter (·.normal)).length = 2 := by
  decide
/-- … and before 6953a94 allow-missing did not help. -/
example : (deleteModeUnfixed St.init "c" true).2 = .err .notFound := by decide
example : (step St.init (.delete "c" true {})).2 = .ok none := by decide
/-- A schedule in which thread 1 tries to enter while thread 0 is between its read and its write. -/
example : (crun (cinit St.init fun i => if i = 0 then [.add mA] else if i = 1 then [.add { mB with normal := true }] else [])
    [0, 0, 1, 1, 0, 1, 0, 1, 1, 1, 1]).st.modes.map (·.id) = ["a"] := by decide

end ScVerif.C19
