import ScVerif.C18.PropsMode
/-!
# C18 — property theorems, part 11: the `outside` flag of `Cut` and `modepb.Cut`

"`outside` indicates whether `t` is outside the bounds of mode" (cut.go).  In terms of the step function: the flag
is raised exactly when the cut point is not the start and no segment is active there (a cut AT the start is
never flagged, whatever the list; a mode without segments is always flagged).  Together with `C18_cut` /
`C18_modes_cut` this says everything `Cut` returns in the vocabulary of the step function.  No hypothesis.

Only property theorems and their non-vacuity examples live in this file.
-/
namespace ScVerif.C18

/-- `Cut(d, segment)` flags `outside` iff `d ≠ 0` and the segment is not active at `d`. -/
theorem C18_cut_outside (d : Int) (s : Seg) :
    (cutSeg d s).outside = true ↔ (d ≠ 0 ∧ covered [s] d = false) := by
  unfold cutSeg
  by_cases hd : d ≤ 0
  · simp only [hd, if_true, decide_eq_true_eq]
    by_cases h0 : d = 0
    · subst h0; simp
    · have hneg : d < 0 := by omega
      simp [hneg, h0, covered_neg _ _ hneg]
  · have hd0 : 0 ≤ d := by omega
    have hne : d ≠ 0 := by omega
    simp only [hd, if_false]
    cases hs : s.len with
    | none => simp [covered_cons_none s [] d hs hd0]
    | some l =>
      rw [covered_cons_some s [] d l hs hd0]
      by_cases hl : l ≤ d
      · have : ¬ d < l := by omega
        simp [hl, this, hne, covered]
      · have : d < l := by omega
        simp [hl, this]

/-- `modepb.Cut(t, mode)` flags `outside` iff the mode has no segments, or `t` is not the mode's start and no
segment is active at `t` (a mode without start time starts at `t`, so it is never flagged unless empty). -/
theorem C18_modes_cut_outside (t : Int) (m : Mode) :
    (modeCut t m).outside = true ↔
      (m.segs = [] ∨ (t ≠ tOrST t m ∧ covered m.segs (t - tOrST t m) = false)) := by
  unfold modeCut
  by_cases h0 : m.segs.length = 0
  · have hnil : m.segs = [] := List.length_eq_zero_iff.mp h0
    simp [hnil]
  · have hne : m.segs ≠ [] := fun e => h0 (by rw [e]; rfl)
    simp only [h0, if_false]
    by_cases hgt : t > tOrST t m
    · have hgt' : ¬¬ (t > tOrST t m) := fun h => h hgt
      simp only [hgt', if_false]
      have hd : 0 ≤ t - tOrST t m := by omega
      obtain ⟨_, _, _, hcov, _, _⟩ := (C18_activeAt (t - tOrST t m) m.segs).2 hd
      have htne : t ≠ tOrST t m := by omega
      by_cases hend : (activeAt (t - tOrST t m) m.segs).2 = m.segs.length
      · simp only [hend, if_true, true_iff]
        refine Or.inr ⟨htne, ?_⟩
        cases hc : covered m.segs (t - tOrST t m) with
        | false => rfl
        | true => have := hcov.1 hc; omega
      · simp only [hend, if_false]
        have hlt : (activeAt (t - tOrST t m) m.segs).2 < m.segs.length := by
          have := ((C18_activeAt (t - tOrST t m) m.segs).2 hd).2.2.1
          omega
        have hc : covered m.segs (t - tOrST t m) = true := hcov.2 hlt
        cases hs : m.segs[(activeAt (t - tOrST t m) m.segs).2]? with
        | none => rw [List.getElem?_eq_none_iff] at hs; omega
        | some s => simp [hne, hc]
    · simp only [hgt, not_false_eq_true, if_true, decide_eq_true_eq]
      constructor
      · intro hlt
        exact Or.inr ⟨by omega, covered_neg _ _ (by omega)⟩
      · rintro (h | ⟨hne', _⟩)
        · exact absurd h hne
        · omega

/-! Non-vacuity: the flag on concrete cuts — at the start, inside, at the end, past the end, before the start. -/
example : (cutSeg 0 ⟨5, some 0⟩).outside = false ∧ (cutSeg 3 ⟨5, some 3⟩).outside = true ∧
    (cutSeg 2 ⟨5, some 3⟩).outside = false ∧ (cutSeg (-1) ⟨5, none⟩).outside = true ∧ (cutSeg 9 ⟨5, none⟩).outside = false := by
  decide
example : (modeCut 2 ⟨some 2, [⟨5, some 0⟩]⟩).outside = false ∧ (modeCut 5 ⟨some 2, [⟨5, some 3⟩]⟩).outside = true ∧
    (modeCut 1 ⟨some 2, [⟨5, some 3⟩]⟩).outside = true ∧ (modeCut 4 ⟨some 2, [⟨5, some 3⟩]⟩).outside = false ∧
    (modeCut 4 ⟨none, []⟩).outside = true ∧ (modeCut 4 ⟨none, [⟨1, some 1⟩]⟩).outside = false := by
  decide

end ScVerif.C18
