import ScVerif.C18.F32
import ScVerif.C18.SumLemmas
/-! Lemmas about the float32 rendering of `Sum`/`SumMagnitude`: below 2^24 nothing is rounded. -/
namespace ScVerif.C18

theorem rnd24_small (n : Int) (h : n.natAbs < 16777216) : rnd24 n = n := by
  unfold rnd24
  have hb : bitLen n.natAbs ≤ 24 := by
    unfold bitLen
    by_cases h0 : n.natAbs = 0
    · simp [h0]
    · simp only [h0, if_false]
      have : n.natAbs.log2 < 24 := (Nat.log2_lt h0).mpr (by simpa using h)
      omega
  simp only [hb, if_true]

theorem addF_small (a b : Int) (h : (a.natAbs : Int) + (b.natAbs : Int) < 16777216) : addF a b = a + b := by
  unfold addF
  exact rnd24_small _ (by omega)

theorem absSum_nonneg (es : List Edge) : 0 ≤ absSum es := by
  induction es with
  | nil => simp [absSum]
  | cons e es ih => simp only [absSum]; omega

theorem absSum_perm {a b : List Edge} (h : a.Perm b) : absSum a = absSum b := by
  induction h with
  | nil => rfl
  | cons x _ ih => simp only [absSum, ih]
  | swap x y l => simp only [absSum]; omega
  | trans _ _ ih1 ih2 => rw [ih1, ih2]

theorem absSum_append (a b : List Edge) : absSum (a ++ b) = absSum a + absSum b := by
  induction a with
  | nil => simp [absSum]
  | cons e a ih => simp only [List.cons_append, absSum, ih]; omega

theorem emitF_eq (drop : Int → Bool) (es : List Edge) (mag lt : Int)
    (h : (mag.natAbs : Int) + absSum es < 16777216) : emitF drop mag lt es = emit drop mag lt es := by
  induction es generalizing mag lt with
  | nil => rfl
  | cons e es ih =>
    simp only [absSum] at h
    have hp := absSum_nonneg es
    have hadd : addF mag e.delta = mag + e.delta := addF_small _ _ (by omega)
    have hnext : (((mag + e.delta).natAbs : Nat) : Int) + absSum es < 16777216 := by omega
    simp only [emitF, emit, hadd]
    rw [ih (mag + e.delta) lt hnext, ih (mag + e.delta) e.time hnext]

theorem sumEdgesF_eq (drop : Int → Bool) (es : List Edge) (h : absSum es < 16777216) :
    sumEdgesF drop es = sumEdges drop es := by
  cases es with
  | nil => rfl
  | cons e es => exact emitF_eq drop (e :: es) 0 0 (by simpa using h)

theorem absSum_edgesOf_le (l : List Seg) (cur : Int) : absSum (edgesOf cur l) ≤ 2 * magAbs l := by
  induction l generalizing cur with
  | nil => simp [edgesOf, absSum, magAbs]
  | cons s rest ih =>
    have hr := ih
    cases hs : s.len with
    | none =>
      have hm := absSum_nonneg ([] : List Edge)
      simp only [edgesOf, hs, magAbs]
      have hrest : 0 ≤ magAbs rest := by
        have := absSum_nonneg (edgesOf 0 rest); have := ih 0; omega
      split
      · simp only [absSum]; omega
      · simp only [absSum]; omega
    | some len =>
      simp only [edgesOf, hs, magAbs, absSum_append]
      have := ih (cur + len)
      split
      · simp only [absSum, Int.natAbs_neg]; omega
      · simp only [absSum]; omega

theorem absSum_rawEdges_le (ls : List (List Seg)) : absSum (rawEdges ls) ≤ 2 * magAbsAll ls := by
  induction ls with
  | nil => simp [rawEdges, absSum, magAbsAll]
  | cons l ls ih =>
    simp only [rawEdges, absSum_append, magAbsAll]
    have := absSum_edgesOf_le l 0
    omega

theorem sumF_eq (ls : List (List Seg)) (h : 2 * magAbsAll ls < 16777216) : sumF ls = sum ls := by
  unfold sumF sum
  apply sumEdgesF_eq
  unfold calcCuts
  rw [absSum_perm (sortEdges_perm (rawEdges ls))]
  have := absSum_rawEdges_le ls
  omega

theorem magAbs_nonneg (l : List Seg) : 0 ≤ magAbs l := by
  induction l with
  | nil => simp [magAbs]
  | cons s r ih => simp only [magAbs]; omega

theorem foldF_eq (segs : List Seg) (acc : Int) (h : (acc.natAbs : Int) + magAbs segs < 16777216) :
    segs.foldl (fun a s => addF a s.mag) acc = acc + sumMagnitude segs := by
  induction segs generalizing acc with
  | nil => simp [sumMagnitude]
  | cons s rest ih =>
    simp only [magAbs] at h
    have hp := magAbs_nonneg rest
    have hadd : addF acc s.mag = acc + s.mag := addF_small _ _ (by omega)
    simp only [List.foldl_cons, hadd, sumMagnitude]
    rw [ih (acc + s.mag) (by omega)]
    omega

theorem sumMagnitudeF_eq (segs : List Seg) (h : magAbs segs < 16777216) :
    sumMagnitudeF segs = sumMagnitude segs := by
  unfold sumMagnitudeF
  rw [foldF_eq segs 0 (by simpa using h)]
  omega

/-- A time-sorted arrangement of edges with pairwise distinct times is unique. -/
theorem sorted_perm_unique (a b : List Edge) (hp : a.Perm b) (ha : SortedT a) (hb : SortedT b)
    (hd : a.Pairwise (fun x y => x.time ≠ y.time)) : a = b := by
  induction a generalizing b with
  | nil => exact (List.Perm.eq_nil hp.symm).symm
  | cons x xs ih =>
    cases b with
    | nil => exact absurd (List.Perm.eq_nil hp) (by simp)
    | cons y ys =>
      have hxa := List.pairwise_cons.mp ha
      have hyb := List.pairwise_cons.mp hb
      have hxd := List.pairwise_cons.mp hd
      have hxy : x = y := by
        have hx : x ∈ y :: ys := hp.subset List.mem_cons_self
        have hy : y ∈ x :: xs := hp.symm.subset List.mem_cons_self
        rcases List.mem_cons.mp hx with h | h
        · exact h
        · rcases List.mem_cons.mp hy with h' | h'
          · exact h'.symm
          · exfalso
            have h1 := hyb.1 x h
            have h2 := hxa.1 y h'
            exact hxd.1 y h' (by omega)
      subst hxy
      have hp' : xs.Perm ys := List.Perm.cons_inv hp
      rw [ih ys hp' hxa.2 hyb.2 hxd.2]

/-! ### rounding never moves a breakpoint -/

/-- The lengths of the finished (non-open) segments of a list, in order: its breakpoints, as differences. -/
def closedLens (l : List Seg) : List Int := l.filterMap (·.len)

/-- The float loop and the exact loop of `Sum` close the same segments with the same lengths, whatever the
magnitudes they carry and whatever the final drop rule decides: the lengths are computed from edge times only. -/
theorem emitF_closedLens (drop drop' : Int → Bool) (es : List Edge) (m m' lt : Int) :
    closedLens (emitF drop m lt es) = closedLens (emit drop' m' lt es) := by
  induction es generalizing m m' lt with
  | nil =>
    simp only [emitF, emit, closedLens]
    split <;> split <;> simp
  | cons e es ih =>
    simp only [emitF, emit]
    by_cases h : e.time - lt = 0
    · simp only [h, if_true]
      exact ih _ _ _
    · simp only [h, if_false, closedLens, List.filterMap_cons]
      have := ih (addF m e.delta) (m' + e.delta) e.time
      simp only [closedLens] at this
      rw [this]

theorem sumEdgesF_closedLens (drop drop' : Int → Bool) (es : List Edge) :
    closedLens (sumEdgesF drop es) = closedLens (sumEdges drop' es) := by
  cases es with
  | nil => rfl
  | cons e es => exact emitF_closedLens drop drop' (e :: es) 0 0 0

theorem lenSum_eq_closedLens (l : List Seg) : lenSum l = (closedLens l).sum := by
  induction l with
  | nil => rfl
  | cons s rest ih =>
    cases hs : s.len with
    | none => simp [lenSum, closedLens, hs] at ih ⊢; exact ih
    | some x => simp [lenSum, closedLens, hs] at ih ⊢; rw [ih]

/-! ### the relative error of one rounding -/

/-- The magnitude part of `rnd24`, on naturals. -/
theorem rnd24_nat_error (a : Nat) (hb : ¬ bitLen a ≤ 24) :
    let sh := bitLen a - 24
    let q := a / 2 ^ sh
    let rem := a % 2 ^ sh
    let half := 2 ^ (sh - 1)
    let q' := if rem > half ∨ (rem = half ∧ q % 2 = 1) then q + 1 else q
    (q' * 2 ^ sh ≤ a + half ∧ a ≤ q' * 2 ^ sh + half) ∧ half * 16777216 ≤ a := by
  intro sh q rem half q'
  have ha0 : a ≠ 0 := by
    intro h; subst h; simp [bitLen] at hb
  have hbl : bitLen a = a.log2 + 1 := by simp [bitLen, ha0]
  have hsh : 1 ≤ sh := by simp only [sh]; omega
  have hP : 2 ^ sh = 2 * half := by
    have : sh = (sh - 1) + 1 := by omega
    simp only [half]
    rw [this, Nat.pow_succ]
    simp
    omega
  have hdm : 2 ^ sh * q + rem = a := Nat.div_add_mod a (2 ^ sh)
  have hrem : rem < 2 ^ sh := Nat.mod_lt _ (Nat.two_pow_pos sh)
  have hlow : 2 ^ a.log2 ≤ a := Nat.log2_self_le ha0
  have hhalf : half * 16777216 = 2 ^ a.log2 := by
    have e : a.log2 = (sh - 1) + 24 := by simp only [sh]; omega
    simp only [half]
    rw [e, Nat.pow_add]
  refine ⟨?_, by omega⟩
  have hqP : q * 2 ^ sh = 2 ^ sh * q := Nat.mul_comm _ _
  by_cases hc : rem > half ∨ (rem = half ∧ q % 2 = 1)
  · have hq' : q' = q + 1 := by simp only [q', hc, if_true]
    rw [hq', Nat.add_mul, hqP]
    generalize 2 ^ sh * q = QP at hdm ⊢
    have : half ≤ rem := by rcases hc with h | h <;> omega
    omega
  · have hq' : q' = q := by simp only [q', hc, if_false]
    rw [hq', hqP]
    generalize 2 ^ sh * q = QP at hdm ⊢
    have : rem ≤ half := by
      rcases Nat.lt_or_ge half rem with h | h
      · exact absurd (Or.inl h) hc
      · exact h
    omega

/-- float32 rounding is accurate to half a unit in the last of 24 significant bits: the relative error of
`rnd24` is at most `2^-24`, for every integer. -/
theorem rnd24_error (n : Int) : (rnd24 n - n).natAbs * 16777216 ≤ n.natAbs := by
  unfold rnd24
  simp only []
  by_cases hb : bitLen n.natAbs ≤ 24
  · simp [hb]
  · simp only [hb, if_false]
    obtain ⟨⟨h1, h2⟩, h3⟩ := rnd24_nat_error n.natAbs hb
    generalize hR : (if n.natAbs % 2 ^ (bitLen n.natAbs - 24) > 2 ^ (bitLen n.natAbs - 24 - 1) ∨
        n.natAbs % 2 ^ (bitLen n.natAbs - 24) = 2 ^ (bitLen n.natAbs - 24 - 1) ∧
          n.natAbs / 2 ^ (bitLen n.natAbs - 24) % 2 = 1 then
        n.natAbs / 2 ^ (bitLen n.natAbs - 24) + 1 else n.natAbs / 2 ^ (bitLen n.natAbs - 24)) *
        2 ^ (bitLen n.natAbs - 24) = R at h1 h2 ⊢
    generalize 2 ^ (bitLen n.natAbs - 24 - 1) = H at h1 h2 h3
    by_cases hn : n < 0
    · simp only [hn, if_true]
      have : (-(R : Int) - n).natAbs ≤ H := by clear hR hb; omega
      exact Nat.le_trans (Nat.mul_le_mul_right _ this) h3
    · simp only [hn, if_false]
      have : ((R : Int) - n).natAbs ≤ H := by clear hR hb; omega
      exact Nat.le_trans (Nat.mul_le_mul_right _ this) h3

end ScVerif.C18
