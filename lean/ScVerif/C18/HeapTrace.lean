import ScVerif.C18.HeapModeOps
/-!
# C18 — "never modify their arguments", at every moment of the call

`Heap.Extends` between the heap before and the heap after a call (HeapOps, HeapModeOps) says that a comparison
of the arguments before/after finds nothing.  It does not exclude a write that is undone before the call
returns: detach a field of the argument, copy, put it back.  A caller that shares the argument for reading with
another goroutine sees the difference.  This file states the clause for EVERY INTERMEDIATE heap.

* The mode OBJECT (`*traits.ElectricMode`: start time + `Segments` slice header) is a heap cell of its own here
  (`HeapM.modes`), so that "writes `mode.Segments`" is expressible.  `modeShiftTrace` lists the heap after each
  statement of `modepb.Shift`: the clone (new cells, a new array, a new mode object), then the one assignment,
  which goes into the clone.  `detach := true` is the variant that empties the ARGUMENT's `Segments` around the
  clone and restores it afterwards (what the code must not do): its final heap and its result are those of the
  real code, one intermediate heap is not an extension.
* The loop of `segmentpb.Sum`, stopped after any number of edges, and `modepb.Cut`, after each of its
  statements, have only extensions of the initial heap as intermediate heaps.

(Proof only, not driver-linked.  On the real code the clause is decided by running every operation on
arguments in read-only pages: harness watch.go.)
-/
namespace ScVerif.C18

structure ModeObj where
  start : Option Int
  segs : Slice
deriving Repr, DecidableEq

/-- Segment cells and backing arrays (`Heap`) plus mode objects (address = index). -/
structure HeapM where
  base : Heap
  modes : List ModeObj

def HeapM.Extends (h0 h : HeapM) : Prop :=
  h0.base.Extends h.base ∧ ∃ ms, h.modes = h0.modes ++ ms

theorem HeapM.Extends.refl (h : HeapM) : h.Extends h := ⟨Heap.Extends.refl _, ⟨[], by simp⟩⟩

theorem HeapM.Extends.trans {h0 h1 h2 : HeapM} (a : h0.Extends h1) (b : h1.Extends h2) : h0.Extends h2 := by
  obtain ⟨a1, ⟨m1, e1⟩⟩ := a
  obtain ⟨b1, ⟨m2, e2⟩⟩ := b
  exact ⟨a1.trans b1, ⟨m1 ++ m2, by rw [e2, e1, List.append_assoc]⟩⟩

/-- Every pre-existing cell, array and mode object reads the same. -/
theorem HeapM.Extends.pointwise {h0 h : HeapM} (e : h0.Extends h) :
    (∀ a, a < h0.base.cells.length → h.base.cells[a]? = h0.base.cells[a]?) ∧
    (∀ i, i < h0.base.arrays.length → h.base.arrays[i]? = h0.base.arrays[i]?) ∧
    (∀ p, p < h0.modes.length → h.modes[p]? = h0.modes[p]?) := by
  obtain ⟨eb, ⟨ms, hm⟩⟩ := e
  exact ⟨eb.pointwise.1, eb.pointwise.2, fun p hp => by rw [hm, List.getElem?_append_left hp]⟩

def readMode (h : HeapM) (p : Nat) : ModeObj := (h.modes[p]?).getD ⟨none, ⟨0, 0, 0⟩⟩

/-- `&ElectricMode{…}` / the message part of `proto.Clone`: a new mode object. -/
def allocMode (h : HeapM) (m : ModeObj) : HeapM × Nat := (⟨h.base, h.modes ++ [m]⟩, h.modes.length)

/-- `mode.X = …` through the pointer `p`. -/
def setMode (h : HeapM) (p : Nat) (f : ModeObj → ModeObj) : HeapM := ⟨h.base, modifyNth p f h.modes⟩

theorem allocMode_extends (h : HeapM) (m : ModeObj) : h.Extends (allocMode h m).1 :=
  ⟨Heap.Extends.refl _, ⟨[m], rfl⟩⟩

/-- A write into a mode object allocated after `h0` leaves `h0` intact. -/
theorem setMode_extends {h0 h : HeapM} (e : h0.Extends h) (p : Nat) (f : ModeObj → ModeObj)
    (hp : h0.modes.length ≤ p) : h0.Extends (setMode h p f) := by
  obtain ⟨eb, ⟨ms, hm⟩⟩ := e
  refine ⟨eb, ⟨modifyNth (p - h0.modes.length) f ms, ?_⟩⟩
  simp only [setMode, hm]
  exact modifyNth_append_right _ _ _ _ hp

theorem base_extends {h : HeapM} {b : Heap} (e : h.base.Extends b) : h.Extends ⟨b, h.modes⟩ :=
  ⟨e, ⟨[], by simp⟩⟩

/-- `proto.Clone(mode)`: deep copy of the segments (new cells, new array), then a new mode object. -/
def cloneMode (h : HeapM) (p : Nat) : HeapM × Nat :=
  let m := readMode h p
  let c := cloneSlice h.base m.segs
  allocMode ⟨c.1, h.modes⟩ ⟨m.start, c.2⟩

theorem cloneMode_extends (h : HeapM) (p : Nat) : h.Extends (cloneMode h p).1 :=
  (base_extends (cloneSlice_extends h.base _)).trans (allocMode_extends _ _)

theorem cloneMode_addr (h : HeapM) (p : Nat) : (cloneMode h p).2 = h.modes.length := rfl

/-- The heaps after each statement of `modepb.Shift(d, mode)`, `mode` the object at `p`, and the address of the
result.  `detach = false` is the code; `detach = true` is the start-time branch rewritten to copy "everything
but the segments": `mode.Segments = nil; clone; mode.Segments = segments` on the ARGUMENT, then the segment
pointers are copied into a fresh slice of the result. -/
def modeShiftTrace (detach : Bool) (h : HeapM) (d : Int) (p : Nat) : List HeapM × Nat :=
  if d = 0 then ([], p)
  else
    let m := readMode h p
    match m.start with
    | none =>
      let c := cloneMode h p                                     -- mode = proto.Clone(mode)
      let r := heapShift c.1.base d (readMode c.1 c.2).segs      -- segmentpb.Shift(d, mode.Segments...)
      let h2 : HeapM := ⟨r.1, c.1.modes⟩
      ([c.1, h2, setMode h2 c.2 (fun o => ⟨o.start, r.2⟩)], c.2) -- mode.Segments = …  (the clone's)
    | some s =>
      if detach then
        let h1 := setMode h p (fun o => ⟨o.start, ⟨0, 0, 0⟩⟩)      -- mode.Segments = nil        (ARGUMENT)
        let c := cloneMode h1 p                                   -- proto.Clone(mode)
        let h3 := setMode c.1 p (fun o => ⟨o.start, m.segs⟩)      -- mode.Segments = segments   (ARGUMENT)
        let a := allocArr h3.base (readSlice h3.base m.segs)      -- append(nil, mode.Segments...)
        let h4 : HeapM := ⟨a.1, h3.modes⟩
        ([h1, c.1, h3, h4, setMode h4 c.2 (fun _ => ⟨some (s + d), ⟨a.2, 0, m.segs.len⟩⟩)], c.2)
      else
        let c := cloneMode h p                                    -- mode = proto.Clone(mode)
        ([c.1, setMode c.1 c.2 (fun o => ⟨some (s + d), o.segs⟩)], c.2) -- mode.StartTime = …  (the clone's)

theorem modeShiftTrace_extends (h : HeapM) (d : Int) (p : Nat) :
    ∀ hi ∈ (modeShiftTrace false h d p).1, h.Extends hi := by
  unfold modeShiftTrace
  split
  · intro hi hmem; simp at hmem
  · simp only []
    split
    · intro hi hmem
      have ec := cloneMode_extends h p
      have e2 : h.Extends ⟨(heapShift (cloneMode h p).1.base d (readMode (cloneMode h p).1 (cloneMode h p).2).segs).1,
          (cloneMode h p).1.modes⟩ :=
        ec.trans (base_extends (heapShift_extends _ _ _))
      simp only [List.mem_cons, List.not_mem_nil, or_false] at hmem
      rcases hmem with rfl | rfl | rfl
      · exact ec
      · exact e2
      · exact setMode_extends e2 _ _ (by rw [cloneMode_addr]; exact Nat.le_refl _)
    · intro hi hmem
      have ec := cloneMode_extends h p
      simp only [Bool.false_eq_true, if_false, List.mem_cons, List.not_mem_nil, or_false] at hmem
      rcases hmem with rfl | rfl
      · exact ec
      · exact setMode_extends ec _ _ (by rw [cloneMode_addr]; exact Nat.le_refl _)

/-! ### what a reader of the argument sees -/

/-- The mode a reader finds behind the pointer `p`: start time and segment VALUES (through the slice header, the
backing array and the cells). -/
def observe (h : HeapM) (p : Nat) : Option Int × List Seg :=
  ((readMode h p).start, readSegs h.base (readMode h p).segs)

/-- The object at `p` exists, its slice lies in an existing array and points at existing cells. -/
def ValidMode (h : HeapM) (p : Nat) : Prop :=
  p < h.modes.length ∧ (readMode h p).segs.arr < h.base.arrays.length ∧
  ∀ a ∈ readSlice h.base (readMode h p).segs, a < h.base.cells.length

theorem readSegs_extends {h0 h : Heap} (e : h0.Extends h) (sl : Slice) (ha : sl.arr < h0.arrays.length)
    (hc : ∀ a ∈ readSlice h0 sl, a < h0.cells.length) : readSegs h sl = readSegs h0 sl := by
  have hs : readSlice h sl = readSlice h0 sl := by
    simp only [readSlice, e.pointwise.2 _ ha]
  simp only [readSegs, hs]
  apply List.map_congr_left
  intro a hmem
  simp only [readCell, e.pointwise.1 _ (hc a hmem)]

theorem observe_extends {h0 h : HeapM} (e : h0.Extends h) (p : Nat) (v : ValidMode h0 p) :
    observe h p = observe h0 p := by
  obtain ⟨hp, ha, hc⟩ := v
  have hm : readMode h p = readMode h0 p := by
    simp only [readMode, e.pointwise.2.2 _ hp]
  simp only [observe, hm, readSegs_extends e.1 _ ha hc]

/-! ### the loop of `segmentpb.Sum`, stopped anywhere -/

theorem heapLoop_prefix_extends (h : Heap) (cuts : List Edge) (k : Nat) :
    h.Extends ⟨((cuts.take k).foldl heapStep ⟨h.cells, [], 0⟩).heap, h.arrays⟩ := by
  have hinv := heapLoop_inv h.cells (cuts.take k) [] ⟨h.cells, [], 0⟩ ⟨by simp, rfl⟩
  exact ⟨⟨_, hinv.1⟩, ⟨[], by simp⟩⟩

/-! ### `modepb.Cut`, after each statement -/

/-- The heaps after the two clones, the segment cut and the two assignments of `modepb.Cut` (the branch that
allocates; the other branches do not touch the heap).  Same bindings as `heapModeCutWith true`. -/
def modeCutTrace (h : Heap) (t : Int) (m : HeapMode) : List Heap :=
  if m.segs.len = 0 then []
  else
    let st := m.start.getD t
    if ¬ (t > st) then []
    else
      let d := t - st
      let ei := activeAt d (readSegs h m.segs)
      if ei.2 = m.segs.len then []
      else
        let b := cloneSlice h m.segs
        let a := cloneSlice b.1 m.segs
        let c := heapCut a.1 (d - ei.1) ((readSlice h m.segs)[ei.2]?.getD 0)
        let hb := match c.2.1 with
          | none => c.1
          | some x => setArr c.1 b.2.arr ei.2 x
        let ha := match c.2.2.1 with
          | none => hb
          | some x => setArr hb a.2.arr ei.2 x
        [b.1, a.1, c.1, hb, ha]

theorem modeCutTrace_last (h : Heap) (t : Int) (m : HeapMode) :
    ∀ hl, (modeCutTrace h t m).getLast? = some hl → hl = (heapModeCut h t m).1 := by
  unfold modeCutTrace heapModeCut heapModeCutWith
  simp only [if_true]
  split
  · intro hl e; simp at e
  · split
    · intro hl e; simp at e
    · split
      · intro hl e; simp at e
      · intro hl e
        simp only [List.getLast?_cons_cons, List.getLast?_singleton, Option.some.injEq] at e
        exact e.symm

theorem modeCutTrace_extends (h : Heap) (t : Int) (m : HeapMode) :
    ∀ hi ∈ modeCutTrace h t m, h.Extends hi := by
  unfold modeCutTrace
  simp only []
  split
  · intro hi hmem; simp at hmem
  · split
    · intro hi hmem; simp at hmem
    · split
      · intro hi hmem; simp at hmem
      · have eb := cloneSlice_extends h m.segs
        have ea := cloneSlice_extends (cloneSlice h m.segs).1 m.segs
        have hbid := cloneSlice_arr_ge h m.segs
        have haid : h.arrays.length ≤ (cloneSlice (cloneSlice h m.segs).1 m.segs).2.arr :=
          Nat.le_trans eb.arrays_le (cloneSlice_arr_ge _ m.segs)
        have ec : ∀ d addr, h.Extends (heapCut (cloneSlice (cloneSlice h m.segs).1 m.segs).1 d addr).1 :=
          fun d addr => eb.trans (ea.trans (heapCut_extends _ d addr))
        intro hi hmem
        simp only [List.mem_cons, List.not_mem_nil, or_false] at hmem
        rcases hmem with rfl | rfl | rfl | rfl | rfl
        · exact eb
        · exact eb.trans ea
        · exact ec _ _
        · split
          · exact ec _ _
          · exact setArr_extends (ec _ _) _ _ _ hbid
        · split <;> split <;>
            first
            | exact ec _ _
            | exact setArr_extends (ec _ _) _ _ _ hbid
            | exact setArr_extends (ec _ _) _ _ _ haid
            | exact setArr_extends (setArr_extends (ec _ _) _ _ _ hbid) _ _ _ haid

end ScVerif.C18
