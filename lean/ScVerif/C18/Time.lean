/-
C18 (part 1) — model of `pkg/time`: `CompareAscending`, the four kinds of cut, `cutPeriod`,
`PeriodsIntersect`, `PeriodsConnected`.

The definitions follow the Go code function by function (same case order).  Timestamps are
`(seconds, nanos)` pairs of *unbounded* integers: the Go fields are `int64`/`int32`, every such
value is an `Int`, and (after the `fix:` commit that makes `CompareAscending` compare instead of
subtract) no arithmetic is performed on them, so no wrap-around can occur in the modelled code.
-/
namespace ScVerif.C18

structure Ts where
  secs : Int
  nanos : Int
deriving Repr, DecidableEq, BEq

/-- `CompareAscending` as coded (pkg/time/timestamp.go). -/
def compareAscending (a b : Ts) : Int :=
  if a.secs < b.secs then -1
  else if a.secs > b.secs then 1
  else if a.nanos < b.nanos then -1
  else if a.nanos > b.nanos then 1
  else 0

/-- The four cut variants of pkg/time/cut.go. -/
inductive Cut where
  | belowAll
  | below (t : Ts)
  | above (t : Ts)
  | aboveAll
deriving Repr, DecidableEq

/-- `extractValue`: only called on `below`/`above` (the code panics otherwise; `compareValueCuts`
is only ever invoked with such a receiver, which the match below makes explicit). -/
def compareValueCuts (thisTs : Ts) (thisIsAbove : Bool) (that : Cut) : Int :=
  match that with
  | .belowAll => 1
  | .aboveAll => -1
  | .below t =>
    let r := compareAscending thisTs t
    if r ≠ 0 then r
    else if thisIsAbove = false then 0 else 1
  | .above t =>
    let r := compareAscending thisTs t
    if r ≠ 0 then r
    else if thisIsAbove = true then 0 else -1

/-- `cut.CompareTo`. -/
def Cut.compareTo (this that : Cut) : Int :=
  match this with
  | .belowAll => if that = .belowAll then 0 else -1
  | .aboveAll => if that = .aboveAll then 0 else 1
  | .below t => compareValueCuts t false that
  | .above t => compareValueCuts t true that

structure Period where
  start : Option Ts
  stop : Option Ts
deriving Repr, DecidableEq

/-- `cutPeriod`. -/
def cutPeriod (p : Period) : Cut × Cut :=
  match p.start, p.stop with
  | none, none => (.belowAll, .aboveAll)
  | none, some e => (.belowAll, .below e)
  | some s, none => (.below s, .aboveAll)
  | some s, some e => (.below s, .below e)

/-- `PeriodsConnected` (nil period = `none`). -/
def periodsConnected (p1 p2 : Option Period) : Bool :=
  match p1, p2 with
  | some p1, some p2 =>
    let (l1, u1) := cutPeriod p1
    let (l2, u2) := cutPeriod p2
    decide (l1.compareTo u2 ≤ 0) && decide (l2.compareTo u1 ≤ 0)
  | _, _ => false

/-- `PeriodsIntersect`. -/
def periodsIntersect (p1 p2 : Option Period) : Bool :=
  match p1, p2 with
  | some p1, some p2 =>
    let (l1, u1) := cutPeriod p1
    let (l2, u2) := cutPeriod p2
    decide (l1.compareTo u2 < 0) && decide (l2.compareTo u1 < 0)
  | _, _ => false

/-- `AllTime()`, `PeriodBetween(t1, t2)`, `PeriodBefore(t)`, `PeriodOnOrAfter(t)` (period.go); `none` is a
Go `nil` timestamp. -/
def allTime : Period := ⟨none, none⟩
def periodBetween (t1 t2 : Option Ts) : Period := ⟨t1, t2⟩
def periodBefore (t : Option Ts) : Period := ⟨none, t⟩
def periodOnOrAfter (t : Option Ts) : Period := ⟨t, none⟩

/-! ### Specification vocabulary: the order of cuts

A cut is a position on the timeline between instants: `belowAll` before everything, `below t` just
before `t`, `above t` just after `t`, `aboveAll` after everything.  Its key is
`(class, seconds, nanos, side)` with class −1/0/1 and side 0 (below) / 1 (above); the specification of
`CompareTo` is the sign of the lexicographic comparison of keys. -/

def Cut.cls : Cut → Int
  | .belowAll => -1
  | .aboveAll => 1
  | _ => 0
def Cut.ksecs : Cut → Int
  | .below t => t.secs
  | .above t => t.secs
  | _ => 0
def Cut.knanos : Cut → Int
  | .below t => t.nanos
  | .above t => t.nanos
  | _ => 0
def Cut.side : Cut → Int
  | .above _ => 1
  | _ => 0

/-- Strict lexicographic order of the keys. -/
def Cut.keyLt (a b : Cut) : Prop :=
  a.cls < b.cls ∨ (a.cls = b.cls ∧ (a.ksecs < b.ksecs ∨ (a.ksecs = b.ksecs ∧
    (a.knanos < b.knanos ∨ (a.knanos = b.knanos ∧ a.side < b.side)))))

/-! ### Specification vocabulary: the timeline is ℤ nanoseconds -/

/-- A timestamp is normalised when its nanos are in `[0, 10^9)` (what `timestamppb` calls valid). -/
def Ts.Normal (t : Ts) : Prop := 0 ≤ t.nanos ∧ t.nanos < 1000000000

def Ts.toNs (t : Ts) : Int := t.secs * 1000000000 + t.nanos

/-- `l ≤ x` where an absent lower bound is −∞. -/
def lbLe (l : Option Int) (x : Int) : Prop := match l with | none => True | some a => a ≤ x
/-- `x < u` where an absent upper bound is +∞. -/
def ubLt (x : Int) (u : Option Int) : Prop := match u with | none => True | some a => x < a
/-- `x ≤ u` where an absent upper bound is +∞. -/
def ubLe (x : Int) (u : Option Int) : Prop := match u with | none => True | some a => x ≤ a
/-- `l < u` between optional bounds (true when either is absent). -/
def bLt (l u : Option Int) : Prop := match l, u with | some a, some b => a < b | _, _ => True
def bLe (l u : Option Int) : Prop := match l, u with | some a, some b => a ≤ b | _, _ => True

def Period.lo (p : Period) : Option Int := p.start.map Ts.toNs
def Period.hi (p : Period) : Option Int := p.stop.map Ts.toNs

def optNormal (t : Option Ts) : Prop := match t with | none => True | some s => s.Normal

/-- Membership of an instant (in ns) in the half-open, optionally unbounded interval `[start, end)`. -/
def Period.Mem (x : Int) (p : Period) : Prop := lbLe p.lo x ∧ ubLt x p.hi

/-- A period is proper when its bounds are normalised timestamps and it is non-empty as an interval
(`start < end` when both are given). -/
def Period.Proper (p : Period) : Prop := optNormal p.start ∧ optNormal p.stop ∧ bLt p.lo p.hi

/-- Bounds normalised and `start ≤ end` (possibly empty): the domain of `Connected`. -/
def Period.Ordered (p : Period) : Prop := optNormal p.start ∧ optNormal p.stop ∧ bLe p.lo p.hi

def Cut.Normal : Cut → Prop
  | .below t => t.Normal
  | .above t => t.Normal
  | _ => True

/-- Position of a value cut on the doubled ns timeline: `below t` at `2·t`, `above t` at `2·t + 1`. -/
def Cut.pos : Cut → Int
  | .below t => 2 * t.toNs
  | .above t => 2 * t.toNs + 1
  | _ => 0

/-- The (possibly empty) interval `[x, y)` with `x ≤ y` is enclosed by `p`. -/
def Period.Encloses (p : Period) (x y : Int) : Prop := lbLe p.lo x ∧ ubLe y p.hi

end ScVerif.C18
