import ScVerif.C18.Seg
/-
C18 (part 2) — model of `pkg/trait/electricpb/modepb`: `ActiveAt`, `MagnitudeAt`,
`MaxSegmentAfter`, `Cut`, `Shift`, `Sum`.

A mode is `(optional start time, segments)`; the other `ElectricMode` fields (id, title, voltage,
normal…) are carried along unchanged by `proto.Clone` in `Cut`/`Shift` and left unset by `Sum`, and
do not influence any time or magnitude, so they are not modelled.  Instants (`time.Time`) are
integer nanoseconds on one absolute timeline; `t.Sub(st)` is integer subtraction here — `Mode64.lean`
repeats the operations with the SATURATING `time.Time.Sub` and 64-bit durations (what the driver runs;
the harness also places instants more than 2^63 ns apart) and `PropsSat` relates the two.
`modepb.Sum` finds the earliest/latest start time with "the first start time seen seeds both
bounds" (`stCount == 1 ||`, after `fix:` 7872cfb): `Option` in `startsLoop`.  Before that commit the code
tested `earliest.IsZero()` / `latest.IsZero()` for "not set yet", which misreads a start time AT the zero
`time.Time`: `startsLoopLegacy`/`modeSumLegacy` keep that version (parameter `zero` = the instant of the
zero `time.Time`), see `PropsMode.C18_modes_sum_legacy_fails`.  The harness places model time 0 on an
ordinary instant, on the zero `time.Time` and on the Unix epoch.
-/
namespace ScVerif.C18

structure Mode where
  start : Option Int
  segs : List Seg
deriving Repr, DecidableEq

/-- `tOrST(t, m)`: `t` if the mode has no start time, else the start time. -/
def tOrST (t : Int) (m : Mode) : Int :=
  match m.start with
  | none => t
  | some s => s

/-- `modepb.ActiveAt(t, mode)`. -/
def modeActiveAt (t : Int) (m : Mode) : Int × Nat := activeAt (t - tOrST t m) m.segs

/-- `modepb.MagnitudeAt(t, mode)`. -/
def modeMagnitudeAt (t : Int) (m : Mode) : Int × Bool := magnitudeAt (t - tOrST t m) m.segs

/-- `modepb.MaxSegmentAfter(t, mode)`. -/
def modeMaxSegmentAfter (t : Int) (m : Mode) : Nat := maxAfter (t - tOrST t m) m.segs

structure ModeCutResult where
  before : Option Mode
  after : Option Mode
  outside : Bool
deriving Repr, DecidableEq

/-- `modepb.Cut(t, mode)`.  The `none` arm of the index lookup is the Go index-out-of-range panic;
`ModeLemmas.modeCut_index_valid` shows it is never reached. -/
def modeCut (t : Int) (m : Mode) : ModeCutResult :=
  if m.segs.length = 0 then ⟨some m, some m, true⟩
  else
    let st := tOrST t m
    if ¬ (t > st) then ⟨none, some m, decide (t < st)⟩
    else
      let d := t - st
      let ei := activeAt d m.segs
      if ei.2 = m.segs.length then ⟨some m, none, true⟩
      else
        match m.segs[ei.2]? with
        | none => ⟨none, none, true⟩
        | some s =>
          let c := cutSeg (d - ei.1) s
          let before : Mode :=
            match c.before with
            | none => ⟨m.start, m.segs.take ei.2⟩
            | some sb => ⟨m.start, m.segs.take ei.2 ++ [sb]⟩
          let after : Mode :=
            match c.after with
            | none => ⟨some t, m.segs.drop (ei.2 + 1)⟩
            | some sa => ⟨some t, sa :: m.segs.drop (ei.2 + 1)⟩
          ⟨some before, some after, false⟩

/-- `modepb.Shift(d, mode)`. -/
def modeShift (d : Int) (m : Mode) : Mode :=
  if d = 0 then m
  else
    match m.start with
    | none => ⟨none, shift d m.segs⟩
    | some s => ⟨some (s + d), m.segs⟩

/-- First loop of `modepb.Sum`: earliest and latest start time (`none` = Go zero `time.Time`). -/
def startsLoop : Option Int → Option Int → List Mode → Option Int × Option Int
  | earliest, latest, [] => (earliest, latest)
  | earliest, latest, m :: ms =>
    match m.start with
    | none => startsLoop earliest latest ms
    | some st =>
      let earliest' := match earliest with
        | none => some st
        | some e => if st < e then some st else some e
      let latest' := match latest with
        | none => some st
        | some l => if st > l then some st else some l
      startsLoop earliest' latest' ms

/-- Second loop of `modepb.Sum`: align every segment list to `earliest`. -/
def alignLoop (earliest latest : Int) : List Mode → List (List Seg)
  | [] => []
  | m :: ms =>
    let st := m.start.getD latest
    shift (st - earliest) m.segs :: alignLoop earliest latest ms

/-- `modepb.Sum(modes...)`; `none` is the Go `nil` result for no modes. -/
def modeSum (ms : List Mode) : Option Mode :=
  match ms with
  | [] => none
  | _ =>
    match startsLoop none none ms with
    | (some earliest, some latest) =>
      some ⟨some earliest, sum (alignLoop earliest latest ms)⟩
    | _ => some ⟨none, sum (ms.map (·.segs))⟩

/-- First loop of `modepb.Sum` as it was BEFORE `fix:` 7872cfb: `earliest`, `latest` are Go `time.Time`
variables that start at the zero value, "not set yet" is `IsZero()`, `stCount` counts the start times;
`zero` is the instant of the zero `time.Time` on the model's timeline. -/
def startsLoopLegacy (zero : Int) : Int → Int → Nat → List Mode → Int × Int × Nat
  | e, l, n, [] => (e, l, n)
  | e, l, n, m :: ms =>
    match m.start with
    | none => startsLoopLegacy zero e l n ms
    | some st =>
      let e' := if e = zero ∨ st < e then st else e
      let l' := if l = zero ∨ st > l then st else l
      startsLoopLegacy zero e' l' (n + 1) ms

/-- `modepb.Sum` before `fix:` 7872cfb (`anyHaveST := stCount > 0`). -/
def modeSumLegacy (zero : Int) (ms : List Mode) : Option Mode :=
  match ms with
  | [] => none
  | _ =>
    let r := startsLoopLegacy zero zero zero 0 ms
    if r.2.2 > 0 then some ⟨some r.1, sum (alignLoop r.1 r.2.1 ms)⟩
    else some ⟨none, sum (ms.map (·.segs))⟩

/-- The loop of `modepb.MinAt(t, modes)`: `modes` is a Go map, so the loop visits the modes in an
unspecified order; `ms` is the list of modes IN THE ORDER THE ITERATION DELIVERS THEM, the state is the
current `(mode, magnitude)` (`none` = the Go `mode == nil`), `i` the position of the head of the list. -/
def minAtLoop (t : Int) : Option (Nat × Int) → Nat → List Mode → Option (Nat × Int)
  | cur, _, [] => cur
  | cur, i, m :: ms =>
    let mag := (modeMagnitudeAt t m).1
    match cur with
    | none => minAtLoop t (some (i, mag)) (i + 1) ms
    | some (j, g) =>
      if mag < g then minAtLoop t (some (i, mag)) (i + 1) ms
      else minAtLoop t (some (j, g)) (i + 1) ms

/-- `modepb.MinAt`: position (in iteration order) of the returned mode and the returned magnitude;
`none` is the Go `(nil, 0)` for an empty map. -/
def modeMinAt (t : Int) (ms : List Mode) : Option (Nat × Int) := minAtLoop t none 0 ms

/-! ## Specification: a mode as a step function on the absolute timeline -/

/-- The magnitude of mode `m` at instant `x`, for a mode that has a start time; a mode without a
start time has no position on the absolute timeline (each operation documents what it assumes),
so `ref` says where such a mode is taken to start. -/
def modeDen (ref : Int) (m : Mode) (x : Int) : Int := den m.segs (x - (m.start.getD ref))

def modeDenOpt (ref : Int) : Option Mode → Int → Int
  | none, _ => 0
  | some m, x => modeDen ref m x

end ScVerif.C18
