import ScVerif.C18.HeapTraceShift
import ScVerif.C18.ModeLemmas
/-!
# C18 — the heap models compute the pure model

The heap versions of `Cut`, `Shift`, `Sum`, `modepb.Shift`, `modepb.Cut` and `modepb.Sum` (HeapOps, HeapModeOps) carry the frame theorems ("never
modify their arguments"); the pure versions (`cutSeg`, `shift`, `modeShift`) are what the driver runs against the
Go code and what the step-function theorems speak about.  Here the two are connected for ALL inputs, not by
examples: reading the result of the heap version back through the final heap gives the result of the pure
version on the argument read through the initial heap.  For `modepb.Cut` this includes the two stores into the
clones' backing arrays (`before.Segments = append(before.Segments[:index], sb)`, `after.Segments[index] = sa`) and the
re-slicing around them.  Hypothesis: the slice's elements are addresses of
existing cells (a Go slice of non-nil pointers).  For `Sum` the loop invariant `heapLoop_inv` gives the cells; `heapSum_refines` reads them back through the
`result` slice.  `modepb.Sum` hands the results of `Shift` on to `Sum`: that needs the result slices of `Shift` to
stay readable in later heaps (`heapShift_valid`).
-/
namespace ScVerif.C18

/-- Every address of the list is an existing cell. -/
def ValidAddrs (h : Heap) (xs : List Nat) : Prop := ∀ a ∈ xs, a < h.cells.length

theorem ValidAddrs.tail {h : Heap} {a : Nat} {xs : List Nat} (v : ValidAddrs h (a :: xs)) : ValidAddrs h xs :=
  fun b hb => v b (List.mem_cons_of_mem _ hb)

theorem ValidAddrs.extends {h0 h : Heap} {xs : List Nat} (v : ValidAddrs h0 xs) (e : h0.Extends h) :
    ValidAddrs h xs := by
  obtain ⟨⟨c, hc⟩, _⟩ := e
  intro a ha
  have := v a ha
  rw [hc, List.length_append]
  omega

theorem readCell_extends {h0 h : Heap} (e : h0.Extends h) (a : Nat) (ha : a < h0.cells.length) :
    readCell h a = readCell h0 a := by
  simp only [readCell, e.pointwise.1 a ha]

theorem map_readCell_extends {h0 h : Heap} (e : h0.Extends h) (xs : List Nat) (v : ValidAddrs h0 xs) :
    xs.map (readCell h) = xs.map (readCell h0) :=
  List.map_congr_left (fun a ha => readCell_extends e a (v a ha))

theorem readCell_allocCell_new (h : Heap) (s : Seg) : readCell (allocCell h s).1 (allocCell h s).2 = s := by
  simp [readCell, allocCell]

theorem readSegs_allocArr_new (h : Heap) (xs : List Nat) (n : Nat) (hn : xs.length ≤ n) :
    readSegs (allocArr h xs).1 ⟨(allocArr h xs).2, 0, n⟩ = xs.map (readCell h) := by
  simp only [readSegs, readSlice, allocArr]
  simp [List.take_of_length_le hn]
  intro a _
  rfl

theorem readSlice_length_le (h : Heap) (sl : Slice) : (readSlice h sl).length ≤ sl.len := by
  simp only [readSlice]
  exact List.length_take_le _ _

/-! ### `segmentpb.Cut` -/

theorem heapCut_refines (h : Heap) (d : Int) (addr : Nat) (ha : addr < h.cells.length) :
    (heapCut h d addr).2.1.map (readCell (heapCut h d addr).1) = (cutSeg d (readCell h addr)).before ∧
    (heapCut h d addr).2.2.1.map (readCell (heapCut h d addr).1) = (cutSeg d (readCell h addr)).after ∧
    (heapCut h d addr).2.2.2 = (cutSeg d (readCell h addr)).outside := by
  unfold heapCut cutSeg
  simp only []
  by_cases hd : d ≤ 0
  · simp [hd]
  · simp only [hd, if_false]
    cases hl : (readCell h addr).len with
    | none =>
      simp only [Option.map_some, Option.some.injEq, and_true]
      exact ⟨readCell_allocCell_new _ _, readCell_extends (allocCell_extends _ _) addr ha⟩
    | some l =>
      simp only []
      by_cases hle : l ≤ d
      · simp [hle]
      · simp only [hle, if_false, Option.map_some, Option.some.injEq, and_true]
        refine ⟨?_, readCell_allocCell_new _ _⟩
        rw [readCell_extends (allocCell_extends _ _) _ (by simp [allocCell])]
        exact readCell_allocCell_new _ _


/-! ### `segmentpb.Shift` -/

theorem heapShiftNegLoop_refines (h : Heap) (d : Int) (sl : Slice) (cur : Int) (i : Nat) (elems : List Nat)
    (hel : elems = (readSlice h sl).drop i) (v : ValidAddrs h elems) :
    readSegs (heapShiftNegLoop h d sl cur i elems).1 (heapShiftNegLoop h d sl cur i elems).2 =
      shiftNegLoop d cur (elems.map (readCell h)) := by
  induction elems generalizing cur i with
  | nil => simp [heapShiftNegLoop, shiftNegLoop, readSegs, readSlice]
  | cons a rest ih =>
    have hrest : rest = (readSlice h sl).drop (i + 1) := by
      have := congrArg List.tail hel
      simpa [List.tail_drop] using this
    simp only [heapShiftNegLoop, shiftNegLoop, List.map_cons]
    cases hl : (readCell h a).len with
    | none =>
      simp only []
      have : readSlice h ⟨sl.arr, sl.off + i, sl.len - i⟩ = a :: rest := by
        rw [hel]
        simp only [readSlice, List.drop_take, List.drop_drop]
      simp only [readSegs, this, List.map_cons]
    | some l =>
      simp only []
      by_cases hc : cur + l > d
      · simp only [hc, if_true]
        have ha : a < h.cells.length := v a (List.mem_cons_self)
        have hcut := heapCut_refines h (d - cur) a ha
        have ecut := heapCut_extends h (d - cur) a
        have hlen : ((heapCut h (d - cur) a).2.2.1.getD 0 :: rest).length ≤ sl.len - i := by
          have h1 := congrArg List.length hel
          have h2 := readSlice_length_le h sl
          simp only [List.length_cons, List.length_drop] at h1 ⊢
          omega
        rw [readSegs_allocArr_new _ _ _ hlen, List.map_cons, map_readCell_extends ecut rest v.tail]
        congr 1
        -- `after` is never nil in this branch
        have hsome : ∃ x, (heapCut h (d - cur) a).2.2.1 = some x := by
          unfold heapCut
          simp only []
          by_cases hd : d - cur ≤ 0
          · simp [hd]
          · simp only [hd, if_false, hl]
            have : ¬ l ≤ d - cur := by omega
            simp [this]
        obtain ⟨x, hx⟩ := hsome
        have h2 := hcut.2.1
        rw [hx] at h2 ⊢
        simp only [Option.map_some] at h2
        rw [← h2]
        rfl
      · simp only [hc, if_false]
        have := ih (cur + l) (i + 1) hrest v.tail
        exact this

theorem heapShift_refines (h : Heap) (d : Int) (sl : Slice) (v : ValidAddrs h (readSlice h sl)) :
    readSegs (heapShift h d sl).1 (heapShift h d sl).2 = shift d (readSegs h sl) := by
  unfold heapShift shift
  simp only []
  by_cases hd : d = 0
  · simp [hd]
  · simp only [hd, if_false]
    have hlen := readSlice_length_le h sl
    cases hel : readSlice h sl with
    | nil => simp [readSegs, hel]
    | cons first rest =>
      rw [hel] at v hlen
      simp only [readSegs, hel, List.map_cons]
      by_cases hpos : d > 0
      · simp only [hpos, if_true]
        by_cases hmag : (readCell h first).mag = 0
        · simp only [hmag, if_true]
          cases hl : (readCell h first).len with
          | none => simp only [readSegs, hel, List.map_cons]
          | some l =>
            simp only []
            have e1 := allocCell_extends h ⟨0, some (l + d)⟩
            have := readSegs_allocArr_new (allocCell h ⟨0, some (l + d)⟩).1
              ((allocCell h ⟨0, some (l + d)⟩).2 :: rest) sl.len (by simpa using hlen)
            simp only [readSegs] at this
            rw [this, List.map_cons, readCell_allocCell_new, map_readCell_extends e1 rest v.tail]
        · simp only [hmag, if_false]
          have e1 := allocCell_extends h ⟨0, some d⟩
          have := readSegs_allocArr_new (allocCell h ⟨0, some d⟩).1
            ((allocCell h ⟨0, some d⟩).2 :: first :: rest) (sl.len + 1) (by simp at hlen ⊢; omega)
          simp only [readSegs] at this
          rw [this, List.map_cons, readCell_allocCell_new, map_readCell_extends e1 (first :: rest) v]
          rfl
      · simp only [hpos, if_false]
        have := heapShiftNegLoop_refines h (-d) sl 0 0 (first :: rest) (by simp [hel]) v
        simpa [readSegs] using this


/-! ### `proto.Clone` of the segments and `modepb.Shift` -/

theorem readSlice_allocArr_new (h : Heap) (xs : List Nat) (n : Nat) (hn : xs.length ≤ n) :
    readSlice (allocArr h xs).1 ⟨(allocArr h xs).2, 0, n⟩ = xs := by
  simp only [readSlice, allocArr]
  simp [List.take_of_length_le hn]

theorem cloneCells_length (h : Heap) (xs : List Nat) : (cloneCells h xs).2.length = xs.length := by
  induction xs generalizing h with
  | nil => rfl
  | cons a rest ih => simp [cloneCells, ih]

theorem cloneCells_refines (h : Heap) (xs : List Nat) (v : ValidAddrs h xs) :
    (cloneCells h xs).2.map (readCell (cloneCells h xs).1) = xs.map (readCell h) ∧
    ValidAddrs (cloneCells h xs).1 (cloneCells h xs).2 := by
  induction xs generalizing h with
  | nil => exact ⟨rfl, fun a ha => by simp [cloneCells] at ha⟩
  | cons a rest ih =>
    simp only [cloneCells]
    have e1 := allocCell_extends h (readCell h a)
    have ih' := ih (allocCell h (readCell h a)).1 (v.tail.extends e1)
    have e2 := cloneCells_extends (allocCell h (readCell h a)).1 rest
    have hnew : (allocCell h (readCell h a)).2 < (allocCell h (readCell h a)).1.cells.length := by
      simp [allocCell]
    refine ⟨?_, ?_⟩
    · simp only [List.map_cons]
      rw [ih'.1, map_readCell_extends e1 rest v.tail, readCell_extends e2 _ hnew, readCell_allocCell_new]
    · intro b hb
      simp only [List.mem_cons] at hb
      rcases hb with rfl | hb
      · obtain ⟨⟨c, hc⟩, _⟩ := e2
        rw [hc, List.length_append]
        omega
      · exact ih'.2 b hb

/-- The deep copy reads like the original, and its elements are existing cells again. -/
theorem cloneSlice_refines (h : Heap) (sl : Slice) (v : ValidAddrs h (readSlice h sl)) :
    readSegs (cloneSlice h sl).1 (cloneSlice h sl).2 = readSegs h sl ∧
    ValidAddrs (cloneSlice h sl).1 (readSlice (cloneSlice h sl).1 (cloneSlice h sl).2) := by
  have hlen : (cloneCells h (readSlice h sl)).2.length ≤ sl.len := by
    rw [cloneCells_length]; exact readSlice_length_le h sl
  have hc := cloneCells_refines h (readSlice h sl) v
  simp only [cloneSlice]
  refine ⟨?_, ?_⟩
  · rw [readSegs_allocArr_new _ _ _ hlen, hc.1]
    rfl
  · rw [readSlice_allocArr_new _ _ _ hlen]
    exact hc.2.extends (allocArr_extends _ _)

theorem heapModeShift_refines (h : Heap) (d : Int) (m : HeapMode) (v : ValidAddrs h (readSlice h m.segs)) :
    (⟨(heapModeShift h d m).2.start, readSegs (heapModeShift h d m).1 (heapModeShift h d m).2.segs⟩ : Mode) =
      modeShift d ⟨m.start, readSegs h m.segs⟩ := by
  unfold heapModeShift modeShift
  by_cases hd : d = 0
  · simp [hd]
  · simp only [hd, if_false]
    have hc := cloneSlice_refines h m.segs v
    cases hs : m.start with
    | none =>
      simp only []
      rw [heapShift_refines _ d _ hc.2, hc.1]
    | some s =>
      simp only []
      rw [hc.1]

/-! ### `modepb.Cut` -/

theorem modifyNth_getElem?_ne {α : Type} (f : α → α) (l : List α) (n k : Nat) (hne : k ≠ n) :
    (modifyNth n f l)[k]? = l[k]? := by
  induction l generalizing n k with
  | nil => simp [modifyNth]
  | cons x t ih =>
    cases n with
    | zero =>
      cases k with
      | zero => exact absurd rfl hne
      | succ k => simp [modifyNth]
    | succ n =>
      cases k with
      | zero => simp [modifyNth]
      | succ k => simpa [modifyNth] using ih n k (by omega)

/-- Reading a slice of the array just written. -/
theorem readSlice_setArr_same (H : Heap) (id pos v off n : Nat) :
    readSlice (setArr H id pos v) ⟨id, off, n⟩ = ((((H.arrays[id]?).getD []).set pos v).drop off).take n := by
  simp only [readSlice, setArr, modifyNth_getElem?]
  cases H.arrays[id]? <;> simp

/-- Reading a slice of another array. -/
theorem readSlice_setArr_other (H : Heap) (id pos v : Nat) (sl : Slice) (hne : sl.arr ≠ id) :
    readSlice (setArr H id pos v) sl = readSlice H sl := by
  simp only [readSlice, setArr, modifyNth_getElem?_ne _ _ _ _ hne]

theorem readCell_setArr (H : Heap) (id pos v a : Nat) : readCell (setArr H id pos v) a = readCell H a := rfl

theorem set_take_succ {α : Type} (l : List α) (i : Nat) (x : α) (hi : i < l.length) :
    (l.set i x).take (i + 1) = l.take i ++ [x] := by
  induction l generalizing i with
  | nil => simp at hi
  | cons y t ih =>
    cases i with
    | zero => simp
    | succ i => simp [ih i (by simpa using hi)]

theorem set_drop_self {α : Type} (l : List α) (i : Nat) (x : α) (hi : i < l.length) :
    (l.set i x).drop i = x :: l.drop (i + 1) := by
  induction l generalizing i with
  | nil => simp at hi
  | cons y t ih =>
    cases i with
    | zero => simp
    | succ i => simp [ih i (by simpa using hi)]

theorem set_take_lt {α : Type} (l : List α) (i : Nat) (x : α) : (l.set i x).take i = l.take i := by
  induction l generalizing i with
  | nil => simp
  | cons y t ih =>
    cases i with
    | zero => simp
    | succ i => simp [ih i]

theorem set_drop_gt {α : Type} (l : List α) (i : Nat) (x : α) : (l.set i x).drop (i + 1) = l.drop (i + 1) := by
  induction l generalizing i with
  | nil => simp
  | cons y t ih =>
    cases i with
    | zero => simp
    | succ i => simp [ih i]


/-- The two assignments of `modepb.Cut` into the arrays of its clones, read back. -/
theorem modeCut_assemble (C : Heap) (idb ida i n : Nat) (bs as : List Nat) (S : List Seg)
    (hne : idb ≠ ida) (hb : C.arrays[idb]? = some bs) (ha : C.arrays[ida]? = some as)
    (hbl : bs.length = n) (hal : as.length = n) (hi : i < n)
    (hbs : bs.map (readCell C) = S) (has : as.map (readCell C) = S) (sb sa : Option Nat) :
    let hb' := match sb with
      | none => C
      | some x => setArr C idb i x
    let ha' := match sa with
      | none => hb'
      | some y => setArr hb' ida i y
    readSegs ha' (match sb with
      | none => ⟨idb, 0, i⟩
      | some _ => ⟨idb, 0, i + 1⟩) = S.take i ++ (sb.map (readCell C)).toList ∧
    readSegs ha' (match sa with
      | none => ⟨ida, i + 1, n - (i + 1)⟩
      | some _ => ⟨ida, i, n - i⟩) = (sa.map (readCell C)).toList ++ S.drop (i + 1) := by
  have hSb : S.take i = (bs.take i).map (readCell C) := by rw [← hbs, List.map_take]
  have hSa : S.drop (i + 1) = (as.drop (i + 1)).map (readCell C) := by rw [← has, List.map_drop]
  have hib : i < bs.length := by omega
  have hia : i < as.length := by omega
  cases sb with
  | none =>
    cases sa with
    | none =>
      simp only [readSegs, readSlice, hb, ha, Option.getD_some, List.drop_zero, Option.map_none, Option.toList_none,
        List.append_nil, List.nil_append]
      refine ⟨hSb.symm, ?_⟩
      rw [hSa, List.take_of_length_le (by simp; omega)]
    | some y =>
      simp only [Option.map_none, Option.toList_none, List.append_nil, Option.map_some, Option.toList_some]
      refine ⟨?_, ?_⟩
      · simp only [readSegs, readSlice_setArr_other C ida i y ⟨idb, 0, i⟩ hne]
        simp only [readSlice, hb, Option.getD_some, List.drop_zero]
        exact hSb.symm
      · simp only [readSegs, readSlice_setArr_same, ha, Option.getD_some, set_drop_self as i y hia]
        rw [List.take_of_length_le (by simp; omega), List.map_cons, hSa]
        rfl
  | some x =>
    cases sa with
    | none =>
      simp only [Option.map_none, Option.toList_none, List.nil_append, Option.map_some, Option.toList_some]
      refine ⟨?_, ?_⟩
      · simp only [readSegs, readSlice_setArr_same, hb, Option.getD_some, List.drop_zero, set_take_succ bs i x hib]
        rw [List.map_append, hSb]
        rfl
      · simp only [readSegs, readSlice_setArr_other C idb i x ⟨ida, i + 1, n - (i + 1)⟩ (Ne.symm hne)]
        simp only [readSlice, ha, Option.getD_some]
        rw [List.take_of_length_le (by simp; omega), hSa]
        rfl
    | some y =>
      simp only [Option.map_some, Option.toList_some]
      have hb2 : (setArr C idb i x).arrays[ida]? = some as := by
        simp only [setArr, modifyNth_getElem?_ne _ _ _ _ (Ne.symm hne), ha]
      refine ⟨?_, ?_⟩
      · simp only [readSegs, readSlice_setArr_other (setArr C idb i x) ida i y ⟨idb, 0, i + 1⟩ hne]
        simp only [readSlice_setArr_same, hb, Option.getD_some, List.drop_zero, set_take_succ bs i x hib]
        rw [List.map_append, hSb]
        rfl
      · simp only [readSegs, readSlice_setArr_same, hb2, Option.getD_some, set_drop_self as i y hia]
        rw [List.take_of_length_le (by simp; omega), List.map_cons, hSa]
        rfl


theorem cloneCells_arrays (h : Heap) (xs : List Nat) : (cloneCells h xs).1.arrays = h.arrays := by
  induction xs generalizing h with
  | nil => rfl
  | cons a rest ih => simp only [cloneCells]; rw [ih]; rfl

theorem heapCut_arrays (h : Heap) (d : Int) (addr : Nat) : (heapCut h d addr).1.arrays = h.arrays := by
  unfold heapCut
  simp only []
  split
  · rfl
  · split
    · rfl
    · split <;> rfl

theorem readSlice_extends {h0 h : Heap} (e : h0.Extends h) (sl : Slice) (ha : sl.arr < h0.arrays.length) :
    readSlice h sl = readSlice h0 sl := by
  simp only [readSlice, e.pointwise.2 _ ha]


theorem cloneSlice_facts (h : Heap) (sl : Slice) (v : ValidAddrs h (readSlice h sl)) :
    ∃ bs, (cloneSlice h sl).1.arrays = h.arrays ++ [bs] ∧ (cloneSlice h sl).2 = ⟨h.arrays.length, 0, sl.len⟩ ∧
      bs.length = (readSlice h sl).length ∧ bs.map (readCell (cloneSlice h sl).1) = readSegs h sl ∧
      ValidAddrs (cloneSlice h sl).1 bs := by
  have hc := cloneCells_refines h (readSlice h sl) v
  refine ⟨(cloneCells h (readSlice h sl)).2, ?_, ?_, cloneCells_length _ _, ?_, ?_⟩
  · simp [cloneSlice, allocArr, cloneCells_arrays]
  · simp [cloneSlice, allocArr, cloneCells_arrays]
  · exact hc.1
  · exact hc.2

theorem Heap.Extends.cells_lt {h0 h : Heap} (e : h0.Extends h) {a : Nat} (ha : a < h0.cells.length) :
    a < h.cells.length := by
  obtain ⟨⟨c, hc⟩, _⟩ := e
  rw [hc, List.length_append]
  omega

theorem heapModeCut_refines (h : Heap) (t : Int) (m : HeapMode) (harr : m.segs.arr < h.arrays.length)
    (v : ValidAddrs h (readSlice h m.segs)) (hfull : (readSlice h m.segs).length = m.segs.len) :
    (heapModeCut h t m).2.1.map (fun b => (⟨b.start, readSegs (heapModeCut h t m).1 b.segs⟩ : Mode)) =
      (modeCut t ⟨m.start, readSegs h m.segs⟩).before ∧
    (heapModeCut h t m).2.2.1.map (fun a => (⟨a.start, readSegs (heapModeCut h t m).1 a.segs⟩ : Mode)) =
      (modeCut t ⟨m.start, readSegs h m.segs⟩).after ∧
    (heapModeCut h t m).2.2.2 = (modeCut t ⟨m.start, readSegs h m.segs⟩).outside := by
  have hSlen : (readSegs h m.segs).length = m.segs.len := by simp [readSegs, hfull]
  have hst : tOrST t ⟨m.start, readSegs h m.segs⟩ = m.start.getD t := by
    cases hs : m.start <;> simp [tOrST]
  unfold heapModeCut heapModeCutWith modeCut
  simp only [if_true, hSlen, hst]
  by_cases h0 : m.segs.len = 0
  · simp [h0]
  · simp only [h0, if_false]
    by_cases hgt : t > m.start.getD t
    · simp only [hgt, not_true, if_false]
      by_cases hidx : (activeAt (t - m.start.getD t) (readSegs h m.segs)).2 = m.segs.len
      · simp [hidx]
      · simp only [hidx, if_false]
        generalize hei : activeAt (t - m.start.getD t) (readSegs h m.segs) = ei at hidx ⊢
        obtain ⟨el, i⟩ := ei
        simp only [] at hidx ⊢
        have hile : i < m.segs.len := by
          have hv := modeCut_index_valid (readSegs h m.segs) (t - m.start.getD t) (by rw [hei, hSlen]; exact hidx)
          rw [hei] at hv
          have h2 : i < (readSegs h m.segs).length := by
            cases hq : (readSegs h m.segs)[i]? with
            | none => rw [hq] at hv; simp at hv
            | some s => exact (List.getElem?_eq_some_iff.mp hq).1
          omega
        have hxs : i < (readSlice h m.segs).length := by omega
        have ha0 : (readSlice h m.segs)[i]? = some ((readSlice h m.segs)[i]) := List.getElem?_eq_getElem hxs
        generalize (readSlice h m.segs)[i] = a0 at ha0
        have hs0 : (readSegs h m.segs)[i]? = some (readCell h a0) := by simp [readSegs, ha0]
        have hv0 : a0 < h.cells.length := v a0 (List.mem_of_getElem? ha0)
        simp only [ha0, hs0, Option.getD_some]
        -- the two clones
        have eB := cloneSlice_extends h m.segs
        have eA := cloneSlice_extends (cloneSlice h m.segs).1 m.segs
        have hxsB : readSlice (cloneSlice h m.segs).1 m.segs = readSlice h m.segs := readSlice_extends eB _ harr
        have vB : ValidAddrs (cloneSlice h m.segs).1 (readSlice (cloneSlice h m.segs).1 m.segs) := by
          rw [hxsB]; exact v.extends eB
        have hSB : readSegs (cloneSlice h m.segs).1 m.segs = readSegs h m.segs := readSegs_extends eB _ harr v
        obtain ⟨bs, hBarr, hBsl, hbl, hbmap, hbv⟩ := cloneSlice_facts h m.segs v
        obtain ⟨as, hAarr, hAsl, hal, hamap, hav⟩ := cloneSlice_facts (cloneSlice h m.segs).1 m.segs vB
        rw [hSB] at hamap
        rw [hxsB] at hal
        -- the cut of the active segment
        have hrf := heapCut_refines (cloneSlice (cloneSlice h m.segs).1 m.segs).1 (t - m.start.getD t - el) a0
          ((eB.trans eA).cells_lt hv0)
        rw [readCell_extends (eB.trans eA) a0 hv0] at hrf
        have hca := heapCut_arrays (cloneSlice (cloneSlice h m.segs).1 m.segs).1 (t - m.start.getD t - el) a0
        have eC := heapCut_extends (cloneSlice (cloneSlice h m.segs).1 m.segs).1 (t - m.start.getD t - el) a0
        generalize heapCut (cloneSlice (cloneSlice h m.segs).1 m.segs).1 (t - m.start.getD t - el) a0 = cr
          at hrf hca eC ⊢
        obtain ⟨C, sb, sa, o⟩ := cr
        simp only [] at hrf hca eC ⊢
        have hCb : C.arrays[h.arrays.length]? = some bs := by
          rw [hca, hAarr, hBarr]; simp
        have hCa : C.arrays[(cloneSlice h m.segs).1.arrays.length]? = some as := by
          rw [hca, hAarr]; simp
        have hbC : bs.map (readCell C) = readSegs h m.segs := by
          rw [map_readCell_extends (eA.trans eC) bs hbv]; exact hbmap
        have haC : as.map (readCell C) = readSegs h m.segs := by
          rw [map_readCell_extends eC as hav]; exact hamap
        have hne : h.arrays.length ≠ (cloneSlice h m.segs).1.arrays.length := by
          rw [hBarr]; simp
        have asm := modeCut_assemble C h.arrays.length (cloneSlice h m.segs).1.arrays.length i m.segs.len bs as
          (readSegs h m.segs) hne hCb hCa (by omega) (by omega) hile hbC haC sb sa
        simp only [hBsl, hAsl]
        obtain ⟨hb1, hb2, hb3⟩ := hrf
        cases sb <;> cases sa <;> simp only [] at asm hb1 hb2 ⊢ <;>
          simp only [Option.map_some, Option.map_none] at hb1 hb2 <;>
          rw [← hb1, ← hb2] <;> simp only [Option.map_some] <;>
          refine ⟨?_, ?_, trivial⟩ <;> simp [asm.1, asm.2]
    · simp [hgt]

/-! ### `segmentpb.Sum` as a whole -/

theorem addrsFrom_read (H0 vals : List Seg) (n : Nat) (hn : n ≤ vals.length) :
    (addrsFrom H0.length n).map (fun a => ((H0 ++ vals)[a]?).getD nilSeg) = vals.take n := by
  induction n with
  | zero => simp [addrsFrom]
  | succ n ih =>
    have hlt : n < vals.length := by omega
    simp only [addrsFrom, List.map_append, List.map_cons, List.map_nil, ih (by omega)]
    rw [List.take_add_one, List.getElem?_append_right (by omega)]
    simp [hlt]

/-- The `result` slice of the heap version of `Sum` reads as the list the literal loop `sumGoStep` builds; with
the final trimming applied it is `sumGoEdges`, i.e. (SumLemmas) `sumEdges`. -/
theorem heapSum_refines (h : Heap) (cuts : List Edge) :
    readSegs (heapSum h cuts).1 (heapSum h cuts).2 = (cuts.foldl sumGoStep ([], 0)).1 := by
  have hinv := heapLoop_inv h.cells cuts [] ⟨h.cells, [], 0⟩ ⟨by simp, rfl⟩
  obtain ⟨h1, h2⟩ := hinv
  simp only [heapSum]
  rw [readSegs_allocArr_new _ _ _ (Nat.le_refl _)]
  simp only [h1, h2]
  have := addrsFrom_read h.cells (cuts.foldl sumGoStep ([], 0)).1 _ (Nat.le_refl _)
  rw [List.take_length] at this
  exact this

theorem heapSum_sum (h : Heap) (ls : List (List Seg)) :
    trimLast (dropRule (anyInfinite ls)) (readSegs (heapSum h (calcCuts ls)).1 (heapSum h (calcCuts ls)).2) =
      sum ls := by
  rw [heapSum_refines]
  exact sumGoEdges_eq _ _


/-! ### result slices stay readable: what `modepb.Sum` needs to hand the results of `Shift` on to `Sum` -/

/-- A slice whose elements are existing cells and whose array exists (or which is empty). -/
def ValidSlice (h : Heap) (sl : Slice) : Prop :=
  ValidAddrs h (readSlice h sl) ∧ (sl.arr < h.arrays.length ∨ sl.len = 0)

theorem readSegs_extends' {h0 h : Heap} (e : h0.Extends h) (sl : Slice) (vs : ValidSlice h0 sl) :
    readSegs h sl = readSegs h0 sl := by
  rcases vs.2 with ha | h0len
  · exact readSegs_extends e sl ha vs.1
  · simp [readSegs, readSlice, h0len]

theorem ValidSlice.extends {h0 h : Heap} {sl : Slice} (vs : ValidSlice h0 sl) (e : h0.Extends h) :
    ValidSlice h sl := by
  rcases vs.2 with ha | h0len
  · refine ⟨?_, Or.inl (Nat.lt_of_lt_of_le ha e.arrays_le)⟩
    rw [readSlice_extends e sl ha]
    exact vs.1.extends e
  · refine ⟨?_, Or.inr h0len⟩
    intro a hmem
    simp [readSlice, h0len] at hmem

theorem validSlice_allocArr (h : Heap) (xs : List Nat) (n : Nat) (v : ValidAddrs h xs) :
    ValidSlice (allocArr h xs).1 ⟨(allocArr h xs).2, 0, n⟩ := by
  refine ⟨?_, Or.inl (by simp [allocArr])⟩
  intro a hmem
  have : a ∈ xs := by
    simp only [readSlice, allocArr] at hmem
    simp at hmem
    exact List.mem_of_mem_take hmem
  exact v a this

theorem heapCut_after_valid (h : Heap) (d : Int) (addr : Nat) (ha : addr < h.cells.length) (l : Int)
    (hl : (readCell h addr).len = some l) (hlt : d < l) :
    ∃ x, (heapCut h d addr).2.2.1 = some x ∧ x < (heapCut h d addr).1.cells.length := by
  unfold heapCut
  simp only []
  by_cases hd : d ≤ 0
  · simp only [hd, if_true]
    exact ⟨addr, rfl, ha⟩
  · simp only [hd, if_false, hl]
    have : ¬ l ≤ d := by omega
    simp only [this, if_false]
    exact ⟨_, rfl, by simp [allocCell]⟩

theorem heapShiftNegLoop_valid (h : Heap) (d : Int) (sl : Slice) (cur : Int) (i : Nat) (elems : List Nat)
    (hel : elems = (readSlice h sl).drop i) (v : ValidAddrs h elems) (hs : sl.arr < h.arrays.length ∨ sl.len = 0) :
    ValidSlice (heapShiftNegLoop h d sl cur i elems).1 (heapShiftNegLoop h d sl cur i elems).2 := by
  induction elems generalizing cur i with
  | nil =>
    refine ⟨?_, Or.inr rfl⟩
    intro a hmem
    simp [heapShiftNegLoop, readSlice] at hmem
  | cons a rest ih =>
    have hrest : rest = (readSlice h sl).drop (i + 1) := by
      have := congrArg List.tail hel
      simpa [List.tail_drop] using this
    simp only [heapShiftNegLoop]
    cases hl : (readCell h a).len with
    | none =>
      simp only []
      have hrd : readSlice h ⟨sl.arr, sl.off + i, sl.len - i⟩ = a :: rest := by
        rw [hel]
        simp only [readSlice, List.drop_take, List.drop_drop]
      refine ⟨by rw [hrd]; exact v, ?_⟩
      rcases hs with h1 | h2
      · exact Or.inl h1
      · exact Or.inr (by simp [h2])
    | some l =>
      simp only []
      by_cases hc : cur + l > d
      · simp only [hc, if_true]
        have ha : a < h.cells.length := v a (List.mem_cons_self)
        obtain ⟨x, hx, hxv⟩ := heapCut_after_valid h (d - cur) a ha l hl (by omega)
        apply validSlice_allocArr
        intro b hb
        rw [hx] at hb
        simp only [Option.getD_some, List.mem_cons] at hb
        rcases hb with rfl | hb
        · exact hxv
        · exact (heapCut_extends h (d - cur) a).cells_lt (v.tail b hb)
      · simp only [hc, if_false]
        exact ih (cur + l) (i + 1) hrest v.tail

theorem heapShift_valid (h : Heap) (d : Int) (sl : Slice) (vs : ValidSlice h sl) :
    ValidSlice (heapShift h d sl).1 (heapShift h d sl).2 := by
  unfold heapShift
  simp only []
  by_cases hd : d = 0
  · simp only [hd, if_true]; exact vs
  · simp only [hd, if_false]
    cases hel : readSlice h sl with
    | nil => exact vs
    | cons first rest =>
      have v := vs.1
      rw [hel] at v
      simp only []
      by_cases hpos : d > 0
      · simp only [hpos, if_true]
        by_cases hmag : (readCell h first).mag = 0
        · simp only [hmag, if_true]
          cases hl : (readCell h first).len with
          | none => exact vs
          | some l =>
            simp only []
            apply validSlice_allocArr
            intro b hb
            simp only [List.mem_cons] at hb
            rcases hb with rfl | hb
            · simp [allocCell]
            · exact (allocCell_extends h _).cells_lt (v.tail b hb)
        · simp only [hmag, if_false]
          apply validSlice_allocArr
          intro b hb
          simp only [List.mem_cons] at hb
          rcases hb with rfl | hb
          · simp [allocCell]
          · exact (allocCell_extends h _).cells_lt (v b (by simpa using hb))
      · simp only [hpos, if_false]
        exact heapShiftNegLoop_valid h (-d) sl 0 0 (first :: rest) (by simp [hel]) v vs.2


/-! ### `modepb.Sum` -/

/-- The mode a heap mode reads as. -/
def HeapMode.toMode (h : Heap) (m : HeapMode) : Mode := ⟨m.start, readSegs h m.segs⟩

theorem heapAlign_refines (e l : Int) (h : Heap) (ms : List HeapMode) (v : ∀ m ∈ ms, ValidSlice h m.segs) :
    (heapAlign e l h ms).2.map (readSegs (heapAlign e l h ms).1) = alignLoop e l (ms.map (HeapMode.toMode h)) ∧
    ∀ sl ∈ (heapAlign e l h ms).2, ValidSlice (heapAlign e l h ms).1 sl := by
  induction ms generalizing h with
  | nil => exact ⟨rfl, fun sl hsl => by simp [heapAlign] at hsl⟩
  | cons m ms ih =>
    have vm := v m (List.mem_cons_self)
    have e1 := heapShift_extends h (m.start.getD l - e) m.segs
    have v' : ∀ m' ∈ ms, ValidSlice (heapShift h (m.start.getD l - e) m.segs).1 m'.segs :=
      fun m' hm' => (v m' (List.mem_cons_of_mem _ hm')).extends e1
    have ih' := ih (heapShift h (m.start.getD l - e) m.segs).1 v'
    have e2 := heapAlign_extends e l (heapShift h (m.start.getD l - e) m.segs).1 ms
    have hv := heapShift_valid h (m.start.getD l - e) m.segs vm
    have hmodes : ms.map (HeapMode.toMode (heapShift h (m.start.getD l - e) m.segs).1) =
        ms.map (HeapMode.toMode h) := by
      apply List.map_congr_left
      intro m' hm'
      simp only [HeapMode.toMode, readSegs_extends' e1 m'.segs (v m' (List.mem_cons_of_mem _ hm'))]
    simp only [heapAlign, alignLoop, List.map_cons]
    refine ⟨?_, ?_⟩
    · rw [ih'.1, hmodes, readSegs_extends' e2 _ hv, heapShift_refines h _ m.segs vm.1]
      rfl
    · intro sl hsl
      simp only [List.mem_cons] at hsl
      rcases hsl with rfl | hsl
      · exact hv.extends e2
      · exact ih'.2 sl hsl

/-- The lists `modepb.Sum` hands to `segmentpb.Sum`: aligned to the earliest start time if any mode has one. -/
def modeSumLists (ms : List Mode) : List (List Seg) :=
  match startsLoop none none ms with
  | (some e, some l) => alignLoop e l ms
  | _ => ms.map (·.segs)

theorem heapModeSum_refines (h : Heap) (ms : List HeapMode) (v : ∀ m ∈ ms, ValidSlice h m.segs) :
    (heapModeSum h ms).2.map (fun r => (⟨r.start,
        trimLast (dropRule (anyInfinite (modeSumLists (ms.map (HeapMode.toMode h)))))
          (readSegs (heapModeSum h ms).1 r.segs)⟩ : Mode)) =
      modeSum (ms.map (HeapMode.toMode h)) := by
  cases ms with
  | nil => rfl
  | cons m ms' =>
    have hal := fun e l => heapAlign_refines e l h (m :: ms') v
    have hmap : (m :: ms').map (fun m => readSegs h m.segs) = ((m :: ms').map (HeapMode.toMode h)).map (·.segs) := by
      simp [HeapMode.toMode]
    have hst : (m :: ms').map (fun m => (⟨m.start, readSegs h m.segs⟩ : Mode)) = (m :: ms').map (HeapMode.toMode h) := rfl
    unfold heapModeSum modeSum modeSumLists
    simp only [hst]
    generalize startsLoop none none (List.map (HeapMode.toMode h) (m :: ms')) = st
    rcases st with ⟨_ | e, _ | l⟩ <;> simp only [Option.map_some]
    · rw [hmap, heapSum_sum]; rfl
    · rw [hmap, heapSum_sum]; rfl
    · rw [hmap, heapSum_sum]; rfl
    · rw [← (hal e l).1, heapSum_sum]; rfl

/-! ### `modepb.Shift` with the mode as a heap object (HeapTrace) -/

theorem readMode_setMode_new (b : Heap) (ms : List ModeObj) (x : ModeObj) (f : ModeObj → ModeObj) :
    readMode (setMode ⟨b, ms ++ [x]⟩ ms.length f) ms.length = f x := by
  simp only [readMode, setMode, modifyNth_length_append]
  simp

theorem modeShiftTrace_refines (h : HeapM) (d : Int) (p : Nat) (v : ValidMode h p) :
    observe (((modeShiftTrace false h d p).1.getLast?).getD h) (modeShiftTrace false h d p).2 =
      ((modeShift d ⟨(observe h p).1, (observe h p).2⟩).start,
       (modeShift d ⟨(observe h p).1, (observe h p).2⟩).segs) := by
  obtain ⟨_, _, hc⟩ := v
  have va : ValidAddrs h.base (readSlice h.base (readMode h p).segs) := hc
  have hcl := cloneSlice_refines h.base (readMode h p).segs va
  unfold modeShiftTrace modeShift
  by_cases hd : d = 0
  · simp [hd, observe]
  · simp only [hd, if_false, observe]
    cases hs : (readMode h p).start with
    | none =>
      simp only [Bool.false_eq_true, if_false, List.getLast?_cons_cons, List.getLast?_singleton, Option.getD_some]
      simp only [cloneMode, allocMode]
      rw [readMode_setMode_new]
      simp only [hs]
      have hrm : readMode ⟨(cloneSlice h.base (readMode h p).segs).1,
          h.modes ++ [⟨none, (cloneSlice h.base (readMode h p).segs).2⟩]⟩ h.modes.length =
          ⟨none, (cloneSlice h.base (readMode h p).segs).2⟩ := by
        simp [readMode]
      simp only [setMode, hrm]
      rw [heapShift_refines _ d _ hcl.2, hcl.1]
    | some s =>
      simp only [Bool.false_eq_true, if_false, List.getLast?_cons_cons, List.getLast?_singleton, Option.getD_some]
      simp only [cloneMode, allocMode]
      rw [readMode_setMode_new]
      simp only [hs, setMode]
      rw [hcl.1]

/-! ### the variant of `Shift` without the clone: same result, damaged argument -/

theorem readCell_setCell_ne (h : Heap) (a b : Nat) (f : Seg → Seg) (hne : b ≠ a) :
    readCell (setCell h a f) b = readCell h b := by
  simp only [readCell, setCell, modifyNth_getElem?_ne _ _ _ _ hne]

theorem readCell_setCell_same (h : Heap) (a : Nat) (f : Seg → Seg) (ha : a < h.cells.length) :
    readCell (setCell h a f) a = f (readCell h a) := by
  simp only [readCell, setCell, modifyNth_getElem?]
  rw [List.getElem?_eq_getElem ha]
  rfl

/-- The variant of `Shift` without the clone returns the right list all the same (when the first pointer does not
occur again in the list): comparing RESULTS cannot find it. -/
theorem shiftTrace_noclone_result (h : Heap) (d l : Int) (sl : Slice) (first : Nat) (rest : List Nat)
    (hd : d > 0) (hs : readSlice h sl = first :: rest) (hf : first < h.cells.length)
    (hcell : readCell h first = ⟨0, some l⟩) (hnot : first ∉ rest) :
    ∃ hl, (shiftTrace false h d sl).1.getLast? = some hl ∧
      readSegs hl (shiftTrace false h d sl).2 = shift d (readSegs h sl) := by
  have hne : d ≠ 0 := by omega
  have hlen := readSlice_length_le h sl
  rw [hs] at hlen
  unfold shiftTrace
  simp only [hne, if_false, hs, hd, if_true, hcell, Bool.false_eq_true]
  refine ⟨_, getLast?_cons_of_getLast? _ _ _ (getLast?_cons_of_getLast? _ _ _ (buildOut_last _ _ _)), ?_⟩
  simp only [buildOut_id]
  have := readSegs_allocArr_new (setCell h first (fun s => ⟨s.mag, some (l + d)⟩)) (first :: rest) sl.len
    (by simpa using hlen)
  simp only [allocArr] at this ⊢
  simp only [setCell] at this ⊢
  rw [this]
  simp only [shift, hne, if_false, readSegs, hs, List.map_cons, hd, if_true, hcell]
  congr 1
  · have := readCell_setCell_same h first (fun s => ⟨s.mag, some (l + d)⟩) hf
    simp only [setCell, hcell] at this
    exact this
  · apply List.map_congr_left
    intro b hb
    have hbne : b ≠ first := fun e => hnot (e ▸ hb)
    have := readCell_setCell_ne h first b (fun s => ⟨s.mag, some (l + d)⟩) hbne
    simpa [setCell] using this

end ScVerif.C18
