import ScVerif.C18.Mode
import ScVerif.C18.SumLemmas
/-! Lemmas about the mode operations. -/
namespace ScVerif.C18

theorem tOrST_eq (t : Int) (m : Mode) : tOrST t m = m.start.getD t := by
  unfold tOrST; cases m.start <;> rfl

/-! ### concatenation of segment lists -/

theorem lenSum_nonneg (pre : List Seg) (h : NonNeg pre) : 0 ≤ lenSum pre := by
  induction pre with
  | nil => simp [lenSum]
  | cons s pre ih =>
    simp only [lenSum]
    have := ih h.tail
    cases hs : s.len with
    | none => simp; omega
    | some l => have := h.head l hs; simp; omega

/-- A prefix of finite segments occupies `[0, lenSum pre)`; the rest follows it. -/
theorem den_append (pre rest : List Seg) (hfin : ∀ s ∈ pre, s.len ≠ none) (hnn : NonNeg pre) (y : Int) :
    den (pre ++ rest) y = if y < lenSum pre then den pre y else den rest (y - lenSum pre) := by
  induction pre generalizing y with
  | nil =>
    simp only [List.nil_append, lenSum]
    by_cases hy : y < 0
    · simp [hy, den_neg rest y hy, den]
    · simp [hy]
  | cons s pre ih =>
    have hp := lenSum_nonneg pre hnn.tail
    cases hs : s.len with
    | none => exact absurd hs (hfin s List.mem_cons_self)
    | some l =>
      have hl := hnn.head l hs
      simp only [List.cons_append, lenSum, hs, Option.getD_some]
      by_cases hy : y < 0
      · have : y < l + lenSum pre := by omega
        simp [this, den_neg _ y hy]
      · have hy0 : 0 ≤ y := by omega
        rw [den_cons_some s _ y l hs hy0, den_cons_some s pre y l hs hy0]
        rw [ih (fun x hx => hfin x (List.mem_cons_of_mem _ hx)) hnn.tail (y - l)]
        by_cases h1 : y < l
        · have : y < l + lenSum pre := by omega
          simp [h1, this]
        · by_cases h2 : y - l < lenSum pre
          · have : y < l + lenSum pre := by omega
            simp [h1, h2, this]
          · have : ¬ y < l + lenSum pre := by omega
            simp only [h1, h2, this, if_false]
            congr 1
            omega

theorem den_finite_after (pre : List Seg) (hfin : ∀ s ∈ pre, s.len ≠ none) (hnn : NonNeg pre) (y : Int)
    (hy : lenSum pre ≤ y) : den pre y = 0 := by
  have := den_append pre [] hfin hnn y
  have h1 : ¬ y < lenSum pre := by omega
  simp only [List.append_nil, h1, if_false, den_nil] at this
  exact this

def optToList : Option Seg → List Seg
  | none => []
  | some s => [s]

theorem den_optToList (o : Option Seg) (z : Int) : den (optToList o) z = denOpt o z := by
  cases o <;> rfl

/-- `Cut` strictly inside a segment (or at its start), seen in front of any `rest`: `after` followed
by `rest` is the list translated left by `δ`. -/
theorem cutSeg_after_cons (δ : Int) (s : Seg) (rest : List Seg) (h0 : 0 ≤ δ)
    (hin : ∀ l, s.len = some l → δ < l) (z : Int) (hz : 0 ≤ z) :
    den (optToList (cutSeg δ s).after ++ rest) z = den (s :: rest) (z + δ) := by
  unfold cutSeg
  by_cases hd : δ ≤ 0
  · have : δ = 0 := by omega
    subst this
    simp [optToList]
  · simp only [hd, if_false]
    cases hs : s.len with
    | none =>
      simp only [optToList, List.singleton_append]
      rw [den_cons_none s rest z hs hz, den_cons_none s rest _ hs (by omega)]
    | some l =>
      have hl := hin l hs
      have : ¬ l ≤ δ := by omega
      simp only [this, if_false, optToList, List.singleton_append]
      rw [den_cons_some ⟨s.mag, some (l - δ)⟩ rest z (l - δ) rfl hz,
        den_cons_some s rest _ l hs (by omega)]
      by_cases h1 : z < l - δ
      · have : z + δ < l := by omega
        simp [h1, this]
      · have : ¬ z + δ < l := by omega
        simp only [h1, this, if_false]
        congr 1
        omega

/-- … and `before` is the segment up to `δ`, then nothing. -/
theorem cutSeg_before_single (δ : Int) (s : Seg) (rest : List Seg) (h0 : 0 ≤ δ)
    (hin : ∀ l, s.len = some l → δ < l) (z : Int) :
    den (optToList (cutSeg δ s).before) z = if z < δ then den (s :: rest) z else 0 := by
  rw [den_optToList]
  obtain ⟨h1, h2, _⟩ := cutSeg_spec δ s h0
  by_cases hz : z < δ
  · simp only [hz, if_true]
    rw [h1 z hz]
    by_cases hzn : z < 0
    · rw [den_neg _ _ hzn, den_neg _ _ hzn]
    · have hz0 : 0 ≤ z := by omega
      cases hs : s.len with
      | none => rw [den_cons_none s [] z hs hz0, den_cons_none s rest z hs hz0]
      | some l =>
        have := hin l hs
        have hzl : z < l := by omega
        rw [den_cons_some s [] z l hs hz0, den_cons_some s rest z l hs hz0]
        simp [hzl]
  · simp only [hz, if_false]
    exact h2 z (by omega)

/-! ### Cut -/

theorem take_append_getElem_drop (segs : List Seg) (i : Nat) (s : Seg) (h : segs[i]? = some s) :
    segs = segs.take i ++ s :: segs.drop (i + 1) := by
  induction segs generalizing i with
  | nil => simp at h
  | cons x xs ih =>
    cases i with
    | zero => simp at h; subst h; simp
    | succ i =>
      rw [List.getElem?_cons_succ] at h
      simp only [List.take_succ_cons, List.drop_succ_cons, List.cons_append]
      rw [← ih i h]

theorem NonNeg.take {segs : List Seg} (h : NonNeg segs) (i : Nat) : NonNeg (segs.take i) :=
  fun s hs l hl => h s (List.mem_of_mem_take hs) l hl

/-- The index computed by `ActiveAt` is never out of range where `modepb.Cut` indexes with it. -/
theorem modeCut_index_valid (segs : List Seg) (d : Int) (h : (activeAt d segs).2 ≠ segs.length) :
    (segs[(activeAt d segs).2]?).isSome = true := by
  have hle : (activeAt d segs).2 ≤ segs.length := by
    unfold activeAt
    by_cases hd : d < 0
    · simp [hd]
    · simp only [hd, if_false]
      exact (activeAtLoop_spec segs d (by omega)).2.2.1
  have hlt : (activeAt d segs).2 < segs.length := by omega
  simp [hlt]

/-- The core of `modepb.Cut`, on the relative time axis: cutting the segment that is active at `d`
yields a `before` list equal to the original before `d` (and `0` afterwards) and an `after` list
equal to the original translated left by `d`. -/
theorem cut_lists (segs : List Seg) (hnn : NonNeg segs) (d : Int) (hd : 0 ≤ d) (s : Seg)
    (hs : segs[(activeAt d segs).2]? = some s) :
    let e := (activeAt d segs).1
    let i := (activeAt d segs).2
    let c := cutSeg (d - e) s
    (∀ y, den (segs.take i ++ optToList c.before) y = if y < d then den segs y else 0) ∧
    (∀ z, 0 ≤ z → den (optToList c.after ++ segs.drop (i + 1)) z = den segs (z + d)) := by
  intro e i c
  have hn : ¬ d < 0 := by omega
  have hspec := activeAtLoop_spec segs d hd
  have hact : activeAt d segs = activeAtLoop d 0 0 segs := by simp [activeAt, hn]
  have he : e = lenSum (segs.take i) := by simp only [e, i, hact]; exact hspec.1
  have hed : e ≤ d := by simp only [e, hact]; exact hspec.2.1
  have hin : ∀ l, s.len = some l → d - e < l := by
    intro l hl
    have := (hspec.2.2.2.2.1 s (by rw [← hact]; exact hs)).2 l hl
    simp only [e, hact]; omega
  have hfin : ∀ x ∈ segs.take i, x.len ≠ none := by
    simp only [i, hact]; exact hspec.2.2.2.2.2
  have hsplit := take_append_getElem_drop segs i s hs
  have hpre := hnn.take i
  constructor
  · intro y
    rw [den_append _ _ hfin hpre, ← he, cutSeg_before_single (d - e) s (segs.drop (i + 1)) (by omega) hin]
    have horig : den segs y = if y < e then den (segs.take i) y else den (s :: segs.drop (i + 1)) (y - e) := by
      conv => lhs; rw [hsplit]
      rw [den_append _ _ hfin hpre, ← he]
    by_cases h1 : y < e
    · have : y < d := by omega
      simp [h1, this, horig]
    · by_cases h2 : y < d
      · have : y - e < d - e := by omega
        simp [h1, h2, this, horig]
      · have : ¬ y - e < d - e := by omega
        simp [h1, h2, this]
  · intro z hz
    rw [cutSeg_after_cons (d - e) s _ (by omega) hin z hz]
    conv => rhs; rw [hsplit]
    rw [den_append _ _ hfin hpre, ← he]
    have : ¬ z + d < e := by omega
    simp only [this, if_false]
    congr 1
    omega

/-! ### Sum: start times and alignment -/

/-- The start times present in a list of modes. -/
def starts (ms : List Mode) : List Int := ms.filterMap (·.start)

theorem startsLoop_spec (ms : List Mode) (e l : Option Int)
    (hel : (e = none ∧ l = none) ∨ (∃ a b, e = some a ∧ l = some b ∧ a ≤ b)) :
    let r := startsLoop e l ms
    ((r.1 = none ∧ r.2 = none ∧ e = none ∧ starts ms = []) ∨
     (∃ a b, r.1 = some a ∧ r.2 = some b ∧ a ≤ b ∧
        (a ∈ starts ms ∨ e = some a) ∧ (b ∈ starts ms ∨ l = some b) ∧
        (∀ s ∈ starts ms, a ≤ s ∧ s ≤ b) ∧ (∀ x, e = some x → a ≤ x) ∧ (∀ x, l = some x → x ≤ b))) := by
  induction ms generalizing e l with
  | nil =>
    simp only [startsLoop, starts, List.filterMap_nil]
    rcases hel with ⟨rfl, rfl⟩ | ⟨a, b, rfl, rfl, hab⟩
    · left; simp
    · right; exact ⟨a, b, rfl, rfl, hab, Or.inr rfl, Or.inr rfl, by simp, by simp, by simp⟩
  | cons m ms ih =>
    cases hm : m.start with
    | none =>
      have hst : starts (m :: ms) = starts ms := by simp [starts, hm]
      simp only [startsLoop, hm, hst]
      exact ih e l hel
    | some st =>
      have hst : starts (m :: ms) = st :: starts ms := by simp [starts, hm]
      simp only [startsLoop, hm, hst]
      rcases hel with ⟨rfl, rfl⟩ | ⟨a, b, rfl, rfl, hab⟩
      · simp only []
        have := ih (some st) (some st) (Or.inr ⟨st, st, rfl, rfl, Int.le_refl _⟩)
        rcases this with ⟨_, _, h, _⟩ | ⟨a, b, h1, h2, hab, ha, hb, hall, hle, hge⟩
        · cases h
        · right
          have hle' := hle st rfl
          have hge' := hge st rfl
          refine ⟨a, b, h1, h2, hab, Or.inl ?_, Or.inl ?_, ?_, by simp, by simp⟩
          · rcases ha with ha | ha
            · exact List.mem_cons_of_mem _ ha
            · cases ha; exact List.mem_cons_self
          · rcases hb with hb | hb
            · exact List.mem_cons_of_mem _ hb
            · cases hb; exact List.mem_cons_self
          · intro s hs
            rcases List.mem_cons.mp hs with rfl | hs
            · exact ⟨hle', hge'⟩
            · exact hall s hs
      · simp only []
        have key : ∀ a' b', a' ≤ b' → (a' = st ∨ a' = a) → (b' = st ∨ b' = b) → a' ≤ st → a' ≤ a →
            st ≤ b' → b ≤ b' →
            let r := startsLoop (some a') (some b') ms
            (r.1 = none ∧ r.2 = none ∧ some a = none ∧ st :: starts ms = []) ∨
            ∃ a2 b2, r.1 = some a2 ∧ r.2 = some b2 ∧ a2 ≤ b2 ∧
              (a2 ∈ st :: starts ms ∨ some a = some a2) ∧ (b2 ∈ st :: starts ms ∨ some b = some b2) ∧
              (∀ s ∈ st :: starts ms, a2 ≤ s ∧ s ≤ b2) ∧ (∀ x, some a = some x → a2 ≤ x) ∧
              (∀ x, some b = some x → x ≤ b2) := by
          intro a' b' hab' ha' hb' h1 h2 h3 h4
          have := ih (some a') (some b') (Or.inr ⟨a', b', rfl, rfl, hab'⟩)
          rcases this with ⟨_, _, h, _⟩ | ⟨a2, b2, r1, r2, hab2, ha2, hb2, hall, hle, hge⟩
          · cases h
          · right
            have hle' := hle a' rfl
            have hge' := hge b' rfl
            refine ⟨a2, b2, r1, r2, hab2, ?_, ?_, ?_, ?_, ?_⟩
            · rcases ha2 with ha2 | ha2
              · exact Or.inl (List.mem_cons_of_mem _ ha2)
              · cases ha2
                rcases ha' with rfl | rfl
                · exact Or.inl List.mem_cons_self
                · exact Or.inr rfl
            · rcases hb2 with hb2 | hb2
              · exact Or.inl (List.mem_cons_of_mem _ hb2)
              · cases hb2
                rcases hb' with rfl | rfl
                · exact Or.inl List.mem_cons_self
                · exact Or.inr rfl
            · intro s hs
              rcases List.mem_cons.mp hs with rfl | hs
              · exact ⟨by omega, by omega⟩
              · exact hall s hs
            · intro x hx; cases hx; omega
            · intro x hx; cases hx; omega
        by_cases c1 : st < a <;> by_cases c2 : st > b
        · simp only [c1, c2, if_true]
          exact key st st (Int.le_refl _) (Or.inl rfl) (Or.inl rfl) (by omega) (by omega) (by omega) (by omega)
        · simp only [c1, c2, if_true, if_false]
          exact key st b (by omega) (Or.inl rfl) (Or.inr rfl) (by omega) (by omega) (by omega) (by omega)
        · simp only [c1, c2, if_true, if_false]
          exact key a st (by omega) (Or.inr rfl) (Or.inl rfl) (by omega) (by omega) (by omega) (by omega)
        · simp only [c1, c2, if_false]
          exact key a b hab (Or.inr rfl) (Or.inr rfl) (by omega) (by omega) (by omega) (by omega)

/-- The `IsZero()`-seeded loop of the code before `fix:` 7872cfb computes what the `Option`-seeded loop
computes as long as no start time is the zero instant. -/
theorem startsLoopLegacy_eq (zero : Int) (ms : List Mode) (hz : ∀ s ∈ starts ms, s ≠ zero)
    (e l : Int) (n : Nat) (eo lo : Option Int)
    (hR : (n = 0 ∧ e = zero ∧ l = zero ∧ eo = none ∧ lo = none) ∨
          (0 < n ∧ eo = some e ∧ lo = some l ∧ e ≠ zero ∧ l ≠ zero)) :
    ((startsLoopLegacy zero e l n ms).2.2 = 0 ∧ startsLoop eo lo ms = (none, none)) ∨
    (0 < (startsLoopLegacy zero e l n ms).2.2 ∧
      startsLoop eo lo ms =
        (some (startsLoopLegacy zero e l n ms).1, some (startsLoopLegacy zero e l n ms).2.1)) := by
  induction ms generalizing e l n eo lo with
  | nil =>
    simp only [startsLoopLegacy, startsLoop]
    rcases hR with ⟨h0, _, _, rfl, rfl⟩ | ⟨hn, rfl, rfl, _, _⟩
    · exact Or.inl ⟨h0, rfl⟩
    · exact Or.inr ⟨hn, rfl⟩
  | cons m ms ih =>
    cases hm : m.start with
    | none =>
      have hst : starts (m :: ms) = starts ms := by simp [starts, hm]
      simp only [startsLoopLegacy, startsLoop, hm]
      exact ih (by rw [← hst]; exact hz) e l n eo lo hR
    | some st =>
      have hst : starts (m :: ms) = st :: starts ms := by simp [starts, hm]
      have hz' : ∀ s ∈ starts ms, s ≠ zero := fun s hs => hz s (by rw [hst]; exact List.mem_cons_of_mem _ hs)
      have hstz : st ≠ zero := hz st (by rw [hst]; exact List.mem_cons_self)
      simp only [startsLoopLegacy, startsLoop, hm]
      rcases hR with ⟨_, rfl, rfl, rfl, rfl⟩ | ⟨_, rfl, rfl, hez, hlz⟩
      · simp only [true_or, if_true]
        exact ih hz' st st (n + 1) (some st) (some st) (Or.inr ⟨by omega, rfl, rfl, hstz, hstz⟩)
      · simp only [hez, hlz, false_or]
        by_cases c1 : st < e <;> by_cases c2 : st > l <;> simp only [c1, c2, if_true, if_false]
        · exact ih hz' st st (n + 1) _ _ (Or.inr ⟨by omega, rfl, rfl, hstz, hstz⟩)
        · exact ih hz' st l (n + 1) _ _ (Or.inr ⟨by omega, rfl, rfl, hstz, hlz⟩)
        · exact ih hz' e st (n + 1) _ _ (Or.inr ⟨by omega, rfl, rfl, hez, hstz⟩)
        · exact ih hz' e l (n + 1) _ _ (Or.inr ⟨by omega, rfl, rfl, hez, hlz⟩)

/-- A non-negative shift keeps lengths non-negative and the value "at infinity". -/
theorem shift_nonNeg (d : Int) (segs : List Seg) (hd : 0 ≤ d) (h : NonNeg segs) : NonNeg (shift d segs) := by
  unfold shift
  by_cases hd0 : d = 0
  · simp [hd0, h]
  · simp only [hd0, if_false]
    cases segs with
    | nil => exact h
    | cons first rest =>
      have hpos : d > 0 := by omega
      simp only [hpos, if_true]
      by_cases hm : first.mag = 0
      · simp only [hm, if_true]
        cases hf : first.len with
        | none => exact h
        | some l =>
          intro s hs len hlen
          rcases List.mem_cons.mp hs with rfl | hs
          · simp at hlen; have := h.head l hf; omega
          · exact h.tail s hs len hlen
      · simp only [hm, if_false]
        intro s hs len hlen
        rcases List.mem_cons.mp hs with rfl | hs
        · simp at hlen; omega
        · exact h s hs len hlen

theorem shift_tailMag (d : Int) (segs : List Seg) (hd : 0 ≤ d) : tailMag (shift d segs) = tailMag segs := by
  unfold shift
  by_cases hd0 : d = 0
  · simp [hd0]
  · simp only [hd0, if_false]
    cases segs with
    | nil => rfl
    | cons first rest =>
      have hpos : d > 0 := by omega
      simp only [hpos, if_true]
      by_cases hm : first.mag = 0
      · simp only [hm, if_true]
        cases hf : first.len with
        | none => rfl
        | some l => simp [tailMag, hf]
      · simp only [hm, if_false]
        simp [tailMag]

/-- Pointwise sum of the modes on the absolute timeline; a mode without a start time starts at `ref`. -/
def modeDenSum (ref : Int) : List Mode → Int → Int
  | [], _ => 0
  | m :: ms, x => modeDen ref m x + modeDenSum ref ms x

theorem alignLoop_spec (earliest latest : Int) (ms : List Mode)
    (hnn : ∀ m ∈ ms, NonNeg m.segs) (hle : earliest ≤ latest)
    (hall : ∀ s ∈ starts ms, earliest ≤ s) :
    AllNonNeg (alignLoop earliest latest ms) ∧
    tailSum (alignLoop earliest latest ms) = tailSum (ms.map (·.segs)) ∧
    ∀ x, denSum (alignLoop earliest latest ms) (x - earliest) = modeDenSum latest ms x := by
  induction ms with
  | nil => exact ⟨fun l hl => by simp [alignLoop] at hl, rfl, fun x => rfl⟩
  | cons m ms ih =>
    have hm := hnn m List.mem_cons_self
    have hall' : ∀ s ∈ starts ms, earliest ≤ s := by
      intro s hs
      apply hall
      unfold starts at hs ⊢
      rw [List.filterMap_cons]
      cases m.start <;> simp [hs]
    obtain ⟨i1, i2, i3⟩ := ih (fun x hx => hnn x (List.mem_cons_of_mem _ hx)) hall'
    have hdiff : 0 ≤ m.start.getD latest - earliest := by
      cases hst : m.start with
      | none => simp; omega
      | some s =>
        have : earliest ≤ s := by
          apply hall
          unfold starts
          rw [List.filterMap_cons, hst]
          exact List.mem_cons_self
        simp; omega
    simp only [alignLoop]
    refine ⟨?_, ?_, ?_⟩
    · intro l hl
      rcases List.mem_cons.mp hl with rfl | hl
      · exact shift_nonNeg _ _ hdiff hm
      · exact i1 l hl
    · simp only [tailSum, List.map_cons, i2]
      rw [shift_tailMag _ _ hdiff]
    · intro x
      simp only [denSum, modeDenSum, i3 x]
      congr 1
      rw [shift_spec _ _ hm]
      unfold modeDen
      by_cases hx : x - earliest < 0
      · simp only [hx, if_true]
        symm
        apply den_neg
        cases hst : m.start with
        | none => simp; omega
        | some s => rw [hst] at hdiff; simp at hdiff ⊢; omega
      · simp only [hx, if_false]
        congr 1
        cases hst : m.start with
        | none => simp; omega
        | some s => simp; omega

end ScVerif.C18
