import ScVerif.C18.HeapTrace
/-!
# C18 — `segmentpb.Shift` statement by statement

`heapShift` (HeapOps) folds `first = proto.Clone(first); first.Length = durationpb.New(…)` into one allocation
and `make` + `out[0] = …` + `copy(out[1:], …)` into another.  Here every statement of `segmentpb.Shift` that
allocates or WRITES is a heap of its own:

* the clone of an idle first segment (a new cell with the same contents), then the write of its `Length` —
  a store into a segment cell, the only one in the package besides the loop of `Sum`;
* `make([]*Segment, n)` (a new array of nil pointers), then the store `out[0] = x`, then `copy(out[1:], xs)`;
* in the negative branch the allocations of `Cut`, then the same three array statements.

`clone := false` is the variant without `proto.Clone` (what the comment in the code warns about: "clone so we
don't update the original"): its `Length` store lands in the caller's cell.

`modeSumTrace` strings these traces together for `modepb.Sum`: every `Shift` of its alignment loop, then the loop
of `Sum` iteration by iteration.

(Proof only, not driver-linked.  `shiftTrace_last`: the last heap is the heap of `heapShift`, which the examples
of PropsHeap tie to the pure model.)
-/
namespace ScVerif.C18

/-- `cell.X = …` through the pointer `a`. -/
def setCell (h : Heap) (a : Nat) (f : Seg → Seg) : Heap := ⟨modifyNth a f h.cells, h.arrays⟩

/-- A store into a cell allocated after `h0` leaves `h0` intact. -/
theorem setCell_extends {h0 h : Heap} (e : h0.Extends h) (a : Nat) (f : Seg → Seg)
    (ha : h0.cells.length ≤ a) : h0.Extends (setCell h a f) := by
  obtain ⟨⟨c, hc⟩, harr⟩ := e
  refine ⟨⟨modifyNth (a - h0.cells.length) f c, ?_⟩, harr⟩
  simp only [setCell, hc]
  exact modifyNth_append_right _ _ _ _ ha

/-- Any update of one array, e.g. `copy(array[id][pos:], xs)`. -/
def updArr (h : Heap) (id : Nat) (g : List Nat → List Nat) : Heap := ⟨h.cells, modifyNth id g h.arrays⟩

theorem updArr_extends {h0 h : Heap} (e : h0.Extends h) (id : Nat) (g : List Nat → List Nat)
    (hid : h0.arrays.length ≤ id) : h0.Extends (updArr h id g) := by
  obtain ⟨hc, ⟨a, ha⟩⟩ := e
  refine ⟨hc, ⟨modifyNth (id - h0.arrays.length) g a, ?_⟩⟩
  simp only [updArr, ha]
  exact modifyNth_append_right _ _ _ _ hid

/-- `copy(dst[pos:], xs)` on a list. -/
def copyInto (pos : Nat) (xs dst : List Nat) : List Nat := dst.take pos ++ xs ++ dst.drop (pos + xs.length)

/-- The heaps after `out := make([]*Segment, len(xs)+1)`, `out[0] = x`, `copy(out[1:], xs)`, and the id of
`out`'s array. -/
def buildOut (h : Heap) (x : Nat) (xs : List Nat) : List Heap × Nat :=
  let r := allocArr h (List.replicate (xs.length + 1) 0)
  let h2 := setArr r.1 r.2 0 x
  ([r.1, h2, updArr h2 r.2 (copyInto 1 xs)], r.2)

theorem buildOut_id (h : Heap) (x : Nat) (xs : List Nat) : (buildOut h x xs).2 = h.arrays.length := rfl

theorem buildOut_extends {h0 h : Heap} (e : h0.Extends h) (x : Nat) (xs : List Nat) :
    ∀ hi ∈ (buildOut h x xs).1, h0.Extends hi := by
  have hid : h0.arrays.length ≤ (allocArr h (List.replicate (xs.length + 1) 0)).2 := e.arrays_le
  have e1 : h0.Extends (allocArr h (List.replicate (xs.length + 1) 0)).1 := e.trans (allocArr_extends _ _)
  have e2 := setArr_extends e1 (allocArr h (List.replicate (xs.length + 1) 0)).2 0 x hid
  intro hi hmem
  simp only [buildOut, List.mem_cons, List.not_mem_nil, or_false] at hmem
  rcases hmem with rfl | rfl | rfl
  · exact e1
  · exact e2
  · exact updArr_extends e2 _ _ hid

theorem modifyNth_length_append {α : Type} (f : α → α) (l : List α) (x : α) :
    modifyNth l.length f (l ++ [x]) = l ++ [f x] := by
  rw [modifyNth_append_right f l [x] l.length (Nat.le_refl _)]
  simp [modifyNth]

/-- The three statements together are one allocation of `x :: xs`. -/
theorem buildOut_last (h : Heap) (x : Nat) (xs : List Nat) :
    (buildOut h x xs).1.getLast? = some (allocArr h (x :: xs)).1 := by
  simp only [buildOut, List.getLast?_cons_cons, List.getLast?_singleton, Option.some.injEq]
  simp only [updArr, setArr, allocArr, modifyNth_length_append]
  congr 1
  congr 1
  simp [copyInto, List.replicate_succ]
  omega

/-- The negative branch: the loop only reads; at the segment that `d` falls into: `Cut`, then the array. -/
def shiftNegTrace (h : Heap) (d : Int) (sl : Slice) : Int → Nat → List Nat → List Heap × Slice
  | _, _, [] => ([], ⟨0, 0, 0⟩)
  | cur, i, a :: rest =>
    match (readCell h a).len with
    | none => ([], ⟨sl.arr, sl.off + i, sl.len - i⟩)
    | some l =>
      if cur + l > d then
        let c := heapCut h (d - cur) a                       -- _, after, _ := Cut(d-cur, segment)
        let b := buildOut c.1 (c.2.2.1.getD 0) rest          -- make; out[0] = after; copy(out[1:], segments[i+1:])
        (c.1 :: b.1, ⟨b.2, 0, sl.len - i⟩)
      else shiftNegTrace h d sl (cur + l) (i + 1) rest

/-- The heaps after each allocating or writing statement of `segmentpb.Shift(d, segments...)`, `segments` the
slice `sl`, and the result slice.  `clone = true` is the code. -/
def shiftTrace (clone : Bool) (h : Heap) (d : Int) (sl : Slice) : List Heap × Slice :=
  let elems := readSlice h sl
  if d = 0 then ([], sl)
  else
    match elems with
    | [] => ([], sl)
    | first :: rest =>
      if d > 0 then
        let f := readCell h first
        if f.mag = 0 then
          match f.len with
          | none => ([], sl)
          | some l =>
            let c := if clone then allocCell h f else (h, first)           -- first = proto.Clone(first)
            let h2 := setCell c.1 c.2 (fun s => ⟨s.mag, some (l + d)⟩)     -- first.Length = durationpb.New(…)
            let b := buildOut h2 c.2 rest                                  -- make; out[0] = first; copy
            (c.1 :: h2 :: b.1, ⟨b.2, 0, sl.len⟩)
        else
          let c := allocCell h ⟨0, some d⟩                                 -- &Segment{Length: durationpb.New(d)}
          let b := buildOut c.1 c.2 (first :: rest)                        -- make; out[0] = …; copy(out[1:], segments)
          (c.1 :: b.1, ⟨b.2, 0, sl.len + 1⟩)
      else shiftNegTrace h (-d) sl 0 0 (first :: rest)

theorem shiftNegTrace_extends (h : Heap) (d : Int) (sl : Slice) (cur : Int) (i : Nat) (elems : List Nat) :
    ∀ hi ∈ (shiftNegTrace h d sl cur i elems).1, h.Extends hi := by
  induction elems generalizing cur i with
  | nil => intro hi hmem; simp [shiftNegTrace] at hmem
  | cons a rest ih =>
    simp only [shiftNegTrace]
    split
    · intro hi hmem; simp at hmem
    · split
      · intro hi hmem
        have ec := heapCut_extends h (d - cur) a
        simp only [List.mem_cons] at hmem
        rcases hmem with rfl | hmem
        · exact ec
        · exact buildOut_extends ec _ _ hi hmem
      · exact ih _ _

theorem shiftTrace_extends (h : Heap) (d : Int) (sl : Slice) :
    ∀ hi ∈ (shiftTrace true h d sl).1, h.Extends hi := by
  unfold shiftTrace
  simp only []
  split
  · intro hi hmem; simp at hmem
  · split
    · intro hi hmem; simp at hmem
    · split
      · split
        · split
          · intro hi hmem; simp at hmem
          · intro hi hmem
            simp only [if_true, List.mem_cons] at hmem
            have ec := allocCell_extends h (readCell h ‹Nat›)
            rcases hmem with rfl | rfl | hmem
            · exact allocCell_extends h _
            · exact setCell_extends (allocCell_extends h _) _ _ (Nat.le_refl _)
            · exact buildOut_extends (setCell_extends (allocCell_extends h _) _ _ (Nat.le_refl _)) _ _ hi hmem
        · intro hi hmem
          simp only [List.mem_cons] at hmem
          rcases hmem with rfl | hmem
          · exact allocCell_extends h _
          · exact buildOut_extends (allocCell_extends h _) _ _ hi hmem
      · exact shiftNegTrace_extends h _ sl _ _ _

/-! ### the last heap of the trace is the heap of `heapShift`, the result slice is its result -/

theorem getLast?_cons_of_getLast? {α : Type} (x : α) (l : List α) (y : α) (hl : l.getLast? = some y) :
    (x :: l).getLast? = some y := by
  cases l with
  | nil => simp at hl
  | cons z t => simpa [List.getLast?_cons_cons] using hl

theorem shiftNegTrace_last (h : Heap) (d : Int) (sl : Slice) (cur : Int) (i : Nat) (elems : List Nat) :
    (shiftNegTrace h d sl cur i elems).2 = (heapShiftNegLoop h d sl cur i elems).2 ∧
    ∀ hl, (shiftNegTrace h d sl cur i elems).1.getLast? = some hl → hl = (heapShiftNegLoop h d sl cur i elems).1 := by
  induction elems generalizing cur i with
  | nil => exact ⟨rfl, fun hl e => by simp [shiftNegTrace] at e⟩
  | cons a rest ih =>
    simp only [shiftNegTrace, heapShiftNegLoop]
    cases hlen : (readCell h a).len with
    | none => exact ⟨rfl, fun hl e => by simp at e⟩
    | some l =>
      simp only []
      by_cases hc : cur + l > d
      · simp only [hc, if_true]
        refine ⟨rfl, fun hl e => ?_⟩
        rw [getLast?_cons_of_getLast? _ _ _ (buildOut_last _ _ _)] at e
        exact (Option.some.inj e).symm
      · simp only [hc, if_false]
        exact ih _ _

theorem shiftTrace_last (h : Heap) (d : Int) (sl : Slice) :
    (shiftTrace true h d sl).2 = (heapShift h d sl).2 ∧
    ∀ hl, (shiftTrace true h d sl).1.getLast? = some hl → hl = (heapShift h d sl).1 := by
  unfold shiftTrace heapShift
  simp only []
  by_cases hd : d = 0
  · simp only [hd, if_true]
    exact ⟨by first | rfl | trivial, fun hl e => by simp at e⟩
  · simp only [hd, if_false]
    cases hel : readSlice h sl with
    | nil => exact ⟨rfl, fun hl e => by simp at e⟩
    | cons first rest =>
      simp only []
      by_cases hpos : d > 0
      · simp only [hpos, if_true]
        by_cases hmag : (readCell h first).mag = 0
        · simp only [hmag, if_true]
          cases hlen : (readCell h first).len with
          | none => exact ⟨rfl, fun hl e => by simp at e⟩
          | some l =>
            refine ⟨rfl, fun hl e => ?_⟩
            simp only [] at e
            rw [getLast?_cons_of_getLast? _ _ _ (getLast?_cons_of_getLast? _ _ _ (buildOut_last _ _ _))] at e
            rw [← Option.some.inj e]
            have hcell : setCell (allocCell h (readCell h first)).1 (allocCell h (readCell h first)).2
                (fun s => ⟨s.mag, some (l + d)⟩) = (allocCell h ⟨(readCell h first).mag, some (l + d)⟩).1 := by
              simp only [setCell, allocCell, modifyNth_length_append]
            rw [hcell, hmag]
            rfl
        · simp only [hmag, if_false]
          refine ⟨rfl, fun hl e => ?_⟩
          rw [getLast?_cons_of_getLast? _ _ _ (buildOut_last _ _ _)] at e
          exact (Option.some.inj e).symm
      · simp only [hpos, if_false]
        exact shiftNegTrace_last h _ sl _ _ _

/-! ### without the clone the `Length` store lands in the caller's cell -/

theorem modifyNth_getElem? {α : Type} (f : α → α) (l : List α) (n : Nat) :
    (modifyNth n f l)[n]? = (l[n]?).map f := by
  induction l generalizing n with
  | nil => simp [modifyNth]
  | cons x t ih =>
    cases n with
    | zero => simp [modifyNth]
    | succ n => simpa [modifyNth] using ih n


/-! ### `modepb.Sum`: every `Shift` of the alignment loop statement by statement, then the loop of `Sum`
iteration by iteration, then the allocation of the `result` array -/

/-- The heaps of the alignment loop `segmentSlices[i] = segmentpb.Shift(diff, segmentSlices[i]...)`
(`segmentSlices` is a local of `modepb.Sum`; the heap changes only inside `Shift`). -/
def alignTrace (earliest latest : Int) : Heap → List HeapMode → List Heap
  | _, [] => []
  | h, m :: ms =>
    (shiftTrace true h (m.start.getD latest - earliest) m.segs).1 ++
      alignTrace earliest latest (heapShift h (m.start.getD latest - earliest) m.segs).1 ms

theorem alignTrace_extends (e l : Int) (h : Heap) (ms : List HeapMode) :
    ∀ hi ∈ alignTrace e l h ms, h.Extends hi := by
  induction ms generalizing h with
  | nil => intro hi hmem; simp [alignTrace] at hmem
  | cons m ms ih =>
    intro hi hmem
    simp only [alignTrace, List.mem_append] at hmem
    rcases hmem with hmem | hmem
    · exact shiftTrace_extends h _ _ hi hmem
    · exact (heapShift_extends h _ m.segs).trans (ih _ hi hmem)

/-- `segmentpb.Sum` after `calcCuts`: the heap after 0, 1, …, all iterations of the loop, then the heap with the
`result` array. -/
def sumTrace (h : Heap) (cuts : List Edge) : List Heap :=
  (List.range (cuts.length + 1)).map
      (fun k => (⟨((cuts.take k).foldl heapStep ⟨h.cells, [], 0⟩).heap, h.arrays⟩ : Heap)) ++
    [(heapSum h cuts).1]

theorem sumTrace_extends (h : Heap) (cuts : List Edge) : ∀ hi ∈ sumTrace h cuts, h.Extends hi := by
  intro hi hmem
  simp only [sumTrace, List.mem_append, List.mem_map, List.mem_singleton] at hmem
  rcases hmem with ⟨k, _, rfl⟩ | rfl
  · exact heapLoop_prefix_extends h cuts k
  · exact heapSum_extends h cuts

/-- The heaps of `modepb.Sum(modes...)`, same bindings as `heapModeSum`. -/
def modeSumTrace (h : Heap) (ms : List HeapMode) : List Heap :=
  match ms with
  | [] => []
  | _ =>
    match startsLoop none none (ms.map (fun m => (⟨m.start, readSegs h m.segs⟩ : Mode))) with
    | (some e, some l) =>
      let a := heapAlign e l h ms
      alignTrace e l h ms ++ sumTrace a.1 (calcCuts (a.2.map (readSegs a.1)))
    | _ => sumTrace h (calcCuts (ms.map (fun m => readSegs h m.segs)))

theorem modeSumTrace_extends (h : Heap) (ms : List HeapMode) : ∀ hi ∈ modeSumTrace h ms, h.Extends hi := by
  unfold modeSumTrace
  split
  · intro hi hmem; simp at hmem
  · split
    · intro hi hmem
      simp only [List.mem_append] at hmem
      rcases hmem with hmem | hmem
      · exact alignTrace_extends _ _ h ms hi hmem
      · exact (heapAlign_extends _ _ h ms).trans (sumTrace_extends _ _ hi hmem)
    · exact sumTrace_extends _ _

theorem sumTrace_last (h : Heap) (cuts : List Edge) : (sumTrace h cuts).getLast? = some (heapSum h cuts).1 := by
  simp [sumTrace]

theorem modeSumTrace_last (h : Heap) (ms : List HeapMode) :
    ∀ hl, (modeSumTrace h ms).getLast? = some hl → hl = (heapModeSum h ms).1 := by
  cases ms with
  | nil => intro hl e; simp [modeSumTrace] at e
  | cons m ms' =>
    unfold modeSumTrace heapModeSum
    simp only []
    generalize startsLoop none none _ = st
    rcases st with ⟨_ | e, _ | l⟩ <;> simp only [] <;> intro hl e
    · rw [sumTrace_last] at e; exact (Option.some.inj e).symm
    · rw [sumTrace_last] at e; exact (Option.some.inj e).symm
    · rw [sumTrace_last] at e; exact (Option.some.inj e).symm
    · simp only [List.getLast?_append, sumTrace_last, Option.some_or] at e
      exact (Option.some.inj e).symm

end ScVerif.C18
