import ScVerif.C18.HeapOps
import ScVerif.C18.HeapModeOps
import ScVerif.C18.PropsSeg
/-!
# C18 — property theorems, part 5: "…and never modify their arguments"

On an explicit heap of segment cells and slice backing arrays (HeapOps.lean, Heap.lean): whatever
the initial heap and the arguments, after `Cut`, `Shift`, `modepb.Cut` (here) and the loop of `Sum`
(`C18_args_unchanged_sum`, PropsSeg) every cell and every backing array that existed before the call
reads the same — including the spare capacity of argument slices, which is part of their arrays.
`segmentpb.Sum` as a whole, `modepb.Shift` and `modepb.Sum` (`C18_args_unchanged_modes`).
`ActiveAt`, `MagnitudeAt`, `Duration`, `Max*`, `SumMagnitude`, `MinAt` and the modepb readers contain no
assignment through a pointer, `append` or `make` at all.  On the real code the clause is decided for
every operation by the monitor.

Only property theorems and their non-vacuity examples live in this file.
-/
namespace ScVerif.C18

/-- `Cut`, `Shift` and `modepb.Cut` leave every pre-existing cell and backing array unchanged. -/
theorem C18_args_unchanged (h : Heap) (d t : Int) (addr : Nat) (sl : Slice) (m : HeapMode) :
    ((∀ a, a < h.cells.length → (heapCut h d addr).1.cells[a]? = h.cells[a]?) ∧
     (∀ i, i < h.arrays.length → (heapCut h d addr).1.arrays[i]? = h.arrays[i]?)) ∧
    ((∀ a, a < h.cells.length → (heapShift h d sl).1.cells[a]? = h.cells[a]?) ∧
     (∀ i, i < h.arrays.length → (heapShift h d sl).1.arrays[i]? = h.arrays[i]?)) ∧
    ((∀ a, a < h.cells.length → (heapModeCut h t m).1.cells[a]? = h.cells[a]?) ∧
     (∀ i, i < h.arrays.length → (heapModeCut h t m).1.arrays[i]? = h.arrays[i]?)) :=
  ⟨(heapCut_extends h d addr).pointwise, (heapShift_extends h d sl).pointwise,
   (heapModeCut_extends h t m).pointwise⟩

/-- `segmentpb.Sum` (loop and `result` slice), `modepb.Shift` and `modepb.Sum` (clone, alignment through
`Shift`, then `Sum`) leave every pre-existing cell and backing array unchanged — for any heap, any modes,
any offsets.  With `C18_args_unchanged` this covers every operation of the two packages that allocates or
writes at all. -/
theorem C18_args_unchanged_modes (h : Heap) (d : Int) (cuts : List Edge) (m : HeapMode) (ms : List HeapMode) :
    ((∀ a, a < h.cells.length → (heapSum h cuts).1.cells[a]? = h.cells[a]?) ∧
     (∀ i, i < h.arrays.length → (heapSum h cuts).1.arrays[i]? = h.arrays[i]?)) ∧
    ((∀ a, a < h.cells.length → (heapModeShift h d m).1.cells[a]? = h.cells[a]?) ∧
     (∀ i, i < h.arrays.length → (heapModeShift h d m).1.arrays[i]? = h.arrays[i]?)) ∧
    ((∀ a, a < h.cells.length → (heapModeSum h ms).1.cells[a]? = h.cells[a]?) ∧
     (∀ i, i < h.arrays.length → (heapModeSum h ms).1.arrays[i]? = h.arrays[i]?)) :=
  ⟨(heapSum_extends h cuts).pointwise, (heapModeShift_extends h d m).pointwise,
   (heapModeSum_extends h ms).pointwise⟩

/-- The theorem has content: had `modepb.Cut` made `before` a shallow copy of the mode (sharing the
caller's `Segments` backing array), its `append(before.Segments[:index], sb)` would overwrite the
caller's element `index` — on this heap the argument slice reads `[0, 1]` before and `[0, 4]` after. -/
theorem C18_args_unchanged_needs_clone :
    readSlice ⟨[⟨1, some 2⟩, ⟨2, some 4⟩], [[0, 1]]⟩ ⟨0, 0, 2⟩ = [0, 1] ∧
    readSlice (heapModeCutWith false ⟨[⟨1, some 2⟩, ⟨2, some 4⟩], [[0, 1]]⟩ 3 ⟨some 0, ⟨0, 0, 2⟩⟩).1 ⟨0, 0, 2⟩
      = [0, 4] ∧
    readSlice (heapModeCut ⟨[⟨1, some 2⟩, ⟨2, some 4⟩], [[0, 1]]⟩ 3 ⟨some 0, ⟨0, 0, 2⟩⟩).1 ⟨0, 0, 2⟩
      = [0, 1] := by
  refine ⟨by decide, by decide, by decide⟩

/-! The heap versions compute what the pure model computes (read back through the heap), on
concrete inputs exercising every branch that allocates or writes. -/
example :
    (let r := heapModeCut ⟨[⟨1, some 2⟩, ⟨2, some 4⟩, ⟨3, some 1⟩], [[0, 1, 2]]⟩ 5 ⟨some 2, ⟨0, 0, 3⟩⟩
     (r.2.1.map (fun b => (b.start, readSegs r.1 b.segs)), r.2.2.1.map (fun a => (a.start, readSegs r.1 a.segs))))
    = (let p := modeCut 5 ⟨some 2, [⟨1, some 2⟩, ⟨2, some 4⟩, ⟨3, some 1⟩]⟩
       (p.before.map (fun b => (b.start, b.segs)), p.after.map (fun a => (a.start, a.segs)))) := by decide
example :
    (let r := heapShift ⟨[⟨0, some 2⟩, ⟨2, some 2⟩], [[0, 1]]⟩ 3 ⟨0, 0, 2⟩; readSegs r.1 r.2)
    = shift 3 [⟨0, some 2⟩, ⟨2, some 2⟩] := by decide
example :
    (let r := heapShift ⟨[⟨1, some 2⟩, ⟨2, some 2⟩, ⟨3, none⟩], [[0, 1, 2]]⟩ (-3) ⟨0, 0, 3⟩; readSegs r.1 r.2)
    = shift (-3) [⟨1, some 2⟩, ⟨2, some 2⟩, ⟨3, none⟩] := by decide
example :
    (let r := heapShift ⟨[⟨1, some 2⟩, ⟨2, some 2⟩], [[0, 1]]⟩ 4 ⟨0, 0, 2⟩; readSegs r.1 r.2)
    = shift 4 [⟨1, some 2⟩, ⟨2, some 2⟩] := by decide

/-- `modepb.Shift` and `modepb.Sum` on the heap compute what the pure model computes (read back). -/
example :
    (let r := heapModeShift ⟨[⟨0, some 2⟩, ⟨2, some 2⟩], [[0, 1]]⟩ 3 ⟨none, ⟨0, 0, 2⟩⟩
     (r.2.start, readSegs r.1 r.2.segs))
    = (let p := modeShift 3 ⟨none, [⟨0, some 2⟩, ⟨2, some 2⟩]⟩; (p.start, p.segs)) := by decide
example :
    (let r := heapModeSum ⟨[⟨1, some 2⟩, ⟨3, some 3⟩, ⟨2, none⟩], [[0], [1], [2]]⟩
        [⟨some 2, ⟨0, 0, 1⟩⟩, ⟨none, ⟨1, 0, 1⟩⟩, ⟨some 5, ⟨2, 0, 1⟩⟩]
     r.2.map (fun m => (m.start, trimLast (dropRule true) (readSegs r.1 m.segs))))
    = (modeSum [⟨some 2, [⟨1, some 2⟩]⟩, ⟨none, [⟨3, some 3⟩]⟩, ⟨some 5, [⟨2, none⟩]⟩]).map
        (fun m => (m.start, m.segs)) := by decide

end ScVerif.C18
