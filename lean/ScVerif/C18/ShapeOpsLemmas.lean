import ScVerif.C18.ShapeOps
import ScVerif.C18.SegLemmas
/-! Lemmas for PropsShape: erasing shapes / reading consumptions commutes with the shaped operations. -/
namespace ScVerif.C18

theorem cutSegS_after_seg (d : Int) (s : SegS) :
    ((cutSegS d s).after.getD nilSegS).seg = (cutSeg d s.seg).after.getD nilSeg := by
  unfold cutSegS cutSeg
  by_cases hd : d ≤ 0
  · simp [hd]
  · simp only [hd, if_false]
    cases hs : s.seg.len with
    | none => simp
    | some l =>
      by_cases hl : l ≤ d
      · simp [hl, nilSegS]
      · simp [hl]

theorem cutSegS_after_toFixed (d : Int) (s : SegS) :
    ((cutSegS d s).after.getD nilSegS).toFixed = (cutSeg d s.toFixed).after.getD nilSeg := by
  unfold cutSegS cutSeg
  by_cases hd : d ≤ 0
  · simp [hd]
  · simp only [hd, if_false]
    cases hs : s.seg.len with
    | none => simp [SegS.toFixed, hs]
    | some l =>
      by_cases hl : l ≤ d
      · simp [hl, SegS.toFixed, hs, nilSegS, nilSeg, SegS.fixed]
      · simp [hl, SegS.toFixed, hs, SegS.fixed]

theorem shiftNegLoopS_erase (D : Int) (l : List SegS) (cur : Int) :
    eraseS (shiftNegLoopS D cur l) = shiftNegLoop D cur (eraseS l) := by
  induction l generalizing cur with
  | nil => rfl
  | cons s rest ih =>
    simp only [shiftNegLoopS, eraseS, List.map_cons, shiftNegLoop]
    cases hs : s.seg.len with
    | none => simp
    | some l0 =>
      simp only []
      by_cases h : cur + l0 > D
      · simp only [h, if_true, List.map_cons, cutSegS_after_seg]
      · simp only [h, if_false]
        exact ih (cur + l0)

theorem shiftNegLoopS_toFixed (D : Int) (l : List SegS) (cur : Int) :
    (shiftNegLoopS D cur l).map SegS.toFixed = shiftNegLoop D cur (l.map SegS.toFixed) := by
  induction l generalizing cur with
  | nil => rfl
  | cons s rest ih =>
    simp only [shiftNegLoopS, List.map_cons, shiftNegLoop]
    have e : s.toFixed.len = s.seg.len := rfl
    rw [e]
    cases hs : s.seg.len with
    | none => simp
    | some l0 =>
      simp only []
      by_cases h : cur + l0 > D
      · simp only [h, if_true, List.map_cons, cutSegS_after_toFixed]
      · simp only [h, if_false]
        exact ih (cur + l0)

theorem shiftS_erase (d : Int) (l : List SegS) : eraseS (shiftS d l) = shift d (eraseS l) := by
  unfold shiftS shift
  by_cases hd : d = 0
  · simp [hd]
  · simp only [hd, if_false]
    cases l with
    | nil => rfl
    | cons first rest =>
      simp only [eraseS, List.map_cons]
      by_cases hp : d > 0
      · simp only [hp, if_true]
        by_cases hm : first.seg.mag = 0
        · simp only [hm, if_true]
          cases hl : first.seg.len with
          | none => simp
          | some l0 => simp
        · simp [hm]
      · simp only [hp, if_false]
        exact shiftNegLoopS_erase (-d) (first :: rest) 0

theorem nonNeg_toFixed (l : List SegS) (h : NonNeg (eraseS l)) : NonNeg (l.map SegS.toFixed) := by
  intro s hs x hx
  obtain ⟨a, ha, rfl⟩ := List.mem_map.mp hs
  exact h a.seg (List.mem_map.mpr ⟨a, ha, rfl⟩) x hx

/-- The consumption function under `Shift`. -/
theorem denF_shiftS (d : Int) (l : List SegS) (h : NonNeg (eraseS l))
    (hidle : 0 < d → ∀ f, l.head? = some f → f.seg.mag = 0 → f.fixed = 0) (t : Int) :
    denF (shiftS d l) t = if t < 0 then 0 else denF l (t - d) := by
  have hnn := nonNeg_toFixed l h
  unfold denF
  by_cases hd : d = 0
  · subst hd
    simp only [shiftS, if_true, Int.sub_zero]
    by_cases ht : t < 0
    · simp only [ht, if_true]; exact den_neg _ _ ht
    · simp [ht]
  · cases l with
    | nil =>
      simp only [shiftS, hd, if_false, List.map_nil, den_nil]
      split <;> rfl
    | cons first rest =>
      by_cases hp : d > 0
      · by_cases hm : first.seg.mag = 0
        · -- the first (idle) segment is extended: the same list `shift` builds on the consumptions
          have hf : first.fixed = 0 := hidle hp first rfl hm
          have e : (shiftS d (first :: rest)).map SegS.toFixed = shift d ((first :: rest).map SegS.toFixed) := by
            simp only [shiftS, shift, hd, hp, hm, if_true, if_false, List.map_cons]
            have e1 : first.toFixed.mag = 0 := hf
            have e2 : first.toFixed.len = first.seg.len := rfl
            simp only [e1, e2, if_true]
            cases hl : first.seg.len with
            | none => simp
            | some l0 => simp [SegS.toFixed, SegS.fixed] at hf ⊢; rw [hm] at hf; exact hf
          rw [e]
          exact shift_spec d _ hnn t
        · -- a fresh idle segment of length `d` is put in front
          have e : (shiftS d (first :: rest)).map SegS.toFixed
              = ⟨0, some d⟩ :: (first :: rest).map SegS.toFixed := by
            simp [shiftS, hd, hp, hm, SegS.toFixed, SegS.fixed]
          rw [e]
          by_cases ht : t < 0
          · simp only [ht, if_true]; exact den_neg _ _ ht
          · simp only [ht, if_false]
            rw [den_cons_some ⟨0, some d⟩ _ t d rfl (by omega)]
            by_cases htd : t < d
            · simp only [htd, if_true]
              exact (den_neg _ _ (by omega)).symm
            · simp [htd]
      · have e : (shiftS d (first :: rest)).map SegS.toFixed = shift d ((first :: rest).map SegS.toFixed) := by
          simp only [shiftS, shift, hd, hp, if_false, List.map_cons]
          exact shiftNegLoopS_toFixed (-d) (first :: rest) 0
        rw [e]
        exact shift_spec d _ hnn t

theorem cutSegS_erase (d : Int) (s : SegS) :
    (cutSegS d s).before.map (·.seg) = (cutSeg d s.seg).before ∧
    (cutSegS d s).after.map (·.seg) = (cutSeg d s.seg).after ∧
    (cutSegS d s).outside = (cutSeg d s.seg).outside := by
  unfold cutSegS cutSeg
  by_cases hd : d ≤ 0
  · simp [hd]
  · simp only [hd, if_false]
    cases hs : s.seg.len with
    | none => simp
    | some l =>
      by_cases hl : l ≤ d
      · simp [hl]
      · simp [hl]

theorem modeCutS_erase (t : Int) (m : ModeS) :
    (modeCutS t m).before.map ModeS.erase = (modeCut t m.erase).before ∧
    (modeCutS t m).after.map ModeS.erase = (modeCut t m.erase).after ∧
    (modeCutS t m).outside = (modeCut t m.erase).outside := by
  unfold modeCutS modeCut
  have hlen : (eraseS m.segs).length = m.segs.length := by simp [eraseS]
  have hsegs : m.erase.segs = eraseS m.segs := rfl
  have hstart : m.erase.start = m.start := rfl
  simp only [hsegs, hstart, hlen]
  by_cases h0 : m.segs.length = 0
  · simp only [h0, if_true]
    exact ⟨rfl, rfl, trivial⟩
  · simp only [h0, if_false]
    by_cases hgt : t > tOrST t m.erase
    · simp only [hgt, not_true_eq_false, if_false]
      by_cases hend : (activeAt (t - tOrST t m.erase) (eraseS m.segs)).2 = m.segs.length
      · simp [hend]
      · simp only [hend, if_false]
        have hget : (eraseS m.segs)[(activeAt (t - tOrST t m.erase) (eraseS m.segs)).2]?
            = (m.segs[(activeAt (t - tOrST t m.erase) (eraseS m.segs)).2]?).map (·.seg) := by
          simp [eraseS]
        rw [hget]
        cases hs : m.segs[(activeAt (t - tOrST t m.erase) (eraseS m.segs)).2]? with
        | none => simp
        | some s =>
          simp only [Option.map_some]
          obtain ⟨hb, ha, _⟩ := cutSegS_erase (t - tOrST t m.erase - (activeAt (t - tOrST t m.erase) (eraseS m.segs)).1) s
          refine ⟨?_, ?_, trivial⟩
          · rw [← hb]
            cases (cutSegS (t - tOrST t m.erase - (activeAt (t - tOrST t m.erase) (eraseS m.segs)).1) s).before with
            | none => simp [ModeS.erase, eraseS]
            | some sb => simp [ModeS.erase, eraseS]
          · rw [← ha]
            cases (cutSegS (t - tOrST t m.erase - (activeAt (t - tOrST t m.erase) (eraseS m.segs)).1) s).after with
            | none => simp [ModeS.erase, eraseS]
            | some sa => simp [ModeS.erase, eraseS]
    · simp [hgt]

theorem modeShiftS_erase (d : Int) (m : ModeS) : (modeShiftS d m).erase = modeShift d m.erase := by
  unfold modeShiftS modeShift
  by_cases hd : d = 0
  · simp [hd]
  · simp only [hd, if_false]
    have hstart : m.erase.start = m.start := rfl
    rw [hstart]
    cases m.start with
    | none => simp [ModeS.erase, shiftS_erase]
    | some s => simp [ModeS.erase]

theorem cutSegS_toFixed (d : Int) (s : SegS) :
    (cutSegS d s).before.map SegS.toFixed = (cutSeg d s.toFixed).before ∧
    (cutSegS d s).after.map SegS.toFixed = (cutSeg d s.toFixed).after ∧
    (cutSegS d s).outside = (cutSeg d s.toFixed).outside := by
  unfold cutSegS cutSeg
  have e : s.toFixed.len = s.seg.len := rfl
  rw [e]
  by_cases hd : d ≤ 0
  · simp [hd]
  · simp only [hd, if_false]
    cases hs : s.seg.len with
    | none => simp [SegS.toFixed, hs, SegS.fixed]
    | some l =>
      by_cases hl : l ≤ d
      · simp [hl]
      · simp [hl, SegS.toFixed, SegS.fixed]

theorem activeAtLoop_toFixed (d : Int) (l : List SegS) (cur : Int) (i : Nat) :
    activeAtLoop d cur i (l.map SegS.toFixed) = activeAtLoop d cur i (eraseS l) := by
  induction l generalizing cur i with
  | nil => rfl
  | cons s rest ih =>
    simp only [List.map_cons, eraseS, activeAtLoop]
    have e : s.toFixed.len = s.seg.len := rfl
    rw [e]
    cases s.seg.len with
    | none => rfl
    | some l0 =>
      simp only []
      split
      · rfl
      · exact ih _ _

theorem activeAt_toFixed (d : Int) (l : List SegS) :
    activeAt d (l.map SegS.toFixed) = activeAt d (eraseS l) := by
  unfold activeAt
  rw [activeAtLoop_toFixed]

theorem modeCutS_toFixed (t : Int) (m : ModeS) :
    (modeCutS t m).before.map ModeS.toFixed = (modeCut t m.toFixed).before ∧
    (modeCutS t m).after.map ModeS.toFixed = (modeCut t m.toFixed).after ∧
    (modeCutS t m).outside = (modeCut t m.toFixed).outside := by
  unfold modeCutS modeCut
  have hlen : (m.segs.map SegS.toFixed).length = m.segs.length := by simp
  have hsegs : m.toFixed.segs = m.segs.map SegS.toFixed := rfl
  have hstart : m.toFixed.start = m.start := rfl
  have hst : tOrST t m.toFixed = tOrST t m.erase := rfl
  simp only [hsegs, hstart, hlen, hst, activeAt_toFixed]
  by_cases h0 : m.segs.length = 0
  · simp only [h0, if_true]
    exact ⟨rfl, rfl, trivial⟩
  · simp only [h0, if_false]
    by_cases hgt : t > tOrST t m.erase
    · simp only [hgt, not_true_eq_false, if_false]
      by_cases hend : (activeAt (t - tOrST t m.erase) (eraseS m.segs)).2 = m.segs.length
      · simp [hend]
      · simp only [hend, if_false]
        have hget : (m.segs.map SegS.toFixed)[(activeAt (t - tOrST t m.erase) (eraseS m.segs)).2]?
            = (m.segs[(activeAt (t - tOrST t m.erase) (eraseS m.segs)).2]?).map SegS.toFixed := by
          simp
        rw [hget]
        cases hs : m.segs[(activeAt (t - tOrST t m.erase) (eraseS m.segs)).2]? with
        | none => simp
        | some s =>
          simp only [Option.map_some]
          obtain ⟨hb, ha, _⟩ := cutSegS_toFixed (t - tOrST t m.erase - (activeAt (t - tOrST t m.erase) (eraseS m.segs)).1) s
          refine ⟨?_, ?_, trivial⟩
          · rw [← hb]
            cases (cutSegS (t - tOrST t m.erase - (activeAt (t - tOrST t m.erase) (eraseS m.segs)).1) s).before with
            | none => simp [ModeS.toFixed]
            | some sb => simp [ModeS.toFixed]
          · rw [← ha]
            cases (cutSegS (t - tOrST t m.erase - (activeAt (t - tOrST t m.erase) (eraseS m.segs)).1) s).after with
            | none => simp [ModeS.toFixed]
            | some sa => simp [ModeS.toFixed]
    · simp [hgt]

end ScVerif.C18
