import ScVerif.C18.SumLemmas
/-!
Why sampling at the breakpoints is enough.  The monitor of C18 compares the real results with its oracle at
finitely many instants (every breakpoint of the functions involved and the instants around them).  A segment
list read as a step function (`den`) is constant between two neighbouring breakpoints, so two such functions
that agree at a starting instant and at every breakpoint of either agree everywhere from that instant on.
`StepOn pts f`: `f` does not change between `p` and `t` unless a point of `pts` lies in `(p, t]`.
-/
namespace ScVerif.C18

/-- `f` can only change its value AT a point of `pts`. -/
def StepOn (pts : List Int) (f : Int → Int) : Prop :=
  ∀ p t, p ≤ t → (∀ b ∈ pts, ¬ (p < b ∧ b ≤ t)) → f t = f p

/-- The breakpoints of a list laid out from `cur`: where each reachable segment starts, and the end. -/
def bps : Int → List Seg → List Int
  | cur, [] => [cur]
  | cur, s :: rest =>
    match s.len with
    | none => [cur]
    | some l => cur :: bps (cur + l) rest

/-- The breakpoints of several lists. -/
def allBps : List (List Seg) → List Int
  | [] => []
  | l :: ls => bps 0 l ++ allBps ls

theorem bps_head_mem (cur : Int) (l : List Seg) : cur ∈ bps cur l := by
  cases l with
  | nil => simp [bps]
  | cons s rest =>
    cases hs : s.len with
    | none => simp [bps, hs]
    | some x => simp [bps, hs]

theorem den_const (l : List Seg) (hnn : NonNeg l) : ∀ (cur p t : Int), p ≤ t →
    (∀ b ∈ bps cur l, ¬ (p < b ∧ b ≤ t)) → den l (t - cur) = den l (p - cur) := by
  induction l with
  | nil => intro cur p t _ _; rfl
  | cons s rest ih =>
    intro cur p t hpt hb
    have hc := hb cur (bps_head_mem cur (s :: rest))
    by_cases hneg : t < cur
    · rw [den_neg _ _ (by omega), den_neg _ _ (by omega)]
    · have hp : cur ≤ p := by omega
      cases hs : s.len with
      | none =>
        rw [den_cons_none s rest _ hs (by omega), den_cons_none s rest _ hs (by omega)]
      | some L =>
        have hL : 0 ≤ L := hnn.head L hs
        rw [den_cons_some s rest _ L hs (by omega), den_cons_some s rest _ L hs (by omega)]
        have hb' : ∀ b ∈ bps (cur + L) rest, ¬ (p < b ∧ b ≤ t) := by
          intro b hbm
          apply hb b
          simp only [bps, hs, List.mem_cons]
          exact Or.inr hbm
        by_cases ht : t - cur < L
        · have : p - cur < L := by omega
          simp only [ht, this, if_true]
        · have hmid := hb' (cur + L) (bps_head_mem _ rest)
          have hpL : ¬ p - cur < L := by omega
          simp only [ht, hpL, if_false]
          have := ih hnn.tail (cur + L) p t hpt hb'
          have e1 : t - cur - L = t - (cur + L) := by omega
          have e2 : p - cur - L = p - (cur + L) := by omega
          rw [e1, e2]
          exact this

/-- A list's step function changes only at its breakpoints. -/
theorem stepOn_den (l : List Seg) (hnn : NonNeg l) : StepOn (bps 0 l) (den l) := by
  intro p t hpt hb
  have := den_const l hnn 0 p t hpt hb
  simpa using this

theorem stepOn_mono {pts pts' : List Int} {f : Int → Int} (h : StepOn pts f) (hsub : ∀ b ∈ pts, b ∈ pts') :
    StepOn pts' f :=
  fun p t hpt hb => h p t hpt (fun b hbm => hb b (hsub b hbm))

theorem stepOn_add {pts : List Int} {f g : Int → Int} (hf : StepOn pts f) (hg : StepOn pts g) :
    StepOn pts (fun t => f t + g t) := by
  intro p t hpt hb
  show f t + g t = f p + g p
  rw [hf p t hpt hb, hg p t hpt hb]

/-- Translation by `d` translates the breakpoints. -/
theorem stepOn_translate {pts : List Int} {f : Int → Int} (d : Int) (hf : StepOn pts f) :
    StepOn (pts.map (· + d)) (fun t => f (t - d)) := by
  intro p t hpt hb
  apply hf (p - d) (t - d) (by omega)
  intro b hbm
  have := hb (b + d) (List.mem_map.mpr ⟨b, hbm, rfl⟩)
  omega

theorem stepOn_denSum (ls : List (List Seg)) (h : AllNonNeg ls) : StepOn (allBps ls) (denSum ls) := by
  induction ls with
  | nil => intro p t _ _; rfl
  | cons l ls ih =>
    have hl : NonNeg l := h l List.mem_cons_self
    have hls : AllNonNeg ls := fun x hx => h x (List.mem_cons_of_mem _ hx)
    have h1 : StepOn (allBps (l :: ls)) (den l) :=
      stepOn_mono (stepOn_den l hl) (fun b hb => by simp only [allBps, List.mem_append]; exact Or.inl hb)
    have h2 : StepOn (allBps (l :: ls)) (denSum ls) :=
      stepOn_mono (ih hls) (fun b hb => by simp only [allBps, List.mem_append]; exact Or.inr hb)
    exact stepOn_add h1 h2

/-- The last point of `pts` at or before `t` (`lo` if there is none after `lo`). -/
def floorPt (lo t : Int) : List Int → Int
  | [] => lo
  | b :: bs => let r := floorPt lo t bs; if b ≤ t ∧ r < b then b else r

theorem floorPt_spec (lo t : Int) (hlo : lo ≤ t) (pts : List Int) :
    lo ≤ floorPt lo t pts ∧ floorPt lo t pts ≤ t ∧ (floorPt lo t pts = lo ∨ floorPt lo t pts ∈ pts) ∧
      ∀ b ∈ pts, ¬ (floorPt lo t pts < b ∧ b ≤ t) := by
  induction pts with
  | nil => simp [floorPt, hlo]
  | cons b bs ih =>
    obtain ⟨h1, h2, h3, h4⟩ := ih
    simp only [floorPt]
    by_cases hc : b ≤ t ∧ floorPt lo t bs < b
    · rw [if_pos hc]
      refine ⟨by omega, hc.1, Or.inr List.mem_cons_self, ?_⟩
      intro x hx
      rcases List.mem_cons.mp hx with hx | hx
      · subst hx; omega
      · have := h4 x hx; omega
    · rw [if_neg hc]
      refine ⟨h1, h2, ?_, ?_⟩
      · rcases h3 with h3 | h3
        · exact Or.inl h3
        · exact Or.inr (List.mem_cons_of_mem _ h3)
      · intro x hx
        rcases List.mem_cons.mp hx with hx | hx
        · subst hx; omega
        · exact h4 x hx

/-- Two functions that change only at points of `pts` and agree at `lo` and at every point of `pts` agree at every
instant from `lo` on. -/
theorem agree_of_samples (pts : List Int) (f g : Int → Int) (hf : StepOn pts f) (hg : StepOn pts g) (lo : Int)
    (h : ∀ p ∈ lo :: pts, f p = g p) (t : Int) (ht : lo ≤ t) : f t = g t := by
  obtain ⟨_, h2, h3, h4⟩ := floorPt_spec lo t ht pts
  rw [hf _ t h2 h4, hg _ t h2 h4]
  apply h
  rcases h3 with h3 | h3
  · rw [h3]; exact List.mem_cons_self
  · exact List.mem_cons_of_mem _ h3

end ScVerif.C18
