import ScVerif.C18.Seg64Lemmas
import ScVerif.C18.PropsSeg
/-!
# C18 — property theorems, part 4: the theorems speak about the code as compiled (int64 durations)

`activeAt64`, `magnitudeAt64`, `maxAfter64`, `duration64`, `shift64`, `sum64` (Seg64.lean) wrap every
duration addition, subtraction and negation to 64 bits exactly where the Go code computes one; the
driver executes them against the real code, near-overflow lengths included.  Here: under the explicit
hypothesis that the total length of each list (plus a positive shift) is below 2^63 ns, they ARE the
unbounded functions of PropsSeg, so the step-function laws hold for the compiled code; and the
hypothesis is tight — at total length exactly 2^63 the compiled code leaves the step function.

Only property theorems and their non-vacuity examples live in this file.
-/
namespace ScVerif.C18

/-- No overflow, no difference: reading operations. -/
theorem C18_int64_read (d : Int) (segs : List Seg) (h : Small segs) :
    activeAt64 d segs = activeAt d segs ∧ magnitudeAt64 d segs = magnitudeAt d segs ∧
    maxAfter64 d segs = maxAfter d segs ∧ duration64 segs = duration segs :=
  ⟨activeAt64_eq d segs h, magnitudeAt64_eq d segs h, maxAfter64_eq d segs h, duration64_eq segs h⟩

/-- `MagnitudeAt` as compiled is the step function, for every list of total length below 2^63 ns. -/
theorem C18_int64_magnitudeAt (d : Int) (segs : List Seg) (h : Small segs) :
    magnitudeAt64 d segs = (den segs d, covered segs d) := by
  rw [magnitudeAt64_eq d segs h]; exact (C18_magnitudeAt d segs).1

/-- `Shift` as compiled returns exactly the segments of the unbounded `shift` (none of them `nil`), which
is translation — when `d` can be negated (`d ≠ MinInt64`) and the total length plus a positive shift
stays below 2^63 ns. -/
theorem C18_int64_shift (d : Int) (segs : List Seg) (h : Small segs) (hd : -two63 < d)
    (hsum : lenSum segs + d < two63) (t : Int) :
    shift64 d segs = (shift d segs).map some ∧
    den (shift d segs) t = if t < 0 then 0 else den segs (t - d) :=
  ⟨shift64_eq d segs h hd hsum, C18_shift d segs h.1 t⟩

/-- `Sum` as compiled is the `Sum` of PropsSeg when every summed list has total length below 2^63 ns
(so `C18_sum` speaks about the compiled code). -/
theorem C18_int64_sum (ls : List (List Seg)) (h : AllSmall ls) (t : Int) :
    sum64 ls = sum ls ∧ den (sum64 ls) t = denSum ls t := by
  have e := sum64_eq ls h
  exact ⟨e, by rw [e]; exact C18_sum ls h.allNonNeg t⟩

/-- The hypothesis is tight.  Two segments of 2^62 ns each (total exactly 2^63): `cur+l` wraps to
−2^63, the second segment is skipped, and `MagnitudeAt` reports "no segment" at an instant inside it;
`Duration` reports a negative total; and extending a leading zero segment of length 2^63−1 by a
shift of 1 ns produces a negative length.  (Behaviour of the compiled code at the excluded points,
pinned; lengths of ≥ 146 years are not meaningful segment lengths.) -/
theorem C18_int64_overflow_witness :
    lenSum [⟨1, some 4611686018427387904⟩, ⟨2, some 4611686018427387904⟩] = two63 ∧
    magnitudeAt64 4611686018427387905 [⟨1, some 4611686018427387904⟩, ⟨2, some 4611686018427387904⟩]
      = (0, false) ∧
    den [⟨1, some 4611686018427387904⟩, ⟨2, some 4611686018427387904⟩] 4611686018427387905 = 2 ∧
    duration64 [⟨1, some 4611686018427387904⟩, ⟨2, some 4611686018427387904⟩]
      = (-9223372036854775808, false) ∧
    shift64 1 [⟨0, some 9223372036854775807⟩, ⟨5, some 1⟩]
      = [some ⟨0, some (-9223372036854775808)⟩, some ⟨5, some 1⟩] := by
  refine ⟨by decide, by decide, by decide, by decide, by decide⟩

/-! Non-vacuity: a list whose total is the largest admissible one satisfies `Small`, and the
compiled functions take their exact values on it. -/
example : Small [⟨2, some 2⟩, ⟨5, some 9223372036854775805⟩] :=
  ⟨nonNeg_of_all _ (by decide), by decide⟩
example : magnitudeAt64 9223372036854775806 [⟨2, some 2⟩, ⟨5, some 9223372036854775805⟩] = (5, true) := by
  decide
example : magnitudeAt64 9223372036854775807 [⟨2, some 2⟩, ⟨5, some 9223372036854775805⟩] = (0, false) := by
  decide

end ScVerif.C18
