import ScVerif.C18.HeapTraceShift
/-!
# C18 — property theorems, part 13: "…and never modify their arguments" — not even for a moment

PropsHeap compares the heap before a call with the heap after it.  Here the clause is stated for every
INTERMEDIATE heap of the operations that write at all (HeapTrace.lean): after each statement of `modepb.Shift`
(the mode object is a heap cell of its own), after each statement of `modepb.Cut`, and after any number of
iterations of the loop of `segmentpb.Sum`, every cell, backing array and mode object that existed before the
call reads the same.  `C18_transient_write_*`: the variant of `modepb.Shift` that detaches `mode.Segments` from
its ARGUMENT while it copies the rest and puts it back afterwards ends in the same heap and the same result as
the code — a before/after comparison cannot tell them apart — but passes through a heap in which the caller's
mode has no segments.  On the real code the clause is decided by running every operation on arguments that lie
in read-only pages (any store faults), harness watch.go.

Round 8: `segmentpb.Shift` statement by statement (HeapTraceShift.lean) — the one place besides the loop of
`Sum` where the package stores into a SEGMENT (`first.Length = …`, into the clone), and the `make` / `out[0] = …` /
`copy` sequence: `C18_args_never_written_shift`, `C18_concurrent_reader_shift`, and
`C18_shift_without_clone_writes_argument` (the variant without `proto.Clone`, for every heap); and `modepb.Sum`
as the concatenation of the traces of its `Shift`s and of the loop of `Sum`: `C18_args_never_written_modeSum`,
`C18_concurrent_reader_modeSum`.

Only property theorems and their non-vacuity examples live in this file.
-/
namespace ScVerif.C18

/-- After every statement of `modepb.Shift` — for any heap, any mode object, any `d`, start time present or
not — every pre-existing segment cell, backing array and mode object (the argument among them) is unchanged. -/
theorem C18_args_never_written_modeShift (h : HeapM) (d : Int) (p : Nat) :
    ∀ hi ∈ (modeShiftTrace false h d p).1,
      (∀ a, a < h.base.cells.length → hi.base.cells[a]? = h.base.cells[a]?) ∧
      (∀ i, i < h.base.arrays.length → hi.base.arrays[i]? = h.base.arrays[i]?) ∧
      (∀ q, q < h.modes.length → hi.modes[q]? = h.modes[q]?) :=
  fun hi hmem => (modeShiftTrace_extends h d p hi hmem).pointwise

/-- The clause as a concurrent reader experiences it: whatever it computes from the argument of a running
`modepb.Shift` (start time and segment values read through the pointer, the slice header, the backing array and
the cells — hence `MagnitudeAt`, `ActiveAt`, a `Sum` with other modes, …), it computes from the same mode at
every moment of the call. -/
theorem C18_concurrent_reader_modeShift (h : HeapM) (d : Int) (p : Nat) (v : ValidMode h p) :
    ∀ hi ∈ (modeShiftTrace false h d p).1, observe hi p = observe h p :=
  fun hi hmem => observe_extends (modeShiftTrace_extends h d p hi hmem) p v

/-- After every statement of `modepb.Cut` (two clones, the cut of the active segment, the two assignments into
the clones' arrays) every pre-existing cell and backing array is unchanged; the last heap of the trace is the
heap `C18_args_unchanged` speaks about. -/
theorem C18_args_never_written_modeCut (h : Heap) (t : Int) (m : HeapMode) :
    (∀ hi ∈ modeCutTrace h t m,
      (∀ a, a < h.cells.length → hi.cells[a]? = h.cells[a]?) ∧
      (∀ i, i < h.arrays.length → hi.arrays[i]? = h.arrays[i]?)) ∧
    (∀ hl, (modeCutTrace h t m).getLast? = some hl → hl = (heapModeCut h t m).1) :=
  ⟨fun hi hmem => (modeCutTrace_extends h t m hi hmem).pointwise, modeCutTrace_last h t m⟩

/-- The loop of `segmentpb.Sum`, stopped after ANY number `k` of edges: the heap is the initial heap plus cells
the loop appended itself (the in-place updates `result[len-1].Magnitude += …`, `lastResult.Length = …` never
reach a pre-existing cell, at no iteration). -/
theorem C18_args_never_written_sum (h : Heap) (cuts : List Edge) (k : Nat) :
    (∀ a, a < h.cells.length →
      ((cuts.take k).foldl heapStep ⟨h.cells, [], 0⟩).heap[a]? = h.cells[a]?) :=
  (heapLoop_prefix_extends h cuts k).pointwise.1

/-- The same for the other two writers: ANY segment list that existed before the call (`sl`: a slice of an
existing array pointing at existing cells — the argument, a list sharing cells with it, anything else) reads the
same values after each statement of `modepb.Cut` and after any number of iterations of the loop of
`segmentpb.Sum`. -/
theorem C18_concurrent_reader_segments (h : Heap) (sl : Slice) (ha : sl.arr < h.arrays.length)
    (hc : ∀ a ∈ readSlice h sl, a < h.cells.length) :
    (∀ (t : Int) (m : HeapMode), ∀ hi ∈ modeCutTrace h t m, readSegs hi sl = readSegs h sl) ∧
    (∀ (cuts : List Edge) (k : Nat),
      readSegs ⟨((cuts.take k).foldl heapStep ⟨h.cells, [], 0⟩).heap, h.arrays⟩ sl = readSegs h sl) :=
  ⟨fun t m hi hmem => readSegs_extends (modeCutTrace_extends h t m hi hmem) sl ha hc,
   fun cuts k => readSegs_extends (heapLoop_prefix_extends h cuts k) sl ha hc⟩

/-- Why "after" is not enough.  The variant that empties the argument's `Segments` around the copy: whenever
the argument has a start time and at least one segment and `d ≠ 0`, the heap after its first statement shows
the caller's mode object WITHOUT its segments — for every heap. -/
theorem C18_transient_write_visible_meanwhile (h : HeapM) (d s : Int) (p : Nat) (hd : d ≠ 0)
    (hp : p < h.modes.length) (hs : (readMode h p).start = some s) (hl : (readMode h p).segs.len ≠ 0) :
    ∃ hi ∈ (modeShiftTrace true h d p).1, (readMode hi p).segs.len = 0 ∧ readMode hi p ≠ readMode h p := by
  refine ⟨setMode h p (fun o => ⟨o.start, ⟨0, 0, 0⟩⟩), ?_, ?_⟩
  · unfold modeShiftTrace
    simp [hd, hs]
  · have key : readMode (setMode h p (fun o => ⟨o.start, ⟨0, 0, 0⟩⟩)) p = ⟨(readMode h p).start, ⟨0, 0, 0⟩⟩ := by
      simp only [readMode, setMode]
      have : ∀ (l : List ModeObj) (n : Nat), n < l.length →
          (modifyNth n (fun o : ModeObj => (⟨o.start, ⟨0, 0, 0⟩⟩ : ModeObj)) l)[n]? =
            (l[n]?).map (fun o => ⟨o.start, ⟨0, 0, 0⟩⟩) := by
        intro l
        induction l with
        | nil => intro n hn; simp at hn
        | cons x t ih =>
          intro n hn
          cases n with
          | zero => simp [modifyNth]
          | succ n => simpa [modifyNth] using ih n (by simpa using hn)
      rw [this h.modes p hp]
      cases hq : h.modes[p]? with
      | none =>
        have := List.getElem?_eq_none_iff.mp hq
        omega
      | some o => simp
    rw [key]
    refine ⟨rfl, ?_⟩
    intro heq
    apply hl
    rw [← heq]

/-- …and is invisible afterwards: on this heap (one mode object with start time 5 and segments `[1/2, 2/4]`)
the variant's final heap has the same pre-existing cells, arrays and mode objects as before the call, and the
result reads back exactly like the result of the code (start 8, same segments) — while its first intermediate
heap has the argument's segment list empty, and no intermediate heap of the code differs from the initial one on
the argument. -/
theorem C18_transient_write_invisible_after :
    let h : HeapM := ⟨⟨[⟨1, some 2⟩, ⟨2, some 4⟩], [[0, 1]]⟩, [⟨some 5, ⟨0, 0, 2⟩⟩]⟩
    let bad := modeShiftTrace true h 3 0
    let good := modeShiftTrace false h 3 0
    (bad.1.getLast?.map (fun e => (e.modes.take 1, e.base.cells.take 2, e.base.arrays.take 1)))
      = some (h.modes, h.base.cells, h.base.arrays) ∧
    (bad.1.getLast?.map (fun e => ((readMode e bad.2).start, readSegs e.base (readMode e bad.2).segs)))
      = (good.1.getLast?.map (fun e => ((readMode e good.2).start, readSegs e.base (readMode e good.2).segs))) ∧
    (good.1.getLast?.map (fun e => ((readMode e good.2).start, readSegs e.base (readMode e good.2).segs)))
      = some (some 8, [⟨1, some 2⟩, ⟨2, some 4⟩]) ∧
    bad.1.map (fun e => (readMode e 0).segs.len) = [0, 0, 2, 2, 2] ∧
    good.1.map (fun e => (readMode e 0).segs.len) = [2, 2] := by
  refine ⟨by decide, by decide, by decide, by decide, by decide⟩

/-! Non-vacuity: the traces are not empty on inputs that reach the writing branches, and the heap version of
`modepb.Shift` computes what the pure model computes (read back through the heap). -/
example :
    (let r := modeShiftTrace false ⟨⟨[⟨0, some 2⟩, ⟨2, some 2⟩], [[0, 1]]⟩, [⟨none, ⟨0, 0, 2⟩⟩]⟩ 3 0
     r.1.getLast?.map (fun e => ((readMode e r.2).start, readSegs e.base (readMode e r.2).segs)))
    = (let q := modeShift 3 ⟨none, [⟨0, some 2⟩, ⟨2, some 2⟩]⟩; some (q.start, q.segs)) := by decide
example :
    (modeShiftTrace false ⟨⟨[⟨0, some 2⟩, ⟨2, some 2⟩], [[0, 1]]⟩, [⟨none, ⟨0, 0, 2⟩⟩]⟩ 3 0).1.length = 3 := by decide
example : ValidMode ⟨⟨[⟨0, some 2⟩, ⟨2, some 2⟩], [[0, 1]]⟩, [⟨none, ⟨0, 0, 2⟩⟩]⟩ 0 := by
  refine ⟨by decide, by decide, ?_⟩
  intro a ha
  have : a = 0 ∨ a = 1 := by simpa [readSlice, readMode] using ha
  rcases this with rfl | rfl <;> decide
example :
    (let h : HeapM := ⟨⟨[⟨1, some 2⟩, ⟨2, some 4⟩], [[0, 1]]⟩, [⟨some 5, ⟨0, 0, 2⟩⟩]⟩
     (modeShiftTrace true h 3 0).1.map (fun e => observe e 0))
    = [(some 5, []), (some 5, []), (some 5, [⟨1, some 2⟩, ⟨2, some 4⟩]), (some 5, [⟨1, some 2⟩, ⟨2, some 4⟩]),
       (some 5, [⟨1, some 2⟩, ⟨2, some 4⟩])] := by decide
example :
    (modeCutTrace ⟨[⟨1, some 2⟩, ⟨2, some 4⟩, ⟨3, some 1⟩], [[0, 1, 2]]⟩ 5 ⟨some 2, ⟨0, 0, 3⟩⟩).length = 5 := by decide
example :
    ((([⟨1, 2⟩, ⟨3, -2⟩, ⟨4, 1⟩] : List Edge).take 2).foldl heapStep ⟨[⟨7, none⟩], [], 0⟩).heap
      = [⟨7, none⟩, ⟨0, some 1⟩, ⟨2, some 2⟩, ⟨0, none⟩] := by decide

/-! ## Round 8: `segmentpb.Shift`, statement by statement -/

/-- After every allocating or writing statement of `segmentpb.Shift` — for any heap, any slice and any `d` of
either sign: the clone of an idle first segment, the store of its `Length` (into the clone), `make`, `out[0] = …`,
`copy(out[1:], …)`, the allocations of `Cut` in the negative branch — every pre-existing segment cell and backing
array is unchanged; the last heap of the trace and the result slice are those of `heapShift`, the model
`C18_args_unchanged` speaks about. -/
theorem C18_args_never_written_shift (h : Heap) (d : Int) (sl : Slice) :
    (∀ hi ∈ (shiftTrace true h d sl).1,
      (∀ a, a < h.cells.length → hi.cells[a]? = h.cells[a]?) ∧
      (∀ i, i < h.arrays.length → hi.arrays[i]? = h.arrays[i]?)) ∧
    (shiftTrace true h d sl).2 = (heapShift h d sl).2 ∧
    (∀ hl, (shiftTrace true h d sl).1.getLast? = some hl → hl = (heapShift h d sl).1) :=
  ⟨fun hi hmem => (shiftTrace_extends h d sl hi hmem).pointwise, shiftTrace_last h d sl⟩

/-- The clause as a concurrent reader experiences it, for `segmentpb.Shift`: ANY segment list that existed
before the call (`sl'`: the argument, a list sharing cells or the backing array with it, anything else) reads
the same values at every moment of the call. -/
theorem C18_concurrent_reader_shift (h : Heap) (sl' : Slice) (ha : sl'.arr < h.arrays.length)
    (hc : ∀ a ∈ readSlice h sl', a < h.cells.length) (d : Int) (sl : Slice) :
    ∀ hi ∈ (shiftTrace true h d sl).1, readSegs hi sl' = readSegs h sl' :=
  fun hi hmem => readSegs_extends (shiftTrace_extends h d sl hi hmem) sl' ha hc

/-- Why the clone is there ("clone so we don't update the original").  Without it, whenever the list starts
with an existing idle segment of length `l` and `d > 0`, the heap after the `Length` store shows the CALLER's
first segment with length `l + d` — for every heap. -/
theorem C18_shift_without_clone_writes_argument (h : Heap) (d l : Int) (sl : Slice) (first : Nat)
    (rest : List Nat) (hd : d > 0) (hs : readSlice h sl = first :: rest) (hf : first < h.cells.length)
    (hcell : readCell h first = ⟨0, some l⟩) :
    ∃ hi ∈ (shiftTrace false h d sl).1,
      readCell hi first = ⟨0, some (l + d)⟩ ∧ readCell hi first ≠ readCell h first := by
  have hne : d ≠ 0 := by omega
  refine ⟨setCell h first (fun s => ⟨s.mag, some (l + d)⟩), ?_, ?_⟩
  · unfold shiftTrace
    simp [hne, hs, hd, hcell]
  · have key : readCell (setCell h first (fun s => ⟨s.mag, some (l + d)⟩)) first = ⟨0, some (l + d)⟩ := by
      have hq : h.cells[first]? = some (readCell h first) := by
        simp only [readCell]
        rw [List.getElem?_eq_getElem hf]
        rfl
      simp only [readCell, setCell, modifyNth_getElem?] at hq ⊢
      rw [hq]
      simp only [Option.map_some, Option.getD_some]
      have := hcell
      simp only [readCell] at this
      rw [hq] at this
      simp only [Option.getD_some] at this
      rw [this]
    rw [key, hcell]
    refine ⟨rfl, ?_⟩
    intro heq
    injection heq with _ h2
    injection h2 with h3
    omega

/-! Non-vacuity: each writing branch has a trace, the heap version computes what the pure model computes, and
the variant without the clone is seen on a concrete heap (cell 0 changes under the caller's feet; with the clone
cell 0 is `0/2` in every heap). -/
example : ((shiftTrace true ⟨[⟨0, some 2⟩, ⟨2, some 2⟩], [[0, 1]]⟩ 3 ⟨0, 0, 2⟩).1.length,
           (shiftTrace true ⟨[⟨1, some 2⟩, ⟨2, some 2⟩], [[0, 1]]⟩ 3 ⟨0, 0, 2⟩).1.length,
           (shiftTrace true ⟨[⟨1, some 2⟩, ⟨2, some 2⟩], [[0, 1]]⟩ (-1) ⟨0, 0, 2⟩).1.length) = (5, 4, 4) := by decide
example :
    (let r := shiftTrace true ⟨[⟨0, some 2⟩, ⟨2, some 2⟩], [[0, 1]]⟩ 3 ⟨0, 0, 2⟩
     r.1.getLast?.map (fun e => readSegs e r.2)) = some (shift 3 [⟨0, some 2⟩, ⟨2, some 2⟩]) := by decide
example :
    (let r := shiftTrace true ⟨[⟨1, some 2⟩, ⟨2, some 2⟩], [[0, 1]]⟩ (-1) ⟨0, 0, 2⟩
     r.1.getLast?.map (fun e => readSegs e r.2)) = some (shift (-1) [⟨1, some 2⟩, ⟨2, some 2⟩]) := by decide
example :
    ((shiftTrace false ⟨[⟨0, some 2⟩, ⟨2, some 2⟩], [[0, 1]]⟩ 3 ⟨0, 0, 2⟩).1.map (fun e => readCell e 0),
     (shiftTrace true ⟨[⟨0, some 2⟩, ⟨2, some 2⟩], [[0, 1]]⟩ 3 ⟨0, 0, 2⟩).1.map (fun e => readCell e 0)) =
    ([⟨0, some 2⟩, ⟨0, some 5⟩, ⟨0, some 5⟩, ⟨0, some 5⟩, ⟨0, some 5⟩],
     [⟨0, some 2⟩, ⟨0, some 2⟩, ⟨0, some 2⟩, ⟨0, some 2⟩, ⟨0, some 2⟩]) := by decide

/-! ## Round 8: `modepb.Sum`, statement by statement (the last writer) -/

/-- `modepb.Sum` at every moment: after each statement of every `segmentpb.Shift` of its alignment loop, after
each iteration of the loop of `segmentpb.Sum` and after the allocation of the `result` array — for any heap and
any modes (with or without start times) — every pre-existing segment cell and backing array is unchanged; the
last heap of the trace is the heap `C18_args_unchanged_modes` speaks about.  With `C18_args_never_written_shift`,
`_modeShift`, `_modeCut` and `_sum` every operation of the two packages that writes at all is covered statement by
statement. -/
theorem C18_args_never_written_modeSum (h : Heap) (ms : List HeapMode) :
    (∀ hi ∈ modeSumTrace h ms,
      (∀ a, a < h.cells.length → hi.cells[a]? = h.cells[a]?) ∧
      (∀ i, i < h.arrays.length → hi.arrays[i]? = h.arrays[i]?)) ∧
    (∀ hl, (modeSumTrace h ms).getLast? = some hl → hl = (heapModeSum h ms).1) :=
  ⟨fun hi hmem => (modeSumTrace_extends h ms hi hmem).pointwise, modeSumTrace_last h ms⟩

/-- …and what a concurrent reader of ANY pre-existing segment list (the segments of one of the modes being
summed, say) sees during `modepb.Sum`: the same values at every moment. -/
theorem C18_concurrent_reader_modeSum (h : Heap) (sl' : Slice) (ha : sl'.arr < h.arrays.length)
    (hc : ∀ a ∈ readSlice h sl', a < h.cells.length) (ms : List HeapMode) :
    ∀ hi ∈ modeSumTrace h ms, readSegs hi sl' = readSegs h sl' :=
  fun hi hmem => readSegs_extends (modeSumTrace_extends h ms hi hmem) sl' ha hc

example :
    (modeSumTrace ⟨[⟨1, some 2⟩, ⟨2, some 4⟩, ⟨3, some 1⟩], [[0, 1], [2]]⟩
      [⟨some 0, ⟨0, 0, 2⟩⟩, ⟨some 2, ⟨1, 0, 1⟩⟩]).length = 12 := by decide
example :
    (let h : Heap := ⟨[⟨1, some 2⟩, ⟨2, some 4⟩, ⟨3, some 1⟩], [[0, 1], [2]]⟩
     let ms : List HeapMode := [⟨some 0, ⟨0, 0, 2⟩⟩, ⟨some 2, ⟨1, 0, 1⟩⟩]
     (modeSumTrace h ms).getLast?.map (fun e => (heapModeSum h ms).2.map (fun r => trimLast (dropRule false) (readSegs e r.segs))))
    = some ((modeSum [⟨some 0, [⟨1, some 2⟩, ⟨2, some 4⟩]⟩, ⟨some 2, [⟨3, some 1⟩]⟩]).map (fun r => r.segs)) := by decide

end ScVerif.C18
