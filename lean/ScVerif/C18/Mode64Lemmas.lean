import ScVerif.C18.Mode64
import ScVerif.C18.Seg64Lemmas
/-! Lemmas about the mode operations as compiled (saturating `Sub`, 64-bit durations). -/
namespace ScVerif.C18

theorem sat64_id (x : Int) (h1 : -two63 ≤ x) (h2 : x < two63) : sat64 x = x := by
  unfold sat64
  have a : ¬ x < -two63 := by omega
  have b : ¬ x ≥ two63 := by omega
  simp [a, b]

theorem sat64_cases (x : Int) :
    (x < -two63 ∧ sat64 x = -two63) ∨ (two63 ≤ x ∧ sat64 x = two63 - 1) ∨
    (-two63 ≤ x ∧ x < two63 ∧ sat64 x = x) := by
  by_cases a : x < -two63
  · simp [sat64, a]
  · by_cases b : x ≥ two63
    · simp [sat64, a, b]
    · exact Or.inr (Or.inr ⟨by omega, by omega, sat64_id x (by omega) (by omega)⟩)

/-- Beyond the total length the scan of `ActiveAt` no longer depends on `d`. -/
theorem activeAtLoop_beyond (d d' : Int) (segs : List Seg) (cur : Int) (i : Nat) (hnn : NonNeg segs)
    (h : cur + lenSum segs ≤ d) (h' : cur + lenSum segs ≤ d') :
    activeAtLoop d cur i segs = activeAtLoop d' cur i segs := by
  induction segs generalizing cur i with
  | nil => rfl
  | cons s rest ih =>
    cases hl : s.len with
    | none => simp [activeAtLoop, hl]
    | some l =>
      have hr := lenSum_nonneg rest hnn.tail
      rw [lenSum_cons_some s rest l hl] at h h'
      have a : ¬ cur + l > d := by omega
      have b : ¬ cur + l > d' := by omega
      simp only [activeAtLoop, hl, a, b, if_false]
      exact ih (cur + l) (i + 1) hnn.tail (by omega) (by omega)

/-- The index found by `ActiveAt` is the same for the true offset and for the saturated one. -/
theorem activeAt_sat_idx (d : Int) (segs : List Seg) (h : Small segs) :
    (activeAt (sat64 d) segs).2 = (activeAt d segs).2 := by
  rcases sat64_cases d with ⟨hlt, e⟩ | ⟨hge, e⟩ | ⟨_, _, e⟩
  · have t63 := two63_pos
    have a : d < 0 := by omega
    have b : sat64 d < 0 := by omega
    simp [activeAt, a, b]
  · have t63 := two63_pos
    have hs := h.2
    have a : ¬ d < 0 := by omega
    have b : ¬ sat64 d < 0 := by omega
    simp only [activeAt, a, b, if_false]
    rw [activeAtLoop_beyond (sat64 d) d segs 0 0 h.1 (by omega) (by omega)]
  · rw [e]

/-- `MagnitudeAt` at the saturated offset is `MagnitudeAt` at the true offset. -/
theorem magnitudeAt_sat (d : Int) (segs : List Seg) (h : Small segs) :
    magnitudeAt (sat64 d) segs = magnitudeAt d segs := by
  have hidx := activeAt_sat_idx d segs h
  have t63 := two63_pos
  have hsign : sat64 d < 0 ↔ d < 0 := by
    rcases sat64_cases d with ⟨hlt, e⟩ | ⟨hge, e⟩ | ⟨_, _, e⟩ <;> omega
  unfold magnitudeAt
  by_cases a : d < 0
  · simp [a, hsign.mpr a]
  · have b : ¬ sat64 d < 0 := fun x => a (hsign.mp x)
    simp only [a, b, if_false, hidx]

theorem maxAfter_sat (d : Int) (segs : List Seg) (h : Small segs) :
    maxAfter (sat64 d) segs = maxAfter d segs := by
  unfold maxAfter
  simp only [activeAt_sat_idx d segs h]

/-- For `d ≥ 0` `Shift` as compiled never stores a `nil` element. -/
theorem shift64_pos_all_some (d : Int) (segs : List Seg) (hd : 0 ≤ d) :
    ∀ o ∈ shift64 d segs, o ≠ none := by
  unfold shift64
  by_cases h0 : d = 0
  · simp [h0]
  · have hp : d > 0 := by omega
    simp only [h0, if_false]
    cases segs with
    | nil => simp
    | cons first rest =>
      simp only [hp, if_true]
      by_cases hm : first.mag = 0
      · simp only [hm, if_true]
        cases first.len <;> simp
      · simp only [hm, if_false]
        simp

/-- Without saturation and overflow `modepb.Cut` as compiled is the unbounded `modeCut`. -/
theorem modeCut64_eq (t : Int) (m : Mode) (h : Small m.segs) (hspan : t - tOrST t m < two63) :
    modeCut64 t m = modeCut t m := by
  unfold modeCut64 modeCut
  by_cases h0 : m.segs.length = 0
  · simp [h0]
  · simp only [h0, if_false]
    by_cases hgt : t > tOrST t m
    · have hgt' : ¬¬ (t > tOrST t m) := fun x => x hgt
      have t63 := two63_pos
      have hsat : sat64 (t - tOrST t m) = t - tOrST t m := sat64_id _ (by omega) hspan
      simp only [hgt', if_false, hsat, activeAt64_eq _ _ h]
      have hd : 0 ≤ t - tOrST t m := by omega
      have hn : ¬ t - tOrST t m < 0 := by omega
      have hspec := activeAtLoop_spec m.segs (t - tOrST t m) hd
      have hact : activeAt (t - tOrST t m) m.segs = activeAtLoop (t - tOrST t m) 0 0 m.segs := by
        simp [activeAt, hn]
      have hel : 0 ≤ (activeAt (t - tOrST t m) m.segs).1 := by
        rw [hact, hspec.1]
        exact lenSum_nonneg _ (fun s hs => h.1 s (List.mem_of_mem_take hs))
      have hle : (activeAt (t - tOrST t m) m.segs).1 ≤ t - tOrST t m := by
        rw [hact]; exact hspec.2.1
      have hw : wrap (t - tOrST t m - (activeAt (t - tOrST t m) m.segs).1)
          = t - tOrST t m - (activeAt (t - tOrST t m) m.segs).1 := wrap_id _ (by omega) (by omega)
      simp only [hw]
      rfl
    · simp [hgt]

theorem modeRead64_eq (t : Int) (m : Mode) (h : Small m.segs) :
    modeMagnitudeAt64 t m = modeMagnitudeAt t m ∧
    (modeActiveAt64 t m).2 = (modeActiveAt t m).2 ∧
    modeMaxSegmentAfter64 t m = modeMaxSegmentAfter t m := by
  refine ⟨?_, ?_, ?_⟩
  · unfold modeMagnitudeAt64 modeMagnitudeAt
    rw [magnitudeAt64_eq _ _ h, magnitudeAt_sat _ _ h]
  · unfold modeActiveAt64 modeActiveAt
    rw [activeAt64_eq _ _ h, activeAt_sat_idx _ _ h]
  · unfold modeMaxSegmentAfter64 modeMaxSegmentAfter
    rw [maxAfter64_eq _ _ h, maxAfter_sat _ _ h]

theorem minAtLoop64_eq (t : Int) (ms : List Mode) (h : ∀ m ∈ ms, Small m.segs)
    (cur : Option (Nat × Int)) (i : Nat) : minAtLoop64 t cur i ms = minAtLoop t cur i ms := by
  induction ms generalizing cur i with
  | nil => rfl
  | cons m ms ih =>
    have hm := (modeRead64_eq t m (h m List.mem_cons_self)).1
    have ih' := fun c j => ih (fun x hx => h x (List.mem_cons_of_mem _ hx)) c j
    cases cur with
    | none => simp only [minAtLoop64, minAtLoop, hm, ih']
    | some jg =>
      obtain ⟨j, g⟩ := jg
      simp only [minAtLoop64, minAtLoop, hm, ih']

/-! ### `modepb.Sum` as compiled -/

theorem lenSum_shift_le (d : Int) (segs : List Seg) (hd : 0 ≤ d) (hnn : NonNeg segs) :
    lenSum (shift d segs) ≤ lenSum segs + d := by
  unfold shift
  by_cases h0 : d = 0
  · simp [h0]
  · have hp : d > 0 := by omega
    simp only [h0, if_false]
    cases segs with
    | nil => simp [lenSum]; omega
    | cons first rest =>
      simp only [hp, if_true]
      by_cases hm : first.mag = 0
      · simp only [hm, if_true]
        cases hf : first.len with
        | none => simp only []; omega
        | some l => simp [lenSum, hf]; omega
      · simp only [hm, if_false]
        simp [lenSum]; omega

theorem filterMap_id_map_some (l : List Seg) : (l.map some).filterMap id = l := by
  induction l with
  | nil => rfl
  | cons x r ih => simp [ih]

/-- Every list is short enough that aligning it anywhere between two start times keeps its total below
2^63 ns (in particular all start times lie within 2^63 ns of each other). -/
def SpanSmall (ms : List Mode) : Prop :=
  ∀ m ∈ ms, Small m.segs ∧ ∀ a ∈ starts ms, ∀ b ∈ starts ms, lenSum m.segs + (b - a) < two63

theorem alignLoop64_eq (e l : Int) (all ms : List Mode) (hsub : ∀ m ∈ ms, m ∈ all)
    (h : SpanSmall all) (he : e ∈ starts all) (hl : l ∈ starts all) (hle : ∀ s ∈ starts all, e ≤ s) :
    alignLoop64 e l ms = alignLoop e l ms ∧ AllSmall (alignLoop e l ms) := by
  induction ms with
  | nil => exact ⟨rfl, fun x hx => by simp [alignLoop] at hx⟩
  | cons m ms ih =>
    obtain ⟨ih1, ih2⟩ := ih (fun x hx => hsub x (List.mem_cons_of_mem _ hx))
    have hm := hsub m List.mem_cons_self
    obtain ⟨hsmall, hspan⟩ := h m hm
    have hst : m.start.getD l ∈ starts all := by
      cases hs : m.start with
      | none => simpa using hl
      | some s =>
        simp only [Option.getD_some]
        unfold starts
        exact List.mem_filterMap.mpr ⟨m, hm, hs⟩
    have hd0 : 0 ≤ m.start.getD l - e := by have := hle _ hst; omega
    have hsum : lenSum m.segs + (m.start.getD l - e) < two63 := hspan e he _ hst
    have t63 := two63_pos
    have hr := lenSum_nonneg m.segs hsmall.1
    have hsat : sat64 (m.start.getD l - e) = m.start.getD l - e := sat64_id _ (by omega) (by omega)
    have hsh := shift64_eq (m.start.getD l - e) m.segs hsmall (by omega) hsum
    refine ⟨?_, ?_⟩
    · simp only [alignLoop64, alignLoop, hsat, hsh, filterMap_id_map_some, ih1]
    · intro x hx
      simp only [alignLoop] at hx
      rcases List.mem_cons.mp hx with rfl | hx
      · exact ⟨shift_nonNeg _ _ hd0 hsmall.1, by have := lenSum_shift_le _ m.segs hd0 hsmall.1; omega⟩
      · exact ih2 x hx

theorem modeSum64_eq (ms : List Mode) (h : SpanSmall ms) : modeSum64 ms = modeSum ms := by
  cases ms with
  | nil => rfl
  | cons m0 ms0 =>
    have hsp := startsLoop_spec (m0 :: ms0) none none (Or.inl ⟨rfl, rfl⟩)
    simp only [] at hsp
    rcases hsp with ⟨h1, h2, _, _⟩ | ⟨a, b, h1, h2, _, ha, hb, hbounds, _, _⟩
    · have hpair : startsLoop none none (m0 :: ms0) = (none, none) := Prod.ext h1 h2
      have hall : AllSmall ((m0 :: ms0).map (·.segs)) := by
        intro l hl
        obtain ⟨m, hm, rfl⟩ := List.mem_map.mp hl
        exact (h m hm).1
      simp only [modeSum64, modeSum, hpair, sum64_eq _ hall]
    · have hpair : startsLoop none none (m0 :: ms0) = (some a, some b) := Prod.ext h1 h2
      have ha' : a ∈ starts (m0 :: ms0) := by
        rcases ha with ha | ha
        · exact ha
        · cases ha
      have hb' : b ∈ starts (m0 :: ms0) := by
        rcases hb with hb | hb
        · exact hb
        · cases hb
      obtain ⟨e1, e2⟩ := alignLoop64_eq a b (m0 :: ms0) (m0 :: ms0) (fun _ hx => hx) h ha' hb'
        (fun s hs => (hbounds s hs).1)
      simp only [modeSum64, modeSum, hpair, e1, sum64_eq _ e2]

end ScVerif.C18
