import ScVerif.C18.ModeLemmas
import ScVerif.C18.PropsSeg
import ScVerif.C18.MinAtLemmas
/-!
# C18 — property theorems, part 3: electric mode operations

"…mode operations (active-at, magnitude-at, … cut, shift, sum) commute with reading a segment list
as a step function of time": a mode is its segment list placed on the absolute timeline at its start
time.  `modeDen ref m x` is the magnitude of `m` at instant `x`; a mode without a start time has no
position of its own and each operation documents where it takes it to start — that instant is `ref`
(`Cut`/`MagnitudeAt`/`ActiveAt`: the query instant `t`; `Sum`: the most recent start time).

Only property theorems and their non-vacuity examples live in this file.
-/
namespace ScVerif.C18

/-- The reading operations are the segment operations at the offset from the start time (offset `0`
for a mode without start time): so `MagnitudeAt` is the mode's step function at `t` with `ok` its
support, and `ActiveAt` points at the segment that value comes from. -/
theorem C18_modes_read (t : Int) (m : Mode) :
    modeMagnitudeAt t m = (modeDen t m t, covered m.segs (t - m.start.getD t)) ∧
    modeActiveAt t m = activeAt (t - m.start.getD t) m.segs ∧
    modeMaxSegmentAfter t m = maxAfter (t - m.start.getD t) m.segs ∧
    (m.start = none → modeMagnitudeAt t m = (den m.segs 0, covered m.segs 0)) ∧
    (∀ s, 0 ≤ t - m.start.getD t → m.segs[(modeActiveAt t m).2]? = some s → modeDen t m t = s.mag) := by
  refine ⟨?_, ?_, ?_, ?_, ?_⟩
  · unfold modeMagnitudeAt modeDen
    rw [tOrST_eq, magnitudeAt_eq]
  · unfold modeActiveAt; rw [tOrST_eq]
  · unfold modeMaxSegmentAfter; rw [tOrST_eq]
  · intro h
    unfold modeMagnitudeAt
    rw [tOrST_eq, magnitudeAt_eq, h]
    simp
  · intro s hd hs
    unfold modeActiveAt at hs
    rw [tOrST_eq] at hs
    unfold modeDen
    exact (((C18_activeAt _ m.segs).2 hd).2.2.2.2.1 s hs).1

/-- `modepb.Shift(d, mode)`: a mode with a start time is translated by `d` on the absolute timeline;
a mode without one has its segments shifted (`C18_shift`) and still has no start time. -/
theorem C18_modes_shift (d : Int) (m : Mode) :
    (∀ s, m.start = some s → ∀ ref x, modeDen ref (modeShift d m) x = modeDen ref m (x - d)) ∧
    (m.start = none → NonNeg m.segs →
      (modeShift d m).start = none ∧
      ∀ y, den (modeShift d m).segs y = if y < 0 then 0 else den m.segs (y - d)) := by
  constructor
  · intro s hs ref x
    unfold modeShift modeDen
    by_cases hd : d = 0
    · simp [hd]
    · simp only [hd, if_false, hs, Option.getD_some]
      congr 1
      omega
  · intro hs hnn
    unfold modeShift
    by_cases hd : d = 0
    · subst hd
      refine ⟨by simp [hs], fun y => ?_⟩
      by_cases hy : y < 0
      · simp [hy, den_neg _ _ hy]
      · simp [hy]
    · simp only [hd, if_false, hs]
      exact ⟨by first | rfl | trivial, fun y => shift_spec d m.segs hnn y⟩

/-- `modepb.Cut(t, mode)` splits the mode's step function at instant `t` without changing it: `before`
is the mode before `t` and nothing from `t` on, `after` is the mode from `t` on (`nil` = nothing;
a mode without start time is taken to start at `t`, as documented). -/
theorem C18_modes_cut (t : Int) (m : Mode) (hnn : NonNeg m.segs) :
    (∀ x, x < t → modeDenOpt t (modeCut t m).before x = modeDen t m x) ∧
    (∀ x, t ≤ x → modeDenOpt t (modeCut t m).before x = 0) ∧
    (∀ x, t ≤ x → modeDenOpt t (modeCut t m).after x = modeDen t m x) := by
  unfold modeCut
  by_cases h0 : m.segs.length = 0
  · have hnil : m.segs = [] := List.length_eq_zero_iff.mp h0
    simp only [h0, if_true, modeDenOpt]
    refine ⟨(by intros; first | rfl | trivial), fun x _ => ?_, (by intros; first | rfl | trivial)⟩
    simp [modeDen, hnil, den]
  · simp only [h0, if_false, tOrST_eq]
    by_cases hgt : t > m.start.getD t
    · have hgt' : ¬¬ (t > m.start.getD t) := fun h => h hgt
      simp only [hgt', if_false]
      have hd : 0 ≤ t - m.start.getD t := by omega
      have hn : ¬ t - m.start.getD t < 0 := by omega
      have hspec := activeAtLoop_spec m.segs (t - m.start.getD t) hd
      have hact : activeAt (t - m.start.getD t) m.segs = activeAtLoop (t - m.start.getD t) 0 0 m.segs := by
        simp [activeAt, hn]
      by_cases hend : (activeAt (t - m.start.getD t) m.segs).2 = m.segs.length
      · simp only [hend, if_true, modeDenOpt]
        have hzero : ∀ x, t ≤ x → modeDen t m x = 0 := by
          intro x hx
          unfold modeDen
          have hfin : ∀ s ∈ m.segs, s.len ≠ none := by
            have := hspec.2.2.2.2.2
            rw [← hact, hend, List.take_length] at this
            exact this
          apply den_finite_after m.segs hfin hnn
          have h1 := hspec.1
          have h2 := hspec.2.1
          rw [← hact, hend, List.take_length] at h1
          rw [← hact] at h2
          omega
        exact ⟨(by intros; first | rfl | trivial), hzero, fun x hx => (hzero x hx).symm⟩
      · simp only [hend, if_false]
        cases hs : m.segs[(activeAt (t - m.start.getD t) m.segs).2]? with
        | none =>
          have := modeCut_index_valid m.segs _ hend
          rw [hs] at this
          cases this
        | some s =>
          simp only [modeDenOpt]
          obtain ⟨hb, ha⟩ := cut_lists m.segs hnn (t - m.start.getD t) hd s hs
          refine ⟨fun x hx => ?_, fun x hx => ?_, fun x hx => ?_⟩
          · have := hb (x - m.start.getD t)
            have hlt : x - m.start.getD t < t - m.start.getD t := by omega
            simp only [hlt, if_true] at this
            unfold modeDen
            rw [← this]
            cases (cutSeg (t - m.start.getD t - (activeAt (t - m.start.getD t) m.segs).1) s).before <;>
              simp [optToList]
          · have := hb (x - m.start.getD t)
            have hlt : ¬ x - m.start.getD t < t - m.start.getD t := by omega
            simp only [hlt, if_false] at this
            unfold modeDen
            rw [← this]
            cases (cutSeg (t - m.start.getD t - (activeAt (t - m.start.getD t) m.segs).1) s).before <;>
              simp [optToList]
          · have := ha (x - t) (by omega)
            have e : x - t + (t - m.start.getD t) = x - m.start.getD t := by omega
            rw [e] at this
            unfold modeDen
            rw [← this]
            cases (cutSeg (t - m.start.getD t - (activeAt (t - m.start.getD t) m.segs).1) s).after <;>
              simp [optToList]
    · have hgt' : ¬ (t > m.start.getD t) := hgt
      simp only [hgt', not_false_eq_true, if_true, modeDenOpt]
      refine ⟨fun x hx => ?_, (by intros; first | rfl | trivial), (by intros; first | rfl | trivial)⟩
      unfold modeDen
      exact (den_neg _ _ (by omega)).symm

/-- Where `modepb.Cut` indexes `mode.Segments[index]`, the index is in range (the model's stand-in
for the Go index-out-of-range panic is never reached). -/
theorem C18_modes_cut_no_panic (segs : List Seg) (d : Int)
    (h : (activeAt d segs).2 ≠ segs.length) : (segs[(activeAt d segs).2]?).isSome = true :=
  modeCut_index_valid segs d h

/-- `modepb.MinAt(t, modes)` iterates over a Go map.  For EVERY order `ms` in which the iteration may
deliver the modes: the result is `nil` only for no modes; otherwise the returned mode is one of the
modes, the returned magnitude is that mode's value at `t` (a mode without a segment at `t` counts as
`0`), no mode has a smaller one, and the returned mode is the first such mode in iteration order. -/
theorem C18_minAt (t : Int) (ms : List Mode) :
    match modeMinAt t ms with
    | none => ms = []
    | some (k, g) =>
      (∃ m, ms[k]? = some m ∧ g = modeDen t m t) ∧
      (∀ m ∈ ms, g ≤ modeDen t m t) ∧
      (∀ (n : Nat) m, n < k → ms[n]? = some m → g < modeDen t m t) := by
  have hden : ∀ m, (modeMagnitudeAt t m).1 = modeDen t m t := fun m => by rw [(C18_modes_read t m).1]
  have h := minAtLoop_spec t ms none 0 (fun j g0 hh => by cases hh)
  unfold modeMinAt
  cases hr : minAtLoop t none 0 ms with
  | none => rw [hr] at h; exact h.2
  | some kg =>
    obtain ⟨k, g⟩ := kg
    rw [hr] at h
    simp only [] at h ⊢
    obtain ⟨h1, h2, _, h4⟩ := h
    refine ⟨?_, fun m hm => by rw [← hden]; exact h2 m hm, fun n m hn hm => ?_⟩
    · rcases h1 with h1 | ⟨m, _, hm, hg⟩
      · cases h1
      · exact ⟨m, by simpa using hm, by rw [← hden]; exact hg⟩
    · rw [← hden]; exact h4 n m (by omega) hm

/-- The MAGNITUDE returned by `MinAt` does not depend on the map iteration order… -/
theorem C18_minAt_magnitude_order_independent (t : Int) (ms ms' : List Mode) (hp : ms.Perm ms') :
    (modeMinAt t ms).map (·.2) = (modeMinAt t ms').map (·.2) := by
  have h := C18_minAt t ms
  have h' := C18_minAt t ms'
  cases hr : modeMinAt t ms with
  | none =>
    rw [hr] at h
    subst h
    have : ms' = [] := List.Perm.eq_nil hp.symm
    subst this
    rfl
  | some kg =>
    obtain ⟨k, g⟩ := kg
    rw [hr] at h
    cases hr' : modeMinAt t ms' with
    | none =>
      rw [hr'] at h'
      subst h'
      have : ms = [] := List.Perm.eq_nil hp
      subst this
      cases hr
    | some kg' =>
      obtain ⟨k', g'⟩ := kg'
      rw [hr'] at h'
      simp only [] at h h'
      obtain ⟨⟨m, hm, hg⟩, hall, _⟩ := h
      obtain ⟨⟨m', hm', hg'⟩, hall', _⟩ := h'
      have hmem : m ∈ ms' := hp.subset (List.mem_of_getElem? hm)
      have hmem' : m' ∈ ms := hp.symm.subset (List.mem_of_getElem? hm')
      have a := hall' m hmem
      have b := hall m' hmem'
      simp only [Option.map_some, Option.some.injEq]
      omega

/-- … but the returned MODE does when several modes share the smallest magnitude: the same two modes
in the two possible orders give two different modes.  (Not a violation of C18 — "the mode with the
smallest magnitude" is any of them, and nothing is modified — but callers must not rely on which.) -/
theorem C18_minAt_mode_depends_on_order :
    ∃ (t : Int) (a b : Mode), a ≠ b ∧
      (modeMinAt t [a, b]).map (fun r => [a, b][r.1]?) = some (some a) ∧
      (modeMinAt t [b, a]).map (fun r => [b, a][r.1]?) = some (some b) :=
  ⟨0, ⟨some 0, [⟨1, some 2⟩]⟩, ⟨some 0, [⟨1, some 3⟩]⟩, by decide, by decide, by decide⟩

/-- `modepb.Sum(modes...)`, full strength (after `fix:` 5957697 of `segmentpb.Sum`).  Without any
start time the result has none and is the pointwise sum of the segment lists; otherwise it starts at
the earliest start time `e` and is the pointwise sum of the modes on the absolute timeline, a mode
without start time being taken to start at the most recent start time `l`. -/
theorem C18_modes_sum (ms : List Mode) (hne : ms ≠ []) (hnn : ∀ m ∈ ms, NonNeg m.segs) :
    ∃ r, modeSum ms = some r ∧
      (starts ms = [] → r.start = none ∧ ∀ y, den r.segs y = denSum (ms.map (·.segs)) y) ∧
      (starts ms ≠ [] → ∃ e l, e ∈ starts ms ∧ l ∈ starts ms ∧ (∀ s ∈ starts ms, e ≤ s ∧ s ≤ l) ∧
        r.start = some e ∧ ∀ ref x, modeDen ref r x = modeDenSum l ms x) := by
  cases ms with
  | nil => exact absurd rfl hne
  | cons m0 ms0 =>
    have hsp := startsLoop_spec (m0 :: ms0) none none (Or.inl ⟨rfl, rfl⟩)
    simp only [] at hsp
    have hall : AllNonNeg ((m0 :: ms0).map (·.segs)) := by
      intro l hl
      obtain ⟨m, hm, rfl⟩ := List.mem_map.mp hl
      exact hnn m hm
    rcases hsp with ⟨h1, h2, _, hst⟩ | ⟨a, b, h1, h2, hab, ha, hb, hbounds, _, _⟩
    · have hpair : startsLoop none none (m0 :: ms0) = (none, none) := Prod.ext h1 h2
      refine ⟨⟨none, sum ((m0 :: ms0).map (·.segs))⟩, ?_, ?_, ?_⟩
      · simp only [modeSum, hpair]
      · intro _
        exact ⟨by first | rfl | trivial, fun y => C18_sum _ hall y⟩
      · intro h; exact absurd hst h
    · have hpair : startsLoop none none (m0 :: ms0) = (some a, some b) := Prod.ext h1 h2
      have ha' : a ∈ starts (m0 :: ms0) := by
        rcases ha with ha | ha
        · exact ha
        · cases ha
      have hb' : b ∈ starts (m0 :: ms0) := by
        rcases hb with hb | hb
        · exact hb
        · cases hb
      obtain ⟨i1, _, i3⟩ := alignLoop_spec a b (m0 :: ms0) hnn hab (fun s hs => (hbounds s hs).1)
      refine ⟨⟨some a, sum (alignLoop a b (m0 :: ms0))⟩, ?_, ?_, ?_⟩
      · simp only [modeSum, hpair]
      · intro h; rw [h] at ha'; cases ha'
      · intro _
        refine ⟨a, b, ha', hb', hbounds, by first | rfl | trivial, fun ref x => ?_⟩
        unfold modeDen
        simp only [Option.getD_some]
        rw [C18_sum _ i1, i3]

/-- `modepb.Sum()` of no modes is `nil`. -/
theorem C18_modes_sum_empty : modeSum [] = none := rfl

/-- For the record, `modepb.Sum` before `fix:` 7872cfb (`modeSumLegacy zero`, with `zero` the instant of
the zero `time.Time`: "not set yet" was `earliest.IsZero()` / `latest.IsZero()`) computed the same mode as
the repaired code whenever no start time was the zero instant … -/
theorem C18_modes_sum_legacy_exact (zero : Int) (ms : List Mode) (hz : ∀ s ∈ starts ms, s ≠ zero) :
    modeSumLegacy zero ms = modeSum ms := by
  cases ms with
  | nil => rfl
  | cons m0 ms0 =>
    have h := startsLoopLegacy_eq zero (m0 :: ms0) hz zero zero 0 none none (Or.inl ⟨rfl, rfl, rfl, rfl, rfl⟩)
    unfold modeSumLegacy modeSum
    rcases h with ⟨h0, hp⟩ | ⟨hn, hp⟩
    · have : ¬ (startsLoopLegacy zero zero zero 0 (m0 :: ms0)).2.2 > 0 := by omega
      simp only [this, if_false, hp]
    · simp only [gt_iff_lt, hn, if_true, hp]

/-- … and was wrong when one was (the defect `C18/modepb.Sum/wrong-start`, repaired): with the zero instant
at `0`, `Sum(mode@0 [4 for 10ns], mode@5 [1 for 2ns])` started at `5` — the later start replaced the zero
one as "earliest" — and so was `0` at instant `0` where the pointwise sum is `4`; in the other direction a
mode without start time was placed at the wrong "most recent" start.  The repaired `Sum` starts at `0`
and is `4` there. -/
theorem C18_modes_sum_legacy_fails :
    modeSumLegacy 0 [⟨some 0, [⟨4, some 10⟩]⟩, ⟨some 5, [⟨1, some 2⟩]⟩]
      = some ⟨some 5, [⟨5, some 2⟩, ⟨4, some 3⟩]⟩ ∧
    modeDenOpt 0 (modeSumLegacy 0 [⟨some 0, [⟨4, some 10⟩]⟩, ⟨some 5, [⟨1, some 2⟩]⟩]) 0 = 0 ∧
    modeDenSum 5 [⟨some 0, [⟨4, some 10⟩]⟩, ⟨some 5, [⟨1, some 2⟩]⟩] 0 = 4 ∧
    modeSum [⟨some 0, [⟨4, some 10⟩]⟩, ⟨some 5, [⟨1, some 2⟩]⟩]
      = some ⟨some 0, [⟨4, some 5⟩, ⟨5, some 2⟩, ⟨4, some 3⟩]⟩ ∧
    (modeSumLegacy 0 [⟨some 0, [⟨1, some 1⟩]⟩, ⟨some (-1), []⟩, ⟨none, [⟨2, some 1⟩]⟩]).map (·.segs)
      = some [⟨2, some 1⟩, ⟨1, some 1⟩] ∧
    (modeSum [⟨some 0, [⟨1, some 1⟩]⟩, ⟨some (-1), []⟩, ⟨none, [⟨2, some 1⟩]⟩]).map (·.segs)
      = some [⟨0, some 1⟩, ⟨3, some 1⟩] := by
  refine ⟨by decide, by decide, by decide, by decide, by decide, by decide⟩

/-! Non-vacuity and concrete values. -/
example : modeCut 5 ⟨some 2, [⟨1, some 2⟩, ⟨2, some 4⟩, ⟨3, some 1⟩]⟩ =
    ⟨some ⟨some 2, [⟨1, some 2⟩, ⟨2, some 1⟩]⟩, some ⟨some 5, [⟨2, some 3⟩, ⟨3, some 1⟩]⟩, false⟩ := by decide
example : modeSum [⟨some 2, [⟨1, some 2⟩]⟩, ⟨none, [⟨3, some 3⟩]⟩, ⟨some 5, [⟨2, none⟩]⟩] =
    some ⟨some 2, [⟨1, some 2⟩, ⟨0, some 1⟩, ⟨5, some 3⟩, ⟨2, none⟩]⟩ := by decide
example : starts [⟨some 2, [⟨1, some 2⟩]⟩, ⟨none, [⟨3, some 3⟩]⟩, ⟨some 5, [⟨2, none⟩]⟩] = [2, 5] := by decide
example : modeShift 3 ⟨none, [⟨0, some 2⟩, ⟨2, some 2⟩]⟩ = ⟨none, [⟨0, some 5⟩, ⟨2, some 2⟩]⟩ := by decide
example : modeMagnitudeAt 9 ⟨none, [⟨4, some 0⟩, ⟨7, some 2⟩]⟩ = (7, true) := by decide

end ScVerif.C18
