import ScVerif.C18.SumLemmas
/-!
# C18 — "never modify their arguments", for the one operation that updates memory in place

`Shift`, `Cut`, `modepb.Cut`, `modepb.Shift`, `modepb.Sum` only allocate (`&Segment{…}`,
`proto.Clone`, `make`) and fill what they allocated.  `segmentpb.Sum` is the only operation that
*updates existing cells* (`result[len(result)-1].Magnitude += …`, `lastResult.Length = …`).  This file
models its loop on an explicit heap of segment cells — `result` is a slice of addresses — and proves
that, started on ANY heap `H0` (which holds the argument cells), the loop only appends cells and
updates cells it appended itself: the final heap is `H0 ++ cells`, and the appended cells are exactly
the list the pure rendering `sumGoStep` computes.  (Not driver-linked: proof only.)
-/
namespace ScVerif.C18

/-- `heap[a] = f(heap[a])`. -/
def modifyAt : Nat → (Seg → Seg) → List Seg → List Seg
  | _, _, [] => []
  | 0, f, s :: t => f s :: t
  | n + 1, f, s :: t => s :: modifyAt n f t

structure HeapState where
  heap : List Seg
  result : List Nat
  lastTime : Int

/-- One iteration of the loop of `Sum` on the heap: `append(result, &Segment{…})` allocates the next
address; the two assignments write through the address stored in `result[len(result)-1]`. -/
def heapStep (st : HeapState) (c : Edge) : HeapState :=
  let length := c.time - st.lastTime
  let st1 : HeapState :=
    if st.result.length = 0 then ⟨st.heap ++ [⟨0, none⟩], st.result ++ [st.heap.length], st.lastTime⟩
    else st
  match st1.result.getLast? with
  | none => st1
  | some a =>
    if length = 0 then
      ⟨modifyAt a (fun s => ⟨s.mag + c.delta, s.len⟩) st1.heap, st1.result, st1.lastTime⟩
    else
      let h2 := modifyAt a (fun s => ⟨s.mag, some length⟩) st1.heap
      let lastMag := match h2[a]? with
        | some s => s.mag
        | none => 0
      ⟨h2 ++ [⟨lastMag + c.delta, none⟩], st1.result ++ [h2.length], c.time⟩

/-- The addresses `base, base+1, …, base+n-1`. -/
def addrsFrom (base : Nat) : Nat → List Nat
  | 0 => []
  | n + 1 => addrsFrom base n ++ [base + n]

theorem addrsFrom_length (base n : Nat) : (addrsFrom base n).length = n := by
  induction n with
  | zero => rfl
  | succ n ih => simp [addrsFrom, ih]

theorem modifyAt_append_last (f : Seg → Seg) (l : List Seg) (x : Seg) :
    modifyAt l.length f (l ++ [x]) = l ++ [f x] := by
  induction l with
  | nil => rfl
  | cons a l ih => simp only [List.length_cons, List.cons_append, modifyAt, ih]

theorem sumGoStep_concat (done : List Seg) (x : Seg) (lt : Int) (c : Edge) :
    sumGoStep (done ++ [x], lt) c =
      if c.time - lt = 0 then (done ++ [⟨x.mag + c.delta, x.len⟩], lt)
      else (done ++ [⟨x.mag, some (c.time - lt)⟩] ++ [⟨x.mag + c.delta, none⟩], c.time) := by
  simp only [sumGoStep, List.length_append, List.length_cons, List.length_nil]
  have hne : ¬ (done.length + (0 + 1) = 0) := by omega
  simp only [hne, if_false, updLast_append_single, lastMagOf, List.getLast?_append,
    List.getLast?_singleton]
  simp

/-- The heap is the initial heap followed by the cells of `result`, at consecutive addresses. -/
def HeapInv (H0 : List Seg) (st : HeapState) (vals : List Seg) : Prop :=
  st.heap = H0 ++ vals ∧ st.result = addrsFrom H0.length vals.length

theorem heapStep_concat (H0 done : List Seg) (x : Seg) (st : HeapState) (c : Edge)
    (h : HeapInv H0 st (done ++ [x])) :
    HeapInv H0 (heapStep st c) (sumGoStep (done ++ [x], st.lastTime) c).1 ∧
    (heapStep st c).lastTime = (sumGoStep (done ++ [x], st.lastTime) c).2 := by
  obtain ⟨hh, hr⟩ := h
  have hlen : (done ++ [x]).length = done.length + 1 := by simp
  rw [hlen] at hr
  have hres : st.result = addrsFrom H0.length done.length ++ [H0.length + done.length] := hr
  have hne : ¬ st.result.length = 0 := by rw [hres]; simp
  have hlast : st.result.getLast? = some (H0.length + done.length) := by
    rw [hres]; simp
  have haddr : H0.length + done.length = (H0 ++ done).length := by simp
  have hheap : st.heap = (H0 ++ done) ++ [x] := by rw [hh]; simp
  rw [sumGoStep_concat]
  unfold heapStep
  simp only [hne, if_false, hlast]
  by_cases h0 : c.time - st.lastTime = 0
  · simp only [h0, if_true]
    refine ⟨⟨?_, ?_⟩, ?_⟩
    · simp only [hheap, haddr, modifyAt_append_last]
      simp
    · simp only [List.length_append, List.length_cons, List.length_nil]
      exact hr
    · trivial
  · simp only [h0, if_false]
    refine ⟨⟨?_, ?_⟩, ?_⟩
    · simp only [hheap, haddr, modifyAt_append_last]
      have : ((H0 ++ done ++ [(⟨x.mag, some (c.time - st.lastTime)⟩ : Seg)])[(H0 ++ done).length]?) =
          some ⟨x.mag, some (c.time - st.lastTime)⟩ := by simp
      simp only [this]
      simp
    · simp only [hheap, haddr, modifyAt_append_last, hres]
      simp [addrsFrom, Nat.add_assoc]
    · trivial

theorem heapStep_first (H0 : List Seg) (st : HeapState) (c : Edge) (h : HeapInv H0 st []) :
    HeapInv H0 (heapStep st c) (sumGoStep ([], st.lastTime) c).1 ∧
    (heapStep st c).lastTime = (sumGoStep ([], st.lastTime) c).2 := by
  obtain ⟨hh, hr⟩ := h
  simp only [List.append_nil] at hh
  simp only [List.length_nil, addrsFrom] at hr
  -- after the first `append` the state has the shape handled by `heapStep_concat`
  have hinv : HeapInv H0 ⟨st.heap ++ [⟨0, none⟩], st.result ++ [st.heap.length], st.lastTime⟩ ([] ++ [⟨0, none⟩]) := by
    refine ⟨by simp [hh], ?_⟩
    simp [hr, hh, addrsFrom]
  have hstep := heapStep_concat H0 [] ⟨0, none⟩ ⟨st.heap ++ [⟨0, none⟩], st.result ++ [st.heap.length], st.lastTime⟩ c hinv
  have e1 : heapStep st c = heapStep ⟨st.heap ++ [⟨0, none⟩], st.result ++ [st.heap.length], st.lastTime⟩ c := by
    unfold heapStep
    simp [hr]
  have e2 : sumGoStep ([], st.lastTime) c = sumGoStep ([] ++ [⟨0, none⟩], st.lastTime) c := by
    simp [sumGoStep]
  rw [e1, e2]
  exact hstep

theorem heapStep_inv (H0 vals : List Seg) (st : HeapState) (c : Edge) (h : HeapInv H0 st vals) :
    HeapInv H0 (heapStep st c) (sumGoStep (vals, st.lastTime) c).1 ∧
    (heapStep st c).lastTime = (sumGoStep (vals, st.lastTime) c).2 := by
  rcases List.eq_nil_or_concat vals with rfl | ⟨done, x, hv⟩
  · exact heapStep_first H0 st c h
  · rw [hv, List.concat_eq_append] at h ⊢
    exact heapStep_concat H0 done x st c h

theorem heapLoop_inv (H0 : List Seg) (cuts : List Edge) (vals : List Seg) (st : HeapState)
    (h : HeapInv H0 st vals) :
    HeapInv H0 (cuts.foldl heapStep st) (cuts.foldl sumGoStep (vals, st.lastTime)).1 := by
  induction cuts generalizing vals st with
  | nil => exact h
  | cons c cs ih =>
    simp only [List.foldl_cons]
    obtain ⟨h1, h2⟩ := heapStep_inv H0 vals st c h
    have := ih _ _ h1
    rw [h2] at this
    exact this

end ScVerif.C18
