import ScVerif.C18.TimeLemmas
/-!
# C18 — property theorems, part 1: timestamps and periods

Property (fixed text): "Period predicates decide exactly whether two half-open, optionally unbounded
intervals overlap (Intersect) or overlap-or-touch (Connected), symmetrically, and timestamp
comparison is a chronological total order returning -1, 0 or 1 as documented."

Only property theorems and their non-vacuity examples live in this file.
-/
namespace ScVerif.C18

/-- Full strength, every pair of (int64, int32) field values: the result is -1, 0 or 1, and it is the
sign of the lexicographic comparison of (seconds, nanos). -/
theorem C18_compare_sign (a b : Ts) :
    (compareAscending a b = -1 ∨ compareAscending a b = 0 ∨ compareAscending a b = 1) ∧
    (compareAscending a b = -1 ↔ (a.secs < b.secs ∨ (a.secs = b.secs ∧ a.nanos < b.nanos))) ∧
    (compareAscending a b = 0 ↔ a = b) ∧
    (compareAscending a b = 1 ↔ (a.secs > b.secs ∨ (a.secs = b.secs ∧ a.nanos > b.nanos))) := by
  have hc := compareAscending_cases a b
  have hab : a = b ↔ (a.secs = b.secs ∧ a.nanos = b.nanos) := by
    cases a; cases b; simp
  rw [hab]
  rcases hc with ⟨h, hc⟩ | ⟨h, hc⟩ | ⟨h, hc⟩ <;> rw [h] <;> refine ⟨by simp, ?_, ?_, ?_⟩ <;>
    constructor <;> intro hh <;> first | omega | rfl

/-- On normalised timestamps the comparison is chronological: it orders instants on the ns timeline. -/
theorem C18_compare_chronological (a b : Ts) (ha : a.Normal) (hb : b.Normal) :
    (compareAscending a b = -1 ↔ a.toNs < b.toNs) ∧
    (compareAscending a b = 0 ↔ a.toNs = b.toNs) ∧
    (compareAscending a b = 1 ↔ a.toNs > b.toNs) :=
  compareAscending_toNs a b ha hb

/-- Total order laws (no hypothesis): antisymmetry in the strong form `cmp b a = -(cmp a b)`,
transitivity of `≤`, reflexivity. -/
theorem C18_total_order (a b c : Ts) :
    compareAscending b a = - compareAscending a b ∧
    compareAscending a a = 0 ∧
    (compareAscending a b ≤ 0 → compareAscending b c ≤ 0 → compareAscending a c ≤ 0) := by
  refine ⟨?_, ?_, ?_⟩
  · rcases compareAscending_cases a b with ⟨h, hc⟩ | ⟨h, hc⟩ | ⟨h, hc⟩ <;>
    rcases compareAscending_cases b a with ⟨h', hc'⟩ | ⟨h', hc'⟩ | ⟨h', hc'⟩ <;>
    rw [h, h'] <;> omega
  · rcases compareAscending_cases a a with ⟨h, hc⟩ | ⟨h, hc⟩ | ⟨h, hc⟩ <;> first | exact h | omega
  · rcases compareAscending_cases a b with ⟨h, hc⟩ | ⟨h, hc⟩ | ⟨h, hc⟩ <;>
    rcases compareAscending_cases b c with ⟨h', hc'⟩ | ⟨h', hc'⟩ | ⟨h', hc'⟩ <;>
    rcases compareAscending_cases a c with ⟨h'', hc''⟩ | ⟨h'', hc''⟩ | ⟨h'', hc''⟩ <;>
    rw [h, h', h''] <;> omega

/-- `PeriodsIntersect` is exactly "the two intervals share an instant", for proper periods. -/
theorem C18_intersect (p q : Period) (hp : p.Proper) (hq : q.Proper) :
    periodsIntersect (some p) (some q) = true ↔ ∃ x : Int, p.Mem x ∧ q.Mem x := by
  have h1 := lower_lt_upper p q hp.1 hq.2.1
  have h2 := lower_lt_upper q p hq.1 hp.2.1
  simp only [periodsIntersect, Bool.and_eq_true, decide_eq_true_eq]
  rw [h1, h2]
  exact (exists_mem_iff p.lo p.hi q.lo q.hi hp.2.2 hq.2.2).symm

/-- `PeriodsIntersect` is symmetric and false when either period is absent — no hypothesis. -/
theorem C18_intersect_symm (p q : Option Period) :
    periodsIntersect p q = periodsIntersect q p ∧ periodsIntersect none q = false ∧
    periodsIntersect p none = false := by
  refine ⟨?_, rfl, ?_⟩
  · cases p <;> cases q <;> simp [periodsIntersect, Bool.and_comm]
  · cases p <;> rfl

/-- `PeriodsConnected` is exactly "some (possibly empty) interval `[x, x)` is enclosed by both",
i.e. the intervals overlap or touch, for periods with `start ≤ end`. -/
theorem C18_connected (p q : Period) (hp : p.Ordered) (hq : q.Ordered) :
    periodsConnected (some p) (some q) = true ↔ ∃ x : Int, p.Encloses x x ∧ q.Encloses x x := by
  have h1 := lower_le_upper p q hp.1 hq.2.1
  have h2 := lower_le_upper q p hq.1 hp.2.1
  simp only [periodsConnected, Bool.and_eq_true, decide_eq_true_eq]
  rw [h1, h2]
  exact (exists_enclosed_iff p.lo p.hi q.lo q.hi hp.2.2 hq.2.2).symm

theorem C18_connected_symm (p q : Option Period) :
    periodsConnected p q = periodsConnected q p ∧ periodsConnected none q = false ∧
    periodsConnected p none = false := by
  refine ⟨?_, rfl, ?_⟩
  · cases p <;> cases q <;> simp [periodsConnected, Bool.and_comm]
  · cases p <;> rfl

/-- Overlap implies overlap-or-touch, for all inputs (no hypothesis, nil and degenerate periods included). -/
theorem C18_intersect_implies_connected (p q : Option Period) :
    periodsIntersect p q = true → periodsConnected p q = true := by
  cases p with
  | none => intro h; cases h
  | some p =>
    cases q with
    | none => intro h; cases h
    | some q =>
      simp only [periodsIntersect, periodsConnected, Bool.and_eq_true, decide_eq_true_eq]
      intro ⟨h1, h2⟩
      exact ⟨by omega, by omega⟩

/-- The complete decision table of `cut.CompareTo` (all four kinds of cut on either side, every
timestamp, no hypothesis): the result is -1, 0 or 1 and is the sign of the lexicographic comparison of
the keys `(class, seconds, nanos, side)` — `belowAll` first, `aboveAll` last, value cuts by timestamp
with `below t` before `above t`; it is `0` only for equal cuts, antisymmetric, and `≤` is transitive:
a total order. -/
theorem C18_cut_order (a b c : Cut) :
    (a.compareTo b = -1 ∨ a.compareTo b = 0 ∨ a.compareTo b = 1) ∧
    (a.compareTo b = -1 ↔ a.keyLt b) ∧ (a.compareTo b = 0 ↔ a = b) ∧ (a.compareTo b = 1 ↔ b.keyLt a) ∧
    b.compareTo a = - a.compareTo b ∧
    (a.compareTo b ≤ 0 → b.compareTo c ≤ 0 → a.compareTo c ≤ 0) := by
  have irr : ∀ x : Cut, ¬ x.keyLt x := fun x h => keyLt_asymm x x h h
  refine ⟨?_, ?_, ?_, ?_, ?_, ?_⟩
  · rcases compareTo_cases a b with ⟨h, _⟩ | ⟨h, _⟩ | ⟨h, _⟩ <;> simp [h]
  · rcases compareTo_cases a b with ⟨h, hk⟩ | ⟨h, hk⟩ | ⟨h, hk⟩ <;> rw [h]
    · simp [hk]
    · subst hk; simp [irr]
    · have := keyLt_asymm b a hk; simp [this]
  · rcases compareTo_cases a b with ⟨h, hk⟩ | ⟨h, hk⟩ | ⟨h, hk⟩ <;> rw [h]
    · have : a ≠ b := fun e => irr b (e ▸ hk)
      simp [this]
    · simp [hk]
    · have : a ≠ b := fun e => irr b (e ▸ hk)
      simp [this]
  · rcases compareTo_cases a b with ⟨h, hk⟩ | ⟨h, hk⟩ | ⟨h, hk⟩ <;> rw [h]
    · have := keyLt_asymm a b hk; simp [this]
    · subst hk; simp [irr]
    · simp [hk]
  · rcases compareTo_cases a b with ⟨h, hk⟩ | ⟨h, hk⟩ | ⟨h, hk⟩ <;>
      rcases compareTo_cases b a with ⟨h', hk'⟩ | ⟨h', hk'⟩ | ⟨h', hk'⟩ <;> rw [h, h'] <;>
      first
      | rfl
      | exact absurd hk' (keyLt_asymm _ _ hk)
      | (subst hk'; exact absurd hk (irr _))
      | (subst hk; exact absurd hk' (irr _))
  · intro hab hbc
    rcases compareTo_cases a c with ⟨h, _⟩ | ⟨h, _⟩ | ⟨h, hca⟩ <;> rw [h]
    · decide
    · decide
    · exfalso
      rcases compareTo_cases a b with ⟨_, hk1⟩ | ⟨_, hk1⟩ | ⟨h1, _⟩
      · rcases compareTo_cases b c with ⟨_, hk2⟩ | ⟨_, hk2⟩ | ⟨h2, _⟩
        · exact keyLt_asymm _ _ (keyLt_trans _ _ _ hk1 hk2) hca
        · subst hk2; exact keyLt_asymm _ _ hk1 hca
        · rw [h2] at hbc; exact absurd hbc (by decide)
      · subst hk1
        rcases compareTo_cases a c with ⟨_, hk2⟩ | ⟨_, hk2⟩ | ⟨h2, _⟩
        · exact keyLt_asymm _ _ hk2 hca
        · subst hk2; exact irr _ hca
        · rw [h2] at hbc; exact absurd hbc (by decide)
      · rw [h1] at hab; exact absurd hab (by decide)

/-- On normalised timestamps the order of cuts is the order of their positions on the (doubled)
nanosecond timeline: `below t` sits at `2·t`, `above t` at `2·t + 1`, between `belowAll` and `aboveAll`. -/
theorem C18_cut_position (a b : Cut) (ha : a.Normal) (hb : b.Normal) :
    (a.compareTo b < 0 ↔ (a.cls < b.cls ∨ (a.cls = b.cls ∧ a.pos < b.pos))) ∧
    (a.compareTo b ≤ 0 ↔ (a.cls < b.cls ∨ (a.cls = b.cls ∧ a.pos ≤ b.pos))) := by
  have hab := keyLt_pos a b ha hb
  have hba := keyLt_pos b a hb ha
  rcases compareTo_cases a b with ⟨h, hk⟩ | ⟨h, hk⟩ | ⟨h, hk⟩ <;> rw [h]
  · have := hab.mp hk
    exact ⟨by simp [this], by constructor <;> intro _ <;> omega⟩
  · subst hk
    exact ⟨by constructor <;> intro _ <;> omega, by constructor <;> intro _ <;> omega⟩
  · have := hba.mp hk
    exact ⟨by constructor <;> intro _ <;> omega, by constructor <;> intro _ <;> omega⟩

/-- The period constructors: `AllTime()` contains every instant and intersects every non-empty period;
`PeriodBefore(t)` is exactly the instants before `t`, `PeriodOnOrAfter(t)` exactly those from `t` on —
the two touch (`Connected`) and share nothing (not `Intersect`); `PeriodBetween(t1, t2)` is `[t1, t2)`. -/
theorem C18_period_constructors (t t2 : Ts) (ht : t.Normal) (x : Int) :
    allTime.Mem x ∧
    ((periodBefore (some t)).Mem x ↔ x < t.toNs) ∧
    ((periodOnOrAfter (some t)).Mem x ↔ t.toNs ≤ x) ∧
    ((periodBetween (some t) (some t2)).Mem x ↔ t.toNs ≤ x ∧ x < t2.toNs) ∧
    periodsIntersect (some (periodBefore (some t))) (some (periodOnOrAfter (some t))) = false ∧
    periodsConnected (some (periodBefore (some t))) (some (periodOnOrAfter (some t))) = true ∧
    (∀ p : Period, p.Proper → periodsIntersect (some allTime) (some p) = true) := by
  refine ⟨?_, ?_, ?_, ?_, ?_, ?_, ?_⟩
  · simp [allTime, Period.Mem, Period.lo, Period.hi, lbLe, ubLt]
  · simp [periodBefore, Period.Mem, Period.lo, Period.hi, lbLe, ubLt]
  · simp [periodOnOrAfter, Period.Mem, Period.lo, Period.hi, lbLe, ubLt]
  · simp [periodBetween, Period.Mem, Period.lo, Period.hi, lbLe, ubLt]
  · have hb : (periodBefore (some t)).Proper := by
      simp [periodBefore, Period.Proper, optNormal, bLt, Period.lo, Period.hi, ht]
    have ha : (periodOnOrAfter (some t)).Proper := by
      simp [periodOnOrAfter, Period.Proper, optNormal, bLt, Period.lo, Period.hi, ht]
    cases h : periodsIntersect (some (periodBefore (some t))) (some (periodOnOrAfter (some t))) with
    | false => rfl
    | true =>
      obtain ⟨y, h1, h2⟩ := (C18_intersect _ _ hb ha).mp h
      simp [periodBefore, periodOnOrAfter, Period.Mem, Period.lo, Period.hi, lbLe, ubLt] at h1 h2
      omega
  · have hb : (periodBefore (some t)).Ordered := by
      simp [periodBefore, Period.Ordered, optNormal, bLe, Period.lo, Period.hi, ht]
    have ha : (periodOnOrAfter (some t)).Ordered := by
      simp [periodOnOrAfter, Period.Ordered, optNormal, bLe, Period.lo, Period.hi, ht]
    refine (C18_connected _ _ hb ha).mpr ⟨t.toNs, ?_, ?_⟩ <;>
      simp [periodBefore, periodOnOrAfter, Period.Encloses, Period.lo, Period.hi, lbLe, ubLe]
  · intro p hp
    have hall : allTime.Proper := by simp [allTime, Period.Proper, optNormal, bLt, Period.lo, Period.hi]
    obtain ⟨y, hy, _⟩ := (exists_mem_iff p.lo p.hi p.lo p.hi hp.2.2 hp.2.2).mpr ⟨hp.2.2, hp.2.2⟩
    refine (C18_intersect _ _ hall hp).mpr ⟨y, ?_, hy⟩
    simp [allTime, Period.Mem, Period.lo, Period.hi, lbLe, ubLt]

/-- What the predicates compute for ALL periods with normalised bounds, degenerate ones (start ≥ end)
included: `Intersect` is "each lower bound is strictly below the other period's upper bound", `Connected` the
same with ≤ (absent bounds are infinite).  For non-empty periods that is overlap (`C18_intersect`); an
empty or inverted period can still "intersect" one that straddles its bounds — the hypothesis `Proper` of
`C18_intersect` cannot be dropped (last clause: `[3,3)` and `[0,10)`). -/
theorem C18_period_predicates_general (p q : Period)
    (hp : optNormal p.start ∧ optNormal p.stop) (hq : optNormal q.start ∧ optNormal q.stop) :
    (periodsIntersect (some p) (some q) = true ↔ bLt p.lo q.hi ∧ bLt q.lo p.hi) ∧
    (periodsConnected (some p) (some q) = true ↔ bLe p.lo q.hi ∧ bLe q.lo p.hi) ∧
    periodsIntersect (some ⟨some ⟨3, 0⟩, some ⟨3, 0⟩⟩) (some ⟨some ⟨0, 0⟩, some ⟨10, 0⟩⟩) = true := by
  refine ⟨?_, ?_, by decide⟩
  · simp only [periodsIntersect, Bool.and_eq_true, decide_eq_true_eq]
    rw [lower_lt_upper p q hp.1 hq.2, lower_lt_upper q p hq.1 hp.2]
  · simp only [periodsConnected, Bool.and_eq_true, decide_eq_true_eq]
    rw [lower_le_upper p q hp.1 hq.2, lower_le_upper q p hq.1 hp.2]

/-- The same criterion with NO hypothesis at all, stated through the code's own timestamp order: for every
pair of periods — any int64/int32 field values, nanos outside `[0, 10^9)` and degenerate periods included —
`Intersect` holds iff each start is before the other period's end by `CompareAscending` (absent bounds are
infinitely far), `Connected` iff it is not after it.  (`C18_compare_sign`/`C18_total_order`: that order is a
total order on all field values; `C18_compare_chronological`: the chronological one on valid timestamps.) -/
theorem C18_period_predicates_fieldwise (p q : Period) :
    (periodsIntersect (some p) (some q) = true ↔ optCmpLt p.start q.stop ∧ optCmpLt q.start p.stop) ∧
    (periodsConnected (some p) (some q) = true ↔ optCmpLe p.start q.stop ∧ optCmpLe q.start p.stop) := by
  obtain ⟨ps, pe⟩ := p
  obtain ⟨qs, qe⟩ := q
  have h1 := lower_upper_fieldwise ps qe pe qs
  have h2 := lower_upper_fieldwise qs pe qe ps
  constructor
  · simp only [periodsIntersect, Bool.and_eq_true, decide_eq_true_eq]
    rw [h1.1, h2.1]
  · simp only [periodsConnected, Bool.and_eq_true, decide_eq_true_eq]
    rw [h1.2, h2.2]

/-- `PeriodBefore(a)` and `PeriodOnOrAfter(b)` intersect exactly when `b` is before `a`, and are connected
exactly when `b` is not after `a` — the period predicates agree with `CompareAscending`. -/
theorem C18_before_after (a b : Ts) (ha : a.Normal) (hb : b.Normal) :
    (periodsIntersect (some (periodBefore (some a))) (some (periodOnOrAfter (some b))) = true ↔
      compareAscending b a = -1) ∧
    (periodsConnected (some (periodBefore (some a))) (some (periodOnOrAfter (some b))) = true ↔
      compareAscending b a ≤ 0) := by
  have hpa : optNormal (periodBefore (some a)).start ∧ optNormal (periodBefore (some a)).stop := by
    simp [periodBefore, optNormal, ha]
  have hpb : optNormal (periodOnOrAfter (some b)).start ∧ optNormal (periodOnOrAfter (some b)).stop := by
    simp [periodOnOrAfter, optNormal, hb]
  obtain ⟨h1, h2, _⟩ := C18_period_predicates_general _ _ hpa hpb
  have hc := C18_compare_chronological b a hb ha
  have hle := compareAscending_le_zero b a hb ha
  constructor
  · rw [h1, hc.1]
    simp [periodBefore, periodOnOrAfter, Period.lo, Period.hi, bLt]
  · rw [h2, hle]
    simp [periodBefore, periodOnOrAfter, Period.lo, Period.hi, bLe]

/-! Non-vacuity: concrete proper periods exist, and the predicates take both values on them. -/
example : (⟨some ⟨2, 0⟩, some ⟨4, 0⟩⟩ : Period).Proper ∧ (⟨none, some ⟨3, 5⟩⟩ : Period).Proper := by
  simp [Period.Proper, optNormal, Ts.Normal, Ts.toNs, bLt, Period.lo, Period.hi]
example : periodsIntersect (some ⟨some ⟨2, 0⟩, some ⟨4, 0⟩⟩) (some ⟨some ⟨3, 0⟩, some ⟨5, 0⟩⟩) = true := by decide
example : periodsIntersect (some ⟨some ⟨2, 0⟩, some ⟨4, 0⟩⟩) (some ⟨some ⟨4, 0⟩, some ⟨6, 0⟩⟩) = false := by decide
example : periodsConnected (some ⟨some ⟨2, 0⟩, some ⟨4, 0⟩⟩) (some ⟨some ⟨4, 0⟩, some ⟨6, 0⟩⟩) = true := by decide
example : periodsConnected (some ⟨some ⟨2, 0⟩, some ⟨4, 0⟩⟩) (some ⟨some ⟨5, 0⟩, some ⟨7, 0⟩⟩) = false := by decide
/-- Outside the hypothesis (an inverted period) the code answers `true` although the first interval is
empty: recorded behaviour, the reason `Proper` is required by `C18_intersect`. -/
example : periodsIntersect (some ⟨some ⟨5, 0⟩, some ⟨3, 0⟩⟩) (some ⟨some ⟨0, 0⟩, some ⟨10, 0⟩⟩) = true := by decide

/-- All four kinds of cut are ordered as documented, `below t` before `above t` at the same instant. -/
example : (Cut.belowAll).compareTo (.below ⟨-5, 0⟩) = -1 ∧ (Cut.below ⟨3, 7⟩).compareTo (.above ⟨3, 7⟩) = -1 ∧
    (Cut.above ⟨3, 7⟩).compareTo (.below ⟨3, 8⟩) = -1 ∧ (Cut.above ⟨9, 0⟩).compareTo .aboveAll = -1 ∧
    (Cut.aboveAll).compareTo .aboveAll = 0 := by decide
example : (Cut.below ⟨3, 7⟩).Normal ∧ (Cut.above ⟨3, 999999999⟩).Normal := by
  simp [Cut.Normal, Ts.Normal]

/-- On timestamps that are not valid (`nanos` outside `[0, 10^9)`) the predicates follow the field-wise order of
`C18_period_predicates_fieldwise`, not the instants: `[0s + 2·10^9 ns, ∞)` and `(−∞, 1s)` "intersect" because
`(0, 2·10^9)` is before `(1, 0)` field by field, although the first instant is 2s. -/
example : periodsIntersect (some ⟨some ⟨0, 2000000000⟩, none⟩) (some ⟨none, some ⟨1, 0⟩⟩) = true ∧
    optCmpLt (some ⟨0, 2000000000⟩) (some ⟨1, 0⟩) ∧ ¬ (⟨0, 2000000000⟩ : Ts).Normal := by
  refine ⟨by decide, by simp only [optCmpLt]; decide, by simp [Ts.Normal]⟩

end ScVerif.C18
