import ScVerif.C18.TimeLemmas
/-!
# C18 — property theorems, part 1: timestamps and periods

Property (fixed text): "Period predicates decide exactly whether two half-open, optionally unbounded
intervals overlap (Intersect) or overlap-or-touch (Connected), symmetrically, and timestamp
comparison is a chronological total order returning -1, 0 or 1 as documented."

Only property theorems and their non-vacuity examples live in this file.
-/
namespace ScVerif.C18

/-- Full strength, every pair of (int64, int32) field values: the result is -1, 0 or 1, and it is the
sign of the lexicographic comparison of (seconds, nanos). -/
theorem C18_compare_sign (a b : Ts) :
    (compareAscending a b = -1 ∨ compareAscending a b = 0 ∨ compareAscending a b = 1) ∧
    (compareAscending a b = -1 ↔ (a.secs < b.secs ∨ (a.secs = b.secs ∧ a.nanos < b.nanos))) ∧
    (compareAscending a b = 0 ↔ a = b) ∧
    (compareAscending a b = 1 ↔ (a.secs > b.secs ∨ (a.secs = b.secs ∧ a.nanos > b.nanos))) := by
  have hc := compareAscending_cases a b
  have hab : a = b ↔ (a.secs = b.secs ∧ a.nanos = b.nanos) := by
    cases a; cases b; simp
  rw [hab]
  rcases hc with ⟨h, hc⟩ | ⟨h, hc⟩ | ⟨h, hc⟩ <;> rw [h] <;> refine ⟨by simp, ?_, ?_, ?_⟩ <;>
    constructor <;> intro hh <;> first | omega | rfl

/-- On normalised timestamps the comparison is chronological: it orders instants on the ns timeline. -/
theorem C18_compare_chronological (a b : Ts) (ha : a.Normal) (hb : b.Normal) :
    (compareAscending a b = -1 ↔ a.toNs < b.toNs) ∧
    (compareAscending a b = 0 ↔ a.toNs = b.toNs) ∧
    (compareAscending a b = 1 ↔ a.toNs > b.toNs) :=
  compareAscending_toNs a b ha hb

/-- Total order laws (no hypothesis): antisymmetry in the strong form `cmp b a = -(cmp a b)`,
transitivity of `≤`, reflexivity. -/
theorem C18_total_order (a b c : Ts) :
    compareAscending b a = - compareAscending a b ∧
    compareAscending a a = 0 ∧
    (compareAscending a b ≤ 0 → compareAscending b c ≤ 0 → compareAscending a c ≤ 0) := by
  refine ⟨?_, ?_, ?_⟩
  · rcases compareAscending_cases a b with ⟨h, hc⟩ | ⟨h, hc⟩ | ⟨h, hc⟩ <;>
    rcases compareAscending_cases b a with ⟨h', hc'⟩ | ⟨h', hc'⟩ | ⟨h', hc'⟩ <;>
    rw [h, h'] <;> omega
  · rcases compareAscending_cases a a with ⟨h, hc⟩ | ⟨h, hc⟩ | ⟨h, hc⟩ <;> first | exact h | omega
  · rcases compareAscending_cases a b with ⟨h, hc⟩ | ⟨h, hc⟩ | ⟨h, hc⟩ <;>
    rcases compareAscending_cases b c with ⟨h', hc'⟩ | ⟨h', hc'⟩ | ⟨h', hc'⟩ <;>
    rcases compareAscending_cases a c with ⟨h'', hc''⟩ | ⟨h'', hc''⟩ | ⟨h'', hc''⟩ <;>
    rw [h, h', h''] <;> omega

/-- `PeriodsIntersect` is exactly "the two intervals share an instant", for proper periods. -/
theorem C18_intersect (p q : Period) (hp : p.Proper) (hq : q.Proper) :
    periodsIntersect (some p) (some q) = true ↔ ∃ x : Int, p.Mem x ∧ q.Mem x := by
  have h1 := lower_lt_upper p q hp.1 hq.2.1
  have h2 := lower_lt_upper q p hq.1 hp.2.1
  simp only [periodsIntersect, Bool.and_eq_true, decide_eq_true_eq]
  rw [h1, h2]
  exact (exists_mem_iff p.lo p.hi q.lo q.hi hp.2.2 hq.2.2).symm

/-- `PeriodsIntersect` is symmetric and false when either period is absent — no hypothesis. -/
theorem C18_intersect_symm (p q : Option Period) :
    periodsIntersect p q = periodsIntersect q p ∧ periodsIntersect none q = false ∧
    periodsIntersect p none = false := by
  refine ⟨?_, rfl, ?_⟩
  · cases p <;> cases q <;> simp [periodsIntersect, Bool.and_comm]
  · cases p <;> rfl

/-- `PeriodsConnected` is exactly "some (possibly empty) interval `[x, x)` is enclosed by both",
i.e. the intervals overlap or touch, for periods with `start ≤ end`. -/
theorem C18_connected (p q : Period) (hp : p.Ordered) (hq : q.Ordered) :
    periodsConnected (some p) (some q) = true ↔ ∃ x : Int, p.Encloses x x ∧ q.Encloses x x := by
  have h1 := lower_le_upper p q hp.1 hq.2.1
  have h2 := lower_le_upper q p hq.1 hp.2.1
  simp only [periodsConnected, Bool.and_eq_true, decide_eq_true_eq]
  rw [h1, h2]
  exact (exists_enclosed_iff p.lo p.hi q.lo q.hi hp.2.2 hq.2.2).symm

theorem C18_connected_symm (p q : Option Period) :
    periodsConnected p q = periodsConnected q p ∧ periodsConnected none q = false ∧
    periodsConnected p none = false := by
  refine ⟨?_, rfl, ?_⟩
  · cases p <;> cases q <;> simp [periodsConnected, Bool.and_comm]
  · cases p <;> rfl

/-! Non-vacuity: concrete proper periods exist, and the predicates take both values on them. -/
example : (⟨some ⟨2, 0⟩, some ⟨4, 0⟩⟩ : Period).Proper ∧ (⟨none, some ⟨3, 5⟩⟩ : Period).Proper := by
  simp [Period.Proper, optNormal, Ts.Normal, Ts.toNs, bLt, Period.lo, Period.hi]
example : periodsIntersect (some ⟨some ⟨2, 0⟩, some ⟨4, 0⟩⟩) (some ⟨some ⟨3, 0⟩, some ⟨5, 0⟩⟩) = true := by decide
example : periodsIntersect (some ⟨some ⟨2, 0⟩, some ⟨4, 0⟩⟩) (some ⟨some ⟨4, 0⟩, some ⟨6, 0⟩⟩) = false := by decide
example : periodsConnected (some ⟨some ⟨2, 0⟩, some ⟨4, 0⟩⟩) (some ⟨some ⟨4, 0⟩, some ⟨6, 0⟩⟩) = true := by decide
example : periodsConnected (some ⟨some ⟨2, 0⟩, some ⟨4, 0⟩⟩) (some ⟨some ⟨5, 0⟩, some ⟨7, 0⟩⟩) = false := by decide
/-- Outside the hypothesis (an inverted period) the code answers `true` although the first interval is
empty: recorded behaviour, the reason `Proper` is required by `C18_intersect`. -/
example : periodsIntersect (some ⟨some ⟨5, 0⟩, some ⟨3, 0⟩⟩) (some ⟨some ⟨0, 0⟩, some ⟨10, 0⟩⟩) = true := by decide

end ScVerif.C18
