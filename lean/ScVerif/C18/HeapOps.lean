import ScVerif.C18.Mode
/-!
# C18 — "never modify their arguments": `Shift`, `Cut`, `modepb.Cut` on an explicit heap

A heap has segment cells (`*ElectricMode_Segment`, address = index) and backing arrays of
`[]*ElectricMode_Segment` slices (array id = index, elements = cell addresses).  A slice is
`(array, offset, length)`; its capacity is what is left of the array.  The operations below follow the
Go code allocation by allocation and write by write: `&Segment{…}` and `proto.Clone` allocate cells,
`make`/`append` beyond capacity allocate arrays, `append` within capacity and `s[i] = x` WRITE into an
existing array.  `Shift` and `Cut` only allocate.  `modepb.Cut` writes twice — into the arrays of the
two deep clones it has just made.  The theorems (`HeapOps.*_extends`) show that every cell and every
array that existed before the call is unchanged after it, for any initial heap and any arguments.
(Proof only, not driver-linked; on the real code the clause is decided by the monitor, which
deep-compares arguments including spare slice capacity.  A `before` that shared the caller's backing
array — what `proto.Clone` prevents — would make `heapModeCut_extends` unprovable: the write at
`index` would land in a pre-existing array.)
-/
namespace ScVerif.C18

structure Heap where
  cells : List Seg
  arrays : List (List Nat)

structure Slice where
  arr : Nat
  off : Nat
  len : Nat
deriving Repr, DecidableEq

/-- `h` is `h0` plus newly allocated cells and arrays: everything that existed is unchanged. -/
def Heap.Extends (h0 h : Heap) : Prop :=
  (∃ c, h.cells = h0.cells ++ c) ∧ (∃ a, h.arrays = h0.arrays ++ a)

theorem Heap.Extends.refl (h : Heap) : h.Extends h := ⟨⟨[], by simp⟩, ⟨[], by simp⟩⟩

theorem Heap.Extends.trans {h0 h1 h2 : Heap} (a : h0.Extends h1) (b : h1.Extends h2) : h0.Extends h2 := by
  obtain ⟨⟨c1, e1⟩, ⟨a1, f1⟩⟩ := a
  obtain ⟨⟨c2, e2⟩, ⟨a2, f2⟩⟩ := b
  exact ⟨⟨c1 ++ c2, by rw [e2, e1, List.append_assoc]⟩, ⟨a1 ++ a2, by rw [f2, f1, List.append_assoc]⟩⟩

theorem Heap.Extends.arrays_le {h0 h : Heap} (a : h0.Extends h) : h0.arrays.length ≤ h.arrays.length := by
  obtain ⟨_, ⟨x, e⟩⟩ := a
  rw [e]; simp

def allocCell (h : Heap) (s : Seg) : Heap × Nat := (⟨h.cells ++ [s], h.arrays⟩, h.cells.length)

def allocArr (h : Heap) (xs : List Nat) : Heap × Nat := (⟨h.cells, h.arrays ++ [xs]⟩, h.arrays.length)

theorem allocCell_extends (h : Heap) (s : Seg) : h.Extends (allocCell h s).1 :=
  ⟨⟨[s], rfl⟩, ⟨[], by simp [allocCell]⟩⟩

theorem allocArr_extends (h : Heap) (xs : List Nat) : h.Extends (allocArr h xs).1 :=
  ⟨⟨[], by simp [allocArr]⟩, ⟨[xs], rfl⟩⟩

def modifyNth {α : Type} : Nat → (α → α) → List α → List α
  | _, _, [] => []
  | 0, f, x :: t => f x :: t
  | n + 1, f, x :: t => x :: modifyNth n f t

theorem modifyNth_append_right {α : Type} (f : α → α) (l r : List α) (n : Nat) (h : l.length ≤ n) :
    modifyNth n f (l ++ r) = l ++ modifyNth (n - l.length) f r := by
  induction l generalizing n with
  | nil => simp
  | cons x l ih =>
    cases n with
    | zero => simp at h
    | succ n =>
      simp only [List.cons_append, modifyNth, List.length_cons, Nat.add_sub_add_right]
      rw [ih n (by simpa using h)]

/-- `array[id][pos] = v`. -/
def setArr (h : Heap) (id pos v : Nat) : Heap :=
  ⟨h.cells, modifyNth id (fun a => a.set pos v) h.arrays⟩

/-- A write into an array allocated after `h0` leaves `h0` intact. -/
theorem setArr_extends {h0 h : Heap} (e : h0.Extends h) (id pos v : Nat) (hid : h0.arrays.length ≤ id) :
    h0.Extends (setArr h id pos v) := by
  obtain ⟨hc, ⟨a, ha⟩⟩ := e
  refine ⟨hc, ⟨modifyNth (id - h0.arrays.length) (fun a => a.set pos v) a, ?_⟩⟩
  simp only [setArr, ha]
  exact modifyNth_append_right _ _ _ _ hid

def readSlice (h : Heap) (sl : Slice) : List Nat :=
  (((h.arrays[sl.arr]?).getD []).drop sl.off).take sl.len

def readCell (h : Heap) (a : Nat) : Seg := (h.cells[a]?).getD nilSeg

def readSegs (h : Heap) (sl : Slice) : List Seg := (readSlice h sl).map (readCell h)

/-! ### segmentpb.Cut -/

/-- `Cut(d, segment)` with `segment` the cell at `addr`; returns addresses (`none` = nil). -/
def heapCut (h : Heap) (d : Int) (addr : Nat) : Heap × Option Nat × Option Nat × Bool :=
  let s := readCell h addr
  if d ≤ 0 then (h, none, some addr, decide (d < 0))
  else
    match s.len with
    | none =>
      let r := allocCell h ⟨s.mag, some d⟩
      (r.1, some r.2, some addr, false)
    | some l =>
      if l ≤ d then (h, some addr, none, true)
      else
        let r1 := allocCell h ⟨s.mag, some d⟩
        let r2 := allocCell r1.1 ⟨s.mag, some (l - d)⟩
        (r2.1, some r1.2, some r2.2, false)

theorem heapCut_extends (h : Heap) (d : Int) (addr : Nat) : h.Extends (heapCut h d addr).1 := by
  unfold heapCut
  simp only []
  split
  · exact Heap.Extends.refl h
  · split
    · exact allocCell_extends h _
    · split
      · exact Heap.Extends.refl h
      · exact (allocCell_extends h _).trans (allocCell_extends _ _)

/-! ### segmentpb.Shift -/

/-- The loop of the negative branch; `elems` are the addresses still to visit, `i` their position. -/
def heapShiftNegLoop (h : Heap) (d : Int) (sl : Slice) : Int → Nat → List Nat → Heap × Slice
  | _, _, [] => (h, ⟨0, 0, 0⟩)
  | cur, i, a :: rest =>
    match (readCell h a).len with
    | none => (h, ⟨sl.arr, sl.off + i, sl.len - i⟩)
    | some l =>
      if cur + l > d then
        let c := heapCut h (d - cur) a
        let r := allocArr c.1 ((c.2.2.1.getD 0) :: rest)
        (r.1, ⟨r.2, 0, sl.len - i⟩)
      else heapShiftNegLoop h d sl (cur + l) (i + 1) rest

theorem heapShiftNegLoop_extends (h : Heap) (d : Int) (sl : Slice) (cur : Int) (i : Nat) (elems : List Nat) :
    h.Extends (heapShiftNegLoop h d sl cur i elems).1 := by
  induction elems generalizing cur i with
  | nil => exact Heap.Extends.refl h
  | cons a rest ih =>
    simp only [heapShiftNegLoop]
    split
    · exact Heap.Extends.refl h
    · split
      · exact (heapCut_extends h _ a).trans (allocArr_extends _ _)
      · exact ih _ _

/-- `Shift(d, segments...)` with `segments` the slice `sl`. -/
def heapShift (h : Heap) (d : Int) (sl : Slice) : Heap × Slice :=
  let elems := readSlice h sl
  if d = 0 then (h, sl)
  else
    match elems with
    | [] => (h, sl)
    | first :: rest =>
      if d > 0 then
        let f := readCell h first
        if f.mag = 0 then
          match f.len with
          | none => (h, sl)
          | some l =>
            let c := allocCell h ⟨f.mag, some (l + d)⟩     -- proto.Clone(first), Length replaced
            let r := allocArr c.1 (c.2 :: rest)            -- make + copy
            (r.1, ⟨r.2, 0, sl.len⟩)
        else
          let c := allocCell h ⟨0, some d⟩
          let r := allocArr c.1 (c.2 :: first :: rest)
          (r.1, ⟨r.2, 0, sl.len + 1⟩)
      else heapShiftNegLoop h (-d) sl 0 0 (first :: rest)

theorem heapShift_extends (h : Heap) (d : Int) (sl : Slice) : h.Extends (heapShift h d sl).1 := by
  unfold heapShift
  simp only []
  split
  · exact Heap.Extends.refl h
  · split
    · exact Heap.Extends.refl h
    · split
      · split
        · split
          · exact Heap.Extends.refl h
          · exact (allocCell_extends h _).trans (allocArr_extends _ _)
        · exact (allocCell_extends h _).trans (allocArr_extends _ _)
      · exact heapShiftNegLoop_extends h _ sl _ _ _

/-! ### modepb.Cut -/

/-- Deep copy of the cells of a slice (`proto.Clone` of the mode's segments): new cells… -/
def cloneCells (h : Heap) : List Nat → Heap × List Nat
  | [] => (h, [])
  | a :: rest =>
    let c := allocCell h (readCell h a)
    let r := cloneCells c.1 rest
    (r.1, c.2 :: r.2)

theorem cloneCells_extends (h : Heap) (elems : List Nat) : h.Extends (cloneCells h elems).1 := by
  induction elems generalizing h with
  | nil => exact Heap.Extends.refl h
  | cons a rest ih => exact (allocCell_extends h _).trans (ih _)

/-- … in a new backing array. -/
def cloneSlice (h : Heap) (sl : Slice) : Heap × Slice :=
  let c := cloneCells h (readSlice h sl)
  let r := allocArr c.1 c.2
  (r.1, ⟨r.2, 0, sl.len⟩)

theorem cloneSlice_extends (h : Heap) (sl : Slice) : h.Extends (cloneSlice h sl).1 :=
  (cloneCells_extends h _).trans (allocArr_extends _ _)

theorem cloneSlice_arr_ge (h : Heap) (sl : Slice) : h.arrays.length ≤ (cloneSlice h sl).2.arr := by
  simp only [cloneSlice, allocArr]
  exact (cloneCells_extends h _).arrays_le

structure HeapMode where
  start : Option Int
  segs : Slice
deriving Repr, DecidableEq

/-- `modepb.Cut(t, mode)`: the mode object itself is never written (its fields are read only); the
two clones are new objects whose `Segments` slices live in new arrays. -/
def heapModeCutWith (deep : Bool) (h : Heap) (t : Int) (m : HeapMode) :
    Heap × Option HeapMode × Option HeapMode × Bool :=
  if m.segs.len = 0 then (h, some m, some m, true)
  else
    let st := m.start.getD t
    if ¬ (t > st) then (h, none, some m, decide (t < st))
    else
      let d := t - st
      let ei := activeAt d (readSegs h m.segs)
      if ei.2 = m.segs.len then (h, some m, none, true)
      else
        -- before = proto.Clone(mode); `deep = false` is the shallow copy `*before = *mode` that shares the
        -- caller's backing array (what the code must not do; see `heapModeCut_shallow_writes_argument`)
        let b := if deep then cloneSlice h m.segs else (h, m.segs)
        let a := cloneSlice b.1 m.segs                     -- after = proto.Clone(mode)
        let c := heapCut a.1 (d - ei.1) ((readSlice h m.segs)[ei.2]?.getD 0)
        let sb := c.2.1
        let sa := c.2.2.1
        -- before.Segments = append(before.Segments[:index], sb): within capacity, a WRITE at [index]
        let hb := match sb with
          | none => c.1
          | some x => setArr c.1 b.2.arr ei.2 x
        let before : HeapMode := match sb with
          | none => ⟨m.start, ⟨b.2.arr, 0, ei.2⟩⟩
          | some _ => ⟨m.start, ⟨b.2.arr, 0, ei.2 + 1⟩⟩
        -- after.Segments[index] = sa; after.Segments = after.Segments[index:]
        let ha := match sa with
          | none => hb
          | some x => setArr hb a.2.arr ei.2 x
        let after : HeapMode := match sa with
          | none => ⟨some t, ⟨a.2.arr, ei.2 + 1, m.segs.len - (ei.2 + 1)⟩⟩
          | some _ => ⟨some t, ⟨a.2.arr, ei.2, m.segs.len - ei.2⟩⟩
        (ha, some before, some after, false)

/-- `modepb.Cut` as coded (deep clones). -/
def heapModeCut (h : Heap) (t : Int) (m : HeapMode) := heapModeCutWith true h t m

theorem heapModeCut_extends (h : Heap) (t : Int) (m : HeapMode) : h.Extends (heapModeCut h t m).1 := by
  unfold heapModeCut heapModeCutWith
  simp only [if_true]
  split
  · exact Heap.Extends.refl h
  · split
    · exact Heap.Extends.refl h
    · split
      · exact Heap.Extends.refl h
      · -- the interesting case: two clones, a cut, up to two writes
        have eb := cloneSlice_extends h m.segs
        have ea := cloneSlice_extends (cloneSlice h m.segs).1 m.segs
        have hbid := cloneSlice_arr_ge h m.segs
        have haid : h.arrays.length ≤ (cloneSlice (cloneSlice h m.segs).1 m.segs).2.arr :=
          Nat.le_trans eb.arrays_le (cloneSlice_arr_ge _ m.segs)
        have ec : ∀ d addr, h.Extends (heapCut (cloneSlice (cloneSlice h m.segs).1 m.segs).1 d addr).1 :=
          fun d addr => eb.trans (ea.trans (heapCut_extends _ d addr))
        split <;> split <;>
          first
          | exact ec _ _
          | exact setArr_extends (ec _ _) _ _ _ hbid
          | exact setArr_extends (ec _ _) _ _ _ haid
          | exact setArr_extends (setArr_extends (ec _ _) _ _ _ hbid) _ _ _ haid

/-- Pointwise reading of `Extends`: every pre-existing cell and array is unchanged. -/
theorem Heap.Extends.pointwise {h0 h : Heap} (e : h0.Extends h) :
    (∀ a, a < h0.cells.length → h.cells[a]? = h0.cells[a]?) ∧
    (∀ i, i < h0.arrays.length → h.arrays[i]? = h0.arrays[i]?) := by
  obtain ⟨⟨c, hc⟩, ⟨a, ha⟩⟩ := e
  exact ⟨fun x hx => by rw [hc, List.getElem?_append_left hx],
    fun i hi => by rw [ha, List.getElem?_append_left hi]⟩

end ScVerif.C18
