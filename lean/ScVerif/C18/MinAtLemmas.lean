import ScVerif.C18.Mode
/-! `modepb.MinAt`: characterisation of the loop for an arbitrary iteration order. -/
namespace ScVerif.C18

/-- Direct characterisation of the loop, by induction with the invariant on the current candidate. -/
theorem minAtLoop_spec (t : Int) (ms : List Mode) (cur : Option (Nat × Int)) (i : Nat)
    (hcur : ∀ j g0, cur = some (j, g0) → j < i) :
    match minAtLoop t cur i ms with
    | none => cur = none ∧ ms = []
    | some (k, g) =>
      ((cur = some (k, g)) ∨ (∃ m, i ≤ k ∧ ms[k - i]? = some m ∧ g = (modeMagnitudeAt t m).1)) ∧
      (∀ m ∈ ms, g ≤ (modeMagnitudeAt t m).1) ∧
      (∀ j g0, cur = some (j, g0) → g ≤ g0 ∧ (g = g0 → k = j)) ∧
      (∀ (n : Nat) m, i + n < k → ms[n]? = some m → g < (modeMagnitudeAt t m).1) := by
  induction ms generalizing cur i with
  | nil =>
    cases cur with
    | none => simp [minAtLoop]
    | some jg =>
      obtain ⟨j, g⟩ := jg
      simp only [minAtLoop]
      refine ⟨Or.inl (by first | rfl | trivial), by simp, ?_, by simp⟩
      intro j' g0 h; cases h; exact ⟨Int.le_refl _, fun _ => rfl⟩
  | cons m ms ih =>
    cases cur with
    | none =>
      simp only [minAtLoop]
      have := ih (some (i, (modeMagnitudeAt t m).1)) (i + 1) (fun j g0 h => by cases h; omega)
      cases hr : minAtLoop t (some (i, (modeMagnitudeAt t m).1)) (i + 1) ms with
      | none => rw [hr] at this; simp at this
      | some kg =>
        obtain ⟨k, g⟩ := kg
        rw [hr] at this
        simp only [] at this ⊢
        obtain ⟨h1, h2, h3, h4⟩ := this
        have h3' := h3 i _ rfl
        refine ⟨Or.inr ?_, ?_, by simp, ?_⟩
        · rcases h1 with h1 | ⟨m', hik, hm', hg⟩
          · cases h1
            exact ⟨m, Nat.le_refl _, by simp, rfl⟩
          · refine ⟨m', by omega, ?_, hg⟩
            have : k - i = (k - (i + 1)) + 1 := by omega
            rw [this, List.getElem?_cons_succ]; exact hm'
        · intro m' hm'
          rcases List.mem_cons.mp hm' with rfl | hm'
          · exact h3'.1
          · exact h2 m' hm'
        · intro n m' hn hm'
          cases n with
          | zero =>
            simp at hm'; subst hm'
            have : g ≠ (modeMagnitudeAt t m).1 := fun he => by have := h3'.2 he; omega
            omega
          | succ n =>
            rw [List.getElem?_cons_succ] at hm'
            exact h4 n m' (by omega) hm'
    | some jg =>
      obtain ⟨j, g0⟩ := jg
      simp only [minAtLoop]
      by_cases hlt : (modeMagnitudeAt t m).1 < g0
      · simp only [hlt, if_true]
        have := ih (some (i, (modeMagnitudeAt t m).1)) (i + 1) (fun j g0 h => by cases h; omega)
        cases hr : minAtLoop t (some (i, (modeMagnitudeAt t m).1)) (i + 1) ms with
        | none => rw [hr] at this; simp at this
        | some kg =>
          obtain ⟨k, g⟩ := kg
          rw [hr] at this
          simp only [] at this ⊢
          obtain ⟨h1, h2, h3, h4⟩ := this
          have h3' := h3 i _ rfl
          refine ⟨Or.inr ?_, ?_, ?_, ?_⟩
          · rcases h1 with h1 | ⟨m', hik, hm', hg⟩
            · cases h1
              exact ⟨m, Nat.le_refl _, by simp, rfl⟩
            · refine ⟨m', by omega, ?_, hg⟩
              have : k - i = (k - (i + 1)) + 1 := by omega
              rw [this, List.getElem?_cons_succ]; exact hm'
          · intro m' hm'
            rcases List.mem_cons.mp hm' with rfl | hm'
            · exact h3'.1
            · exact h2 m' hm'
          · intro j' g0' h
            cases h
            exact ⟨by omega, fun he => by omega⟩
          · intro n m' hn hm'
            cases n with
            | zero =>
              simp at hm'; subst hm'
              have : g ≠ (modeMagnitudeAt t m).1 := fun he => by have := h3'.2 he; omega
              omega
            | succ n =>
              rw [List.getElem?_cons_succ] at hm'
              exact h4 n m' (by omega) hm'
      · simp only [hlt, if_false]
        have hj := hcur j g0 rfl
        have := ih (some (j, g0)) (i + 1) (fun j' g0' h => by cases h; omega)
        cases hr : minAtLoop t (some (j, g0)) (i + 1) ms with
        | none => rw [hr] at this; simp at this
        | some kg =>
          obtain ⟨k, g⟩ := kg
          rw [hr] at this
          simp only [] at this ⊢
          obtain ⟨h1, h2, h3, h4⟩ := this
          have h3' := h3 j g0 rfl
          refine ⟨?_, ?_, ?_, ?_⟩
          · rcases h1 with h1 | ⟨m', hik, hm', hg⟩
            · exact Or.inl h1
            · refine Or.inr ⟨m', by omega, ?_, hg⟩
              have : k - i = (k - (i + 1)) + 1 := by omega
              rw [this, List.getElem?_cons_succ]; exact hm'
          · intro m' hm'
            rcases List.mem_cons.mp hm' with rfl | hm'
            · omega
            · exact h2 m' hm'
          · intro j' g0' h
            cases h
            exact h3'
          · intro n m' hn hm'
            cases n with
            | zero =>
              simp at hm'; subst hm'
              -- i < k, so the result is not the old candidate: it is strictly below it
              rcases h1 with h1 | ⟨m'', hik, _, _⟩
              · cases h1
                omega
              · have hne : g ≠ g0 := fun he => by have := h3'.2 he; omega
                omega
            | succ n =>
              rw [List.getElem?_cons_succ] at hm'
              exact h4 n m' (by omega) hm'

end ScVerif.C18
