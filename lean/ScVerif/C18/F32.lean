import ScVerif.C18.Seg
/-!
# C18 — float32 addition, where the code adds magnitudes (`Sum`, `SumMagnitude`)

`ElectricMode.Segment.magnitude` is a `float32`; `Sum` computes `result[last].Magnitude += cut.delta` and
`lastResult.Magnitude + cut.delta`, `SumMagnitude` computes `sum += segment.Magnitude` — IEEE-754 binary32
additions, i.e. the exact sum rounded to 24 significant bits, ties to even.  `rnd24` is that rounding on
integer numerators over ANY fixed power-of-two denominator (keeping 24 significant bits does not depend
on the exponent; overflow to ±Inf and subnormals are outside the model — the harness stays far inside),
`addF` the rounded addition; `sumF`/`sumMagnitudeF` are `Sum`/`SumMagnitude` with every magnitude addition
rounded.  The driver executes them (`f32add`, `sumf`, `summagf`), so the rounding model is tied to Go's
float32 arithmetic, and the float rendering of `Sum` to the real `Sum` wherever the order `sort.Slice`
leaves equal-time edges in cannot matter.  `PropsFloat`: below 2^24 nothing is rounded, so the exact
theorems of PropsSeg speak about the float code.
-/
namespace ScVerif.C18

/-- Number of significant bits of `n`. -/
def bitLen (n : Nat) : Nat := if n = 0 then 0 else Nat.log2 n + 1

/-- Round to 24 significant bits, to nearest, ties to even. -/
def rnd24 (n : Int) : Int :=
  let a := n.natAbs
  let b := bitLen a
  if b ≤ 24 then n
  else
    let sh := b - 24
    let q := a / 2 ^ sh
    let rem := a % 2 ^ sh
    let half := 2 ^ (sh - 1)
    let q' := if rem > half ∨ (rem = half ∧ q % 2 = 1) then q + 1 else q
    if n < 0 then -((q' * 2 ^ sh : Nat) : Int) else ((q' * 2 ^ sh : Nat) : Int)

/-- float32 `a + b` on numerators. -/
def addF (a b : Int) : Int := rnd24 (a + b)

/-- `SumMagnitude` with float32 additions (`sum` starts at `0`). -/
def sumMagnitudeF (segs : List Seg) : Int := segs.foldl (fun acc s => addF acc s.mag) 0

/-- `emit` (Seg.lean) with every magnitude addition rounded. -/
def emitF (drop : Int → Bool) : Int → Int → List Edge → List Seg
  | mag, _, [] => if drop mag then [] else [⟨mag, none⟩]
  | mag, lastTime, e :: es =>
    if e.time - lastTime = 0 then emitF drop (addF mag e.delta) lastTime es
    else ⟨mag, some (e.time - lastTime)⟩ :: emitF drop (addF mag e.delta) e.time es

def sumEdgesF (drop : Int → Bool) : List Edge → List Seg
  | [] => []
  | e :: es => emitF drop 0 0 (e :: es)

/-- `Sum` with float32 magnitude arithmetic (edges in the stable order of `calcCuts`). -/
def sumF (ls : List (List Seg)) : List Seg := sumEdgesF (dropRule (anyInfinite ls)) (calcCuts ls)

/-- Total of the absolute values of the edge deltas. -/
def absSum : List Edge → Int
  | [] => 0
  | e :: es => (e.delta.natAbs : Int) + absSum es

/-- Total of the absolute magnitudes of all segments of all lists. -/
def magAbs : List Seg → Int
  | [] => 0
  | s :: rest => (s.mag.natAbs : Int) + magAbs rest

def magAbsAll : List (List Seg) → Int
  | [] => 0
  | l :: ls => magAbs l + magAbsAll ls

/-- Whether two edges of the list share a time (then the unstable sort may order them either way). -/
def distinctTimes : List Edge → Bool
  | [] => true
  | e :: es => es.all (fun x => x.time != e.time) && distinctTimes es

end ScVerif.C18
