import ScVerif.C18.HeapOps
import ScVerif.C18.Heap
/-!
# C18 — "never modify their arguments": `segmentpb.Sum`, `modepb.Shift`, `modepb.Sum` on the heap of HeapOps

`modepb.Shift` clones the mode (`proto.Clone`: new cells in a new array) and then either replaces the
clone's start time or runs `segmentpb.Shift` on the CLONE's segments.  `modepb.Sum` fills a local
`segmentSlices` (a `make`), replaces its entries by the results of `segmentpb.Shift` and hands them to
`segmentpb.Sum`, whose loop (Heap.lean) appends cells and updates only cells it appended; its `result`
slice lives in arrays of its own.  Every step only extends the heap (`Heap.Extends`), so every cell and
backing array that existed before the call — the arguments, spare capacity included — is unchanged.
(Proof only, not driver-linked.)
-/
namespace ScVerif.C18

/-- `segmentpb.Sum` after `calcCuts` (which only reads): the loop of Heap.lean run on the cells of `h`;
the `result` slice (grown by `append`, then possibly resliced by the final trimming) is a fresh array. -/
def heapSum (h : Heap) (cuts : List Edge) : Heap × Slice :=
  let st := cuts.foldl heapStep ⟨h.cells, [], 0⟩
  let r := allocArr ⟨st.heap, h.arrays⟩ st.result
  (r.1, ⟨r.2, 0, st.result.length⟩)

theorem heapSum_extends (h : Heap) (cuts : List Edge) : h.Extends (heapSum h cuts).1 := by
  have hinv := heapLoop_inv h.cells cuts [] ⟨h.cells, [], 0⟩ ⟨by simp, rfl⟩
  obtain ⟨h1, _⟩ := hinv
  refine ⟨⟨(cuts.foldl sumGoStep ([], 0)).1, ?_⟩, ⟨[(cuts.foldl heapStep ⟨h.cells, [], 0⟩).result], ?_⟩⟩
  · simp only [heapSum, allocArr]
    exact h1
  · simp only [heapSum, allocArr]

/-- `modepb.Shift(d, mode)`. -/
def heapModeShift (h : Heap) (d : Int) (m : HeapMode) : Heap × HeapMode :=
  if d = 0 then (h, m)
  else
    let c := cloneSlice h m.segs                      -- mode = proto.Clone(mode)
    match m.start with
    | none =>
      let r := heapShift c.1 d c.2                    -- mode.Segments = segmentpb.Shift(d, mode.Segments...)
      (r.1, ⟨none, r.2⟩)
    | some s => (c.1, ⟨some (s + d), c.2⟩)            -- mode.StartTime = timestamppb.New(…Add(d))

theorem heapModeShift_extends (h : Heap) (d : Int) (m : HeapMode) : h.Extends (heapModeShift h d m).1 := by
  unfold heapModeShift
  split
  · exact Heap.Extends.refl h
  · simp only []
    split
    · exact (cloneSlice_extends h m.segs).trans (heapShift_extends _ d _)
    · exact cloneSlice_extends h m.segs

/-- The alignment loop of `modepb.Sum`: `segmentSlices[i] = segmentpb.Shift(diff, segmentSlices[i]...)`
assigns into the local `segmentSlices`; the heap changes only through `Shift`. -/
def heapAlign (earliest latest : Int) : Heap → List HeapMode → Heap × List Slice
  | h, [] => (h, [])
  | h, m :: ms =>
    let r := heapShift h (m.start.getD latest - earliest) m.segs
    let rest := heapAlign earliest latest r.1 ms
    (rest.1, r.2 :: rest.2)

theorem heapAlign_extends (e l : Int) (h : Heap) (ms : List HeapMode) : h.Extends (heapAlign e l h ms).1 := by
  induction ms generalizing h with
  | nil => exact Heap.Extends.refl h
  | cons m ms ih => exact (heapShift_extends h _ m.segs).trans (ih _)

/-- `modepb.Sum(modes...)`; the result mode is a new object (`&traits.ElectricMode{}`). -/
def heapModeSum (h : Heap) (ms : List HeapMode) : Heap × Option HeapMode :=
  match ms with
  | [] => (h, none)
  | _ =>
    match startsLoop none none (ms.map (fun m => (⟨m.start, readSegs h m.segs⟩ : Mode))) with
    | (some e, some l) =>
      let a := heapAlign e l h ms
      let r := heapSum a.1 (calcCuts (a.2.map (readSegs a.1)))
      (r.1, some ⟨some e, r.2⟩)
    | _ =>
      let r := heapSum h (calcCuts (ms.map (fun m => readSegs h m.segs)))
      (r.1, some ⟨none, r.2⟩)

theorem heapModeSum_extends (h : Heap) (ms : List HeapMode) : h.Extends (heapModeSum h ms).1 := by
  unfold heapModeSum
  split
  · exact Heap.Extends.refl h
  · split
    · exact (heapAlign_extends _ _ h ms).trans (heapSum_extends _ _)
    · exact heapSum_extends _ _

end ScVerif.C18
