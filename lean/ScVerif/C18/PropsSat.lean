import ScVerif.C18.Mode64Lemmas
import ScVerif.C18.PropsMode
import ScVerif.C18.PropsInt64
/-!
# C18 — property theorems, part 8: the mode operations as compiled (`Time.Sub` saturates)

`modeMagnitudeAt64`, `modeActiveAt64`, `modeMaxSegmentAfter64`, `modeMinAt64`, `modeCut64`, `modeShift64`,
`modeSum64` (Mode64.lean) are what the driver executes: `t.Sub(st)` saturated to the `int64` range, all
duration arithmetic in 64 bits.  Here: the READING operations agree with the unbounded model for EVERY
query instant and start time, however far apart (a saturated offset lies beyond every list of total
length < 2^63 ns on the same side as the true offset) — so `C18_modes_read`/`C18_minAt` speak about the
compiled code with no hypothesis on the instants; `Cut`, `Shift`, `Sum` agree while the spans involved stay
below 2^63 ns (≈ 292 years), and beyond that the compiled `Cut` leaves the step function (witness).

Only property theorems and their non-vacuity examples live in this file.
-/
namespace ScVerif.C18

/-- Reading a mode as compiled — for ALL instants: `modepb.MagnitudeAt` is the mode's step function at `t`
with its support, `ActiveAt` finds the same segment, `MaxSegmentAfter` and `MinAt` are those of the
unbounded model; only hypothesis: the mode's own total length is below 2^63 ns. -/
theorem C18_modes_read_any_span (t : Int) (m : Mode) (h : Small m.segs) :
    modeMagnitudeAt64 t m = (modeDen t m t, covered m.segs (t - m.start.getD t)) ∧
    (modeActiveAt64 t m).2 = (modeActiveAt t m).2 ∧
    modeMaxSegmentAfter64 t m = modeMaxSegmentAfter t m := by
  obtain ⟨h1, h2, h3⟩ := modeRead64_eq t m h
  exact ⟨by rw [h1]; exact (C18_modes_read t m).1, h2, h3⟩

theorem C18_minAt_any_span (t : Int) (ms : List Mode) (h : ∀ m ∈ ms, Small m.segs) :
    modeMinAt64 t ms = modeMinAt t ms :=
  minAtLoop64_eq t ms h none 0

/-- `modepb.Cut` as compiled is the `modeCut` of `C18_modes_cut` when the mode is shorter than 2^63 ns and
`t` is less than 2^63 ns after its start (any `t` before the start). -/
theorem C18_modes_int64_cut (t : Int) (m : Mode) (h : Small m.segs) (hspan : t - m.start.getD t < two63) :
    modeCut64 t m = modeCut t m :=
  modeCut64_eq t m h (by rw [tOrST_eq]; exact hspan)

/-- `modepb.Shift` as compiled: exact for a mode with a start time (`Time.Add` does not overflow); for a
mode without one it is `segmentpb.Shift` as compiled (`C18_int64_shift`). -/
theorem C18_modes_int64_shift (d : Int) (m : Mode) :
    (m.start ≠ none → modeShift64 d m = ⟨(modeShift d m).start, (modeShift d m).segs.map some⟩) ∧
    (m.start = none → Small m.segs → -two63 < d → lenSum m.segs + d < two63 →
      modeShift64 d m = ⟨(modeShift d m).start, (modeShift d m).segs.map some⟩) := by
  unfold modeShift64 modeShift
  constructor
  · intro hs
    by_cases hd : d = 0
    · simp [hd]
    · cases hst : m.start with
      | none => exact absurd hst hs
      | some s => simp [hd]
  · intro hs hsm hd1 hd2
    by_cases hd : d = 0
    · simp [hd]
    · simp only [hd, if_false, hs]
      rw [shift64_eq d m.segs hsm hd1 hd2]

/-- `modepb.Sum` as compiled is the `modeSum` of `C18_modes_sum` when every mode, aligned anywhere between
two of the start times, stays shorter than 2^63 ns. -/
theorem C18_modes_int64_sum (ms : List Mode) (h : SpanSmall ms) : modeSum64 ms = modeSum ms :=
  modeSum64_eq ms h

/-- Beyond 2^63 ns the compiled `Cut` leaves the step function: a mode `3 forever` starting at `0`, cut
`2^63 + 5` ns later — the offset saturates, `before` ends at `2^63 − 1` and is `0` at instant `2^63` where the
mode (and the unbounded model's `before`) is `3`; and `ActiveAt` that long BEFORE a start reports the
saturated elapsed time.  (Spans of more than 292 years cannot be expressed as a `time.Duration` at all.) -/
theorem C18_modes_saturation_witness :
    modeCut64 9223372036854775813 ⟨some 0, [⟨3, none⟩]⟩ =
      ⟨some ⟨some 0, [⟨3, some 9223372036854775807⟩]⟩, some ⟨some 9223372036854775813, [⟨3, none⟩]⟩, false⟩ ∧
    modeDenOpt 0 (modeCut64 9223372036854775813 ⟨some 0, [⟨3, none⟩]⟩).before 9223372036854775808 = 0 ∧
    modeDenOpt 0 (modeCut 9223372036854775813 ⟨some 0, [⟨3, none⟩]⟩).before 9223372036854775808 = 3 ∧
    modeActiveAt64 (-9223372036854775813) ⟨some 0, [⟨3, some 1⟩]⟩ = (-9223372036854775808, 0) ∧
    modeActiveAt (-9223372036854775813) ⟨some 0, [⟨3, some 1⟩]⟩ = (-9223372036854775813, 0) := by
  refine ⟨by decide, by decide, by decide, by decide, by decide⟩

/-! Non-vacuity: the hypotheses hold for ordinary modes, and far-apart instants are handled. -/
example : SpanSmall [⟨some 2, [⟨1, some 2⟩]⟩, ⟨none, [⟨3, some 3⟩]⟩, ⟨some 5, [⟨2, none⟩]⟩] := by
  intro m hm
  simp only [List.mem_cons, List.not_mem_nil, or_false] at hm
  have hst : starts [⟨some 2, [⟨1, some 2⟩]⟩, ⟨none, [⟨3, some 3⟩]⟩, ⟨some 5, [⟨2, none⟩]⟩] = [2, 5] := by decide
  rw [hst]
  rcases hm with rfl | rfl | rfl <;>
    refine ⟨⟨nonNeg_of_all _ (by decide), by decide⟩, fun a ha b hb => ?_⟩ <;>
    simp only [List.mem_cons, List.not_mem_nil, or_false] at ha hb <;>
    rcases ha with rfl | rfl <;> rcases hb with rfl | rfl <;> decide
example : modeMagnitudeAt64 60000000000000000000 ⟨some (-60000000000000000000), [⟨1, some 5⟩, ⟨7, none⟩]⟩ = (7, true) ∧
    modeMagnitudeAt64 60000000000000000000 ⟨some (-60000000000000000000), [⟨1, some 5⟩]⟩ = (0, false) ∧
    modeMagnitudeAt64 (-60000000000000000000) ⟨some 60000000000000000000, [⟨1, some 5⟩, ⟨7, none⟩]⟩ = (0, false) := by
  decide

end ScVerif.C18
