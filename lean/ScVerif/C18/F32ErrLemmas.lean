import ScVerif.C18.F32Lemmas
/-!
Lemmas about the float32 rendering of `Sum`/`SumMagnitude` BEYOND the exactness bound: the roundings
accumulate linearly.  The float loop (`emitF`) and the exact loop (`emit`) walk the same edges and close the
same segments (`emitF_closedLens`); here their step functions are compared pointwise.  One rounding is within
`2^-24` of the value rounded (`rnd24_error`); by induction over the edge list the float running magnitude stays
within `2·k·A / 2^24` of the exact one after `k` edges, `A` the total of the absolute edge deltas, as long as
`k ≤ 2^23` (which keeps the accumulated error below `A`, so the next value rounded is below `2·A`).
-/
namespace ScVerif.C18

/-- `2·A` per remaining edge: the room the induction needs for the roundings still to come. -/
def slack (A : Int) : List Edge → Int
  | [] => 0
  | _ :: es => 2 * A + slack A es

theorem slack_nonneg (A : Int) (hA : 0 ≤ A) (es : List Edge) : 0 ≤ slack A es := by
  induction es with
  | nil => simp [slack]
  | cons e es ih => simp only [slack]; omega

theorem slack_eq (A : Int) (es : List Edge) : slack A es = 2 * (es.length : Int) * A := by
  induction es with
  | nil => simp [slack]
  | cons e es ih =>
    simp only [slack, ih, List.length_cons, Int.natCast_add, Int.natCast_one]
    rw [Int.mul_add, Int.add_mul]
    omega

/-- The open last element under the drop rule of `Sum`: whatever the rule decides for the float and for the
exact magnitude (kept / dropped because it is zero / dropped because no input is unbounded), the two step
functions differ by at most the difference of the magnitudes. -/
theorem den_tail_err (inf : Bool) (mF m t : Int) :
    (den (if dropRule inf mF then [] else [⟨mF, none⟩]) t -
      den (if dropRule inf m then [] else [⟨m, none⟩]) t).natAbs ≤ (mF - m).natAbs := by
  cases inf
  · simp [dropRule, den]
  · by_cases h1 : mF = 0 <;> by_cases h2 : m = 0 <;> by_cases ht : t < 0 <;>
      simp [dropRule, den, h1, h2, ht]

/-- One more rounded addition: the distance between the float and the exact running magnitude grows by at most
`2^-24` of the value rounded. -/
theorem addF_step_err (mF m d A B : Int)
    (hA : (m.natAbs : Int) + (d.natAbs : Int) ≤ A)
    (hE : ((mF - m).natAbs : Int) * 16777216 ≤ B) (hBA : B ≤ 16777216 * A) :
    ((addF mF d - (m + d)).natAbs : Int) * 16777216 ≤ B + 2 * A := by
  have hr : ((addF mF d - (mF + d)).natAbs : Int) * 16777216 ≤ ((mF + d).natAbs : Int) := by
    have := rnd24_error (mF + d)
    unfold addF
    omega
  omega

theorem emitF_den_err (inf : Bool) (A : Int) (es : List Edge) : ∀ (mF m lt t B : Int),
    (m.natAbs : Int) + absSum es ≤ A →
    ((mF - m).natAbs : Int) * 16777216 ≤ B → 0 ≤ B →
    B + slack A es ≤ 16777216 * A →
    ((den (emitF (dropRule inf) mF lt es) t - den (emit (dropRule inf) m lt es) t).natAbs : Int) * 16777216
      ≤ B + slack A es := by
  induction es with
  | nil =>
    intro mF m lt t B _ hE _ _
    have := den_tail_err inf mF m t
    simp only [emitF, emit, slack]
    omega
  | cons e es ih =>
    intro mF m lt t B hA hE hB hS
    simp only [absSum] at hA
    simp only [slack] at hS ⊢
    have hp := absSum_nonneg es
    have hA0 : 0 ≤ A := by omega
    have hsl := slack_nonneg A hA0 es
    have hstep := addF_step_err mF m e.delta A B (by omega) hE (by omega)
    have hA' : (((m + e.delta).natAbs : Nat) : Int) + absSum es ≤ A := by omega
    have ih' := fun lt' t' => ih (addF mF e.delta) (m + e.delta) lt' t' (B + 2 * A) hA' hstep (by omega) (by omega)
    by_cases h : e.time - lt = 0
    · simp only [emitF, emit, h, if_true]
      have := ih' lt t
      omega
    · simp only [emitF, emit, h, if_false, den]
      by_cases ht : t < 0
      · simp only [ht, if_true]
        simp
        omega
      · simp only [ht, if_false]
        by_cases hl : t < e.time - lt
        · simp only [hl, if_true]
          omega
        · simp only [hl, if_false]
          have := ih' e.time (t - (e.time - lt))
          omega

/-- The float rendering of `Sum` on any edge list of at most 2^23 edges stays, at every instant, within
`2 · (number of edges) · (total absolute delta) / 2^24` of the exact rendering on the same edges. -/
theorem sumEdgesF_den_err (inf : Bool) (es : List Edge) (hn : es.length ≤ 8388608) (t : Int) :
    ((den (sumEdgesF (dropRule inf) es) t - den (sumEdges (dropRule inf) es) t).natAbs : Int) * 16777216
      ≤ 2 * (es.length : Int) * absSum es := by
  cases es with
  | nil => simp [sumEdgesF, sumEdges, den]
  | cons e es =>
    have hp := absSum_nonneg (e :: es)
    have hle : slack (absSum (e :: es)) (e :: es) ≤ 16777216 * absSum (e :: es) := by
      rw [slack_eq]
      have h1 : 2 * ((e :: es).length : Int) ≤ 16777216 := by omega
      exact Int.mul_le_mul_of_nonneg_right h1 hp
    have := emitF_den_err inf (absSum (e :: es)) (e :: es) 0 0 0 t 0 (by simp) (by simp) (by omega) (by omega)
    rw [slack_eq] at this
    simpa [sumEdgesF, sumEdges] using this

/-- `SumMagnitude`: the float fold against the exact total. -/
theorem foldF_err (A : Int) (segs : List Seg) : ∀ (accF acc B : Int),
    (acc.natAbs : Int) + magAbs segs ≤ A →
    ((accF - acc).natAbs : Int) * 16777216 ≤ B → 0 ≤ B →
    B + 2 * (segs.length : Int) * A ≤ 16777216 * A →
    ((segs.foldl (fun a s => addF a s.mag) accF - (acc + sumMagnitude segs)).natAbs : Int) * 16777216
      ≤ B + 2 * (segs.length : Int) * A := by
  induction segs with
  | nil =>
    intro accF acc B _ hE _ _
    simp [sumMagnitude]
    omega
  | cons s rest ih =>
    intro accF acc B hA hE hB hS
    simp only [magAbs] at hA
    have hp := magAbs_nonneg rest
    have e1 : 2 * (((s :: rest).length : Nat) : Int) * A = 2 * (rest.length : Int) * A + 2 * A := by
      simp only [List.length_cons, Int.natCast_add, Int.natCast_one]
      rw [Int.mul_add, Int.add_mul]
      omega
    rw [e1] at hS ⊢
    have hA0 : 0 ≤ A := by omega
    have hrl : 0 ≤ 2 * (rest.length : Int) * A := Int.mul_nonneg (by omega) hA0
    have hstep := addF_step_err accF acc s.mag A B (by omega) hE (by omega)
    have := ih (addF accF s.mag) (acc + s.mag) (B + 2 * A) (by omega) hstep (by omega) (by omega)
    simp only [List.foldl_cons, sumMagnitude]
    have e2 : acc + (s.mag + sumMagnitude rest) = acc + s.mag + sumMagnitude rest := by omega
    rw [e2]
    omega

theorem sumMagnitudeF_err (segs : List Seg) (hn : segs.length ≤ 8388608) :
    ((sumMagnitudeF segs - sumMagnitude segs).natAbs : Int) * 16777216
      ≤ 2 * (segs.length : Int) * magAbs segs := by
  have hp := magAbs_nonneg segs
  have hle : 2 * (segs.length : Int) * magAbs segs ≤ 16777216 * magAbs segs :=
    Int.mul_le_mul_of_nonneg_right (by omega) hp
  have := foldF_err (magAbs segs) segs 0 0 0 (by simp) (by simp) (by omega) (by omega)
  unfold sumMagnitudeF
  simpa using this

/-- Number of segments of all lists. -/
def segCount : List (List Seg) → Nat
  | [] => 0
  | l :: ls => l.length + segCount ls

theorem edgesOf_length_le (l : List Seg) (cur : Int) : (edgesOf cur l).length ≤ 2 * l.length := by
  induction l generalizing cur with
  | nil => simp [edgesOf]
  | cons s rest ih =>
    cases hs : s.len with
    | none =>
      simp only [edgesOf, hs, List.length_cons]
      split <;> simp <;> omega
    | some len =>
      have := ih (cur + len)
      simp only [edgesOf, hs, List.length_append, List.length_cons]
      split <;> simp <;> omega

/-- `calcCuts` produces at most two edges per segment. -/
theorem rawEdges_length_le (ls : List (List Seg)) : (rawEdges ls).length ≤ 2 * segCount ls := by
  induction ls with
  | nil => simp [rawEdges, segCount]
  | cons l ls ih =>
    have := edgesOf_length_le l 0
    simp only [rawEdges, List.length_append, segCount]
    omega

end ScVerif.C18
