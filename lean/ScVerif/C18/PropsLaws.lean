import ScVerif.C18.LawLemmas
import ScVerif.C18.PropsMode
/-!
# C18 — property theorems, part 6: the laws compose; the corner cases by name

The step-function laws of PropsSeg/PropsMode carry the hypothesis `NonNeg` (present lengths are not
negative).  Here: every operation that returns segments returns a `NonNeg` list again — `Sum` even one
whose present lengths are strictly positive and in which only the last element may be length-less — so
the laws apply to results of results (`C18_compose` is one such chain, `C18_algebra` the identities of
`Sum` and `Shift` that follow).  Then the corner cases the
general theorems contain, stated on their own: a query before the start time of a mode, `Max*` on lists
whose counted magnitudes are all zero or negative, `Sum` of lists that all begin idle.

Only property theorems and their non-vacuity examples live in this file.
-/
namespace ScVerif.C18

/-- The segment operations are closed on well-formed lists: `Cut` (any `d`), `Shift` (any `d`) and `Sum`
return lists with non-negative lengths; `Sum` returns only positive lengths and a length-less element at
most in last position. -/
theorem C18_closed (d : Int) (s : Seg) (segs : List Seg) (ls : List (List Seg))
    (hs : NonNeg [s]) (hsegs : NonNeg segs) (hls : AllNonNeg ls) :
    NonNeg (optToList (cutSeg d s).before) ∧ NonNeg (optToList (cutSeg d s).after) ∧
    NonNeg (shift d segs) ∧
    NonNeg (sum ls) ∧ (∀ x ∈ sum ls, ∀ l, x.len = some l → 0 < l) ∧
    (∀ (i : Nat) x, i + 1 < (sum ls).length → (sum ls)[i]? = some x → x.len ≠ none) :=
  ⟨(cutSeg_nonNeg d s hs).1, (cutSeg_nonNeg d s hs).2, shift_nonNeg_any d segs hsegs,
   (sum_wf ls hls).1.nonNeg, (sum_wf ls hls).1,
   fun i x hi hx => finInit_getElem _ (sum_wf ls hls).2 i hi x hx⟩

/-- The mode operations are closed on well-formed modes: both parts of `modepb.Cut`, the result of
`modepb.Shift` and the result of `modepb.Sum` have non-negative lengths (`Sum`: positive, length-less only
last). -/
theorem C18_modes_closed (t d : Int) (m : Mode) (ms : List Mode) (hm : NonNeg m.segs)
    (hne : ms ≠ []) (hms : ∀ m ∈ ms, NonNeg m.segs) :
    (∀ b, (modeCut t m).before = some b → NonNeg b.segs) ∧
    (∀ a, (modeCut t m).after = some a → NonNeg a.segs) ∧
    NonNeg (modeShift d m).segs ∧
    (∃ r, modeSum ms = some r ∧ NonNeg r.segs ∧ (∀ x ∈ r.segs, ∀ l, x.len = some l → 0 < l) ∧
      (∀ (i : Nat) x, i + 1 < r.segs.length → r.segs[i]? = some x → x.len ≠ none)) := by
  obtain ⟨hb, ha⟩ := modeCut_nonNeg t m hm
  obtain ⟨r, hr, hp, hf⟩ := modeSum_wf ms hne hms
  refine ⟨fun b hbe => ?_, fun a hae => ?_, modeShift_nonNeg d m hm,
    r, hr, hp.nonNeg, hp, fun i x hi hx => finInit_getElem _ hf i hi x hx⟩
  · rw [hbe] at hb; exact hb
  · rw [hae] at ha; exact ha

/-- The laws compose, e.g.: the sum of a list shifted by `d` (either direction) and the part of another list
after a cut at `c ≥ 0` is, at every instant `t ≥ 0`, the first list at `t − d` plus the second at `t + c`. -/
theorem C18_compose (d c : Int) (a : List Seg) (s : Seg) (ha : NonNeg a) (hs : NonNeg [s]) (hc : 0 ≤ c)
    (t : Int) (ht : 0 ≤ t) :
    den (sum [shift d a, optToList (cutSeg c s).after]) t = den a (t - d) + den [s] (t + c) := by
  have hall : AllNonNeg [shift d a, optToList (cutSeg c s).after] := by
    intro l hl
    simp only [List.mem_cons, List.not_mem_nil, or_false] at hl
    rcases hl with rfl | rfl
    · exact shift_nonNeg_any d a ha
    · exact (cutSeg_nonNeg c s hs).2
  rw [C18_sum _ hall t]
  simp only [denSum]
  rw [C18_shift d a ha t, den_optToList, ((C18_cut c s).1 hc).2.2 t ht]
  have : ¬ t < 0 := by omega
  simp [this]

/-- The algebra of `Sum` and `Shift` on step functions, for all lists with non-negative lengths: `Sum` of one
list is that list; the order of the lists is irrelevant; nesting is irrelevant (`Sum` of `Sum`s is the `Sum`
of everything — the inner results are well-formed again, `C18_closed`); `Sum` of nothing is nothing;
right shifts add up; and a right shift distributes over `Sum`. -/
theorem C18_algebra (a b : List (List Seg)) (l : List Seg) (d e : Int)
    (ha : AllNonNeg a) (hb : AllNonNeg b) (hl : NonNeg l) (hd : 0 ≤ d) (he : 0 ≤ e) (t : Int) :
    den (sum [l]) t = den l t ∧
    den (sum (a ++ b)) t = den (sum (b ++ a)) t ∧
    den (sum [sum a, sum b]) t = den (sum (a ++ b)) t ∧
    sum [] = [] ∧
    den (shift d (shift e l)) t = den (shift (d + e) l) t ∧
    den (sum (a.map (shift d))) t = den (shift d (sum a)) t := by
  have hone : AllNonNeg [l] := fun x hx => by simp at hx; subst hx; exact hl
  have hsa := (C18_closed 0 ⟨0, none⟩ [] a (fun s hs => by simp at hs; subst hs; intro l hl; cases hl)
    (fun s hs => by simp at hs) ha).2.2.2.1
  have hsb := (C18_closed 0 ⟨0, none⟩ [] b (fun s hs => by simp at hs; subst hs; intro l hl; cases hl)
    (fun s hs => by simp at hs) hb).2.2.2.1
  have hnest : AllNonNeg [sum a, sum b] := by
    intro x hx
    simp only [List.mem_cons, List.not_mem_nil, or_false] at hx
    rcases hx with rfl | rfl
    · exact hsa
    · exact hsb
  refine ⟨?_, ?_, ?_, by decide, ?_, ?_⟩
  · rw [C18_sum _ hone t]; simp [denSum]
  · rw [C18_sum _ (allNonNeg_append ha hb) t, C18_sum _ (allNonNeg_append hb ha) t,
      denSum_append, denSum_append]; omega
  · rw [C18_sum _ hnest t, C18_sum _ (allNonNeg_append ha hb) t, denSum_append]
    simp only [denSum]
    rw [C18_sum _ ha t, C18_sum _ hb t]; omega
  · rw [C18_shift_right d _ (shift_nonNeg_any e l hl) hd t, C18_shift_right e l hl he (t - d),
      C18_shift_right (d + e) l hl (by omega) t]
    congr 1; omega
  · have hmap : AllNonNeg (a.map (shift d)) := by
      intro x hx
      obtain ⟨y, hy, rfl⟩ := List.mem_map.mp hx
      exact shift_nonNeg_any d y (ha y hy)
    rw [C18_sum _ hmap t, C18_shift_right d _ hsa hd t, C18_sum _ ha (t - d)]
    clear hmap hsa hsb hnest
    induction a with
    | nil => rfl
    | cons x a ih =>
      simp only [List.map_cons, denSum]
      rw [C18_shift_right d x (ha x List.mem_cons_self) hd t,
        ih (fun y hy => ha y (List.mem_cons_of_mem _ hy))]

/-- Round trips on step functions.  Segments: the two parts of `Cut(d ≥ 0)`, the second shifted back by `d`,
sum up to the segment; shifting right by `d` and then left by `d` gives the list back.  (Through `Shift` and
`Sum`, which only works because every intermediate result is well-formed again.) -/
theorem C18_roundtrip (d : Int) (s : Seg) (l : List Seg) (hs : NonNeg [s]) (hl : NonNeg l) (hd : 0 ≤ d) (t : Int) :
    den (sum [optToList (cutSeg d s).before, shift d (optToList (cutSeg d s).after)]) t = den [s] t ∧
    den (shift (-d) (shift d l)) t = den l t := by
  obtain ⟨hnb, hna⟩ := cutSeg_nonNeg d s hs
  have hall : AllNonNeg [optToList (cutSeg d s).before, shift d (optToList (cutSeg d s).after)] := by
    intro x hx
    simp only [List.mem_cons, List.not_mem_nil, or_false] at hx
    rcases hx with rfl | rfl
    · exact hnb
    · exact shift_nonNeg_any d _ hna
  obtain ⟨c1, c2, c3⟩ := (C18_cut d s).1 hd
  constructor
  · rw [C18_sum _ hall t]
    simp only [denSum]
    rw [C18_shift_right d _ hna hd t, den_optToList, den_optToList]
    by_cases ht : t < d
    · rw [c1 t ht]
      have : denOpt (cutSeg d s).after (t - d) = 0 := by
        rw [← den_optToList]; exact den_neg _ _ (by omega)
      omega
    · rw [c2 t (by omega), c3 (t - d) (by omega)]
      have : t - d + d = t := by omega
      rw [this]; omega
  · rw [C18_shift (-d) _ (shift_nonNeg_any d l hl) t]
    by_cases ht : t < 0
    · simp only [ht, if_true]; exact (den_neg _ _ ht).symm
    · simp only [ht, if_false]
      rw [C18_shift_right d l hl hd]
      congr 1; omega

/-- Round trip for modes: whenever `modepb.Cut(t, mode)` returns two parts, `modepb.Sum(before, after)` is the
mode again as a step function on the absolute timeline. -/
theorem C18_modes_cut_roundtrip (t : Int) (m : Mode) (hnn : NonNeg m.segs) (b a : Mode)
    (hb : (modeCut t m).before = some b) (ha : (modeCut t m).after = some a) :
    ∃ r, modeSum [b, a] = some r ∧ ∀ x, modeDen t r x = modeDen t m x := by
  obtain ⟨cb, ca⟩ := modeCut_nonNeg t m hnn
  rw [hb] at cb; rw [ha] at ca
  have hnn2 : ∀ x ∈ [b, a], NonNeg x.segs := by
    intro x hx
    simp only [List.mem_cons, List.not_mem_nil, or_false] at hx
    rcases hx with rfl | rfl
    · exact cb
    · exact ca
  obtain ⟨r, hr, h1, h2⟩ := C18_modes_sum [b, a] (by simp) hnn2
  refine ⟨r, hr, fun x => ?_⟩
  rcases modeCut_two_sided t m b a hb ha with ⟨hnil, hbm, ham⟩ | ⟨s, hms, hst, hbs, has⟩
  · -- no segments at all: everything is 0
    have hz : modeDen t m x = 0 := by unfold modeDen; rw [hnil]; rfl
    have hbn : b.segs = [] := by rw [hbm]; exact hnil
    have han : a.segs = [] := by rw [ham]; exact hnil
    rw [hz]
    by_cases hstarts : starts [b, a] = []
    · obtain ⟨hrs, hden⟩ := h1 hstarts
      unfold modeDen
      rw [hden]
      simp [denSum, hbn, han, den]
    · obtain ⟨e, l, _, _, _, _, hden⟩ := h2 hstarts
      rw [hden t x]
      simp [modeDenSum, modeDen, hbn, han, den]
  · have hstarts : starts [b, a] = [s, t] := by simp [starts, hbs, has]
    have hne : starts [b, a] ≠ [] := by rw [hstarts]; simp
    obtain ⟨e, l, _, hl, hbounds, _, hden⟩ := h2 hne
    rw [hden t x]
    have hb' : ∀ ref, modeDen ref b x = modeDen t b x := fun ref => by unfold modeDen; rw [hbs]; rfl
    have ha' : ∀ ref, modeDen ref a x = modeDen t a x := fun ref => by unfold modeDen; rw [has]; rfl
    simp only [modeDenSum, hb' l, ha' l]
    obtain ⟨c1, c2, c3⟩ := C18_modes_cut t m hnn
    rw [hb] at c1 c2; rw [ha] at c3
    simp only [modeDenOpt] at c1 c2 c3
    by_cases hx : x < t
    · rw [c1 x hx]
      have : modeDen t a x = 0 := by
        unfold modeDen; rw [has]; simp only [Option.getD_some]; exact den_neg _ _ (by omega)
      omega
    · rw [c2 x (by omega), c3 x (by omega)]; omega

/-- `Sum` does not depend on the order of its argument lists — not only as a step function: it returns the
very same segment list (exact magnitudes; in float32 below the bound of `C18_sum_float`). -/
theorem C18_sum_argument_order (ls ls' : List (List Seg)) (h : ls.Perm ls') : sum ls = sum ls' := by
  unfold sum
  rw [anyInfinite_perm h]
  apply sumEdges_order_irrelevant
  · exact ((sortEdges_perm _).trans (rawEdges_perm h)).trans (sortEdges_perm _).symm
  · exact sortEdges_sorted _
  · exact sortEdges_sorted _

/-- `modepb.Sum` does not depend on the order of its arguments either: the same mode, segment for segment. -/
theorem C18_modes_sum_argument_order (ms ms' : List Mode) (h : ms.Perm ms') : modeSum ms = modeSum ms' := by
  cases ms with
  | nil => rw [List.Perm.eq_nil h.symm]
  | cons m0 r0 =>
    cases ms' with
    | nil => exact absurd (List.Perm.eq_nil h) (by simp)
    | cons m1 r1 =>
      have hs := startsLoop_perm h
      unfold modeSum
      simp only []
      rw [hs]
      cases hr : startsLoop none none (m1 :: r1) with
      | mk e l =>
        cases e with
        | none =>
          simp only []
          rw [C18_sum_argument_order _ _ (h.map (·.segs))]
        | some e =>
          cases l with
          | none =>
            simp only []
            rw [C18_sum_argument_order _ _ (h.map (·.segs))]
          | some l =>
            simp only []
            rw [alignLoop_eq_map, alignLoop_eq_map, C18_sum_argument_order _ _ (h.map _)]

/-- `modepb.Cut` and `segmentpb.Shift` agree: whenever `Cut(t, mode)` returns an `after` part for a mode with
segments and `t` after its start, that part starts at `t` and its segments are exactly — as a list — the
mode's segments shifted left by the time elapsed since the start. -/
theorem C18_cut_after_is_shift (t st : Int) (m : Mode) (hst : m.start = some st) (hgt : st < t)
    (hne : m.segs ≠ []) (a : Mode) (ha : (modeCut t m).after = some a) :
    a.start = some t ∧ a.segs = shift (-(t - st)) m.segs := by
  have hd0 : ¬ (-(t - st)) = 0 := by omega
  have hdp : ¬ (-(t - st)) > 0 := by omega
  have hn : ¬ t - st < 0 := by omega
  have hd : 0 ≤ t - st := by omega
  have hlen : ¬ m.segs.length = 0 := fun e => hne (List.length_eq_zero_iff.mp e)
  have hgt' : ¬¬ (t > st) := fun x => x hgt
  have hshift : shift (-(t - st)) m.segs = afterAt (t - st) m.segs := by
    unfold shift
    simp only [hd0, if_false]
    cases hm : m.segs with
    | nil => exact absurd hm hne
    | cons first rest =>
      simp only [hdp, if_false]
      rw [shiftNegLoop_eq_afterAt]
      have : - -(t - st) - 0 = t - st := by omega
      rw [this]
  have hact : activeAt (t - st) m.segs = activeAtLoop (t - st) 0 0 m.segs := by simp [activeAt, hn]
  have hspec := activeAtLoop_spec m.segs (t - st) hd
  unfold modeCut at ha
  simp only [hlen, if_false, tOrST_eq, hst, Option.getD_some, hgt', hact] at ha
  by_cases hend : (activeAtLoop (t - st) 0 0 m.segs).2 = m.segs.length
  · simp only [hend, if_true] at ha; cases ha
  · simp only [hend, if_false] at ha
    cases hs : m.segs[(activeAtLoop (t - st) 0 0 m.segs).2]? with
    | none => rw [hs] at ha; cases ha
    | some s =>
      rw [hs] at ha
      simp only [Option.some.injEq] at ha
      have hdrop : m.segs.drop (activeAtLoop (t - st) 0 0 m.segs).2 =
          s :: m.segs.drop ((activeAtLoop (t - st) 0 0 m.segs).2 + 1) := by
        have hlt : (activeAtLoop (t - st) 0 0 m.segs).2 < m.segs.length := by
          have := hspec.2.2.1; omega
        rw [List.drop_eq_getElem_cons hlt]
        congr 1
        rw [List.getElem?_eq_getElem hlt] at hs
        exact Option.some.inj hs
      rw [hshift]
      unfold afterAt
      simp only [hdrop]
      cases hl : s.len with
      | none =>
        -- Cut of a length-less segment returns the segment itself as `after`
        have hafter : (cutSeg (t - st - (activeAtLoop (t - st) 0 0 m.segs).1) s).after = some s := by
          unfold cutSeg
          split
          · rfl
          · simp [hl]
        rw [hafter] at ha
        simp only [] at ha
        rw [← ha]
        exact ⟨rfl, rfl⟩
      | some l =>
        have hin := ((hspec.2.2.2.2.1 s hs).2 l hl)
        have hsome := cutSeg_after_isSome (t - st - (activeAtLoop (t - st) 0 0 m.segs).1) s
          (fun l' hl' => by rw [hl] at hl'; cases hl'; omega)
        cases hca : (cutSeg (t - st - (activeAtLoop (t - st) 0 0 m.segs).1) s).after with
        | none => rw [hca] at hsome; cases hsome
        | some sa =>
          rw [hca] at ha
          simp only [] at ha
          rw [← ha]
          exact ⟨rfl, by simp⟩

/-- Before its start time a mode is not there: `modepb.MagnitudeAt` answers `(0, false)` whatever the first
segment is, `modepb.ActiveAt` the documented `(t − start, 0)` with a negative elapsed time, the step
function is `0` (so `MinAt` counts a mode that has not started as `0`), and `modepb.Cut` returns
`(nil, mode, outside)`. -/
theorem C18_modes_before_start (t st : Int) (m : Mode) (hst : m.start = some st) (h : t < st) :
    modeMagnitudeAt t m = (0, false) ∧ modeActiveAt t m = (t - st, 0) ∧ modeDen t m t = 0 ∧
    (m.segs ≠ [] → modeCut t m = ⟨none, some m, true⟩) := by
  have hd : t - st < 0 := by omega
  refine ⟨?_, ?_, ?_, ?_⟩
  · unfold modeMagnitudeAt magnitudeAt
    simp [tOrST_eq, hst, hd]
  · unfold modeActiveAt activeAt
    simp [tOrST_eq, hst, hd]
  · unfold modeDen
    simp only [hst, Option.getD_some]
    exact den_neg _ _ hd
  · intro hne
    have hlen : ¬ m.segs.length = 0 := fun e => hne (List.length_eq_zero_iff.mp e)
    have hgt : ¬ t > st := by omega
    unfold modeCut
    simp [hlen, tOrST_eq, hst, hgt, h]

/-- `Max`, `MaxMagnitude`, `MaxAfter` do not confuse "no segment counts" with "nothing is positive": as
soon as one segment has an absent or positive length, `Max` is the index of such a segment (never
`len(segments)`), `MaxMagnitude` is its magnitude — `0` for an idle-only list because the idle segment IS
the maximum, negative when every counted magnitude is negative — and likewise `MaxAfter` whenever a
counted segment exists at or after the active one. -/
theorem C18_max_counted (d : Int) (segs : List Seg) :
    ((∃ s ∈ segs, counts s = true) →
      maxIdx segs < segs.length ∧
      ∃ s, segs[maxIdx segs]? = some s ∧ counts s = true ∧ maxMagnitude segs = s.mag ∧
        ∀ s' ∈ segs, counts s' = true → s'.mag ≤ s.mag) ∧
    ((∃ s ∈ segs, counts s = true) → (∀ s ∈ segs, counts s = true → s.mag < 0) → maxMagnitude segs < 0) ∧
    ((∃ s ∈ segs.drop (activeAt d segs).2, counts s = true) →
      maxAfter d segs < segs.length ∧ (activeAt d segs).2 ≤ maxAfter d segs) := by
  have key : ∀ l : List Seg, (∃ s ∈ l, counts s = true) →
      maxIdx l < l.length ∧
      ∃ s, l[maxIdx l]? = some s ∧ counts s = true ∧ maxMagnitude l = s.mag ∧
        ∀ s' ∈ l, counts s' = true → s'.mag ≤ s.mag := by
    intro l ⟨s0, hs0, hc0⟩
    cases hm : l[maxIdx l]? with
    | none =>
      have := ((C18_max l).2 hm).2.2 s0 hs0
      rw [hc0] at this; cases this
    | some s =>
      obtain ⟨hc, hmm, hall, _⟩ := (C18_max l).1 s hm
      have hlt : maxIdx l < l.length := by
        rcases Nat.lt_or_ge (maxIdx l) l.length with h | h
        · exact h
        · rw [List.getElem?_eq_none h] at hm; cases hm
      refine ⟨hlt, s, rfl, hc, hmm, fun s' hs' hc' => ?_⟩
      obtain ⟨k, hk, hks⟩ := List.mem_iff_getElem.mp hs'
      exact hall k s' (by rw [List.getElem?_eq_getElem hk, hks]) hc'
  refine ⟨key segs, fun hex hneg => ?_, fun hex => ?_⟩
  · obtain ⟨_, s, hs, hc, hmm, _⟩ := key segs hex
    rw [hmm]
    exact hneg s (List.mem_of_getElem? hs) hc
  · obtain ⟨hlt, _⟩ := key (segs.drop (activeAt d segs).2) hex
    have e : maxAfter d segs = maxIdx (segs.drop (activeAt d segs).2) + (activeAt d segs).2 := rfl
    rw [e]
    simp only [List.length_drop] at hlt
    constructor <;> omega

/-- `Sum` keeps the leading idle time: when every list idles on `[0, a)` the sum is `0` there and is the
pointwise sum from `a` on — it is NOT translated to start at its first edge; structurally, when the first
edge is at `a > 0` the result begins with the idle segment `{0, a}`. -/
theorem C18_sum_leading_idle (ls : List (List Seg)) (h : AllNonNeg ls) (a : Int)
    (hidle : ∀ l ∈ ls, ∀ t, t < a → den l t = 0) :
    (∀ t, t < a → den (sum ls) t = 0) ∧
    (∀ e es, calcCuts ls = e :: es → 0 < e.time → (sum ls).head? = some ⟨0, some e.time⟩) := by
  refine ⟨fun t ht => ?_, fun e es hc ha => sum_leading_idle ls e es hc ha⟩
  rw [C18_sum ls h t]
  induction ls with
  | nil => rfl
  | cons l ls ih =>
    simp only [denSum]
    rw [hidle l List.mem_cons_self t ht,
      ih (fun x hx => h x (List.mem_cons_of_mem _ hx)) (fun x hx => hidle x (List.mem_cons_of_mem _ hx))]
    rfl

/-! Non-vacuity and concrete values: the named corner cases on concrete inputs. -/
example : (modeCut 5 ⟨some 2, [⟨1, some 2⟩, ⟨2, some 4⟩, ⟨3, some 1⟩]⟩).after.map (·.segs)
    = some (shift (-3) [⟨1, some 2⟩, ⟨2, some 4⟩, ⟨3, some 1⟩]) := by decide
example : sum [[⟨1, some 2⟩, ⟨-2, none⟩], [⟨2, some 3⟩], [⟨0, some 1⟩, ⟨4, some 1⟩]]
    = sum [[⟨0, some 1⟩, ⟨4, some 1⟩], [⟨1, some 2⟩, ⟨-2, none⟩], [⟨2, some 3⟩]] := by decide
example : (modeCut 5 ⟨some 2, [⟨1, some 2⟩, ⟨2, some 4⟩, ⟨3, some 1⟩]⟩).before = some ⟨some 2, [⟨1, some 2⟩, ⟨2, some 1⟩]⟩ ∧
    (modeCut 5 ⟨some 2, [⟨1, some 2⟩, ⟨2, some 4⟩, ⟨3, some 1⟩]⟩).after = some ⟨some 5, [⟨2, some 3⟩, ⟨3, some 1⟩]⟩ ∧
    modeSum [⟨some 2, [⟨1, some 2⟩, ⟨2, some 1⟩]⟩, ⟨some 5, [⟨2, some 3⟩, ⟨3, some 1⟩]⟩]
      = some ⟨some 2, [⟨1, some 2⟩, ⟨2, some 1⟩, ⟨2, some 3⟩, ⟨3, some 1⟩]⟩ := by decide
example : sum [optToList (cutSeg 2 ⟨5, some 3⟩).before, shift 2 (optToList (cutSeg 2 ⟨5, some 3⟩).after)]
    = [⟨5, some 2⟩, ⟨5, some 1⟩] ∧ shift (-2) (shift 2 [⟨4, some 1⟩, ⟨1, none⟩]) = [⟨4, some 1⟩, ⟨1, none⟩] := by decide
example : sum [sum [[⟨1, some 2⟩], [⟨2, some 3⟩]], sum [[⟨0, some 1⟩, ⟨-1, none⟩]]]
    = sum [[⟨1, some 2⟩], [⟨2, some 3⟩], [⟨0, some 1⟩, ⟨-1, none⟩]] := by decide
example : shift 2 (shift 3 [⟨4, some 1⟩]) = [⟨0, some 5⟩, ⟨4, some 1⟩] ∧ shift 5 [⟨4, some 1⟩] = [⟨0, some 5⟩, ⟨4, some 1⟩] := by
  decide
example : modeMagnitudeAt 4 ⟨some 5, [⟨7, some 2⟩]⟩ = (0, false) ∧ modeActiveAt 4 ⟨some 5, [⟨7, some 2⟩]⟩ = (-1, 0) := by
  decide
example : maxIdx [⟨0, some 5⟩] = 0 ∧ maxIdx [⟨-3, some 2⟩, ⟨-1, some 2⟩] = 1 ∧
    maxMagnitude [⟨-3, some 2⟩, ⟨-1, some 2⟩] = -1 ∧ maxAfter 8 [⟨3, some 3⟩, ⟨5, some 5⟩, ⟨0, some 2⟩] = 2 := by
  decide
example : sum [[⟨0, some 5⟩, ⟨10, some 5⟩]] = [⟨0, some 5⟩, ⟨10, some 5⟩] ∧
    sum [[⟨0, some 3⟩, ⟨2, some 2⟩], [⟨0, some 4⟩, ⟨1, none⟩]] = [⟨0, some 3⟩, ⟨2, some 1⟩, ⟨3, some 1⟩, ⟨1, none⟩] := by
  decide
example : calcCuts [[⟨0, some 5⟩, ⟨10, some 5⟩]] = [⟨5, 10⟩, ⟨10, -10⟩] := by decide
example : sum [shift (-1) [⟨1, some 2⟩, ⟨2, some 2⟩], optToList (cutSeg 1 ⟨5, some 3⟩).after]
    = [⟨6, some 1⟩, ⟨7, some 1⟩, ⟨2, some 1⟩] := by decide

end ScVerif.C18
