import ScVerif.C18.SegLemmas
/-! Lemmas about `Max`: the left-to-right loop equals a right-to-left description (`best`), whose
properties follow by structural induction. -/
namespace ScVerif.C18

/-- Relative index and magnitude of the first maximal counted segment, computed from the right. -/
def best : List Seg → Option (Nat × Int)
  | [] => none
  | s :: rest =>
    match best rest with
    | none => if counts s then some (0, s.mag) else none
    | some (j, m) => if counts s ∧ m ≤ s.mag then some (0, s.mag) else some (j + 1, m)

theorem maxLoop_eq_best (rest : List Seg) (found : Bool) (mx : Int) (index i : Nat) :
    maxLoop found mx index i rest =
      match best rest with
      | none => (found, index)
      | some (j, m) => if found = false ∨ m > mx then (true, i + j) else (found, index) := by
  induction rest generalizing found mx index i with
  | nil => simp [maxLoop, best]
  | cons s rest ih =>
    simp only [maxLoop, best]
    by_cases hc : counts s = true
    · simp only [hc, Bool.not_true, Bool.false_eq_true, if_false, true_and]
      cases found with
      | false =>
        simp only [Bool.not_false, if_true]
        rw [ih]
        cases hb : best rest with
        | none => simp
        | some jm =>
          obtain ⟨j, m⟩ := jm
          simp only [Bool.true_eq_false, false_or]
          by_cases hm : m ≤ s.mag
          · have : ¬ m > s.mag := by omega
            simp [hm, this]
          · have : m > s.mag := by omega
            simp only [hm, this, if_true, if_false, true_or]
            refine Prod.ext rfl ?_
            simp; omega
      | true =>
        simp only [Bool.not_true, Bool.false_eq_true, if_false]
        by_cases hgt : s.mag > mx
        · simp only [hgt, if_true]
          rw [ih]
          cases hb : best rest with
          | none => simp [hgt]
          | some jm =>
            obtain ⟨j, m⟩ := jm
            simp only [Bool.true_eq_false, false_or]
            by_cases hm : m ≤ s.mag
            · have : ¬ m > s.mag := by omega
              simp [hm, this, hgt]
            · have h1 : m > s.mag := by omega
              have h2 : m > mx := by omega
              simp only [hm, h1, h2, if_true, if_false]
              refine Prod.ext rfl ?_
              simp; omega
        · simp only [hgt, if_false]
          rw [ih]
          cases hb : best rest with
          | none => simp [hgt]
          | some jm =>
            obtain ⟨j, m⟩ := jm
            simp only [Bool.true_eq_false, false_or]
            by_cases hm : m ≤ s.mag
            · have : ¬ m > mx := by omega
              simp [hm, this, hgt]
            · simp only [hm, if_false]
              by_cases h2 : m > mx
              · simp only [h2, if_true]
                refine Prod.ext rfl ?_
                simp; omega
              · simp [h2]
    · have hc' : counts s = false := by cases h : counts s <;> simp_all
      simp only [hc', Bool.not_false, if_true, Bool.false_eq_true, false_and, if_false]
      rw [ih]
      cases hb : best rest with
      | none => simp
      | some jm =>
        obtain ⟨j, m⟩ := jm
        simp only []
        by_cases h : found = false ∨ m > mx
        · simp only [h, if_true]
          refine Prod.ext rfl ?_
          simp; omega
        · simp [h]

theorem best_none (segs : List Seg) (h : best segs = none) : ∀ s ∈ segs, counts s = false := by
  induction segs with
  | nil => simp
  | cons s rest ih =>
    simp only [best] at h
    cases hb : best rest with
    | none =>
      rw [hb] at h
      simp only [] at h
      by_cases hc : counts s = true
      · simp [hc] at h
      · intro x hx
        rcases List.mem_cons.mp hx with rfl | hx
        · cases h' : counts x <;> simp_all
        · exact ih hb x hx
    | some jm =>
      obtain ⟨j, m⟩ := jm
      rw [hb] at h
      simp only [] at h
      split at h <;> cases h

/-- The first maximal counted segment. -/
def IsFirstMax (segs : List Seg) (j : Nat) (m : Int) : Prop :=
  (∃ s, segs[j]? = some s ∧ counts s = true ∧ s.mag = m) ∧
  (∀ (k : Nat) s', segs[k]? = some s' → counts s' = true → s'.mag ≤ m) ∧
  (∀ (k : Nat) s', k < j → segs[k]? = some s' → counts s' = true → s'.mag < m)

theorem best_some (segs : List Seg) (j : Nat) (m : Int) (h : best segs = some (j, m)) :
    IsFirstMax segs j m := by
  induction segs generalizing j m with
  | nil => simp [best] at h
  | cons s rest ih =>
    simp only [best] at h
    cases hb : best rest with
    | none =>
      rw [hb] at h
      simp only [] at h
      have hn := best_none rest hb
      by_cases hc : counts s = true
      · simp only [hc, if_true, Option.some.injEq, Prod.mk.injEq] at h
        obtain ⟨rfl, rfl⟩ := h
        refine ⟨⟨s, by simp, hc, rfl⟩, fun k s' hk hcs => ?_, fun k s' hk => by omega⟩
        cases k with
        | zero => simp at hk; subst hk; omega
        | succ k =>
          rw [List.getElem?_cons_succ] at hk
          have := hn s' (List.mem_of_getElem? hk)
          rw [this] at hcs; cases hcs
      · simp [hc] at h
    | some jm =>
      obtain ⟨j', m'⟩ := jm
      rw [hb] at h
      simp only [] at h
      obtain ⟨⟨s0, hs0, hc0, hm0⟩, hall, hfirst⟩ := ih j' m' hb
      by_cases hc : counts s = true ∧ m' ≤ s.mag
      · simp only [hc, and_self, if_true, Option.some.injEq, Prod.mk.injEq] at h
        obtain ⟨rfl, rfl⟩ := h
        refine ⟨⟨s, by simp, hc.1, rfl⟩, fun k s' hk hcs => ?_, fun k s' hk => by omega⟩
        cases k with
        | zero => simp at hk; subst hk; omega
        | succ k =>
          rw [List.getElem?_cons_succ] at hk
          have := hall k s' hk hcs
          omega
      · simp only [hc, if_false, Option.some.injEq, Prod.mk.injEq] at h
        obtain ⟨rfl, rfl⟩ := h
        refine ⟨⟨s0, by rw [List.getElem?_cons_succ]; exact hs0, hc0, hm0⟩, fun k s' hk hcs => ?_,
          fun k s' hkj hk hcs => ?_⟩
        · cases k with
          | zero =>
            simp at hk; subst hk
            have : ¬ m' ≤ _ := fun hh => hc ⟨hcs, hh⟩
            omega
          | succ k =>
            rw [List.getElem?_cons_succ] at hk
            exact hall k s' hk hcs
        · cases k with
          | zero =>
            simp at hk; subst hk
            have : ¬ m' ≤ _ := fun hh => hc ⟨hcs, hh⟩
            omega
          | succ k =>
            rw [List.getElem?_cons_succ] at hk
            exact hfirst k s' (by omega) hk hcs

theorem maxIdx_eq (segs : List Seg) :
    maxIdx segs = match best segs with
      | none => segs.length
      | some (j, _) => j := by
  unfold maxIdx
  simp only [maxLoop_eq_best]
  cases hb : best segs with
  | none => simp
  | some jm => obtain ⟨j, m⟩ := jm; simp

end ScVerif.C18
