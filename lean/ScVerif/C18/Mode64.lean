import ScVerif.C18.Mode
import ScVerif.C18.Seg64
/-!
# C18 — the mode operations as compiled: `time.Time.Sub` saturates, durations are `int64`

`Mode.lean` subtracts instants as unbounded integers.  The Go code computes `t.Sub(st)`, a
`time.Duration`: the difference SATURATED at ±(2^63−1)/−2^63 ns (≈ ±292 years; valid `Timestamp`s span
0001–9999, so the saturation is reachable with valid start times), and then calls the segment
functions, which add durations in 64 bits (`Seg64.lean`).  Comparisons of instants (`t.After(st)`,
`st.Before(earliest)`) and `Time.Add` are exact.  This file repeats the mode operations with `sat64` and
the 64-bit segment functions exactly where the code has them; the driver executes THESE versions.
`Mode64Lemmas`/`PropsSat`: the reading operations are right for every pair of instants however far
apart (saturation is harmless for them); `Cut`/`Sum` equal the unbounded versions while the span stays
below 2^63 ns, and the behaviour beyond is pinned by witnesses.
-/
namespace ScVerif.C18

/-- `time.Time.Sub` on instants given in ns: the difference, saturated to the `int64` range. -/
def sat64 (x : Int) : Int :=
  if x < -two63 then -two63 else if x ≥ two63 then two63 - 1 else x

def modeActiveAt64 (t : Int) (m : Mode) : Int × Nat := activeAt64 (sat64 (t - tOrST t m)) m.segs

def modeMagnitudeAt64 (t : Int) (m : Mode) : Int × Bool := magnitudeAt64 (sat64 (t - tOrST t m)) m.segs

def modeMaxSegmentAfter64 (t : Int) (m : Mode) : Nat := maxAfter64 (sat64 (t - tOrST t m)) m.segs

/-- `modepb.Cut` as compiled (`t.After(st)`/`t.Before(st)` compare instants exactly; `d := t.Sub(st)`
saturates; `d - elapsed` is an `int64` subtraction). -/
def modeCut64 (t : Int) (m : Mode) : ModeCutResult :=
  if m.segs.length = 0 then ⟨some m, some m, true⟩
  else
    let st := tOrST t m
    if ¬ (t > st) then ⟨none, some m, decide (t < st)⟩
    else
      let d := sat64 (t - st)
      let ei := activeAt64 d m.segs
      if ei.2 = m.segs.length then ⟨some m, none, true⟩
      else
        match m.segs[ei.2]? with
        | none => ⟨none, none, true⟩
        | some s =>
          let c := cutSeg (wrap (d - ei.1)) s
          let before : Mode :=
            match c.before with
            | none => ⟨m.start, m.segs.take ei.2⟩
            | some sb => ⟨m.start, m.segs.take ei.2 ++ [sb]⟩
          let after : Mode :=
            match c.after with
            | none => ⟨some t, m.segs.drop (ei.2 + 1)⟩
            | some sa => ⟨some t, sa :: m.segs.drop (ei.2 + 1)⟩
          ⟨some before, some after, false⟩

/-- A mode whose segment list may hold Go `nil` elements (what `segmentpb.Shift` can return once its
arithmetic has overflowed). -/
structure ModeN where
  start : Option Int
  segs : List (Option Seg)
deriving Repr, DecidableEq

/-- `modepb.Shift` as compiled (`AsTime().Add(d)` is exact). -/
def modeShift64 (d : Int) (m : Mode) : ModeN :=
  if d = 0 then ⟨m.start, m.segs.map some⟩
  else
    match m.start with
    | none => ⟨none, shift64 d m.segs⟩
    | some s => ⟨some (s + d), m.segs.map some⟩

/-- Second loop of `modepb.Sum` as compiled: `diff := st.Sub(earliest)` saturates.  `diff ≥ 0`, and for
`d ≥ 0` `Shift` never stores a `nil` element (`Mode64Lemmas.shift64_pos_all_some`), so dropping the
`Option` loses nothing. -/
def alignLoop64 (earliest latest : Int) : List Mode → List (List Seg)
  | [] => []
  | m :: ms =>
    let st := m.start.getD latest
    (shift64 (sat64 (st - earliest)) m.segs).filterMap id :: alignLoop64 earliest latest ms

/-- `modepb.Sum` as compiled. -/
def modeSum64 (ms : List Mode) : Option Mode :=
  match ms with
  | [] => none
  | _ =>
    match startsLoop none none ms with
    | (some earliest, some latest) =>
      some ⟨some earliest, sum64 (alignLoop64 earliest latest ms)⟩
    | _ => some ⟨none, sum64 (ms.map (·.segs))⟩

/-- `modepb.MinAt` as compiled. -/
def minAtLoop64 (t : Int) : Option (Nat × Int) → Nat → List Mode → Option (Nat × Int)
  | cur, _, [] => cur
  | cur, i, m :: ms =>
    let mag := (modeMagnitudeAt64 t m).1
    match cur with
    | none => minAtLoop64 t (some (i, mag)) (i + 1) ms
    | some (j, g) =>
      if mag < g then minAtLoop64 t (some (i, mag)) (i + 1) ms
      else minAtLoop64 t (some (j, g)) (i + 1) ms

def modeMinAt64 (t : Int) (ms : List Mode) : Option (Nat × Int) := minAtLoop64 t none 0 ms

end ScVerif.C18
