import ScVerif.C18.SumLemmas
import ScVerif.C18.MaxLemmas
import ScVerif.C18.Heap
/-!
# C18 — property theorems, part 2: electric segment operations

Property (fixed text): "Electric segment and mode operations (active-at, magnitude-at, duration, max,
cut, shift, sum) commute with reading a segment list as a step function of time (sum is pointwise
addition, shift is translation, cut splits without changing the function) and never modify their
arguments."

`den segs t` (Seg.lean) is the step function: the magnitude at `t` ns after the start of the list,
`0` before the start, after the end and wherever no segment is active; `covered segs t` is its
support.  All theorems quantify over every segment list, every instant and every offset; the only
hypothesis used anywhere is that lengths are non-negative (`NonNeg`, what a real
`durationpb.Duration` length of a segment is), and only where the code needs it.

Only property theorems and their non-vacuity examples live in this file.  The mode operations are in
PropsMode.lean.  "Never modify their arguments" is a statement about Go heap cells; the model's
operations are pure functions, so there is nothing to prove about it in Lean that would not be
vacuous: that clause is decided on the real code by the monitor (deep comparison of every argument,
including the spare capacity of argument slices, before and after each call).  The exception is
`Sum`, the only operation that updates cells in place: `C18_args_unchanged_sum` proves on an explicit
heap model of its loop that only cells allocated by the loop itself are written.
-/
namespace ScVerif.C18

/-- `MagnitudeAt(d, segs)` is the step function at `d`, and `ok` is exactly "some segment is active
at `d`" (where the step function is `0` by definition).  No hypothesis. -/
theorem C18_magnitudeAt (d : Int) (segs : List Seg) :
    magnitudeAt d segs = (den segs d, covered segs d) ∧
    ((magnitudeAt d segs).2 = false → (magnitudeAt d segs).1 = 0) := by
  refine ⟨magnitudeAt_eq d segs, ?_⟩
  rw [magnitudeAt_eq]
  exact den_of_not_covered segs d

/-- `ActiveAt(d, segs) = (elapsed, index)` for `d ≥ 0`: `elapsed` is the total length of the segments
before `index`, it does not exceed `d`, `index` is in range exactly when `d` lies in the support, the
segment at `index` is the one the step function takes its value from and `d` lies before its end, and
every earlier segment has a length.  For `d < 0` the documented `(d, 0)`.  No hypothesis. -/
theorem C18_activeAt (d : Int) (segs : List Seg) :
    (d < 0 → activeAt d segs = (d, 0)) ∧
    (0 ≤ d →
      (activeAt d segs).1 = lenSum (segs.take (activeAt d segs).2) ∧
      (activeAt d segs).1 ≤ d ∧
      (activeAt d segs).2 ≤ segs.length ∧
      (covered segs d = true ↔ (activeAt d segs).2 < segs.length) ∧
      (∀ s, segs[(activeAt d segs).2]? = some s →
        den segs d = s.mag ∧ ∀ l, s.len = some l → d < (activeAt d segs).1 + l) ∧
      (∀ s ∈ segs.take (activeAt d segs).2, s.len ≠ none)) := by
  constructor
  · intro h; simp [activeAt, h]
  · intro h
    have hn : ¬ d < 0 := by omega
    simp only [activeAt, hn, if_false]
    exact activeAtLoop_spec segs d h

/-- `Duration(segs) = (total, infinite)` describes the support of the step function: a segment is
active at `t` iff `0 ≤ t` and (`infinite` or `t < total`). -/
theorem C18_duration (segs : List Seg) (h : NonNeg segs) (t : Int) :
    covered segs t = true ↔ 0 ≤ t ∧ ((duration segs).2 = true ∨ t < (duration segs).1) :=
  covered_iff_duration segs h t

/-- `Max(segs)` as documented: the index of the largest magnitude among the segments whose length
is absent or positive (the first such index), and `len(segs)` iff there is no such segment;
`MaxMagnitude` is that magnitude, or `0`.  No hypothesis. -/
theorem C18_max (segs : List Seg) :
    (∀ s, segs[maxIdx segs]? = some s →
      counts s = true ∧ maxMagnitude segs = s.mag ∧
      (∀ (k : Nat) s', segs[k]? = some s' → counts s' = true → s'.mag ≤ s.mag) ∧
      (∀ (k : Nat) s', k < maxIdx segs → segs[k]? = some s' → counts s' = true → s'.mag < s.mag)) ∧
    (segs[maxIdx segs]? = none →
      maxIdx segs = segs.length ∧ maxMagnitude segs = 0 ∧ ∀ s ∈ segs, counts s = false) := by
  have hm := maxIdx_eq segs
  cases hb : best segs with
  | none =>
    rw [hb] at hm
    simp only [] at hm
    refine ⟨fun s hs => ?_, fun _ => ⟨hm, ?_, best_none segs hb⟩⟩
    · rw [hm] at hs; simp at hs
    · unfold maxMagnitude; rw [hm]; simp
  | some jm =>
    obtain ⟨j, m⟩ := jm
    rw [hb] at hm
    simp only [] at hm
    obtain ⟨⟨s0, hs0, hc0, hm0⟩, hall, hfirst⟩ := best_some segs j m hb
    rw [hm]
    refine ⟨fun s hs => ?_, fun hn => ?_⟩
    · rw [hs0] at hs
      cases hs
      refine ⟨hc0, ?_, fun k s' hk hc => by rw [hm0]; exact hall k s' hk hc,
        fun k s' hkj hk hc => by rw [hm0]; exact hfirst k s' hkj hk hc⟩
      unfold maxMagnitude; rw [hm, hs0]
    · rw [hs0] at hn; cases hn

/-- `MaxAfter(d, segs)` is `Max` of the segments from the one active at `d` on, re-based. -/
theorem C18_maxAfter (d : Int) (segs : List Seg) :
    ∀ s, segs[maxAfter d segs]? = some s →
      counts s = true ∧ (activeAt d segs).2 ≤ maxAfter d segs ∧
      (∀ (k : Nat) s', (activeAt d segs).2 ≤ k → segs[k]? = some s' → counts s' = true → s'.mag ≤ s.mag) := by
  intro s hs
  unfold maxAfter at hs ⊢
  simp only [] at hs ⊢
  have hdrop : (segs.drop (activeAt d segs).2)[maxIdx (segs.drop (activeAt d segs).2)]? = some s := by
    rw [List.getElem?_drop, Nat.add_comm]; exact hs
  obtain ⟨hc, _, hall, _⟩ := (C18_max (segs.drop (activeAt d segs).2)).1 s hdrop
  refine ⟨hc, by omega, fun k s' hik hk hcs => ?_⟩
  refine hall (k - (activeAt d segs).2) s' ?_ hcs
  rw [List.getElem?_drop]
  have : (activeAt d segs).2 + (k - (activeAt d segs).2) = k := by omega
  rw [this]; exact hk

/-- `SumMagnitude(segs)` is the plain total of the magnitudes: additive over concatenation and
independent of the order of the segments (it does not read lengths, so it is not the area under
the step function). -/
theorem C18_sumMagnitude (a b : List Seg) :
    sumMagnitude (a ++ b) = sumMagnitude a + sumMagnitude b ∧
    sumMagnitude a = (a.map (·.mag)).sum ∧
    (a.Perm b → sumMagnitude a = sumMagnitude b) := by
  refine ⟨?_, ?_, ?_⟩
  · induction a with
    | nil => simp [sumMagnitude]
    | cons s rest ih => simp only [List.cons_append, sumMagnitude, ih]; omega
  · induction a with
    | nil => rfl
    | cons s rest ih => simp only [sumMagnitude, List.map_cons, List.sum_cons, ih]
  · intro h
    induction h with
    | nil => rfl
    | cons x _ ih => simp only [sumMagnitude, ih]
    | swap x y l => simp only [sumMagnitude]; omega
    | trans _ _ ih1 ih2 => rw [ih1, ih2]

/-- `Cut(d, seg)` for `d ≥ 0` splits the segment's step function at `d` without changing it:
`before` equals it before `d` and is `0` from `d` on, `after` is it translated left by `d`.
For `d < 0` the documented `(nil, segment)` (flagged outside).  No hypothesis. -/
theorem C18_cut (d : Int) (s : Seg) :
    (0 ≤ d →
      (∀ t, t < d → denOpt (cutSeg d s).before t = den [s] t) ∧
      (∀ t, d ≤ t → denOpt (cutSeg d s).before t = 0) ∧
      (∀ t, 0 ≤ t → denOpt (cutSeg d s).after t = den [s] (t + d))) ∧
    (d < 0 → cutSeg d s = ⟨none, some s, true⟩) :=
  ⟨cutSeg_spec d s, cutSeg_neg d s⟩

/-- `Shift(d, segs)` is translation by `d` on the half line `t ≥ 0`: to the right for `d > 0`
(so the function is `0` on `[0, d)`), to the left for `d < 0` (whatever moves before `0` is cut off). -/
theorem C18_shift (d : Int) (segs : List Seg) (h : NonNeg segs) (t : Int) :
    den (shift d segs) t = if t < 0 then 0 else den segs (t - d) :=
  shift_spec d segs h t

/-- For `d ≥ 0` the translation law needs no case distinction. -/
theorem C18_shift_right (d : Int) (segs : List Seg) (h : NonNeg segs) (hd : 0 ≤ d) (t : Int) :
    den (shift d segs) t = den segs (t - d) := by
  rw [shift_spec d segs h t]
  by_cases ht : t < 0
  · simp only [ht, if_true]
    exact (den_neg _ _ (by omega)).symm
  · simp [ht]

/-- Where the negative branch of `Shift` stores `Cut`'s `after` into `out[0]`, `after` is never `nil`
(the model's stand-in `nilSeg` for a nil list element is never used). -/
theorem C18_shift_no_nil_element (D cur : Int) (s : Seg) (l : Int) (hs : s.len = some l)
    (h : cur + l > D) : (cutSeg (D - cur) s).after.isSome = true :=
  shiftNegLoop_after_isSome D cur s l hs h

/-- `Sum` is pointwise addition: the step function of `Sum(lists...)` is the sum of the step
functions of the lists, at every instant, for all lists with non-negative lengths — full strength,
for the code after `fix:` 5957697 (the trailing open segment is dropped only when it is zero or no
input is unbounded). -/
theorem C18_sum (ls : List (List Seg)) (h : AllNonNeg ls) (t : Int) :
    den (sum ls) t = denSum ls t :=
  sumEdges_den_full ls h (calcCuts ls) (sortEdges_perm _) (sortEdges_sorted _) t

/-- For the record, the rule before the fix (`last.Magnitude <= 0`, model `sumLegacy`) was pointwise
addition everywhere except from the last edge on when the length-less tails summed to a negative
magnitude, where it gave `0` … -/
theorem C18_sum_legacy_exact (ls : List (List Seg)) (h : AllNonNeg ls) (t : Int) :
    den (sumLegacy ls) t =
      if tailSum ls ≤ 0 ∧ 0 ≤ t ∧ (∀ e ∈ rawEdges ls, e.time ≤ t) then 0 else denSum ls t := by
  have := sumEdges_den dropRuleLegacy (by decide) ls h (calcCuts ls) (sortEdges_perm _) (sortEdges_sorted _) t
  simpa [dropRuleLegacy, sumLegacy] using this

/-- … so `[2 for 2ns, -3 forever] + [1 for 4ns]` was `0` at `t = 4` where pointwise addition gives `-3`
(the defect `C18/Sum/negative-infinite-tail-dropped`, repaired), and the repaired `Sum` gives `-3`. -/
theorem C18_sum_legacy_fails :
    den (sumLegacy [[⟨2, some 2⟩, ⟨-3, none⟩], [⟨1, some 4⟩]]) 4 = 0 ∧
    denSum [[⟨2, some 2⟩, ⟨-3, none⟩], [⟨1, some 4⟩]] 4 = -3 ∧
    den (sum [[⟨2, some 2⟩, ⟨-3, none⟩], [⟨1, some 4⟩]]) 4 = -3 := by
  refine ⟨by decide, by decide, by decide⟩

/-- `sort.Slice` is not a stable sort.  Whatever time-sorted arrangement of the edges it produces,
the segment list built from it is the one the model computes with its stable insertion sort:
integer addition commutes, so the order among equal-time edges is irrelevant. -/
theorem C18_sum_any_sort (ls : List (List Seg)) (es : List Edge)
    (hp : es.Perm (rawEdges ls)) (hs : SortedT es) :
    sumEdges (dropRule (anyInfinite ls)) es = sum ls :=
  sumEdges_order_irrelevant _ es (calcCuts ls) (hp.trans (sortEdges_perm _).symm) hs (sortEdges_sorted _)

/-- The literal rendering of the loop of `Sum` (a slice appended to, its last element updated in
place, then trimmed — `sumGo`, the version the driver executes against the real code) computes the
same list as the functional form `sum` all theorems above are stated about. -/
theorem C18_sum_go_loop (ls : List (List Seg)) : sumGo ls = sum ls :=
  sumGoEdges_eq _ (calcCuts ls)

/-- "Never modify their arguments", for the one operation that updates memory in place: run on an
explicit heap of segment cells, from ANY initial heap `H0` (holding the argument cells), the loop of
`Sum` leaves every cell of `H0` as it was — it only appends cells and updates cells it appended; the
`result` slice holds exactly the appended addresses, and those cells hold the list the pure
rendering of the loop computes.  (All other operations only allocate and fill what they allocated;
on the real code the monitor deep-compares every argument before/after every call.) -/
theorem C18_args_unchanged_sum (H0 : List Seg) (cuts : List Edge) :
    (cuts.foldl heapStep ⟨H0, [], 0⟩).heap = H0 ++ (cuts.foldl sumGoStep ([], 0)).1 ∧
    (cuts.foldl heapStep ⟨H0, [], 0⟩).result =
      addrsFrom H0.length (cuts.foldl sumGoStep ([], 0)).1.length ∧
    (∀ i, i < H0.length → (cuts.foldl heapStep ⟨H0, [], 0⟩).heap[i]? = H0[i]?) := by
  have h := heapLoop_inv H0 cuts [] ⟨H0, [], 0⟩ ⟨by simp, rfl⟩
  obtain ⟨h1, h2⟩ := h
  refine ⟨h1, h2, fun i hi => ?_⟩
  rw [h1, List.getElem?_append_left hi]

/-! Non-vacuity: lists with zero-length, finite and length-less segments satisfy `NonNeg`; the
operations take non-trivial values on them, negative magnitudes and negative unbounded tails included. -/
example : NonNeg [⟨2, some 2⟩, ⟨5, some 0⟩, ⟨-3, none⟩] := nonNeg_of_all _ (by decide)
example : AllNonNeg [[⟨2, some 2⟩, ⟨-3, some 1⟩, ⟨-1, none⟩], [⟨-1, some 4⟩]] := by
  intro l hl
  simp only [List.mem_cons, List.not_mem_nil, or_false] at hl
  rcases hl with rfl | rfl <;> exact nonNeg_of_all _ (by decide)
example : sum [[⟨2, some 2⟩, ⟨-3, some 1⟩, ⟨-1, none⟩], [⟨-1, some 4⟩]]
    = [⟨1, some 2⟩, ⟨-4, some 1⟩, ⟨-2, some 1⟩, ⟨-1, none⟩] := by decide
example : sum [[⟨2, some 2⟩, ⟨0, none⟩]] = [⟨2, some 2⟩] := by decide
example : sum [[⟨2, some 2⟩, ⟨-3, some 1⟩, ⟨1, none⟩], [⟨-1, some 4⟩]]
    = [⟨1, some 2⟩, ⟨-4, some 1⟩, ⟨0, some 1⟩, ⟨1, none⟩] := by decide
example : magnitudeAt 2 [⟨2, some 2⟩, ⟨5, some 0⟩, ⟨-3, none⟩] = (-3, true) := by decide
example : magnitudeAt 7 [⟨2, some 2⟩, ⟨5, some 3⟩] = (0, false) := by decide
example : maxIdx [⟨9, some 0⟩, ⟨2, some 2⟩, ⟨5, some 3⟩, ⟨5, none⟩] = 2 := by decide
example : shift (-3) [⟨1, some 2⟩, ⟨2, some 2⟩, ⟨3, none⟩] = [⟨2, some 1⟩, ⟨3, none⟩] := by decide
example : shift 3 [⟨0, some 2⟩, ⟨2, some 2⟩] = [⟨0, some 5⟩, ⟨2, some 2⟩] := by decide
example : cutSeg 2 ⟨5, some 3⟩ = ⟨some ⟨5, some 2⟩, some ⟨5, some 1⟩, false⟩ := by decide

end ScVerif.C18
