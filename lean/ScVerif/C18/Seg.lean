/-
C18 (part 2) — model of `pkg/trait/electricpb/segmentpb`: `ActiveAt`, `MagnitudeAt`, `Duration`,
`Max`, `MaxMagnitude`, `MaxAfter`, `SumMagnitude`, `Cut`, `Shift`, `Sum` (with `calcCuts`).

The definitions follow the Go code loop by loop.  A segment is `(magnitude, optional length)`:
lengths are integer nanoseconds (`time.Duration`), an absent length is the Go `Length == nil`
("infinite").  Magnitudes are integers (numerators over a fixed power-of-two denominator): the Go field is
a `float32`; `F32.lean` models the float32 additions of `Sum`/`SumMagnitude` (tied to Go's arithmetic by the
driver) and `PropsFloat` proves that below 2^24 units nothing is rounded, so this exact model IS the float
code there; the correspondence check feeds such magnitudes here and rounding ones to the float rendering.
Durations are unbounded integers here; `Seg64.lean` repeats every duration computation with 64-bit
wrap-around (what the driver runs) and `PropsInt64` relates the two.  The `Shape` oneof is looked at by `Cut`
only (`Shape.lean`, `PropsShape`: it never influences a magnitude or length; `Sum` ignores it by its own
comment); `ShapeOps.lean` follows it (and the non-timing fields of a mode) through every operation that carries
segments along.

The *specification* the operations are compared with is `den`: a segment list read as a step
function of time.  It is defined at the end of this file, independently of the operations.
-/
namespace ScVerif.C18

structure Seg where
  mag : Int
  len : Option Int
deriving Repr, DecidableEq

/-! ## active.go -/

/-- The loop of `ActiveAt`: `cur` is the running total, `i` the index of the head of the list. -/
def activeAtLoop (d : Int) : Int → Nat → List Seg → Int × Nat
  | cur, i, [] => (cur, i)
  | cur, i, s :: rest =>
    match s.len with
    | none => (cur, i)
    | some l => if cur + l > d then (cur, i) else activeAtLoop d (cur + l) (i + 1) rest

/-- `ActiveAt(d, segments...) (elapsed, index)`. -/
def activeAt (d : Int) (segs : List Seg) : Int × Nat :=
  if d < 0 then (d, 0) else activeAtLoop d 0 0 segs

/-! ## magnitude.go -/

/-- `MagnitudeAt(d, segments...) (level, ok)`. -/
def magnitudeAt (d : Int) (segs : List Seg) : Int × Bool :=
  if d < 0 then (0, false)
  else
    match segs[(activeAt d segs).2]? with
    | none => (0, false)
    | some s => (s.mag, true)

/-- The `continue` condition of `Max` negated: the segment is counted (length absent or positive). -/
def counts (s : Seg) : Bool :=
  match s.len with
  | none => true
  | some l => decide (l > 0)

/-- The loop of `Max`: state `(found, max, index)`, `i` the index of the head of the list. -/
def maxLoop : Bool → Int → Nat → Nat → List Seg → Bool × Nat
  | found, _, index, _, [] => (found, index)
  | found, mx, index, i, s :: rest =>
    if !counts s then maxLoop found mx index (i + 1) rest
    else if !found then maxLoop true s.mag i (i + 1) rest
    else if s.mag > mx then maxLoop true s.mag i (i + 1) rest
    else maxLoop found mx index (i + 1) rest

/-- `Max(segments...) index`. -/
def maxIdx (segs : List Seg) : Nat :=
  let r := maxLoop false 0 0 0 segs
  if !r.1 then segs.length else r.2

/-- `MaxMagnitude(segments...)`. -/
def maxMagnitude (segs : List Seg) : Int :=
  match segs[maxIdx segs]? with
  | some s => s.mag
  | none => 0

/-- `MaxAfter(d, segments...)`: `Max(segments[i:]...) + i` with `i` from `ActiveAt`. -/
def maxAfter (d : Int) (segs : List Seg) : Nat :=
  let i := (activeAt d segs).2
  maxIdx (segs.drop i) + i

/-- `SumMagnitude`. -/
def sumMagnitude : List Seg → Int
  | [] => 0
  | s :: rest => s.mag + sumMagnitude rest

/-! ## duration.go -/

def durationLoop : Int → List Seg → Int × Bool
  | total, [] => (total, false)
  | total, s :: rest =>
    match s.len with
    | none => (total, true)
    | some l => durationLoop (total + l) rest

/-- `Duration(s...) (total, infinite)`. -/
def duration (segs : List Seg) : Int × Bool := durationLoop 0 segs

/-! ## cut.go -/

structure CutResult where
  before : Option Seg
  after : Option Seg
  outside : Bool
deriving Repr, DecidableEq

/-- `Cut(d, segment) (before, after, outside)`; `none` is the Go `nil` segment. -/
def cutSeg (d : Int) (s : Seg) : CutResult :=
  if d ≤ 0 then ⟨none, some s, decide (d < 0)⟩
  else
    match s.len with
    | none => ⟨some ⟨s.mag, some d⟩, some s, false⟩
    | some l =>
      if l ≤ d then ⟨some s, none, true⟩
      else ⟨some ⟨s.mag, some d⟩, some ⟨s.mag, some (l - d)⟩, false⟩

/-! ## shift.go -/

/-- The stand-in for a Go `nil` list element.  `shiftNegLoop` would store `after == nil` in
`out[0]` if `Cut` returned no `after`; lemma `shiftNegLoop_after_isSome` shows this never happens. -/
def nilSeg : Seg := ⟨0, none⟩

/-- The loop of the negative branch of `Shift` (`d` already negated, so `d > 0`). -/
def shiftNegLoop (d : Int) : Int → List Seg → List Seg
  | _, [] => []
  | cur, s :: rest =>
    match s.len with
    | none => s :: rest
    | some l =>
      if cur + l > d then ((cutSeg (d - cur) s).after.getD nilSeg) :: rest
      else shiftNegLoop d (cur + l) rest

/-- `Shift(d, segments...)`. -/
def shift (d : Int) (segs : List Seg) : List Seg :=
  if d = 0 then segs
  else
    match segs with
    | [] => []
    | first :: rest =>
      if d > 0 then
        if first.mag = 0 then
          match first.len with
          | none => first :: rest
          | some l => ⟨first.mag, some (l + d)⟩ :: rest
        else ⟨0, some d⟩ :: first :: rest
      else shiftNegLoop (-d) 0 (first :: rest)

/-! ## sum.go -/

/-- The Go `cut` struct of sum.go: a rising or falling edge. -/
structure Edge where
  time : Int
  delta : Int
deriving Repr, DecidableEq

/-- The inner loop of `calcCuts` for one slice, `cur` the running time. -/
def edgesOf : Int → List Seg → List Edge
  | _, [] => []
  | cur, s :: rest =>
    let rise := if s.mag ≠ 0 then [Edge.mk cur s.mag] else []
    match s.len with
    | none => rise
    | some l =>
      rise ++ (if s.mag ≠ 0 then [Edge.mk (cur + l) (-s.mag)] else []) ++ edgesOf (cur + l) rest

/-- All edges in append order (outer loop of `calcCuts`, before sorting). -/
def rawEdges : List (List Seg) → List Edge
  | [] => []
  | l :: ls => edgesOf 0 l ++ rawEdges ls

/-- Insert `e` after every element whose time is `≤ e.time` (what the inner loop of an insertion
sort with `less(i,j) = cuts[i].at < cuts[j].at` does when run from the right end). -/
def insertEdge (e : Edge) : List Edge → List Edge
  | [] => [e]
  | x :: xs => if e.time < x.time then e :: x :: xs else x :: insertEdge e xs

/-- Stable insertion sort by time.  `sort.Slice` is *not* stable; `SumLemmas.sumEdges_order_irrelevant`
proves that the result of `Sum` does not depend on the order among equal-time edges, so any sort
yields the list computed from this one. -/
def sortEdges (es : List Edge) : List Edge := es.foldl (fun acc e => insertEdge e acc) []

/-- `calcCuts`. -/
def calcCuts (ls : List (List Seg)) : List Edge := sortEdges (rawEdges ls)

/-- `anyInfinite(segmentSlices)`: some list has a segment without a length (`Duration(slice...)`
reports `infinite`). -/
def anyInfinite (ls : List (List Seg)) : Bool := ls.any (fun l => (duration l).2)

/-- The rule of `Sum` for its open last element, as a predicate on that element's magnitude: it is
dropped iff `last.Magnitude == 0 || !anyInfinite(segmentSlices)`. -/
def dropRule (inf : Bool) (m : Int) : Bool := decide (m = 0) || !inf

/-- The rule before the `fix:` commit 5957697 (`last.Magnitude <= 0`), kept for the record:
`PropsSeg.C18_sum_legacy_fails`. -/
def dropRuleLegacy (m : Int) : Bool := decide (m ≤ 0)

/-- The main loop of `Sum` followed by its final trimming.  Loop invariant of the Go code: every
element of `result` but the last is final, and the last one has `Length == nil`; so the state is the
magnitude `mag` of that open last element plus `lastTime`, and completed elements are emitted.
`length == 0` adds to the open element; otherwise the open element is closed with `length` and a
new one is opened.  At the end the open element is dropped when `drop` says so. -/
def emit (drop : Int → Bool) : Int → Int → List Edge → List Seg
  | mag, _, [] => if drop mag then [] else [⟨mag, none⟩]
  | mag, lastTime, e :: es =>
    if e.time - lastTime = 0 then emit drop (mag + e.delta) lastTime es
    else ⟨mag, some (e.time - lastTime)⟩ :: emit drop (mag + e.delta) e.time es

/-- `Sum` applied to already computed cuts: with no cuts `result` stays `nil`; otherwise the first
iteration appends the zero segment and the loop proceeds as `emit` from `(0, 0)`. -/
def sumEdges (drop : Int → Bool) : List Edge → List Seg
  | [] => []
  | e :: es => emit drop 0 0 (e :: es)

/-- `Sum(segmentSlices...)`. -/
def sum (ls : List (List Seg)) : List Seg := sumEdges (dropRule (anyInfinite ls)) (calcCuts ls)

/-- `Sum` as it was before the fix. -/
def sumLegacy (ls : List (List Seg)) : List Seg := sumEdges dropRuleLegacy (calcCuts ls)

/-! ### `Sum`, literally

The same loop written exactly as in sum.go — `result` is a slice that is appended to and whose last
element is updated in place.  The driver runs THIS version (so the correspondence check ties the
literal rendering to the code); `SumLemmas.sumGoEdges_eq` proves it equal to `sumEdges`/`emit`,
which is what the theorems are stated about. -/

/-- `result[len(result)-1] = f(result[len(result)-1])`. -/
def updLast (f : Seg → Seg) : List Seg → List Seg
  | [] => []
  | [s] => [f s]
  | s :: t => s :: updLast f t

/-- `result[len(result)-1].Magnitude` (the slice is never empty where the code reads this). -/
def lastMagOf (result : List Seg) : Int :=
  match result.getLast? with
  | some last => last.mag
  | none => 0

/-- The trimming after the loop: drop the last element if it has no length and the rule says so. -/
def trimLast (drop : Int → Bool) (result : List Seg) : List Seg :=
  match result.getLast? with
  | some last => if last.len = none ∧ drop last.mag = true then result.dropLast else result
  | none => result

/-- One iteration of `for _, cut := range cuts` on the state `(result, lastTime)`. -/
def sumGoStep (st : List Seg × Int) (c : Edge) : List Seg × Int :=
  let length := c.time - st.2
  let result := if st.1.length = 0 then st.1 ++ [⟨0, none⟩] else st.1
  if length = 0 then
    (updLast (fun s => ⟨s.mag + c.delta, s.len⟩) result, st.2)
  else
    let lastMag := lastMagOf result
    (updLast (fun s => ⟨s.mag, some length⟩) result ++ [⟨lastMag + c.delta, none⟩], c.time)

/-- The whole of `Sum` after `calcCuts`: the loop, then the trimming of the last element. -/
def sumGoEdges (drop : Int → Bool) (cuts : List Edge) : List Seg :=
  trimLast drop (cuts.foldl sumGoStep ([], 0)).1

def sumGo (ls : List (List Seg)) : List Seg := sumGoEdges (dropRule (anyInfinite ls)) (calcCuts ls)

/-! ## Specification: a segment list as a step function of time -/

/-- The magnitude at time `t` (ns after the start of the list): `0` before the start; the first
segment's magnitude while `t` is within its length (always, if it has no length); otherwise whatever
the rest of the list says at `t - length`.  `0` after the end. -/
def den : List Seg → Int → Int
  | [], _ => 0
  | s :: rest, t =>
    if t < 0 then 0
    else
      match s.len with
      | none => s.mag
      | some l => if t < l then s.mag else den rest (t - l)

/-- Whether some segment is active at `t` (the support of the step function). -/
def covered : List Seg → Int → Bool
  | [], _ => false
  | s :: rest, t =>
    if t < 0 then false
    else
      match s.len with
      | none => true
      | some l => if t < l then true else covered rest (t - l)

/-- The step function of an optional single segment (`none` = the Go `nil` = nothing). -/
def denOpt : Option Seg → Int → Int
  | none, _ => 0
  | some s, t => den [s] t

/-- All lengths are non-negative (a `time.Duration` length of a real segment). -/
def NonNeg (segs : List Seg) : Prop := ∀ s ∈ segs, ∀ l, s.len = some l → 0 ≤ l

/-- Magnitude of the first length-less segment, `0` if there is none: the value of the step
function "at infinity". -/
def tailMag : List Seg → Int
  | [] => 0
  | s :: rest =>
    match s.len with
    | none => s.mag
    | some _ => tailMag rest

/-- Pointwise sum of the step functions of several lists. -/
def denSum : List (List Seg) → Int → Int
  | [], _ => 0
  | l :: ls, t => den l t + denSum ls t

def tailSum : List (List Seg) → Int
  | [] => 0
  | l :: ls => tailMag l + tailSum ls

end ScVerif.C18
