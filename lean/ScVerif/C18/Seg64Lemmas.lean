import ScVerif.C18.Seg64
import ScVerif.C18.ModeLemmas
/-! The 64-bit versions equal the unbounded ones while no intermediate result reaches 2^63. -/
namespace ScVerif.C18

theorem wrap_id (x : Int) (h1 : -two63 ≤ x) (h2 : x < two63) : wrap x = x := by
  unfold wrap; unfold two63 at h1 h2; omega

/-- Non-negative lengths whose total stays below 2^63 ns. -/
def Small (segs : List Seg) : Prop := NonNeg segs ∧ lenSum segs < two63

theorem lenSum_cons_some (s : Seg) (rest : List Seg) (l : Int) (hs : s.len = some l) :
    lenSum (s :: rest) = l + lenSum rest := by simp [lenSum, hs]

theorem two63_pos : (0 : Int) < two63 := by unfold two63; omega

theorem activeAtLoop64_eq (d : Int) (segs : List Seg) (cur : Int) (i : Nat) (hnn : NonNeg segs)
    (hc : 0 ≤ cur) (hs : cur + lenSum segs < two63) :
    activeAtLoop64 d cur i segs = activeAtLoop d cur i segs := by
  induction segs generalizing cur i with
  | nil => rfl
  | cons s rest ih =>
    cases hl : s.len with
    | none => simp [activeAtLoop64, activeAtLoop, hl]
    | some l =>
      have h0 := hnn.head l hl
      have hr := lenSum_nonneg rest hnn.tail
      rw [lenSum_cons_some s rest l hl] at hs
      have hw : wrap (cur + l) = cur + l := wrap_id _ (by have := two63_pos; omega) (by omega)
      simp only [activeAtLoop64, activeAtLoop, hl, hw]
      rw [ih (cur + l) (i + 1) hnn.tail (by omega) (by omega)]

theorem activeAt64_eq (d : Int) (segs : List Seg) (h : Small segs) :
    activeAt64 d segs = activeAt d segs := by
  unfold activeAt64 activeAt
  rw [activeAtLoop64_eq d segs 0 0 h.1 (Int.le_refl _) (by have := h.2; omega)]

theorem magnitudeAt64_eq (d : Int) (segs : List Seg) (h : Small segs) :
    magnitudeAt64 d segs = magnitudeAt d segs := by
  unfold magnitudeAt64 magnitudeAt
  rw [activeAt64_eq d segs h]
  split
  · rfl
  · cases segs[(activeAt d segs).2]? <;> rfl

theorem maxAfter64_eq (d : Int) (segs : List Seg) (h : Small segs) :
    maxAfter64 d segs = maxAfter d segs := by
  unfold maxAfter64 maxAfter
  rw [activeAt64_eq d segs h]

theorem durationLoop64_eq (segs : List Seg) (total : Int) (hnn : NonNeg segs)
    (hc : 0 ≤ total) (hs : total + lenSum segs < two63) :
    durationLoop64 total segs = durationLoop total segs := by
  induction segs generalizing total with
  | nil => rfl
  | cons s rest ih =>
    cases hl : s.len with
    | none => simp [durationLoop64, durationLoop, hl]
    | some l =>
      have h0 := hnn.head l hl
      have hr := lenSum_nonneg rest hnn.tail
      rw [lenSum_cons_some s rest l hl] at hs
      have hw : wrap (total + l) = total + l := wrap_id _ (by have := two63_pos; omega) (by omega)
      simp only [durationLoop64, durationLoop, hl, hw]
      exact ih (total + l) hnn.tail (by omega) (by omega)

theorem duration64_eq (segs : List Seg) (h : Small segs) : duration64 segs = duration segs :=
  durationLoop64_eq segs 0 h.1 (Int.le_refl _) (by have := h.2; omega)

theorem shiftNegLoop64_eq (D : Int) (segs : List Seg) (cur : Int) (hnn : NonNeg segs)
    (hc : 0 ≤ cur) (hcd : cur ≤ D) (hD : D < two63) (hs : cur + lenSum segs < two63) :
    shiftNegLoop64 D cur segs = (shiftNegLoop D cur segs).map some := by
  induction segs generalizing cur with
  | nil => rfl
  | cons s rest ih =>
    cases hl : s.len with
    | none => simp [shiftNegLoop64, shiftNegLoop, hl]
    | some l =>
      have h0 := hnn.head l hl
      have hr := lenSum_nonneg rest hnn.tail
      rw [lenSum_cons_some s rest l hl] at hs
      have hp := two63_pos
      have hw : wrap (cur + l) = cur + l := wrap_id _ (by omega) (by omega)
      have hw2 : wrap (D - cur) = D - cur := wrap_id _ (by omega) (by omega)
      simp only [shiftNegLoop64, shiftNegLoop, hl, hw, hw2]
      by_cases hgt : cur + l > D
      · simp only [hgt, if_true, List.map_cons]
        have hsome := shiftNegLoop_after_isSome D cur s l hl hgt
        cases hc : (cutSeg (D - cur) s).after with
        | none => rw [hc] at hsome; cases hsome
        | some a => simp
      · simp only [hgt, if_false]
        exact ih (cur + l) hnn.tail (by omega) (by omega) (by omega)

theorem shift64_eq (d : Int) (segs : List Seg) (h : Small segs) (hd : -two63 < d)
    (hsum : lenSum segs + d < two63) : shift64 d segs = (shift d segs).map some := by
  unfold shift64 shift
  by_cases hd0 : d = 0
  · simp [hd0]
  · simp only [hd0, if_false]
    cases segs with
    | nil => rfl
    | cons first rest =>
      have hp := two63_pos
      by_cases hpos : d > 0
      · simp only [hpos, if_true]
        by_cases hm : first.mag = 0
        · simp only [hm, if_true]
          cases hf : first.len with
          | none => rfl
          | some l =>
            have h0 := h.1.head l hf
            have hr := lenSum_nonneg rest h.1.tail
            rw [lenSum_cons_some first rest l hf] at hsum
            have hw : wrap (l + d) = l + d := wrap_id _ (by omega) (by omega)
            simp only [hw, List.map_cons]
        · simp [hm]
      · simp only [hpos, if_false]
        have hw : wrap (-d) = -d := wrap_id _ (by omega) (by omega)
        rw [hw]
        exact shiftNegLoop64_eq (-d) _ 0 h.1 (Int.le_refl _) (by omega) (by omega) (by have := h.2; omega)

theorem edgesOf64_eq (l : List Seg) (cur : Int) (hnn : NonNeg l) (hc : 0 ≤ cur)
    (hs : cur + lenSum l < two63) : edgesOf64 cur l = edgesOf cur l := by
  induction l generalizing cur with
  | nil => rfl
  | cons s rest ih =>
    cases hl : s.len with
    | none => simp [edgesOf64, edgesOf, hl]
    | some len =>
      have h0 := hnn.head len hl
      have hr := lenSum_nonneg rest hnn.tail
      rw [lenSum_cons_some s rest len hl] at hs
      have hw : wrap (cur + len) = cur + len := wrap_id _ (by have := two63_pos; omega) (by omega)
      simp only [edgesOf64, edgesOf, hl, hw]
      rw [ih (cur + len) hnn.tail (by omega) (by omega)]

theorem edgesOf_time_le (l : List Seg) (hnn : NonNeg l) (cur : Int) :
    ∀ e ∈ edgesOf cur l, e.time ≤ cur + lenSum l := by
  induction l generalizing cur with
  | nil => simp [edgesOf]
  | cons s rest ih =>
    intro e he
    have hr := lenSum_nonneg rest hnn.tail
    cases hl : s.len with
    | none =>
      have hall := lenSum_nonneg (s :: rest) hnn
      simp only [edgesOf, hl] at he
      split at he
      · simp at he; subst he; simp; omega
      · simp at he
    | some len =>
      have h0 := hnn.head len hl
      rw [lenSum_cons_some s rest len hl]
      simp only [edgesOf, hl, List.mem_append] at he
      rcases he with (he | he) | he
      · split at he
        · simp at he; subst he; simp; omega
        · simp at he
      · split at he
        · simp at he; subst he; simp; omega
        · simp at he
      · have := ih hnn.tail (cur + len) e he
        omega

/-- Every list is `Small`. -/
def AllSmall (ls : List (List Seg)) : Prop := ∀ l ∈ ls, Small l

theorem AllSmall.allNonNeg {ls : List (List Seg)} (h : AllSmall ls) : AllNonNeg ls :=
  fun l hl => (h l hl).1

theorem rawEdges64_eq (ls : List (List Seg)) (h : AllSmall ls) : rawEdges64 ls = rawEdges ls := by
  induction ls with
  | nil => rfl
  | cons l ls ih =>
    have hl := h l List.mem_cons_self
    simp only [rawEdges64, rawEdges]
    rw [edgesOf64_eq l 0 hl.1 (Int.le_refl _) (by have := hl.2; omega),
      ih (fun x hx => h x (List.mem_cons_of_mem _ hx))]

theorem rawEdges_time_lt (ls : List (List Seg)) (h : AllSmall ls) : ∀ e ∈ rawEdges ls, e.time < two63 := by
  induction ls with
  | nil => simp [rawEdges]
  | cons l ls ih =>
    intro e he
    have hl := h l List.mem_cons_self
    simp only [rawEdges, List.mem_append] at he
    rcases he with he | he
    · have := edgesOf_time_le l hl.1 0 e he
      have := hl.2
      omega
    · exact ih (fun x hx => h x (List.mem_cons_of_mem _ hx)) e he

theorem sumGoStep_snd (st : List Seg × Int) (c : Edge) :
    (sumGoStep st c).2 = st.2 ∨ (sumGoStep st c).2 = c.time := by
  unfold sumGoStep
  simp only []
  split
  · exact Or.inl rfl
  · exact Or.inr rfl

theorem sumGoFold64_eq (es : List Edge) (st : List Seg × Int) (hs : SortedT es)
    (hb : ∀ e ∈ es, st.2 ≤ e.time ∧ e.time < two63) (h0 : 0 ≤ st.2) :
    es.foldl sumGoStep64 st = es.foldl sumGoStep st := by
  induction es generalizing st with
  | nil => rfl
  | cons e es ih =>
    unfold SortedT at hs
    rw [List.pairwise_cons] at hs
    have he := hb e List.mem_cons_self
    have hp := two63_pos
    have hw : wrap (e.time - st.2) = e.time - st.2 := wrap_id _ (by omega) (by omega)
    have hstep : sumGoStep64 st e = sumGoStep st e := by
      unfold sumGoStep64 sumGoStep
      simp only [hw]
    simp only [List.foldl_cons, hstep]
    apply ih _ hs.2
    · intro x hx
      have hx1 := hb x (List.mem_cons_of_mem _ hx)
      have hx2 := hs.1 x hx
      rcases sumGoStep_snd st e with h | h <;> rw [h] <;> omega
    · rcases sumGoStep_snd st e with h | h <;> rw [h] <;> omega

theorem sum64_eq (ls : List (List Seg)) (h : AllSmall ls) : sum64 ls = sum ls := by
  unfold sum64 sumGoEdges64
  rw [rawEdges64_eq ls h]
  have hsorted := sortEdges_sorted (rawEdges ls)
  have hperm := sortEdges_perm (rawEdges ls)
  rw [sumGoFold64_eq (sortEdges (rawEdges ls)) ([], 0) hsorted ?_ (Int.le_refl _)]
  · exact sumGoEdges_eq _ (calcCuts ls)
  · intro e he
    have hm := hperm.subset he
    exact ⟨rawEdges_time_ge ls h.allNonNeg e hm, rawEdges_time_lt ls h e hm⟩

end ScVerif.C18
