import ScVerif.Base.Line
import ScVerif.C18.Time
import ScVerif.C18.Mode
import ScVerif.C18.Seg64
import ScVerif.C18.Mode64
import ScVerif.C18.Shape
import ScVerif.C18.ShapeOps
import ScVerif.C18.F32
/-! Driver handler for C18: parses one request line, runs the model, prints the canonical answer. -/
namespace ScVerif.C18
open ScVerif.Line

def parseTs? (s : String) : Option Ts :=
  match s.splitOn ":" with
  | [a, b] => do
    let x ← parseInt? a
    let y ← parseInt? b
    pure ⟨x, y⟩
  | _ => none

/-- `-` is an absent bound. Returns `none` on a malformed token. -/
def parseOptTs? (s : String) : Option (Option Ts) :=
  if s = "-" then some none else (parseTs? s).map some

/-- `nil` or `start/end`. -/
def parsePeriod? (s : String) : Option (Option Period) :=
  if s = "nil" then some none
  else match s.splitOn "/" with
    | [a, b] => do
      let x ← parseOptTs? a
      let y ← parseOptTs? b
      pure (some ⟨x, y⟩)
    | _ => none

def showOptTs : Option Ts → String
  | none => "-"
  | some t => toString t.secs ++ ":" ++ toString t.nanos

def showPeriod (p : Period) : String := showOptTs p.start ++ "/" ++ showOptTs p.stop

def handleTime (toks : List String) : Option String :=
  match toks with
  | ["pall", "-", "-"] => pure (showPeriod allTime)
  | ["pbefore", a, "-"] => do
    let x ← parseOptTs? a
    pure (showPeriod (periodBefore x))
  | ["pafter", a, "-"] => do
    let x ← parseOptTs? a
    pure (showPeriod (periodOnOrAfter x))
  | ["pbetween", a, b] => do
    let x ← parseOptTs? a
    let y ← parseOptTs? b
    pure (showPeriod (periodBetween x y))
  | ["cmp", a, b] => do
    let x ← parseTs? a
    let y ← parseTs? b
    pure (toString (compareAscending x y))
  | ["isect", p, q] => do
    let x ← parsePeriod? p
    let y ← parsePeriod? q
    pure (showBool (periodsIntersect x y))
  | ["conn", p, q] => do
    let x ← parsePeriod? p
    let y ← parsePeriod? q
    pure (showBool (periodsConnected x y))
  | _ => none

/-! ### Segments and modes

Encoding (no spaces): a segment is `mag/len` with `len = i` for an absent length; a list is `e`
(empty) or segments joined by `,`; several lists are joined by `;`; a mode is `start@list` with
`start = -` for an absent start time; an absent (`nil`) segment or mode is `nil`. -/

def parseSeg? (s : String) : Option Seg :=
  match s.splitOn "/" with
  | [m, l] => do
    let mag ← parseInt? m
    if l = "i" then pure ⟨mag, none⟩
    else do
      let len ← parseInt? l
      pure ⟨mag, some len⟩
  | _ => none

def parseSegs? (s : String) : Option (List Seg) :=
  if s = "e" then some [] else (s.splitOn ",").mapM parseSeg?

def parseSegLists? (s : String) : Option (List (List Seg)) :=
  if s = "none" then some [] else (s.splitOn ";").mapM parseSegs?

def parseMode? (s : String) : Option Mode :=
  match s.splitOn "@" with
  | [st, l] => do
    let segs ← parseSegs? l
    if st = "-" then pure ⟨none, segs⟩
    else do
      let x ← parseInt? st
      pure ⟨some x, segs⟩
  | _ => none

def parseModes? (s : String) : Option (List Mode) :=
  if s = "none" then some [] else (s.splitOn ";").mapM parseMode?

def showSeg (s : Seg) : String :=
  toString s.mag ++ "/" ++ (match s.len with | none => "i" | some l => toString l)

def showSegs (l : List Seg) : String :=
  if l.isEmpty then "e" else ",".intercalate (l.map showSeg)

def showOptSeg : Option Seg → String
  | none => "nil"
  | some s => showSeg s

def showMode (m : Mode) : String :=
  (match m.start with | none => "-" | some s => toString s) ++ "@" ++ showSegs m.segs

def showOptSegs (l : List (Option Seg)) : String :=
  if l.isEmpty then "e" else ",".intercalate (l.map showOptSeg)

def showModeN (m : ModeN) : String :=
  (match m.start with | none => "-" | some s => toString s) ++ "@" ++ showOptSegs m.segs

/-- A shaped segment `mag/len/shape`, `shape = n` when not set. -/
def parseSegS? (s : String) : Option SegS :=
  match s.splitOn "/" with
  | [m, l, f] => do
    let seg ← parseSeg? (m ++ "/" ++ l)
    if f = "n" then pure ⟨seg, none⟩
    else do
      let x ← parseInt? f
      pure ⟨seg, some x⟩
  | _ => none

def showOptSegS : Option SegS → String
  | none => "nil"
  | some s => showSeg s.seg ++ "/" ++ (match s.shape with | none => "n" | some f => toString f)

def parseSegSs? (s : String) : Option (List SegS) :=
  if s = "e" then some [] else (s.splitOn ",").mapM parseSegS?

def parseSegSLists? (s : String) : Option (List (List SegS)) :=
  if s = "none" then some [] else (s.splitOn ";").mapM parseSegSs?

/-- `start@list` or `start@list@info` (`info` = the token for the non-timing fields, `0`/absent = none set). -/
def parseModeS? (s : String) : Option ModeS :=
  let build (st l : String) (info : Nat) : Option ModeS := do
    let segs ← parseSegSs? l
    if st = "-" then pure ⟨none, segs, info⟩
    else do
      let x ← parseInt? st
      pure ⟨some x, segs, info⟩
  match s.splitOn "@" with
  | [st, l] => build st l 0
  | [st, l, k] => do
    let k ← parseInt? k
    if k < 0 then none else build st l k.toNat
  | _ => none

def parseModeSs? (s : String) : Option (List ModeS) :=
  if s = "none" then some [] else (s.splitOn ";").mapM parseModeS?

def showSegSs (l : List SegS) : String :=
  if l.isEmpty then "e" else ",".intercalate (l.map (fun s => showOptSegS (some s)))

def showOptModeS : Option ModeS → String
  | none => "nil"
  | some m => (match m.start with | none => "-" | some s => toString s) ++ "@" ++ showSegSs m.segs ++
      (if m.info = 0 then "" else "@" ++ toString m.info)

def showOptMode : Option Mode → String
  | none => "nil"
  | some m => showMode m

def handleSeg (toks : List String) : Option String :=
  match toks with
  | ["active", d, l] => do
    let d ← parseInt? d
    let l ← parseSegs? l
    let r := activeAt64 d l
    pure (toString r.1 ++ "|" ++ toString r.2)
  | ["magat", d, l] => do
    let d ← parseInt? d
    let l ← parseSegs? l
    let r := magnitudeAt64 d l
    pure (toString r.1 ++ "|" ++ showBool r.2)
  | ["dur", l] => do
    let l ← parseSegs? l
    let r := duration64 l
    pure (toString r.1 ++ "|" ++ showBool r.2)
  | ["max", l] => do
    let l ← parseSegs? l
    pure (toString (maxIdx l) ++ "|" ++ toString (maxMagnitude l))
  | ["maxafter", d, l] => do
    let d ← parseInt? d
    let l ← parseSegs? l
    pure (toString (maxAfter64 d l))
  | ["summag", l] => do
    let l ← parseSegs? l
    pure (toString (sumMagnitude l))
  | ["cut", d, s] => do
    let d ← parseInt? d
    let s ← parseSeg? s
    let r := cutSeg d s
    pure (showOptSeg r.before ++ "|" ++ showOptSeg r.after ++ "|" ++ showBool r.outside)
  | ["f32add", a, b] => do
    let a ← parseInt? a
    let b ← parseInt? b
    pure (toString (addF a b))
  | ["sumf", ls] => do
    let ls ← parseSegLists? ls
    pure (showSegs (sumF ls))
  | ["summagf", l] => do
    let l ← parseSegs? l
    pure (toString (sumMagnitudeF l))
  | ["cuts", d, s] => do
    let d ← parseInt? d
    let s ← parseSegS? s
    let r := cutSegS d s
    pure (showOptSegS r.before ++ "|" ++ showOptSegS r.after ++ "|" ++ showBool r.outside)
  | ["shifts", d, l] => do
    let d ← parseInt? d
    let l ← parseSegSs? l
    pure (showSegSs (shiftS d l))
  | ["sums", ls] => do
    let ls ← parseSegSLists? ls
    pure (showSegSs (sumS ls))
  | ["mcuts", t, m] => do
    let t ← parseInt? t
    let m ← parseModeS? m
    let r := modeCutS t m
    pure (showOptModeS r.before ++ "|" ++ showOptModeS r.after ++ "|" ++ showBool r.outside)
  | ["mshifts", d, m] => do
    let d ← parseInt? d
    let m ← parseModeS? m
    pure (showOptModeS (some (modeShiftS d m)))
  | ["msums", ms] => do
    let ms ← parseModeSs? ms
    pure (showOptModeS (modeSumS ms))
  | ["shift", d, l] => do
    let d ← parseInt? d
    let l ← parseSegs? l
    pure (showOptSegs (shift64 d l))
  | ["sum", ls] => do
    let ls ← parseSegLists? ls
    pure (showSegs (sum64 ls))
  | ["mactive", t, m] => do
    let t ← parseInt? t
    let m ← parseMode? m
    let r := modeActiveAt64 t m
    pure (toString r.1 ++ "|" ++ toString r.2)
  | ["mmagat", t, m] => do
    let t ← parseInt? t
    let m ← parseMode? m
    let r := modeMagnitudeAt64 t m
    pure (toString r.1 ++ "|" ++ showBool r.2)
  | ["mmaxafter", t, m] => do
    let t ← parseInt? t
    let m ← parseMode? m
    pure (toString (modeMaxSegmentAfter64 t m))
  | ["mcut", t, m] => do
    let t ← parseInt? t
    let m ← parseMode? m
    let r := modeCut64 t m
    pure (showOptMode r.before ++ "|" ++ showOptMode r.after ++ "|" ++ showBool r.outside)
  | ["mshift", d, m] => do
    let d ← parseInt? d
    let m ← parseMode? m
    pure (showModeN (modeShift64 d m))
  | ["mminat", t, ms] => do
    let t ← parseInt? t
    let ms ← parseModes? ms
    match modeMinAt64 t ms with
    | none => pure "nil"
    | some (k, g) =>
      -- the returned mode depends on the map iteration order when several modes share the minimum
      -- (C18_minAt_mode_depends_on_order): the index is part of the answer only when it is unique
      let n := ms.countP (fun m => (modeMagnitudeAt64 t m).1 = g)
      pure (toString g ++ "|" ++ (if n = 1 then toString k else "tie"))
  | ["msum", ms] => do
    let ms ← parseModes? ms
    pure (showOptMode (modeSum64 ms))
  | _ => none

def handle (toks : List String) : String :=
  match handleTime toks with
  | some r => r
  | none =>
    match handleSeg toks with
    | some r => r
    | none => "!bad-op"

end ScVerif.C18
