import ScVerif.Base.Line
import ScVerif.C18.Time
/-! Driver handler for C18: parses one request line, runs the model, prints the canonical answer. -/
namespace ScVerif.C18
open ScVerif.Line

def parseTs? (s : String) : Option Ts :=
  match s.splitOn ":" with
  | [a, b] => do
    let x ← parseInt? a
    let y ← parseInt? b
    pure ⟨x, y⟩
  | _ => none

/-- `-` is an absent bound. Returns `none` on a malformed token. -/
def parseOptTs? (s : String) : Option (Option Ts) :=
  if s = "-" then some none else (parseTs? s).map some

/-- `nil` or `start/end`. -/
def parsePeriod? (s : String) : Option (Option Period) :=
  if s = "nil" then some none
  else match s.splitOn "/" with
    | [a, b] => do
      let x ← parseOptTs? a
      let y ← parseOptTs? b
      pure (some ⟨x, y⟩)
    | _ => none

def handleTime (toks : List String) : Option String :=
  match toks with
  | ["cmp", a, b] => do
    let x ← parseTs? a
    let y ← parseTs? b
    pure (toString (compareAscending x y))
  | ["isect", p, q] => do
    let x ← parsePeriod? p
    let y ← parsePeriod? q
    pure (showBool (periodsIntersect x y))
  | ["conn", p, q] => do
    let x ← parsePeriod? p
    let y ← parsePeriod? q
    pure (showBool (periodsConnected x y))
  | _ => none

def handle (toks : List String) : String :=
  match handleTime toks with
  | some r => r
  | none => "!bad-op"

end ScVerif.C18
