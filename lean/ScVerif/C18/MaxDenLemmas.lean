import ScVerif.C18.LawLemmas
import ScVerif.C18.MaxLemmas
/-!
Lemmas for PropsMax: the segments `Max` looks at (length absent or positive) are exactly the values the
step function takes on its support; dropping a prefix of segments that all have lengths translates the
step function by the prefix's total length.
-/
namespace ScVerif.C18

theorem covered_nonneg (segs : List Seg) (t : Int) (h : covered segs t = true) : 0 ≤ t := by
  by_cases hneg : t < 0
  · rw [covered_neg _ _ hneg] at h; cases h
  · omega

/-- Where a segment is active, the step function takes the magnitude of a counted segment.  No hypothesis. -/
theorem covered_counted (segs : List Seg) (t : Int) (h : covered segs t = true) :
    ∃ s ∈ segs, counts s = true ∧ den segs t = s.mag := by
  induction segs generalizing t with
  | nil => simp [covered] at h
  | cons x rest ih =>
    have ht : 0 ≤ t := covered_nonneg _ _ h
    cases hx : x.len with
    | none =>
      refine ⟨x, List.mem_cons_self, by simp [counts, hx], ?_⟩
      rw [den_cons_none x rest t hx ht]
    | some l =>
      rw [covered_cons_some x rest t l hx ht] at h
      rw [den_cons_some x rest t l hx ht]
      by_cases hl : t < l
      · refine ⟨x, List.mem_cons_self, ?_, by simp [hl]⟩
        simp only [counts, hx, decide_eq_true_eq]; omega
      · simp only [hl, if_false] at h ⊢
        obtain ⟨s, hs, hc, hd⟩ := ih (t - l) h
        exact ⟨s, List.mem_cons_of_mem _ hs, hc, hd⟩

/-- In a well-formed list (lengths non-negative, only the last segment length-less) every counted segment
is active somewhere: its magnitude is a value of the step function on its support. -/
theorem counted_attained (segs : List Seg) (h : NonNeg segs) (hf : FinInit segs) (s : Seg) (hs : s ∈ segs)
    (hc : counts s = true) : ∃ t, covered segs t = true ∧ den segs t = s.mag := by
  induction segs with
  | nil => cases hs
  | cons x rest ih =>
    rcases List.mem_cons.mp hs with rfl | hr
    · refine ⟨0, ?_, ?_⟩
      · cases hx : s.len with
        | none => exact covered_cons_none s rest 0 hx (by omega)
        | some l =>
          rw [covered_cons_some s rest 0 l hx (by omega)]
          simp only [counts, hx, decide_eq_true_eq] at hc
          simp [hc]
      · cases hx : s.len with
        | none => exact den_cons_none s rest 0 hx (by omega)
        | some l =>
          rw [den_cons_some s rest 0 l hx (by omega)]
          simp only [counts, hx, decide_eq_true_eq] at hc
          simp [hc]
    · cases rest with
      | nil => cases hr
      | cons y tl =>
        have hxl : x.len ≠ none := hf.1
        cases hx : x.len with
        | none => exact absurd hx hxl
        | some l =>
          have hl : 0 ≤ l := h x List.mem_cons_self l hx
          obtain ⟨t', hcov, hden⟩ := ih h.tail hf.2 hr
          have ht' : 0 ≤ t' := covered_nonneg _ _ hcov
          have hnl : ¬ t' + l < l := by omega
          have e : t' + l - l = t' := by omega
          refine ⟨t' + l, ?_, ?_⟩
          · rw [covered_cons_some x (y :: tl) (t' + l) l hx (by omega)]
            simp only [hnl, if_false, e]; exact hcov
          · rw [den_cons_some x (y :: tl) (t' + l) l hx (by omega)]
            simp only [hnl, if_false, e]; exact hden

theorem finInit_tail {x : Seg} {r : List Seg} (h : FinInit (x :: r)) : FinInit r := by
  cases r with
  | nil => trivial
  | cons y t => exact h.2

theorem finInit_drop (segs : List Seg) (n : Nat) (h : FinInit segs) : FinInit (segs.drop n) := by
  induction n generalizing segs with
  | zero => simpa using h
  | succ k ih =>
    cases segs with
    | nil => trivial
    | cons x r => simpa using ih r (finInit_tail h)

/-- Dropping `i` leading segments that all have (non-negative) lengths translates the step function and its
support by their total length, from that total on. -/
theorem den_covered_drop (segs : List Seg) (i : Nat) (h : NonNeg segs)
    (hp : ∀ s ∈ segs.take i, s.len ≠ none) (t : Int) (ht : lenSum (segs.take i) ≤ t) :
    den segs t = den (segs.drop i) (t - lenSum (segs.take i)) ∧
    covered segs t = covered (segs.drop i) (t - lenSum (segs.take i)) := by
  induction i generalizing segs t with
  | zero => simp [lenSum]
  | succ k ih =>
    cases segs with
    | nil => simp [lenSum]
    | cons x r =>
      simp only [List.take_succ_cons, List.drop_succ_cons] at hp ht ⊢
      cases hx : x.len with
      | none => exact absurd hx (hp x List.mem_cons_self)
      | some l =>
        have hl : 0 ≤ l := h x List.mem_cons_self l hx
        have hr := lenSum_nonneg (r.take k) (nonNeg_take r k h.tail)
        simp only [lenSum, hx, Option.getD_some] at ht ⊢
        have ht0 : 0 ≤ t := by omega
        have hnl : ¬ t < l := by omega
        obtain ⟨h1, h2⟩ := ih r h.tail (fun s hs => hp s (List.mem_cons_of_mem _ hs)) (t - l) (by omega)
        have e : t - l - lenSum (List.take k r) = t - (l + lenSum (List.take k r)) := by omega
        rw [den_cons_some x r t l hx ht0, covered_cons_some x r t l hx ht0]
        simp only [hnl, if_false]
        rw [h1, h2, e]
        exact ⟨rfl, rfl⟩

/-- On the first segment of a list the step function is that segment's magnitude. -/
theorem den_covered_head (x : Seg) (r : List Seg) (u : Int) (hu : 0 ≤ u) (h : ∀ l, x.len = some l → u < l) :
    den (x :: r) u = x.mag ∧ covered (x :: r) u = true := by
  cases hx : x.len with
  | none => exact ⟨den_cons_none x r u hx hu, covered_cons_none x r u hx hu⟩
  | some l =>
    have := h l hx
    rw [den_cons_some x r u l hx hu, covered_cons_some x r u l hx hu]
    simp [this]

end ScVerif.C18
