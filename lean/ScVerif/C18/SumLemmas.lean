import ScVerif.C18.SegLemmas
/-! Lemmas about `Sum`: edges, the sort, the accumulation loop, and order independence. -/
namespace ScVerif.C18

/-- Sum of the deltas of the edges at or before `t`. -/
def sumLe (t : Int) : List Edge → Int
  | [] => 0
  | e :: es => (if e.time ≤ t then e.delta else 0) + sumLe t es

/-- Sum of all deltas. -/
def sumAll : List Edge → Int
  | [] => 0
  | e :: es => e.delta + sumAll es

theorem sumLe_append (t : Int) (a b : List Edge) : sumLe t (a ++ b) = sumLe t a + sumLe t b := by
  induction a with
  | nil => simp [sumLe]
  | cons e es ih => simp only [List.cons_append, sumLe, ih]; omega

theorem sumAll_append (a b : List Edge) : sumAll (a ++ b) = sumAll a + sumAll b := by
  induction a with
  | nil => simp [sumAll]
  | cons e es ih => simp only [List.cons_append, sumAll, ih]; omega

theorem sumLe_perm (t : Int) {a b : List Edge} (h : a.Perm b) : sumLe t a = sumLe t b := by
  induction h with
  | nil => rfl
  | cons x _ ih => simp only [sumLe, ih]
  | swap x y l => simp only [sumLe]; omega
  | trans _ _ ih1 ih2 => rw [ih1, ih2]

theorem sumAll_perm {a b : List Edge} (h : a.Perm b) : sumAll a = sumAll b := by
  induction h with
  | nil => rfl
  | cons x _ ih => simp only [sumAll, ih]
  | swap x y l => simp only [sumAll]; omega
  | trans _ _ ih1 ih2 => rw [ih1, ih2]

theorem sumLe_of_all_gt (t : Int) (es : List Edge) (h : ∀ e ∈ es, t < e.time) : sumLe t es = 0 := by
  induction es with
  | nil => rfl
  | cons e es ih =>
    have h1 : ¬ e.time ≤ t := by have := h e List.mem_cons_self; omega
    simp only [sumLe, h1, if_false]
    rw [ih (fun x hx => h x (List.mem_cons_of_mem _ hx))]
    rfl

/-- Sorted by time (what `sort.Slice` with `cuts[i].at < cuts[j].at` establishes). -/
def SortedT (es : List Edge) : Prop := es.Pairwise (fun a b => a.time ≤ b.time)

/-! ### the insertion sort -/

theorem insertEdge_perm (e : Edge) (es : List Edge) : (insertEdge e es).Perm (e :: es) := by
  induction es with
  | nil => exact List.Perm.refl _
  | cons x xs ih =>
    simp only [insertEdge]
    split
    · exact List.Perm.refl _
    · exact (List.Perm.cons x ih).trans (List.Perm.swap e x xs)

theorem insertEdge_sorted (e : Edge) (es : List Edge) (h : SortedT es) : SortedT (insertEdge e es) := by
  induction es with
  | nil => simp [insertEdge, SortedT]
  | cons x xs ih =>
    simp only [insertEdge]
    unfold SortedT at h ih ⊢
    rw [List.pairwise_cons] at h
    split
    · rename_i hlt
      rw [List.pairwise_cons]
      refine ⟨fun y hy => ?_, List.pairwise_cons.mpr h⟩
      rcases List.mem_cons.mp hy with rfl | hy
      · omega
      · have := h.1 y hy; omega
    · rename_i hlt
      rw [List.pairwise_cons]
      refine ⟨fun y hy => ?_, ih h.2⟩
      have hy' := (insertEdge_perm e xs).subset hy
      rcases List.mem_cons.mp hy' with rfl | hy'
      · omega
      · exact h.1 y hy'

theorem sortFold_perm (es acc : List Edge) :
    (es.foldl (fun acc e => insertEdge e acc) acc).Perm (acc ++ es) := by
  induction es generalizing acc with
  | nil => simp
  | cons e es ih =>
    simp only [List.foldl_cons]
    refine (ih (insertEdge e acc)).trans ?_
    refine ((insertEdge_perm e acc).append_right es).trans ?_
    exact List.perm_middle.symm

theorem sortFold_sorted (es acc : List Edge) (h : SortedT acc) :
    SortedT (es.foldl (fun acc e => insertEdge e acc) acc) := by
  induction es generalizing acc with
  | nil => simpa using h
  | cons e es ih =>
    simp only [List.foldl_cons]
    exact ih _ (insertEdge_sorted e acc h)

theorem sortEdges_perm (es : List Edge) : (sortEdges es).Perm es := by
  have := sortFold_perm es []
  simpa [sortEdges] using this

theorem sortEdges_sorted (es : List Edge) : SortedT (sortEdges es) :=
  sortFold_sorted es [] (by simp [SortedT])

/-! ### the accumulation loop -/

theorem sumEdges_eq_emit (drop : Int → Bool) (es : List Edge) (h0 : drop 0 = true) :
    sumEdges drop es = emit drop 0 0 es := by
  cases es with
  | nil => simp [sumEdges, emit, h0]
  | cons e es => rfl

/-- What `emit` denotes, exactly: the running total of the deltas seen so far — except that from the
last edge on the result is `0` when the rule `drop` removes the open element. -/
theorem emit_den_exact (drop : Int → Bool) (es : List Edge) (mag lt t : Int) (hs : SortedT es)
    (hge : ∀ e ∈ es, lt ≤ e.time) (ht : lt ≤ t) :
    den (emit drop mag lt es) (t - lt) =
      if drop (mag + sumAll es) = true ∧ (∀ e ∈ es, e.time ≤ t) then 0 else mag + sumLe t es := by
  induction es generalizing mag lt with
  | nil =>
    simp only [emit, sumAll, sumLe, Int.add_zero]
    by_cases hm : drop mag = true
    · simp [hm, den_nil]
    · simp only [hm, if_false, false_and, Bool.false_eq_true]
      rw [den_cons_none ⟨mag, none⟩ [] _ rfl (by omega)]
  | cons e es ih =>
    unfold SortedT at hs
    rw [List.pairwise_cons] at hs
    have hle := hge e List.mem_cons_self
    have hge' : ∀ x ∈ es, e.time ≤ x.time := hs.1
    simp only [emit, sumAll, sumLe]
    by_cases h0 : e.time - lt = 0
    · have het : e.time = lt := by omega
      simp only [h0, if_true]
      rw [ih (mag + e.delta) lt hs.2 (fun x hx => by have := hge' x hx; omega) ht]
      have h1 : e.time ≤ t := by omega
      simp only [h1, if_true, List.forall_mem_cons, true_and]
      have e1 : mag + e.delta + sumAll es = mag + (e.delta + sumAll es) := by omega
      have e2 : mag + e.delta + sumLe t es = mag + (e.delta + sumLe t es) := by omega
      rw [e1, e2]
    · simp only [h0, if_false]
      have hlt : lt < e.time := by omega
      rw [den_cons_some ⟨mag, some (e.time - lt)⟩ _ (t - lt) (e.time - lt) rfl (by omega)]
      by_cases h1 : t - lt < e.time - lt
      · have h2 : ¬ e.time ≤ t := by omega
        have h3 : ¬ (∀ x ∈ e :: es, x.time ≤ t) := fun hh => h2 (hh e List.mem_cons_self)
        simp only [h1, if_true, h2, if_false, h3, and_false]
        rw [sumLe_of_all_gt t es (fun x hx => by have := hge' x hx; omega)]
        omega
      · have h2 : e.time ≤ t := by omega
        simp only [h1, if_false, h2, if_true, List.forall_mem_cons, true_and]
        have e0 : t - lt - (e.time - lt) = t - e.time := by omega
        rw [e0, ih (mag + e.delta) e.time hs.2 hge' h2]
        have e1 : mag + e.delta + sumAll es = mag + (e.delta + sumAll es) := by omega
        have e2 : mag + e.delta + sumLe t es = mag + (e.delta + sumLe t es) := by omega
        rw [e1, e2]

/-! ### the literal loop equals `emit` -/

theorem updLast_append_single (f : Seg → Seg) (done : List Seg) (x : Seg) :
    updLast f (done ++ [x]) = done ++ [f x] := by
  induction done with
  | nil => rfl
  | cons d ds ih =>
    cases ds with
    | nil => rfl
    | cons d2 ds2 =>
      simp only [List.cons_append] at ih ⊢
      simp only [updLast]
      rw [ih]

/-- Loop invariant of `Sum`: `result = done ++ [open element with Length == nil]`. -/
theorem sumGo_invariant (drop : Int → Bool) (es : List Edge) (done : List Seg) (mag lt : Int) :
    trimLast drop (es.foldl sumGoStep (done ++ [⟨mag, none⟩], lt)).1 = done ++ emit drop mag lt es := by
  induction es generalizing done mag lt with
  | nil =>
    simp only [List.foldl_nil, trimLast, List.getLast?_append, List.getLast?_singleton, emit]
    by_cases h : drop mag = true
    · simp [h]
    · simp [h]
  | cons e es ih =>
    simp only [List.foldl_cons]
    have hstep : sumGoStep (done ++ [⟨mag, none⟩], lt) e =
        if e.time - lt = 0 then (done ++ [⟨mag + e.delta, none⟩], lt)
        else ((done ++ [⟨mag, some (e.time - lt)⟩]) ++ [⟨mag + e.delta, none⟩], e.time) := by
      simp only [sumGoStep, List.length_append, List.length_cons, List.length_nil]
      have hne : ¬ (done.length + (0 + 1) = 0) := by omega
      simp only [hne, if_false, updLast_append_single, lastMagOf, List.getLast?_append,
        List.getLast?_singleton]
      simp
    rw [hstep]
    by_cases h0 : e.time - lt = 0
    · simp only [h0, if_true, emit]
      exact ih done (mag + e.delta) lt
    · simp only [h0, if_false, emit]
      have := ih (done ++ [⟨mag, some (e.time - lt)⟩]) (mag + e.delta) e.time
      rw [this]
      simp

theorem sumGoEdges_eq (drop : Int → Bool) (es : List Edge) : sumGoEdges drop es = sumEdges drop es := by
  cases es with
  | nil => simp [sumGoEdges, sumEdges, trimLast]
  | cons e rest =>
    unfold sumGoEdges
    simp only [List.foldl_cons]
    have hfirst : sumGoStep ([], 0) e =
        if e.time - 0 = 0 then ([] ++ [⟨0 + e.delta, none⟩], 0)
        else (([] ++ [⟨0, some (e.time - 0)⟩]) ++ [⟨0 + e.delta, none⟩], e.time) := by
      simp only [sumGoStep, List.length_nil, if_true, List.nil_append]
      by_cases h : e.time - 0 = 0
      · simp [h, updLast]
      · simp [h, updLast, lastMagOf]
    rw [hfirst]
    by_cases h0 : e.time - 0 = 0
    · simp only [h0, if_true]
      have := sumGo_invariant drop rest [] (0 + e.delta) 0
      simp only [List.nil_append] at this ⊢
      rw [this]
      simp [sumEdges, emit, h0]
    · simp only [h0, if_false]
      have := sumGo_invariant drop rest ([] ++ [⟨0, some (e.time - 0)⟩]) (0 + e.delta) e.time
      rw [this]
      have h1 : ¬ e.time = 0 := by omega
      simp [sumEdges, emit, h1]

/-! ### edges of one list -/

theorem edgesOf_time_ge (l : List Seg) (h : NonNeg l) (cur : Int) :
    ∀ e ∈ edgesOf cur l, cur ≤ e.time := by
  induction l generalizing cur with
  | nil => simp [edgesOf]
  | cons s rest ih =>
    intro e he
    cases hs : s.len with
    | none =>
      simp only [edgesOf, hs] at he
      split at he
      · simp at he; subst he; simp
      · simp at he
    | some len =>
      have hl := h.head len hs
      simp only [edgesOf, hs, List.mem_append] at he
      rcases he with (he | he) | he
      · split at he
        · simp at he; subst he; simp
        · simp at he
      · split at he
        · simp at he; subst he; simp; omega
        · simp at he
      · have := ih h.tail (cur + len) e he
        omega

theorem edgesOf_sumLe (l : List Seg) (h : NonNeg l) (cur t : Int) (ht : cur ≤ t) :
    sumLe t (edgesOf cur l) = den l (t - cur) := by
  induction l generalizing cur with
  | nil => simp [edgesOf, sumLe, den]
  | cons s rest ih =>
    have ht0 : 0 ≤ t - cur := by omega
    cases hs : s.len with
    | none =>
      rw [den_cons_none s rest _ hs ht0]
      simp only [edgesOf, hs]
      by_cases hm : s.mag = 0
      · simp [hm, sumLe]
      · simp [hm, sumLe, ht]
    | some len =>
      have hl := h.head len hs
      rw [den_cons_some s rest _ len hs ht0]
      simp only [edgesOf, hs, sumLe_append]
      by_cases hin : t - cur < len
      · have h1 : ¬ cur + len ≤ t := by omega
        simp only [hin, if_true]
        rw [sumLe_of_all_gt t (edgesOf (cur + len) rest)
          (fun e he => by have := edgesOf_time_ge rest h.tail (cur + len) e he; omega)]
        by_cases hm : s.mag = 0
        · simp [hm, sumLe]
        · simp [hm, sumLe, ht, h1]
      · have h1 : cur + len ≤ t := by omega
        simp only [hin, if_false]
        rw [ih h.tail (cur + len) h1]
        have e0 : t - (cur + len) = t - cur - len := by omega
        rw [e0]
        by_cases hm : s.mag = 0
        · simp [hm, sumLe]
        · simp only [hm, ne_eq, not_false_eq_true, if_true, sumLe, ht, h1]
          omega

theorem edgesOf_sumAll (l : List Seg) (cur : Int) : sumAll (edgesOf cur l) = tailMag l := by
  induction l generalizing cur with
  | nil => simp [edgesOf, sumAll, tailMag]
  | cons s rest ih =>
    cases hs : s.len with
    | none =>
      simp only [edgesOf, hs, tailMag]
      by_cases hm : s.mag = 0
      · simp [hm, sumAll]
      · simp [hm, sumAll]
    | some len =>
      simp only [edgesOf, hs, tailMag, sumAll_append, ih]
      by_cases hm : s.mag = 0
      · simp [hm, sumAll]
      · simp only [hm, ne_eq, not_false_eq_true, if_true, sumAll]
        omega

/-- All lists have non-negative lengths. -/
def AllNonNeg (ls : List (List Seg)) : Prop := ∀ l ∈ ls, NonNeg l

theorem rawEdges_time_ge (ls : List (List Seg)) (h : AllNonNeg ls) : ∀ e ∈ rawEdges ls, 0 ≤ e.time := by
  induction ls with
  | nil => simp [rawEdges]
  | cons l ls ih =>
    intro e he
    simp only [rawEdges, List.mem_append] at he
    rcases he with he | he
    · exact edgesOf_time_ge l (h l List.mem_cons_self) 0 e he
    · exact ih (fun x hx => h x (List.mem_cons_of_mem _ hx)) e he

theorem rawEdges_sumLe (ls : List (List Seg)) (h : AllNonNeg ls) (t : Int) (ht : 0 ≤ t) :
    sumLe t (rawEdges ls) = denSum ls t := by
  induction ls with
  | nil => rfl
  | cons l ls ih =>
    simp only [rawEdges, sumLe_append, denSum]
    rw [edgesOf_sumLe l (h l List.mem_cons_self) 0 t ht, ih (fun x hx => h x (List.mem_cons_of_mem _ hx))]
    simp

theorem rawEdges_sumAll (ls : List (List Seg)) : sumAll (rawEdges ls) = tailSum ls := by
  induction ls with
  | nil => rfl
  | cons l ls ih => simp only [rawEdges, sumAll_append, tailSum, edgesOf_sumAll, ih]

theorem denSum_neg (ls : List (List Seg)) (t : Int) (ht : t < 0) : denSum ls t = 0 := by
  induction ls with
  | nil => rfl
  | cons l ls ih => simp [denSum, den_neg l t ht, ih]

/-- The meaning of `Sum` computed from ANY time-sorted arrangement `es` of the raw edges. -/
theorem sumEdges_den (drop : Int → Bool) (hd0 : drop 0 = true) (ls : List (List Seg))
    (h : AllNonNeg ls) (es : List Edge) (hp : es.Perm (rawEdges ls)) (hs : SortedT es) (t : Int) :
    den (sumEdges drop es) t =
      if drop (tailSum ls) = true ∧ 0 ≤ t ∧ (∀ e ∈ rawEdges ls, e.time ≤ t) then 0
      else denSum ls t := by
  rw [sumEdges_eq_emit drop es hd0]
  by_cases ht : t < 0
  · rw [den_neg _ _ ht, denSum_neg ls t ht]
    simp
  · have ht0 : 0 ≤ t := by omega
    have hge : ∀ e ∈ es, (0 : Int) ≤ e.time := fun e he => rawEdges_time_ge ls h e (hp.subset he)
    have := emit_den_exact drop es 0 0 t hs hge ht0
    simp only [Int.sub_zero, Int.zero_add] at this
    rw [this, sumAll_perm hp, sumLe_perm t hp, rawEdges_sumAll, rawEdges_sumLe ls h t ht0]
    have hall : (∀ e ∈ es, e.time ≤ t) ↔ (∀ e ∈ rawEdges ls, e.time ≤ t) :=
      ⟨fun hh e he => hh e (hp.symm.subset he), fun hh e he => hh e (hp.subset he)⟩
    simp only [hall, ht0, true_and]

theorem sumLe_of_all_le (t : Int) (es : List Edge) (h : ∀ e ∈ es, e.time ≤ t) : sumLe t es = sumAll es := by
  induction es with
  | nil => rfl
  | cons e es ih =>
    have h1 : e.time ≤ t := h e List.mem_cons_self
    simp only [sumLe, sumAll, h1, if_true, ih (fun x hx => h x (List.mem_cons_of_mem _ hx))]

theorem tailMag_of_finite (l : List Seg) (h : (duration l).2 = false) : tailMag l = 0 := by
  unfold duration at h
  induction l with
  | nil => rfl
  | cons s rest ih =>
    cases hs : s.len with
    | none => simp [durationLoop, hs] at h
    | some len =>
      simp only [durationLoop, hs] at h
      rw [durationLoop_shift] at h
      simp only [tailMag, hs]
      exact ih h

theorem tailSum_of_not_anyInfinite (ls : List (List Seg)) (h : anyInfinite ls = false) : tailSum ls = 0 := by
  induction ls with
  | nil => rfl
  | cons l ls ih =>
    simp only [anyInfinite, List.any_cons, Bool.or_eq_false_iff] at h
    simp only [tailSum, tailMag_of_finite l h.1]
    have := ih (by simpa [anyInfinite] using h.2)
    omega

/-- `Sum` (fixed rule) is pointwise addition, from ANY time-sorted arrangement of the raw edges. -/
theorem sumEdges_den_full (ls : List (List Seg)) (h : AllNonNeg ls) (es : List Edge)
    (hp : es.Perm (rawEdges ls)) (hs : SortedT es) (t : Int) :
    den (sumEdges (dropRule (anyInfinite ls)) es) t = denSum ls t := by
  rw [sumEdges_den (dropRule (anyInfinite ls)) (by simp [dropRule]) ls h es hp hs t]
  split
  · rename_i hc
    obtain ⟨hdrop, ht0, hall⟩ := hc
    -- from the last edge on, the pointwise sum is the value "at infinity", which the rule says is 0
    rw [← rawEdges_sumLe ls h t ht0, sumLe_of_all_le t _ hall, rawEdges_sumAll]
    simp only [dropRule, Bool.or_eq_true, decide_eq_true_eq, Bool.not_eq_true'] at hdrop
    rcases hdrop with h0 | hinf
    · exact h0.symm
    · exact (tailSum_of_not_anyInfinite ls hinf).symm
  · rfl

/-! ### order independence: `sort.Slice` is not stable, and it does not matter -/

theorem emit_congr (drop : Int → Bool) (e : Edge) (a b : List Edge)
    (h : ∀ mag lt, emit drop mag lt a = emit drop mag lt b)
    (mag lt : Int) : emit drop mag lt (e :: a) = emit drop mag lt (e :: b) := by
  simp only [emit, h]

theorem emit_swap (drop : Int → Bool) (e1 e2 : Edge) (es : List Edge) (h : e1.time = e2.time)
    (mag lt : Int) : emit drop mag lt (e1 :: e2 :: es) = emit drop mag lt (e2 :: e1 :: es) := by
  simp only [emit, h]
  have c : mag + e1.delta + e2.delta = mag + e2.delta + e1.delta := by omega
  by_cases h0 : e2.time - lt = 0
  · simp [h0, c]
  · simp [h0, c]

/-- Moving an edge in front of a block of edges with the same time does not change the result. -/
theorem emit_move_front (drop : Int → Bool) (e : Edge) (pre post : List Edge)
    (h : ∀ x ∈ pre, x.time = e.time)
    (mag lt : Int) : emit drop mag lt (pre ++ e :: post) = emit drop mag lt (e :: (pre ++ post)) := by
  induction pre generalizing mag lt with
  | nil => rfl
  | cons x xs ih =>
    have hx := h x List.mem_cons_self
    have hxs : ∀ y ∈ xs, y.time = e.time := fun y hy => h y (List.mem_cons_of_mem _ hy)
    calc emit drop mag lt (x :: xs ++ e :: post)
        = emit drop mag lt (x :: (xs ++ e :: post)) := rfl
      _ = emit drop mag lt (x :: e :: (xs ++ post)) := emit_congr drop x _ _ (fun m l => ih hxs m l) mag lt
      _ = emit drop mag lt (e :: x :: (xs ++ post)) := emit_swap drop x e _ hx mag lt

/-- Two time-sorted arrangements of the same edges produce the same segment list. -/
theorem emit_order_irrelevant (drop : Int → Bool) (a b : List Edge) (hp : a.Perm b) (ha : SortedT a)
    (hb : SortedT b) (mag lt : Int) : emit drop mag lt a = emit drop mag lt b := by
  induction a generalizing b mag lt with
  | nil => rw [List.Perm.eq_nil hp.symm]
  | cons e rest ih =>
    have hmem : e ∈ b := hp.subset List.mem_cons_self
    obtain ⟨pre, post, rfl⟩ := List.append_of_mem hmem
    unfold SortedT at ha hb
    rw [List.pairwise_cons] at ha
    have hb' := List.pairwise_append.mp hb
    have hpre : ∀ x ∈ pre, x.time = e.time := by
      intro x hx
      have h1 : x.time ≤ e.time := hb'.2.2 x hx e List.mem_cons_self
      have hxa : x ∈ e :: rest := hp.symm.subset (List.mem_append_left _ hx)
      rcases List.mem_cons.mp hxa with rfl | hxr
      · rfl
      · have := ha.1 x hxr; omega
    have hp' : rest.Perm (pre ++ post) :=
      List.Perm.cons_inv (hp.trans List.perm_middle)
    have hsorted : SortedT (pre ++ post) := by
      unfold SortedT
      rw [List.pairwise_append]
      refine ⟨hb'.1, (List.pairwise_cons.mp hb'.2.1).2, fun x hx y hy => ?_⟩
      exact hb'.2.2 x hx y (List.mem_cons_of_mem _ hy)
    rw [emit_move_front drop e pre post hpre mag lt]
    exact emit_congr drop e _ _ (fun m l => ih (pre ++ post) hp' ha.2 hsorted m l) mag lt

theorem sumEdges_order_irrelevant (drop : Int → Bool) (a b : List Edge) (hp : a.Perm b)
    (ha : SortedT a) (hb : SortedT b) : sumEdges drop a = sumEdges drop b := by
  cases a with
  | nil => rw [List.Perm.eq_nil hp.symm]
  | cons x xs =>
    cases b with
    | nil => exact absurd (List.Perm.eq_nil hp) (by simp)
    | cons y ys => exact emit_order_irrelevant drop _ _ hp ha hb 0 0

end ScVerif.C18
