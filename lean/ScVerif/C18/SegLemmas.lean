import ScVerif.C18.Seg
/-! Lemmas about the segment model (everything except `Sum`, which is in `SumLemmas`). -/
namespace ScVerif.C18

/-! ### the step function -/

theorem den_nil (t : Int) : den [] t = 0 := rfl

theorem den_neg (segs : List Seg) (t : Int) (h : t < 0) : den segs t = 0 := by
  cases segs with
  | nil => rfl
  | cons s rest => simp [den, h]

theorem covered_neg (segs : List Seg) (t : Int) (h : t < 0) : covered segs t = false := by
  cases segs with
  | nil => rfl
  | cons s rest => simp [covered, h]

theorem den_cons_none (s : Seg) (rest : List Seg) (t : Int) (hs : s.len = none) (ht : 0 ≤ t) :
    den (s :: rest) t = s.mag := by
  have : ¬ t < 0 := by omega
  simp [den, hs, this]

theorem den_cons_some (s : Seg) (rest : List Seg) (t l : Int) (hs : s.len = some l) (ht : 0 ≤ t) :
    den (s :: rest) t = if t < l then s.mag else den rest (t - l) := by
  have : ¬ t < 0 := by omega
  simp [den, hs, this]

theorem covered_cons_none (s : Seg) (rest : List Seg) (t : Int) (hs : s.len = none) (ht : 0 ≤ t) :
    covered (s :: rest) t = true := by
  have : ¬ t < 0 := by omega
  simp [covered, hs, this]

theorem covered_cons_some (s : Seg) (rest : List Seg) (t l : Int) (hs : s.len = some l) (ht : 0 ≤ t) :
    covered (s :: rest) t = if t < l then true else covered rest (t - l) := by
  have : ¬ t < 0 := by omega
  simp [covered, hs, this]

/-- Outside the support the step function is 0. -/
theorem den_of_not_covered (segs : List Seg) (t : Int) (h : covered segs t = false) :
    den segs t = 0 := by
  induction segs generalizing t with
  | nil => rfl
  | cons s rest ih =>
    by_cases ht : t < 0
    · exact den_neg _ _ ht
    · have ht' : 0 ≤ t := by omega
      cases hs : s.len with
      | none => rw [covered_cons_none s rest t hs ht'] at h; cases h
      | some l =>
        rw [covered_cons_some s rest t l hs ht'] at h
        rw [den_cons_some s rest t l hs ht']
        by_cases hl : t < l
        · simp [hl] at h
        · simp only [hl, if_false] at h ⊢
          exact ih _ h

theorem NonNeg.tail {s : Seg} {rest : List Seg} (h : NonNeg (s :: rest)) : NonNeg rest :=
  fun x hx l hl => h x (List.mem_cons_of_mem _ hx) l hl

theorem NonNeg.head {s : Seg} {rest : List Seg} (h : NonNeg (s :: rest)) (l : Int)
    (hl : s.len = some l) : 0 ≤ l := h s (List.mem_cons_self) l hl

/-- A decidable sufficient test for `NonNeg` (used by the non-vacuity examples). -/
theorem nonNeg_of_all (segs : List Seg)
    (h : segs.all (fun s => match s.len with | none => true | some l => decide (0 ≤ l)) = true) :
    NonNeg segs := by
  intro s hs l hl
  have := List.all_eq_true.mp h s hs
  simp only [hl, decide_eq_true_eq] at this
  exact this

/-! ### ActiveAt -/

/-- The loop only depends on `d - cur`; `cur` and `i` are carried along additively. -/
theorem activeAtLoop_shift (d : Int) (segs : List Seg) (cur : Int) (i : Nat) :
    activeAtLoop d cur i segs =
      (cur + (activeAtLoop (d - cur) 0 0 segs).1, i + (activeAtLoop (d - cur) 0 0 segs).2) := by
  induction segs generalizing cur i d with
  | nil => simp [activeAtLoop]
  | cons s rest ih =>
    cases hs : s.len with
    | none => simp [activeAtLoop, hs]
    | some l =>
      simp only [activeAtLoop, hs]
      by_cases h : cur + l > d
      · have h' : 0 + l > d - cur := by omega
        simp only [h, h', if_true]
        simp
      · have h' : ¬ (0 + l > d - cur) := by omega
        simp only [h, h', if_false]
        rw [ih d (cur + l) (i + 1), ih (d - cur) (0 + l) (0 + 1)]
        have e : d - cur - (0 + l) = d - (cur + l) := by omega
        rw [e]
        refine Prod.ext ?_ ?_ <;> simp <;> omega

theorem activeAtLoop_nil (d : Int) : activeAtLoop d 0 0 [] = (0, 0) := rfl

theorem activeAtLoop_cons_none (d : Int) (s : Seg) (rest : List Seg) (hs : s.len = none) :
    activeAtLoop d 0 0 (s :: rest) = (0, 0) := by
  simp [activeAtLoop, hs]

theorem activeAtLoop_cons_some (d : Int) (s : Seg) (rest : List Seg) (l : Int) (hs : s.len = some l) :
    activeAtLoop d 0 0 (s :: rest) =
      if l > d then (0, 0)
      else (l + (activeAtLoop (d - l) 0 0 rest).1, (activeAtLoop (d - l) 0 0 rest).2 + 1) := by
  simp only [activeAtLoop, hs]
  by_cases h : l > d
  · simp [h]
  · have : ¬ (0 + l > d) := by omega
    simp only [h, this, if_false]
    rw [activeAtLoop_shift d rest (0 + l) (0 + 1)]
    have e : d - (0 + l) = d - l := by omega
    rw [e]
    refine Prod.ext ?_ ?_ <;> simp <;> omega

/-- Total of the present lengths of a list. -/
def lenSum : List Seg → Int
  | [] => 0
  | s :: rest => (s.len.getD 0) + lenSum rest

/-- Everything `ActiveAt` promises for `d ≥ 0`, phrased on the loop started from `(0, 0)`. -/
theorem activeAtLoop_spec (segs : List Seg) (d : Int) (hd : 0 ≤ d) :
    let r := activeAtLoop d 0 0 segs
    r.1 = lenSum (segs.take r.2) ∧ r.1 ≤ d ∧ r.2 ≤ segs.length ∧
    (covered segs d = true ↔ r.2 < segs.length) ∧
    (∀ s, segs[r.2]? = some s → den segs d = s.mag ∧ ∀ l, s.len = some l → d < r.1 + l) ∧
    (∀ s ∈ segs.take r.2, s.len ≠ none) := by
  induction segs generalizing d with
  | nil => simp [activeAtLoop, lenSum, covered, hd]
  | cons s rest ih =>
    cases hs : s.len with
    | none =>
      rw [activeAtLoop_cons_none d s rest hs]
      refine ⟨by simp [lenSum], hd, by simp, ?_, ?_, by simp⟩
      · simp [covered_cons_none s rest d hs hd]
      · intro s' h'
        simp at h'
        subst h'
        exact ⟨den_cons_none s rest d hs hd, fun l hl => by rw [hs] at hl; cases hl⟩
    | some l =>
      rw [activeAtLoop_cons_some d s rest l hs]
      by_cases h : l > d
      · simp only [h, if_true]
        refine ⟨by simp [lenSum], hd, by simp, ?_, ?_, by simp⟩
        · have : d < l := by omega
          simp [covered_cons_some s rest d l hs hd, this]
        · intro s' h'
          simp at h'
          subst h'
          have hdl : d < l := by omega
          refine ⟨by simp [den_cons_some s rest d l hs hd, hdl], fun l' hl' => ?_⟩
          rw [hs] at hl'
          cases hl'
          omega
      · simp only [h, if_false]
        have hd' : 0 ≤ d - l := by omega
        obtain ⟨h1, h2, h3, h4, h5, h6⟩ := ih (d - l) hd'
        have hnl : ¬ d < l := by omega
        refine ⟨?_, by omega, by simp; omega, ?_, ?_, ?_⟩
        · simp only [List.take_succ_cons, lenSum, hs, Option.getD_some]
          rw [← h1]
        · rw [covered_cons_some s rest d l hs hd]
          simp only [hnl, if_false, List.length_cons]
          rw [h4]
          omega
        · intro s' h'
          rw [List.getElem?_cons_succ] at h'
          obtain ⟨ha, hb⟩ := h5 s' h'
          refine ⟨?_, fun l' hl' => ?_⟩
          · rw [den_cons_some s rest d l hs hd]
            simp [hnl, ha]
          · have := hb l' hl'
            omega
        · intro x hx
          simp only [List.take_succ_cons, List.mem_cons] at hx
          rcases hx with rfl | hx
          · rw [hs]; simp
          · exact h6 x hx

/-! ### MagnitudeAt -/

theorem magnitudeAt_eq (d : Int) (segs : List Seg) :
    magnitudeAt d segs = (den segs d, covered segs d) := by
  unfold magnitudeAt
  by_cases hd : d < 0
  · simp [hd, den_neg segs d hd, covered_neg segs d hd]
  · have hd' : 0 ≤ d := by omega
    simp only [hd, if_false, activeAt]
    obtain ⟨_, _, h3, h4, h5, _⟩ := activeAtLoop_spec segs d hd'
    cases hget : segs[(activeAtLoop d 0 0 segs).2]? with
    | none =>
      have hlen : segs.length ≤ (activeAtLoop d 0 0 segs).2 := List.getElem?_eq_none_iff.mp hget
      have hc : covered segs d = false := by
        cases hcov : covered segs d with
        | false => rfl
        | true => have := h4.mp hcov; omega
      simp [hc, den_of_not_covered segs d hc]
    | some s =>
      have hlt : (activeAtLoop d 0 0 segs).2 < segs.length := by
        have := List.getElem?_eq_some_iff.mp hget
        exact this.1
      have hc := h4.mpr hlt
      simp [hc, (h5 s hget).1]

/-! ### Duration -/

theorem durationLoop_shift (segs : List Seg) (total : Int) :
    durationLoop total segs = (total + (durationLoop 0 segs).1, (durationLoop 0 segs).2) := by
  induction segs generalizing total with
  | nil => simp [durationLoop]
  | cons s rest ih =>
    cases hs : s.len with
    | none => simp [durationLoop, hs]
    | some l =>
      simp only [durationLoop, hs]
      rw [ih (total + l), ih (0 + l)]
      refine Prod.ext ?_ ?_ <;> simp <;> omega

theorem duration_nonneg (segs : List Seg) (h : NonNeg segs) : 0 ≤ (durationLoop 0 segs).1 := by
  induction segs with
  | nil => simp [durationLoop]
  | cons s rest ih =>
    cases hs : s.len with
    | none => simp [durationLoop, hs]
    | some l =>
      simp only [durationLoop, hs]
      rw [durationLoop_shift rest (0 + l)]
      have := ih h.tail
      have := h.head l hs
      simp
      omega

theorem covered_iff_duration (segs : List Seg) (h : NonNeg segs) (t : Int) :
    covered segs t = true ↔ 0 ≤ t ∧ ((duration segs).2 = true ∨ t < (duration segs).1) := by
  unfold duration
  induction segs generalizing t with
  | nil => simp [covered, durationLoop]
  | cons s rest ih =>
    by_cases ht : t < 0
    · rw [covered_neg _ _ ht]
      constructor
      · intro h; cases h
      · intro h; omega
    · have ht' : 0 ≤ t := by omega
      cases hs : s.len with
      | none => simp [covered_cons_none s rest t hs ht', durationLoop, hs, ht']
      | some l =>
        rw [covered_cons_some s rest t l hs ht']
        simp only [durationLoop, hs]
        rw [durationLoop_shift rest (0 + l)]
        have hl := h.head l hs
        have hr := duration_nonneg rest h.tail
        by_cases htl : t < l
        · simp only [htl, if_true, true_iff]
          refine ⟨ht', Or.inr ?_⟩
          simp
          omega
        · simp only [htl, if_false]
          rw [ih h.tail (t - l)]
          simp
          constructor <;> rintro ⟨h1, h2 | h2⟩ <;> refine ⟨by omega, ?_⟩ <;>
            first | exact Or.inl h2 | (right; omega)

/-! ### Cut -/

theorem den_single (s : Seg) (t : Int) :
    den [s] t = if t < 0 then 0 else match s.len with
      | none => s.mag
      | some l => if t < l then s.mag else 0 := by
  simp only [den]
  split
  · rfl
  · cases s.len <;> rfl

theorem cutSeg_spec (d : Int) (s : Seg) (hd : 0 ≤ d) :
    (∀ t, t < d → denOpt (cutSeg d s).before t = den [s] t) ∧
    (∀ t, d ≤ t → denOpt (cutSeg d s).before t = 0) ∧
    (∀ t, 0 ≤ t → denOpt (cutSeg d s).after t = den [s] (t + d)) := by
  unfold cutSeg
  by_cases h0 : d ≤ 0
  · have hd0 : d = 0 := by omega
    subst hd0
    simp only [Int.le_refl, if_true, denOpt]
    refine ⟨fun t ht => ?_, by intros; first | rfl | trivial, fun t _ => by simp⟩
    rw [den_neg _ _ ht]
  · simp only [h0, if_false]
    cases hs : s.len with
    | none =>
      simp only [denOpt]
      refine ⟨fun t ht => ?_, fun t ht => ?_, fun t ht => ?_⟩
      · simp only [den_single, hs]
        by_cases h : t < 0 <;> simp [h, ht]
      · simp only [den_single]
        have h1 : ¬ t < 0 := by omega
        have h2 : ¬ t < d := by omega
        simp [h1, h2]
      · simp only [den_single, hs]
        have h1 : ¬ t < 0 := by omega
        have h2 : ¬ t + d < 0 := by omega
        simp [h1, h2]
    | some l =>
      by_cases hl : l ≤ d
      · simp only [hl, if_true, denOpt]
        refine ⟨by intros; first | rfl | trivial, fun t ht => ?_, fun t ht => ?_⟩
        · simp only [den_single, hs]
          have h1 : ¬ t < 0 := by omega
          have h2 : ¬ t < l := by omega
          simp [h1, h2]
        · simp only [den_single, hs]
          have h1 : ¬ t + d < 0 := by omega
          have h2 : ¬ t + d < l := by omega
          simp [h1, h2]
      · simp only [hl, if_false, denOpt]
        refine ⟨fun t ht => ?_, fun t ht => ?_, fun t ht => ?_⟩
        · simp only [den_single, hs]
          by_cases h : t < 0
          · simp [h]
          · have : t < l := by omega
            simp [h, ht, this]
        · simp only [den_single]
          have h1 : ¬ t < 0 := by omega
          have h2 : ¬ t < d := by omega
          simp [h1, h2]
        · simp only [den_single, hs]
          have h1 : ¬ t < 0 := by omega
          have h2 : ¬ t + d < 0 := by omega
          simp only [h1, h2, if_false]
          by_cases h3 : t < l - d
          · have : t + d < l := by omega
            simp [h3, this]
          · have : ¬ t + d < l := by omega
            simp [h3, this]

theorem cutSeg_neg (d : Int) (s : Seg) (hd : d < 0) : cutSeg d s = ⟨none, some s, true⟩ := by
  have : d ≤ 0 := by omega
  simp [cutSeg, this, hd]

/-- `after` is present whenever the cut point lies strictly inside the segment (or at 0). -/
theorem cutSeg_after_isSome (d : Int) (s : Seg) (h : ∀ l, s.len = some l → d < l) :
    (cutSeg d s).after.isSome = true := by
  unfold cutSeg
  by_cases h0 : d ≤ 0
  · simp [h0]
  · simp only [h0, if_false]
    cases hs : s.len with
    | none => simp
    | some l =>
      have : ¬ l ≤ d := by have := h l hs; omega
      simp [this]

/-! ### Shift -/

theorem shiftNegLoop_spec (D : Int) (segs : List Seg) (cur t : Int) (hc : cur ≤ D) (ht : 0 ≤ t) :
    den (shiftNegLoop D cur segs) t = den segs (t + (D - cur)) := by
  induction segs generalizing cur with
  | nil => simp [shiftNegLoop, den]
  | cons s rest ih =>
    have ht2 : 0 ≤ t + (D - cur) := by omega
    cases hs : s.len with
    | none =>
      simp only [shiftNegLoop, hs]
      rw [den_cons_none s rest t hs ht, den_cons_none s rest _ hs ht2]
    | some l =>
      simp only [shiftNegLoop, hs]
      by_cases h : cur + l > D
      · simp only [h, if_true]
        rw [den_cons_some s rest _ l hs ht2]
        unfold cutSeg
        by_cases h0 : D - cur ≤ 0
        · have e : D - cur = 0 := by omega
          simp only [e, Int.le_refl, if_true, Option.getD_some, Int.add_zero]
          rw [den_cons_some s rest t l hs ht]
        · have hl : ¬ l ≤ D - cur := by omega
          simp only [h0, if_false, hs, hl, Option.getD_some]
          rw [den_cons_some ⟨s.mag, some (l - (D - cur))⟩ rest t (l - (D - cur)) rfl ht]
          by_cases h3 : t < l - (D - cur)
          · have : t + (D - cur) < l := by omega
            simp [h3, this]
          · have : ¬ t + (D - cur) < l := by omega
            simp only [h3, this, if_false]
            congr 1
            omega
      · simp only [h, if_false]
        rw [ih (cur + l) (by omega)]
        rw [den_cons_some s rest _ l hs ht2]
        have : ¬ t + (D - cur) < l := by omega
        simp only [this, if_false]
        congr 1
        omega

/-- The negative branch never stores a `nil` element: whenever it calls `Cut`, `after` is present. -/
theorem shiftNegLoop_after_isSome (D cur : Int) (s : Seg) (l : Int) (hs : s.len = some l)
    (h : cur + l > D) : (cutSeg (D - cur) s).after.isSome = true :=
  cutSeg_after_isSome _ _ (fun l' hl' => by rw [hs] at hl'; cases hl'; omega)

theorem shift_spec (d : Int) (segs : List Seg) (hnn : NonNeg segs) (t : Int) :
    den (shift d segs) t = if t < 0 then 0 else den segs (t - d) := by
  by_cases htn : t < 0
  · simp only [htn, if_true]
    exact den_neg _ _ htn
  · have ht : 0 ≤ t := by omega
    simp only [htn, if_false]
    unfold shift
    by_cases hd0 : d = 0
    · subst hd0; simp
    · simp only [hd0, if_false]
      cases segs with
      | nil => simp [den]
      | cons first rest =>
        by_cases hpos : d > 0
        · simp only [hpos, if_true]
          by_cases hm : first.mag = 0
          · simp only [hm, if_true]
            cases hf : first.len with
            | none =>
              simp only []
              by_cases htd : t - d < 0
              · rw [den_neg _ _ htd, den_cons_none first rest t hf ht, hm]
              · rw [den_cons_none first rest t hf ht, den_cons_none first rest _ hf (by omega)]
            | some l =>
              simp only []
              rw [den_cons_some ⟨0, some (l + d)⟩ rest t (l + d) rfl ht]
              by_cases htd : t - d < 0
              · rw [den_neg _ _ htd]
                by_cases h1 : t < l + d
                · simp [h1]
                · -- impossible for a non-negative length (t < d ≤ l + d)
                  have := hnn.head l hf
                  omega
              · rw [den_cons_some first rest _ l hf (by omega)]
                by_cases h1 : t < l + d
                · have : t - d < l := by omega
                  simp [h1, this, hm]
                · have : ¬ t - d < l := by omega
                  simp only [h1, this, if_false]
                  congr 1
                  omega
          · simp only [hm, if_false]
            rw [den_cons_some ⟨0, some d⟩ (first :: rest) t d rfl ht]
            by_cases htd : t < d
            · simp only [htd, if_true]
              exact (den_neg _ _ (by omega)).symm
            · simp [htd]
        · simp only [hpos, if_false]
          rw [shiftNegLoop_spec (-d) (first :: rest) 0 t (by omega) ht]
          congr 1
          omega

end ScVerif.C18
