import ScVerif.C18.ModeLemmas
/-!
Lemmas for PropsLaws: the operations return well-formed lists again (so the step-function laws
compose), and the shape of the first element of `Sum`.
-/
namespace ScVerif.C18

/-- Every present length is strictly positive. -/
def Pos (segs : List Seg) : Prop := ∀ s ∈ segs, ∀ l, s.len = some l → 0 < l

/-- Only the last element may be length-less. -/
def FinInit : List Seg → Prop
  | [] => True
  | [_] => True
  | s :: s' :: t => s.len ≠ none ∧ FinInit (s' :: t)

theorem Pos.nonNeg {segs : List Seg} (h : Pos segs) : NonNeg segs :=
  fun s hs l hl => Int.le_of_lt (h s hs l hl)

theorem finInit_cons (x : Seg) (r : List Seg) (hx : x.len ≠ none) (hr : FinInit r) : FinInit (x :: r) := by
  cases r with
  | nil => trivial
  | cons y t => exact ⟨hx, hr⟩

/-- In a `FinInit` list every element but the last has a length. -/
theorem finInit_getElem (segs : List Seg) (h : FinInit segs) (i : Nat) (hi : i + 1 < segs.length)
    (s : Seg) (hs : segs[i]? = some s) : s.len ≠ none := by
  induction segs generalizing i with
  | nil => simp at hi
  | cons x r ih =>
    cases r with
    | nil => simp at hi
    | cons y t =>
      cases i with
      | zero => simp at hs; subst hs; exact h.1
      | succ j =>
        simp only [List.getElem?_cons_succ] at hs
        exact ih h.2 j (by simp at hi ⊢; omega) hs

/-! ### `Cut` of one segment -/

theorem cutSeg_nonNeg (d : Int) (s : Seg) (h : NonNeg [s]) :
    NonNeg (optToList (cutSeg d s).before) ∧ NonNeg (optToList (cutSeg d s).after) := by
  unfold cutSeg
  by_cases hd : d ≤ 0
  · simp only [hd, if_true, optToList]
    exact ⟨fun x hx => by simp at hx, h⟩
  · simp only [hd, if_false]
    cases hs : s.len with
    | none =>
      simp only [optToList]
      refine ⟨fun x hx l hl => ?_, h⟩
      simp at hx; subst hx; simp at hl; omega
    | some l =>
      simp only []
      by_cases hl : l ≤ d
      · simp only [hl, if_true, optToList]
        exact ⟨h, fun x hx => by simp at hx⟩
      · simp only [hl, if_false, optToList]
        refine ⟨fun x hx l' hl' => ?_, fun x hx l' hl' => ?_⟩
        · simp at hx; subst hx; simp at hl'; omega
        · simp at hx; subst hx; simp at hl'; omega

/-! ### `Shift` -/

theorem shiftNegLoop_nonNeg (D : Int) (segs : List Seg) (cur : Int) (h : NonNeg segs) :
    NonNeg (shiftNegLoop D cur segs) := by
  induction segs generalizing cur with
  | nil => simp [shiftNegLoop]; exact fun s hs => by simp at hs
  | cons s rest ih =>
    cases hl : s.len with
    | none => simp only [shiftNegLoop, hl]; exact h
    | some l =>
      simp only [shiftNegLoop, hl]
      by_cases hc : cur + l > D
      · simp only [hc, if_true]
        intro x hx len hlen
        rcases List.mem_cons.mp hx with rfl | hx
        · have hone : NonNeg [s] := fun y hy => by
            simp at hy; subst hy; exact h y List.mem_cons_self
          have := (cutSeg_nonNeg (D - cur) s hone).2
          cases ha : (cutSeg (D - cur) s).after with
          | none => rw [ha] at hlen; simp [nilSeg] at hlen
          | some sa =>
            rw [ha] at this hlen
            exact this sa (by simp [optToList]) len (by simpa using hlen)
        · exact h.tail x hx len hlen
      · simp only [hc, if_false]
        exact ih (cur + l) h.tail

theorem shift_nonNeg_any (d : Int) (segs : List Seg) (h : NonNeg segs) : NonNeg (shift d segs) := by
  by_cases hd : 0 ≤ d
  · exact shift_nonNeg d segs hd h
  · unfold shift
    have h0 : ¬ d = 0 := by omega
    have h1 : ¬ d > 0 := by omega
    simp only [h0, if_false]
    cases segs with
    | nil => exact h
    | cons first rest =>
      simp only [h1, if_false]
      exact shiftNegLoop_nonNeg _ _ _ h

/-! ### `Sum` -/

theorem emit_wf (drop : Int → Bool) (es : List Edge) (mag lt : Int) (hs : SortedT es)
    (hge : ∀ e ∈ es, lt ≤ e.time) : Pos (emit drop mag lt es) ∧ FinInit (emit drop mag lt es) := by
  induction es generalizing mag lt with
  | nil =>
    simp only [emit]
    split
    · exact ⟨fun s hs => by simp at hs, trivial⟩
    · exact ⟨fun s hs l hl => by simp at hs; subst hs; simp at hl, trivial⟩
  | cons e es ih =>
    have hs' : SortedT es := (List.pairwise_cons.mp hs).2
    have hle : ∀ e' ∈ es, e.time ≤ e'.time := (List.pairwise_cons.mp hs).1
    have h0 := hge e List.mem_cons_self
    simp only [emit]
    by_cases hz : e.time - lt = 0
    · simp only [hz, if_true]
      exact ih (mag + e.delta) lt hs' (fun e' he' => hge e' (List.mem_cons_of_mem _ he'))
    · simp only [hz, if_false]
      obtain ⟨p, f⟩ := ih (mag + e.delta) e.time hs' hle
      refine ⟨fun s hs l hl => ?_, finInit_cons _ _ (by simp) f⟩
      rcases List.mem_cons.mp hs with rfl | hs
      · simp at hl; omega
      · exact p s hs l hl

theorem sum_wf (ls : List (List Seg)) (h : AllNonNeg ls) : Pos (sum ls) ∧ FinInit (sum ls) := by
  unfold sum
  have hsorted := sortEdges_sorted (rawEdges ls)
  have hge : ∀ e ∈ calcCuts ls, 0 ≤ e.time := fun e he =>
    rawEdges_time_ge ls h e ((sortEdges_perm (rawEdges ls)).subset he)
  cases hc : calcCuts ls with
  | nil => exact ⟨fun s hs => by simp [sumEdges] at hs, trivial⟩
  | cons e es =>
    simp only [sumEdges]
    rw [hc] at hge
    unfold calcCuts at hc
    rw [hc] at hsorted
    exact emit_wf _ (e :: es) 0 0 hsorted hge

/-- When the first edge is at `a > 0` — every list idles until `a` — `Sum` starts with the idle segment
`{0, a}`: the leading idle time is part of the result. -/
theorem sum_leading_idle (ls : List (List Seg)) (e : Edge) (es : List Edge) (hc : calcCuts ls = e :: es)
    (ha : 0 < e.time) : (sum ls).head? = some ⟨0, some e.time⟩ := by
  unfold sum
  rw [hc]
  have hz : ¬ e.time = 0 := by omega
  simp only [sumEdges, emit, Int.sub_zero, hz, if_false, List.head?_cons]

/-! ### pointwise sums -/

theorem denSum_append (a b : List (List Seg)) (t : Int) : denSum (a ++ b) t = denSum a t + denSum b t := by
  induction a with
  | nil => simp [denSum]
  | cons l a ih => simp only [List.cons_append, denSum, ih]; omega

theorem allNonNeg_append {a b : List (List Seg)} (ha : AllNonNeg a) (hb : AllNonNeg b) : AllNonNeg (a ++ b) := by
  intro l hl
  rcases List.mem_append.mp hl with h | h
  · exact ha l h
  · exact hb l h

/-! ### modes -/

theorem nonNeg_take (segs : List Seg) (n : Nat) (h : NonNeg segs) : NonNeg (segs.take n) :=
  fun s hs => h s (List.mem_of_mem_take hs)

theorem nonNeg_drop (segs : List Seg) (n : Nat) (h : NonNeg segs) : NonNeg (segs.drop n) :=
  fun s hs => h s (List.mem_of_mem_drop hs)

theorem nonNeg_append (a b : List Seg) (ha : NonNeg a) (hb : NonNeg b) : NonNeg (a ++ b) := by
  intro s hs
  rcases List.mem_append.mp hs with h | h
  · exact ha s h
  · exact hb s h

def optNonNeg : Option Mode → Prop
  | none => True
  | some m => NonNeg m.segs

theorem modeCut_nonNeg (t : Int) (m : Mode) (h : NonNeg m.segs) :
    optNonNeg (modeCut t m).before ∧ optNonNeg (modeCut t m).after := by
  unfold modeCut
  by_cases h0 : m.segs.length = 0
  · simp only [h0, if_true, optNonNeg]; exact ⟨h, h⟩
  · simp only [h0, if_false]
    by_cases hgt : t > tOrST t m
    · have hgt' : ¬¬ (t > tOrST t m) := fun x => x hgt
      simp only [hgt', if_false]
      by_cases hend : (activeAt (t - tOrST t m) m.segs).2 = m.segs.length
      · simp only [hend, if_true, optNonNeg]; exact ⟨h, trivial⟩
      · simp only [hend, if_false]
        cases hs : m.segs[(activeAt (t - tOrST t m) m.segs).2]? with
        | none => simp only [optNonNeg]; exact ⟨trivial, trivial⟩
        | some s =>
          simp only [optNonNeg]
          have hone : NonNeg [s] := fun y hy => by
            simp at hy; subst hy; exact h y (List.mem_of_getElem? hs)
          obtain ⟨hb, ha⟩ := cutSeg_nonNeg (t - tOrST t m - (activeAt (t - tOrST t m) m.segs).1) s hone
          constructor
          · cases hcb : (cutSeg (t - tOrST t m - (activeAt (t - tOrST t m) m.segs).1) s).before with
            | none => exact nonNeg_take _ _ h
            | some sb =>
              rw [hcb] at hb
              exact nonNeg_append _ _ (nonNeg_take _ _ h) hb
          · cases hca : (cutSeg (t - tOrST t m - (activeAt (t - tOrST t m) m.segs).1) s).after with
            | none => exact nonNeg_drop _ _ h
            | some sa =>
              rw [hca] at ha
              exact nonNeg_append [sa] _ ha (nonNeg_drop _ _ h)
    · simp only [hgt, not_false_eq_true, if_true, optNonNeg]; exact ⟨trivial, h⟩

/-- When `modepb.Cut` returns two parts, either the mode has no segments (both parts are the mode itself)
or it has a start time `s < t`, `before` starts at `s` and `after` at `t`. -/
theorem modeCut_two_sided (t : Int) (m : Mode) (b a : Mode)
    (hb : (modeCut t m).before = some b) (ha : (modeCut t m).after = some a) :
    (m.segs = [] ∧ b = m ∧ a = m) ∨
    (∃ s, m.start = some s ∧ s < t ∧ b.start = some s ∧ a.start = some t) := by
  unfold modeCut at hb ha
  by_cases h0 : m.segs.length = 0
  · simp only [h0, if_true] at hb ha
    cases hb; cases ha
    exact Or.inl ⟨List.length_eq_zero_iff.mp h0, rfl, rfl⟩
  · simp only [h0, if_false] at hb ha
    by_cases hgt : t > tOrST t m
    · have hgt' : ¬¬ (t > tOrST t m) := fun x => x hgt
      simp only [hgt', if_false] at hb ha
      by_cases hend : (activeAt (t - tOrST t m) m.segs).2 = m.segs.length
      · simp only [hend, if_true] at ha; cases ha
      · simp only [hend, if_false] at hb ha
        cases hs : m.segs[(activeAt (t - tOrST t m) m.segs).2]? with
        | none => rw [hs] at hb; cases hb
        | some sg =>
          rw [hs] at hb ha
          simp only [Option.some.injEq] at hb ha
          right
          cases hst : m.start with
          | none => rw [tOrST_eq, hst] at hgt; simp at hgt
          | some s =>
            rw [tOrST_eq, hst] at hgt
            simp only [Option.getD_some] at hgt
            refine ⟨s, rfl, hgt, ?_, ?_⟩
            · rw [← hb]; split <;> simp [hst]
            · rw [← ha]; split <;> rfl
    · simp only [hgt, not_false_eq_true, if_true] at hb; cases hb

theorem modeShift_nonNeg (d : Int) (m : Mode) (h : NonNeg m.segs) : NonNeg (modeShift d m).segs := by
  unfold modeShift
  by_cases hd : d = 0
  · simp only [hd, if_true]; exact h
  · simp only [hd, if_false]
    cases m.start with
    | none => exact shift_nonNeg_any d m.segs h
    | some s => exact h

theorem modeSum_wf (ms : List Mode) (hne : ms ≠ []) (hnn : ∀ m ∈ ms, NonNeg m.segs) :
    ∃ r, modeSum ms = some r ∧ Pos r.segs ∧ FinInit r.segs := by
  cases ms with
  | nil => exact absurd rfl hne
  | cons m0 ms0 =>
    have hsp := startsLoop_spec (m0 :: ms0) none none (Or.inl ⟨rfl, rfl⟩)
    simp only [] at hsp
    have hall : AllNonNeg ((m0 :: ms0).map (·.segs)) := by
      intro l hl
      obtain ⟨m, hm, rfl⟩ := List.mem_map.mp hl
      exact hnn m hm
    rcases hsp with ⟨h1, h2, _, _⟩ | ⟨a, b, h1, h2, hab, _, _, hbounds, _, _⟩
    · have hpair : startsLoop none none (m0 :: ms0) = (none, none) := Prod.ext h1 h2
      refine ⟨⟨none, sum ((m0 :: ms0).map (·.segs))⟩, ?_, sum_wf _ hall⟩
      simp only [modeSum, hpair]
    · have hpair : startsLoop none none (m0 :: ms0) = (some a, some b) := Prod.ext h1 h2
      obtain ⟨i1, _, _⟩ := alignLoop_spec a b (m0 :: ms0) hnn hab (fun s hs => (hbounds s hs).1)
      refine ⟨⟨some a, sum (alignLoop a b (m0 :: ms0))⟩, ?_, sum_wf _ i1⟩
      simp only [modeSum, hpair]

/-! ### argument order -/

theorem rawEdges_perm {a b : List (List Seg)} (h : a.Perm b) : (rawEdges a).Perm (rawEdges b) := by
  induction h with
  | nil => exact List.Perm.refl _
  | cons x _ ih => simp only [rawEdges]; exact List.Perm.append_left _ ih
  | swap x y l =>
    simp only [rawEdges]
    rw [← List.append_assoc, ← List.append_assoc]
    exact List.Perm.append_right _ List.perm_append_comm
  | trans _ _ ih1 ih2 => exact ih1.trans ih2

theorem anyInfinite_perm {a b : List (List Seg)} (h : a.Perm b) : anyInfinite a = anyInfinite b := by
  unfold anyInfinite
  induction h with
  | nil => rfl
  | cons x _ ih => simp only [List.any_cons, ih]
  | swap x y l => simp only [List.any_cons]; rw [← Bool.or_assoc, ← Bool.or_assoc, Bool.or_comm (duration x).2]
  | trans _ _ ih1 ih2 => rw [ih1, ih2]

theorem alignLoop_eq_map (e l : Int) (ms : List Mode) :
    alignLoop e l ms = ms.map (fun m => shift (m.start.getD l - e) m.segs) := by
  induction ms with
  | nil => rfl
  | cons m ms ih => simp only [alignLoop, List.map_cons, ih]

theorem starts_perm {a b : List Mode} (h : a.Perm b) : (starts a).Perm (starts b) := by
  unfold starts; exact h.filterMap _

theorem startsLoop_perm {a b : List Mode} (h : a.Perm b) :
    startsLoop none none a = startsLoop none none b := by
  have sa := startsLoop_spec a none none (Or.inl ⟨rfl, rfl⟩)
  have sb := startsLoop_spec b none none (Or.inl ⟨rfl, rfl⟩)
  simp only [] at sa sb
  have hp := starts_perm h
  rcases sa with ⟨a1, a2, _, as⟩ | ⟨x, y, a1, a2, _, ax, ay, aall, _, _⟩
  · rcases sb with ⟨b1, b2, _, _⟩ | ⟨x', y', _, _, _, bx, _, _, _, _⟩
    · exact Prod.ext (a1.trans b1.symm) (a2.trans b2.symm)
    · exfalso
      rcases bx with bx | bx
      · have := hp.symm.subset bx; rw [as] at this; cases this
      · cases bx
  · rcases sb with ⟨_, _, _, bs⟩ | ⟨x', y', b1, b2, _, bx, by', ball, _, _⟩
    · exfalso
      rcases ax with ax | ax
      · have := hp.subset ax; rw [bs] at this; cases this
      · cases ax
    · have hx : x ∈ starts a := by rcases ax with h | h; exact h; cases h
      have hy : y ∈ starts a := by rcases ay with h | h; exact h; cases h
      have hx' : x' ∈ starts b := by rcases bx with h | h; exact h; cases h
      have hy' : y' ∈ starts b := by rcases by' with h | h; exact h; cases h
      have e1 : x = x' := by
        have := (aall x' (hp.symm.subset hx')).1
        have := (ball x (hp.subset hx)).1
        omega
      have e2 : y = y' := by
        have := (aall y' (hp.symm.subset hy')).2
        have := (ball y (hp.subset hy)).2
        omega
      refine Prod.ext ?_ ?_
      · rw [a1, b1, e1]
      · rw [a2, b2, e2]

/-! ### `Shift` to the left in terms of `ActiveAt` and `Cut` -/

/-- What the negative branch of `Shift` returns, in terms of `ActiveAt`: the segments from the active one
on, the active one replaced by the `after` part of cutting it at the remaining offset. -/
def afterAt (D : Int) (segs : List Seg) : List Seg :=
  let r := activeAtLoop D 0 0 segs
  match segs.drop r.2 with
  | [] => []
  | s :: rest =>
    match s.len with
    | none => s :: rest
    | some _ => (cutSeg (D - r.1) s).after.getD nilSeg :: rest

theorem shiftNegLoop_eq_afterAt (D : Int) (segs : List Seg) (cur : Int) :
    shiftNegLoop D cur segs = afterAt (D - cur) segs := by
  induction segs generalizing cur with
  | nil => rfl
  | cons s rest ih =>
    cases hl : s.len with
    | none =>
      simp only [shiftNegLoop, hl, afterAt, activeAtLoop_cons_none _ s rest hl, List.drop_zero]
    | some l =>
      simp only [shiftNegLoop, hl]
      by_cases hc : cur + l > D
      · have h' : l > D - cur := by omega
        simp only [hc, if_true, afterAt, activeAtLoop_cons_some _ s rest l hl, h', List.drop_zero, hl]
        simp
      · have h' : ¬ l > D - cur := by omega
        simp only [hc, if_false]
        rw [ih (cur + l)]
        simp only [afterAt, activeAtLoop_cons_some _ s rest l hl, h', if_false, List.drop_succ_cons]
        have e1 : D - (cur + l) = D - cur - l := by omega
        rw [e1]
        have e2 : ∀ x : Int, D - cur - (l + x) = D - cur - l - x := fun x => by omega
        simp only [e2]

end ScVerif.C18
