import ScVerif.C18.Shape
import ScVerif.C18.Mode
/-!
# C18 — the `shape` oneof through the operations that carry segments along

`segmentpb.Shift`, `modepb.Cut` and `modepb.Shift` never look at a segment's shape themselves, but they move
whole segments into their results (shared, or through `proto.Clone`), build fresh ones, and delegate to
`segmentpb.Cut`, which does have shape logic (`Shape.lean`).  `segmentpb.Sum` / `modepb.Sum` build every result
segment from a magnitude and a length only ("We ignore shape for now").  The definitions below follow the same
Go code as `shift`, `modeCut`, `modeShift`, `modeSum` on segments WITH their shape, saying for every result
element where its shape comes from:

* `Shift(d > 0)`, first segment idle with a length: the first segment is CLONED and its length extended — the
  clone keeps the shape; otherwise a fresh idle segment WITHOUT shape is put in front; all other elements are the
  argument's own segments;
* `Shift(d < 0)`: the first kept element is the `after` part of `Cut` (shape per `cutSegS`), the rest are shared;
* `modepb.Cut`: `before`/`after` are clones of the mode (all its other fields included, `ModeS.info`) whose
  segment lists are re-sliced around the two parts of `segmentpb.Cut`; `modepb.Shift` clones the mode too;
* `Sum`: no result segment has a shape.

`PropsShape` proves that erasing the shapes gives the shape-free model (so every step-function theorem speaks
about shaped lists too) and relates the results to the CONSUMPTION function (the `Fixed` value where set, else
the magnitude).
-/
namespace ScVerif.C18

/-- Erase the shapes of a list. -/
def eraseS (l : List SegS) : List Seg := l.map (·.seg)

/-- The stand-in for a Go `nil` list element (never used, as for `shiftNegLoop`). -/
def nilSegS : SegS := ⟨nilSeg, none⟩

/-- The loop of the negative branch of `Shift` on shaped segments. -/
def shiftNegLoopS (d : Int) : Int → List SegS → List SegS
  | _, [] => []
  | cur, s :: rest =>
    match s.seg.len with
    | none => s :: rest
    | some l =>
      if cur + l > d then ((cutSegS (d - cur) s).after.getD nilSegS) :: rest
      else shiftNegLoopS d (cur + l) rest

/-- `Shift(d, segments...)` on shaped segments. -/
def shiftS (d : Int) (segs : List SegS) : List SegS :=
  if d = 0 then segs
  else
    match segs with
    | [] => []
    | first :: rest =>
      if d > 0 then
        if first.seg.mag = 0 then
          match first.seg.len with
          | none => first :: rest
          | some l => ⟨⟨first.seg.mag, some (l + d)⟩, first.shape⟩ :: rest  -- proto.Clone keeps the shape
        else ⟨⟨0, some d⟩, none⟩ :: first :: rest
      else shiftNegLoopS (-d) 0 (first :: rest)

/-- `Sum(segmentSlices...)` on shaped segments: shapes are ignored on the way in and absent on the way out. -/
def sumS (ls : List (List SegS)) : List SegS := (sum (ls.map eraseS)).map (fun s => ⟨s, none⟩)

/-- A mode whose segments carry their shape, together with `info`, ONE opaque token for all the non-timing
fields of an `ElectricMode` (id, title, description, voltage, normal); `0` = none of them set. -/
structure ModeS where
  start : Option Int
  segs : List SegS
  info : Nat
deriving Repr, DecidableEq

def ModeS.erase (m : ModeS) : Mode := ⟨m.start, eraseS m.segs⟩

structure ModeCutResultS where
  before : Option ModeS
  after : Option ModeS
  outside : Bool
deriving Repr, DecidableEq

/-- `modepb.Cut(t, mode)` on a mode with shaped segments (same steps as `modeCut`). -/
def modeCutS (t : Int) (m : ModeS) : ModeCutResultS :=
  if m.segs.length = 0 then ⟨some m, some m, true⟩
  else
    let st := tOrST t m.erase
    if ¬ (t > st) then ⟨none, some m, decide (t < st)⟩
    else
      let d := t - st
      let ei := activeAt d (eraseS m.segs)
      if ei.2 = m.segs.length then ⟨some m, none, true⟩
      else
        match m.segs[ei.2]? with
        | none => ⟨none, none, true⟩
        | some s =>
          let c := cutSegS (d - ei.1) s
          let before : ModeS :=
            match c.before with
            | none => { m with segs := m.segs.take ei.2 }           -- before = proto.Clone(mode), re-sliced
            | some sb => { m with segs := m.segs.take ei.2 ++ [sb] }
          let after : ModeS :=
            match c.after with
            | none => { m with start := some t, segs := m.segs.drop (ei.2 + 1) }  -- after = proto.Clone(mode)
            | some sa => { m with start := some t, segs := sa :: m.segs.drop (ei.2 + 1) }
          ⟨some before, some after, false⟩

/-- `modepb.Shift(d, mode)` on a mode with shaped segments. -/
def modeShiftS (d : Int) (m : ModeS) : ModeS :=
  if d = 0 then m
  else
    match m.start with
    | none => { m with segs := shiftS d m.segs }              -- mode = proto.Clone(mode)
    | some s => { m with start := some (s + d) }

/-- `modepb.Sum(modes...)` on modes with shaped segments: the result is a fresh `ElectricMode{}` that gets a
start time and segments only — no shapes, "no metadata will be set on the returned mode". -/
def modeSumS (ms : List ModeS) : Option ModeS :=
  (modeSum (ms.map ModeS.erase)).map (fun m => ⟨m.start, m.segs.map (fun s => ⟨s, none⟩), 0⟩)

/-! ### Specification: the consumption a shaped list stands for -/

/-- A shaped segment read as the plain segment of its consumption (`Fixed` if set, else the magnitude). -/
def SegS.toFixed (s : SegS) : Seg := ⟨s.fixed, s.seg.len⟩

/-- A shaped mode read as the plain mode of its consumptions. -/
def ModeS.toFixed (m : ModeS) : Mode := ⟨m.start, m.segs.map SegS.toFixed⟩

/-- The consumption step function of a shaped list. -/
def denF (l : List SegS) (t : Int) : Int := den (l.map SegS.toFixed) t

end ScVerif.C18
