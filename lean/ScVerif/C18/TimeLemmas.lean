import ScVerif.C18.Time
/-! Helper lemmas for the C18 period/timestamp theorems (the property theorems are in `Props.lean`). -/
namespace ScVerif.C18

theorem compareAscending_cases (a b : Ts) :
    (compareAscending a b = -1 ∧ (a.secs < b.secs ∨ (a.secs = b.secs ∧ a.nanos < b.nanos))) ∨
    (compareAscending a b = 0 ∧ a.secs = b.secs ∧ a.nanos = b.nanos) ∨
    (compareAscending a b = 1 ∧ (a.secs > b.secs ∨ (a.secs = b.secs ∧ a.nanos > b.nanos))) := by
  unfold compareAscending
  by_cases h1 : a.secs < b.secs
  · simp [h1]
  · by_cases h2 : a.secs > b.secs
    · simp [h1, h2]
    · by_cases h3 : a.nanos < b.nanos
      · simp [h1, h2, h3]; omega
      · by_cases h4 : a.nanos > b.nanos
        · simp [h1, h2, h3, h4]; omega
        · simp [h1, h2, h3, h4]; omega

/-- On normalised timestamps the lexicographic comparison is the chronological one. -/
theorem compareAscending_toNs (a b : Ts) (ha : a.Normal) (hb : b.Normal) :
    (compareAscending a b = -1 ↔ a.toNs < b.toNs) ∧
    (compareAscending a b = 0 ↔ a.toNs = b.toNs) ∧
    (compareAscending a b = 1 ↔ a.toNs > b.toNs) := by
  unfold Ts.Normal at ha hb
  unfold Ts.toNs
  rcases compareAscending_cases a b with ⟨h, hc⟩ | ⟨h, hc⟩ | ⟨h, hc⟩ <;> rw [h] <;>
    refine ⟨?_, ?_, ?_⟩ <;> constructor <;> intro hh <;> first | omega | rfl

theorem compareAscending_lt_zero (a b : Ts) (ha : a.Normal) (hb : b.Normal) :
    compareAscending a b < 0 ↔ a.toNs < b.toNs := by
  have := compareAscending_toNs a b ha hb
  rcases compareAscending_cases a b with ⟨h, _⟩ | ⟨h, _⟩ | ⟨h, _⟩ <;> rw [h] at this ⊢ <;> omega

theorem compareAscending_le_zero (a b : Ts) (ha : a.Normal) (hb : b.Normal) :
    compareAscending a b ≤ 0 ↔ a.toNs ≤ b.toNs := by
  have := compareAscending_toNs a b ha hb
  rcases compareAscending_cases a b with ⟨h, _⟩ | ⟨h, _⟩ | ⟨h, _⟩ <;> rw [h] at this ⊢ <;> omega

/-- `below s` compared with `below e` is the comparison of the instants. -/
theorem below_below_lt (s e : Ts) (hs : s.Normal) (he : e.Normal) :
    (Cut.below s).compareTo (.below e) < 0 ↔ s.toNs < e.toNs := by
  have h := compareAscending_lt_zero s e hs he
  have h0 := compareAscending_toNs s e hs he
  simp only [Cut.compareTo, compareValueCuts]
  by_cases hr : compareAscending s e = 0
  · simp [hr]; omega
  · simp [hr]; exact h

theorem below_below_le (s e : Ts) (hs : s.Normal) (he : e.Normal) :
    (Cut.below s).compareTo (.below e) ≤ 0 ↔ s.toNs ≤ e.toNs := by
  have h := compareAscending_le_zero s e hs he
  have h0 := compareAscending_toNs s e hs he
  simp only [Cut.compareTo, compareValueCuts]
  by_cases hr : compareAscending s e = 0
  · simp [hr]; omega
  · simp [hr]; exact h

end ScVerif.C18

namespace ScVerif.C18

/-- Lower cut of `p` strictly below the upper cut of `q`, in terms of the instants. -/
theorem lower_lt_upper (p q : Period) (hp : optNormal p.start) (hq : optNormal q.stop) :
    (cutPeriod p).1.compareTo (cutPeriod q).2 < 0 ↔ bLt p.lo q.hi := by
  obtain ⟨ps, pe⟩ := p
  obtain ⟨qs, qe⟩ := q
  cases ps <;> cases pe <;> cases qs <;> cases qe <;>
    simp only [cutPeriod, optNormal, Period.lo, Period.hi, Option.map, bLt] at * <;>
    first
    | exact below_below_lt _ _ hp hq
    | simp [Cut.compareTo, compareValueCuts]

theorem lower_le_upper (p q : Period) (hp : optNormal p.start) (hq : optNormal q.stop) :
    (cutPeriod p).1.compareTo (cutPeriod q).2 ≤ 0 ↔ bLe p.lo q.hi := by
  obtain ⟨ps, pe⟩ := p
  obtain ⟨qs, qe⟩ := q
  cases ps <;> cases pe <;> cases qs <;> cases qe <;>
    simp only [cutPeriod, optNormal, Period.lo, Period.hi, Option.map, bLe] at * <;>
    first
    | exact below_below_le _ _ hp hq
    | simp [Cut.compareTo, compareValueCuts]

/-- Witness instant used to show two overlapping intervals share a point. -/
def witness (l1 l2 u1 u2 : Option Int) : Int :=
  match l1, l2 with
  | some a, some b => max a b
  | some a, none => a
  | none, some b => b
  | none, none =>
    match u1, u2 with
    | some c, some d => min c d - 1
    | some c, none => c - 1
    | none, some d => d - 1
    | none, none => 0

theorem exists_mem_iff (l1 u1 l2 u2 : Option Int) (h1 : bLt l1 u1) (h2 : bLt l2 u2) :
    (∃ x, (lbLe l1 x ∧ ubLt x u1) ∧ (lbLe l2 x ∧ ubLt x u2)) ↔ (bLt l1 u2 ∧ bLt l2 u1) := by
  constructor
  · rintro ⟨x, hx⟩
    cases l1 <;> cases u1 <;> cases l2 <;> cases u2 <;>
      simp only [lbLe, ubLt, bLt, and_true, true_and] at * <;> (try omega)
  · intro h
    refine ⟨witness l1 l2 u1 u2, ?_⟩
    cases l1 <;> cases u1 <;> cases l2 <;> cases u2 <;>
      simp only [lbLe, ubLt, bLt, witness, and_true, true_and] at * <;> (try omega)

def witnessC (l1 l2 u1 u2 : Option Int) : Int :=
  match l1, l2 with
  | some a, some b => max a b
  | some a, none => a
  | none, some b => b
  | none, none =>
    match u1, u2 with
    | some c, some d => min c d
    | some c, none => c
    | none, some d => d
    | none, none => 0

theorem exists_enclosed_iff (l1 u1 l2 u2 : Option Int) (h1 : bLe l1 u1) (h2 : bLe l2 u2) :
    (∃ x, (lbLe l1 x ∧ ubLe x u1) ∧ (lbLe l2 x ∧ ubLe x u2)) ↔ (bLe l1 u2 ∧ bLe l2 u1) := by
  constructor
  · rintro ⟨x, hx⟩
    cases l1 <;> cases u1 <;> cases l2 <;> cases u2 <;>
      simp only [lbLe, ubLe, bLe, and_true, true_and] at * <;> (try omega)
  · intro h
    refine ⟨witnessC l1 l2 u1 u2, ?_⟩
    cases l1 <;> cases u1 <;> cases l2 <;> cases u2 <;>
      simp only [lbLe, ubLe, bLe, witnessC, and_true, true_and] at * <;> (try omega)

/-! ### The order of cuts -/

/-- The complete decision table of `cut.CompareTo`: the result is the sign of the lexicographic
comparison of the keys. -/
theorem compareTo_cases (a b : Cut) :
    (a.compareTo b = -1 ∧ a.keyLt b) ∨ (a.compareTo b = 0 ∧ a = b) ∨ (a.compareTo b = 1 ∧ b.keyLt a) := by
  cases a with
  | belowAll => cases b <;> simp [Cut.compareTo, Cut.keyLt, Cut.cls]
  | aboveAll => cases b <;> simp [Cut.compareTo, Cut.keyLt, Cut.cls]
  | below s =>
    cases b with
    | belowAll => simp [Cut.compareTo, compareValueCuts, Cut.keyLt, Cut.cls]
    | aboveAll => simp [Cut.compareTo, compareValueCuts, Cut.keyLt, Cut.cls]
    | below t =>
      have hst : s = t ↔ (s.secs = t.secs ∧ s.nanos = t.nanos) := by cases s; cases t; simp
      rcases compareAscending_cases s t with ⟨h, hc⟩ | ⟨h, hc⟩ | ⟨h, hc⟩ <;>
        simp only [Cut.compareTo, compareValueCuts, h, Cut.keyLt, Cut.cls, Cut.ksecs, Cut.knanos, Cut.side,
          Cut.below.injEq, hst] <;> simp <;> omega
    | above t =>
      rcases compareAscending_cases s t with ⟨h, hc⟩ | ⟨h, hc⟩ | ⟨h, hc⟩ <;>
        simp only [Cut.compareTo, compareValueCuts, h, Cut.keyLt, Cut.cls, Cut.ksecs, Cut.knanos, Cut.side] <;>
        simp <;> omega
  | above s =>
    cases b with
    | belowAll => simp [Cut.compareTo, compareValueCuts, Cut.keyLt, Cut.cls]
    | aboveAll => simp [Cut.compareTo, compareValueCuts, Cut.keyLt, Cut.cls]
    | above t =>
      have hst : s = t ↔ (s.secs = t.secs ∧ s.nanos = t.nanos) := by cases s; cases t; simp
      rcases compareAscending_cases s t with ⟨h, hc⟩ | ⟨h, hc⟩ | ⟨h, hc⟩ <;>
        simp only [Cut.compareTo, compareValueCuts, h, Cut.keyLt, Cut.cls, Cut.ksecs, Cut.knanos, Cut.side,
          Cut.above.injEq, hst] <;> simp <;> omega
    | below t =>
      rcases compareAscending_cases s t with ⟨h, hc⟩ | ⟨h, hc⟩ | ⟨h, hc⟩ <;>
        simp only [Cut.compareTo, compareValueCuts, h, Cut.keyLt, Cut.cls, Cut.ksecs, Cut.knanos, Cut.side] <;>
        simp <;> omega

/-- The strict key order is irreflexive, asymmetric and transitive (plain integer reasoning). -/
theorem keyLt_asymm (a b : Cut) : a.keyLt b → ¬ b.keyLt a := by
  unfold Cut.keyLt; omega

theorem keyLt_trans (a b c : Cut) : a.keyLt b → b.keyLt c → a.keyLt c := by
  unfold Cut.keyLt; omega

/-- For cuts at normalised timestamps the key order is the order of positions on the doubled timeline. -/
theorem keyLt_pos (a b : Cut) (ha : a.Normal) (hb : b.Normal) :
    a.keyLt b ↔ (a.cls < b.cls ∨ (a.cls = b.cls ∧ a.pos < b.pos)) := by
  cases a <;> cases b <;>
    simp only [Cut.keyLt, Cut.cls, Cut.ksecs, Cut.knanos, Cut.side, Cut.pos, Cut.Normal, Ts.Normal, Ts.toNs] at * <;>
    (try simp only [Int.lt_irrefl, false_or, true_and, and_false, or_false]) <;>
    omega

/-! ### the predicates in terms of `CompareAscending` alone (no normalisation needed) -/

/-- `a` is before `b` by `CompareAscending`, an absent bound on either side counting as infinitely far. -/
def optCmpLt (a b : Option Ts) : Prop :=
  match a, b with
  | some x, some y => compareAscending x y < 0
  | _, _ => True

/-- `a` is not after `b` by `CompareAscending`, an absent bound on either side counting as infinitely far. -/
def optCmpLe (a b : Option Ts) : Prop :=
  match a, b with
  | some x, some y => compareAscending x y ≤ 0
  | _, _ => True

theorem lower_upper_fieldwise (l u : Option Ts) (rest1 rest2 : Option Ts) :
    ((cutPeriod ⟨l, rest1⟩).1.compareTo (cutPeriod ⟨rest2, u⟩).2 < 0 ↔ optCmpLt l u) ∧
    ((cutPeriod ⟨l, rest1⟩).1.compareTo (cutPeriod ⟨rest2, u⟩).2 ≤ 0 ↔ optCmpLe l u) := by
  cases l <;> cases u <;> cases rest1 <;> cases rest2 <;>
    simp [cutPeriod, Cut.compareTo, compareValueCuts, optCmpLt, optCmpLe] <;>
    (try (split <;> omega))

end ScVerif.C18
