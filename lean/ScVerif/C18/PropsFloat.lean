import ScVerif.C18.F32Lemmas
import ScVerif.C18.F32ErrLemmas
import ScVerif.C18.PropsSeg
/-!
# C18 — property theorems, part 9: the magnitudes are float32

The theorems of PropsSeg compute with exact magnitudes.  The code adds `float32`s (`Sum`, `SumMagnitude`;
every other operation only copies or compares magnitudes, which is exact).  `rnd24`/`addF` (F32.lean) model
IEEE binary32 addition on numerators — tied to Go's arithmetic by the driver (`f32add`).  Here: while the
absolute magnitudes involved total less than 2^23 (so that no partial sum of rising and falling edges
reaches 2^24 units) NOTHING is rounded: the float rendering of `Sum` and `SumMagnitude` is the exact one,
whatever order the unstable sort leaves equal-time edges in, and `C18_sum` speaks about the float code.
Beyond, float32 absorbs small terms, `Sum` leaves the pointwise sum and its result depends on that order
(witnesses) — which is why the correspondence check compares such cases only when all edge times differ.

Only property theorems and their non-vacuity examples live in this file.
-/
namespace ScVerif.C18

/-- float32 addition is exact below 2^24 units: integers of absolute value below 2^24 are float32 values,
and a sum whose operands' absolute values total less than 2^24 is not rounded. -/
theorem C18_float_exact (a b n : Int) :
    (n.natAbs < 16777216 → rnd24 n = n) ∧
    ((a.natAbs : Int) + (b.natAbs : Int) < 16777216 → addF a b = a + b) :=
  ⟨rnd24_small n, addF_small a b⟩

/-- `Sum` in float32 is `Sum`: when twice the total of the absolute magnitudes of all segments is below
2^24 the float rendering computes exactly the list of `C18_sum` — so it is pointwise addition. -/
theorem C18_sum_float (ls : List (List Seg)) (h : 2 * magAbsAll ls < 16777216) :
    sumF ls = sum ls ∧ (AllNonNeg ls → ∀ t, den (sumF ls) t = denSum ls t) := by
  have e := sumF_eq ls h
  exact ⟨e, fun hnn t => by rw [e]; exact C18_sum ls hnn t⟩

/-- … for ANY time-sorted arrangement of the edges (the unstable sort), not only the stable one. -/
theorem C18_sum_float_any_sort (ls : List (List Seg)) (es : List Edge) (h : 2 * magAbsAll ls < 16777216)
    (hp : es.Perm (rawEdges ls)) (hs : SortedT es) :
    sumEdgesF (dropRule (anyInfinite ls)) es = sum ls := by
  have hb : absSum es < 16777216 := by
    rw [absSum_perm hp]
    have := absSum_rawEdges_le ls
    omega
  rw [sumEdgesF_eq _ es hb]
  exact C18_sum_any_sort ls es hp hs

/-- When no two edges share an instant, ANY time-sorted arrangement the unstable sort may produce is the one
the model computes, so `Sum` in float32 is a function of its arguments there, rounding included: the float
rendering `sumF` (what the correspondence check compares rounding cases with) is what every sort yields. -/
theorem C18_sum_float_order_determined (ls : List (List Seg)) (es : List Edge)
    (hp : es.Perm (rawEdges ls)) (hs : SortedT es)
    (hd : (rawEdges ls).Pairwise (fun x y => x.time ≠ y.time)) :
    sumEdgesF (dropRule (anyInfinite ls)) es = sumF ls := by
  have hd' : es.Pairwise (fun x y => x.time ≠ y.time) :=
    hp.symm.pairwise hd (fun {x y} h => fun e => h e.symm)
  have : es = calcCuts ls :=
    sorted_perm_unique es (calcCuts ls) (hp.trans (sortEdges_perm _).symm) hs (sortEdges_sorted _) hd'
  rw [this]; rfl

/-- Beyond the exactness bound float32 rounding changes magnitudes only, never the timing: for ALL lists (no
bound on the magnitudes) and whatever arrangement of equal-time edges the unstable sort produces, the finished
segments of the float rendering of `Sum` have exactly the lengths of those of the exact `Sum` — the breakpoints
of the float result are the breakpoints of the pointwise sum (`C18_sum`), and so is its total finite length. -/
theorem C18_sum_float_timing (ls : List (List Seg)) (es : List Edge)
    (hp : es.Perm (rawEdges ls)) (hs : SortedT es) :
    closedLens (sumEdgesF (dropRule (anyInfinite ls)) es) = closedLens (sum ls) ∧
    closedLens (sumF ls) = closedLens (sum ls) ∧ lenSum (sumF ls) = lenSum (sum ls) := by
  have h1 : closedLens (sumEdgesF (dropRule (anyInfinite ls)) es) = closedLens (sum ls) := by
    rw [sumEdgesF_closedLens _ (dropRule (anyInfinite ls)) es, C18_sum_any_sort ls es hp hs]
  have h2 : closedLens (sumF ls) = closedLens (sum ls) := sumEdgesF_closedLens _ _ _
  exact ⟨h1, h2, by rw [lenSum_eq_closedLens, lenSum_eq_closedLens, h2]⟩

/-- What one rounding can do beyond the bound: every float32 addition `Sum`/`SumMagnitude` perform is within a
relative error of `2^-24` of the exact sum (half a unit in the last of 24 significant bits), for all operands
in the modelled range (no overflow/subnormals) — so a magnitude that leaves the pointwise sum does so by at
most that fraction per addition. -/
theorem C18_float_addition_error (a b : Int) :
    (addF a b - (a + b)).natAbs * 16777216 ≤ (a + b).natAbs :=
  rnd24_error (a + b)

/-- `SumMagnitude` in float32 is the exact total while the absolute magnitudes total less than 2^24. -/
theorem C18_sumMagnitude_float (segs : List Seg) (h : magAbs segs < 16777216) :
    sumMagnitudeF segs = sumMagnitude segs :=
  sumMagnitudeF_eq segs h

/-- Beyond the bound float32 rounds: `2^24 + 1` is `2^24`; `Sum` of `{2^24 for 1ns}` and `{1 for 1ns}` is
`2^24` where the pointwise sum is `2^24 + 1`; and with three edges at one instant the result depends on the
order the sort leaves them in (`2^24` for `+2^24, +1, +1`, but `2^24 + 2` for `+1, +1, +2^24`). -/
theorem C18_float_rounds_witness :
    addF 16777216 1 = 16777216 ∧
    sumF [[⟨16777216, some 1⟩], [⟨1, some 1⟩]] = [⟨16777216, some 1⟩] ∧
    sum [[⟨16777216, some 1⟩], [⟨1, some 1⟩]] = [⟨16777217, some 1⟩] ∧
    sumEdgesF (fun _ => false) [⟨0, 16777216⟩, ⟨0, 1⟩, ⟨0, 1⟩] = [⟨16777216, none⟩] ∧
    sumEdgesF (fun _ => false) [⟨0, 1⟩, ⟨0, 1⟩, ⟨0, 16777216⟩] = [⟨16777218, none⟩] := by
  refine ⟨by decide, by decide, by decide, by decide, by decide⟩

/-! ### The magnitudes beyond the exactness bound: `Sum` in float32 is pointwise addition up to a bounded error -/

/-- The MAGNITUDES of the float `Sum` beyond the exactness bound, as a statement about the step function: for
ALL lists with non-negative lengths (no bound on the magnitudes), whatever arrangement of equal-time edges the
unstable sort produces, and at EVERY instant `t`, the float rendering of `Sum` is within
`2 · (number of edges) · (total of the absolute edge deltas) / 2^24` of the pointwise sum of the arguments' step
functions — the roundings accumulate at most linearly, each one contributing at most `2^-23` of the total
absolute magnitude in play.  The number of edges is at most twice the number of segments and the total of the
absolute deltas at most twice the total of the absolute magnitudes, so the error at any instant is at most
`(segments) · (total absolute magnitude) · 2^-21`.  This covers the open last element too: whether the float and
the exact loop keep or drop it (a float residue where the exact tail is zero, or the other way round) is inside
the bound.  Hypothesis `es.length ≤ 2^23`: more than eight million edges are outside the model (the accumulated
error could then reach the size of the magnitudes themselves). -/
theorem C18_sum_float_error (ls : List (List Seg)) (es : List Edge) (h : AllNonNeg ls)
    (hp : es.Perm (rawEdges ls)) (hs : SortedT es) (hn : es.length ≤ 8388608) (t : Int) :
    ((den (sumEdgesF (dropRule (anyInfinite ls)) es) t - denSum ls t).natAbs : Int) * 16777216
        ≤ 2 * (es.length : Int) * absSum (rawEdges ls) ∧
      es.length ≤ 2 * segCount ls ∧ absSum (rawEdges ls) ≤ 2 * magAbsAll ls := by
  refine ⟨?_, ?_, absSum_rawEdges_le ls⟩
  · have e := sumEdgesF_den_err (anyInfinite ls) es hn t
    rw [C18_sum_any_sort ls es hp hs, C18_sum ls h t, absSum_perm hp] at e
    exact e
  · rw [hp.length_eq]; exact rawEdges_length_le ls

/-- … in particular for the arrangement the model's stable sort produces (`sumF`, what the driver runs). -/
theorem C18_sum_float_error_stable (ls : List (List Seg)) (h : AllNonNeg ls)
    (hn : (rawEdges ls).length ≤ 8388608) (t : Int) :
    ((den (sumF ls) t - denSum ls t).natAbs : Int) * 16777216
      ≤ 2 * ((rawEdges ls).length : Int) * absSum (rawEdges ls) := by
  have hp : (calcCuts ls).Perm (rawEdges ls) := sortEdges_perm (rawEdges ls)
  have hl : (calcCuts ls).length = (rawEdges ls).length := hp.length_eq
  have := (C18_sum_float_error ls (calcCuts ls) h hp (sortEdges_sorted _) (by rw [hl]; exact hn) t).1
  rw [hl] at this
  exact this

/-- `SumMagnitude` in float32 beyond the bound: within `2 · n · (total absolute magnitude) / 2^24` of the exact
total, `n` the number of segments (at most 2^23). -/
theorem C18_sumMagnitude_float_error (segs : List Seg) (hn : segs.length ≤ 8388608) :
    ((sumMagnitudeF segs - sumMagnitude segs).natAbs : Int) * 16777216
      ≤ 2 * (segs.length : Int) * magAbs segs :=
  sumMagnitudeF_err segs hn

/-- Why the bound carries the number of edges: the roundings do accumulate.  Three rising edges of `1` on top of
`2^24` at one instant are absorbed one by one — the float result is `2^24` where the pointwise sum is `2^24 + 3`,
an error of 3 units, three times what a single rounding of the final value could lose (`C18_float_addition_error`:
at most 1 unit at this size); the bound of `C18_sum_float_error` allows `2·4·(2^24+3)/2^24`, i.e. 8 units. -/
theorem C18_sum_float_error_accumulates :
    den (sumEdgesF (fun _ => false) [⟨0, 16777216⟩, ⟨0, 1⟩, ⟨0, 1⟩, ⟨0, 1⟩]) 0 = 16777216 ∧
    den (sumEdges (fun _ => false) [⟨0, 16777216⟩, ⟨0, 1⟩, ⟨0, 1⟩, ⟨0, 1⟩]) 0 = 16777219 ∧
    (rnd24 16777219 - 16777219).natAbs = 1 := by
  refine ⟨by decide, by decide, by decide⟩

/-! Non-vacuity of `C18_sum_float_error`: a rounding input (outside `C18_sum_float`'s bound) satisfies the
hypotheses, and the bound is not trivially slack there (error 1 unit, bound 2·4·(2^24+2)/2^24 < 9 units). -/
example : AllNonNeg [[⟨16777216, some 1⟩], [⟨1, some 1⟩]] ∧
    ¬ 2 * magAbsAll [[⟨16777216, some 1⟩], [⟨1, some 1⟩]] < 16777216 ∧
    (rawEdges [[⟨16777216, some 1⟩], [⟨1, some 1⟩]]).length = 4 ∧
    den (sumF [[⟨16777216, some 1⟩], [⟨1, some 1⟩]]) 0 = 16777216 ∧
    denSum [[⟨16777216, some 1⟩], [⟨1, some 1⟩]] 0 = 16777217 := by
  refine ⟨?_, by decide, by decide, by decide, by decide⟩
  intro l hl s hs len hlen
  simp at hl
  rcases hl with hl | hl <;> subst hl <;> simp at hs <;> subst hs <;> simp at hlen <;> omega

example : (rawEdges [[⟨0, some 3⟩, ⟨16777216, some 2⟩], [⟨0, some 1⟩, ⟨3, some 1⟩]]).Pairwise (fun x y => x.time ≠ y.time) := by
  decide
example : sumF [[⟨0, some 3⟩, ⟨16777216, some 2⟩], [⟨0, some 4⟩, ⟨3, some 3⟩]]
    = [⟨0, some 3⟩, ⟨16777216, some 1⟩, ⟨16777220, some 1⟩, ⟨4, some 2⟩] := by decide

/-! Non-vacuity: the bound holds for the magnitudes the property speaks about, with room to spare. -/
example : 2 * magAbsAll [[⟨2, some 2⟩, ⟨-3, some 1⟩, ⟨-1, none⟩], [⟨-1, some 4⟩]] < 16777216 := by decide
example : sumF [[⟨2, some 2⟩, ⟨-3, some 1⟩, ⟨-1, none⟩], [⟨-1, some 4⟩]]
    = [⟨1, some 2⟩, ⟨-4, some 1⟩, ⟨-2, some 1⟩, ⟨-1, none⟩] := by decide
example : closedLens (sumF [[⟨16777216, some 1⟩, ⟨3, some 2⟩], [⟨1, some 2⟩]]) = [1, 1, 1] ∧
    closedLens (sum [[⟨16777216, some 1⟩, ⟨3, some 2⟩], [⟨1, some 2⟩]]) = [1, 1, 1] ∧
    sumF [[⟨16777216, some 1⟩, ⟨3, some 2⟩], [⟨1, some 2⟩]] ≠ sum [[⟨16777216, some 1⟩, ⟨3, some 2⟩], [⟨1, some 2⟩]] := by decide
example : rnd24 16777219 = 16777220 ∧ rnd24 16777217 = 16777216 ∧ rnd24 (-33554431) = -33554432 := by decide

end ScVerif.C18
