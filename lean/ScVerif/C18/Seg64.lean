import ScVerif.C18.Seg
/-!
# C18 — the duration arithmetic as compiled: `time.Duration` is an `int64`

`Seg.lean` models durations as unbounded integers.  The Go code adds them in 64-bit two's complement
(`cur += l`, `cur+l > d`, `first.Length.AsDuration() + d`, `d = -d`, `cut.at - lastTime`).  This file
repeats every function that does duration arithmetic with `wrap` applied to each `+`, `-` and unary
`-` exactly where the Go code computes one; the driver executes THESE versions, so the correspondence
check also ties the behaviour on near-overflow lengths.  `Seg64Lemmas` proves each of them equal to
its unbounded counterpart whenever the total length of the list (plus the shift) stays below 2^63 ns
(≈ 292 years), which is the explicit hypothesis under which the theorems about `den` speak about the
real code; outside it the compiled behaviour is pinned by witnesses.

Lengths are the values `durationpb.Duration.AsDuration()` returns: an `int64`, saturated by that
library function at ±(2^63−1) ns for protos outside the range — so a saturated length is simply the
length 2^63−1 here.  `Cut` subtracts `l - d` only when `0 < d < l`, which cannot overflow, and
otherwise only compares, so `cutSeg` needs no 64-bit twin.
-/
namespace ScVerif.C18

def two63 : Int := 9223372036854775808

/-- The `int64` value of the mathematical result `x` of one addition/subtraction/negation. -/
def wrap (x : Int) : Int := (x + 9223372036854775808) % 18446744073709551616 - 9223372036854775808

def activeAtLoop64 (d : Int) : Int → Nat → List Seg → Int × Nat
  | cur, i, [] => (cur, i)
  | cur, i, s :: rest =>
    match s.len with
    | none => (cur, i)
    | some l => if wrap (cur + l) > d then (cur, i) else activeAtLoop64 d (wrap (cur + l)) (i + 1) rest

def activeAt64 (d : Int) (segs : List Seg) : Int × Nat :=
  if d < 0 then (d, 0) else activeAtLoop64 d 0 0 segs

def magnitudeAt64 (d : Int) (segs : List Seg) : Int × Bool :=
  if d < 0 then (0, false)
  else
    match segs[(activeAt64 d segs).2]? with
    | none => (0, false)
    | some s => (s.mag, true)

def maxAfter64 (d : Int) (segs : List Seg) : Nat :=
  let i := (activeAt64 d segs).2
  maxIdx (segs.drop i) + i

def durationLoop64 : Int → List Seg → Int × Bool
  | total, [] => (total, false)
  | total, s :: rest =>
    match s.len with
    | none => (total, true)
    | some l => durationLoop64 (wrap (total + l)) rest

def duration64 (segs : List Seg) : Int × Bool := durationLoop64 0 segs

/-- The negative branch of `Shift` as compiled.  The result is a list of OPTIONAL segments: when the
arithmetic has overflowed, `Cut` may return no `after` and the Go code stores that `nil` in `out[0]`. -/
def shiftNegLoop64 (d : Int) : Int → List Seg → List (Option Seg)
  | _, [] => []
  | cur, s :: rest =>
    match s.len with
    | none => (s :: rest).map some
    | some l =>
      if wrap (cur + l) > d then (cutSeg (wrap (d - cur)) s).after :: rest.map some
      else shiftNegLoop64 d (wrap (cur + l)) rest

def shift64 (d : Int) (segs : List Seg) : List (Option Seg) :=
  if d = 0 then segs.map some
  else
    match segs with
    | [] => []
    | first :: rest =>
      if d > 0 then
        if first.mag = 0 then
          match first.len with
          | none => (first :: rest).map some
          | some l => some ⟨first.mag, some (wrap (l + d))⟩ :: rest.map some
        else (⟨0, some d⟩ :: first :: rest).map some
      else shiftNegLoop64 (wrap (-d)) 0 (first :: rest)

def edgesOf64 : Int → List Seg → List Edge
  | _, [] => []
  | cur, s :: rest =>
    let rise := if s.mag ≠ 0 then [Edge.mk cur s.mag] else []
    match s.len with
    | none => rise
    | some l =>
      rise ++ (if s.mag ≠ 0 then [Edge.mk (wrap (cur + l)) (-s.mag)] else []) ++
        edgesOf64 (wrap (cur + l)) rest

def rawEdges64 : List (List Seg) → List Edge
  | [] => []
  | l :: ls => edgesOf64 0 l ++ rawEdges64 ls

def sumGoStep64 (st : List Seg × Int) (c : Edge) : List Seg × Int :=
  let length := wrap (c.time - st.2)
  let result := if st.1.length = 0 then st.1 ++ [⟨0, none⟩] else st.1
  if length = 0 then
    (updLast (fun s => ⟨s.mag + c.delta, s.len⟩) result, st.2)
  else
    let lastMag := lastMagOf result
    (updLast (fun s => ⟨s.mag, some length⟩) result ++ [⟨lastMag + c.delta, none⟩], c.time)

def sumGoEdges64 (drop : Int → Bool) (cuts : List Edge) : List Seg :=
  trimLast drop (cuts.foldl sumGoStep64 ([], 0)).1

/-- `Sum` as compiled. -/
def sum64 (ls : List (List Seg)) : List Seg :=
  sumGoEdges64 (dropRule (anyInfinite ls)) (sortEdges (rawEdges64 ls))

end ScVerif.C18
