import ScVerif.C18.HeapRefine
/-!
# C18 — property theorems, part 14: the heap models ARE the model the code is tied to

"…and never modify their arguments" is proved on heap versions of the operations (PropsHeap, PropsHeapTrace); the
step-function laws are proved on the pure versions (`cutSeg`, `shift`, `sum`, `modeShift`, `modeCut`, `modeSum`), which
are what the driver
runs against the Go code.  Until round 8 the two were connected by examples.  Here: for EVERY heap, reading the
result of the heap version back through the final heap is the pure version applied to the argument read through
the initial heap.  One hypothesis: the slice's elements are addresses of existing cells (`ValidAddrs`: a Go slice
of non-nil pointers).  So the function whose frame property is proved is the function the laws speak about.
All six operations that allocate or write are covered.

Only property theorems and their non-vacuity examples live in this file.
-/
namespace ScVerif.C18

/-- `segmentpb.Cut` on the heap returns pointers that read as the parts `cutSeg` returns, and the same flag. -/
theorem C18_heap_cut_refines (h : Heap) (d : Int) (addr : Nat) (ha : addr < h.cells.length) :
    (heapCut h d addr).2.1.map (readCell (heapCut h d addr).1) = (cutSeg d (readCell h addr)).before ∧
    (heapCut h d addr).2.2.1.map (readCell (heapCut h d addr).1) = (cutSeg d (readCell h addr)).after ∧
    (heapCut h d addr).2.2.2 = (cutSeg d (readCell h addr)).outside :=
  heapCut_refines h d addr ha

/-- `segmentpb.Shift` on the heap — clone + extend, prepend, or the trimming loop with `Cut`; result slice shared
with the argument (`segments[i:]`) or freshly made — reads back as `shift d` of the argument, for any heap, any
`d` of either sign and any slice of existing cells (any offset, spare capacity or not). -/
theorem C18_heap_shift_refines (h : Heap) (d : Int) (sl : Slice) (v : ValidAddrs h (readSlice h sl)) :
    readSegs (heapShift h d sl).1 (heapShift h d sl).2 = shift d (readSegs h sl) :=
  heapShift_refines h d sl v

/-- `proto.Clone` of a segment list reads like the original and consists of existing cells again; `modepb.Shift`
on the heap (clone, then either the new start time or `segmentpb.Shift` on the CLONE's segments) reads back as
`modeShift d` of the argument. -/
theorem C18_heap_modeShift_refines (h : Heap) (d : Int) (m : HeapMode) (v : ValidAddrs h (readSlice h m.segs)) :
    (readSegs (cloneSlice h m.segs).1 (cloneSlice h m.segs).2 = readSegs h m.segs ∧
     ValidAddrs (cloneSlice h m.segs).1 (readSlice (cloneSlice h m.segs).1 (cloneSlice h m.segs).2)) ∧
    (⟨(heapModeShift h d m).2.start, readSegs (heapModeShift h d m).1 (heapModeShift h d m).2.segs⟩ : Mode) =
      modeShift d ⟨m.start, readSegs h m.segs⟩ :=
  ⟨cloneSlice_refines h m.segs v, heapModeShift_refines h d m v⟩

/-- `modepb.Cut` on the heap — two deep clones, `segmentpb.Cut` of the active segment, the two stores into the
clones' backing arrays and the re-slicing — returns modes that read back as the `before` / `after` of `modeCut`,
with the same flag; every early return included.  Hypotheses: the mode's slice lies within an existing array
(`hfull`: as many elements as its header says) and points at existing cells. -/
theorem C18_heap_modeCut_refines (h : Heap) (t : Int) (m : HeapMode) (harr : m.segs.arr < h.arrays.length)
    (v : ValidAddrs h (readSlice h m.segs)) (hfull : (readSlice h m.segs).length = m.segs.len) :
    (heapModeCut h t m).2.1.map (fun b => (⟨b.start, readSegs (heapModeCut h t m).1 b.segs⟩ : Mode)) =
      (modeCut t ⟨m.start, readSegs h m.segs⟩).before ∧
    (heapModeCut h t m).2.2.1.map (fun a => (⟨a.start, readSegs (heapModeCut h t m).1 a.segs⟩ : Mode)) =
      (modeCut t ⟨m.start, readSegs h m.segs⟩).after ∧
    (heapModeCut h t m).2.2.2 = (modeCut t ⟨m.start, readSegs h m.segs⟩).outside :=
  heapModeCut_refines h t m harr v hfull

/-- Why the second hypothesis is there: a slice header that claims more elements than its array holds (not a Go
slice) makes the heap version index differently from the list it reads as — here the header says 3, the array has
2, and `modepb.Cut` at the end of the second segment reports `outside` for the list but not for the header. -/
theorem C18_heap_modeCut_needs_full_slice :
    let h : Heap := ⟨[⟨1, some 2⟩, ⟨2, some 4⟩], [[0, 1]]⟩
    let m : HeapMode := ⟨some 0, ⟨0, 0, 3⟩⟩
    (readSlice h m.segs).length ≠ m.segs.len ∧
    (heapModeCut h 6 m).2.2.2 ≠ (modeCut 6 ⟨m.start, readSegs h m.segs⟩).outside := by
  refine ⟨by decide, by decide⟩

/-- `segmentpb.Sum` on the heap (the in-place loop, then the `result` array): the `result` slice reads as the list
the literal loop builds, and with the final re-slicing (`trimLast`, which touches no memory) it is `sum` of the
lists the cuts were computed from — for any heap and any lists. -/
theorem C18_heap_sum_refines (h : Heap) (cuts : List Edge) (ls : List (List Seg)) :
    readSegs (heapSum h cuts).1 (heapSum h cuts).2 = (cuts.foldl sumGoStep ([], 0)).1 ∧
    trimLast (dropRule (anyInfinite ls)) (readSegs (heapSum h (calcCuts ls)).1 (heapSum h (calcCuts ls)).2) =
      sum ls :=
  ⟨heapSum_refines h cuts, heapSum_sum h ls⟩

/-- `modepb.Sum` on the heap — the alignment loop through `segmentpb.Shift` (whose result slices, shared with the
arguments or freshly made, stay readable while later `Shift`s allocate: `heapShift_valid`), then `segmentpb.Sum` —
reads back as `modeSum` of the modes the arguments read as; `nil` for no modes.  Hypothesis: every mode's slice
consists of existing cells in an existing array (or is empty). -/
theorem C18_heap_modeSum_refines (h : Heap) (ms : List HeapMode) (v : ∀ m ∈ ms, ValidSlice h m.segs) :
    (heapModeSum h ms).2.map (fun r => (⟨r.start,
        trimLast (dropRule (anyInfinite (modeSumLists (ms.map (HeapMode.toMode h)))))
          (readSegs (heapModeSum h ms).1 r.segs)⟩ : Mode)) =
      modeSum (ms.map (HeapMode.toMode h)) :=
  heapModeSum_refines h ms v

/-- What the alignment loop of `modepb.Sum` relies on: the slice `segmentpb.Shift` returns is readable again
(existing cells, existing array), and it reads the same in every later heap. -/
theorem C18_heap_shift_result_stable (h : Heap) (d : Int) (sl : Slice) (vs : ValidSlice h sl) :
    ValidSlice (heapShift h d sl).1 (heapShift h d sl).2 ∧
    ∀ h', (heapShift h d sl).1.Extends h' →
      readSegs h' (heapShift h d sl).2 = shift d (readSegs h sl) := by
  refine ⟨heapShift_valid h d sl vs, fun h' e => ?_⟩
  rw [readSegs_extends' e _ (heapShift_valid h d sl vs)]
  exact heapShift_refines h d sl vs.1

/-- The same for `modepb.Shift` with the mode itself as a heap object (the model of PropsHeapTrace, whose every
intermediate heap leaves the argument alone): what a reader finds behind the RESULT pointer in the last heap of
the trace — start time and segment values — is `modeShift d` of what it finds behind the argument pointer before
the call; `d = 0` returns the argument pointer itself. -/
theorem C18_heap_modeShift_object_refines (h : HeapM) (d : Int) (p : Nat) (v : ValidMode h p) :
    observe (((modeShiftTrace false h d p).1.getLast?).getD h) (modeShiftTrace false h d p).2 =
      ((modeShift d ⟨(observe h p).1, (observe h p).2⟩).start,
       (modeShift d ⟨(observe h p).1, (observe h p).2⟩).segs) ∧
    (d = 0 → (modeShiftTrace false h d p).2 = p) := by
  refine ⟨modeShiftTrace_refines h d p v, fun hd => ?_⟩
  simp [modeShiftTrace, hd]

/-- Frame and function together, for `segmentpb.Shift`: one call, any heap — the result reads as `shift d` of the
argument AND the argument (indeed every pre-existing list of existing cells) reads as before, also at every
intermediate statement. -/
theorem C18_shift_function_and_frame (h : Heap) (d : Int) (sl : Slice) (ha : sl.arr < h.arrays.length)
    (v : ValidAddrs h (readSlice h sl)) :
    readSegs (heapShift h d sl).1 (heapShift h d sl).2 = shift d (readSegs h sl) ∧
    readSegs (heapShift h d sl).1 sl = readSegs h sl ∧
    (∀ hi ∈ (shiftTrace true h d sl).1, readSegs hi sl = readSegs h sl) :=
  ⟨heapShift_refines h d sl v, readSegs_extends (heapShift_extends h d sl) sl ha v,
   fun hi hmem => readSegs_extends (shiftTrace_extends h d sl hi hmem) sl ha v⟩

/-- Why the clause needs its own check.  The variant of `segmentpb.Shift` without `proto.Clone` (which
`C18_shift_without_clone_writes_argument` shows storing into the caller's first segment) RETURNS the right list:
for every heap whose list starts with an existing idle segment that does not occur again in the list, and every
`d > 0`, its result reads back as `shift d` of the argument.  No comparison of results with the step function
finds it; only the comparison of the arguments (or the read-only pages) does. -/
theorem C18_shift_without_clone_same_result (h : Heap) (d l : Int) (sl : Slice) (first : Nat) (rest : List Nat)
    (hd : d > 0) (hs : readSlice h sl = first :: rest) (hf : first < h.cells.length)
    (hcell : readCell h first = ⟨0, some l⟩) (hnot : first ∉ rest) :
    ∃ hl, (shiftTrace false h d sl).1.getLast? = some hl ∧
      readSegs hl (shiftTrace false h d sl).2 = shift d (readSegs h sl) :=
  shiftTrace_noclone_result h d l sl first rest hd hs hf hcell hnot

/-! Non-vacuity: a heap with a slice at an offset and spare capacity satisfies the hypothesis; an address beyond
the cells does not. -/
example : ValidAddrs ⟨[⟨1, some 2⟩, ⟨2, some 4⟩, ⟨3, none⟩], [[2, 0, 1, 2]]⟩
    (readSlice ⟨[⟨1, some 2⟩, ⟨2, some 4⟩, ⟨3, none⟩], [[2, 0, 1, 2]]⟩ ⟨0, 1, 2⟩) := by
  intro a ha
  have : a = 0 ∨ a = 1 := by simpa [readSlice] using ha
  rcases this with rfl | rfl <;> decide
example : ¬ ValidAddrs ⟨[⟨1, some 2⟩], [[0, 7]]⟩ (readSlice ⟨[⟨1, some 2⟩], [[0, 7]]⟩ ⟨0, 0, 2⟩) := by
  intro v
  have := v 7 (by decide)
  simp at this
example :
    (let h : Heap := ⟨[⟨1, some 2⟩, ⟨2, some 4⟩, ⟨3, none⟩], [[2, 0, 1, 2]]⟩
     let r := heapShift h (-3) ⟨0, 1, 3⟩
     (readSegs r.1 r.2, readSegs r.1 ⟨0, 1, 3⟩)) =
    ([⟨2, some 3⟩, ⟨3, none⟩], [⟨1, some 2⟩, ⟨2, some 4⟩, ⟨3, none⟩]) := by decide

example : ValidSlice ⟨[⟨1, some 2⟩, ⟨2, some 4⟩, ⟨3, none⟩], [[0, 1], [2]]⟩ ⟨1, 0, 1⟩ := by
  refine ⟨?_, Or.inl (by decide)⟩
  intro a ha
  have : a = 2 := by simpa [readSlice] using ha
  subst this; decide
example :
    (let h : Heap := ⟨[⟨1, some 2⟩, ⟨2, some 4⟩, ⟨3, none⟩], [[0, 1], [2]]⟩
     let ms : List HeapMode := [⟨some 0, ⟨0, 0, 2⟩⟩, ⟨some 3, ⟨1, 0, 1⟩⟩]
     (modeSum (ms.map (HeapMode.toMode h))).map (fun r => (r.start, r.segs))) =
    some (some 0, [⟨1, some 2⟩, ⟨2, some 1⟩, ⟨5, some 3⟩, ⟨3, none⟩]) := by decide

example :
    (let r := shiftTrace false ⟨[⟨0, some 2⟩, ⟨2, some 2⟩], [[0, 1]]⟩ 3 ⟨0, 0, 2⟩
     (r.1.getLast?.map (fun e => readSegs e r.2), r.1.getLast?.map (fun e => readSegs e ⟨0, 0, 2⟩))) =
    (some (shift 3 [⟨0, some 2⟩, ⟨2, some 2⟩]), some [⟨0, some 5⟩, ⟨2, some 2⟩]) := by decide

end ScVerif.C18
