import ScVerif.C18.Shape
import ScVerif.C18.ShapeOpsLemmas
import ScVerif.C18.PropsSeg
import ScVerif.C18.PropsMode
/-!
# C18 — property theorems, part 7: the `shape` oneof does not disturb the step function

"cut splits without changing the function": `Cut` is the only anchored function that looks at a
segment's `shape`.  Here: the shape has no influence on any magnitude, length or flag `Cut` returns
(erasing shapes commutes with `Cut`, so `C18_cut` speaks about shaped segments too), and every part `Cut`
returns carries the segment's shape, so it stands for the same consumption (`Fixed` if set, else the
magnitude) — at full strength after `fix:` c1d3a57: before it the `before` part of a LENGTH-LESS segment was
returned without the segment's `Fixed` shape (`C18_cut_shape_legacy_fails`, found by the consumption monitor).

Only property theorems and their non-vacuity examples live in this file.
-/
namespace ScVerif.C18

/-- Erasing shapes commutes with `Cut`: the segments (magnitude, length) and the `outside` flag returned for
a shaped segment are those returned for the bare segment, whatever the shape — for every `d`. -/
theorem C18_cut_shape_erase (d : Int) (s : SegS) :
    (cutSegS d s).before.map (·.seg) = (cutSeg d s.seg).before ∧
    (cutSegS d s).after.map (·.seg) = (cutSeg d s.seg).after ∧
    (cutSegS d s).outside = (cutSeg d s.seg).outside := by
  unfold cutSegS cutSeg
  by_cases hd : d ≤ 0
  · simp [hd]
  · simp only [hd, if_false]
    cases hs : s.seg.len with
    | none => simp
    | some l =>
      by_cases hl : l ≤ d
      · simp [hl]
      · simp [hl]

/-- Every part `Cut` returns carries the segment's shape — for every `d` and every shaped segment (the two
parts of the two-sided split, the part cut off the start of a length-less segment, and the segment itself
where it is returned whole). -/
theorem C18_cut_shape (d : Int) (s : SegS) :
    (∀ a, (cutSegS d s).after = some a → a.shape = s.shape) ∧
    (∀ b, (cutSegS d s).before = some b → b.shape = s.shape) := by
  by_cases hd : d ≤ 0
  · simp [cutSegS, hd]
  · cases hs : s.seg.len with
    | none =>
      simp only [cutSegS, hd, if_false, hs]
      exact ⟨fun a ha => (by cases ha; rfl), fun b hb => (by cases hb; rfl)⟩
    | some l =>
      by_cases hl : l ≤ d
      · simp only [cutSegS, hd, if_false, hs, hl, if_true]
        exact ⟨fun a ha => (by cases ha), fun b hb => (by cases hb; rfl)⟩
      · simp only [cutSegS, hd, if_false, hs, hl]
        exact ⟨fun a ha => (by cases ha; rfl), fun b hb => (by cases hb; rfl)⟩

/-- So every part stands for the same consumption (`Fixed` if set, else the magnitude) as the segment it was
cut from: `Cut` splits the consumption function without changing it, for every `d` and every shaped segment —
no hypothesis. -/
theorem C18_cut_shape_same_consumption (d : Int) (s : SegS) :
    (∀ b, (cutSegS d s).before = some b → b.fixed = s.fixed) ∧
    (∀ a, (cutSegS d s).after = some a → a.fixed = s.fixed) := by
  have hmag : ∀ p, ((cutSegS d s).before = some p ∨ (cutSegS d s).after = some p) → p.seg.mag = s.seg.mag := by
    intro p hp
    unfold cutSegS at hp
    by_cases hd : d ≤ 0
    · simp only [hd, if_true] at hp
      rcases hp with hp | hp <;> cases hp; rfl
    · simp only [hd, if_false] at hp
      cases hs : s.seg.len with
      | none => rw [hs] at hp; rcases hp with hp | hp <;> cases hp <;> rfl
      | some l =>
        rw [hs] at hp
        by_cases hl : l ≤ d
        · simp only [hl, if_true] at hp
          rcases hp with hp | hp <;> cases hp; rfl
        · simp only [hl, if_false] at hp
          rcases hp with hp | hp <;> cases hp <;> rfl
  obtain ⟨ha, hb⟩ := C18_cut_shape d s
  refine ⟨fun b hbe => ?_, fun a hae => ?_⟩
  · unfold SegS.fixed
    rw [hb b hbe, hmag b (Or.inl hbe)]
  · unfold SegS.fixed
    rw [ha a hae, hmag a (Or.inr hae)]

/-- For the record, `Cut` before `fix:` c1d3a57 (`cutSegSLegacy`): cutting the length-less segment
`{magnitude 5, Fixed 7}` at `d = 3` returned a `before` part without shape — standing for `5`, where the
segment and the `after` part stand for `7` (the defect `C18/Cut/shape-lost-on-unbounded-before`); the repaired
`Cut` keeps `7` on both, as the same cut of a segment with a length always did. -/
theorem C18_cut_shape_legacy_fails :
    (cutSegSLegacy 3 ⟨⟨5, none⟩, some 7⟩).before = some ⟨⟨5, some 3⟩, none⟩ ∧
    ((cutSegSLegacy 3 ⟨⟨5, none⟩, some 7⟩).before.map (·.fixed)) = some 5 ∧
    ((cutSegSLegacy 3 ⟨⟨5, none⟩, some 7⟩).after.map (·.fixed)) = some 7 ∧
    (cutSegS 3 ⟨⟨5, none⟩, some 7⟩).before = some ⟨⟨5, some 3⟩, some 7⟩ ∧
    (cutSegS 3 ⟨⟨5, some 9⟩, some 7⟩).before = some ⟨⟨5, some 3⟩, some 7⟩ ∧
    (cutSegS 3 ⟨⟨5, some 9⟩, some 7⟩).after = some ⟨⟨5, some 6⟩, some 7⟩ := by
  refine ⟨by decide, by decide, by decide, by decide, by decide, by decide⟩

/-- The old rule differed from the repaired one only there: for a segment with a length, for `d ≤ 0`, or for
a segment without a shape, `cutSegSLegacy` and `cutSegS` agree. -/
theorem C18_cut_shape_legacy_exact (d : Int) (s : SegS) (h : s.seg.len ≠ none ∨ d ≤ 0 ∨ s.shape = none) :
    cutSegSLegacy d s = cutSegS d s := by
  unfold cutSegSLegacy cutSegS
  by_cases hd : d ≤ 0
  · simp [hd]
  · simp only [hd, if_false]
    cases hs : s.seg.len with
    | none =>
      rcases h with h | h | h
      · exact absurd hs h
      · exact absurd h hd
      · simp [h]
    | some l => rfl

/-! ## The shape through `Shift`, `modepb.Cut`, `modepb.Shift` and `Sum` (`ShapeOps.lean`)

These operations carry whole segments into their results.  Erasing the shapes commutes with each of them, so
every step-function theorem of PropsSeg / PropsMode / PropsLaws speaks about shaped lists and modes as they
are; and `Shift` translates the CONSUMPTION function (`Fixed` where set, else the magnitude) too. -/

/-- Erasing shapes commutes with `Shift`, for every `d` and every shaped list. -/
theorem C18_shift_shape_erase (d : Int) (l : List SegS) : eraseS (shiftS d l) = shift d (eraseS l) :=
  shiftS_erase d l

/-- `Shift(d)` translates the consumption function by `d` exactly like the magnitude function — for all lists
with non-negative lengths, every `d` and `t` — provided that, when `d > 0`, an idle first segment (magnitude 0)
does not claim a non-zero `Fixed` consumption: that segment is cloned WITH its shape and lengthened. -/
theorem C18_shift_consumption (d : Int) (l : List SegS) (h : NonNeg (eraseS l))
    (hidle : 0 < d → ∀ f, l.head? = some f → f.seg.mag = 0 → f.fixed = 0) (t : Int) :
    denF (shiftS d l) t = if t < 0 then 0 else denF l (t - d) :=
  denF_shiftS d l h hidle t

/-- Recorded behaviour outside the hypothesis (and outside C18's step function, which reads magnitudes): the
self-contradictory idle segment `{magnitude 0, Fixed 7, 3ns}` shifted right by 2 is lengthened with its shape, so
the result claims a consumption of 7 on `[0, 2)` where the translated function is 0. -/
theorem C18_shift_shape_idle_first_witness :
    shiftS 2 [⟨⟨0, some 3⟩, some 7⟩] = [⟨⟨0, some 5⟩, some 7⟩] ∧
    denF (shiftS 2 [⟨⟨0, some 3⟩, some 7⟩]) 0 = 7 ∧ denF [⟨⟨0, some 3⟩, some 7⟩] (0 - 2) = 0 ∧
    den (eraseS (shiftS 2 [⟨⟨0, some 3⟩, some 7⟩])) 0 = 0 := by
  refine ⟨by decide, by decide, by decide, by decide⟩

/-- Erasing shapes commutes with `modepb.Cut` (both parts and the flag) and with `modepb.Shift`, for every
instant / offset and every mode. -/
theorem C18_modes_shape_erase (t d : Int) (m : ModeS) :
    (modeCutS t m).before.map ModeS.erase = (modeCut t m.erase).before ∧
    (modeCutS t m).after.map ModeS.erase = (modeCut t m.erase).after ∧
    (modeCutS t m).outside = (modeCut t m.erase).outside ∧
    (modeShiftS d m).erase = modeShift d m.erase :=
  ⟨(modeCutS_erase t m).1, (modeCutS_erase t m).2.1, (modeCutS_erase t m).2.2, modeShiftS_erase d m⟩

/-- `modepb.Cut` splits the CONSUMPTION function of a mode at `t` without changing it, exactly like the
magnitude function (`C18_modes_cut`): for every instant and every shaped mode with non-negative lengths (full
strength after `fix:` c1d3a57; before, a cut through a length-less segment lost that segment's shape on the
`before` mode). -/
theorem C18_modes_cut_consumption (t : Int) (m : ModeS) (h : NonNeg (eraseS m.segs)) :
    (∀ x, x < t → modeDenOpt t ((modeCutS t m).before.map ModeS.toFixed) x = modeDen t m.toFixed x) ∧
    (∀ x, t ≤ x → modeDenOpt t ((modeCutS t m).before.map ModeS.toFixed) x = 0) ∧
    (∀ x, t ≤ x → modeDenOpt t ((modeCutS t m).after.map ModeS.toFixed) x = modeDen t m.toFixed x) := by
  obtain ⟨hb, ha, _⟩ := modeCutS_toFixed t m
  rw [hb, ha]
  exact C18_modes_cut t m.toFixed (nonNeg_toFixed m.segs h)

/-- The non-timing fields of a mode (id, title, description, voltage, normal — one opaque token): both parts of
`modepb.Cut` and the result of `modepb.Shift` carry the argument's (they are `proto.Clone`s of it or the argument
itself), `modepb.Sum` sets none ("No metadata will be set on the returned mode"). -/
theorem C18_modes_metadata (t d : Int) (m : ModeS) (ms : List ModeS) :
    (∀ b, (modeCutS t m).before = some b → b.info = m.info) ∧
    (∀ a, (modeCutS t m).after = some a → a.info = m.info) ∧
    (modeShiftS d m).info = m.info ∧
    (∀ r, modeSumS ms = some r → r.info = 0) := by
  refine ⟨?_, ?_, ?_, ?_⟩
  · intro b hb
    unfold modeCutS at hb
    split at hb
    · cases hb; rfl
    · simp only [] at hb
      split at hb
      · cases hb
      · split at hb
        · cases hb; rfl
        · split at hb
          · cases hb
          · simp only [Option.some.injEq] at hb
            subst hb
            split <;> rfl
  · intro a ha
    unfold modeCutS at ha
    split at ha
    · cases ha; rfl
    · simp only [] at ha
      split at ha
      · cases ha; rfl
      · split at ha
        · cases ha
        · split at ha
          · cases ha
          · simp only [Option.some.injEq] at ha
            subst ha
            split <;> rfl
  · unfold modeShiftS
    split
    · rfl
    · split <;> rfl
  · intro r hr
    unfold modeSumS at hr
    cases hm : modeSum (ms.map ModeS.erase) with
    | none => rw [hm] at hr; cases hr
    | some m0 =>
      rw [hm] at hr
      simp only [Option.map_some, Option.some.injEq] at hr
      subst hr
      rfl

/-- `Sum` and `modepb.Sum` ignore shapes on the way in and return none ("We ignore shape for now"): the
magnitudes and lengths of the result are those of the sum of the erased lists, whatever the shapes were. -/
theorem C18_sum_shapeless (ls : List (List SegS)) (ms : List ModeS) :
    eraseS (sumS ls) = sum (ls.map eraseS) ∧ (∀ r ∈ sumS ls, r.shape = none) ∧
    (modeSumS ms).map ModeS.erase = modeSum (ms.map ModeS.erase) ∧
    (∀ r, modeSumS ms = some r → ∀ s ∈ r.segs, s.shape = none) := by
  refine ⟨?_, ?_, ?_, ?_⟩
  · simp [sumS, eraseS, List.map_map, Function.comp_def]
  · intro r hr
    obtain ⟨a, _, rfl⟩ := List.mem_map.mp hr
    rfl
  · unfold modeSumS
    cases modeSum (ms.map ModeS.erase) with
    | none => rfl
    | some m => simp [ModeS.erase, eraseS, List.map_map, Function.comp_def]
  · intro r hr s hs
    unfold modeSumS at hr
    cases hm : modeSum (ms.map ModeS.erase) with
    | none => rw [hm] at hr; cases hr
    | some m =>
      rw [hm] at hr
      simp only [Option.map_some, Option.some.injEq] at hr
      subst hr
      obtain ⟨a, _, rfl⟩ := List.mem_map.mp hs
      rfl

/-! Non-vacuity: shaped lists through the operations. -/
example : shiftS (-3) [⟨⟨1, some 2⟩, some 4⟩, ⟨⟨2, some 4⟩, some 6⟩, ⟨⟨3, none⟩, none⟩]
    = [⟨⟨2, some 3⟩, some 6⟩, ⟨⟨3, none⟩, none⟩] := by decide
example : shiftS 2 [⟨⟨5, some 3⟩, some 7⟩] = [⟨⟨0, some 2⟩, none⟩, ⟨⟨5, some 3⟩, some 7⟩] := by decide
example : denF (shiftS 2 [⟨⟨5, some 3⟩, some 7⟩]) 3 = 7 ∧ denF [⟨⟨5, some 3⟩, some 7⟩] 1 = 7 := by decide
example : (modeCutS 5 ⟨some 2, [⟨⟨1, some 2⟩, some 9⟩, ⟨⟨2, some 4⟩, some 6⟩], 7⟩).after
    = some ⟨some 5, [⟨⟨2, some 3⟩, some 6⟩], 7⟩ := by decide
example : (modeCutS 5 ⟨some 2, [⟨⟨1, some 2⟩, some 9⟩, ⟨⟨2, some 4⟩, some 6⟩], 7⟩).before
    = some ⟨some 2, [⟨⟨1, some 2⟩, some 9⟩, ⟨⟨2, some 1⟩, some 6⟩], 7⟩ := by decide
example : modeSumS [⟨some 0, [⟨⟨1, some 2⟩, some 9⟩], 3⟩, ⟨none, [⟨⟨2, some 2⟩, none⟩], 4⟩]
    = some ⟨some 0, [⟨⟨3, some 2⟩, none⟩], 0⟩ := by decide
example : (modeCutS 5 ⟨some 2, [⟨⟨1, some 2⟩, some 9⟩, ⟨⟨2, none⟩, some 6⟩], 0⟩).before
    = some ⟨some 2, [⟨⟨1, some 2⟩, some 9⟩, ⟨⟨2, some 1⟩, some 6⟩], 0⟩ := by decide
example : sumS [[⟨⟨1, some 2⟩, some 9⟩], [⟨⟨2, some 2⟩, none⟩]] = [⟨⟨3, some 2⟩, none⟩] := by decide

end ScVerif.C18
