import ScVerif.C18.Shape
import ScVerif.C18.PropsSeg
/-!
# C18 — property theorems, part 7: the `shape` oneof does not disturb the step function

"cut splits without changing the function": `Cut` is the only anchored function that looks at a
segment's `shape`.  Here: the shape has no influence on any magnitude, length or flag `Cut` returns
(erasing shapes commutes with `Cut`, so `C18_cut` speaks about shaped segments too), and which part
carries which shape.  Recorded, not a violation of C18 (the step function reads magnitudes): the `before`
part of a LENGTH-LESS segment is returned without the segment's `Fixed` shape, while every other part
keeps it — `C18_cut_shape_unbounded_before`.

Only property theorems and their non-vacuity examples live in this file.
-/
namespace ScVerif.C18

/-- Erasing shapes commutes with `Cut`: the segments (magnitude, length) and the `outside` flag returned for
a shaped segment are those returned for the bare segment, whatever the shape — for every `d`. -/
theorem C18_cut_shape_erase (d : Int) (s : SegS) :
    (cutSegS d s).before.map (·.seg) = (cutSeg d s.seg).before ∧
    (cutSegS d s).after.map (·.seg) = (cutSeg d s.seg).after ∧
    (cutSegS d s).outside = (cutSeg d s.seg).outside := by
  unfold cutSegS cutSeg
  by_cases hd : d ≤ 0
  · simp [hd]
  · simp only [hd, if_false]
    cases hs : s.seg.len with
    | none => simp
    | some l =>
      by_cases hl : l ≤ d
      · simp [hl]
      · simp [hl]

/-- Which part carries which shape: `after` always has the segment's shape; `before` has it too, except
when the segment is length-less and `d > 0`, where `before` is built without a shape. -/
theorem C18_cut_shape (d : Int) (s : SegS) :
    (∀ a, (cutSegS d s).after = some a → a.shape = s.shape) ∧
    (∀ b, (cutSegS d s).before = some b →
      ((s.seg.len ≠ none ∨ d ≤ 0) → b.shape = s.shape) ∧
      (s.seg.len = none → 0 < d → b.shape = none)) := by
  by_cases hd : d ≤ 0
  · simp [cutSegS, hd]
  · have hd' : 0 < d := by omega
    cases hs : s.seg.len with
    | none =>
      simp only [cutSegS, hd, if_false, hs]
      refine ⟨fun a ha => (by cases ha; rfl), fun b hb => ?_⟩
      cases hb
      exact ⟨fun h => by simp at h, fun _ _ => rfl⟩
    | some l =>
      by_cases hl : l ≤ d
      · simp only [cutSegS, hd, if_false, hs, hl, if_true]
        refine ⟨fun a ha => (by cases ha), fun b hb => ?_⟩
        cases hb
        exact ⟨fun _ => rfl, fun h => by simp at h⟩
      · simp only [cutSegS, hd, if_false, hs, hl]
        refine ⟨fun a ha => (by cases ha; rfl), fun b hb => ?_⟩
        cases hb
        exact ⟨fun _ => rfl, fun h => by simp at h⟩

/-- So wherever the shape is kept, every part stands for the same consumption (`Fixed` if set, else the
magnitude) as the segment it was cut from. -/
theorem C18_cut_shape_same_consumption (d : Int) (s : SegS) (h : s.seg.len ≠ none ∨ d ≤ 0) :
    (∀ b, (cutSegS d s).before = some b → b.fixed = s.fixed) ∧
    (∀ a, (cutSegS d s).after = some a → a.fixed = s.fixed) := by
  have hmag : ∀ p, ((cutSegS d s).before = some p ∨ (cutSegS d s).after = some p) → p.seg.mag = s.seg.mag := by
    intro p hp
    unfold cutSegS at hp
    by_cases hd : d ≤ 0
    · simp only [hd, if_true] at hp
      rcases hp with hp | hp <;> cases hp; rfl
    · simp only [hd, if_false] at hp
      cases hs : s.seg.len with
      | none => rw [hs] at hp; rcases hp with hp | hp <;> cases hp <;> rfl
      | some l =>
        rw [hs] at hp
        by_cases hl : l ≤ d
        · simp only [hl, if_true] at hp
          rcases hp with hp | hp <;> cases hp; rfl
        · simp only [hl, if_false] at hp
          rcases hp with hp | hp <;> cases hp <;> rfl
  obtain ⟨ha, hb⟩ := C18_cut_shape d s
  refine ⟨fun b hbe => ?_, fun a hae => ?_⟩
  · unfold SegS.fixed
    rw [((hb b hbe).1 h), hmag b (Or.inl hbe)]
  · unfold SegS.fixed
    rw [ha a hae, hmag a (Or.inr hae)]

/-- Recorded behaviour (outside C18's step function, which reads magnitudes): cutting the length-less
segment `{magnitude 5, Fixed 7}` at `d = 3` returns a `before` part without shape — it stands for `5`, the
segment and the `after` part for `7`; the same cut of the same segment with a length keeps `7` on both. -/
theorem C18_cut_shape_unbounded_before :
    (cutSegS 3 ⟨⟨5, none⟩, some 7⟩).before = some ⟨⟨5, some 3⟩, none⟩ ∧
    ((cutSegS 3 ⟨⟨5, none⟩, some 7⟩).before.map (·.fixed)) = some 5 ∧
    ((cutSegS 3 ⟨⟨5, none⟩, some 7⟩).after.map (·.fixed)) = some 7 ∧
    (cutSegS 3 ⟨⟨5, some 9⟩, some 7⟩).before = some ⟨⟨5, some 3⟩, some 7⟩ ∧
    (cutSegS 3 ⟨⟨5, some 9⟩, some 7⟩).after = some ⟨⟨5, some 6⟩, some 7⟩ := by
  refine ⟨by decide, by decide, by decide, by decide, by decide⟩

end ScVerif.C18
